/-
  T2N.Lemmas.ExtIt.Scan — Italian at the scanner: lifting of interpreter runs (integer and decimal mode),
  digit dictation (C08), decimals (C05), the scanner corollaries of C16.
  The scanner lemmas are stated for an arbitrary `Lang` with the two facts they need
  (`AccOK`: an accepted word is neither skipped nor the separator; `DigitLang`: the four kinds of dictation step).
-/
import T2N.Lemmas.ExtIt.Lz
import T2N.Lemmas.SimpleCC
import T2N.Spec.Spellers

set_option maxRecDepth 100000

namespace T2N.ExtIt
open T2N T2N.Spec
open T2N.C01En (mk lsb lsb_zero lsb_ne_nil lsb_rev_dec mk_nil)
open T2N.EnExt (setLz lookup_mem replicate_map wt sp skipW pushWords pushAll_wordTokens findNumbers_words
  testWord_eq push_word parser_push_nosep tracker_numberEnd tracker_advanced numberEnd_int pendL pz St grpDigits
  dg dg_spec dg_dictation pushWords_append SI small_zeroThr)

/-! ## an accepted word is a real word -/

/-- what the scanner lemmas need to know about the interpreter -/
def AccOK (l : Lang) : Prop :=
  ∀ w b, Acc (l.apply w b).1 → skipW w = false ∧ l.isDecSep w = false

theorem ws_not_vowel (c : Char) (h : simpleIsWs c = true) : It.isVowelEnding c = false := by
  unfold simpleIsWs at h
  simp only [Bool.or_eq_true, beq_iff_eq] at h
  rcases h with (rfl | rfl) | rfl <;> rfl

theorem trim_ws (w : Word) (h : w.all simpleIsWs = true) : trimEndBy It.isVowelEnding w = w := by
  unfold trimEndBy
  cases hr : w.reverse with
  | nil => rw [List.dropWhile_nil, ← hr, List.reverse_reverse]
  | cons c t =>
    have hc : c ∈ w := by
      have : c ∈ w.reverse := by rw [hr]; exact List.mem_cons_self
      simpa using this
    have := ws_not_vowel c (List.all_eq_true.mp h c hc)
    rw [List.dropWhile_cons, if_neg (by rw [this]; exact Bool.false_ne_true), ← hr, List.reverse_reverse]

theorem lemmatize_ws (w : Word) (h : w.all simpleIsWs = true) : It.lemmatize w = w := by
  unfold It.lemmatize
  dsimp only
  rw [trim_ws w h]
  split <;> rfl

theorem longestAt_ws (c : Char) (cs : Word) (h : simpleIsWs c = true) : longestAt It.patterns (c :: cs) = none := by
  unfold simpleIsWs at h
  simp only [Bool.or_eq_true, beq_iff_eq] at h
  rcases h with (rfl | rfl) | rfl <;> rfl

theorem firstMatch_ws : ∀ (w : Word) (i : Nat), w.all simpleIsWs = true → firstMatch It.patterns w i = none := by
  intro w
  induction w with
  | nil => intro i _; rfl
  | cons c cs ih =>
    intro i h
    rw [List.all_cons, Bool.and_eq_true] at h
    rw [firstMatch, longestAt_ws c cs h.1]
    exact ih (i + 1) h.2

theorem isSplittable_ws (w : Word) (h : w.all simpleIsWs = true) : isSplittable It.patterns w = false := by
  unfold isSplittable
  rw [firstMatch_ws w 0 h]

theorem vocab_keys_ok :
    It.vocab.all (fun p => match p.1 with | [] => false | c :: _ => !simpleIsWs c) = true := by decide

theorem lookup_ws (w : Word) (h : w.all simpleIsWs = true) : It.vocab.lookup w = none := by
  cases hl : It.vocab.lookup w with
  | none => rfl
  | some a =>
    exfalso
    have hm := lookup_mem w a _ hl
    have hk := List.all_eq_true.mp vocab_keys_ok _ hm
    cases w with
    | nil => exact absurd hk (by simp)
    | cons c t =>
      rw [List.all_cons, Bool.and_eq_true] at h
      dsimp only at hk
      rw [h.1] at hk
      exact absurd hk (by decide)

theorem apply_ws (w : Word) (b : DS) (h : w.all simpleIsWs = true) : (It.apply w b).1 = some .nan := by
  show (It.applyFuel (1 + 1) w b).1 = _
  rw [applyFuel_nosplit 1 w b (by rw [lemmatize_ws w h]; exact isSplittable_ws w h), post_fst]
  unfold actOf
  rw [lemmatize_ws w h, lookup_ws w h]
  split <;> rfl

/-- a word that the Italian interpreter accepts (or answers `Incomplete` to) is neither skipped by the scanner
nor the decimal separator -/
theorem accOK_it : AccOK It.lang := by
  intro w b h
  have hnan : ∀ w', w = w' → (It.apply w' b).1 = some .nan → False := by
    intro w' e hx
    subst e
    have h' : Acc (It.apply w b).1 := h
    rw [hx] at h'
    exact not_acc_nan h'
  constructor
  · unfold skipW
    rw [Bool.or_eq_false_iff]
    constructor
    · cases hq : (w == ['-']) with
      | false => rfl
      | true => exact (hnan ['-'] (by simpa using hq) rfl).elim
    · cases hq : w.all simpleCC.isWhitespace with
      | false => rfl
      | true => exact (hnan w rfl (apply_ws w b hq)).elim
  · cases hq : It.lang.isDecSep w with
    | false => rfl
    | true =>
      have : w = w!"virgola" := by
        have : (w == w!"virgola") = true := hq
        simpa using this
      exact (hnan _ this rfl).elim

/-! ## lifting an interpreter run to the scanner (integer mode) -/

theorem lift_run (l : Lang) (hacc : AccOK l) (thr : Nat → Bool) : ∀ (ws : List Word) (b : DS) (inc : Bool) (r : DS),
    execGroupFrom l.apply ws b inc = .ok r → ∀ (s : Scanner) (i : Nat), SI s b →
    ∃ s', pushWords (scanCfg l thr) s i ws = .ok s' ∧ SI s' r := by
  intro ws
  induction ws with
  | nil =>
    intro b inc r h s i hs
    rw [execGroupFrom] at h
    cases inc with
    | true => exact absurd h (by simp)
    | false =>
      have : b = r := by simpa using h
      rw [← this]
      exact ⟨s, rfl, hs⟩
  | cons w ws ih =>
    intro b inc r h s i hs
    rw [execGroupFrom] at h
    obtain ⟨hp, hq, hh⟩ := hs
    rcases hx : l.apply w b with ⟨st, b1⟩
    rw [hx] at h
    have hx' : l.apply w s.parser.int = (st, b1) := by rw [hp]; exact hx
    have hpush : st = none ∨ st = some .incomplete → s.parser.push l w = (st, { int := b1 }) := by
      intro hst
      have hw := hacc w b (by rw [hx]; exact hst)
      rw [parser_push_nosep l s.parser w (by rw [hp]) hw.2, hx', hp]
    rw [pushWords]
    cases st with
    | none =>
      have hw := hacc w b (by rw [hx]; exact Or.inl rfl)
      rw [push_word l thr s i w hw.1, hpush (Or.inl rfl)]
      exact ih b1 false r h _ (i + 2) ⟨rfl, hq, hh⟩
    | some e =>
      cases e with
      | incomplete =>
        have hw := hacc w b (by rw [hx]; exact Or.inr rfl)
        rw [push_word l thr s i w hw.1, hpush (Or.inr rfl)]
        exact ih b1 true r h _ (i + 2) ⟨rfl, hq, hh⟩
      | overlap => exact absurd h (by simp)
      | nan => exact absurd h (by simp)
      | frozen => exact absurd h (by simp)

/-- end of a pending integer-mode number under threshold 0: its text is appended to the queue -/
theorem finalize_run (l : Lang) (s : Scanner) (r : DS) (text : Word) (val : Value) (hs : SI s r)
    (hne : r.isEmpty = false) (hf : l.formatW r = .ok (text, val)) :
    ∃ sf, s.finalize (scanCfg l zeroThr) = .ok sf ∧ sf.parser = {} ∧ sf.tracker.onHold = none ∧
      sf.tracker.queue.map (·.text) = [text] := by
  obtain ⟨hp, hq, hh⟩ := hs
  unfold Scanner.finalize
  have hn : s.parser.hasNumber = true := by
    rw [hp]; show (!r.isEmpty) = true; rw [hne]; rfl
  rw [hn, if_pos rfl]
  unfold Scanner.numberEnd
  have hfin : s.parser.finish (scanCfg l zeroThr).lang = .ok (text, val) := by
    rw [hp]; exact hf
  rw [hfin]
  dsimp only
  rw [small_zeroThr, Bool.and_false]
  obtain ⟨t1, t2⟩ := tracker_numberEnd s.tracker s.parser.isOrdinal text val hh
  refine ⟨_, rfl, rfl, t1, ?_⟩
  show List.map (·.text) (s.tracker.numberEnd s.parser.isOrdinal text val false).queue = _
  rw [t2, hq]
  rfl

/-- **whatever validates is found by the scanner** (threshold 0): a word list accepted by
`text2digitsWords` yields exactly one occurrence, with the same text -/
theorem scan_of_validate (l : Lang) (hacc : AccOK l) (ws : List Word) (t : Word)
    (h : text2digitsWords l ws = .ok t) : occTexts l zeroThr ws = some [t] := by
  unfold text2digitsWords at h
  cases hx : execGroup l.apply ws with
  | error e => rw [hx] at h; exact absurd h (by simp)
  | ok r =>
    rw [hx] at h
    dsimp only at h
    cases hne : r.isEmpty with
    | true => rw [hne, if_pos rfl] at h; exact absurd h (by simp)
    | false =>
      rw [hne, if_neg Bool.false_ne_true] at h
      cases hf : l.formatW r with
      | error f => rw [hf] at h; exact absurd h (by simp)
      | ok tv =>
        obtain ⟨t', val⟩ := tv
        rw [hf] at h
        have : t' = t := by simpa using h
        subst this
        obtain ⟨s1, e1, hs1⟩ := lift_run l hacc zeroThr ws DS.new false r hx {} 0 ⟨rfl, rfl, rfl⟩
        obtain ⟨sf, e2, _, _, hq⟩ := finalize_run l s1 r t' val hs1 hne hf
        unfold occTexts
        rw [findNumbers_words, e1]
        dsimp only
        rw [e2]
        dsimp only
        rw [hq]

/-! ## digit dictation -/

/-- the four kinds of step of an interpreter on dictated digits (`dw d`: the word of digit `d`) -/
structure DigitLang (l : Lang) (dw : Nat → Word) : Prop where
  noskip : ∀ d, d < 10 → skipW (dw d) = false ∧ l.isDecSep (dw d) = false
  zero_empty : ∀ z, l.apply (dw 0) { rbuf := [], lz := z } = (none, { rbuf := [], lz := z + 1 })
  zero_pend : ∀ z e, e ≠ 0 → ∃ er, er ≠ Err.incomplete ∧
    l.apply (dw 0) { rbuf := [e], lz := z } = (some er, { rbuf := [e], lz := z })
  digit_empty : ∀ z d, d ≠ 0 → d < 10 → l.apply (dw d) { rbuf := [], lz := z } = (none, { rbuf := [d], lz := z })
  digit_pend : ∀ z e d, e ≠ 0 → d ≠ 0 → d < 10 → ∃ er, er ≠ Err.incomplete ∧
    l.apply (dw d) { rbuf := [e], lz := z } = (some er, { rbuf := [e], lz := z })

/-- an accepted digit word -/
theorem step_accept (l : Lang) (s : Scanner) (pos z z' : Nat) (pend pend' : Option Nat) (q : List Word) (w : Word)
    (hw : skipW w = false ∧ l.isDecSep w = false) (hst : St s z pend q)
    (ha : l.apply w { rbuf := pendL pend, lz := z } = (none, { rbuf := pendL pend', lz := z' })) :
    ∃ s', s.push (scanCfg l zeroThr) pos (wt w) = .ok s' ∧ St s' z' pend' q := by
  obtain ⟨hp, hh, hq⟩ := hst
  have hpush : s.parser.push l w = (none, pz z' pend') := by
    rw [parser_push_nosep l s.parser w (by rw [hp]; rfl) hw.2, hp]
    have ha' : l.apply w (pz z pend).int = (none, { rbuf := pendL pend', lz := z' }) := ha
    rw [ha']; rfl
  rw [push_word l zeroThr s pos w hw.1, hpush]
  exact ⟨_, rfl, rfl, hh, hq⟩

/-- a word refused (not with `Incomplete`) while the integer-mode number `r` is open: that number is emitted and
the word starts the next one -/
theorem step_reject_run (l : Lang) (s : Scanner) (pos z' : Nat) (pend' : Option Nat) (r : DS) (text : Word)
    (val : Value) (w : Word) (er : Err) (her : er ≠ .incomplete)
    (hw : skipW w = false ∧ l.isDecSep w = false) (hs : s.parser = { int := r } ∧ s.tracker.onHold = none)
    (hne : r.isEmpty = false) (hf : l.formatW r = .ok (text, val))
    (ha : l.apply w r = (some er, r))
    (hb : l.apply w {} = (none, { rbuf := pendL pend', lz := z' })) :
    ∃ s', s.push (scanCfg l zeroThr) pos (wt w) = .ok s' ∧ s'.parser = pz z' pend' ∧ s'.tracker.onHold = none ∧
      s'.tracker.queue.map (·.text) = s.tracker.queue.map (·.text) ++ [text] := by
  obtain ⟨hp, hh⟩ := hs
  have hpush : s.parser.push l w = (some er, { int := r }) := by
    rw [parser_push_nosep l s.parser w (by rw [hp]) hw.2, hp]
    have ha' : l.apply w ({ int := r } : Parser).int = (some er, r) := ha
    rw [ha']
  have hrej : s.push (scanCfg l zeroThr) pos (wt w) =
      Scanner.pushRejected (scanCfg l zeroThr) { s with parser := { int := r } } pos (wt w) := by
    rw [push_word l zeroThr s pos w hw.1, hpush]
    cases er with
    | incomplete => exact absurd rfl her
    | overlap => rfl
    | nan => rfl
    | frozen => rfl
  rw [hrej]
  unfold Scanner.pushRejected
  have hn : ({ s with parser := { int := r } } : Scanner).parser.hasNumber = true := by
    show (!r.isEmpty) = true; rw [hne]; rfl
  rw [if_pos hn]
  unfold Scanner.numberEnd
  have hfin : ({ s with parser := { int := r } } : Scanner).parser.finish (scanCfg l zeroThr).lang =
      .ok (text, val) := hf
  rw [hfin]
  dsimp only
  rw [small_zeroThr, Bool.and_false]
  have hpush2 : Parser.push (scanCfg l zeroThr).lang {} (wt w).lower = (none, pz z' pend') := by
    show ({} : Parser).push l w = _
    rw [parser_push_nosep l {} w rfl hw.2]
    have hb' : l.apply w ({} : Parser).int = (none, { rbuf := pendL pend', lz := z' }) := hb
    rw [hb']; rfl
  rw [hpush2]
  obtain ⟨t1, t2⟩ := tracker_numberEnd s.tracker r.isOrdinal text val hh
  refine ⟨_, rfl, rfl, t1, ?_⟩
  show List.map (·.text) (s.tracker.numberEnd r.isOrdinal text val false).queue = _
  rw [t2, List.map_append]
  rfl

theorem format_pz (l : Lang) (z e : Nat) :
    ({ rbuf := [e], lz := z } : DS).isEmpty = false ∧
    l.formatW { rbuf := [e], lz := z } =
      .ok ((grpDigits z (some e)).map digitChar, .dec (grpDigits z (some e)) []) := by
  constructor
  · rfl
  · unfold Lang.formatW
    have hr : ({ rbuf := [e], lz := z } : DS).render = List.replicate z 0 ++ [e] := rfl
    rw [hr]
    have : (List.replicate z 0 ++ [e]).isEmpty = false := by simp
    rw [this, if_neg Bool.false_ne_true]
    rfl

/-- a refused digit word: the pending number ends, the word starts the next one -/
theorem step_reject (l : Lang) (s : Scanner) (pos z z' e : Nat) (pend' : Option Nat) (q : List Word) (w : Word)
    (er : Err) (her : er ≠ .incomplete)
    (hw : skipW w = false ∧ l.isDecSep w = false) (hst : St s z (some e) q)
    (ha : l.apply w { rbuf := [e], lz := z } = (some er, { rbuf := [e], lz := z }))
    (hb : l.apply w {} = (none, { rbuf := pendL pend', lz := z' })) :
    ∃ s', s.push (scanCfg l zeroThr) pos (wt w) = .ok s' ∧
      St s' z' pend' (q ++ [(grpDigits z (some e)).map digitChar]) := by
  obtain ⟨hp, hh, hq⟩ := hst
  obtain ⟨s', e1, h1, h2, h3⟩ := step_reject_run l s pos z' pend' { rbuf := [e], lz := z } _ _ w er her hw
    ⟨hp, hh⟩ (format_pz l z e).1 (format_pz l z e).2 ha hb
  exact ⟨s', e1, h1, h2, by rw [h3, hq]⟩

theorem finalize_empty (l : Lang) (s : Scanner) (q : List Word) (hst : St s 0 none q) :
    ∃ sf, s.finalize (scanCfg l zeroThr) = .ok sf ∧ sf.tracker.queue.map (·.text) = q := by
  obtain ⟨hp, _, hq⟩ := hst
  unfold Scanner.finalize
  have : s.parser.hasNumber = false := by rw [hp]; rfl
  rw [this, if_neg Bool.false_ne_true]
  exact ⟨s, rfl, hq⟩

theorem finalize_pending (l : Lang) (s : Scanner) (z : Nat) (pend : Option Nat) (q : List Word) (hst : St s z pend q)
    (hne : z ≠ 0 ∨ pend ≠ none) :
    ∃ sf, s.finalize (scanCfg l zeroThr) = .ok sf ∧
      sf.tracker.queue.map (·.text) = q ++ [(grpDigits z pend).map digitChar] := by
  obtain ⟨hp, hh, hq⟩ := hst
  unfold Scanner.finalize
  have hgne : grpDigits z pend ≠ [] := by
    unfold grpDigits
    rcases hne with h | h
    · cases z with
      | zero => exact absurd rfl h
      | succ z => simp [List.replicate_succ]
    · cases pend with
      | none => exact absurd rfl h
      | some e => simp [pendL]
  have hrd : (pz z pend).int.render = grpDigits z pend := by
    cases pend <;> rfl
  have hn : s.parser.hasNumber = true := by
    rw [hp]
    show (!(((pendL pend).isEmpty) && z == 0)) = true
    rcases hne with h | h
    · have : (z == 0) = false := by simp [h]
      rw [this, Bool.and_false]; rfl
    · cases pend with
      | none => exact absurd rfl h
      | some e => rfl
  have hr : s.parser.int.render.isEmpty = false := by
    rw [hp, hrd]
    cases hg : grpDigits z pend with
    | nil => exact absurd hg hgne
    | cons a t => rfl
  rw [hn, if_pos rfl, numberEnd_int _ s (by rw [hp]; rfl) (by rw [hp]; rfl) hr]
  have hforget : ((utf8Len (renderChars s.parser.int) == 1 || false) &&
      (scanCfg l zeroThr).small (Value.dec s.parser.int.render [])) = false := by
    have : (scanCfg l zeroThr).small (Value.dec s.parser.int.render []) = false := rfl
    rw [this, Bool.and_false]
  rw [hforget]
  obtain ⟨_, t2⟩ := tracker_numberEnd s.tracker false (renderChars s.parser.int) (Value.dec s.parser.int.render []) hh
  refine ⟨_, rfl, ?_⟩
  show List.map (·.text) (s.tracker.numberEnd false (renderChars s.parser.int)
    (Value.dec s.parser.int.render []) false).queue = _
  rw [t2, List.map_append, hq]
  show _ ++ [renderChars s.parser.int] = _
  unfold renderChars
  rw [hp, hrd]

/-- **the scanner on dictated digits**, from any state `(z, pend)` -/
theorem dict_run (l : Lang) (dw : Nat → Word) (hl : DigitLang l dw) : ∀ (ds : List Nat), (∀ d ∈ ds, d < 10) →
    ∀ (s : Scanner) (z : Nat) (pend : Option Nat)
    (q : List Word) (i : Nat), St s z pend q → (∀ e, pend = some e → e ≠ 0) →
    ∃ s' sf, pushWords (scanCfg l zeroThr) s i (ds.map dw) = .ok s' ∧
      s'.finalize (scanCfg l zeroThr) = .ok sf ∧
      sf.tracker.queue.map (·.text) = q ++ (dg z pend ds).map (fun g => g.map digitChar) := by
  intro ds
  induction ds with
  | nil =>
    intro _ s z pend q i hst _
    refine ⟨s, ?_⟩
    cases pend with
    | none =>
      by_cases hz : z = 0
      · subst hz
        obtain ⟨sf, h1, h2⟩ := finalize_empty l s q hst
        exact ⟨sf, rfl, h1, by rw [h2]; simp [dg]⟩
      · obtain ⟨sf, h1, h2⟩ := finalize_pending l s z none q hst (Or.inl hz)
        exact ⟨sf, rfl, h1, by rw [h2, dg, if_neg hz]; rfl⟩
    | some e =>
      obtain ⟨sf, h1, h2⟩ := finalize_pending l s z (some e) q hst (Or.inr (by simp))
      exact ⟨sf, rfl, h1, by rw [h2, dg]; rfl⟩
  | cons d ds ih =>
    intro hds s z pend q i hst hpe
    have hd9 : d < 10 := hds d List.mem_cons_self
    have hds' : ∀ x ∈ ds, x < 10 := fun x hx => hds x (List.mem_cons_of_mem _ hx)
    have hw := hl.noskip d hd9
    rw [List.map_cons, pushWords]
    cases pend with
    | none =>
      by_cases hd : d = 0
      · subst hd
        obtain ⟨s1, e1, st1⟩ := step_accept l s i z (z + 1) none none q _ hw hst (hl.zero_empty z)
        obtain ⟨s', sf, r1, r2, r3⟩ := ih hds' s1 (z + 1) none q (i + 2) st1 (fun e h => by simp at h)
        refine ⟨s', sf, by rw [e1]; exact r1, r2, ?_⟩
        rw [r3, dg, if_pos rfl]
      · obtain ⟨s1, e1, st1⟩ := step_accept l s i z z none (some d) q _ hw hst (hl.digit_empty z d hd hd9)
        obtain ⟨s', sf, r1, r2, r3⟩ := ih hds' s1 z (some d) q (i + 2) st1
          (fun e h => by have : d = e := by simpa using h
                         rw [← this]; exact hd)
        refine ⟨s', sf, by rw [e1]; exact r1, r2, ?_⟩
        rw [r3, dg, if_neg hd]
    | some e =>
      have he : e ≠ 0 := hpe e rfl
      by_cases hd : d = 0
      · subst hd
        obtain ⟨er, her, ha⟩ := hl.zero_pend z e he
        obtain ⟨s1, e1, st1⟩ := step_reject l s i z 1 e none q _ er her hw hst ha (hl.zero_empty 0)
        obtain ⟨s', sf, r1, r2, r3⟩ := ih hds' s1 1 none _ (i + 2) st1 (fun e h => by simp at h)
        refine ⟨s', sf, by rw [e1]; exact r1, r2, ?_⟩
        rw [r3, dg, if_pos rfl, List.map_cons, List.append_assoc]
        rfl
      · obtain ⟨er, her, ha⟩ := hl.digit_pend z e d he hd hd9
        obtain ⟨s1, e1, st1⟩ := step_reject l s i z 0 e (some d) q _ er her hw hst ha (hl.digit_empty 0 d hd hd9)
        obtain ⟨s', sf, r1, r2, r3⟩ := ih hds' s1 0 (some d) _ (i + 2) st1
          (fun e h => by have : d = e := by simpa using h
                         rw [← this]; exact hd)
        refine ⟨s', sf, by rw [e1]; exact r1, r2, ?_⟩
        rw [r3, dg, if_neg hd, List.map_cons, List.append_assoc]
        rfl

theorem dictation (l : Lang) (dw : Nat → Word) (hl : DigitLang l dw) (ds : List Nat) (h : ∀ d ∈ ds, d < 10) :
    ∃ occs, findNumbers (scanCfg l zeroThr) (wordTokens (ds.map dw)) = .ok occs ∧
      occs.map (·.text) = (dictationGroups ds).map (fun g => g.map digitChar) := by
  have hst : St {} 0 none [] := ⟨rfl, rfl, rfl⟩
  obtain ⟨s', sf, r1, r2, r3⟩ := dict_run l dw hl ds h {} 0 none [] 0 hst (fun e h => by simp at h)
  refine ⟨sf.tracker.queue, ?_, by rw [r3, dg_dictation, List.nil_append]⟩
  rw [findNumbers_words, r1]
  dsimp only
  rw [r2]

/-! ### the Italian digit words -/

theorem unitFree_free (d : Nat) (b : DS) (hg : (Guard.free 2).eval b = true) :
    (It.unitFree d).exec b = ((b.put [d]).1, (b.put [d]).2, 0) := by
  simp only [It.unitFree, Act.when, Act.exec]
  rw [if_pos hg]

theorem unitFree_nfree (d : Nat) (b : DS) (hg : (Guard.free 2).eval b = false) :
    (It.unitFree d).exec b = (some .nan, b, 0) := by
  simp only [It.unitFree, Act.when, Act.exec]
  rw [if_neg (by rw [hg]; exact Bool.false_ne_true)]

theorem digit_empty_it (z d : Nat) (h0 : d ≠ 0) (h9 : d < 10) :
    It.apply (Spec.It.digitWord d) { rbuf := [], lz := z } = (none, { rbuf := [d], lz := z }) := by
  have : d = 1 ∨ d = 2 ∨ d = 3 ∨ d = 4 ∨ d = 5 ∨ d = 6 ∨ d = 7 ∨ d = 8 ∨ d = 9 := by omega
  have hf : (Guard.free 2).eval ({ rbuf := [], lz := z } : DS) = true := by simp [Guard.eval, DS.isFree, allZero]
  rcases this with rfl | rfl | rfl | rfl | rfl | rfl | rfl | rfl | rfl
  · show It.applyFuel (1 + 1) w!"uno" _ = _
    rw [C01It.applyFuel_plain 1 _ _ _ C01It.plain_uno, unitFree_free 1 _ hf]; rfl
  · rfl
  · rfl
  · rfl
  · rfl
  · rfl
  · rfl
  · show It.applyFuel (1 + 1) w!"otto" _ = _
    rw [C01It.applyFuel_plain 1 _ _ _ C01It.plain_otto, unitFree_free 8 _ hf]; rfl
  · rfl

theorem digit_pend_it (z e d : Nat) (he : e ≠ 0) (h0 : d ≠ 0) (h9 : d < 10) : ∃ er, er ≠ Err.incomplete ∧
    It.apply (Spec.It.digitWord d) { rbuf := [e], lz := z } = (some er, { rbuf := [e], lz := z }) := by
  by_cases h18 : d = 1 ∨ d = 8
  · refine ⟨.nan, by decide, ?_⟩
    have hf : (Guard.free 2).eval ({ rbuf := [e], lz := z } : DS) = false := by
      simp [Guard.eval, DS.isFree, DS.isEmpty, allZero, he]
    rcases h18 with rfl | rfl
    · show It.applyFuel (1 + 1) w!"uno" _ = _
      rw [C01It.applyFuel_plain 1 _ _ _ C01It.plain_uno, unitFree_nfree 1 _ hf]
    · show It.applyFuel (1 + 1) w!"otto" _ = _
      rw [C01It.applyFuel_plain 1 _ _ _ C01It.plain_otto, unitFree_nfree 8 _ hf]
  · refine ⟨.overlap, by decide, ?_⟩
    show It.applyFuel (1 + 1) (It.unitWord d) _ = _
    rw [C01It.applyFuel_plain 1 _ _ _ (C01It.plain_unit d (by omega))]
    simp [T2N.It.unit, Act.when, Act.exec, Guard.eval, DS.peek, DS.put, allZero, he, h0]

theorem digit_noskip_it (d : Nat) (h9 : d < 10) :
    skipW (Spec.It.digitWord d) = false ∧ It.lang.isDecSep (Spec.It.digitWord d) = false := by
  have : d = 0 ∨ d = 1 ∨ d = 2 ∨ d = 3 ∨ d = 4 ∨ d = 5 ∨ d = 6 ∨ d = 7 ∨ d = 8 ∨ d = 9 := by omega
  rcases this with rfl | rfl | rfl | rfl | rfl | rfl | rfl | rfl | rfl | rfl <;> exact ⟨by decide, by decide⟩

theorem digitLang_it : DigitLang It.lang Spec.It.digitWord where
  noskip := digit_noskip_it
  zero_empty := fun _ => rfl
  zero_pend := fun _ _ _ => ⟨.overlap, by decide, rfl⟩
  digit_empty := digit_empty_it
  digit_pend := digit_pend_it

/-- **C08 for Italian, every digit sequence**: the scanner groups dictated digits exactly as
`Spec.dictationGroups` (zeros attach to the following non-zero digit, trailing zeros stand alone).
A non-zero digit after a non-zero digit is refused with `Overlap` (`due … nove`) or `NaN` (`uno`, `otto`:
`is_free(2)` fails); either way the pending digit ends its group. -/
theorem C08_dictation_it_occ (ds : List Nat) (h : ∀ d ∈ ds, d < 10) :
    ∃ occs, findNumbers (scanCfg It.lang zeroThr) (wordTokens (ds.map Spec.It.digitWord)) = .ok occs ∧
      occs.map (·.text) = (dictationGroups ds).map (fun g => g.map digitChar) :=
  dictation It.lang _ digitLang_it ds h

theorem C08_dictation_it (ds : List Nat) (h : ∀ d ∈ ds, d < 10) :
    occTexts It.lang zeroThr (ds.map Spec.It.digitWord) =
      some ((dictationGroups ds).map (fun g => g.map digitChar)) := by
  obtain ⟨occs, e, ht⟩ := C08_dictation_it_occ ds h
  unfold occTexts
  rw [e]
  dsimp only
  rw [ht]

example : occTexts It.lang zeroThr ([0, 0, 7, 0, 1, 8, 0, 0].map Spec.It.digitWord) =
    some [w!"007", w!"01", w!"8", w!"00"] := C08_dictation_it _ (by decide)

/-! ## scanner corollaries of C01 and C16 -/

theorem C01_scan_it (v : Spec.Var) (n : Nat) (h : n < 10 ^ 12) :
    occTexts It.lang zeroThr (Spec.It.cardinal v n) = some [decChars n] :=
  scan_of_validate It.lang accOK_it _ _ (C01It.C01_validate_it v n h)

theorem C16_scan_it (v : Spec.Var) (k n : Nat) (hn : 0 < n) (h : n < 10 ^ 12) :
    occTexts It.lang zeroThr (List.replicate k Spec.It.zeroWord ++ Spec.It.cardinal v n) =
      some [List.replicate k '0' ++ decChars n] :=
  scan_of_validate It.lang accOK_it _ _ (C16_validate_it v k n hn h)

theorem C16_zeros_only_scan_it (k : Nat) (hk : 0 < k) :
    occTexts It.lang zeroThr (List.replicate k Spec.It.zeroWord) = some [List.replicate k '0'] :=
  scan_of_validate It.lang accOK_it _ _ (C16_zeros_only_it k hk)

/-- **C16, `zero` after a number, at the scanner**: the number ends and the zero is a number of its own -/
theorem C16_zero_after_scan_it (v : Spec.Var) (k n : Nat) (hn : 0 < n) (h : n < 10 ^ 12) :
    occTexts It.lang zeroThr (List.replicate k Spec.It.zeroWord ++ Spec.It.cardinal v n ++ [Spec.It.zeroWord]) =
      some [List.replicate k '0' ++ decChars n, ['0']] := by
  have hn' : n ≠ 0 := by omega
  have hrun := zeros_cardinal_run v k n hn' h
  have hz := zero_refused k n hn'
  obtain ⟨hne, hf⟩ := format_lz k n hn'
  obtain ⟨s1, e1, hs1⟩ := lift_run It.lang accOK_it zeroThr _ DS.new false _ hrun {} 0 ⟨rfl, rfl, rfl⟩
  obtain ⟨hp1, hq1, hh1⟩ := hs1
  obtain ⟨s2, e2, hp2, hh2, hq2⟩ := step_reject_run It.lang s1
    (0 + 2 * (List.replicate k Spec.It.zeroWord ++ Spec.It.cardinal v n).length)
    1 none _ _ _ Spec.It.zeroWord .overlap (by decide) ⟨by decide, by decide⟩ ⟨hp1, hh1⟩ hne hf hz rfl
  rw [hq1] at hq2
  obtain ⟨sf, e3, hq⟩ := finalize_pending It.lang s2 1 none _ ⟨hp2, hh2, hq2⟩ (Or.inl (by decide))
  unfold occTexts
  rw [findNumbers_words, pushWords_append, e1]
  dsimp only
  rw [pushWords, e2]
  dsimp only
  rw [pushWords]
  dsimp only
  rw [e3]
  dsimp only
  rw [hq]
  rfl

/-! ## decimals (C05) -/

/-- decimal phase: integer part `I`, fraction builder `D`, nothing emitted -/
def SDD (s : Scanner) (I D : DS) : Prop :=
  s.parser = { int := I, dec := D, isDec := true } ∧ s.tracker.queue = [] ∧ s.tracker.onHold = none

theorem parser_push_sep (l : Lang) (sw : Word) (p : Parser) (hd : p.isDec = false) (hne : p.int.isEmpty = false)
    (hm : p.int.marker = .none) (hsep : l.isDecSep sw = true) (hrej : ∀ b, l.apply sw b = (some .nan, b)) :
    p.push l sw = (some .incomplete, { p with isDec := true }) := by
  unfold Parser.push
  rw [hd, if_neg Bool.false_ne_true, hrej]
  dsimp only
  rw [hne, hm, hsep]
  rfl

theorem step_sep (l : Lang) (sw : Word) (thr : Nat → Bool) (s : Scanner) (i : Nat) (I : DS) (hs : SI s I)
    (hne : I.isEmpty = false) (hm : I.marker = .none) (hsk : skipW sw = false)
    (hsep : l.isDecSep sw = true) (hrej : ∀ b, l.apply sw b = (some .nan, b)) :
    ∃ s', s.push (scanCfg l thr) i (wt sw) = .ok s' ∧ SDD s' I {} := by
  obtain ⟨hp, hq, hh⟩ := hs
  have hpush : s.parser.push l sw = (some .incomplete, { int := I, dec := {}, isDec := true }) := by
    rw [parser_push_sep l sw s.parser (by rw [hp]) (by rw [hp]; exact hne) (by rw [hp]; exact hm) hsep hrej, hp]
  rw [push_word l thr s i sw hsk, hpush]
  exact ⟨_, rfl, rfl, hq, hh⟩

theorem parser_push_decmode (l : Lang) (p : Parser) (w : Word) (hd : p.isDec = true) :
    p.push l w = ((l.applyDecimal w p.dec).1, { p with dec := (l.applyDecimal w p.dec).2 }) := by
  unfold Parser.push
  rw [hd, if_pos rfl]
  rcases l.applyDecimal w p.dec with ⟨r, d⟩
  simp

/-- **lifting in decimal mode**: a successful run of `apply_decimal` on the fraction words is reproduced by the
scanner, the match staying open -/
theorem lift_run_dec (l : Lang) (hsk : ∀ w b, Acc (l.applyDecimal w b).1 → skipW w = false) (thr : Nat → Bool)
    (I : DS) : ∀ (ws : List Word) (D : DS) (inc : Bool) (R : DS),
    execGroupFrom l.applyDecimal ws D inc = .ok R → ∀ (s : Scanner) (i : Nat), SDD s I D →
    ∃ s', pushWords (scanCfg l thr) s i ws = .ok s' ∧ SDD s' I R := by
  intro ws
  induction ws with
  | nil =>
    intro D inc R h s i hs
    rw [execGroupFrom] at h
    cases inc with
    | true => exact absurd h (by simp)
    | false =>
      have : D = R := by simpa using h
      rw [← this]
      exact ⟨s, rfl, hs⟩
  | cons w ws ih =>
    intro D inc R h s i hs
    rw [execGroupFrom] at h
    obtain ⟨hp, hq, hh⟩ := hs
    rcases hx : l.applyDecimal w D with ⟨st, D1⟩
    rw [hx] at h
    have hpush : s.parser.push l w = (st, { int := I, dec := D1, isDec := true }) := by
      rw [parser_push_decmode l s.parser w (by rw [hp]), hp]
      dsimp only
      rw [hx]
    rw [pushWords]
    cases st with
    | none =>
      have hw := hsk w D (by rw [hx]; exact Or.inl rfl)
      rw [push_word l thr s i w hw, hpush]
      exact ih D1 false R h _ (i + 2) ⟨rfl, hq, hh⟩
    | some e =>
      cases e with
      | incomplete =>
        have hw := hsk w D (by rw [hx]; exact Or.inr rfl)
        rw [push_word l thr s i w hw, hpush]
        exact ih D1 true R h _ (i + 2) ⟨rfl, hq, hh⟩
      | overlap => exact absurd h (by simp)
      | nan => exact absurd h (by simp)
      | frozen => exact absurd h (by simp)

/-- end of a decimal number: exactly one occurrence, whatever the threshold -/
theorem finalize_decimal (l : Lang) (thr : Nat → Bool) (s : Scanner) (I D : DS) (hs : SDD s I D)
    (hne : I.isEmpty = false) (hm : I.marker = .none) (hD : D.render ≠ []) :
    ∃ sf a b, s.finalize (scanCfg l thr) = .ok sf ∧
      sf.tracker.queue = [⟨a, b, renderChars I ++ [l.decMark] ++ renderChars D, .dec I.render D.render, false⟩] := by
  obtain ⟨hp, hq, hh⟩ := hs
  unfold Scanner.finalize
  have hn : s.parser.hasNumber = true := by
    rw [hp]; show (!I.isEmpty) = true; rw [hne]; rfl
  rw [hn, if_pos rfl]
  unfold Scanner.numberEnd
  have ho : s.parser.isOrdinal = false := by
    rw [hp]; show I.marker.isOrdinal = false; rw [hm]; rfl
  obtain ⟨x, xs, hrr⟩ : ∃ x xs, D.render = x :: xs := by
    cases hrv : D.render with
    | nil => exact absurd hrv hD
    | cons x xs => exact ⟨x, xs, rfl⟩
  have hde : D.isEmpty = false := by
    cases hD' : D.isEmpty with
    | false => rfl
    | true =>
      exfalso
      unfold DS.isEmpty at hD'
      simp only [Bool.and_eq_true, List.isEmpty_iff, beq_iff_eq] at hD'
      apply hD
      unfold DS.render
      rw [hD'.1, hD'.2]
      rfl
  have hf : s.parser.finish (scanCfg l thr).lang =
      .ok (renderChars I ++ [l.decMark] ++ renderChars D, .dec I.render D.render) := by
    rw [hp]
    unfold Parser.finish
    dsimp only
    rw [hde]
    show (l.formatDecimalW I D) = _
    unfold Lang.formatDecimalW
    have hc : (I.render.isEmpty && D.render.isEmpty) = false := by rw [hrr]; simp
    rw [hc, if_neg Bool.false_ne_true]
  rw [hf, ho]
  dsimp only
  have hsm : (scanCfg l thr).small (.dec I.render D.render) = false := by
    rw [hrr]; rfl
  rw [hsm, Bool.and_false]
  obtain ⟨_, t2⟩ := tracker_numberEnd s.tracker false (renderChars I ++ [l.decMark] ++ renderChars D)
    (.dec I.render D.render) hh
  refine ⟨_, s.tracker.mstart, s.tracker.mend, rfl, ?_⟩
  show (s.tracker.numberEnd false _ _ false).queue = _
  rw [t2, hq]
  rfl

/-! ### the value of a digit string -/

def valOf (ds : List Nat) : Nat := ds.foldl (fun a d => 10 * a + d) 0

theorem decDigits_foldl : ∀ (r : List Nat) (a : Nat), a ≠ 0 → (∀ d ∈ r, d < 10) →
    decDigits (r.foldl (fun a d => 10 * a + d) a) = decDigits a ++ r := by
  intro r
  induction r with
  | nil => intro a _ _; simp
  | cons d r ih =>
    intro a ha h9
    have hd : d < 10 := h9 d List.mem_cons_self
    rw [List.foldl_cons, ih (10 * a + d) (by omega) (fun x hx => h9 x (List.mem_cons_of_mem _ hx))]
    have : decDigits (10 * a + d) = decDigits a ++ [d] := by
      rw [decDigits, if_neg (by omega)]
      have e1 : (10 * a + d) / 10 = a := by omega
      have e2 : (10 * a + d) % 10 = d := by omega
      rw [e1, e2]
    rw [this, List.append_assoc, List.singleton_append]

theorem foldl_lt : ∀ (r : List Nat) (a : Nat), (∀ d ∈ r, d < 10) →
    r.foldl (fun a d => 10 * a + d) a < (a + 1) * 10 ^ r.length := by
  intro r
  induction r with
  | nil => intro a _; simp
  | cons d r ih =>
    intro a h9
    have hd : d < 10 := h9 d List.mem_cons_self
    have := ih (10 * a + d) (fun x hx => h9 x (List.mem_cons_of_mem _ hx))
    rw [List.foldl_cons, List.length_cons, Nat.pow_succ]
    have h2 : (10 * a + d + 1) * 10 ^ r.length ≤ (a + 1) * (10 ^ r.length * 10) := by
      rw [← Nat.mul_assoc, Nat.mul_right_comm]
      exact Nat.mul_le_mul_right _ (by omega)
    exact Nat.lt_of_lt_of_le this h2

/-- a digit string that starts with a non-zero digit is the decimal writing of its value -/
theorem decDigits_valOf (x : Nat) (r : List Nat) (hx : x ≠ 0) (h9 : ∀ d ∈ x :: r, d < 10) :
    decDigits (valOf (x :: r)) = x :: r ∧ valOf (x :: r) ≠ 0 ∧ valOf (x :: r) < 10 ^ (x :: r).length := by
  have hx9 : x < 10 := h9 x List.mem_cons_self
  have hr : ∀ d ∈ r, d < 10 := fun d hd => h9 d (List.mem_cons_of_mem _ hd)
  have e : valOf (x :: r) = r.foldl (fun a d => 10 * a + d) x := by
    unfold valOf; rw [List.foldl_cons, Nat.mul_zero, Nat.zero_add]
  have h1 : decDigits (valOf (x :: r)) = x :: r := by
    rw [e, decDigits_foldl r x hx hr, decDigits, if_pos hx9]; rfl
  refine ⟨h1, ?_, ?_⟩
  · intro h0
    rw [h0] at h1
    have : decDigits 0 = [0] := by rw [decDigits, if_pos (by decide)]
    rw [this] at h1
    injection h1 with h1 _
    exact hx h1.symm
  · have := foldl_lt (x :: r) 0 h9
    unfold valOf
    rw [Nat.zero_add, Nat.one_mul] at this
    exact this

theorem takeWhile_zero (ds : List Nat) : ds.takeWhile (· == 0) = List.replicate (ds.takeWhile (· == 0)).length 0 := by
  induction ds with
  | nil => rfl
  | cons d ds ih =>
    rw [List.takeWhile_cons]
    by_cases hd : (d == 0) = true
    · rw [if_pos hd, List.length_cons, List.replicate_succ, ← ih]
      have : d = 0 := by simpa using hd
      rw [this]
    · rw [if_neg hd]; rfl

theorem dropWhile_head (ds : List Nat) (x : Nat) (r : List Nat) (h : ds.dropWhile (· == 0) = x :: r) : x ≠ 0 := by
  induction ds with
  | nil => simp at h
  | cons d ds ih =>
    rw [List.dropWhile_cons] at h
    by_cases hd : (d == 0) = true
    · rw [if_pos hd] at h; exact ih h
    · rw [if_neg hd] at h
      injection h with h1 _
      rw [← h1]
      simpa using hd

/-! ### the Italian fraction -/

theorem fraction_eq (v : Var) (ds : List Nat) :
    It.fraction v ds = List.replicate (ds.takeWhile (· == 0)).length It.zeroWord ++
      (if (ds.dropWhile (· == 0)).isEmpty then []
       else if (ds.dropWhile (· == 0)).length ≤ 12 then It.cardinal (fun i => v (i + 64)) (valOf (ds.dropWhile (· == 0)))
       else (ds.dropWhile (· == 0)).map It.unitWord) := by
  unfold It.fraction
  dsimp only
  congr 1
  generalize ds.takeWhile (· == 0) = zs
  induction zs with
  | nil => rfl
  | cons z zs ih => rw [List.map_cons, ih, List.length_cons, List.replicate_succ]; rfl

/-- the builder after the fraction words, and what it renders -/
theorem fraction_run (v : Var) (ds : List Nat) (_hds : ds ≠ []) (h9 : ∀ d ∈ ds, d < 10)
    (hlen : (ds.dropWhile (· == 0)).length ≤ 12) :
    ∃ D, execGroupFrom It.apply (It.fraction v ds) DS.new false = .ok D ∧ D.render = ds := by
  have hsplit : ds.takeWhile (· == 0) ++ ds.dropWhile (· == 0) = ds := List.takeWhile_append_dropWhile
  rw [fraction_eq]
  cases hrest : ds.dropWhile (· == 0) with
  | nil =>
    rw [hrest, List.append_nil] at hsplit
    rw [if_pos (show ([] : List Nat).isEmpty = true from rfl)]
    have hz := zeros_run [] (ds.takeWhile (· == 0)).length 0
    rw [Nat.zero_add] at hz
    refine ⟨setLz (ds.takeWhile (· == 0)).length DS.new, ?_, ?_⟩
    · show execGroupFrom It.apply _ (setLz 0 DS.new) false = _
      rw [hz, execGroupFrom, if_neg Bool.false_ne_true]
    · show List.replicate (ds.takeWhile (· == 0)).length 0 ++ [] = ds
      rw [List.append_nil, ← takeWhile_zero, hsplit]
  | cons x r =>
    rw [hrest] at hsplit hlen
    have hx0 : x ≠ 0 := dropWhile_head ds x r hrest
    have hxr9 : ∀ d ∈ x :: r, d < 10 := by
      intro d hd
      apply h9
      rw [← hsplit]
      exact List.mem_append_right _ hd
    obtain ⟨hdd, hv0, hvlt⟩ := decDigits_valOf x r hx0 hxr9
    have hv12 : valOf (x :: r) < 10 ^ 12 := Nat.lt_of_lt_of_le hvlt (Nat.pow_le_pow_right (by decide) hlen)
    rw [if_neg (by simp), if_pos hlen]
    refine ⟨setLz (ds.takeWhile (· == 0)).length (mk (lsb (valOf (x :: r)))), ?_, ?_⟩
    · exact zeros_cardinal_run _ _ _ hv0 hv12
    · show List.replicate (ds.takeWhile (· == 0)).length 0 ++ (lsb (valOf (x :: r))).reverse = ds
      rw [lsb_rev_dec _ hv0, hdd, ← takeWhile_zero, hsplit]

theorem renderChars_eq (b : DS) (ds : List Nat) (h : b.render = ds) : renderChars b = ds.map digitChar := by
  unfold renderChars; rw [h]

/-- **C05 for Italian**: integer part `n < 10^12`, any non-empty fraction whose part after the leading zeros has
at most 12 digits (it is spelled as one cardinal), any threshold: exactly one occurrence, whose text is
`<digits of n>,<fraction digits>` -/
theorem C05_decimal_it_occ (v : Spec.Var) (n : Nat) (ds : List Nat) (thr : Nat → Bool) (h : n < 10 ^ 12)
    (hds : ds ≠ []) (h9 : ∀ d ∈ ds, d < 10) (hlen : (ds.dropWhile (· == 0)).length ≤ 12) :
    ∃ a b, findNumbers (scanCfg It.lang thr)
        (wordTokens (Spec.It.cardinal v n ++ [Spec.It.sepWord] ++ Spec.It.fraction v ds)) =
      .ok [⟨a, b, decChars n ++ [','] ++ ds.map digitChar, .dec (decDigits n) ds, false⟩] := by
  -- the integer part as an interpreter run
  obtain ⟨I, hrun, hne, hm, hrc, hrd⟩ : ∃ I, execGroupFrom It.apply (It.cardinal v n) DS.new false = .ok I ∧
      I.isEmpty = false ∧ I.marker = .none ∧ renderChars I = decChars n ∧ I.render = decDigits n := by
    by_cases hn : n = 0
    · subst hn
      have e0 : decDigits 0 = [0] := by rw [decDigits, if_pos (by decide)]
      refine ⟨setLz 1 DS.new, rfl, rfl, rfl, ?_, ?_⟩
      · unfold decChars; rw [e0]; rfl
      · rw [e0]; rfl
    · have hr : (mk (lsb n)).render = decDigits n := by
        show List.replicate 0 0 ++ (lsb n).reverse = _
        rw [lsb_rev_dec n hn]; rfl
      refine ⟨mk (lsb n), cardinal_run v n hn h, (format_lz 0 n hn).1, rfl, ?_, hr⟩
      unfold renderChars decChars; rw [hr]
  obtain ⟨D, hfr, hDr⟩ := fraction_run v ds hds h9 hlen
  have hs0 : SI {} DS.new := ⟨rfl, rfl, rfl⟩
  obtain ⟨s1, e1, hs1⟩ := lift_run It.lang accOK_it thr _ _ _ _ hrun {} 0 hs0
  obtain ⟨s2, e2, hs2⟩ := step_sep It.lang It.sepWord thr s1 (0 + 2 * (It.cardinal v n).length) I hs1 hne hm
    (by decide) rfl (fun _ => rfl)
  obtain ⟨s3, e3, hs3⟩ := lift_run_dec It.lang (fun w b hacc => (accOK_it w b hacc).1) thr I _ _ _ _ hfr s2
    (0 + 2 * (It.cardinal v n).length + 2) hs2
  obtain ⟨sf, a, b, e4, hq⟩ := finalize_decimal It.lang thr s3 I D hs3 hne hm (by rw [hDr]; exact hds)
  rw [hrc, hrd, renderChars_eq D ds hDr, hDr] at hq
  refine ⟨a, b, ?_⟩
  rw [findNumbers_words, List.append_assoc, pushWords_append, e1]
  dsimp only
  rw [List.singleton_append, pushWords, e2]
  dsimp only
  rw [e3]
  dsimp only
  rw [e4]
  dsimp only
  rw [hq]
  rfl

theorem C05_decimal_it (v : Spec.Var) (n : Nat) (ds : List Nat) (thr : Nat → Bool) (h : n < 10 ^ 12)
    (hds : ds ≠ []) (h9 : ∀ d ∈ ds, d < 10) (hlen : (ds.dropWhile (· == 0)).length ≤ 12) :
    occTexts It.lang thr (Spec.It.cardinal v n ++ [Spec.It.sepWord] ++ Spec.It.fraction v ds) =
      some [decChars n ++ [Spec.It.decMark] ++ ds.map digitChar] := by
  obtain ⟨a, b, e⟩ := C05_decimal_it_occ v n ds thr h hds h9 hlen
  unfold occTexts
  rw [e]
  rfl

example : occTexts It.lang (fun _ => true) (Spec.It.cardinal (fun _ => 0) 12 ++ [Spec.It.sepWord] ++
    Spec.It.fraction (fun _ => 1) [0, 0, 7, 5]) = some [decChars 12 ++ [','] ++ w!"0075"] :=
  C05_decimal_it (fun _ => 0) 12 [0, 0, 7, 5] (fun _ => true) (by decide) (by decide) (by decide) (by decide)

/-- **finding (C05, it)**: the bound on the fraction is needed. The specification reads a fraction with more than
12 digits after its leading zeros digit by digit (`uno due tre …`), but `apply_decimal = apply` refuses a unit
after a unit, so the decimal ends after the first digit and every further digit is a number of its own. -/
theorem C05_long_fraction_it :
    occTexts It.lang zeroThr (Spec.It.cardinal (fun _ => 0) 1 ++ [Spec.It.sepWord] ++
      Spec.It.fraction (fun _ => 0) [1, 2, 3, 4, 5, 6, 7, 8, 9, 1, 2, 3, 4]) =
    some [w!"1,1", w!"2", w!"3", w!"4", w!"5", w!"6", w!"7", w!"8", w!"9", w!"1", w!"2", w!"3", w!"4"] := by
  decide +kernel

end T2N.ExtIt
