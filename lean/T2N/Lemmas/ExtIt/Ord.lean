/-
  T2N.Lemmas.ExtIt.Ord — Italian ordinals (C04), every rank `1 … 10^6`, every inflection, every variant.

  The ordinal of rank `n > 10` is ONE word: the stem `Spec.It.ordStem v n` (the one-word cardinal with the suffix
  rule `-esim` / `…decim` / `…millesim`) and a vowel. The model strips the vowel (`lemmatize`), cuts the stem
  into atoms with the compound splitter, interprets the atoms on a fresh builder and merges the result, setting
  the marker given by the vowel.
  * spec side: `ordStem_eq` — the stem is the concatenation of the atoms `ordToks` (from the kernel tables
    `OrdFacts.op` over the groups 1..999 and the structure of `belowMillion`);
  * model side: `ord_apply` — a chain of atoms that add up to `m`, followed by a vowel, puts `m` with the
    ordinal marker (one atom: a vocabulary word; several: a compound);
  * ranks `1 … 10` (irregular stems) and `10^6`: a kernel table of 44 rows.
-/
import T2N.Lemmas.ExtIt.OrdTables
import T2N.Lemmas.ExtIt.Scan

set_option maxRecDepth 100000

namespace T2N.ExtIt
open T2N T2N.Spec
open T2N.C01En (mk lsb lsb_zero lsb_ne_nil lsb_rev_dec mk_nil)
open T2N.C01It

/-! ## `lemmatize` and `morph` on a stem followed by a vowel -/

theorem rev_of_getLast (S : Word) (x : Char) (h : S.getLast? = some x) : ∃ t, S.reverse = x :: t := by
  have h2 : S.reverse.head? = S.getLast? := List.head?_reverse
  rw [h] at h2
  cases hr : S.reverse with
  | nil => rw [hr] at h2; cases h2
  | cons y t =>
    rw [hr] at h2
    have : y = x := by simpa using h2
    exact ⟨t, by rw [this]⟩

theorem stemOk_last {S : Word} (h : stemOk S = true) : S.getLast? = some 'm' := by
  unfold stemOk at h
  simp only [Bool.and_eq_true, beq_iff_eq] at h
  exact h.1

theorem trim_stem (S : Word) (h : S.getLast? = some 'm') : trimEndBy It.isVowelEnding S = S := by
  obtain ⟨t, ht⟩ := rev_of_getLast S 'm' h
  unfold trimEndBy
  rw [ht, List.dropWhile_cons, if_neg (by decide), ← ht, List.reverse_reverse]

theorem trim_stem_vowel (S : Word) (c : Char) (h : S.getLast? = some 'm') (hc : It.isVowelEnding c = true) :
    trimEndBy It.isVowelEnding (S ++ [c]) = S := by
  have := trim_stem S h
  unfold trimEndBy at this ⊢
  rw [List.reverse_append, List.reverse_singleton, List.singleton_append, List.dropWhile_cons, if_pos hc, this]

/-- a word that ends in `m` is its own lemma -/
theorem lemmatize_m (S : Word) (h : S.getLast? = some 'm') : It.lemmatize S = S := by
  unfold It.lemmatize
  dsimp only
  rw [trim_stem S h]
  split <;> rfl

/-- `…esim` / `…decim` followed by a vowel is lemmatized to the stem -/
theorem lemmatize_stem (S : Word) (c : Char) (hS : stemOk S = true) (hc : It.isVowelEnding c = true) :
    It.lemmatize (S ++ [c]) = S := by
  have hl := stemOk_last hS
  unfold stemOk at hS
  simp only [Bool.and_eq_true] at hS
  unfold It.lemmatize
  dsimp only
  rw [trim_stem_vowel S c hl hc, Bool.or_assoc, hS.2, Bool.or_true, if_pos rfl]

/-- the marker given by the final vowel -/
def markOf (c : Char) : Mk := if c == 'o' || c == 'i' then .mo else .fa

theorem vowel_cases (c : Char) (hc : It.isVowelEnding c = true) : c = 'o' ∨ c = 'a' ∨ c = 'e' ∨ c = 'i' := by
  unfold It.isVowelEnding at hc
  simp only [Bool.or_eq_true, beq_iff_eq] at hc
  rcases hc with ((h | h) | h) | h
  · exact Or.inl h
  · exact Or.inr (Or.inl h)
  · exact Or.inr (Or.inr (Or.inl h))
  · exact Or.inr (Or.inr (Or.inr h))

theorem morph_stem (S : Word) (c : Char) (hS : stemOk S = true) (hc : It.isVowelEnding c = true) :
    It.morph (S ++ [c]) = .ordinal (markOf c) := by
  unfold It.morph
  rw [lemmatize_stem S c hS hc]
  have hne : (S != S ++ [c]) = true := by
    rw [bne_iff_ne]
    intro e
    have := congrArg List.length e
    simp at this
  rw [if_pos hne, getLast?_append_ne S [c] (by simp)]
  rcases vowel_cases c hc with rfl | rfl | rfl | rfl <;> rfl

/-! ## one ordinal word on the empty builder -/

/-- the builder after an ordinal word of rank `m` -/
def ordDS (m : Nat) (k : Mk) : DS := { rbuf := lsb m, marker := .ordinal k, frozen := true }

theorem isSplittable_single (a : Word) (h : lastOk a = true) : isSplittable It.patterns a = false := by
  unfold lastOk at h
  unfold isSplittable
  by_cases hp : isPat a = true
  · rw [if_pos hp] at h
    simp only [Bool.and_eq_true, Bool.not_eq_true', beq_iff_eq] at h
    cases a with
    | nil => simp at h
    | cons c cs =>
      rw [firstMatch, h.2]
      simp
  · rw [if_neg hp] at h
    simp only [Bool.and_eq_true, Bool.not_eq_true'] at h
    have := firstMatch_gapRun a [] 0 (gapEnd_sound a h.2)
    rw [List.append_nil] at this
    rw [this]
    rfl

theorem stem_ne_non (a : Word) (h : a.getLast? = some 'm') : (a == w!"non") = false := by
  cases hq : (a == w!"non") with
  | false => rfl
  | true =>
    have : a = w!"non" := by simpa using hq
    rw [this] at h
    exact absurd h (by decide)

/-- **an ordinal word**: a chain of atoms `T` that add up to `m` on a fresh builder, whose concatenation is a stem
(`…esim`, `…decim`), followed by a vowel: the empty builder receives `m` with the marker of the vowel, frozen -/
theorem ord_apply (T : List Word) (c : Char) (m : Nat) (hne : T ≠ []) (hchain : chainTo T none = true)
    (hstem : stemOk (flat T) = true) (hc : It.isVowelEnding c = true) (h0 : StepsF 0 T 0 m)
    (m0 : m ≠ 0) (hm : m < 10 ^ 6) :
    It.apply (flat T ++ [c]) DS.new = (none, ordDS m (markOf c)) := by
  have hlem := lemmatize_stem (flat T) c hstem hc
  have hmorph := morph_stem (flat T) c hstem hc
  have hex : execGroup (It.applyFuel 1) T = .ok (mk (lsb m)) := by
    have := h0 []
    rw [List.append_nil, lsb_zero, mk_nil] at this
    unfold execGroup
    rw [this, execGroupFrom, if_neg Bool.false_ne_true]
  cases T with
  | nil => exact absurd rfl hne
  | cons a T =>
    cases T with
    | nil =>
      rw [flat_single] at hlem hmorph hstem ⊢
      have hlast := stemOk_last hstem
      have hs := isSplittable_single a hchain
      have hla := lemmatize_m a hlast
      have hnon := stem_ne_non a hlast
      have hma : It.morph a = .none := by
        unfold It.morph
        rw [hla, if_neg (by simp)]
      have h1 : It.applyFuel 1 a DS.new = (none, mk (lsb m)) := by
        unfold execGroup at hex
        rw [execGroupFrom] at hex
        rcases hx : It.applyFuel 1 a DS.new with ⟨st, b1⟩
        rw [hx] at hex
        cases st with
        | none =>
          dsimp only at hex
          rw [execGroupFrom, if_neg Bool.false_ne_true] at hex
          have : b1 = mk (lsb m) := by simpa using hex
          rw [this]
        | some e =>
          cases e with
          | incomplete =>
            dsimp only at hex
            rw [execGroupFrom, if_pos rfl] at hex
            exact absurd hex (by simp)
          | overlap => exact absurd hex (by simp)
          | nan => exact absurd hex (by simp)
          | frozen => exact absurd hex (by simp)
      rw [applyFuel_nosplit 0 a _ (by rw [hla]; exact hs)] at h1
      have hact : actOf (a ++ [c]) = actOf a := by
        unfold actOf
        rw [hlem, hla, hnon]
        rfl
      unfold It.apply
      rw [applyFuel_nosplit 1 _ _ (by rw [hlem]; exact hs), hact]
      rcases hx : (actOf a).exec DS.new with ⟨r, b', k⟩
      rw [hx] at h1
      unfold post at h1 ⊢
      rw [hma] at h1
      rw [hmorph]
      have h1' : (r, b') = (none, mk (lsb m)) := by simpa [Marker.isNone] using h1
      injection h1' with e1 e2
      subst e1 e2
      rfl
    | cons b rest =>
      unfold It.apply
      rw [applyFuel_split 1 _ _ (by rw [hlem]; exact isSplittable_chain a b rest hchain), hlem,
        splitWord_chain _ hchain, hex]
      dsimp only
      unfold mergeGroup
      have hcond : ((mk (lsb m)).len > 3 && (mk (lsb m)).len ≤ 6 && !DS.new.rangeFree 3 5) = false := by
        have : DS.new.rangeFree 3 5 = true := rfl
        rw [this]; simp
      rw [hcond, if_neg Bool.false_ne_true]
      have hp := put_lsb 6 m 0 m0 hm (by decide)
      rw [lsb_zero, mk_nil, Nat.zero_add] at hp
      have hp' : DS.new.put (mk (lsb m)).rbuf.reverse = (none, mk (lsb m)) := hp
      rw [hp', hmorph]
      rfl

/-- validation of a one-word phrase that leaves `ordDS n k` -/
theorem ord_validate (W : Word) (n : Nat) (k : Mk) (hn : n ≠ 0) (h : It.apply W DS.new = (none, ordDS n k)) :
    text2digitsWords It.lang [W] = .ok (decChars n ++ k.chars) := by
  have hex : execGroup It.lang.apply [W] = .ok (ordDS n k) := by
    show execGroupFrom It.apply [W] DS.new false = _
    rw [execGroupFrom, h]
    dsimp only
    rw [execGroupFrom, if_neg Bool.false_ne_true]
  have hne := lsb_ne_nil hn
  have hemp : (ordDS n k).isEmpty = false := by
    show ((lsb n).isEmpty && (0 : Nat) == 0) = false
    cases hl : lsb n with
    | nil => exact absurd hl hne
    | cons a t => rfl
  have hrender : (ordDS n k).render = decDigits n := by
    show List.replicate 0 0 ++ (lsb n).reverse = _
    rw [lsb_rev_dec n hn]; rfl
  have hrne : (ordDS n k).render.isEmpty = false := by
    rw [hrender, ← lsb_rev_dec n hn]
    cases hl : lsb n with
    | nil => exact absurd hl hne
    | cons a t => simp
  unfold text2digitsWords
  rw [hex]
  dsimp only
  rw [hemp, if_neg Bool.false_ne_true]
  unfold Lang.formatW
  rw [hrne, if_neg Bool.false_ne_true]
  show ValOut.ok (renderChars (ordDS n k) ++ k.chars) = _
  unfold renderChars decChars
  rw [hrender]

/-! ## the specification's stem as a chain of atoms -/

/-- the one-word cardinal below one million -/
def cardWord (alt1 alt0 : Bool) (n : Nat) : Word :=
  flat (if n / 1000 == 0 then [] else pToks alt1 (n / 1000)) ++
    flat (if n % 1000 == 0 then [] else gToks alt0 false false (n % 1000))

theorem accent_off (v : Var) (g : Nat) (w : Word) (h : flag v (cp g 3) = true) : It.accent v g w = w := by
  rw [accent_eq, h]; exact accB_false w

theorem cardWord_lo (alt1 alt0 : Bool) (n : Nat) (h1 : n / 1000 = 0) (h0 : n % 1000 ≠ 0) :
    cardWord alt1 alt0 n = flat (gToks alt0 false false (n % 1000)) := by
  unfold cardWord
  rw [if_pos (show (n / 1000 == 0) = true by simp [h1]), if_neg (show ¬ (n % 1000 == 0) = true by simp [h0]),
    flat_nil, List.nil_append]

theorem cardWord_hi (alt1 alt0 : Bool) (n : Nat) (h1 : n / 1000 ≠ 0) (h0 : n % 1000 = 0) :
    cardWord alt1 alt0 n = flat (pToks alt1 (n / 1000)) := by
  unfold cardWord
  rw [if_neg (show ¬ (n / 1000 == 0) = true by simp [h1]), if_pos (show (n % 1000 == 0) = true by simp [h0]),
    flat_nil, List.append_nil]

theorem cardWord_both (alt1 alt0 : Bool) (n : Nat) (h1 : n / 1000 ≠ 0) (h0 : n % 1000 ≠ 0) :
    cardWord alt1 alt0 n = flat (pToks alt1 (n / 1000)) ++ flat (gToks alt0 false false (n % 1000)) := by
  unfold cardWord
  rw [if_neg (show ¬ (n / 1000 == 0) = true by simp [h1]), if_neg (show ¬ (n % 1000 == 0) = true by simp [h0])]

/-- at split level 0 and without accent the number below one million is one word -/
theorem belowMillion_one (v : Var) (n : Nat) (n0 : n ≠ 0) (n1 : n < 10 ^ 6) (hl : pick v (cp 0 0) 4 = 0)
    (h03 : flag v (cp 0 3) = true) (h13 : flag v (cp 1 3) = true) :
    It.belowMillion v n = [cardWord (flag v (cp 1 4)) (flag v (cp 0 4)) n] := by
  rw [pow6] at n1
  have e0 : n % 1000 ≠ 0 → It.group v 0 0 (n % 1000) = [flat (gToks (flag v (cp 0 4)) false false (n % 1000))] := by
    intro h0
    rw [group_low v 0 0 _ (by decide)]
    exact (baseFacts _ _ h0 (by omega)).spec
  have e1 : n / 1000 ≠ 0 → It.thousands v 0 (n / 1000) = [flat (pToks (flag v (cp 1 4)) (n / 1000))] := by
    intro h1
    unfold It.thousands
    rw [flat_pToks]
    by_cases h11 : n / 1000 = 1
    · rw [h11]; rfl
    · rw [if_neg (by simp [h11]), if_neg (by simp [h11]), group_low v 1 0 _ (by decide),
        (baseFacts _ _ h1 (by omega)).spec]
  unfold It.belowMillion
  dsimp only
  rw [hl]
  by_cases h1 : n / 1000 = 0
  · have h0 : n % 1000 ≠ 0 := by omega
    rw [if_pos (show (n / 1000 == 0) = true by simp [h1]), e0 h0, List.map_cons, List.map_nil,
      accent_off v 0 _ h03, cardWord_lo _ _ n h1 h0]
  · rw [if_neg (show ¬ (n / 1000 == 0) = true by simp [h1])]
    by_cases h0 : n % 1000 = 0
    · rw [if_pos (show (n % 1000 == 0) = true by simp [h0]), e1 h1, List.map_cons, List.map_nil,
        accent_off v 1 _ h13, cardWord_hi _ _ n h1 h0]
    · rw [if_neg (show ¬ (n % 1000 == 0) = true by simp [h0]), if_pos (show ((0 : Nat) == 0) = true by decide),
        e0 h0, e1 h1]
      dsimp only
      rw [accent_off v 0 _ h03, cardWord_both _ _ n h1 h0]

/-- the variant function `Spec.It.ordStem` spells the cardinal with -/
def ordVar (v : Var) : Var := fun i => if i % 16 == 4 then v i else if i % 16 == 3 then 1 else 0

theorem dropLast4 (X : Word) (a b c d : Char) : (X ++ [a, b, c, d]).dropLast.dropLast.dropLast.dropLast = X := by
  rw [List.dropLast_append_of_ne_nil (by simp)]
  show (X ++ [a, b, c]).dropLast.dropLast.dropLast = X
  rw [List.dropLast_append_of_ne_nil (by simp)]
  show (X ++ [a, b]).dropLast.dropLast = X
  rw [List.dropLast_append_of_ne_nil (by simp)]
  show (X ++ [a]).dropLast = X
  rw [List.dropLast_concat]

theorem dropLast_ne_nil (W : Word) (h : 2 ≤ W.length) : W.dropLast ≠ [] := by
  intro e
  have := congrArg List.length e
  rw [List.length_dropLast] at this
  simp at this
  omega

theorem dropLast5_append (P W : Word) (h : 5 ≤ W.length) :
    (P ++ W).dropLast.dropLast.dropLast.dropLast.dropLast = P ++ W.dropLast.dropLast.dropLast.dropLast.dropLast := by
  have l1 : W.dropLast.length = W.length - 1 := List.length_dropLast
  have l2 : W.dropLast.dropLast.length = W.length - 1 - 1 := by rw [List.length_dropLast, l1]
  have l3 : W.dropLast.dropLast.dropLast.length = W.length - 1 - 1 - 1 := by rw [List.length_dropLast, l2]
  have l4 : W.dropLast.dropLast.dropLast.dropLast.length = W.length - 1 - 1 - 1 - 1 := by rw [List.length_dropLast, l3]
  have n0 : W ≠ [] := by intro e; rw [e] at h; simp at h
  have n1 : W.dropLast ≠ [] := by intro e; rw [e] at l1; simp at l1; omega
  have n2 : W.dropLast.dropLast ≠ [] := by intro e; rw [e] at l2; simp at l2; omega
  have n3 : W.dropLast.dropLast.dropLast ≠ [] := by intro e; rw [e] at l3; simp at l3; omega
  have n4 : W.dropLast.dropLast.dropLast.dropLast ≠ [] := by intro e; rw [e] at l4; simp at l4; omega
  rw [List.dropLast_append_of_ne_nil n0, List.dropLast_append_of_ne_nil n1, List.dropLast_append_of_ne_nil n2,
    List.dropLast_append_of_ne_nil n3, List.dropLast_append_of_ne_nil n4]

/-- the suffix rule only touches the last group -/
theorem opG_append (n : Nat) (P W : Word) (hW : W ≠ []) (hlen : 5 ≤ W.length ∨ n % 100 ≠ 10) :
    opG n (P ++ W) = P ++ opG n W := by
  unfold opG
  by_cases h10 : n % 100 = 10
  · rw [if_pos (show (n % 100 == 10) = true by simp [h10]), if_pos (show (n % 100 == 10) = true by simp [h10])]
    have h5 : 5 ≤ W.length := by
      rcases hlen with h | h
      · exact h
      · exact absurd h10 h
    rw [dropLast5_append P W h5, List.append_assoc]
  · rw [if_neg (show ¬ (n % 100 == 10) = true by simp [h10]), if_neg (show ¬ (n % 100 == 10) = true by simp [h10])]
    by_cases hc : ((n % 10 == 3 || n % 10 == 6) && n % 100 != 13 && n % 100 != 16) = true
    · rw [if_pos hc, if_pos hc, List.append_assoc]
    · rw [if_neg hc, if_neg hc, List.dropLast_append_of_ne_nil hW, List.append_assoc]

theorem opG_mod (n : Nat) (W : Word) : opG n W = opG (n % 1000) W := by
  have e1 : n % 1000 % 100 = n % 100 := by omega
  have e2 : n % 1000 % 10 = n % 10 := by omega
  unfold opG
  rw [e1, e2]

/-- **the stem of the specification is the concatenation of the ordinal atoms** (`10 < n < 10^6`) -/
theorem ordStem_eq (v : Var) (n : Nat) (h10 : 10 < n) (n1 : n < 10 ^ 6) :
    It.ordStem v n = flat (ordToks (flag v (cp 1 4)) (flag v (cp 0 4)) n) := by
  have hb : It.belowMillion (fun i => if i % 16 == 4 then v i else if i % 16 == 3 then 1 else 0) n =
      [cardWord (flag v (cp 1 4)) (flag v (cp 0 4)) n] :=
    belowMillion_one (ordVar v) n (by omega) n1 rfl rfl rfl
  rw [pow6] at n1
  unfold It.ordStem
  rw [if_neg (show ¬ (n == 1000000) = true by simp; omega), if_neg (show ¬ n ≤ 10 by omega)]
  dsimp only
  rw [hb]
  dsimp only
  unfold ordToks
  by_cases hk : n = 1000
  · subst hk
    rw [if_pos (by decide), if_pos (by decide), if_pos (by decide), flat_single]
    rfl
  · rw [if_neg (show ¬ (n == 1000) = true by simp [hk])]
    by_cases hz : n % 1000 = 0
    · have hg : n / 1000 ≠ 1 := by omega
      have hg0 : n / 1000 ≠ 0 := by omega
      rw [if_pos (show (n % 1000 == 0) = true by simp [hz]), if_pos (show (n % 1000 == 0) = true by simp [hz]),
        if_neg (show ¬ (n / 1000 == 1) = true by simp [hg])]
      rw [cardWord_hi _ _ n hg0 hz, flat_pToks, if_neg (show ¬ (n / 1000 == 1) = true by simp [hg]), flat_append,
        flat_single]
      show (flat (gToks (flag v (cp 1 4)) false false (n / 1000)) ++ ['m', 'i', 'l', 'a']).dropLast.dropLast.dropLast.dropLast ++
        millesim = _
      rw [dropLast4]
    · rw [if_neg (show ¬ (n % 1000 == 0) = true by simp [hz]), if_neg (show ¬ (n % 1000 == 0) = true by simp [hz])]
      have F := ordFacts (flag v (cp 0 4)) (n % 1000) hz (by omega)
      have B := baseFacts (flag v (cp 0 4)) (n % 1000) hz (by omega)
      have hW : flat (gToks (flag v (cp 0 4)) false false (n % 1000)) ≠ [] := by
        intro e
        have := B.len
        rw [e] at this
        simp at this
      show opG n (cardWord (flag v (cp 1 4)) (flag v (cp 0 4)) n) = _
      by_cases hg0 : n / 1000 = 0
      · rw [cardWord_lo _ _ n hg0 hz, opG_mod, F.op, if_pos (show (n / 1000 == 0) = true by simp [hg0]),
          List.nil_append]
      · rw [cardWord_both _ _ n hg0 hz, opG_mod, opG_append _ _ _ hW F.len, F.op,
          if_neg (show ¬ (n / 1000 == 0) = true by simp [hg0]), flat_append]

/-! ## the chain and the stem shape of `ordToks` -/

theorem isSuffixOf_append_of (s X S : Word) (h : s.isSuffixOf S = true) : s.isSuffixOf (X ++ S) = true := by
  rw [List.isSuffixOf_iff_suffix] at h ⊢
  obtain ⟨t, ht⟩ := h
  exact ⟨X ++ t, by rw [List.append_assoc, ht]⟩

theorem stemOk_append (X S : Word) (h : stemOk S = true) : stemOk (X ++ S) = true := by
  have hne : S ≠ [] := by
    intro e
    rw [e] at h
    exact absurd h (by decide)
  unfold stemOk at h ⊢
  simp only [Bool.and_eq_true, Bool.or_eq_true, beq_iff_eq] at h ⊢
  refine ⟨by rw [getLast?_append_ne X S hne]; exact h.1, ?_⟩
  unfold endsWith at h ⊢
  rcases h.2 with h2 | h2
  · exact Or.inl (isSuffixOf_append_of _ X S h2)
  · exact Or.inr (isSuffixOf_append_of _ X S h2)

theorem ordToks_facts (alt1 alt0 : Bool) (n : Nat) (n0 : n ≠ 0) (n1 : n < 10 ^ 6) :
    chainTo (ordToks alt1 alt0 n) none = true ∧ stemOk (flat (ordToks alt1 alt0 n)) = true ∧ ordToks alt1 alt0 n ≠ [] := by
  rw [pow6] at n1
  unfold ordToks
  by_cases hz : n % 1000 = 0
  · rw [if_pos (by simp [hz])]
    by_cases h1 : n / 1000 = 1
    · rw [if_pos (by simp [h1])]
      exact ⟨by decide, by decide, by simp⟩
    · rw [if_neg (by simp [h1])]
      have F := ordFacts alt1 (n / 1000) (by omega) (by omega)
      refine ⟨?_, ?_, by simp⟩
      · rw [chainTo_append]
        show (chainTo (gToks alt1 false false (n / 1000)) (some millesim) && lastOk millesim) = true
        rw [F.chainMs (by omega)]
        decide
      · rw [flat_append, flat_single]
        exact stemOk_append _ _ (by decide)
  · rw [if_neg (by simp [hz])]
    have F := ordFacts alt0 (n % 1000) hz (by omega)
    have hO : oToks alt0 (n % 1000) ≠ [] := by
      intro e
      have := F.head
      rw [e] at this
      cases this
    by_cases h1 : n / 1000 = 0
    · rw [if_pos (by simp [h1]), List.nil_append]
      exact ⟨F.chain, F.stem, hO⟩
    · rw [if_neg (by simp [h1])]
      refine ⟨?_, ?_, by simp [hO]⟩
      · rw [chainTo_append]
        have c1 := F.chain
        have c2 := F.head
        cases hG : oToks alt0 (n % 1000) with
        | nil => exact absurd hG hO
        | cons x rest =>
          rw [hG] at c1 c2
          dsimp only
          unfold headOk at c2
          rw [Bool.and_eq_true] at c2
          rw [chainTo_pToks alt1 (n / 1000) h1 (by omega) x c2, c1]
          rfl
      · rw [flat_append]
        exact stemOk_append _ _ F.stem

/-! ## the irregular ranks `1 … 10` and `10^6` -/

def smallDigits (n : Nat) : Word := if n < 10 then [digitChar n] else if n == 10 then w!"10" else w!"1000000"

def smallOk (n i : Nat) : Bool :=
  match It.ordinal (fun _ => 0) n i with
  | none => true
  | some (ws, mk) => text2digitsWords It.lang ws == .ok (smallDigits n ++ mk)

theorem tblSmall : [1, 2, 3, 4, 5, 6, 7, 8, 9, 10, 1000000].all (fun n => (List.range 4).all (smallOk n)) = true := by
  decide +kernel

theorem ordStem_small (v : Var) (n : Nat) (h : n ≤ 10 ∨ n = 1000000) :
    It.ordStem v n = It.ordStem (fun _ => 0) n := by
  unfold It.ordStem
  by_cases hk : n = 1000000
  · rw [if_pos (show (n == 1000000) = true by simp [hk]), if_pos (show (n == 1000000) = true by simp [hk])]
  · have : n ≤ 10 := by omega
    rw [if_neg (show ¬ (n == 1000000) = true by simp [hk]), if_neg (show ¬ (n == 1000000) = true by simp [hk]),
      if_pos this, if_pos this]

theorem ordinal_small (v : Var) (n i : Nat) (h : n ≤ 10 ∨ n = 1000000) :
    It.ordinal v n i = It.ordinal (fun _ => 0) n i := by
  unfold It.ordinal
  rw [ordStem_small v n h]

theorem decDigits_lt10 (n : Nat) (h : n < 10) : decDigits n = [n] := by rw [decDigits, if_pos h]

theorem decChars_small (n : Nat) (h : n ≤ 10 ∨ n = 1000000) : decChars n = smallDigits n := by
  unfold decChars smallDigits
  by_cases h9 : n < 10
  · rw [if_pos h9, decDigits_lt10 n h9]; rfl
  · rw [if_neg h9]
    by_cases h10 : n = 10
    · subst h10
      rw [decDigits, if_neg (by decide), decDigits_lt10 _ (by decide)]
      rfl
    · have hk : n = 1000000 := by omega
      subst hk
      rw [if_neg (by decide), ← lsb_rev_dec 1000000 (by decide), show (1000000 : Nat) = 10 ^ 6 from rfl, lsb_pow 6]
      rfl

/-! ## C04 -/

theorem marker_eq (i : Nat) (hi : i < 4) : (markOf (It.inflVowel i)).chars = It.ordinalMarker i := by
  have : i = 0 ∨ i = 1 ∨ i = 2 ∨ i = 3 := by omega
  rcases this with rfl | rfl | rfl | rfl <;> rfl

theorem inflVowel_vowel (i : Nat) (hi : i < 4) : It.isVowelEnding (It.inflVowel i) = true := by
  have : i = 0 ∨ i = 1 ∨ i = 2 ∨ i = 3 := by omega
  rcases this with rfl | rfl | rfl | rfl <;> rfl

/-- **C04 for Italian, unbounded**: every rank `0 < n ≤ 10^6`, every inflection `i` (`-o`, `-a`, `-i`, `-e`; the
specification does not spell `secondi`), every variant `v` (the `cento` elisions): validating the spelled ordinal
yields the digits of `n` followed by the expected marker (`º` / `ª`). No restriction. -/
theorem C04_validate_it (v : Spec.Var) (n i : Nat) (hn : 0 < n) (h : n ≤ 10 ^ 6) (ws : List Word) (mk : Word)
    (ho : Spec.It.speller.ordinal v n i = some (ws, mk)) :
    text2digitsWords It.lang ws = .ok (decChars n ++ mk) := by
  rw [pow6] at h
  have ho' : It.ordinal v n i = some (ws, mk) := ho
  by_cases hs : n ≤ 10 ∨ n = 1000000
  · -- irregular ranks: the kernel table
    rw [ordinal_small v n i hs] at ho'
    have hi : i < 4 := by
      unfold It.ordinal at ho'
      by_cases hi : i < 4
      · exact hi
      · rw [if_pos (by simp; omega)] at ho'
        cases ho'
    have hmem : n ∈ [1, 2, 3, 4, 5, 6, 7, 8, 9, 10, 1000000] := by
      simp only [List.mem_cons, List.not_mem_nil, or_false]
      omega
    have ht := List.all_eq_true.mp (List.all_eq_true.mp tblSmall n hmem) i (by simp [hi])
    unfold smallOk at ht
    rw [ho'] at ht
    dsimp only at ht
    rw [decChars_small n hs]
    exact beq_iff_eq.mp ht
  · -- compound ranks
    have h10 : 10 < n := by omega
    have n1 : n < 10 ^ 6 := by rw [pow6]; omega
    unfold It.ordinal at ho'
    by_cases hc : (n == 0 || decide (n > 1000000) || decide (i ≥ 4)) = true
    · rw [if_pos hc] at ho'; cases ho'
    · rw [if_neg hc, if_neg (by simp; omega)] at ho'
      have hi : i < 4 := by
        simp only [Bool.or_eq_true, beq_iff_eq, decide_eq_true_eq, not_or] at hc
        omega
      injection ho' with ho'
      injection ho' with e1 e2
      subst e1 e2
      obtain ⟨c1, c2, c3⟩ := ordToks_facts (flag v (cp 1 4)) (flag v (cp 0 4)) n (by omega) n1
      have happ := ord_apply _ (It.inflVowel i) n c3 c1 c2 (inflVowel_vowel i hi)
        (ordToks_steps 0 _ _ n (by omega) n1) (by omega) n1
      rw [← ordStem_eq v n h10 n1] at happ
      rw [ord_validate _ n _ (by omega) happ, marker_eq i hi]

/-- the scanner (threshold 0) finds the spelled ordinal as exactly one occurrence with that text -/
theorem C04_scan_it (v : Spec.Var) (n i : Nat) (hn : 0 < n) (h : n ≤ 10 ^ 6) (ws : List Word) (mk : Word)
    (ho : Spec.It.speller.ordinal v n i = some (ws, mk)) :
    occTexts It.lang zeroThr ws = some [decChars n ++ mk] :=
  scan_of_validate It.lang accOK_it _ _ (C04_validate_it v n i hn h ws mk ho)

/-- the hypotheses are satisfiable: `novecentonovantanovemilanovecentonovantanovesima`, `centottantunesimi` -/
example : text2digitsWords It.lang [Spec.It.ordStem (fun _ => 0) 999999 ++ ['a']] = .ok (decChars 999999 ++ ['ª']) :=
  C04_validate_it (fun _ => 0) 999999 1 (by decide) (by decide) _ _ rfl
example : text2digitsWords It.lang [w!"centottantunesimi"] = .ok (decChars 181 ++ ['º']) :=
  C04_validate_it (fun _ => 0) 181 2 (by decide) (by decide) _ _ (by decide)

end T2N.ExtIt
