/-
  T2N.Lemmas.ExtIt.Lz — Italian, leading zeros (C16), validator level.

  The Italian interpreter DOES read the leading-zero counter (`is_empty()` in the irregular ordinals
  `primo … nono` and in the plural multipliers, `len()` in `e` and in `isJustOne`), so the English argument
  (no guard reads `lz`) does not apply verbatim. What holds is:
    a word that is accepted (or `Incomplete`) without adding a zero, AND that is accepted in some state that
    is not empty, behaves the same whatever the number of leading zeros            (`applyFuel_lz`).
  The side condition excludes exactly `primo … nono` (`zero primo` is refused by the library: finding below).
  Every word of a spelled cardinal satisfies it, because the whole spelling is also accepted on top of
  `10^12` (`cardinal_stepsN`, the frame form of `C01It.cardinal_steps`).
-/
import T2N.Lemmas.C01It
import T2N.Lemmas.EnExt
import T2N.Lemmas.Agree

set_option maxRecDepth 100000

namespace T2N.ExtIt
open T2N T2N.Spec
open T2N.C01En (mk lsb lsb_zero lsb_ne_nil lsb_rev_dec mk_nil shift_lsb)
open T2N.EnExt (setLz put_lz put_lz_mono fput_lz push_lz putAt_lz shift_lz exec_lz_mono mergeGroup_lz
  mergeGroup_lz_mono lookup_mem replicate_map)
open T2N.C01It (StepsF exists_mul_of_mod groupIsOne_lsb plurBad_false)

/-! ## guards that do not depend on the leading-zero counter -/

def gB : Guard → Bool
  | .tt => true
  | .neg g => gB g
  | .and a b => gB a && gB b
  | .or a b => gB a && gB b
  | .peekEq _ _ => true
  | .peekLt _ _ => true
  | .peekLen _ _ => true
  | .null => true
  | .rangeFree _ _ => true
  | .flag _ => true
  | .markerOrd => true
  | .markerNone => true
  | .groupOne _ => true
  | .free _ => true
  | .empty => false
  | .lenGe _ => false
  | .lenEq _ => false

/-- `is_free(j)` does not depend on the leading zeros: on an empty buffer it is true either way -/
theorem isFree_lz (b : DS) (k j : Nat) : (setLz k b).isFree j = b.isFree j := by
  cases b with
  | mk r z f fl m =>
    cases r with
    | nil => simp [setLz, DS.isFree, allZero]
    | cons a t => simp [setLz, DS.isFree, DS.isEmpty]

theorem gB_eval (g : Guard) (b : DS) (k : Nat) (h : gB g = true) : g.eval (setLz k b) = g.eval b := by
  induction g with
  | tt => rfl
  | neg g ih => simp only [Guard.eval, ih h]
  | and x y ihx ihy =>
    simp only [gB, Bool.and_eq_true] at h
    simp only [Guard.eval, ihx h.1, ihy h.2]
  | or x y ihx ihy =>
    simp only [gB, Bool.and_eq_true] at h
    simp only [Guard.eval, ihx h.1, ihy h.2]
  | peekEq _ _ => rfl
  | peekLt _ _ => rfl
  | peekLen _ _ => rfl
  | null => rfl
  | rangeFree _ _ => rfl
  | flag _ => rfl
  | markerOrd => rfl
  | markerNone => rfl
  | groupOne _ => rfl
  | free j => exact isFree_lz b k j
  | empty => exact absurd h Bool.false_ne_true
  | lenGe _ => exact absurd h Bool.false_ne_true
  | lenEq _ => exact absurd h Bool.false_ne_true

def okAct : Act → Bool
  | .ite g a b => gB g && okAct a && okAct b
  | .block _ a => okAct a
  | _ => true

theorem exec_lz (a : Act) (h : okAct a = true) : ∀ (b : DS) (k : Nat), (a.exec b).2.1.lz = b.lz →
    a.exec (setLz k b) = ((a.exec b).1, setLz k (a.exec b).2.1, (a.exec b).2.2) := by
  induction a with
  | put ds => intro b k hl; simp only [Act.exec] at *; rw [put_lz b ds k hl]
  | fput ds => intro b k _; simp only [Act.exec]; rw [(fput_lz b ds k).1]
  | shift p => intro b k _; simp only [Act.exec]; rw [(shift_lz b p k).1]
  | putAt d p => intro b k _; simp only [Act.exec]; rw [(putAt_lz b d p k).1]
  | push ds => intro b k _; simp only [Act.exec]; rw [(push_lz b ds k).1]
  | fail e => intro b k _; rfl
  | ite g x y ihx ihy =>
    intro b k hl
    simp only [okAct, Bool.and_eq_true] at h
    simp only [Act.exec] at *
    rw [gB_eval g b k h.1.1]
    by_cases hg : g.eval b = true
    · simp only [if_pos hg] at hl ⊢; exact ihx h.1.2 b k hl
    · simp only [if_neg hg] at hl ⊢; exact ihy h.2 b k hl
  | block m a ih =>
    intro b k hl
    simp only [okAct] at h
    simp only [Act.exec] at *
    rw [ih h b k hl]

/-! ## instructions that behave the same on more leading zeros -/

/-- accepted, or accepted as `Incomplete` -/
def Acc (r : Res) : Prop := r = none ∨ r = some .incomplete

theorem not_acc_nan : ¬ Acc (some Err.nan) := by
  intro h; rcases h with h | h <;> cases h

/-- an instruction that, when it is accepted without adding a zero, does the same on more leading zeros -/
def LzOk (a : Act) : Prop := ∀ (b : DS) (k : Nat), b.lz ≤ k → Acc (a.exec b).1 → (a.exec b).2.1.lz = b.lz →
  a.exec (setLz k b) = ((a.exec b).1, setLz k (a.exec b).2.1, (a.exec b).2.2)

theorem LzOk.of_ok {a : Act} (h : okAct a = true) : LzOk a := fun b k _ _ hl => exec_lz a h b k hl

theorem LzOk.when {g : Guard} {a : Act} (hg : gB g = true) (ha : LzOk a) : LzOk (.when g a) := by
  intro b k hk hst hl
  simp only [Act.when, Act.exec] at *
  rw [gB_eval g b k hg]
  by_cases h : g.eval b = true
  · simp only [if_pos h] at hst hl ⊢; exact ha b k hk hst hl
  · rw [if_neg h] at hst
    exact absurd hst not_acc_nan

/-- `isJustOne` on more zeros implies `isJustOne` (the only digit is a one, no zero was said) -/
theorem isJustOne_down (b : DS) (k : Nat) (hk : b.lz ≤ k) (h : It.isJustOne.eval (setLz k b) = true) :
    It.isJustOne.eval b = true := by
  cases b with
  | mk r z f fl m =>
    simp only [It.isJustOne, Guard.eval, setLz, DS.len, DS.peek, Bool.and_eq_true, beq_iff_eq] at h hk ⊢
    obtain ⟨h1, h2⟩ := h
    cases r with
    | nil => simp at h2
    | cons a t =>
      simp only [List.length_cons] at h1 ⊢
      exact ⟨by omega, h2⟩

theorem empty_down (b : DS) (k : Nat) (hk : b.lz ≤ k) (h : (setLz k b).isEmpty = true) : b.isEmpty = true := by
  cases b with
  | mk r z f fl m =>
    simp only [setLz, DS.isEmpty, Bool.and_eq_true, beq_iff_eq] at h hk ⊢
    exact ⟨h.1, by omega⟩

theorem LzOk.multOrd (p : Nat) : LzOk (It.multOrd p) := by
  intro b k hk hst _
  simp only [It.multOrd, Act.exec] at hst ⊢
  by_cases h : It.isJustOne.eval b = true
  · rw [if_pos h] at hst; exact absurd hst not_acc_nan
  · have h' : ¬ It.isJustOne.eval (setLz k b) = true := fun e => h (isJustOne_down b k hk e)
    rw [if_neg h, if_neg h', (shift_lz b p k).1]

theorem LzOk.multPlur (p : Nat) : LzOk (It.multPlur p) := by
  intro b k hk hst _
  simp only [It.multPlur, Act.exec] at hst ⊢
  by_cases h : (Guard.or .empty It.isJustOne).eval b = true
  · rw [if_pos h] at hst; exact absurd hst not_acc_nan
  · have h' : ¬ (Guard.or .empty It.isJustOne).eval (setLz k b) = true := by
      intro e
      apply h
      simp only [Guard.eval, Bool.or_eq_true] at e ⊢
      rcases e with e | e
      · exact Or.inl (empty_down b k hk e)
      · exact Or.inr (isJustOne_down b k hk e)
    rw [if_neg h, if_neg h', (shift_lz b p k).1]

theorem LzOk.conj : LzOk (.when (.lenGe 2) (.fail .incomplete)) := by
  intro b k hk hst _
  simp only [Act.when, Act.exec] at hst ⊢
  by_cases hg : (Guard.lenGe 2).eval b = true
  · have hg' : (Guard.lenGe 2).eval (setLz k b) = true := by
      simp only [Guard.eval, DS.len, setLz, ge_iff_le, decide_eq_true_eq] at hg ⊢
      omega
    simp only [if_pos hg, if_pos hg']
  · simp only [if_neg hg] at hst
    exact absurd hst not_acc_nan

/-- `primo … nono`: refused as soon as the builder is not empty -/
theorem ordUnit_nonempty (d : Nat) (b : DS) (h : b.isEmpty = false) : ((It.ordUnit d).exec b).1 = some .nan := by
  simp [It.ordUnit, Act.when, Act.exec, Guard.eval, h]

/-! ## the vocabulary -/

def ordKeys : List Word := [w!"prim", w!"second", w!"terz", w!"quart", w!"quint", w!"sest", w!"settim", w!"ottav", w!"non"]

def specialKeys : List Word :=
  [w!"milionesim", w!"milioni", w!"miliardesim", w!"miliardi", w!"bilionesim", w!"bilioni", w!"e"]

theorem vocab_cls :
    It.vocab.all (fun p => okAct p.2 || ordKeys.contains p.1 || specialKeys.contains p.1) = true := by decide

theorem lookup_eq {key : Word} {a a' : Act} (h : It.vocab.lookup key = some a) (h' : It.vocab.lookup key = some a') :
    a = a' := Option.some.inj (h.symm.trans h')

/-- every instruction of the vocabulary is `LzOk`, except those of `primo … nono` -/
theorem vocab_lz (key : Word) (a : Act) (h : It.vocab.lookup key = some a) :
    LzOk a ∨ ∃ d, a = It.ordUnit d := by
  have hm := lookup_mem key a _ h
  have hc := List.all_eq_true.mp vocab_cls _ hm
  simp only [Bool.or_eq_true] at hc
  rcases hc with (hc | hc) | hc
  · exact Or.inl (LzOk.of_ok hc)
  · right
    have hk : key ∈ ordKeys := List.contains_iff_mem.mp hc
    simp only [ordKeys, List.mem_cons, List.not_mem_nil, or_false] at hk
    rcases hk with rfl | rfl | rfl | rfl | rfl | rfl | rfl | rfl | rfl
    · exact ⟨1, lookup_eq h rfl⟩
    · exact ⟨2, lookup_eq h rfl⟩
    · exact ⟨3, lookup_eq h rfl⟩
    · exact ⟨4, lookup_eq h rfl⟩
    · exact ⟨5, lookup_eq h rfl⟩
    · exact ⟨6, lookup_eq h rfl⟩
    · exact ⟨7, lookup_eq h rfl⟩
    · exact ⟨8, lookup_eq h rfl⟩
    · exact ⟨9, lookup_eq h rfl⟩
  · left
    have hk : key ∈ specialKeys := List.contains_iff_mem.mp hc
    simp only [specialKeys, List.mem_cons, List.not_mem_nil, or_false] at hk
    rcases hk with rfl | rfl | rfl | rfl | rfl | rfl | rfl
    · have e : a = .when (.rangeFree 6 8) (It.multOrd 6) := lookup_eq h rfl
      rw [e]; exact LzOk.when rfl (LzOk.multOrd 6)
    · have e : a = .when (.rangeFree 6 8) (It.multPlur 6) := lookup_eq h rfl
      rw [e]; exact LzOk.when rfl (LzOk.multPlur 6)
    · have e : a = It.multOrd 9 := lookup_eq h rfl
      rw [e]; exact LzOk.multOrd 9
    · have e : a = It.multPlur 9 := lookup_eq h rfl
      rw [e]; exact LzOk.multPlur 9
    · have e : a = It.multOrd 12 := lookup_eq h rfl
      rw [e]; exact LzOk.multOrd 12
    · have e : a = It.multPlur 12 := lookup_eq h rfl
      rw [e]; exact LzOk.multPlur 12
    · have e : a = .when (.lenGe 2) (.fail .incomplete) := lookup_eq h rfl
      rw [e]; exact LzOk.conj

/-! ## word level -/

/-- the instruction a word that is not a compound is bound to -/
def actOf (w : Word) : Act :=
  if It.lemmatize w == w!"non" && w == w!"non" then .fail .nan
  else (It.vocab.lookup (It.lemmatize w)).getD (.fail .nan)

/-- the ordinal post-processing of `apply` -/
def post (w : Word) (t : Res × DS × Nat) : Res × DS :=
  if t.1.isNone && !(It.morph w).isNone then (t.1, { t.2.1 with marker := It.morph w, frozen := true })
  else (t.1, t.2.1)

theorem applyFuel_nosplit (f : Nat) (w : Word) (b : DS) (h : isSplittable It.patterns (It.lemmatize w) = false) :
    It.applyFuel (f + 1) w b = post w ((actOf w).exec b) := by
  rw [It.applyFuel]
  dsimp only
  rw [if_neg (by rw [h]; exact Bool.false_ne_true)]
  rfl

theorem applyFuel_split (f : Nat) (w : Word) (b : DS) (h : isSplittable It.patterns (It.lemmatize w) = true) :
    It.applyFuel (f + 1) w b =
      match execGroup (It.applyFuel f) (splitWord It.patterns (It.lemmatize w)) with
      | .ok ds => mergeGroup b ds false (It.morph w)
      | .error e => (some e, b) := by
  rw [It.applyFuel]
  dsimp only
  rw [if_pos h]
  rfl

theorem post_fst (w : Word) (t : Res × DS × Nat) : (post w t).1 = t.1 := by
  unfold post; split <;> rfl

theorem post_lz (w : Word) (t : Res × DS × Nat) : (post w t).2.lz = t.2.1.lz := by
  unfold post; split <;> rfl

theorem post_setLz (w : Word) (r : Res) (b : DS) (n k : Nat) :
    post w (r, setLz k b, n) = ((post w (r, b, n)).1, setLz k (post w (r, b, n)).2) := by
  unfold post; split <;> rfl

theorem applyFuel_lz_mono (f : Nat) (w : Word) (b : DS) : b.lz ≤ (It.applyFuel f w b).2.lz := by
  cases f with
  | zero => exact Nat.le_refl _
  | succ f =>
    by_cases hc : isSplittable It.patterns (It.lemmatize w) = true
    · rw [applyFuel_split f w b hc]
      cases execGroup (It.applyFuel f) (splitWord It.patterns (It.lemmatize w)) with
      | error e => exact Nat.le_refl _
      | ok ds => exact mergeGroup_lz_mono b ds _
    · rw [applyFuel_nosplit f w b (by simpa using hc), post_lz]
      exact exec_lz_mono _ b

/-- the word is accepted (or `Incomplete`) in some state that is not empty -/
def AccNE (f : Nat) (w : Word) : Prop := ∃ b', b'.isEmpty = false ∧ Acc (It.applyFuel f w b').1

/-- **`lz`-independence of the Italian interpreter**: a word that is accepted (or `Incomplete`) without adding
a leading zero, and that is not one of `primo … nono` (it is accepted in some non-empty state), behaves the
same whatever the number of leading zeros -/
theorem applyFuel_lz (f : Nat) (w : Word) (b : DS) (k : Nat) (hk : b.lz ≤ k)
    (hst : Acc (It.applyFuel f w b).1) (hlz : (It.applyFuel f w b).2.lz = b.lz) (hne : AccNE f w) :
    It.applyFuel f w (setLz k b) = ((It.applyFuel f w b).1, setLz k (It.applyFuel f w b).2) := by
  cases f with
  | zero => exact absurd hst not_acc_nan
  | succ f =>
    by_cases hc : isSplittable It.patterns (It.lemmatize w) = true
    · rw [applyFuel_split f w b hc] at hlz ⊢
      rw [applyFuel_split f w _ hc]
      cases hx : execGroup (It.applyFuel f) (splitWord It.patterns (It.lemmatize w)) with
      | error e => rfl
      | ok ds =>
        rw [hx] at hlz
        exact mergeGroup_lz b ds _ k hlz
    · have hc' : isSplittable It.patterns (It.lemmatize w) = false := by simpa using hc
      obtain ⟨b', hb', hacc'⟩ := hne
      rw [applyFuel_nosplit f w b hc'] at hst hlz ⊢
      rw [applyFuel_nosplit f w _ hc']
      rw [applyFuel_nosplit f w b' hc', post_fst] at hacc'
      rw [post_fst] at hst
      rw [post_lz] at hlz
      have hL : LzOk (actOf w) := by
        unfold actOf at hacc' ⊢
        by_cases hn : (It.lemmatize w == w!"non" && w == w!"non") = true
        · rw [if_pos hn]; exact LzOk.of_ok rfl
        · rw [if_neg hn] at hacc' ⊢
          cases hlk : It.vocab.lookup (It.lemmatize w) with
          | none => exact LzOk.of_ok rfl
          | some a =>
            rw [hlk] at hacc'
            simp only [Option.getD_some] at hacc' ⊢
            rcases vocab_lz _ a hlk with h | ⟨d, rfl⟩
            · exact h
            · rw [ordUnit_nonempty d b' hb'] at hacc'
              exact absurd hacc' not_acc_nan
      rw [hL b k hk hst hlz, post_setLz]

/-! ## run level -/

theorem run_lz_mono : ∀ (ws : List Word) (b : DS) (inc : Bool) (r : DS),
    execGroupFrom It.apply ws b inc = .ok r → b.lz ≤ r.lz := by
  intro ws
  induction ws with
  | nil =>
    intro b inc r h
    rw [execGroupFrom] at h
    cases inc with
    | true => exact absurd h (by simp)
    | false =>
      have : b = r := by simpa using h
      rw [this]; exact Nat.le_refl _
  | cons w ws ih =>
    intro b inc r h
    rw [execGroupFrom] at h
    have hm : b.lz ≤ (It.apply w b).2.lz := applyFuel_lz_mono 2 w b
    rcases hx : It.apply w b with ⟨st, b1⟩
    rw [hx] at h hm
    cases st with
    | none => exact Nat.le_trans hm (ih b1 false r h)
    | some e =>
      cases e with
      | incomplete => exact Nat.le_trans hm (ih b1 true r h)
      | overlap => exact absurd h (by simp)
      | nan => exact absurd h (by simp)
      | frozen => exact absurd h (by simp)

/-- a run that added no leading zero, none of whose words is `primo … nono`, is reproduced verbatim on `k`
leading zeros -/
theorem run_lz_append (k : Nat) (rest : List Word) : ∀ (ws : List Word) (b : DS) (inc : Bool) (r : DS), b.lz ≤ k →
    (∀ w ∈ ws, AccNE 2 w) → execGroupFrom It.apply ws b inc = .ok r → r.lz = b.lz →
    execGroupFrom It.apply (ws ++ rest) (setLz k b) inc = execGroupFrom It.apply rest (setLz k r) false := by
  intro ws
  induction ws with
  | nil =>
    intro b inc r _ _ h _
    rw [execGroupFrom] at h
    cases inc with
    | true => exact absurd h (by simp)
    | false =>
      have : b = r := by simpa using h
      rw [this]; rfl
  | cons w ws ih =>
    intro b inc r hk hne h hl
    rw [execGroupFrom] at h
    rw [List.cons_append, execGroupFrom]
    have hm : b.lz ≤ (It.apply w b).2.lz := applyFuel_lz_mono 2 w b
    have ht := applyFuel_lz 2 w b k hk
    have hne' : ∀ x ∈ ws, AccNE 2 x := fun x hx => hne x (List.mem_cons_of_mem _ hx)
    have hnw : AccNE 2 w := hne w List.mem_cons_self
    rcases hx : It.apply w b with ⟨st, b1⟩
    have hx' : It.applyFuel 2 w b = (st, b1) := hx
    rw [hx] at h hm
    rw [hx'] at ht
    dsimp only at ht hm
    cases st with
    | none =>
      have hm2 := run_lz_mono ws b1 false r h
      have hb1 : b1.lz = b.lz := by omega
      have e : It.apply w (setLz k b) = (none, setLz k b1) := ht (Or.inl rfl) hb1 hnw
      rw [e]
      exact ih b1 false r (by omega) hne' h (by omega)
    | some e =>
      cases e with
      | incomplete =>
        have hm2 := run_lz_mono ws b1 true r h
        have hb1 : b1.lz = b.lz := by omega
        have e : It.apply w (setLz k b) = (some .incomplete, setLz k b1) := ht (Or.inr rfl) hb1 hnw
        rw [e]
        exact ih b1 true r (by omega) hne' h (by omega)
      | overlap => exact absurd h (by simp)
      | nan => exact absurd h (by simp)
      | frozen => exact absurd h (by simp)

theorem run_lz (k : Nat) (ws : List Word) (b : DS) (inc : Bool) (r : DS) (hk : b.lz ≤ k)
    (hne : ∀ w ∈ ws, AccNE 2 w) (h : execGroupFrom It.apply ws b inc = .ok r) (hl : r.lz = b.lz) :
    execGroupFrom It.apply ws (setLz k b) inc = .ok (setLz k r) := by
  have := run_lz_append k [] ws b inc r hk hne h hl
  rw [List.append_nil] at this
  rw [this, execGroupFrom, if_neg Bool.false_ne_true]

/-- every word of a run that starts in a non-empty state is accepted in a non-empty state -/
theorem run_accNE : ∀ (ws : List Word) (b : DS) (inc : Bool) (r : DS), b.isEmpty = false →
    execGroupFrom It.apply ws b inc = .ok r → ∀ w ∈ ws, AccNE 2 w := by
  intro ws
  induction ws with
  | nil => intro _ _ _ _ _ w hw; cases hw
  | cons x ws ih =>
    intro b inc r hb h w hw
    rw [execGroupFrom] at h
    rcases hx : It.apply x b with ⟨st, b1⟩
    rw [hx] at h
    have hfst : (It.apply x b).1 = st := by rw [hx]
    have hsnd : (It.apply x b).2 = b1 := by rw [hx]
    cases st with
    | none =>
      have hb1 : b1.isEmpty = false := by rw [← hsnd]; exact It.apply_ok_nonempty x b hfst
      rcases List.mem_cons.mp hw with rfl | hw
      · exact ⟨b, hb, Or.inl hfst⟩
      · exact ih b1 false r hb1 h w hw
    | some e =>
      cases e with
      | incomplete =>
        have hb1 : b1.isEmpty = false := by
          rw [← hsnd, (It.apply_err_same x b _ hfst).isEmpty_eq]; exact hb
        rcases List.mem_cons.mp hw with rfl | hw
        · exact ⟨b, hb, Or.inr hfst⟩
        · exact ih b1 true r hb1 h w hw
      | overlap => exact absurd h (by simp)
      | nan => exact absurd h (by simp)
      | frozen => exact absurd h (by simp)

/-! ## the spelled cardinal on top of a multiple of `10^12` -/

theorem pow12 : (10 : Nat) ^ 12 = 1000000000000 := by decide

/-- `miliardo` after `un`, arbitrary higher part -/
theorem miliardo_execN (N : Nat) (hN : N % 10 ^ 12 = 0) :
    (It.multSing 9).exec (mk (lsb (N + 1))) = (none, mk (lsb (N + 10 ^ 9)), 0) := by
  obtain ⟨A, rfl⟩ := exists_mul_of_mod N _ hN
  rw [Nat.add_comm _ 1, Nat.add_comm _ (10 ^ 9)]
  have hone : (Guard.neg (.groupOne 9)).eval (mk (lsb (1 + 10 ^ 12 * A))) = false := by
    simp only [Guard.eval]
    rw [groupIsOne_lsb 12 9 A (by decide) (by decide)]; rfl
  have hs : (mk (lsb (1 + 10 ^ 12 * A))).shift 9 = (none, mk (lsb (1 * 10 ^ 9 + 10 ^ 12 * A))) :=
    shift_lsb 9 1 A (by decide) (by decide) (by decide)
  rw [Nat.one_mul] at hs
  simp only [It.multSing, Act.exec]
  rw [hone, if_neg Bool.false_ne_true, hs]

/-- `miliardi` after a group `g ≥ 2`, arbitrary higher part -/
theorem miliardi_execN (N g : Nat) (hN : N % 10 ^ 12 = 0) (g2 : 2 ≤ g) (g1 : g < 1000) :
    (It.multPlur 9).exec (mk (lsb (N + g))) = (none, mk (lsb (N + g * 10 ^ 9)), 0) := by
  have hbad := plurBad_false (N + g) (by omega)
  obtain ⟨A, rfl⟩ := exists_mul_of_mod N _ hN
  rw [Nat.add_comm _ g, Nat.add_comm _ (g * 10 ^ 9)] at *
  have hs : (mk (lsb (g + 10 ^ 12 * A))).shift 9 = (none, mk (lsb (g * 10 ^ 9 + 10 ^ 12 * A))) :=
    shift_lsb 9 g A (by decide) (by omega) g1
  simp only [It.multPlur, Act.exec]
  rw [hbad, if_neg Bool.false_ne_true, hs]

open T2N.C01It in
theorem scaled3_stepsN (v : Var) (n N : Nat) (n1 : n < 1000) (hN : N % 10 ^ 12 = 0) :
    StepsF 1 (It.scaled v 3 n) N (N + n * 10 ^ 9) := by
  have hN3 : N % 1000 = 0 := by rw [pow12] at hN; omega
  rw [scaled_eq]
  by_cases h0 : n = 0
  · subst h0; rw [if_pos (by decide)]; exact (StepsF.nil 1 N).cast (by simp)
  · rw [if_neg (by simp [h0])]
    by_cases h1 : n = 1
    · subst h1
      rw [if_pos (by decide)]
      have s2 : StepsF 1 [w!"miliardo"] (N + 1) (N + 10 ^ 9) := StepsF.atom plain_miliardo (miliardo_execN N hN)
      exact (StepsF.append (un_step N (by omega)) s2).cast (by omega)
    · rw [if_neg (by simp [h1])]
      have s2 : StepsF 1 [w!"miliardi"] (N + n) (N + n * 10 ^ 9) :=
        StepsF.atom plain_miliardi (miliardi_execN N n hN (by omega) n1)
      exact StepsF.append (scaled_group_steps v 3 n N h0 n1 hN3) s2

open T2N.C01It in
/-- **frame form of `C01It.cardinal_steps`**: the spelled cardinal on top of any multiple of `10^12` -/
theorem cardinal_stepsN (v : Var) (n N : Nat) (hn : n ≠ 0) (h : n < 10 ^ 12) (hN : N % 10 ^ 12 = 0) :
    StepsF 1 (It.cardinal v n) N (N + n) := by
  rw [pow12] at h hN
  unfold It.cardinal
  rw [if_neg (by simp [hn])]
  dsimp only
  obtain ⟨g3, hg3⟩ : ∃ g3, g3 = n / 1000000000 % 1000 := ⟨_, rfl⟩
  obtain ⟨g2, hg2⟩ : ∃ g2, g2 = n / 1000000 % 1000 := ⟨_, rfl⟩
  obtain ⟨lo, hlo⟩ : ∃ lo, lo = n % 1000000 := ⟨_, rfl⟩
  rw [← hg3, ← hg2, ← hlo]
  have s3 := scaled3_stepsN v g3 N (by omega) (by rw [pow12]; exact hN)
  have s2 := scaled2_steps v g2 (N + g3 * 10 ^ 9) (by omega) (by rw [pow9]; omega)
  rw [pow6, pow9] at s2
  rw [pow9] at s3
  have hsum : N + g3 * 1000000000 + g2 * 1000000 + lo = N + n := by omega
  have s0 : StepsF 1 (if (lo == 0) = true then [] else It.belowMillion v lo) (N + g3 * 1000000000 + g2 * 1000000)
      (N + n) := by
    by_cases hz : lo = 0
    · rw [if_pos (by simp [hz])]
      have e : N + g3 * 1000000000 + g2 * 1000000 = N + n := by
        rw [hz, Nat.add_zero] at hsum; exact hsum
      exact StepsF.cast (StepsF.nil 1 _) e
    · rw [if_neg (by simp [hz])]
      exact (belowMillion_steps v lo _ hz (by rw [pow6]; omega) (by rw [pow6]; omega)).cast hsum
  generalize (if (lo == 0) = true then [] else It.belowMillion v lo) = p0 at s0
  have t2 : StepsF 1 ((if (g2 != 0 && lo != 0 && flag v (cp 2 1)) = true then [It.conj] else []) ++ p0)
      (N + g3 * 1000000000 + g2 * 1000000) (N + n) := by
    split
    · rename_i hc
      simp only [Bool.and_eq_true, bne_iff_ne, ne_eq] at hc
      rw [List.singleton_append]
      exact StepsF.e (by omega) s0 (s0.ne_nil (by omega))
    · exact s0
  have t3 := StepsF.append s2 t2
  have t4 : StepsF 1 ((if (g3 != 0 && (g2 != 0 || lo != 0) && flag v (cp 3 1)) = true then [It.conj] else []) ++
      (It.scaled v 2 g2 ++ ((if (g2 != 0 && lo != 0 && flag v (cp 2 1)) = true then [It.conj] else []) ++ p0)))
      (N + g3 * 1000000000) (N + n) := by
    split
    · rename_i hc
      simp only [Bool.and_eq_true, Bool.or_eq_true, bne_iff_ne, ne_eq] at hc
      rw [List.singleton_append]
      exact StepsF.e (by omega) t3 (t3.ne_nil (by omega))
    · exact t3
  have t5 := StepsF.append s3 t4
  simp only [List.append_assoc]
  exact t5

/-- the run of a non-zero cardinal on the empty builder -/
theorem cardinal_run (v : Var) (n : Nat) (hn : n ≠ 0) (h : n < 10 ^ 12) :
    execGroupFrom It.apply (It.cardinal v n) DS.new false = .ok (mk (lsb n)) := by
  have hs := C01It.cardinal_steps v n hn h []
  rw [List.append_nil, lsb_zero, mk_nil] at hs
  show execGroupFrom (It.applyFuel (1 + 1)) _ _ _ = _
  rw [hs, execGroupFrom, if_neg Bool.false_ne_true]

/-- **no word of a spelled cardinal is one of `primo … nono`**: each is accepted in a non-empty state -/
theorem cardinal_accNE (v : Var) (n : Nat) (hn : n ≠ 0) (h : n < 10 ^ 12) : ∀ w ∈ It.cardinal v n, AccNE 2 w := by
  have hs := cardinal_stepsN v n (10 ^ 12) hn h (Nat.mod_self _) []
  rw [List.append_nil] at hs
  have hrun : execGroupFrom It.apply (It.cardinal v n) (mk (lsb (10 ^ 12))) false = .ok (mk (lsb (10 ^ 12 + n))) := by
    show execGroupFrom (It.applyFuel (1 + 1)) _ _ _ = _
    rw [hs, execGroupFrom, if_neg Bool.false_ne_true]
  have hb : (mk (lsb (10 ^ 12))).isEmpty = false := by
    show ((lsb (10 ^ 12)).isEmpty && (0 : Nat) == 0) = false
    cases hl : lsb (10 ^ 12) with
    | nil => exact absurd hl (lsb_ne_nil (by decide))
    | cons a t => rfl
  exact run_accNE _ _ _ _ hb hrun

theorem cardinal_run_lz (v : Var) (k n : Nat) (hn : n ≠ 0) (h : n < 10 ^ 12) :
    execGroupFrom It.apply (It.cardinal v n) (setLz k DS.new) false = .ok (setLz k (mk (lsb n))) :=
  run_lz k _ DS.new false _ (Nat.zero_le _) (cardinal_accNE v n hn h) (cardinal_run v n hn h) rfl

/-! ## C16 -/

theorem zeros_run (rest : List Word) : ∀ (k j : Nat),
    execGroupFrom It.apply (List.replicate k It.zeroWord ++ rest) (setLz j DS.new) false =
      execGroupFrom It.apply rest (setLz (j + k) DS.new) false := by
  intro k
  induction k with
  | zero => intro j; rfl
  | succ k ih =>
    intro j
    have e : It.apply It.zeroWord (setLz j DS.new) = (none, setLz (j + 1) DS.new) := rfl
    rw [List.replicate_succ, List.cons_append, execGroupFrom, e]
    dsimp only
    rw [ih (j + 1)]
    have : j + 1 + k = j + (k + 1) := by omega
    rw [this]

/-- rendering of a number with `k` leading zeros -/
theorem format_lz (k n : Nat) (hn : n ≠ 0) :
    (setLz k (mk (lsb n))).isEmpty = false ∧
    It.lang.formatW (setLz k (mk (lsb n))) =
      .ok (List.replicate k '0' ++ decChars n, .dec (List.replicate k 0 ++ decDigits n) []) := by
  have hne := lsb_ne_nil hn
  have hrender : (setLz k (mk (lsb n))).render = List.replicate k 0 ++ decDigits n := by
    show List.replicate k 0 ++ (lsb n).reverse = _
    rw [lsb_rev_dec n hn]
  constructor
  · show ((lsb n).isEmpty && k == 0) = false
    cases hl : lsb n with
    | nil => exact absurd hl hne
    | cons a t => rfl
  · have hrne : (setLz k (mk (lsb n))).render.isEmpty = false := by
      rw [hrender, ← lsb_rev_dec n hn]
      cases hl : lsb n with
      | nil => exact absurd hl hne
      | cons a t => simp
    unfold Lang.formatW
    rw [hrne, if_neg Bool.false_ne_true]
    show Except.ok (renderChars (setLz k (mk (lsb n))), Value.dec (setLz k (mk (lsb n))).render []) = _
    unfold renderChars decChars
    rw [hrender, List.map_append, replicate_map]
    rfl

/-- the run of `k` zeros and a non-zero cardinal -/
theorem zeros_cardinal_run (v : Var) (k n : Nat) (hn : n ≠ 0) (h : n < 10 ^ 12) :
    execGroupFrom It.apply (List.replicate k It.zeroWord ++ It.cardinal v n) DS.new false =
      .ok (setLz k (mk (lsb n))) := by
  show execGroupFrom It.apply _ (setLz 0 DS.new) false = _
  rw [zeros_run, Nat.zero_add, cardinal_run_lz v k n hn h]

/-- **C16 for Italian, every number of leading zeros** (`0 < n < 10^12`, every variant) -/
theorem C16_validate_it (v : Spec.Var) (k n : Nat) (hn : 0 < n) (h : n < 10 ^ 12) :
    text2digitsWords It.lang (List.replicate k Spec.It.zeroWord ++ Spec.It.cardinal v n) =
      .ok (List.replicate k '0' ++ decChars n) := by
  have hn' : n ≠ 0 := by omega
  have hex : execGroup It.lang.apply (List.replicate k Spec.It.zeroWord ++ Spec.It.cardinal v n) =
      .ok (setLz k (mk (lsb n))) := zeros_cardinal_run v k n hn' h
  unfold text2digitsWords
  rw [hex]
  dsimp only
  rw [(format_lz k n hn').1, if_neg Bool.false_ne_true, (format_lz k n hn').2]

example : text2digitsWords It.lang (List.replicate 3 Spec.It.zeroWord ++ Spec.It.cardinal (fun _ => 1) 100045) =
    .ok (List.replicate 3 '0' ++ decChars 100045) := C16_validate_it _ 3 _ (by decide) (by decide)

/-- `k ≥ 1` zeros alone validate to `k` digits `0` -/
theorem C16_zeros_only_it (k : Nat) (hk : 0 < k) :
    text2digitsWords It.lang (List.replicate k Spec.It.zeroWord) = .ok (List.replicate k '0') := by
  have hex : execGroup It.lang.apply (List.replicate k Spec.It.zeroWord) = .ok (setLz k DS.new) := by
    have := zeros_run [] k 0
    rw [List.append_nil, Nat.zero_add] at this
    show execGroupFrom It.apply _ (setLz 0 DS.new) false = _
    rw [this, execGroupFrom, if_neg Bool.false_ne_true]
  unfold text2digitsWords
  rw [hex]
  dsimp only
  have he : (setLz k DS.new).isEmpty = false := by
    show (([] : List Nat).isEmpty && k == 0) = false
    have : (k == 0) = false := by simp; omega
    rw [this]; rfl
  rw [he, if_neg Bool.false_ne_true]
  have hr : (setLz k DS.new).render = List.replicate k 0 := by
    show List.replicate k 0 ++ [] = _
    rw [List.append_nil]
  unfold Lang.formatW
  have hrne : (setLz k DS.new).render.isEmpty = false := by
    rw [hr]; cases k with
    | zero => omega
    | succ k => rfl
  rw [hrne, if_neg Bool.false_ne_true]
  show ValOut.ok (renderChars (setLz k DS.new)) = _
  unfold renderChars
  rw [hr, replicate_map]
  rfl

theorem C16_lone_zero_it : text2digitsWords It.lang [Spec.It.zeroWord] = .ok ['0'] :=
  C16_zeros_only_it 1 (by decide)

/-- `zero` is refused with `Overlap` by a builder that holds a non-zero number -/
theorem zero_refused (k n : Nat) (hn : n ≠ 0) :
    It.apply Spec.It.zeroWord (setLz k (mk (lsb n))) = (some .overlap, setLz k (mk (lsb n))) := by
  cases hl : lsb n with
  | nil => exact absurd hl (lsb_ne_nil hn)
  | cons a t => rfl

/-- `zero` after a non-zero number is refused with `Overlap` and leaves the builder unchanged
(whatever the number of leading zeros said before) -/
theorem C16_zero_after_it (v : Spec.Var) (k n : Nat) (hn : 0 < n) (h : n < 10 ^ 12) :
    ∃ b, execGroup It.lang.apply (List.replicate k Spec.It.zeroWord ++ Spec.It.cardinal v n) = .ok b ∧
      It.lang.apply Spec.It.zeroWord b = (some .overlap, b) ∧
      text2digitsWords It.lang (List.replicate k Spec.It.zeroWord ++ Spec.It.cardinal v n ++ [Spec.It.zeroWord]) =
        .err .overlap := by
  have hn' : n ≠ 0 := by omega
  have hz := zero_refused k n hn'
  refine ⟨setLz k (mk (lsb n)), zeros_cardinal_run v k n hn' h, hz, ?_⟩
  unfold text2digitsWords
  have : execGroup It.lang.apply (List.replicate k Spec.It.zeroWord ++ Spec.It.cardinal v n ++ [Spec.It.zeroWord]) =
      .error .overlap := by
    show execGroupFrom It.apply _ (setLz 0 DS.new) false = _
    rw [List.append_assoc, zeros_run, Nat.zero_add]
    rw [run_lz_append k [Spec.It.zeroWord] _ DS.new false _ (Nat.zero_le _) (cardinal_accNE v n hn' h)
      (cardinal_run v n hn' h) rfl, execGroupFrom, hz]
  rw [this]

/-- **finding**: the side condition of `applyFuel_lz` is needed — `zero primo` is refused (`primo` asks for an
empty builder), although `primo` alone is `1º` -/
theorem zero_primo_refused : text2digitsWords It.lang [w!"zero", w!"primo"] = .err .nan ∧
    text2digitsWords It.lang [w!"primo"] = .ok (['1'] ++ ['º']) := by decide

end T2N.ExtIt
