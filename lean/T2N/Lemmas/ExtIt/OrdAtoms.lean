/-
  T2N.Lemmas.ExtIt.OrdAtoms — Italian ordinals: the atoms of the stem of a compound ordinal
  (`ventitreesim` = `venti` + `treesim`, `duecentesim` = `due` + `centesim`, `duemillesim` = `due` + `millesim`),
  and their steps on the builder.
-/
import T2N.Lemmas.ExtIt.Lz

set_option maxRecDepth 100000

namespace T2N.ExtIt
open T2N T2N.Spec
open T2N.C01En (mk lsb lsb_zero lsb_ne_nil lsb_rev_dec mk_nil shift_lsb rangeFree_lsb)
open T2N.C01It

/-! ## the atoms -/

def ordUnitW : List Word := [[], w!"unesim", w!"duesim", w!"treesim", w!"quattresim", w!"cinquesim", w!"seiesim",
  w!"settesim", w!"ottesim", w!"novesim", w!"decim", w!"undicesim", w!"dodicesim", w!"tredicesim",
  w!"quattordicesim", w!"quindicesim", w!"sedicesim", w!"diciassettesim", w!"diciottesim", w!"diciannovesim"]

/-- ordinal stem of a final unit or teen (`treesim`, `undicesim`; `decim` for ten) -/
def oUnit (u : Nat) : Word := ordUnitW.getD u []

/-- `ventesim`, `trentesim`, … -/
def oTens (t : Nat) : Word := (It.tensWord t).dropLast ++ w!"esim"

/-- `ventunesim`, `ventottesim`, … -/
def oElided (t u : Nat) : Word := (elidedWord t u).dropLast ++ w!"esim"

def millesim : Word := w!"millesim"

/-- ordinal atoms of `r < 100` -/
def orToks (r : Nat) : List Word :=
  if r == 0 then []
  else if r < 20 then [oUnit r]
  else if r % 10 == 0 then [oTens (r / 10)]
  else if r % 10 == 1 || r % 10 == 8 then [oElided (r / 10) (r % 10)]
  else [It.tensWord (r / 10), oUnit (r % 10)]

/-- ordinal atoms of `r = 8` or `80 ≤ r < 90` after an elided `cent-` -/
def oeToks (r : Nat) : List Word :=
  if r == 8 then [w!"ttesim"] else if r == 80 then [w!"ttantesim"]
  else if r == 81 then [w!"ttantunesim"]
  else if r == 88 then [w!"ttantottesim"] else [w!"ttanta", oUnit (r % 10)]

def ohToks (h : Nat) : List Word := if h == 1 then [w!"centesim"] else [It.unitWord h, w!"centesim"]

/-- ordinal atoms of the group `n` (1..999): the atoms of the cardinal with the last one in its ordinal form -/
def oToks (alt : Bool) (n : Nat) : List Word :=
  if n / 100 == 1 && n % 100 == 1 && alt then [w!"centunesim"]
  else if n % 100 == 0 then ohToks (n / 100)
  else hToks (n / 100) ++ (if elides alt (n / 100) (n % 100) then oeToks (n % 100) else orToks (n % 100))

/-- atoms of the ordinal stem of rank `n` (`10 < n < 10^6`); `alt1`, `alt0`: the `cento` elision choices -/
def ordToks (alt1 alt0 : Bool) (n : Nat) : List Word :=
  if n % 1000 == 0 then (if n / 1000 == 1 then [millesim] else gToks alt1 false false (n / 1000) ++ [millesim])
  else (if n / 1000 == 0 then [] else pToks alt1 (n / 1000)) ++ oToks alt0 (n % 1000)

/-! ## the ordinal atoms are vocabulary words -/

theorem plain_oUnit (d : Nat) (h : d = 2 ∨ d = 3 ∨ d = 4 ∨ d = 5 ∨ d = 6 ∨ d = 7 ∨ d = 9) :
    Plain (oUnit d) (T2N.It.unit d) := by
  rcases h with rfl | rfl | rfl | rfl | rfl | rfl | rfl <;> exact ⟨by decide, by decide, by decide, by rfl⟩

theorem plain_unesim : Plain w!"unesim" (T2N.It.unitFree 1) := ⟨by decide, by decide, by decide, by rfl⟩
theorem plain_ottesim : Plain w!"ottesim" (T2N.It.unitFree 8) := ⟨by decide, by decide, by decide, by rfl⟩
theorem plain_ttesim : Plain w!"ttesim" (T2N.It.unitFree 8) := ⟨by decide, by decide, by decide, by rfl⟩

theorem plain_oTeen (b : Nat) (h9 : b < 10) : Plain (oUnit (10 + b)) (.put [1, b]) := by
  have : b = 0 ∨ b = 1 ∨ b = 2 ∨ b = 3 ∨ b = 4 ∨ b = 5 ∨ b = 6 ∨ b = 7 ∨ b = 8 ∨ b = 9 := by omega
  rcases this with rfl | rfl | rfl | rfl | rfl | rfl | rfl | rfl | rfl | rfl <;>
    exact ⟨by decide, by decide, by decide, by rfl⟩

theorem plain_oTens (t : Nat) (h2 : 2 ≤ t) (h9 : t < 10) : Plain (oTens t) (.put [t, 0]) := by
  have : t = 2 ∨ t = 3 ∨ t = 4 ∨ t = 5 ∨ t = 6 ∨ t = 7 ∨ t = 8 ∨ t = 9 := by omega
  rcases this with rfl | rfl | rfl | rfl | rfl | rfl | rfl | rfl <;>
    exact ⟨by decide, by decide, by decide, by rfl⟩

theorem plain_oElided (t u : Nat) (h2 : 2 ≤ t) (h9 : t < 10) (hu : u = 1 ∨ u = 8) :
    Plain (oElided t u) (.put [t, u]) := by
  have : t = 2 ∨ t = 3 ∨ t = 4 ∨ t = 5 ∨ t = 6 ∨ t = 7 ∨ t = 8 ∨ t = 9 := by omega
  rcases this with rfl | rfl | rfl | rfl | rfl | rfl | rfl | rfl <;> rcases hu with rfl | rfl <;>
    exact ⟨by decide, by decide, by decide, by rfl⟩

theorem plain_ttantesim : Plain w!"ttantesim" (.put [8, 0]) := ⟨by decide, by decide, by decide, by rfl⟩
theorem plain_ttantunesim : Plain w!"ttantunesim" (.put [8, 1]) := ⟨by decide, by decide, by decide, by rfl⟩
theorem plain_ttantottesim : Plain w!"ttantottesim" (.put [8, 8]) := ⟨by decide, by decide, by decide, by rfl⟩
theorem plain_centesim : Plain w!"centesim" T2N.It.cento := ⟨by decide, by decide, by decide, by rfl⟩
theorem plain_centunesim : Plain w!"centunesim" (.put [1, 0, 1]) := ⟨by decide, by decide, by decide, by rfl⟩

def millesimBad : Guard := .or (.peekEq 3 [1]) (.peekEq 3 [0, 0, 1])

theorem plain_millesim : Plain millesim (.when (.rangeFree 3 5) (.ite millesimBad (.fail .nan) (.shift 3))) :=
  ⟨by decide, by decide, by decide, by rfl⟩

/-! ## their steps -/

/-- `millesim` after a group `2 ≤ g ≤ 999` -/
theorem millesim_exec (N g : Nat) (hN : N % 10 ^ 6 = 0) (g2 : 2 ≤ g) (g1 : g < 1000) :
    (Act.when (.rangeFree 3 5) (.ite millesimBad (.fail .nan) (.shift 3))).exec (mk (lsb (N + g))) =
      (none, mk (lsb (N + g * 1000)), 0) := by
  have hbad0 := milaBad_false (N + g) (by
    have : (1000 : Nat) ∣ 10 ^ 6 := ⟨1000, by decide⟩
    have := Nat.mod_mod_of_dvd N this
    omega)
  have hbad : millesimBad.eval (mk (lsb (N + g))) = false := by
    simp only [milaBad, Guard.eval, Bool.or_eq_false_iff] at hbad0
    simp only [millesimBad, Guard.eval, Bool.or_eq_false_iff]
    exact hbad0.1.1
  obtain ⟨A, rfl⟩ := exists_mul_of_mod N _ hN
  rw [Nat.add_comm _ g, Nat.add_comm _ (g * 1000)] at *
  have hg : (Guard.rangeFree 3 5).eval (mk (lsb (g + 10 ^ 6 * A))) = true := rangeFree_lsb 3 g A (by decide) g1
  have hs : (mk (lsb (g + 10 ^ 6 * A))).shift 3 = (none, mk (lsb (g * 1000 + 10 ^ 6 * A))) :=
    shift_lsb 3 g A (by decide) (by omega) g1
  simp only [Act.when, Act.exec]
  rw [if_pos hg, hbad, if_neg Bool.false_ne_true, hs]

/-- bare `millesim`: the implicit one -/
theorem millesim_exec_zero :
    (Act.when (.rangeFree 3 5) (.ite millesimBad (.fail .nan) (.shift 3))).exec (mk (lsb 0)) =
      (none, mk (lsb 1000), 0) := by
  have e : lsb 1000 = [0, 0, 0, 1] := lsb_pow 3
  rw [lsb_zero, e]
  rfl

theorem millesim_step (f N g : Nat) (hN : N % 10 ^ 6 = 0) (g2 : 2 ≤ g) (g1 : g < 1000) :
    StepsF f [millesim] (N + g) (N + g * 1000) :=
  StepsF.atom plain_millesim (millesim_exec N g hN g2 g1)

theorem millesim_step_zero (f : Nat) : StepsF f [millesim] 0 1000 :=
  StepsF.atom plain_millesim millesim_exec_zero

/-- a final unit `1 ≤ d ≤ 9` in ordinal form, on two free positions -/
theorem oUnit_step (f d N : Nat) (h0 : d ≠ 0) (h9 : d < 10) (hN : N % 100 = 0) :
    StepsF f [oUnit d] N (N + d) := by
  by_cases h1 : d = 1
  · subst h1; exact StepsF.atom plain_unesim (unitFree_exec 1 N (by decide) (by decide) hN)
  · by_cases h8 : d = 8
    · subst h8; exact StepsF.atom plain_ottesim (unitFree_exec 8 N (by decide) (by decide) hN)
    · exact StepsF.atom (plain_oUnit d (by omega)) (unit_exec d N h0 h9 (by omega) (by omega))

/-- a final unit other than `uno`, `otto`, in ordinal form, after a tens word -/
theorem oUnit_step' (f d N : Nat) (hd : d = 2 ∨ d = 3 ∨ d = 4 ∨ d = 5 ∨ d = 6 ∨ d = 7 ∨ d = 9)
    (hN : N % 10 = 0) (hx : N / 10 % 10 ≠ 1) : StepsF f [oUnit d] N (N + d) :=
  StepsF.atom (plain_oUnit d hd) (unit_exec d N (by omega) (by omega) hN hx)

theorem oTeen_step (f b N : Nat) (hb : b < 10) (hN : N % 100 = 0) : StepsF f [oUnit (10 + b)] N (N + (10 + b)) := by
  have := put2_exec 1 b N (by decide) (by decide) hb hN
  exact StepsF.atom (plain_oTeen b hb) (by rw [this])

theorem oTens_step (f t N : Nat) (h2 : 2 ≤ t) (h9 : t < 10) (hN : N % 100 = 0) :
    StepsF f [oTens t] N (N + 10 * t) := by
  have := put2_exec t 0 N (by omega) h9 (by decide) hN
  exact StepsF.atom (plain_oTens t h2 h9) (by rw [this]; rfl)

theorem oElided_step (f t u N : Nat) (h2 : 2 ≤ t) (h9 : t < 10) (hu : u = 1 ∨ u = 8) (hN : N % 100 = 0) :
    StepsF f [oElided t u] N (N + (10 * t + u)) := by
  have := put2_exec t u N (by omega) h9 (by omega) hN
  exact StepsF.atom (plain_oElided t u h2 h9 hu) this

theorem orToks_steps (f r N : Nat) (h1 : r < 100) (hN : N % 100 = 0) : StepsF f (orToks r) N (N + r) := by
  unfold orToks
  by_cases h0 : r = 0
  · subst h0; exact StepsF.nil f N
  · rw [if_neg (by simp [h0])]
    by_cases h20 : r < 20
    · rw [if_pos h20]
      by_cases h10 : r < 10
      · exact oUnit_step f r N h0 h10 hN
      · obtain ⟨b, rfl⟩ : ∃ b, r = 10 + b := ⟨r - 10, by omega⟩
        exact oTeen_step f b N (by omega) hN
    · rw [if_neg h20]
      have ht2 : 2 ≤ r / 10 := by omega
      have ht9 : r / 10 < 10 := by omega
      by_cases hu : r % 10 = 0
      · rw [if_pos (by simp [hu])]
        exact (oTens_step f (r / 10) N ht2 ht9 hN).cast (by omega)
      · rw [if_neg (by simp [hu])]
        by_cases h18 : r % 10 = 1 ∨ r % 10 = 8
        · rw [if_pos (by simpa using h18)]
          exact (oElided_step f (r / 10) (r % 10) N ht2 ht9 h18 hN).cast (by omega)
        · rw [if_neg (by simpa using h18)]
          have s1 := tens_step f (r / 10) N ht2 ht9 hN
          have s2 := oUnit_step' f (r % 10) (N + 10 * (r / 10)) (by omega) (by omega) (by omega)
          exact (StepsF.append s1 s2).cast (by omega)

theorem oeToks_steps (f r N : Nat) (hr : r = 8 ∨ (80 ≤ r ∧ r < 90)) (hN : N % 100 = 0) :
    StepsF f (oeToks r) N (N + r) := by
  have p80 := put2_exec 8 0 N (by decide) (by decide) (by decide) hN
  have p81 := put2_exec 8 1 N (by decide) (by decide) (by decide) hN
  have p88 := put2_exec 8 8 N (by decide) (by decide) (by decide) hN
  have s80 : StepsF f [w!"ttanta"] N (N + 80) := StepsF.atom plain_ttanta p80
  have su : ∀ u, u = 2 ∨ u = 3 ∨ u = 4 ∨ u = 5 ∨ u = 6 ∨ u = 7 ∨ u = 9 →
      StepsF f [w!"ttanta", oUnit u] N (N + (80 + u)) := fun u hu =>
    (StepsF.append s80 (oUnit_step' f u (N + 80) hu (by omega) (by omega))).cast (by omega)
  have : r = 8 ∨ r = 80 ∨ r = 81 ∨ r = 82 ∨ r = 83 ∨ r = 84 ∨ r = 85 ∨ r = 86 ∨ r = 87 ∨ r = 88 ∨ r = 89 := by omega
  rcases this with rfl | rfl | rfl | rfl | rfl | rfl | rfl | rfl | rfl | rfl | rfl
  · exact StepsF.atom plain_ttesim (unitFree_exec 8 N (by decide) (by decide) hN)
  · exact StepsF.atom plain_ttantesim p80
  · exact StepsF.atom plain_ttantunesim p81
  · exact su 2 (by omega)
  · exact su 3 (by omega)
  · exact su 4 (by omega)
  · exact su 5 (by omega)
  · exact su 6 (by omega)
  · exact su 7 (by omega)
  · exact StepsF.atom plain_ttantottesim p88
  · exact su 9 (by omega)

theorem ohToks_steps (f h N : Nat) (h0 : h ≠ 0) (h9 : h < 10) (hN : N % 1000 = 0) :
    StepsF f (ohToks h) N (N + 100 * h) := by
  unfold ohToks
  by_cases h1 : h = 1
  · subst h1
    exact StepsF.atom plain_centesim (cento_exec_zero N hN)
  · rw [if_neg (by simp [h1])]
    have s1 := unit_step f h N h0 h9 (by omega)
    have s2 : StepsF f [w!"centesim"] (N + h) (N + h + 99 * h) :=
      StepsF.atom plain_centesim (cento_exec h (N + h) (by omega) h9 (by omega))
    exact (StepsF.append s1 s2).cast (by omega)

/-- **per-group theorem, ordinal form**: the ordinal atoms of a group `1 ≤ n ≤ 999` on three free positions add `n` -/
theorem oToks_steps (f : Nat) (alt : Bool) (n N : Nat) (n0 : n ≠ 0) (n1 : n < 1000) (hN : N % 1000 = 0) :
    StepsF f (oToks alt n) N (N + n) := by
  unfold oToks
  by_cases hc : (n / 100 == 1 && n % 100 == 1 && alt) = true
  · rw [if_pos hc]
    simp only [Bool.and_eq_true, beq_iff_eq] at hc
    have : n = 101 := by omega
    subst this
    exact StepsF.atom plain_centunesim (put101_exec N hN)
  · rw [if_neg hc]
    by_cases hr0 : n % 100 = 0
    · rw [if_pos (by simp [hr0])]
      exact (ohToks_steps f (n / 100) N (by omega) (by omega) hN).cast (by omega)
    · rw [if_neg (by simp [hr0])]
      have s1 := hToks_steps f (n / 100) N (by omega) hN
      have hN' : (N + 100 * (n / 100)) % 100 = 0 := by omega
      by_cases he : elides alt (n / 100) (n % 100) = true
      · rw [if_pos he]
        have hr : n % 100 = 8 ∨ (80 ≤ n % 100 ∧ n % 100 < 90) := by
          unfold elides at he
          simp only [Bool.and_eq_true, Bool.or_eq_true, decide_eq_true_eq, beq_iff_eq] at he
          rcases he.2 with h | h
          · exact Or.inr ⟨h.1.1, h.1.2⟩
          · exact Or.inl h.1
        exact (StepsF.append s1 (oeToks_steps f (n % 100) _ hr hN')).cast (by omega)
      · rw [if_neg he]
        exact (StepsF.append s1 (orToks_steps f (n % 100) _ (by omega) hN')).cast (by omega)

/-- **the atoms of an ordinal stem** (`0 < n < 10^6`) add `n` to an empty builder -/
theorem ordToks_steps (f : Nat) (alt1 alt0 : Bool) (n : Nat) (n0 : n ≠ 0) (n1 : n < 10 ^ 6) :
    StepsF f (ordToks alt1 alt0 n) 0 n := by
  rw [pow6] at n1
  unfold ordToks
  by_cases hz : n % 1000 = 0
  · rw [if_pos (by simp [hz])]
    by_cases h1 : n / 1000 = 1
    · rw [if_pos (by simp [h1])]
      exact (millesim_step_zero f).cast (by omega)
    · rw [if_neg (by simp [h1])]
      have s1 := gToks_steps f alt1 false false (n / 1000) 0 (by omega) (by decide)
      have s2 := millesim_step f 0 (n / 1000) (by decide) (by omega) (by omega)
      exact (StepsF.append s1 s2).cast (by omega)
  · rw [if_neg (by simp [hz])]
    by_cases h1 : n / 1000 = 0
    · rw [if_pos (by simp [h1]), List.nil_append]
      exact (oToks_steps f alt0 (n % 1000) 0 hz (by omega) (by decide)).cast (by omega)
    · rw [if_neg (by simp [h1])]
      have s1 := pToks_steps f alt1 (n / 1000) 0 h1 (by omega) (by decide)
      have s2 := oToks_steps f alt0 (n % 1000) (0 + n / 1000 * 1000) hz (by omega) (by omega)
      exact (StepsF.append s1 s2).cast (by omega)

end T2N.ExtIt
