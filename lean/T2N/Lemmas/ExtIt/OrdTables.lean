/-
  T2N.Lemmas.ExtIt.OrdTables — kernel-evaluated finite tables (Italian ordinals, C04): for every group 1..999 and
  both choices of the `cento` elision, the closed facts about the ordinal atoms `oToks` of the group: agreement with
  the suffix rule of the specification, the splitter chain condition, the shape of the stem (`…esim` | `…decim`).
  Exhaustive evaluations by `decide +kernel` (≤ 100 rows each); everything else in the proof is structural.
-/
import T2N.Lemmas.ExtIt.OrdAtoms

set_option maxRecDepth 1000000

namespace T2N.ExtIt
open T2N T2N.Spec
open T2N.C01It

/-- the suffix rule of `Spec.It.ordStem` on the one-word cardinal `W` of a number whose last group is `n` -/
def opG (n : Nat) (W : Word) : Word :=
  if n % 100 == 10 then W.dropLast.dropLast.dropLast.dropLast.dropLast ++ w!"decim"
  else if (n % 10 == 3 || n % 10 == 6) && n % 100 != 13 && n % 100 != 16 then W ++ w!"esim"
  else W.dropLast ++ w!"esim"

/-- a stem ends in `m` and in `esim` or `decim` -/
def stemOk (S : Word) : Bool := S.getLast? == some 'm' && (endsWith S w!"esim" || endsWith S w!"decim")

/-- closed facts about the ordinal atoms of group `n` -/
def rowOrd (alt : Bool) (n : Nat) : Bool :=
  let W := flat (gToks alt false false n)
  let O := oToks alt n
  (opG n W == flat O) && chainTo O none && headOk O && stemOk (flat O) && decide (5 ≤ W.length ∨ n % 100 ≠ 10) &&
  (decide (n < 2) || chainTo (gToks alt false false n) (some millesim))

theorem tblOrd_false_0 : checkRange (rowOrd false) 1 99 = true := by decide +kernel
theorem tblOrd_false_1 : checkRange (rowOrd false) 100 100 = true := by decide +kernel
theorem tblOrd_false_2 : checkRange (rowOrd false) 200 100 = true := by decide +kernel
theorem tblOrd_false_3 : checkRange (rowOrd false) 300 100 = true := by decide +kernel
theorem tblOrd_false_4 : checkRange (rowOrd false) 400 100 = true := by decide +kernel
theorem tblOrd_false_5 : checkRange (rowOrd false) 500 100 = true := by decide +kernel
theorem tblOrd_false_6 : checkRange (rowOrd false) 600 100 = true := by decide +kernel
theorem tblOrd_false_7 : checkRange (rowOrd false) 700 100 = true := by decide +kernel
theorem tblOrd_false_8 : checkRange (rowOrd false) 800 100 = true := by decide +kernel
theorem tblOrd_false_9 : checkRange (rowOrd false) 900 100 = true := by decide +kernel
theorem tblOrd_true_0 : checkRange (rowOrd true) 1 99 = true := by decide +kernel
theorem tblOrd_true_1 : checkRange (rowOrd true) 100 100 = true := by decide +kernel
theorem tblOrd_true_2 : checkRange (rowOrd true) 200 100 = true := by decide +kernel
theorem tblOrd_true_3 : checkRange (rowOrd true) 300 100 = true := by decide +kernel
theorem tblOrd_true_4 : checkRange (rowOrd true) 400 100 = true := by decide +kernel
theorem tblOrd_true_5 : checkRange (rowOrd true) 500 100 = true := by decide +kernel
theorem tblOrd_true_6 : checkRange (rowOrd true) 600 100 = true := by decide +kernel
theorem tblOrd_true_7 : checkRange (rowOrd true) 700 100 = true := by decide +kernel
theorem tblOrd_true_8 : checkRange (rowOrd true) 800 100 = true := by decide +kernel
theorem tblOrd_true_9 : checkRange (rowOrd true) 900 100 = true := by decide +kernel

theorem rowOrd_all (alt : Bool) (n : Nat) (h0 : n ≠ 0) (h1 : n < 1000) : rowOrd alt n = true := by
  have hk : n / 100 = 0 ∨ n / 100 = 1 ∨ n / 100 = 2 ∨ n / 100 = 3 ∨ n / 100 = 4 ∨ n / 100 = 5 ∨ n / 100 = 6 ∨
      n / 100 = 7 ∨ n / 100 = 8 ∨ n / 100 = 9 := by omega
  cases alt
  · rcases hk with hk | hk | hk | hk | hk | hk | hk | hk | hk | hk
    · exact checkRange_spec _ _ _ tblOrd_false_0 n (by omega) (by omega)
    · exact checkRange_spec _ _ _ tblOrd_false_1 n (by omega) (by omega)
    · exact checkRange_spec _ _ _ tblOrd_false_2 n (by omega) (by omega)
    · exact checkRange_spec _ _ _ tblOrd_false_3 n (by omega) (by omega)
    · exact checkRange_spec _ _ _ tblOrd_false_4 n (by omega) (by omega)
    · exact checkRange_spec _ _ _ tblOrd_false_5 n (by omega) (by omega)
    · exact checkRange_spec _ _ _ tblOrd_false_6 n (by omega) (by omega)
    · exact checkRange_spec _ _ _ tblOrd_false_7 n (by omega) (by omega)
    · exact checkRange_spec _ _ _ tblOrd_false_8 n (by omega) (by omega)
    · exact checkRange_spec _ _ _ tblOrd_false_9 n (by omega) (by omega)
  · rcases hk with hk | hk | hk | hk | hk | hk | hk | hk | hk | hk
    · exact checkRange_spec _ _ _ tblOrd_true_0 n (by omega) (by omega)
    · exact checkRange_spec _ _ _ tblOrd_true_1 n (by omega) (by omega)
    · exact checkRange_spec _ _ _ tblOrd_true_2 n (by omega) (by omega)
    · exact checkRange_spec _ _ _ tblOrd_true_3 n (by omega) (by omega)
    · exact checkRange_spec _ _ _ tblOrd_true_4 n (by omega) (by omega)
    · exact checkRange_spec _ _ _ tblOrd_true_5 n (by omega) (by omega)
    · exact checkRange_spec _ _ _ tblOrd_true_6 n (by omega) (by omega)
    · exact checkRange_spec _ _ _ tblOrd_true_7 n (by omega) (by omega)
    · exact checkRange_spec _ _ _ tblOrd_true_8 n (by omega) (by omega)
    · exact checkRange_spec _ _ _ tblOrd_true_9 n (by omega) (by omega)

structure OrdFacts (alt : Bool) (n : Nat) : Prop where
  op : opG n (flat (gToks alt false false n)) = flat (oToks alt n)
  chain : chainTo (oToks alt n) none = true
  head : headOk (oToks alt n) = true
  stem : stemOk (flat (oToks alt n)) = true
  len : 5 ≤ (flat (gToks alt false false n)).length ∨ n % 100 ≠ 10
  chainMs : 2 ≤ n → chainTo (gToks alt false false n) (some millesim) = true

theorem ordFacts (alt : Bool) (n : Nat) (h0 : n ≠ 0) (h1 : n < 1000) : OrdFacts alt n := by
  have h := rowOrd_all alt n h0 h1
  unfold rowOrd at h
  simp only [Bool.and_eq_true, Bool.or_eq_true, beq_iff_eq, decide_eq_true_eq] at h
  obtain ⟨⟨⟨⟨⟨a1, a2⟩, a3⟩, a4⟩, a5⟩, a6⟩ := h
  exact ⟨a1, a2, a3, a4, a5, fun h2 => by
    rcases a6 with a6 | a6
    · omega
    · exact a6⟩

end T2N.ExtIt
