/-
  T2N.Lemmas.Strict — with a language whose `apply` (a) leaves emptiness unchanged when it rejects a
  word and (b) leaves a non-empty builder when it accepts one (true of the seven built-ins:
  T2N/Lemmas/LangFacts.lean), the scanner holds a number exactly while a match is open, so every
  reported occurrence has `start < end`.
-/
import T2N.Lemmas.Scanner

namespace T2N

structure LangOk (l : Lang) : Prop where
  apply_err : ∀ w b e, (l.apply w b).1 = some e → (l.apply w b).2.isEmpty = b.isEmpty
  apply_ok : ∀ w b, (l.apply w b).1 = none → (l.apply w b).2.isEmpty = false

/-- parser invariant: decimal mode only with an integer part -/
def PInv (p : Parser) : Prop := p.isDec = true → p.hasNumber = true

theorem PInv.init : PInv {} := by intro h; cases h

theorem parser_push_facts (l : Lang) (hl : LangOk l) (p : Parser) (hp : PInv p) (w : Word) :
    PInv (p.push l w).2 ∧
    ((p.push l w).1 = none → (p.push l w).2.hasNumber = true) ∧
    (∀ e, (p.push l w).1 = some e → (p.push l w).2.hasNumber = p.hasNumber) := by
  unfold Parser.push
  by_cases hd : p.isDec = true
  · -- decimal mode: the integer part is untouched
    have hn : p.hasNumber = true := hp hd
    simp only [hd, if_true]
    have hcond : ∀ r : Res, (r.isSome && !true && !p.int.isEmpty && p.int.marker.isNone && l.isDecSep w) = false := by
      intro r; simp
    simp only [hd, Bool.not_true, Bool.and_false, Bool.false_and, Bool.false_eq_true, if_false]
    refine ⟨fun _ => hn, fun _ => hn, fun _ _ => rfl⟩
  · have hd' : p.isDec = false := by simpa using hd
    simp only [hd', Bool.false_eq_true, if_false]
    cases hr : (l.apply w p.int).1 with
    | none =>
      have hne := hl.apply_ok w p.int hr
      simp only [Option.isSome_none, Bool.false_and, Bool.false_eq_true, if_false, hr]
      refine ⟨?_, ?_, ?_⟩
      · intro h; simp only [hd'] at h; cases h
      · intro _; simp [Parser.hasNumber, hne]
      · intro e he; cases he
    | some e =>
      have hsame := hl.apply_err w p.int e hr
      by_cases hc : (true && !false && !(l.apply w p.int).2.isEmpty && (l.apply w p.int).2.marker.isNone && l.isDecSep w) = true
      · simp only [hr, Option.isSome_some, hd', Bool.not_false, Bool.true_and] at hc ⊢
        rw [if_pos hc]
        simp only [Bool.and_eq_true, Bool.not_eq_eq_eq_not, Bool.not_true] at hc
        have hne : (l.apply w p.int).2.isEmpty = false := hc.1.1
        refine ⟨?_, ?_, ?_⟩
        · intro _; simp [Parser.hasNumber, hne]
        · intro h; cases h
        · intro e' _; simp [Parser.hasNumber, hne, ← hsame]
      · simp only [hr, Option.isSome_some, hd', Bool.not_false, Bool.true_and] at hc ⊢
        rw [if_neg hc]
        refine ⟨?_, ?_, ?_⟩
        · intro h; simp only [hd'] at h; cases h
        · intro h; cases h
        · intro e' _; simp [Parser.hasNumber, hsame]

/-- scanner invariant: a number is held exactly while a match is open; all decided occurrences are strict -/
def SInv (s : Scanner) : Prop :=
  PInv s.parser ∧ (s.parser.hasNumber = true ↔ s.tracker.mstart < s.tracker.mend) ∧
  s.tracker.mstart ≤ s.tracker.mend ∧
  (∀ o ∈ s.tracker.queue ++ s.tracker.onHold.toList, o.start < o.stop)

theorem SInv.init : SInv {} := by
  refine ⟨PInv.init, ?_, Nat.le_refl _, ?_⟩
  · constructor
    · intro h; cases h
    · intro h; exact absurd h (Nat.lt_irrefl _)
  · intro o ho; cases ho

theorem Tracker.numberEnd_bounds (t : Tracker) (o : Bool) (tx : Word) (v : Value) (f : Bool) :
    (t.numberEnd o tx v f).mstart = t.mend ∧ (t.numberEnd o tx v f).mend = t.mend := by
  unfold Tracker.numberEnd; dsimp only
  generalize (if o = true then Kind.ordinal else Kind.cardinal) = kind
  by_cases hc : (t.last == kind) = true
  · rw [if_pos hc]; exact ⟨rfl, rfl⟩
  · rw [if_neg hc]
    by_cases hf : f = true
    · rw [if_pos hf]; exact ⟨rfl, rfl⟩
    · rw [if_neg hf]; exact ⟨rfl, rfl⟩

theorem numberEnd_strict (cfg : ScanCfg) (s s' : Scanner) (h : SInv s) (hn : s.parser.hasNumber = true)
    (he : s.numberEnd cfg = .ok s') : SInv s' := by
  obtain ⟨_, h2, h3, h4⟩ := h
  have hlt := h2.mp hn
  unfold Scanner.numberEnd at he
  cases hf : s.parser.finish cfg.lang with
  | error f => rw [hf] at he; cases he
  | ok r =>
    rw [hf] at he
    cases he
    refine ⟨PInv.init, ?_, ?_, ?_⟩
    · -- parser reset, match closed
      obtain ⟨a, b⟩ := Tracker.numberEnd_bounds s.tracker s.parser.isOrdinal r.1 r.2 ((utf8Len r.1 == 1 || s.parser.isOrdinal) && cfg.small r.2)
      constructor
      · intro h; cases h
      · intro h; dsimp only at h; rw [a, b] at h; exact absurd h (Nat.lt_irrefl _)
    · obtain ⟨a, b⟩ := Tracker.numberEnd_bounds s.tracker s.parser.isOrdinal r.1 r.2 ((utf8Len r.1 == 1 || s.parser.isOrdinal) && cfg.small r.2)
      dsimp only; rw [a, b]; exact Nat.le_refl _
    · intro o ho
      dsimp only at ho
      unfold Tracker.numberEnd at ho
      dsimp only at ho
      generalize (if s.parser.isOrdinal = true then Kind.ordinal else Kind.cardinal) = kind at ho
      by_cases hc : (s.tracker.last == kind) = true
      · rw [if_pos hc] at ho
        dsimp only at ho
        simp only [Option.toList, List.append_nil, List.mem_append, List.mem_singleton] at ho
        rcases ho with (h' | h') | h'
        · exact h4 o (List.mem_append_left _ h')
        · apply h4 o; apply List.mem_append_right
          cases hh : s.tracker.onHold with
          | none => rw [hh] at h'; cases h'
          | some p => rw [hh] at h'; simpa [Option.toList] using h'
        · subst h'; exact hlt
      · rw [if_neg hc] at ho
        split at ho
        · dsimp only at ho
          simp only [Option.toList, List.mem_append, List.mem_singleton] at ho
          rcases ho with h' | h'
          · exact h4 o (List.mem_append_left _ h')
          · subst h'; exact hlt
        · dsimp only at ho
          simp only [Option.toList, List.append_nil, List.mem_append, List.mem_singleton] at ho
          rcases ho with h' | h'
          · exact h4 o (List.mem_append_left _ h')
          · subst h'; exact hlt

theorem outside_strict (cfg : ScanCfg) (s : Scanner) (tok : Tok) (h : SInv s) : SInv (s.outside cfg tok) := by
  unfold Scanner.outside
  split
  · exact h
  · exact h

theorem setPrev_strict (s : Scanner) (p : Option Tok) (h : SInv s) : SInv { s with previous := p } := h

theorem advanced_strict (s : Scanner) (p' : Parser) (pos : Nat) (h : SInv s) (hp : PInv p')
    (hn : p'.hasNumber = true) (hpos : s.tracker.mend ≤ pos) :
    SInv { s with parser := p', tracker := s.tracker.advanced pos } := by
  obtain ⟨_, _, h3, h4⟩ := h
  refine ⟨hp, ?_, ?_, h4⟩
  · constructor
    · intro _
      unfold Tracker.advanced; dsimp only
      split <;> omega
    · intro _; exact hn
  · unfold Tracker.advanced; dsimp only
    split <;> omega

theorem rejected_strict (cfg : ScanCfg) (hl : LangOk cfg.lang) (s s' : Scanner) (pos : Nat) (tok : Tok)
    (h : SInv s) (hpos : s.tracker.mend ≤ pos) (he : Scanner.pushRejected cfg s pos tok = .ok s') : SInv s' := by
  unfold Scanner.pushRejected at he
  by_cases hn : s.parser.hasNumber = true
  · rw [if_pos hn] at he
    cases h1 : s.numberEnd cfg with
    | error f => rw [h1] at he; cases he
    | ok s1 =>
      rw [h1] at he
      dsimp only at he
      have hs1 := numberEnd_strict cfg s s1 h hn h1
      have hf := parser_push_facts cfg.lang hl s1.parser hs1.1 tok.lower
      obtain ⟨f1, f2, f3⟩ := hf
      -- after numberEnd the match is closed at the old `mend`
      have hm : s1.tracker.mend ≤ pos := by
        unfold Scanner.numberEnd at h1
        cases hfin : s.parser.finish cfg.lang with
        | error f => rw [hfin] at h1; cases h1
        | ok r =>
          rw [hfin] at h1; cases h1
          dsimp only
          rw [(Tracker.numberEnd_bounds _ _ _ _ _).2]
          exact hpos
      cases hr : (s1.parser.push cfg.lang tok.lower).1 with
      | none =>
        simp only [hr, Option.isNone_none, if_true] at he
        cases he
        exact setPrev_strict _ _ (advanced_strict s1 _ pos hs1 f1 (f2 hr) hm)
      | some e =>
        simp only [hr, Option.isNone_some, Bool.false_eq_true, if_false] at he
        cases he
        have hsame := f3 e hr
        have hinv : SInv { s1 with parser := (s1.parser.push cfg.lang tok.lower).2 } := by
          obtain ⟨_, h2, h3, h4⟩ := hs1
          exact ⟨f1, by rw [hsame]; exact h2, h3, h4⟩
        refine setPrev_strict _ _ ?_
        split
        · exact hinv
        · exact outside_strict cfg _ tok hinv
  · rw [if_neg hn] at he; cases he
    exact setPrev_strict _ _ (outside_strict cfg s tok h)


theorem push_strict (cfg : ScanCfg) (hl : LangOk cfg.lang) (s s' : Scanner) (pos : Nat) (tok : Tok)
    (h : SInv s) (hpos : s.tracker.mend ≤ pos) (he : s.push cfg pos tok = .ok s') : SInv s' := by
  unfold Scanner.push at he
  by_cases hs : Scanner.isSkipped cfg tok = true
  · rw [if_pos hs] at he; cases he; exact h
  rw [if_neg hs] at he
  by_cases hnan : tok.nan = true
  · rw [if_pos hnan] at he
    unfold Scanner.pushNan at he
    by_cases hn : s.parser.hasNumber = true
    · rw [if_pos hn] at he
      cases h1 : s.numberEnd cfg with
      | error f => rw [h1] at he; cases he
      | ok s1 =>
        rw [h1] at he; cases he
        exact setPrev_strict _ _ (outside_strict cfg s1 tok (numberEnd_strict cfg s s1 h hn h1))
    · rw [if_neg hn] at he; cases he
      exact setPrev_strict _ _ (outside_strict cfg s tok h)
  rw [if_neg hnan] at he
  dsimp only at he
  have hf := parser_push_facts cfg.lang hl s.parser h.1 (Scanner.testWord cfg s tok)
  obtain ⟨f1, f2, f3⟩ := hf
  cases hr : (s.parser.push cfg.lang (Scanner.testWord cfg s tok)).1 with
  | none =>
    rw [hr] at he; cases he
    exact setPrev_strict _ _ (advanced_strict s _ pos h f1 (f2 hr) hpos)
  | some e =>
    have hsame := f3 e hr
    -- the scanner with the parser after the failed push still satisfies the invariant
    have hinv : SInv { s with parser := (s.parser.push cfg.lang (Scanner.testWord cfg s tok)).2 } := by
      obtain ⟨_, h2, h3, h4⟩ := h
      exact ⟨f1, by rw [hsame]; exact h2, h3, h4⟩
    cases e with
    | incomplete => rw [hr] at he; cases he; exact setPrev_strict _ _ hinv
    | overlap => rw [hr] at he; exact rejected_strict cfg hl _ s' pos tok hinv hpos he
    | nan => rw [hr] at he; exact rejected_strict cfg hl _ s' pos tok hinv hpos he
    | frozen => rw [hr] at he; exact rejected_strict cfg hl _ s' pos tok hinv hpos he

end T2N
