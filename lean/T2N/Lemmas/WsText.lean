/-
  T2N.Lemmas.WsText — whole-text whitespace substitution (C17, text level).

  `WsSubst cc s s'`: the text `s'` is obtained from `s` by replacing whitespace runs by arbitrary non-empty
  whitespace runs.  Under the laws `WsLaws cc` (whitespace characters are neither alphanumeric nor alphabetic,
  `-` and `'` are not whitespace) the tokenizer maps related texts to token lists of the same length whose
  tokens are pointwise `WsSubst`-related (`tokenizeWords_rel`); word tokens contain no whitespace, so they are
  identical, separator tokens are made of non-alphanumeric characters (`tokenizeWords_shape`).
  The two annotation passes commute with the token relation `TokWs` (`annotateEn_rel`, `annotateFr_rel`),
  `TokWs` implies the scanner's `TokRel` (`tokWs_tokRel`), and the splice of the occurrences into related
  token lists gives `WsSubst`-related texts (`replaceTextWith_rel`).
-/
import T2N.Lemmas.Congr
import T2N.Lemmas.Inert
import T2N.Lemmas.SimpleCC
import T2N.Model.Api

namespace T2N.WsText
open T2N

/-- `s'` is `s` with whitespace runs replaced by arbitrary non-empty whitespace runs: equal non-whitespace
characters in step, a non-empty whitespace run against a non-empty whitespace run (consecutive `ws` steps
compose to one run, so "maximal run against any non-empty run" is the same relation) -/
inductive WsSubst (cc : CharClasses) : Word → Word → Prop
  | nil : WsSubst cc [] []
  | char {s s' : Word} (c : Char) (hc : cc.isWhitespace c = false) (h : WsSubst cc s s') :
      WsSubst cc (c :: s) (c :: s')
  | ws {s s' : Word} (u u' : Word) (hu : u.all cc.isWhitespace = true) (hu' : u'.all cc.isWhitespace = true)
      (hne : u ≠ []) (hne' : u' ≠ []) (h : WsSubst cc s s') : WsSubst cc (u ++ s) (u' ++ s')

namespace WsSubst
variable {cc : CharClasses} {s s' : Word}

theorem refl (cc : CharClasses) : ∀ s : Word, WsSubst cc s s
  | [] => .nil
  | c :: s => by
    by_cases h : cc.isWhitespace c = true
    · exact .ws [c] [c] (by simp [h]) (by simp [h]) (by simp) (by simp) (refl cc s)
    · exact .char c (by simpa using h) (refl cc s)

theorem of_ws {u u' : Word} (hu : u.all cc.isWhitespace = true) (hu' : u'.all cc.isWhitespace = true)
    (hne : u ≠ []) (hne' : u' ≠ []) : WsSubst cc u u' := by
  have := WsSubst.ws u u' hu hu' hne hne' (WsSubst.nil (cc := cc))
  simpa using this

theorem append {a a' b b' : Word} (h1 : WsSubst cc a a') (h2 : WsSubst cc b b') :
    WsSubst cc (a ++ b) (a' ++ b') := by
  induction h1 with
  | nil => exact h2
  | char c hc _ ih => exact .char c hc ih
  | ws u u' hu hu' hne hne' _ ih =>
    rw [List.append_assoc, List.append_assoc]
    exact .ws u u' hu hu' hne hne' ih

theorem symm (h : WsSubst cc s s') : WsSubst cc s' s := by
  induction h with
  | nil => exact .nil
  | char c hc _ ih => exact .char c hc ih
  | ws u u' hu hu' hne hne' _ ih => exact .ws u' u hu' hu hne' hne ih

theorem isEmpty_eq (h : WsSubst cc s s') : s.isEmpty = s'.isEmpty := by
  cases h with
  | nil => rfl
  | char => rfl
  | ws u u' _ _ hne hne' _ =>
    cases u with
    | nil => exact absurd rfl hne
    | cons x xs =>
      cases u' with
      | nil => exact absurd rfl hne'
      | cons y ys => rfl

theorem eq_nil_of_nil (h : WsSubst cc [] s') : s' = [] := by
  have := h.isEmpty_eq
  cases s' with
  | nil => rfl
  | cons _ _ => cases this

theorem reverse (h : WsSubst cc s s') : WsSubst cc s.reverse s'.reverse := by
  induction h with
  | nil => exact .nil
  | char c hc _ ih =>
    rw [List.reverse_cons, List.reverse_cons]
    exact ih.append (.char c hc .nil)
  | ws u u' hu hu' hne hne' _ ih =>
    rw [List.reverse_append, List.reverse_append]
    exact ih.append (of_ws (by simpa using hu) (by simpa using hu') (by simpa using hne) (by simpa using hne'))

theorem dropWhile_ws_append {u : Word} (hu : u.all cc.isWhitespace = true) (t : Word) :
    (u ++ t).dropWhile cc.isWhitespace = t.dropWhile cc.isWhitespace := by
  induction u with
  | nil => rfl
  | cons c cs ih =>
    simp only [List.all_cons, Bool.and_eq_true] at hu
    rw [List.cons_append, List.dropWhile_cons, if_pos hu.1]
    exact ih hu.2

theorem dropWhile (h : WsSubst cc s s') :
    WsSubst cc (s.dropWhile cc.isWhitespace) (s'.dropWhile cc.isWhitespace) := by
  induction h with
  | nil => exact .nil
  | char c hc h _ =>
    have hc' : ¬ (cc.isWhitespace c = true) := by rw [hc]; decide
    rw [List.dropWhile_cons, List.dropWhile_cons, if_neg hc', if_neg hc']
    exact .char c hc h
  | ws u u' hu hu' _ _ _ ih =>
    rw [dropWhile_ws_append hu, dropWhile_ws_append hu']
    exact ih

/-- `str::trim` of related texts are related -/
theorem trim (h : WsSubst cc s s') : WsSubst cc (cc.trim s) (cc.trim s') := by
  unfold CharClasses.trim
  exact h.dropWhile.reverse.dropWhile.reverse

theorem all_of_ws {p : Char → Bool} (hp : ∀ c, cc.isWhitespace c = true → p c = true) {u : Word}
    (hu : u.all cc.isWhitespace = true) : u.all p = true := by
  rw [List.all_eq_true] at hu ⊢
  exact fun x hx => hp x (hu x hx)

theorem any_of_ws {p : Char → Bool} (hp : ∀ c, cc.isWhitespace c = true → p c = false) {u : Word}
    (hu : u.all cc.isWhitespace = true) : u.any p = false := by
  induction u with
  | nil => rfl
  | cons c cs ih =>
    simp only [List.all_cons, Bool.and_eq_true] at hu
    rw [List.any_cons, hp c hu.1, ih hu.2]; rfl

/-- a test that holds of every whitespace character cannot tell related texts apart -/
theorem all_eq (p : Char → Bool) (hp : ∀ c, cc.isWhitespace c = true → p c = true) (h : WsSubst cc s s') :
    s.all p = s'.all p := by
  induction h with
  | nil => rfl
  | char c _ _ ih => rw [List.all_cons, List.all_cons, ih]
  | ws u u' hu hu' _ _ _ ih =>
    rw [List.all_append, List.all_append, ih, all_of_ws hp hu, all_of_ws hp hu']

theorem any_eq (p : Char → Bool) (hp : ∀ c, cc.isWhitespace c = true → p c = false) (h : WsSubst cc s s') :
    s.any p = s'.any p := by
  induction h with
  | nil => rfl
  | char c _ _ ih => rw [List.any_cons, List.any_cons, ih]
  | ws u u' hu hu' _ _ _ ih =>
    rw [List.any_append, List.any_append, ih, any_of_ws hp hu, any_of_ws hp hu']

theorem eq_singleton (x : Char) (hx : cc.isWhitespace x = false) (h : WsSubst cc s s') (e : s = [x]) :
    s' = [x] := by
  cases h with
  | nil => cases e
  | char c hc h' =>
    injection e with e1 e2
    subst e1 e2
    rw [h'.eq_nil_of_nil]
  | ws u u' hu _ hne _ _ =>
    cases u with
    | nil => exact absurd rfl hne
    | cons d ds =>
      simp only [List.all_cons, Bool.and_eq_true] at hu
      rw [List.cons_append] at e
      injection e with e1 _
      rw [e1, hx] at hu
      cases hu.1

/-- comparison with a one-character non-whitespace constant (`"-"`, `"."`) -/
theorem beq_singleton (x : Char) (hx : cc.isWhitespace x = false) (h : WsSubst cc s s') :
    (s == [x]) = (s' == [x]) := by
  rw [Bool.eq_iff_iff, beq_iff_eq, beq_iff_eq]
  exact ⟨eq_singleton x hx h, eq_singleton x hx h.symm⟩

/-- a text without whitespace is related to itself only -/
theorem eq_of_no_ws (h : WsSubst cc s s') (hn : s.all (fun c => !cc.isWhitespace c) = true) : s = s' := by
  induction h with
  | nil => rfl
  | char c _ _ ih =>
    simp only [List.all_cons, Bool.and_eq_true] at hn
    rw [ih hn.2]
  | ws u u' hu _ hne _ _ _ =>
    cases u with
    | nil => exact absurd rfl hne
    | cons d ds =>
      simp only [List.cons_append, List.all_cons, Bool.and_eq_true] at hn hu
      rw [hu.1] at hn
      exact absurd hn.1 (by decide)

/-- tests on the lowercase copy: `p` holds of the lowercase form of every whitespace character -/
theorem lower_all_eq (p : Char → Bool) (hp : ∀ c, cc.isWhitespace c = true → (cc.lower c).all p = true)
    (h : WsSubst cc s s') : (cc.lowerStr s).all p = (cc.lowerStr s').all p := by
  unfold CharClasses.lowerStr
  rw [List.all_flatMap, List.all_flatMap]
  exact all_eq _ hp h

theorem lower_any_eq (p : Char → Bool) (hp : ∀ c, cc.isWhitespace c = true → (cc.lower c).any p = false)
    (h : WsSubst cc s s') : (cc.lowerStr s).any p = (cc.lowerStr s').any p := by
  unfold CharClasses.lowerStr
  rw [List.any_flatMap, List.any_flatMap]
  exact any_eq _ hp h

theorem flatten {as bs : List Word} (h : ListRel (WsSubst cc) as bs) : WsSubst cc as.flatten bs.flatten := by
  induction as generalizing bs with
  | nil =>
    cases bs with
    | nil => exact .nil
    | cons _ _ => cases h
  | cons a as ih =>
    cases bs with
    | nil => cases h
    | cons b bs =>
      rw [List.flatten_cons, List.flatten_cons]
      exact h.1.append (ih h.2)

end WsSubst

/-! ### the tokenizer -/

/-- the laws about whitespace characters that the tokenizer and the raw-text tests of the scanner need -/
structure WsLaws (cc : CharClasses) : Prop where
  not_alnum : ∀ c, cc.isWhitespace c = true → cc.isAlphanumeric c = false
  not_alpha : ∀ c, cc.isWhitespace c = true → cc.isAlphabetic c = false
  not_hyphen : cc.isWhitespace '-' = false
  not_apos : cc.isWhitespace '\'' = false

variable {cc : CharClasses}

theorem WsLaws.ne_of_ws (x : Char) (hx : cc.isWhitespace x = false) (c : Char)
    (h : cc.isWhitespace c = true) : (c == x) = false := by
  cases hh : (c == x) with
  | false => rfl
  | true =>
    have := eq_of_beq hh
    subst this
    rw [hx] at h
    cases h

theorem WsLaws.not_wordChar (L : WsLaws cc) (c : Char) (h : cc.isWhitespace c = true) :
    isWordChar cc c = false := by
  unfold isWordChar
  rw [L.not_alnum c h, WsLaws.ne_of_ws '-' L.not_hyphen c h, WsLaws.ne_of_ws '\'' L.not_apos c h]
  rfl

theorem aux_nil (cc : CharClasses) (st : Option Bool) (cur : Word) :
    tokenizeAux cc st cur [] = if cur.isEmpty then [] else [cur.reverse] := by
  cases st with
  | none => rw [tokenizeAux]
  | some b => cases b <;> rw [tokenizeAux]

theorem aux_none_cons (cc : CharClasses) (cur : Word) (c : Char) (cs : Word) :
    tokenizeAux cc none cur (c :: cs) = tokenizeAux cc (some (cc.isAlphanumeric c)) [c] cs := by
  rw [tokenizeAux]

theorem aux_true_cons (cc : CharClasses) (cur : Word) (c : Char) (cs : Word) :
    tokenizeAux cc (some true) cur (c :: cs) =
      if isWordChar cc c then tokenizeAux cc (some true) (c :: cur) cs
      else cur.reverse :: tokenizeAux cc (some false) [c] cs := by
  rw [tokenizeAux]

theorem aux_false_cons (cc : CharClasses) (cur : Word) (c : Char) (cs : Word) :
    tokenizeAux cc (some false) cur (c :: cs) =
      if cc.isAlphanumeric c then cur.reverse :: tokenizeAux cc (some true) [c] cs
      else tokenizeAux cc (some false) (c :: cur) cs := by
  rw [tokenizeAux]

/-- inside a separator token a whitespace run is swallowed -/
theorem aux_sep_run (L : WsLaws cc) : ∀ (u : Word), u.all cc.isWhitespace = true → ∀ (cur t : Word),
    tokenizeAux cc (some false) cur (u ++ t) = tokenizeAux cc (some false) (u.reverse ++ cur) t
  | [], _, _, _ => rfl
  | c :: cs, hu, cur, t => by
    simp only [List.all_cons, Bool.and_eq_true] at hu
    have hc : ¬ (cc.isAlphanumeric c = true) := by rw [L.not_alnum c hu.1]; decide
    rw [List.cons_append, aux_false_cons, if_neg hc, aux_sep_run L cs hu.2 (c :: cur) t]
    simp

/-- a whitespace run ends a word token and starts a separator token -/
theorem aux_word_run (L : WsLaws cc) (u : Word) (hu : u.all cc.isWhitespace = true) (hne : u ≠ [])
    (cur t : Word) :
    tokenizeAux cc (some true) cur (u ++ t) = cur.reverse :: tokenizeAux cc (some false) u.reverse t := by
  cases u with
  | nil => exact absurd rfl hne
  | cons c cs =>
    simp only [List.all_cons, Bool.and_eq_true] at hu
    have hc : ¬ (isWordChar cc c = true) := by rw [L.not_wordChar c hu.1]; decide
    rw [List.cons_append, aux_true_cons, if_neg hc, aux_sep_run L cs hu.2 [c] t]
    simp

theorem aux_rel (L : WsLaws cc) {s s' : Word} (h : WsSubst cc s s') : ∀ (b : Bool) (cur cur' : Word),
    WsSubst cc cur.reverse cur'.reverse →
    ListRel (WsSubst cc) (tokenizeAux cc (some b) cur s) (tokenizeAux cc (some b) cur' s') := by
  induction h with
  | nil =>
    intro b cur cur' hcur
    rw [aux_nil, aux_nil]
    have he := hcur.isEmpty_eq
    simp only [List.isEmpty_reverse] at he
    rw [← he]
    by_cases hc : cur.isEmpty = true
    · rw [if_pos hc, if_pos hc]; trivial
    · rw [if_neg hc, if_neg hc]; exact ⟨hcur, trivial⟩
  | char c hc _ ih =>
    intro b cur cur' hcur
    have hcons : WsSubst cc (c :: cur).reverse (c :: cur').reverse := by
      rw [List.reverse_cons, List.reverse_cons]
      exact hcur.append (.char c hc .nil)
    cases b with
    | true =>
      rw [aux_true_cons, aux_true_cons]
      by_cases hw : isWordChar cc c = true
      · rw [if_pos hw, if_pos hw]; exact ih true _ _ hcons
      · rw [if_neg hw, if_neg hw]; exact ⟨hcur, ih false [c] [c] (WsSubst.refl cc _)⟩
    | false =>
      rw [aux_false_cons, aux_false_cons]
      by_cases hw : cc.isAlphanumeric c = true
      · rw [if_pos hw, if_pos hw]; exact ⟨hcur, ih true [c] [c] (WsSubst.refl cc _)⟩
      · rw [if_neg hw, if_neg hw]; exact ih false _ _ hcons
  | ws u u' hu hu' hne hne' _ ih =>
    intro b cur cur' hcur
    cases b with
    | true =>
      rw [aux_word_run L u hu hne, aux_word_run L u' hu' hne']
      refine ⟨hcur, ih false _ _ ?_⟩
      rw [List.reverse_reverse, List.reverse_reverse]
      exact WsSubst.of_ws hu hu' hne hne'
    | false =>
      rw [aux_sep_run L u hu, aux_sep_run L u' hu']
      apply ih false
      rw [List.reverse_append, List.reverse_append, List.reverse_reverse, List.reverse_reverse]
      exact hcur.append (WsSubst.of_ws hu hu' hne hne')

/-- **whole-text tokenizer theorem**: related texts give token lists of the same length (`ListRel.length_eq`)
whose tokens are pointwise related -/
theorem tokenizeWords_rel (L : WsLaws cc) {s s' : Word} (h : WsSubst cc s s') :
    ListRel (WsSubst cc) (tokenizeWords cc s) (tokenizeWords cc s') := by
  unfold tokenizeWords
  cases h with
  | nil => rw [aux_nil]; trivial
  | char c hc h' =>
    rw [aux_none_cons, aux_none_cons]
    exact aux_rel L h' _ [c] [c] (WsSubst.refl cc _)
  | ws u u' hu hu' hne hne' h' =>
    cases u with
    | nil => exact absurd rfl hne
    | cons d ds =>
      cases u' with
      | nil => exact absurd rfl hne'
      | cons d' ds' =>
        have hu0 := hu
        have hu0' := hu'
        simp only [List.all_cons, Bool.and_eq_true] at hu hu'
        rw [List.cons_append, List.cons_append, aux_none_cons, aux_none_cons, L.not_alnum d hu.1,
          L.not_alnum d' hu'.1, aux_sep_run L ds hu.2, aux_sep_run L ds' hu'.2]
        apply aux_rel L h' false
        rw [List.reverse_append, List.reverse_append, List.reverse_reverse, List.reverse_reverse]
        exact WsSubst.of_ws hu0 hu0' hne hne'

/-- every token is a word token (made of word characters) or a separator token (no alphanumeric character) -/
def Shape (cc : CharClasses) (t : Word) : Prop :=
  t.all (isWordChar cc) = true ∨ t.all (fun c => !cc.isAlphanumeric c) = true

theorem aux_shape (cc : CharClasses) : ∀ (s : Word) (b : Bool) (cur : Word),
    (if b then cur.all (isWordChar cc) = true else cur.all (fun c => !cc.isAlphanumeric c) = true) →
    ∀ t ∈ tokenizeAux cc (some b) cur s, Shape cc t
  | [], b, cur, hcur, t, ht => by
    rw [aux_nil] at ht
    by_cases hc : cur.isEmpty = true
    · rw [if_pos hc] at ht; cases ht
    · rw [if_neg hc, List.mem_singleton] at ht
      subst ht
      cases b with
      | true => left; simpa using hcur
      | false => right; simpa using hcur
  | c :: cs, true, cur, hcur, t, ht => by
    rw [aux_true_cons] at ht
    simp only [if_true] at hcur
    by_cases hw : isWordChar cc c = true
    · rw [if_pos hw] at ht
      exact aux_shape cc cs true (c :: cur) (by simp [hw, hcur]) t ht
    · rw [if_neg hw, List.mem_cons] at ht
      cases ht with
      | inl h => subst h; left; simpa using hcur
      | inr h =>
        refine aux_shape cc cs false [c] ?_ t h
        have : cc.isAlphanumeric c = false := by
          cases ha : cc.isAlphanumeric c with
          | false => rfl
          | true => exact absurd (by unfold isWordChar; rw [ha]; rfl) hw
        simp [this]
  | c :: cs, false, cur, hcur, t, ht => by
    rw [aux_false_cons] at ht
    simp only [Bool.false_eq_true, if_false] at hcur
    by_cases hw : cc.isAlphanumeric c = true
    · rw [if_pos hw, List.mem_cons] at ht
      cases ht with
      | inl h => subst h; right; simpa using hcur
      | inr h =>
        refine aux_shape cc cs true [c] ?_ t h
        have : isWordChar cc c = true := by unfold isWordChar; rw [hw]; rfl
        simp [this]
    · rw [if_neg hw] at ht
      exact aux_shape cc cs false (c :: cur) (by simp [hw, hcur]) t ht

theorem tokenizeWords_shape (cc : CharClasses) (s : Word) : ∀ t ∈ tokenizeWords cc s, Shape cc t := by
  unfold tokenizeWords
  cases s with
  | nil => intro t ht; rw [aux_nil] at ht; cases ht
  | cons c cs =>
    rw [aux_none_cons]
    apply aux_shape
    cases ha : cc.isAlphanumeric c with
    | false => simp [ha]
    | true => simp [isWordChar, ha]

/-- a word token contains no whitespace, so it is related to itself only -/
theorem word_token_eq (L : WsLaws cc) {t t' : Word} (h : WsSubst cc t t')
    (hw : t.all (isWordChar cc) = true) : t = t' := by
  apply h.eq_of_no_ws
  rw [List.all_eq_true] at hw ⊢
  intro x hx
  cases hws : cc.isWhitespace x with
  | false => rfl
  | true => have := hw x hx; rw [L.not_wordChar x hws] at this; cases this

theorem sep_token_all (L : WsLaws cc) {t t' : Word} (h : WsSubst cc t t')
    (hw : t.all (fun c => !cc.isAlphanumeric c) = true) : t'.all (fun c => !cc.isAlphanumeric c) = true := by
  rw [← h.all_eq (fun c => !cc.isAlphanumeric c) (fun c hc => by rw [L.not_alnum c hc]; rfl)]
  exact hw

/-! ### pointwise related lists -/

section Lists
variable {α : Type} {R : α → α → Prop}

theorem listRel_take : ∀ (n : Nat) {as bs : List α}, ListRel R as bs → ListRel R (as.take n) (bs.take n)
  | 0, _, _, _ => trivial
  | _ + 1, [], [], _ => trivial
  | n + 1, a :: as, b :: bs, h => ⟨h.1, listRel_take n h.2⟩
  | _ + 1, [], _ :: _, h => by cases h
  | _ + 1, _ :: _, [], h => by cases h

theorem listRel_drop : ∀ (n : Nat) {as bs : List α}, ListRel R as bs → ListRel R (as.drop n) (bs.drop n)
  | 0, _, _, h => h
  | _ + 1, [], [], _ => trivial
  | n + 1, a :: as, b :: bs, h => listRel_drop n h.2
  | _ + 1, [], _ :: _, h => by cases h
  | _ + 1, _ :: _, [], h => by cases h

theorem listRel_append : ∀ {as bs cs ds : List α}, ListRel R as bs → ListRel R cs ds →
    ListRel R (as ++ cs) (bs ++ ds)
  | [], [], _, _, _, h => h
  | a :: as, b :: bs, _, _, h1, h2 => ⟨h1.1, listRel_append h1.2 h2⟩
  | [], _ :: _, _, _, h, _ => by cases h
  | _ :: _, [], _, _, h, _ => by cases h

theorem listRel_getD {d d' : α} (hd : R d d') : ∀ {as bs : List α}, ListRel R as bs → ∀ i : Nat,
    R (as.getD i d) (bs.getD i d')
  | [], [], _, _ => by simpa using hd
  | a :: as, b :: bs, h, 0 => by simpa using h.1
  | a :: as, b :: bs, h, i + 1 => by simpa using listRel_getD hd h.2 i
  | [], _ :: _, h, _ => by cases h
  | _ :: _, [], h, _ => by cases h

theorem listRel_modify (f g : α → α) (hf : ∀ a b, R a b → R (f a) (g b)) : ∀ {as bs : List α},
    ListRel R as bs → ∀ i : Nat, ListRel R (as.modify i f) (bs.modify i g)
  | [], [], _, _ => by simp [ListRel]
  | a :: as, b :: bs, h, 0 => by
    rw [List.modify_zero_cons, List.modify_zero_cons]; exact ⟨hf a b h.1, h.2⟩
  | a :: as, b :: bs, h, i + 1 => by
    rw [List.modify_succ_cons, List.modify_succ_cons]; exact ⟨h.1, listRel_modify f g hf h.2 i⟩
  | [], _ :: _, h, _ => by cases h
  | _ :: _, [], h, _ => by cases h

theorem listRel_mono {R' : α → α → Prop} (hr : ∀ a b, R a b → R' a b) : ∀ {as bs : List α},
    ListRel R as bs → ListRel R' as bs
  | [], [], _ => trivial
  | a :: as, b :: bs, h => ⟨hr a b h.1, listRel_mono hr h.2⟩
  | [], _ :: _, h => by cases h
  | _ :: _, [], h => by cases h

end Lists

/-! ### the token relation -/

/-- what a whitespace substitution preserves of a token: the raw texts are related, the hint is the same, the
lowercase copies are related by `W` (equal for word tokens, inert for the language for separator tokens) -/
structure TokWs (cc : CharClasses) (W : Word → Word → Prop) (a b : Tok) : Prop where
  text : WsSubst cc a.text b.text
  nan : a.nan = b.nan
  lower : W a.lower b.lower

theorem TokWs.setNan {W : Word → Word → Prop} {a b : Tok} (h : TokWs cc W a b) :
    TokWs cc W { a with nan := true } { b with nan := true } :=
  ⟨h.text, rfl, h.lower⟩

theorem TokWs.refl {W : Word → Word → Prop} (hrefl : ∀ w, W w w) (a : Tok) : TokWs cc W a a :=
  ⟨WsSubst.refl cc _, rfl, hrefl _⟩

theorem setNan_rel {W : Word → Word → Prop} {toks toks' : List Tok} (h : ListRel (TokWs cc W) toks toks')
    (i : Nat) : ListRel (TokWs cc W) (setNan toks i) (setNan toks' i) :=
  listRel_modify _ _ (fun _ _ h => h.setNan) h i

theorem lowerAt_rel {W : Word → Word → Prop} (hrefl : ∀ w, W w w) {toks toks' : List Tok}
    (h : ListRel (TokWs cc W) toks toks') (i : Nat) : W (lowerAt toks i) (lowerAt toks' i) :=
  (listRel_getD (TokWs.refl hrefl default) h i).lower

/-- related texts tokenize to related tokens, provided the lowercase copies of related separator tokens are
`W`-related -/
theorem tokenize_rel (L : WsLaws cc) (W : Word → Word → Prop) (hrefl : ∀ w, W w w)
    (hsep : ∀ t t', WsSubst cc t t' → t.all (fun c => !cc.isAlphanumeric c) = true →
      t'.all (fun c => !cc.isAlphanumeric c) = true → W (cc.lowerStr t) (cc.lowerStr t'))
    {s s' : Word} (h : WsSubst cc s s') : ListRel (TokWs cc W) (tokenize cc s) (tokenize cc s') := by
  unfold tokenize
  have h1 := tokenizeWords_rel L h
  have h2 := tokenizeWords_shape cc s
  generalize tokenizeWords cc s = ws at h1 h2
  generalize tokenizeWords cc s' = ws' at h1
  induction ws generalizing ws' with
  | nil =>
    cases ws' with
    | nil => trivial
    | cons _ _ => cases h1
  | cons t ts ih =>
    cases ws' with
    | nil => cases h1
    | cons t' ts' =>
      refine ⟨?_, ih (fun x hx => h2 x (List.mem_cons_of_mem _ hx)) ts' h1.2⟩
      unfold basicToken
      cases h2 t List.mem_cons_self with
      | inl hw =>
        have := word_token_eq L h1.1 hw
        subst this
        exact TokWs.refl hrefl _
      | inr hw => exact ⟨h1.1, rfl, hsep t t' h1.1 hw (sep_token_all L h1.1 hw)⟩

/-! ### the raw-text tests of the scanner -/

theorem dropWhile_head_not (p : Char → Bool) : ∀ (l : Word) (x : Char) (r : Word),
    l.dropWhile p = x :: r → p x = false
  | [], _, _, h => by cases h
  | c :: cs, x, r, h => by
    rw [List.dropWhile_cons] at h
    by_cases hc : p c = true
    · rw [if_pos hc] at h; exact dropWhile_head_not p cs x r h
    · rw [if_neg hc] at h
      injection h with h1 _
      subst h1
      simpa using hc

/-- `str::trim` never returns a single whitespace character -/
theorem trim_ne_ws (cc : CharClasses) (t : Word) (x : Char) (hx : cc.isWhitespace x = true) :
    cc.trim t ≠ [x] := by
  intro e
  unfold CharClasses.trim at e
  have e2 := congrArg List.reverse e
  rw [List.reverse_reverse] at e2
  have := dropWhile_head_not cc.isWhitespace _ x [] e2
  rw [hx] at this
  cases this

theorem trim_ne_dot {t t' : Word} (h : WsSubst cc t t') : (cc.trim t != ['.']) = (cc.trim t' != ['.']) := by
  cases hd : cc.isWhitespace '.' with
  | false =>
    show (!(cc.trim t == ['.'])) = (!(cc.trim t' == ['.']))
    rw [h.trim.beq_singleton '.' hd]
  | true =>
    have h1 : (cc.trim t != ['.']) = true := by simpa using trim_ne_ws cc t '.' hd
    have h2 : (cc.trim t' != ['.']) = true := by simpa using trim_ne_ws cc t' '.' hd
    rw [h1, h2]

/-- (a hinted token is never skipped, so the hints have to agree too) -/
theorem isSkipped_eq (L : WsLaws cc) (cfg : ScanCfg) (hcc : cfg.cc = cc) {a b : Tok}
    (h : WsSubst cc a.text b.text) (hn : a.nan = b.nan) :
    Scanner.isSkipped cfg a = Scanner.isSkipped cfg b := by
  unfold Scanner.isSkipped
  rw [hcc, hn, h.beq_singleton '-' L.not_hyphen, h.all_eq cc.isWhitespace (fun _ hc => hc)]

/-- `TokWs`-related tokens are indistinguishable to the scanner as soon as `W`-related words are
indistinguishable to the language -/
theorem tokWs_tokRel (L : WsLaws cc) (cfg : ScanCfg) (hcc : cfg.cc = cc) (W : Word → Word → Prop)
    (hW : ∀ w w', W w w' → LangEq cfg.lang w w' ∧ cfg.lang.isLinking w = cfg.lang.isLinking w')
    {a b : Tok} (h : TokWs cc W a b) : TokRel cfg a b := by
  refine ⟨isSkipped_eq L cfg hcc h.text h.nan, h.nan, (hW _ _ h.lower).1, ?_⟩
  unfold breaks
  rw [hcc, (hW _ _ h.lower).2, trim_ne_dot h.text,
    h.text.all_eq (fun c => !cc.isAlphabetic c) (fun c hc => by rw [L.not_alpha c hc]; rfl)]

/-! ### the annotation passes -/

section Annot
variable {W : Word → Word → Prop}

theorem indicesWhere_rel (p : Tok → Bool) (hp : ∀ a b, TokWs cc W a b → p a = p b) :
    ∀ (n : Nat) {as bs : List Tok}, ListRel (TokWs cc W) as bs →
      (enumFrom n as).filterMap (fun (i, t) => if p t then some i else none) =
      (enumFrom n bs).filterMap (fun (i, t) => if p t then some i else none)
  | _, [], [], _ => rfl
  | n, a :: as, b :: bs, h => by
    simp only [enumFrom, List.filterMap_cons]
    rw [hp a b h.1, indicesWhere_rel p hp (n + 1) h.2]
  | _, [], _ :: _, h => by cases h
  | _, _ :: _, [], h => by cases h

/-- what the English pass observes of a lowercase word -/
def EnObs (apply : Word → DS → Res × DS) (w w' : Word) : Prop :=
  (w == ['o']) = (w' == ['o']) ∧ ∀ d, apply w d = apply w' d

theorem enDecide_rel (apply : Word → DS → Res × DS) {toks toks' : List Tok}
    (hlow : ∀ k, EnObs apply (lowerAt toks k) (lowerAt toks' k)) (sig : List Nat) (j : Nat) (b : DS) :
    enDecide apply sig j toks b = enDecide apply sig j toks' b := by
  have h1 : ∀ k d, apply (lowerAt toks k) d = apply (lowerAt toks' k) d := fun k d => (hlow k).2 d
  unfold enDecide probe
  simp only [h1]

theorem annotateEnLoop_rel (apply : Word → DS → Res × DS) (hrefl : ∀ w, W w w)
    (hobs : ∀ w w', W w w' → EnObs apply w w') (sig : List Nat) :
    ∀ (rest : List Nat) (j : Nat) (b : DS) (toks toks' : List Tok), ListRel (TokWs cc W) toks toks' →
      ListRel (TokWs cc W) (annotateEnLoop apply sig rest j b toks) (annotateEnLoop apply sig rest j b toks')
  | [], _, _, _, _, h => by rw [annotateEnLoop, annotateEnLoop]; exact h
  | i :: rest, j, b, toks, toks', h => by
    have hlow : ∀ k, EnObs apply (lowerAt toks k) (lowerAt toks' k) :=
      fun k => hobs _ _ (lowerAt_rel hrefl h k)
    rw [annotateEnLoop, annotateEnLoop, (hlow i).1, enDecide_rel apply hlow]
    by_cases ho : (lowerAt toks' i == ['o']) = true
    · simp only [if_pos ho]
      by_cases hd : (enDecide apply sig j toks' b).1 = true
      · simp only [if_pos hd]
        exact annotateEnLoop_rel apply hrefl hobs sig rest (j + 1) _ _ _ h
      · simp only [if_neg hd]
        exact annotateEnLoop_rel apply hrefl hobs sig rest (j + 1) _ _ _ (setNan_rel h i)
    · simp only [if_neg ho]
      exact annotateEnLoop_rel apply hrefl hobs sig rest (j + 1) _ _ _ h

/-- the English `o` pass commutes with the token relation -/
theorem annotateEn_rel (apply : Word → DS → Res × DS) (hrefl : ∀ w, W w w)
    (hobs : ∀ w w', W w w' → EnObs apply w w')
    (hsig : ∀ w w', W w w' → w.all cc.isWhitespace = w'.all cc.isWhitespace)
    {toks toks' : List Tok} (h : ListRel (TokWs cc W) toks toks') :
    ListRel (TokWs cc W) (annotateEn cc apply toks) (annotateEn cc apply toks') := by
  unfold annotateEn indicesWhere
  rw [indicesWhere_rel (fun t => !(t.lower.all cc.isWhitespace))
    (fun a b hab => by simp only [hsig _ _ hab.lower]) 0 h]
  exact annotateEnLoop_rel apply hrefl hobs _ _ _ _ _ _ h

/-- what the French pass observes of a lowercase word -/
def FrObs (apply : Word → DS → Res × DS) (isDecSep : Word → Bool) (w w' : Word) : Prop :=
  frArticles.contains w = frArticles.contains w' ∧ (w == w!"neuf") = (w' == w!"neuf") ∧
  (w != w!"numéro") = (w' != w!"numéro") ∧ isDecSep w = isDecSep w' ∧ ∀ d, apply w d = apply w' d

theorem FrObs.refl (apply : Word → DS → Res × DS) (isDecSep : Word → Bool) (w : Word) :
    FrObs apply isDecSep w w := ⟨rfl, rfl, rfl, rfl, fun _ => rfl⟩

theorem annotateFrLoop_rel (apply : Word → DS → Res × DS) (isDecSep : Word → Bool) (hrefl : ∀ w, W w w)
    (hobs : ∀ w w', W w w' → FrObs apply isDecSep w w') (tw : List Nat) :
    ∀ (rest : List Nat) (b : DS) (toks toks' : List Tok), ListRel (TokWs cc W) toks toks' →
      ListRel (TokWs cc W) (annotateFrLoop apply isDecSep tw rest b toks)
        (annotateFrLoop apply isDecSep tw rest b toks')
  | [], _, _, _, h => by rw [annotateFrLoop, annotateFrLoop]; exact h
  | i :: rest, b, toks, toks', h => by
    have ih := fun b t t' ht => annotateFrLoop_rel apply isDecSep hrefl hobs tw rest b t t' ht
    have hlow : ∀ k, FrObs apply isDecSep (lowerAt toks k) (lowerAt toks' k) :=
      fun k => hobs _ _ (lowerAt_rel hrefl h k)
    have hart : ∀ k, frArticles.contains (lowerAt toks k) = frArticles.contains (lowerAt toks' k) :=
      fun k => (hlow k).1
    have hnum : ∀ k, (lowerAt toks k != w!"numéro") = (lowerAt toks' k != w!"numéro") := fun k => (hlow k).2.2.1
    have hdec : ∀ k, isDecSep (lowerAt toks k) = isDecSep (lowerAt toks' k) := fun k => (hlow k).2.2.2.1
    have happ : ∀ k d, apply (lowerAt toks k) d = apply (lowerAt toks' k) d := fun k d => (hlow k).2.2.2.2 d
    rw [annotateFrLoop, annotateFrLoop]
    by_cases h2 : i < 2
    · simp only [if_pos h2]; exact ih _ _ _ h
    simp only [if_neg h2]
    simp only [hart, hnum, hdec, happ]
    by_cases hc1 : (frArticles.contains (lowerAt toks' (tw.getD (i - 2) 0)) ||
        (decide (i > 2) && frArticles.contains (lowerAt toks' (tw.getD (i - 3) 0)))) = true
    · simp only [if_pos hc1]
      by_cases hc2 : (lowerAt toks' (tw.getD (i - 1) 0) != w!"numéro" &&
          !isDecSep (lowerAt toks' (tw.getD (i - 1) 0))) = true
      · simp only [if_pos hc2]
        cases hap : apply (lowerAt toks' (tw.getD (i - 1) 0)) DS.new with
        | mk r1 b1 =>
          dsimp only
          by_cases hr1 : r1.isSome = true
          · simp only [if_pos hr1]
            by_cases hn : i + 1 < tw.length
            · simp only [if_pos hn, happ]
              cases hap2 : apply (lowerAt toks' (tw.getD (i + 1) 0)) b1 with
              | mk r2 b2 =>
                dsimp only
                by_cases hr2 : r2.isSome = true
                · simp only [if_pos hr2]; exact ih _ _ _ (setNan_rel h _)
                · simp only [if_neg hr2]; exact ih _ _ _ h
            · simp only [if_neg hn]
              cases hap2 : apply [] b1 with
              | mk r2 b2 =>
                dsimp only
                by_cases hr2 : r2.isSome = true
                · simp only [if_pos hr2]; exact ih _ _ _ (setNan_rel h _)
                · simp only [if_neg hr2]; exact ih _ _ _ h
          · simp only [if_neg hr1]; exact ih _ _ _ h
      · simp only [if_neg hc2]; exact ih _ _ _ h
    · simp only [if_neg hc1]; exact ih _ _ _ h

/-- the French `neuf` pass commutes with the token relation -/
theorem annotateFr_rel (apply : Word → DS → Res × DS) (isDecSep : Word → Bool) (hrefl : ∀ w, W w w)
    (hobs : ∀ w w', W w w' → FrObs apply isDecSep w w')
    (htw : ∀ w w', W w w' → w.all (fun c => !cc.isAlphanumeric c) = w'.all (fun c => !cc.isAlphanumeric c))
    {toks toks' : List Tok} (h : ListRel (TokWs cc W) toks toks') :
    ListRel (TokWs cc W) (annotateFr cc apply isDecSep toks) (annotateFr cc apply isDecSep toks') := by
  unfold annotateFr indicesWhere
  rw [indicesWhere_rel (fun t => !(t.lower.all (fun c => !cc.isAlphanumeric c)))
    (fun a b hab => by simp only [htw _ _ hab.lower]) 0 h]
  have hneuf : ∀ k, (lowerAt toks k == w!"neuf") = (lowerAt toks' k == w!"neuf") :=
    fun k => (hobs _ _ (lowerAt_rel hrefl h k)).2.1
  simp only [hneuf]
  exact annotateFrLoop_rel apply isDecSep hrefl hobs _ _ _ _ _ h

end Annot

/-! ### the splice -/

/-- same fault, or related results -/
def ExRel {α : Type} (Q : α → α → Prop) : Except Fault α → Except Fault α → Prop
  | .ok a, .ok b => Q a b
  | .error f, .error f' => f = f'
  | _, _ => False

theorem replaceOne_rel {R : Tok → Tok → Prop} (mk : List Tok → Word → Tok)
    (hmk : ∀ xs xs' d, R (mk xs d) (mk xs' d)) {ts ts' : List Tok} (h : ListRel R ts ts') (o : Occ) :
    ExRel (ListRel R) (replaceOne mk ts o) (replaceOne mk ts' o) := by
  unfold replaceOne
  rw [h.length_eq]
  by_cases hc : (decide (o.start ≤ o.stop) && decide (o.stop ≤ ts'.length)) = true
  · rw [if_pos hc, if_pos hc]
    exact listRel_append (listRel_append (listRel_take _ h) ⟨hmk _ _ _, trivial⟩) (listRel_drop _ h)
  · rw [if_neg hc, if_neg hc]; exact rfl

theorem replaceAll_rel {R : Tok → Tok → Prop} (mk : List Tok → Word → Tok)
    (hmk : ∀ xs xs' d, R (mk xs d) (mk xs' d)) : ∀ (os : List Occ) {ts ts' : List Tok}, ListRel R ts ts' →
    ExRel (ListRel R) (replaceAll mk os ts) (replaceAll mk os ts')
  | [], _, _, h => h
  | o :: os, ts, ts', h => by
    rw [replaceAll, replaceAll]
    have h1 := replaceOne_rel mk hmk h o
    cases ha : replaceOne mk ts o with
    | error f =>
      cases hb : replaceOne mk ts' o with
      | error f' => rw [ha, hb] at h1; exact h1
      | ok t' => rw [ha, hb] at h1; cases h1
    | ok t =>
      cases hb : replaceOne mk ts' o with
      | error f' => rw [ha, hb] at h1; cases h1
      | ok t' => rw [ha, hb] at h1; exact replaceAll_rel mk hmk os h1

theorem flatMap_text_rel {W : Word → Word → Prop} : ∀ {as bs : List Tok}, ListRel (TokWs cc W) as bs →
    WsSubst cc (as.flatMap (·.text)) (bs.flatMap (·.text))
  | [], [], _ => .nil
  | a :: as, b :: bs, h => by
    rw [List.flatMap_cons, List.flatMap_cons]
    exact h.1.text.append (flatMap_text_rel h.2)
  | [], _ :: _, h => by cases h
  | _ :: _, [], h => by cases h

/-! ### everything a language has to provide -/

/-- `W` relates the lowercase copies of related separator tokens, the language cannot tell `W`-related words
apart, and the annotation pass commutes with the token relation -/
structure Inert (cc : CharClasses) (lang : Lang) (annot : List Tok → List Tok) (W : Word → Word → Prop) :
    Prop where
  refl : ∀ w, W w w
  sep : ∀ t t', WsSubst cc t t' → t.all (fun c => !cc.isAlphanumeric c) = true →
    t'.all (fun c => !cc.isAlphanumeric c) = true → W (cc.lowerStr t) (cc.lowerStr t')
  lang : ∀ w w', W w w' → LangEq lang w w' ∧ lang.isLinking w = lang.isLinking w'
  annot : ∀ toks toks', ListRel (TokWs cc W) toks toks' → ListRel (TokWs cc W) (annot toks) (annot toks')

/-- the configuration used by `replace_numbers_in_text` -/
abbrev textCfg (cc : CharClasses) (lang : Lang) (thr : Nat → Bool) : ScanCfg :=
  { lang := lang, cc := cc, sep := noSep, thrLt := thr }

theorem annotated_rel (L : WsLaws cc) {lang : Lang} {annot : List Tok → List Tok} {W : Word → Word → Prop}
    (I : Inert cc lang annot W) {s s' : Word} (h : WsSubst cc s s') :
    ListRel (TokWs cc W) (annot (tokenize cc s)) (annot (tokenize cc s')) :=
  I.annot _ _ (tokenize_rel L W I.refl I.sep h)

theorem noSep_respects (cfg : ScanCfg) (h : cfg.sep = noSep) : SepRespects cfg := by
  intro a a' b b' _ _; rw [h]; rfl

/-- related texts: the scanner sees indistinguishable token streams -/
theorem scan_generic (L : WsLaws cc) {lang : Lang} {annot : List Tok → List Tok} {W : Word → Word → Prop}
    (I : Inert cc lang annot W) (thr : Nat → Bool) {s s' : Word} (h : WsSubst cc s s') :
    findNumbers (textCfg cc lang thr) (annot (tokenize cc s)) =
      findNumbers (textCfg cc lang thr) (annot (tokenize cc s')) :=
  findNumbers_congr _ (noSep_respects _ rfl) _ _
    (listRel_mono (fun _ _ hab => tokWs_tokRel L (textCfg cc lang thr) rfl W I.lang hab) (annotated_rel L I h))

/-- related texts are rewritten to related texts (or fault identically) -/
theorem rewrite_generic (L : WsLaws cc) {lang : Lang} {annot : List Tok → List Tok} {W : Word → Word → Prop}
    (I : Inert cc lang annot W) (thr : Nat → Bool) {s s' : Word} (h : WsSubst cc s s') :
    ExRel (WsSubst cc) (replaceTextWith (textCfg cc lang thr) annot s)
      (replaceTextWith (textCfg cc lang thr) annot s') := by
  unfold replaceTextWith
  dsimp only
  rw [scan_generic L I thr h]
  cases findNumbers (textCfg cc lang thr) (annot (tokenize cc s')) with
  | error f => exact rfl
  | ok occs =>
    dsimp only
    unfold replaceStream
    have h1 := replaceAll_rel (R := TokWs cc W) (basicReplace cc)
      (fun _ _ _ => TokWs.refl I.refl _) occs.reverse (annotated_rel L I h)
    cases ha : replaceAll (basicReplace cc) occs.reverse (annot (tokenize cc s)) with
    | error f =>
      cases hb : replaceAll (basicReplace cc) occs.reverse (annot (tokenize cc s')) with
      | error f' => rw [ha, hb] at h1; exact h1
      | ok t' => rw [ha, hb] at h1; cases h1
    | ok t =>
      cases hb : replaceAll (basicReplace cc) occs.reverse (annot (tokenize cc s')) with
      | error f' => rw [ha, hb] at h1; cases h1
      | ok t' => rw [ha, hb] at h1; exact flatMap_text_rel h1

/-! ### the seven languages -/

/-- lowercasing a non-alphanumeric character never yields one of the letters `ls` (the letters of a language,
`L.letters` of T2N.Lemmas.Inert): separator tokens then have `Sepish` lowercase copies -/
def SepInert (cc : CharClasses) (ls : List Char) : Prop :=
  ∀ c, cc.isAlphanumeric c = false → ∀ d ∈ cc.lower c, d ∉ ls

/-- whitespace stays whitespace under lowercasing (needed by the English and the French pass only, which test
the lowercase copy for "all whitespace" / "no alphanumeric character") -/
def LowerWs (cc : CharClasses) : Prop :=
  ∀ c, cc.isWhitespace c = true → (cc.lower c).all cc.isWhitespace = true

theorem sepish_lower {ls : List Char} (H : SepInert cc ls) {t : Word}
    (ht : t.all (fun c => !cc.isAlphanumeric c) = true) : Sepish ls (cc.lowerStr t) := by
  intro d hd
  unfold CharClasses.lowerStr at hd
  rw [List.mem_flatMap] at hd
  obtain ⟨c, hc, hdc⟩ := hd
  rw [List.all_eq_true] at ht
  exact H c (by simpa using ht c hc) d hdc

/-- `SepInert` from two more familiar facts: lowercasing a non-alphanumeric character gives non-alphanumeric
characters, and the letters of the language are alphanumeric -/
theorem sepInert_of_alnum {ls : List Char}
    (hlow : ∀ c, cc.isAlphanumeric c = false → (cc.lower c).all (fun d => !cc.isAlphanumeric d) = true)
    (hls : ls.all cc.isAlphanumeric = true) : SepInert cc ls := by
  intro c hc d hd hl
  have h1 := List.all_eq_true.mp (hlow c hc) d hd
  have h2 := List.all_eq_true.mp hls d hl
  rw [h2] at h1
  cases h1

/-- equal words, or two words without letters of the language that agree on the extra observations `obs` -/
def SepW (ls : List Char) (obs : Word → Word → Prop) (w w' : Word) : Prop :=
  w = w' ∨ (Sepish ls w ∧ Sepish ls w' ∧ obs w w')

theorem Inert.toId {lang : Lang} {annot : List Tok → List Tok} {W : Word → Word → Prop}
    (I : Inert cc lang annot W) : Inert cc lang id W :=
  ⟨I.refl, I.sep, I.lang, fun _ _ h => h⟩

/-- languages without annotation pass -/
theorem inert_plain (lang : Lang) (ls : List Char) (H : SepInert cc ls)
    (hle : ∀ a b, Sepish ls a → Sepish ls b → LangEq lang a b)
    (hlk : ∀ a, Sepish ls a → lang.isLinking a = false) :
    Inert cc lang id (SepW ls (fun _ _ => True)) where
  refl := fun _ => Or.inl rfl
  sep := fun _ _ _ ht ht' => Or.inr ⟨sepish_lower H ht, sepish_lower H ht', trivial⟩
  lang := by
    intro w w' h
    cases h with
    | inl e => subst e; exact ⟨LangEq.refl _ _, rfl⟩
    | inr h => exact ⟨hle _ _ h.1 h.2.1, by rw [hlk _ h.1, hlk _ h.2.1]⟩
  annot := fun _ _ h => h

theorem inert_de (H : SepInert cc De.letters) : Inert cc De.lang id (SepW De.letters (fun _ _ => True)) :=
  inert_plain _ _ H De.langEq_sepish De.isLinking_sepish
theorem inert_es (H : SepInert cc Es.letters) : Inert cc Es.lang id (SepW Es.letters (fun _ _ => True)) :=
  inert_plain _ _ H Es.langEq_sepish Es.isLinking_sepish
theorem inert_it (H : SepInert cc It.letters) : Inert cc It.lang id (SepW It.letters (fun _ _ => True)) :=
  inert_plain _ _ H It.langEq_sepish It.isLinking_sepish
theorem inert_nl (H : SepInert cc Nl.letters) : Inert cc Nl.lang id (SepW Nl.letters (fun _ _ => True)) :=
  inert_plain _ _ H Nl.langEq_sepish Nl.isLinking_sepish
theorem inert_pt (H : SepInert cc Pt.letters) : Inert cc Pt.lang id (SepW Pt.letters (fun _ _ => True)) :=
  inert_plain _ _ H Pt.langEq_sepish Pt.isLinking_sepish

theorem en_o_letter : hasLetter En.letters ['o'] = true := by decide +kernel

/-- English: the pass also tests the lowercase copy for "all whitespace" -/
theorem inert_en (LW : LowerWs cc) (H : SepInert cc En.letters) :
    Inert cc En.lang (annotateEn cc En.lang.apply)
      (SepW En.letters (fun w w' => w.all cc.isWhitespace = w'.all cc.isWhitespace)) where
  refl := fun _ => Or.inl rfl
  sep := fun _ _ h ht ht' => Or.inr ⟨sepish_lower H ht, sepish_lower H ht', h.lower_all_eq cc.isWhitespace LW⟩
  lang := by
    intro w w' h
    cases h with
    | inl e => subst e; exact ⟨LangEq.refl _ _, rfl⟩
    | inr h =>
      exact ⟨En.langEq_sepish _ _ h.1 h.2.1, by rw [En.isLinking_sepish _ h.1, En.isLinking_sepish _ h.2.1]⟩
  annot := by
    intro toks toks' h
    refine annotateEn_rel En.lang.apply (fun _ => Or.inl rfl) ?_ ?_ h
    · intro w w' hw
      cases hw with
      | inl e => subst e; exact ⟨rfl, fun _ => rfl⟩
      | inr hw =>
        exact ⟨by rw [Sepish.beq_false hw.1 en_o_letter, Sepish.beq_false hw.2.1 en_o_letter],
          (En.langEq_sepish _ _ hw.1 hw.2.1).1⟩
    · intro w w' hw
      cases hw with
      | inl e => subst e; rfl
      | inr hw => exact hw.2.2

theorem fr_articles_letters : (frArticles.all (hasLetter Fr.letters0)) = true := by decide +kernel
theorem fr_neuf_letter : hasLetter Fr.letters0 w!"neuf" = true := by decide +kernel
theorem fr_numero_letter : hasLetter Fr.letters0 w!"numéro" = true := by decide +kernel

theorem hyphen_ne_ws (L : WsLaws cc) (x : Char) (hx : cc.isWhitespace x = true) : ('-' == x) = false := by
  cases hh : ('-' == x) with
  | false => rfl
  | true =>
    have := eq_of_beq hh
    subst this
    rw [L.not_hyphen] at hx
    cases hx

/-- French: `-` is a letter of the language (`Fr.dash_counterexample`), but a whitespace substitution neither
creates nor removes a `-`, so related separator tokens agree on whether they contain one
(`Fr.langEq_sepish0`); the pass also tests the lowercase copy for "no alphanumeric character" -/
theorem inert_fr (L : WsLaws cc) (LW : LowerWs cc) (H : SepInert cc Fr.letters0) :
    Inert cc Fr.lang (annotateFr cc Fr.lang.apply Fr.lang.isDecSep)
      (SepW Fr.letters0 (fun w w' =>
        w.all (fun c => !cc.isAlphanumeric c) = w'.all (fun c => !cc.isAlphanumeric c) ∧
        w.contains '-' = w'.contains '-')) where
  refl := fun _ => Or.inl rfl
  sep := by
    intro t t' h ht ht'
    refine Or.inr ⟨sepish_lower H ht, sepish_lower H ht', ?_, ?_⟩
    · exact h.lower_all_eq _ (fun c hc =>
        WsSubst.all_of_ws (fun x hx => by rw [L.not_alnum x hx]; rfl) (LW c hc))
    · rw [List.contains_eq_any_beq, List.contains_eq_any_beq]
      exact h.lower_any_eq _ (fun c hc => WsSubst.any_of_ws (hyphen_ne_ws L) (LW c hc))
  lang := by
    intro w w' h
    cases h with
    | inl e => subst e; exact ⟨LangEq.refl _ _, rfl⟩
    | inr h =>
      exact ⟨Fr.langEq_sepish0 _ _ h.1 h.2.1 h.2.2.2,
        by rw [Fr.isLinking_sepish0 _ h.1, Fr.isLinking_sepish0 _ h.2.1]⟩
  annot := by
    intro toks toks' h
    refine annotateFr_rel Fr.lang.apply Fr.lang.isDecSep (fun _ => Or.inl rfl) ?_ ?_ h
    · intro w w' hw
      cases hw with
      | inl e => subst e; exact FrObs.refl _ _ _
      | inr hw =>
        refine ⟨?_, ?_, ?_, ?_, (Fr.langEq_sepish0 _ _ hw.1 hw.2.1 hw.2.2.2).1⟩
        · rw [Sepish.contains_false hw.1 _ fr_articles_letters, Sepish.contains_false hw.2.1 _ fr_articles_letters]
        · rw [Sepish.beq_false hw.1 fr_neuf_letter, Sepish.beq_false hw.2.1 fr_neuf_letter]
        · rw [Sepish.bne_true hw.1 fr_numero_letter, Sepish.bne_true hw.2.1 fr_numero_letter]
        · rw [Fr.isDecSep_sepish0 _ hw.1, Fr.isDecSep_sepish0 _ hw.2.1]
    · intro w w' hw
      cases hw with
      | inl e => subst e; rfl
      | inr hw => exact hw.2.2.1

/-! ### the lowercase copies of related texts are related -/

/-- lowercasing never deletes a whitespace character -/
def LowerWsNe (cc : CharClasses) : Prop := ∀ c, cc.isWhitespace c = true → cc.lower c ≠ []

theorem lowerStr_append (cc : CharClasses) (a b : Word) :
    cc.lowerStr (a ++ b) = cc.lowerStr a ++ cc.lowerStr b := by
  unfold CharClasses.lowerStr; rw [List.flatMap_append]

theorem lowerStr_ws (LW : LowerWs cc) {u : Word} (hu : u.all cc.isWhitespace = true) :
    (cc.lowerStr u).all cc.isWhitespace = true := by
  unfold CharClasses.lowerStr
  rw [List.all_flatMap]
  exact WsSubst.all_of_ws LW hu

theorem lowerStr_ne (LN : LowerWsNe cc) {u : Word} (hu : u.all cc.isWhitespace = true) (hne : u ≠ []) :
    cc.lowerStr u ≠ [] := by
  cases u with
  | nil => exact absurd rfl hne
  | cons d ds =>
    simp only [List.all_cons, Bool.and_eq_true] at hu
    have := LN d hu.1
    unfold CharClasses.lowerStr
    rw [List.flatMap_cons]
    intro e
    exact this (List.append_eq_nil_iff.mp e).1

theorem lowerStr_rel (LW : LowerWs cc) (LN : LowerWsNe cc) {s s' : Word} (h : WsSubst cc s s') :
    WsSubst cc (cc.lowerStr s) (cc.lowerStr s') := by
  induction h with
  | nil => exact .nil
  | char c _ _ ih =>
    have e : ∀ t : Word, cc.lowerStr (c :: t) = cc.lower c ++ cc.lowerStr t := fun t => by
      unfold CharClasses.lowerStr; rw [List.flatMap_cons]
    rw [e, e]
    exact (WsSubst.refl cc _).append ih
  | ws u u' hu hu' hne hne' _ ih =>
    rw [lowerStr_append, lowerStr_append]
    exact .ws _ _ (lowerStr_ws LW hu) (lowerStr_ws LW hu') (lowerStr_ne LN hu hne) (lowerStr_ne LN hu' hne') ih

end T2N.WsText
