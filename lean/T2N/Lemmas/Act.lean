/-
  T2N.Lemmas.Act — generic facts about the instruction language of the interpreters.
-/
import T2N.Model.Lang
import T2N.Lemmas.DS

namespace T2N
open DS

theorem put_atomic (b : DS) (ds : List Nat) (e : Err) (h : (b.put ds).1 = some e) : (b.put ds).2 = b := by
  unfold DS.put at *; repeat' (split <;> try simp_all)
theorem fput_atomic (b : DS) (ds : List Nat) (e : Err) (h : (b.fput ds).1 = some e) : (b.fput ds).2 = b := by
  unfold DS.fput at *; repeat' (split <;> try simp_all)
theorem push_atomic (b : DS) (ds : List Nat) (e : Err) (h : (b.push ds).1 = some e) : (b.push ds).2 = b := by
  unfold DS.push at *; repeat' (split <;> try simp_all)
theorem putDigitAt_atomic (b : DS) (d p : Nat) (e : Err) (h : (b.putDigitAt d p).1 = some e) :
    (b.putDigitAt d p).2 = b := by
  unfold DS.putDigitAt at *; repeat' (split <;> try simp_all)
theorem shift_atomic (b : DS) (p : Nat) (e : Err) (h : (b.shift p).1 = some e) : (b.shift p).2 = b := by
  unfold DS.shift at *; repeat' (split <;> try simp_all)

/-- **failure atomicity of every instruction**: an instruction that reports an error leaves the
builder exactly as it was (this is the lemma that the write-before-check in `shift` falsified). -/
theorem Act.exec_atomic (a : Act) : ∀ (b : DS) (e : Err), (a.exec b).1 = some e → (a.exec b).2.1 = b := by
  induction a with
  | put ds => intro b e h; simp only [Act.exec] at *; exact put_atomic b ds e h
  | fput ds => intro b e h; simp only [Act.exec] at *; exact fput_atomic b ds e h
  | shift k => intro b e h; simp only [Act.exec] at *; exact shift_atomic b k e h
  | putAt d p => intro b e h; simp only [Act.exec] at *; exact putDigitAt_atomic b d p e h
  | push ds => intro b e h; simp only [Act.exec] at *; exact push_atomic b ds e h
  | fail e' => intro b e _; rfl
  | ite g x y ihx ihy =>
    intro b e h
    simp only [Act.exec] at *
    split
    · rename_i hg; rw [if_pos hg] at h; exact ihx b e h
    · rename_i hg; rw [if_neg hg] at h; exact ihy b e h
  | block m a ih =>
    intro b e h
    simp only [Act.exec] at *
    exact ih b e h

/-- a successful instruction never touches `frozen`, `flags`, `marker` -/
theorem Act.exec_frame (a : Act) : ∀ (b : DS), (a.exec b).2.1.frozen = b.frozen ∧
    (a.exec b).2.1.flags = b.flags ∧ (a.exec b).2.1.marker = b.marker := by
  induction a with
  | put ds => intro b; simp only [Act.exec]; unfold DS.put; repeat' (split <;> try simp_all)
  | fput ds => intro b; simp only [Act.exec]; unfold DS.fput; repeat' (split <;> try simp_all)
  | shift k => intro b; simp only [Act.exec]; unfold DS.shift; repeat' (split <;> try simp_all)
  | putAt d p => intro b; simp only [Act.exec]; unfold DS.putDigitAt; repeat' (split <;> try simp_all)
  | push ds => intro b; simp only [Act.exec]; unfold DS.push; repeat' (split <;> try simp_all)
  | fail e' => intro b; exact ⟨rfl, rfl, rfl⟩
  | ite g x y ihx ihy => intro b; simp only [Act.exec]; split; exact ihx b; exact ihy b
  | block m a ih => intro b; simp only [Act.exec]; exact ih b

/-- on a frozen builder every instruction that reaches a primitive is refused -/
theorem Act.exec_frozen_unchanged (a : Act) : ∀ (b : DS), b.frozen = true → (a.exec b).2.1 = b := by
  induction a with
  | put ds => intro b h; simp [Act.exec, DS.put, h]
  | fput ds => intro b h; simp [Act.exec, DS.fput, h]
  | shift k => intro b h; simp [Act.exec, DS.shift, h]
  | putAt d p => intro b h; simp [Act.exec, DS.putDigitAt, h]
  | push ds => intro b h; simp [Act.exec, DS.push, h]
  | fail e' => intro b _; rfl
  | ite g x y ihx ihy => intro b h; simp only [Act.exec]; split; exact ihx b h; exact ihy b h
  | block m a ih => intro b h; simp only [Act.exec]; exact ih b h

end T2N
