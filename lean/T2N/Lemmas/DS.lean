/-
  T2N.Lemmas.DS — list / value algebra for the digit builder.
-/
import T2N.Model.DS

namespace T2N
open DS

theorem valueOf_append (xs ys : List Nat) :
    valueOf (xs ++ ys) = valueOf xs + 10 ^ xs.length * valueOf ys := by
  induction xs with
  | nil => simp [valueOf]
  | cons x xs ih =>
    simp only [List.cons_append, valueOf, ih, List.length_cons, Nat.pow_succ]
    rw [Nat.mul_add, Nat.add_assoc, Nat.mul_comm (10 ^ xs.length) 10, Nat.mul_assoc]

theorem allZero_iff (ds : List Nat) : allZero ds = true ↔ ∀ d ∈ ds, d = 0 := by
  simp [allZero]

theorem valueOf_allZero {ds : List Nat} (h : allZero ds = true) : valueOf ds = 0 := by
  induction ds with
  | nil => rfl
  | cons d ds ih =>
    simp only [allZero, List.all_cons, Bool.and_eq_true, beq_iff_eq] at h
    have : allZero ds = true := by simpa [allZero] using h.2
    simp [valueOf, h.1, ih this]

theorem valueOf_replicate_zero (n : Nat) : valueOf (List.replicate n 0) = 0 := by
  apply valueOf_allZero
  simp [allZero]

theorem valueOf_take_drop (n : Nat) (xs : List Nat) :
    valueOf xs = valueOf (xs.take n) + 10 ^ (xs.take n).length * valueOf (xs.drop n) := by
  conv => lhs; rw [← List.take_append_drop n xs]
  exact valueOf_append _ _

theorem valueOf_stripHigh_aux (r : List Nat) :
    valueOf ((r.dropWhile (· == 0)).reverse) = valueOf r.reverse := by
  induction r with
  | nil => rfl
  | cons a t ih =>
    simp only [List.dropWhile_cons, List.reverse_cons]
    by_cases ha : a = 0
    · subst ha
      simp only [beq_self_eq_true, if_true, ih]
      rw [valueOf_append]; simp [valueOf]
    · have : (a == 0) = false := by simpa using ha
      simp [this]

/-- stripping the high-order zeros of a little-endian digit list keeps its value -/
theorem valueOf_stripHigh (low : List Nat) :
    valueOf ((low.reverse.dropWhile (· == 0)).reverse) = valueOf low := by
  have := valueOf_stripHigh_aux low.reverse
  simpa using this

theorem shiftSig_value (low : List Nat) :
    valueOf (shiftSig low) = if valueOf low = 0 then 1 else valueOf low := by
  unfold shiftSig
  by_cases h : ((low.reverse.dropWhile (· == 0)).reverse).isEmpty
  · simp only [h, if_true]
    have h0 : valueOf low = 0 := by
      rw [← valueOf_stripHigh]
      have : (low.reverse.dropWhile (· == 0)).reverse = [] := by simpa using h
      rw [this]; rfl
    simp [h0, valueOf]
  · simp only [h, Bool.false_eq_true, if_false]
    have hne : (low.reverse.dropWhile (· == 0)).reverse ≠ [] := by simpa using h
    rw [valueOf_stripHigh]
    -- a non-empty stripped list has a non-zero most significant digit, hence a non-zero value
    have hv : valueOf low ≠ 0 := by
      rw [← valueOf_stripHigh]
      generalize hs : (low.reverse.dropWhile (· == 0)) = s at hne
      have hs' : s ≠ [] := by intro e; apply hne; simp [e]
      cases s with
      | nil => exact absurd rfl hs'
      | cons a t =>
        have ha : (a == 0) = false := by
          have := List.head_dropWhile_not (· == 0) (l := low.reverse) (by rw [hs]; simp)
          simpa [hs] using this
        have ha' : a ≠ 0 := by simpa using ha
        simp only [List.reverse_cons]
        rw [valueOf_append]
        simp only [valueOf, Nat.mul_zero, Nat.add_zero]
        intro hcontra
        have : 10 ^ t.reverse.length * a = 0 := by omega
        have hpos : 0 < 10 ^ t.reverse.length := Nat.pow_pos (by decide)
        rcases Nat.mul_eq_zero.mp this with h1 | h1
        · omega
        · exact ha' h1
    simp [hv]

end T2N

namespace T2N
open DS

theorem shift_eq (b : DS) (p : Nat) (hf : b.frozen = false) (hp : p ≠ 0) :
    b.shift p =
      match shiftBuf (if b.rbuf.isEmpty then [1] else b.rbuf) p with
      | some r => (none, { b with rbuf := r })
      | none => (some .overlap, b) := by
  unfold DS.shift
  rw [if_neg (by simp [hf]), if_neg (by simpa using hp)]
  cases shiftBuf (if b.rbuf.isEmpty then [1] else b.rbuf) p <;> rfl

theorem shiftBuf_one (p : Nat) (hp : p ≠ 0) : shiftBuf [1] p = some (List.replicate p 0 ++ [1]) := by
  unfold shiftBuf
  have : [1].length ≤ p := by simp; omega
  rw [if_pos this]

theorem shift_not_frozen {b : DS} {p : Nat} (hok : (b.shift p).1 = none) : b.frozen = false := by
  cases hfr : b.frozen with
  | false => rfl
  | true => simp [DS.shift, hfr] at hok

end T2N
