/-
  T2N.Lemmas.PairsIt — Italian, C08 first half: two complete numbers below 100 spoken one after the other
  (standard one-word spellings, optionally with `e` between them) give either both numbers in order, or — exactly
  for a round ten followed by a unit other than `uno`/`otto` — the single number spelled by those words.

  * `PairsIt/Defs.lean`   — `fused`, `expected`, `norm`, `Da`, `W`;
  * `PairsIt/Tables.lean` — four kernel tables of 100 rows (one number each), none over pairs;
  * `PairsIt/Steps.lean`  — scanner steps (accepted / `Incomplete` / refused word, end of input);
  * this file             — the fate of the second word in the state left by the first one (`second_word`; for
                            `b ≥ 10` structurally: a two-digit `put` on a builder whose two low positions are not free
                            overlaps, `apply_big`), the main theorem `C08_pairs_it`, the speller side
                            `C08_fused_is_spelling_it`.
-/
import T2N.Lemmas.PairsIt.Tables
import T2N.Lemmas.PairsIt.Steps

set_option maxRecDepth 100000

namespace T2N.PairsIt
open T2N T2N.Spec
open T2N.EnExt (wt skipW pushWords)
open T2N.ExtIt (accOK_it)

/-! ## reading the tables -/

structure FirstFacts (n : Nat) : Prop where
  spell : std n = [W n]
  fresh : It.apply (W n) {} = (none, Da n)
  fmt : ∃ val, It.lang.formatW (Da n) = .ok (decChars n, val)
  ne : (Da n).isEmpty = false
  real : RealW It.lang (W n)

theorem firstFacts (n : Nat) (h : n < 100) : FirstFacts n := by
  have hr := rowA_all n h
  unfold rowA at hr
  simp only [Bool.and_eq_true, beq_iff_eq, Bool.not_eq_true'] at hr
  obtain ⟨⟨⟨h1, h2⟩, h3⟩, h4⟩ := hr
  exact ⟨h1, h2, fmtOk_spec _ _ h3, h4, accOK_it (W n) {} (by
    show ExtIt.Acc (It.apply (W n) {}).1
    rw [h2]; exact Or.inl rfl)⟩

theorem real_conj : RealW It.lang Spec.It.conj := ⟨by decide, by decide⟩

structure StateFacts (a : Nat) : Prop where
  shape : shapeOk (Da a) = true
  rej018 : ∀ d, d = 0 ∨ d = 1 ∨ d = 8 → ∃ er, er ≠ Err.incomplete ∧ It.apply (W d) (Da a) = (some er, Da a)
  unit : ∀ d, d = 2 ∨ d = 3 ∨ d = 4 ∨ d = 5 ∨ d = 6 ∨ d = 7 ∨ d = 9 →
    (isTen a = true → It.apply (W d) (Da a) = (none, Da (a + d))) ∧
    (isTen a = false → ∃ er, er ≠ Err.incomplete ∧ It.apply (W d) (Da a) = (some er, Da a))
  conjHi : 10 ≤ a → It.apply Spec.It.conj (Da a) = (some .incomplete, Da a)
  conjLo : a < 10 → ∃ er, er ≠ Err.incomplete ∧ It.apply Spec.It.conj (Da a) = (some er, Da a)

theorem stateFacts (a : Nat) (h0 : 1 ≤ a) (h : a < 100) : StateFacts a := by
  have hr := rowS_all a h0 h
  unfold rowS at hr
  simp only [Bool.and_eq_true, List.all_eq_true] at hr
  obtain ⟨⟨⟨h1, h2⟩, h3⟩, h4⟩ := hr
  refine ⟨h1, ?_, ?_, ?_, ?_⟩
  · intro d hd
    exact isRej_spec _ _ (h2 d (by rcases hd with rfl | rfl | rfl <;> simp))
  · intro d hd
    have := h3 d (by rcases hd with rfl | rfl | rfl | rfl | rfl | rfl | rfl <;> simp)
    constructor
    · intro ht
      rw [if_pos ht] at this
      exact beq_iff_eq.mp this
    · intro ht
      rw [if_neg (by rw [ht]; exact Bool.false_ne_true)] at this
      exact isRej_spec _ _ this
  · intro ha
    rw [if_pos ha] at h4
    exact beq_iff_eq.mp h4
  · intro ha
    rw [if_neg (by omega)] at h4
    exact isRej_spec _ _ h4

/-! ## a two-digit word on a builder whose two low positions are not free -/

theorem put_overlap (D : DS) (hs : shapeOk D = true) (t u : Nat) (ht : t ≠ 0) :
    D.put [t, u] = (some .overlap, D) := by
  unfold shapeOk at hs
  simp only [Bool.and_eq_true, Bool.not_eq_true', Bool.or_eq_true, decide_eq_true_eq] at hs
  obtain ⟨⟨hf, hne⟩, hlow⟩ := hs
  have hz : allZero [t, u] = false := by simp [allZero, ht]
  unfold DS.put
  rw [hf, if_neg Bool.false_ne_true, hne, Bool.false_and, if_neg Bool.false_ne_true, hz,
    if_neg Bool.false_ne_true, if_neg Bool.false_ne_true]
  by_cases hl : D.rbuf.length < [t, u].length
  · rw [if_pos hl]
  · rw [if_neg hl]
    rcases hlow with hlow | hlow
    · exact absurd hlow hl
    · have : [t, u].length = 2 := rfl
      rw [this, hlow, if_neg Bool.false_ne_true]

theorem Da_big (b : Nat) (h0 : 10 ≤ b) : Da b = { rbuf := [b % 10, b / 10] } := by
  unfold Da
  rw [if_neg (by omega), if_neg (by omega)]

theorem merge_overlap (D : DS) (hs : shapeOk D = true) (b : Nat) (h0 : 10 ≤ b) (mk : Marker) :
    mergeGroup D (Da b) false mk = (some .overlap, D) := by
  rw [Da_big b h0]
  unfold mergeGroup
  have hlen : ({ rbuf := [b % 10, b / 10] } : DS).len = 2 := rfl
  have hrev : ({ rbuf := [b % 10, b / 10] } : DS).rbuf.reverse = [b / 10, b % 10] := rfl
  rw [hlen, hrev, put_overlap D hs _ _ (by omega)]
  simp

/-- **the word of a number `10 ≤ b < 100` is refused (`Overlap`) wherever two digits cannot be put** -/
theorem apply_big (D : DS) (hs : shapeOk D = true) (b : Nat) (h0 : 10 ≤ b) (h : b < 100) :
    It.apply (W b) D = (some .overlap, D) := by
  have hr := rowB_all b h0 h
  unfold rowB at hr
  rw [Bool.and_eq_true] at hr
  obtain ⟨hlem, hif⟩ := hr
  have hlem' := C01It.lemOk_eq hlem
  by_cases hsp : isSplittable It.patterns (W b) = true
  · rw [if_pos hsp] at hif
    have hex := subOk_spec _ _ hif
    unfold It.apply
    rw [It.applyFuel]
    dsimp only
    rw [hlem', if_pos hsp, hex]
    dsimp only
    exact merge_overlap D hs b h0 _
  · rw [if_neg hsp] at hif
    simp only [Bool.and_eq_true, Bool.not_eq_true'] at hif
    have hp : C01It.Plain (W b) (.put [b / 10, b % 10]) :=
      ⟨hlem', by simpa using hsp, hif.1, isPut_spec _ _ hif.2⟩
    unfold It.apply
    rw [C01It.applyFuel_plain 1 _ _ D hp]
    simp only [Act.exec]
    rw [put_overlap D hs _ _ (by omega)]

/-! ## the fate of the second word -/

theorem isTen_mem (a : Nat) (h : a < 100) : isTen a = true ↔ a ∈ [20, 30, 40, 50, 60, 70, 80, 90] := by
  unfold isTen
  simp only [Bool.and_eq_true, decide_eq_true_eq, beq_iff_eq, List.mem_cons, List.mem_nil_iff, or_false]
  omega

theorem unit_mem (b : Nat) :
    (b = 2 ∨ b = 3 ∨ b = 4 ∨ b = 5 ∨ b = 6 ∨ b = 7 ∨ b = 9) ↔ b ∈ [2, 3, 4, 5, 6, 7, 9] := by
  simp only [List.mem_cons, List.mem_nil_iff, or_false]

/-- in the state left by `a ≥ 1`, the word of `b` is accepted exactly when `fused` says so; otherwise it is refused
with an error other than `Incomplete` and the builder is untouched -/
theorem second_word (a b : Nat) (cj : Bool) (ha0 : 1 ≤ a) (ha : a < 100) (hb : b < 100) :
    (fused a b cj = some (a + b) ∧ a + b < 100 ∧ It.apply (W b) (Da a) = (none, Da (a + b))) ∨
    (fused a b cj = none ∧ ∃ er, er ≠ Err.incomplete ∧ It.apply (W b) (Da a) = (some er, Da a)) := by
  have S := stateFacts a ha0 ha
  by_cases hb10 : 10 ≤ b
  · right
    refine ⟨?_, .overlap, by decide, apply_big _ S.shape b hb10 hb⟩
    unfold fused
    rw [if_neg]
    intro hc
    have := (unit_mem b).mpr hc.2
    omega
  · by_cases hu : b = 2 ∨ b = 3 ∨ b = 4 ∨ b = 5 ∨ b = 6 ∨ b = 7 ∨ b = 9
    · cases ht : isTen a with
      | true =>
        left
        have hm := (isTen_mem a ha).mp ht
        refine ⟨?_, ?_, (S.unit b hu).1 ht⟩
        · unfold fused
          rw [if_pos ⟨hm, (unit_mem b).mp hu⟩]
        · simp only [List.mem_cons, List.mem_nil_iff, or_false] at hm
          omega
      | false =>
        right
        refine ⟨?_, (S.unit b hu).2 ht⟩
        unfold fused
        rw [if_neg]
        intro hc
        have := (isTen_mem a ha).mpr hc.1
        rw [ht] at this
        cases this
    · right
      refine ⟨?_, S.rej018 b (by omega)⟩
      unfold fused
      rw [if_neg]
      intro hc
      exact hu ((unit_mem b).mpr hc.2)

/-! ## the scanner on the phrase -/

theorem pushWords_cons (cfg : ScanCfg) (s s' : Scanner) (i : Nat) (w : Word) (ws : List Word)
    (h : s.push cfg i (wt w) = .ok s') : pushWords cfg s i (w :: ws) = pushWords cfg s' (i + 2) ws := by
  rw [pushWords, h]

/-- the second number read on a fresh builder, then the end of the input -/
theorem tail_fresh (s : Scanner) (i : Nat) (q : List Word) (b : Nat) (hb : b < 100) (hs : SQ s {} q) :
    ∃ s' sf, pushWords (scanCfg It.lang zeroThr) s i [W b] = .ok s' ∧
      s'.finalize (scanCfg It.lang zeroThr) = .ok sf ∧ sf.tracker.queue.map (·.text) = q ++ [decChars b] := by
  have B := firstFacts b hb
  obtain ⟨val, hf⟩ := B.fmt
  obtain ⟨s1, e1, hs1⟩ := push_accept It.lang s i {} (Da b) q (W b) B.real hs B.fresh
  obtain ⟨sf, e2, hq⟩ := finalize_open It.lang s1 (Da b) q _ val hs1 B.ne hf
  exact ⟨s1, sf, by rw [pushWords_cons _ _ _ _ _ _ e1]; rfl, e2, hq⟩

/-- the second number read while `a ≥ 1` is open, then the end of the input -/
theorem tail_open (s : Scanner) (i : Nat) (a b : Nat) (cj : Bool) (ha0 : 1 ≤ a) (ha : a < 100) (hb : b < 100)
    (hs : SQ s (Da a) []) :
    ∃ s' sf, pushWords (scanCfg It.lang zeroThr) s i [W b] = .ok s' ∧
      s'.finalize (scanCfg It.lang zeroThr) = .ok sf ∧ sf.tracker.queue.map (·.text) = expected a b cj := by
  have A := firstFacts a ha
  have B := firstFacts b hb
  obtain ⟨vala, hfa⟩ := A.fmt
  obtain ⟨valb, hfb⟩ := B.fmt
  have hexp_none : fused a b cj = none → expected a b cj = [decChars a, decChars b] := by
    intro hn
    unfold expected
    rw [hn]
    dsimp only
    rw [if_neg (by omega)]
  rcases second_word a b cj ha0 ha hb with ⟨hfu, hlt, hap⟩ | ⟨hfu, er, her, hap⟩
  · have C := firstFacts (a + b) hlt
    obtain ⟨valc, hfc⟩ := C.fmt
    obtain ⟨s1, e1, hs1⟩ := push_accept It.lang s i (Da a) (Da (a + b)) [] (W b) B.real hs hap
    obtain ⟨sf, e2, hq⟩ := finalize_open It.lang s1 _ [] _ valc hs1 C.ne hfc
    refine ⟨s1, sf, by rw [pushWords_cons _ _ _ _ _ _ e1]; rfl, e2, ?_⟩
    rw [hq]
    unfold expected
    rw [hfu]
    rfl
  · obtain ⟨s1, e1, hs1⟩ := push_reject It.lang s i (Da a) [] _ vala (W b) er (none, Da b) her B.real hs A.ne hfa hap
      B.fresh (Or.inl rfl)
    obtain ⟨sf, e2, hq⟩ := finalize_open It.lang s1 (Da b) _ _ valb hs1 B.ne hfb
    refine ⟨s1, sf, by rw [pushWords_cons _ _ _ _ _ _ e1]; rfl, e2, ?_⟩
    rw [hq, hexp_none hfu]
    rfl

theorem fused_small (a b : Nat) (cj : Bool) (ha : a < 10) : fused a b cj = none := by
  unfold fused
  rw [if_neg]
  intro hc
  have h := hc.1
  simp only [List.mem_cons, List.mem_nil_iff, or_false] at h
  omega

theorem decChars_zero : decChars 0 = ['0'] := by decide +kernel

/-- **C08, pairs (it)**: for all `a, b < 100` and both joiners the scanner (threshold 0) finds `expected a b cj` in
`std a ++ joiner ++ std b` -/
theorem C08_pairs_it (a b : Nat) (ha : a < 100) (hb : b < 100) (cj : Bool) :
    occTexts It.lang zeroThr (std a ++ (if cj then [Spec.It.conj] else []) ++ std b) = some (expected a b cj) := by
  have A := firstFacts a ha
  have B := firstFacts b hb
  obtain ⟨vala, hfa⟩ := A.fmt
  rw [A.spell, B.spell]
  by_cases ha0 : a = 0
  · subst ha0
    have hW0 : W 0 = Spec.It.zeroWord := by decide
    cases cj with
    | false =>
      have hexp : expected 0 b false = ['0' :: decChars b] := by
        unfold expected
        rw [fused_small 0 b false (by decide)]
        dsimp only
        rw [if_pos ⟨rfl, rfl⟩]
      rw [hexp, if_neg Bool.false_ne_true, List.append_nil, hW0]
      by_cases hb0 : b = 0
      · subst hb0
        rw [hW0, decChars_zero]
        exact ExtIt.C16_zeros_only_scan_it 2 (by decide)
      · have := ExtIt.C16_scan_it (fun _ => 0) 1 b (by omega) (by omega)
        have hs : Spec.It.cardinal (fun _ => 0) b = [W b] := B.spell
        rw [hs] at this
        exact this
    | true =>
      have hexp : expected 0 b true = [decChars 0, decChars b] := by
        unfold expected
        rw [fused_small 0 b true (by decide)]
        dsimp only
        rw [if_neg (by simp)]
      rw [hexp, if_pos rfl]
      obtain ⟨s1, e1, hs1⟩ := push_accept It.lang {} 0 {} (Da 0) [] (W 0) A.real SQ_init A.fresh
      obtain ⟨s2, e2, hs2⟩ := push_reject It.lang s1 2 (Da 0) [] _ vala Spec.It.conj .nan (some .nan, {})
        (by decide) real_conj hs1 A.ne hfa conj_zero conj_fresh (Or.inr rfl)
      obtain ⟨s3, sf, e3, e4, hq⟩ := tail_fresh s2 4 _ b hb hs2
      refine occTexts_of_run It.lang _ s3 sf _ ?_ e4 hq
      show pushWords _ {} 0 (W 0 :: Spec.It.conj :: [W b]) = _
      rw [pushWords_cons _ _ _ _ _ _ e1, pushWords_cons _ _ _ _ _ _ e2]
      exact e3
  · have ha1 : 1 ≤ a := by omega
    have S := stateFacts a ha1 ha
    obtain ⟨s1, e1, hs1⟩ := push_accept It.lang {} 0 {} (Da a) [] (W a) A.real SQ_init A.fresh
    cases cj with
    | false =>
      rw [if_neg Bool.false_ne_true, List.append_nil]
      obtain ⟨s2, sf, e2, e3, hq⟩ := tail_open s1 2 a b false ha1 ha hb hs1
      refine occTexts_of_run It.lang _ s2 sf _ ?_ e3 hq
      show pushWords _ {} 0 (W a :: [W b]) = _
      rw [pushWords_cons _ _ _ _ _ _ e1]
      exact e2
    | true =>
      rw [if_pos rfl]
      by_cases ha10 : 10 ≤ a
      · obtain ⟨s2, e2, hs2⟩ := push_incomplete It.lang s1 2 (Da a) (Da a) [] Spec.It.conj real_conj hs1 (S.conjHi ha10)
        obtain ⟨s3, sf, e3, e4, hq⟩ := tail_open s2 4 a b true ha1 ha hb hs2
        refine occTexts_of_run It.lang _ s3 sf _ ?_ e4 hq
        show pushWords _ {} 0 (W a :: Spec.It.conj :: [W b]) = _
        rw [pushWords_cons _ _ _ _ _ _ e1, pushWords_cons _ _ _ _ _ _ e2]
        exact e3
      · obtain ⟨er, her, hap⟩ := S.conjLo (by omega)
        obtain ⟨s2, e2, hs2⟩ := push_reject It.lang s1 2 (Da a) [] _ vala Spec.It.conj er (some .nan, {})
          her real_conj hs1 A.ne hfa hap conj_fresh (Or.inr rfl)
        obtain ⟨s3, sf, e3, e4, hq⟩ := tail_fresh s2 4 _ b hb hs2
        have hexp : expected a b true = [decChars a, decChars b] := by
          unfold expected
          rw [fused_small a b true (by omega)]
          dsimp only
          rw [if_neg (by simp)]
        rw [hexp]
        refine occTexts_of_run It.lang _ s3 sf _ ?_ e4 hq
        show pushWords _ {} 0 (W a :: Spec.It.conj :: [W b]) = _
        rw [pushWords_cons _ _ _ _ _ _ e1, pushWords_cons _ _ _ _ _ _ e2]
        exact e3

/-- the same statement on the named phrase -/
theorem C08_pairs_it' (a b : Nat) (ha : a < 100) (hb : b < 100) (cj : Bool) :
    occTexts It.lang zeroThr (phrase a b cj) = some (expected a b cj) := C08_pairs_it a b ha hb cj

/-! ## `fused` against the speller -/

/-- whenever `fused` answers `c`, the words of `a` and `b` are the spelling of `c` under the variant `tableVar 2`
(split level 3: `venti due`), up to the conjunction -/
theorem fused_spelling (a b c : Nat) (cj : Bool) (h : fused a b cj = some c) :
    norm (Spec.It.cardinal (tableVar 2) c) = norm (std a ++ std b) := by
  have hab : a < 100 ∧ b < 100 := by
    unfold fused at h
    by_cases hc : a ∈ [20, 30, 40, 50, 60, 70, 80, 90] ∧ b ∈ [2, 3, 4, 5, 6, 7, 9]
    · obtain ⟨h1, h2⟩ := hc
      simp only [List.mem_cons, List.mem_nil_iff, or_false] at h1 h2
      omega
    · rw [if_neg hc] at h; cases h
  have hr := checkRange_spec _ 100 0 (rowF_all a hab.1) b (by omega) (by omega)
  have h' : fused a b false = some c := h
  rw [h'] at hr
  exact beq_iff_eq.mp hr

theorem norm_joiner (a b : Nat) (cj : Bool) : norm (phrase a b cj) = norm (std a ++ std b) := by
  unfold phrase joiner norm
  cases cj with
  | false => rw [if_neg Bool.false_ne_true, List.append_nil]
  | true =>
    rw [if_pos rfl, List.filter_append, List.filter_append, List.filter_append]
    have : List.filter (fun w => w != Spec.It.conj) [Spec.It.conj] = [] := by decide
    rw [this, List.append_nil]

/-- **C08, `fused` is a spelling (it)**: a fusion performed by the model is a variant spelling of the fused number -/
theorem C08_fused_is_spelling_it (a b c : Nat) (cj : Bool) (h : fused a b cj = some c) :
    ∃ k, k < 48 ∧ norm (Spec.It.cardinal (tableVar k) c) = norm (std a ++ std b) :=
  ⟨2, by decide, fused_spelling a b c cj h⟩

/-- the same with the joiner kept on the right-hand side (it is dropped by `norm`) -/
theorem C08_fused_is_spelling_it' (a b c : Nat) (cj : Bool) (h : fused a b cj = some c) :
    ∃ k, k < 48 ∧ norm (Spec.It.cardinal (tableVar k) c) = norm (phrase a b cj) :=
  ⟨2, by decide, by rw [norm_joiner]; exact fused_spelling a b c cj h⟩

/-- no other fusion: the output is a single number only when `fused` says so -/
theorem C08_no_other_fusion_it (a b : Nat) (ha : a < 100) (hb : b < 100) (cj : Bool) (h : fused a b cj = none) :
    occTexts It.lang zeroThr (phrase a b cj) =
      some (if a = 0 ∧ cj = false then ['0' :: decChars b] else [decChars a, decChars b]) := by
  rw [C08_pairs_it' a b ha hb cj]
  unfold expected
  rw [h]

/-- the property in its "element of" form: both numbers in order, or the leading-zero reading of a spoken `zero`,
or the single number `c` that `fused` names (which `C08_fused_is_spelling_it` shows to be spelled by those words) -/
theorem C08_pairs_shape_it (a b : Nat) (ha : a < 100) (hb : b < 100) (cj : Bool) :
    occTexts It.lang zeroThr (phrase a b cj) = some [decChars a, decChars b] ∨
    (a = 0 ∧ cj = false ∧ occTexts It.lang zeroThr (phrase a b cj) = some ['0' :: decChars b]) ∨
    (∃ c, fused a b cj = some c ∧ occTexts It.lang zeroThr (phrase a b cj) = some [decChars c]) := by
  have h := C08_pairs_it' a b ha hb cj
  unfold expected at h
  cases hf : fused a b cj with
  | some c => rw [hf] at h; exact Or.inr (Or.inr ⟨c, rfl, h⟩)
  | none =>
    rw [hf] at h
    dsimp only at h
    by_cases hc : a = 0 ∧ cj = false
    · rw [if_pos hc] at h; exact Or.inr (Or.inl ⟨hc.1, hc.2, h⟩)
    · rw [if_neg hc] at h; exact Or.inl h

/-! ## instances -/

/-- instantiation on a literal phrase (the two side conditions are closed by `decide +kernel`) -/
theorem pairs_inst (a b : Nat) (cj : Bool) (ws out : List Word) (ha : a < 100) (hb : b < 100)
    (h1 : phrase a b cj = ws) (h2 : expected a b cj = out) : occTexts It.lang zeroThr ws = some out := by
  rw [← h1, ← h2]; exact C08_pairs_it' a b ha hb cj

/-- `venti dodici` ↦ `20 12` (never 32) -/
example : occTexts It.lang zeroThr [w!"venti", w!"dodici"] = some [w!"20", w!"12"] :=
  pairs_inst 20 12 false _ _ (by decide) (by decide) (by decide +kernel) (by decide +kernel)
/-- `venti due` ↦ `22`; `venti e due` ↦ `22` -/
example : occTexts It.lang zeroThr [w!"venti", w!"due"] = some [w!"22"] :=
  pairs_inst 20 2 false _ _ (by decide) (by decide) (by decide +kernel) (by decide +kernel)
example : occTexts It.lang zeroThr [w!"venti", w!"e", w!"due"] = some [w!"22"] :=
  pairs_inst 20 2 true _ _ (by decide) (by decide) (by decide +kernel) (by decide +kernel)
/-- `venti uno` ↦ `20 1` (the standard form is `ventuno`) -/
example : occTexts It.lang zeroThr [w!"venti", w!"uno"] = some [w!"20", w!"1"] :=
  pairs_inst 20 1 false _ _ (by decide) (by decide) (by decide +kernel) (by decide +kernel)
/-- `zero sette` ↦ `07`, `zero e sette` ↦ `0 7`, `ventidue e trentatré` ↦ `22 33` -/
example : occTexts It.lang zeroThr [w!"zero", w!"sette"] = some [w!"07"] :=
  pairs_inst 0 7 false _ _ (by decide) (by decide) (by decide +kernel) (by decide +kernel)
example : occTexts It.lang zeroThr [w!"zero", w!"e", w!"sette"] = some [w!"0", w!"7"] :=
  pairs_inst 0 7 true _ _ (by decide) (by decide) (by decide +kernel) (by decide +kernel)
example : occTexts It.lang zeroThr [w!"ventidue", w!"e", w!"trentatré"] = some [w!"22", w!"33"] :=
  pairs_inst 22 33 true _ _ (by decide) (by decide) (by decide +kernel) (by decide +kernel)

end T2N.PairsIt
