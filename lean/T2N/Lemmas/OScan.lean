/-
  T2N.Lemmas.OScan — scanner-level lemmas for C18 (the English word `o`).

  1. `o` and `zero` are indistinguishable to the English interpreter (`langEq_o_zero`), so a token whose word
     is `o` and the same token with the word `zero` are `TokRel`-related (`tokRel_o_zero`).
  2. A token hinted "not part of a number" (`nan`) and an un-hinted token whose word is refused in every
     parser state without changing the parser (`AtomRej`) drive the scanner to the same states, up to the
     remembered previous token — which is never consulted while no number is open (`push_nanWord`,
     `pushAll_sim`, `findNumbers_nanWord`).
  3. Both substitutions at once: `findNumbers_osubst`.
-/
import T2N.Lemmas.Congr
import T2N.Lemmas.Reset
import T2N.Props.C07
import T2N.Props.C10
import T2N.Props.C18

namespace T2N.OScan
open T2N

/-! ### 1. `o` is `zero` -/

theorem langEq_o_zero : LangEq En.lang ['o'] w!"zero" :=
  ⟨fun _ => rfl, fun _ => rfl, rfl⟩

theorem isLinking_o : En.lang.isLinking ['o'] = false := by decide
theorem isLinking_zero : En.lang.isLinking w!"zero" = false := by decide

/-- two tokens look the same to the scanner: both skipped or none, and the same "contains a letter / is a lone
full stop" verdict.  A token is skipped when it is NOT hinted and its text is the lone `-` or all white space, so for
two tokens with the same hint this is a condition on their texts; for a hinted token against an un-hinted one it says
that the un-hinted one is not skipped (a hinted token never is: `isSkipped_of_nan`). -/
def SameLook (cfg : ScanCfg) (a b : Tok) : Prop :=
  Scanner.isSkipped cfg a = Scanner.isSkipped cfg b ∧
  (a.text.all (fun c => !cfg.cc.isAlphabetic c) && cfg.cc.trim a.text != ['.']) =
    (b.text.all (fun c => !cfg.cc.isAlphabetic c) && cfg.cc.trim b.text != ['.'])

theorem SameLook.refl (cfg : ScanCfg) (a : Tok) : SameLook cfg a a := ⟨rfl, rfl⟩

theorem SameLook.of_text (cfg : ScanCfg) {a b : Tok} (h : a.text = b.text) (hn : a.nan = b.nan) :
    SameLook cfg a b := by
  unfold SameLook Scanner.isSkipped; rw [h, hn]; exact ⟨rfl, rfl⟩

/-- a hinted token is never skipped -/
theorem isSkipped_of_nan (cfg : ScanCfg) {a : Tok} (h : a.nan = true) : Scanner.isSkipped cfg a = false := by
  unfold Scanner.isSkipped; rw [h]; rfl

/-- a hinted token against an un-skipped token with the same text -/
theorem SameLook.of_text_hinted (cfg : ScanCfg) {a b : Tok} (h : a.text = b.text) (ha : a.nan = true)
    (hb : Scanner.isSkipped cfg b = false) : SameLook cfg a b := by
  refine ⟨(isSkipped_of_nan cfg ha).trans hb.symm, ?_⟩
  rw [h]

/-- … and that is all `SameLook` says about skipping in that case -/
theorem SameLook.unskipped_of_hinted (cfg : ScanCfg) {a b : Tok} (h : SameLook cfg a b) (ha : a.nan = true) :
    Scanner.isSkipped cfg b = false := h.1.symm.trans (isSkipped_of_nan cfg ha)

theorem breaks_of_sameLook (cfg : ScanCfg) {a b : Tok} (h : SameLook cfg a b)
    (hl : cfg.lang.isLinking a.lower = cfg.lang.isLinking b.lower) : breaks cfg a = breaks cfg b := by
  unfold breaks; rw [h.2, hl]

/-- an un-hinted `o` token and any un-hinted token with the same look whose word is `zero` -/
theorem tokRel_o_zero (cfg : ScanCfg) (hc : cfg.lang = En.lang) {a b : Tok} (ha : a.lower = ['o'])
    (hb : b.lower = w!"zero") (hn : a.nan = b.nan) (hlook : SameLook cfg a b) : TokRel cfg a b := by
  refine ⟨hlook.1, hn, ?_, ?_⟩
  · rw [hc, ha, hb]; exact langEq_o_zero
  · apply breaks_of_sameLook cfg hlook
    rw [hc, ha, hb, isLinking_o, isLinking_zero]

/-! ### 2. a hinted token against a word that is refused everywhere -/

/-- the parser refuses the word in every state with an error other than `Incomplete`, and is left as it was -/
def AtomRej (l : Lang) (w : Word) : Prop :=
  ∀ p : Parser, ∃ e, p.push l w = (some e, p) ∧ e ≠ Err.incomplete

/-- English: refusal is atomic, so every word refused everywhere is atomically refused -/
theorem en_applyDecimal_atomic (w : Word) (b : DS) (e : Err) (h : (En.applyDecimal w b).1 = some e) :
    (En.applyDecimal w b).2 = b := by
  unfold En.applyDecimal at h ⊢
  cases hl : En.decVocab.lookup w with
  | none => rfl
  | some d => rw [hl] at h; exact push_atomic b [d] e h

theorem en_atomRej (w : Word) (h : En.lang.Rejects w) : AtomRej En.lang w := by
  intro p
  obtain ⟨e, he, hne⟩ := h p
  refine ⟨e, ?_, hne⟩
  unfold Parser.push at he ⊢
  by_cases hd : p.isDec = true
  · rw [if_pos hd] at he ⊢
    have hat : ∀ e', (En.lang.applyDecimal w p.dec).1 = some e' → (En.lang.applyDecimal w p.dec).2 = p.dec :=
      fun e' h' => en_applyDecimal_atomic w p.dec e' h'
    cases hap : En.lang.applyDecimal w p.dec with
    | mk r d =>
      rw [hap] at he hat
      dsimp only at he hat ⊢
      cases r with
      | none => simp at he
      | some e' =>
        have hdd := hat e' rfl
        subst hdd
        have hc : (Option.isSome (some e') && !p.isDec && !p.int.isEmpty && p.int.marker.isNone &&
            En.lang.isDecSep w) = false := by simp [hd]
        rw [hc] at he ⊢
        simp only [Bool.false_eq_true, if_false] at he ⊢
        cases he; rfl
  · rw [if_neg hd] at he ⊢
    have hat : ∀ e', (En.lang.apply w p.int).1 = some e' → (En.lang.apply w p.int).2 = p.int :=
      fun e' h' => C07.C07_apply_atomic_en w p.int e' h'
    cases hap : En.lang.apply w p.int with
    | mk r d =>
      rw [hap] at he hat
      dsimp only at he hat ⊢
      cases r with
      | none => simp at he
      | some e' =>
        have hdd := hat e' rfl
        subst hdd
        by_cases hc : (Option.isSome (some e') && !p.isDec && !p.int.isEmpty && p.int.marker.isNone &&
            En.lang.isDecSep w) = true
        · rw [if_pos hc] at he; cases he; exact absurd rfl hne
        · rw [if_neg hc] at he ⊢; cases he; rfl


/-- scanner states that agree on everything but the remembered previous token, which may differ while no
number is open (it is consulted only when a number is open) -/
def Sim (s s' : Scanner) : Prop :=
  s.parser = s'.parser ∧ s.tracker = s'.tracker ∧ (s.parser.hasNumber = true → s.previous = s'.previous)

theorem Sim.refl (s : Scanner) : Sim s s := ⟨rfl, rfl, fun _ => rfl⟩

def SimRes : Except Fault Scanner → Except Fault Scanner → Prop
  | .ok t, .ok t' => Sim t t'
  | .error f, .error f' => f = f'
  | _, _ => False

theorem testWord_sim (cfg : ScanCfg) {s s' : Scanner} (h : Sim s s') (tok : Tok) :
    Scanner.testWord cfg s tok = Scanner.testWord cfg s' tok := by
  obtain ⟨hp, _, hprev⟩ := h
  by_cases hn : s.parser.hasNumber = true
  · unfold Scanner.testWord; rw [← hprev hn, ← hp]
  · have hn1 : s.parser.hasNumber = false := by simpa using hn
    rw [testWord_idle cfg s tok hn1, testWord_idle cfg s' tok (by rw [← hp]; exact hn1)]

/-- the part of `number_end` / `outside_number` that does not depend on the remembered token -/
theorem numberEnd_sim (cfg : ScanCfg) {s s' : Scanner} (hp : s.parser = s'.parser) (ht : s.tracker = s'.tracker) :
    (match s.numberEnd cfg, s'.numberEnd cfg with
     | .ok t, .ok t' => t.parser = {} ∧ t'.parser = {} ∧ t.tracker = t'.tracker
     | .error f, .error f' => f = f'
     | _, _ => False) := by
  unfold Scanner.numberEnd
  rw [hp, ht]
  cases s'.parser.finish cfg.lang with
  | error f => rfl
  | ok r => exact ⟨rfl, rfl, rfl⟩

theorem outside_parser' (cfg : ScanCfg) (s : Scanner) (tok : Tok) : (s.outside cfg tok).parser = s.parser := by
  rw [outside_eq]; split <;> rfl

theorem outside_tracker (cfg : ScanCfg) (s : Scanner) (tok : Tok) :
    (s.outside cfg tok).tracker = if breaks cfg tok then s.tracker.breaker else s.tracker := by
  rw [outside_eq]; split <;> rfl

theorem hasNumber_new : ({} : Parser).hasNumber = false := by decide

/-- `push` of a hinted token: the state after it -/
theorem pushNan_sim (cfg : ScanCfg) {s s' : Scanner} (h : Sim s s') {a b : Tok}
    (hbr : breaks cfg a = breaks cfg b) :
    SimRes (Scanner.pushNan cfg s a) (Scanner.pushNan cfg s' b) ∧
      ∀ t, Scanner.pushNan cfg s a = .ok t → t.parser.hasNumber = false := by
  obtain ⟨hp, ht, _⟩ := h
  unfold Scanner.pushNan
  rw [← hp]
  by_cases hn : s.parser.hasNumber = true
  · simp only [hn, if_true]
    have h1 := numberEnd_sim cfg hp ht
    cases e1 : s.numberEnd cfg with
    | error f =>
      cases e2 : s'.numberEnd cfg with
      | error f' => rw [e1, e2] at h1; exact ⟨h1, fun t ht => by cases ht⟩
      | ok t' => rw [e1, e2] at h1; cases h1
    | ok t =>
      cases e2 : s'.numberEnd cfg with
      | error f' => rw [e1, e2] at h1; cases h1
      | ok t' =>
        rw [e1, e2] at h1
        obtain ⟨q1, q2, q3⟩ := h1
        have hh : (t.outside cfg a).parser.hasNumber = false := by rw [outside_parser', q1]; rfl
        refine ⟨⟨?_, ?_, ?_⟩, ?_⟩
        · show (t.outside cfg a).parser = (t'.outside cfg b).parser
          rw [outside_parser', outside_parser', q1, q2]
        · show (t.outside cfg a).tracker = (t'.outside cfg b).tracker
          rw [outside_tracker, outside_tracker, q3, hbr]
        · intro hc
          have : (t.outside cfg a).parser.hasNumber = true := hc
          rw [hh] at this; cases this
        · intro u hu; cases hu; exact hh
  · have hn1 : s.parser.hasNumber = false := by simpa using hn
    simp only [hn1, Bool.false_eq_true, if_false]
    have hh : (s.outside cfg a).parser.hasNumber = false := by rw [outside_parser']; exact hn1
    refine ⟨⟨?_, ?_, ?_⟩, ?_⟩
    · show (s.outside cfg a).parser = (s'.outside cfg b).parser
      rw [outside_parser', outside_parser', hp]
    · show (s.outside cfg a).tracker = (s'.outside cfg b).tracker
      rw [outside_tracker, outside_tracker, ht, hbr]
    · intro hc
      have : (s.outside cfg a).parser.hasNumber = true := hc
      rw [hh] at this; cases this
    · intro u hu; cases hu; exact hh


/-- the word handed to the parser is refused atomically: the token's own word is, and so is the forced stop
`","` unless the token never declares itself separated -/
def WordRefused (cfg : ScanCfg) (b : Tok) : Prop :=
  AtomRej cfg.lang b.lower ∧ ((∀ prev, cfg.sep b prev = false) ∨ AtomRej cfg.lang [','])

/-- **an un-hinted token whose word is refused everywhere is treated exactly like a hinted token** -/
theorem pushRejected_eq_pushNan (cfg : ScanCfg) (s : Scanner) (pos : Nat) (b : Tok)
    (hr : AtomRej cfg.lang b.lower) : Scanner.pushRejected cfg s pos b = Scanner.pushNan cfg s b := by
  unfold Scanner.pushRejected Scanner.pushNan
  by_cases hn : s.parser.hasNumber = true
  · rw [if_pos hn, if_pos hn]
    cases s.numberEnd cfg with
    | error f => rfl
    | ok s1 =>
      dsimp only
      obtain ⟨e, he, hne⟩ := hr s1.parser
      rw [he]
      cases e with
      | incomplete => exact absurd rfl hne
      | overlap => rfl
      | nan => rfl
      | frozen => rfl
  · rw [if_neg hn, if_neg hn]

theorem push_refused_eq_pushNan (cfg : ScanCfg) (s : Scanner) (pos : Nat) (b : Tok)
    (hsk : Scanner.isSkipped cfg b = false) (hnan : b.nan = false) (hr : WordRefused cfg b) :
    s.push cfg pos b = Scanner.pushNan cfg s b := by
  unfold Scanner.push
  rw [hsk, hnan]
  simp only [Bool.false_eq_true, if_false]
  have hw : AtomRej cfg.lang (Scanner.testWord cfg s b) := by
    cases testWord_cases_reset cfg s b with
    | inl h => rw [h]; exact hr.1
    | inr h =>
      rw [h.1]
      obtain ⟨prev, hprev⟩ := h.2
      cases hr.2 with
      | inl h0 => rw [h0 prev] at hprev; cases hprev
      | inr h1 => exact h1
  obtain ⟨e, he, hne⟩ := hw s.parser
  rw [he]
  dsimp only
  have hs : ({ s with parser := s.parser } : Scanner) = s := rfl
  rw [hs]
  cases e with
  | incomplete => exact absurd rfl hne
  | overlap => exact pushRejected_eq_pushNan cfg s pos b hr.1
  | nan => exact pushRejected_eq_pushNan cfg s pos b hr.1
  | frozen => exact pushRejected_eq_pushNan cfg s pos b hr.1

theorem push_nan_eq (cfg : ScanCfg) (s : Scanner) (pos : Nat) (a : Tok)
    (hsk : Scanner.isSkipped cfg a = false) (hnan : a.nan = true) :
    s.push cfg pos a = Scanner.pushNan cfg s a := by
  unfold Scanner.push
  rw [hsk, hnan]
  simp

/-- the relation between a hinted token and its un-hinted stand-in -/
structure NanWord (cfg : ScanCfg) (a b : Tok) : Prop where
  skipped : Scanner.isSkipped cfg a = Scanner.isSkipped cfg b
  breaks : breaks cfg a = breaks cfg b
  nanA : a.nan = true
  nanB : b.nan = false
  refused : WordRefused cfg b

/-- the hinted token is never skipped, so `skipped` says that the stand-in is not skipped either -/
theorem NanWord.unskipped {cfg : ScanCfg} {a b : Tok} (h : NanWord cfg a b) : Scanner.isSkipped cfg b = false :=
  h.skipped.symm.trans (isSkipped_of_nan cfg h.nanA)

theorem push_nanWord (cfg : ScanCfg) {s s' : Scanner} (h : Sim s s') (pos : Nat) {a b : Tok}
    (hab : NanWord cfg a b) : SimRes (s.push cfg pos a) (s'.push cfg pos b) := by
  by_cases hsk : Scanner.isSkipped cfg b = true
  · have hska := hab.skipped.trans hsk
    unfold Scanner.push
    rw [if_pos hsk, if_pos hska]
    exact h
  · have hskb : Scanner.isSkipped cfg b = false := by simpa using hsk
    rw [push_nan_eq cfg s pos a (hab.skipped.trans hskb) hab.nanA,
      push_refused_eq_pushNan cfg s' pos b hskb hab.nanB hab.refused]
    exact (pushNan_sim cfg h hab.breaks).1

theorem pushRejected_sim (cfg : ScanCfg) {s s' : Scanner} (hp : s.parser = s'.parser)
    (ht : s.tracker = s'.tracker) (pos : Nat) (tok : Tok) :
    SimRes (Scanner.pushRejected cfg s pos tok) (Scanner.pushRejected cfg s' pos tok) := by
  unfold Scanner.pushRejected
  rw [← hp]
  by_cases hn : s.parser.hasNumber = true
  · rw [if_pos hn, if_pos hn]
    have h1 := numberEnd_sim cfg hp ht
    cases e1 : s.numberEnd cfg with
    | error f =>
      cases e2 : s'.numberEnd cfg with
      | error f' => rw [e1, e2] at h1; exact h1
      | ok t' => rw [e1, e2] at h1; cases h1
    | ok t =>
      cases e2 : s'.numberEnd cfg with
      | error f' => rw [e1, e2] at h1; cases h1
      | ok t' =>
        rw [e1, e2] at h1
        obtain ⟨q1, q2, q3⟩ := h1
        dsimp only
        rw [q1, q2]
        split
        · exact ⟨rfl, by simp [q3], fun _ => rfl⟩
        · split
          · exact ⟨rfl, q3, fun _ => rfl⟩
          · refine ⟨?_, ?_, fun _ => rfl⟩
            · show (Scanner.outside cfg _ tok).parser = (Scanner.outside cfg _ tok).parser
              rw [outside_parser', outside_parser']
            · show (Scanner.outside cfg _ tok).tracker = (Scanner.outside cfg _ tok).tracker
              rw [outside_tracker, outside_tracker]
              show (if breaks cfg tok = true then t.tracker.breaker else t.tracker) = _
              rw [q3]
  · rw [if_neg hn, if_neg hn]
    refine ⟨?_, ?_, fun _ => rfl⟩
    · show (s.outside cfg tok).parser = (s'.outside cfg tok).parser
      rw [outside_parser', outside_parser', hp]
    · show (s.outside cfg tok).tracker = (s'.outside cfg tok).tracker
      rw [outside_tracker, outside_tracker, ht]

/-- the same token pushed in two similar states -/
theorem push_same (cfg : ScanCfg) {s s' : Scanner} (h : Sim s s') (pos : Nat) (tok : Tok) :
    SimRes (s.push cfg pos tok) (s'.push cfg pos tok) := by
  have htw := testWord_sim cfg h tok
  obtain ⟨hp, ht, hprev⟩ := h
  unfold Scanner.push
  by_cases hsk : Scanner.isSkipped cfg tok = true
  · rw [if_pos hsk, if_pos hsk]; exact ⟨hp, ht, hprev⟩
  rw [if_neg hsk, if_neg hsk]
  by_cases hnan : tok.nan = true
  · rw [if_pos hnan, if_pos hnan]; exact (pushNan_sim cfg ⟨hp, ht, hprev⟩ rfl).1
  rw [if_neg hnan, if_neg hnan, htw, hp]
  dsimp only
  cases hr : (s'.parser.push cfg.lang (Scanner.testWord cfg s' tok)).1 with
  | none => exact ⟨rfl, by simp [ht], fun _ => rfl⟩
  | some e =>
    cases e with
    | incomplete => exact ⟨rfl, ht, fun _ => rfl⟩
    | overlap => exact pushRejected_sim cfg (s := { s with parser := (s'.parser.push cfg.lang (Scanner.testWord cfg s' tok)).2 }) (s' := { s' with parser := (s'.parser.push cfg.lang (Scanner.testWord cfg s' tok)).2 }) rfl ht pos tok
    | nan => exact pushRejected_sim cfg (s := { s with parser := (s'.parser.push cfg.lang (Scanner.testWord cfg s' tok)).2 }) (s' := { s' with parser := (s'.parser.push cfg.lang (Scanner.testWord cfg s' tok)).2 }) rfl ht pos tok
    | frozen => exact pushRejected_sim cfg (s := { s with parser := (s'.parser.push cfg.lang (Scanner.testWord cfg s' tok)).2 }) (s' := { s' with parser := (s'.parser.push cfg.lang (Scanner.testWord cfg s' tok)).2 }) rfl ht pos tok

/-- pointwise: equal tokens, or a hinted token against its stand-in -/
def EqOrNanWord (cfg : ScanCfg) (a b : Tok) : Prop := a = b ∨ NanWord cfg a b

theorem pushAll_sim (cfg : ScanCfg) :
    ∀ (as bs : List Tok) (pos : Nat) (s s' : Scanner), ListRel (EqOrNanWord cfg) as bs → Sim s s' →
      SimRes (Scanner.pushAll cfg s (enumFrom pos as)) (Scanner.pushAll cfg s' (enumFrom pos bs))
  | [], [], _, _, _, _, hs => hs
  | a :: as, b :: bs, pos, s, s', hl, hs => by
    simp only [enumFrom, Scanner.pushAll]
    have h1 : SimRes (s.push cfg pos a) (s'.push cfg pos b) := by
      cases hl.1 with
      | inl he => rw [he]; exact push_same cfg hs pos b
      | inr hn => exact push_nanWord cfg hs pos hn
    cases ha : s.push cfg pos a with
    | error f =>
      cases hb : s'.push cfg pos b with
      | error f' => rw [ha, hb] at h1; exact h1
      | ok t' => rw [ha, hb] at h1; cases h1
    | ok t =>
      cases hb : s'.push cfg pos b with
      | error f' => rw [ha, hb] at h1; cases h1
      | ok t' =>
        rw [ha, hb] at h1
        exact pushAll_sim cfg as bs (pos + 1) t t' hl.2 h1
  | [], _ :: _, _, _, _, hl, _ => by cases hl
  | _ :: _, [], _, _, _, hl, _ => by cases hl

/-- **hinted tokens against refused words**: replacing hinted tokens by un-hinted tokens of the same look
whose words are refused everywhere changes no occurrence, for any threshold and any separation relation -/
theorem findNumbers_nanWord (cfg : ScanCfg) (as bs : List Tok) (h : ListRel (EqOrNanWord cfg) as bs) :
    findNumbers cfg as = findNumbers cfg bs := by
  unfold findNumbers
  have h1 := pushAll_sim cfg as bs 0 {} {} h (Sim.refl _)
  cases ha : Scanner.pushAll cfg {} (enumFrom 0 as) with
  | error f =>
    cases hb : Scanner.pushAll cfg {} (enumFrom 0 bs) with
    | error f' => rw [ha, hb] at h1; simp only [SimRes] at h1; rw [h1]
    | ok t' => rw [ha, hb] at h1; cases h1
  | ok t =>
    cases hb : Scanner.pushAll cfg {} (enumFrom 0 bs) with
    | error f' => rw [ha, hb] at h1; cases h1
    | ok t' =>
      rw [ha, hb] at h1
      obtain ⟨hp, ht, _⟩ := h1
      dsimp only
      unfold Scanner.finalize Scanner.numberEnd
      rw [hp, ht]
      cases t'.parser.hasNumber
      · simp [ht]
      · cases t'.parser.finish cfg.lang <;> simp


/-! ### 3. both substitutions at once -/

theorem tokRel_refl (cfg : ScanCfg) (a : Tok) : TokRel cfg a a := ⟨rfl, rfl, LangEq.refl _ _, rfl⟩

/-- pointwise: indistinguishable tokens, or a hinted token against its un-hinted stand-in -/
def OSubst (cfg : ScanCfg) (a b : Tok) : Prop := TokRel cfg a b ∨ NanWord cfg a b

theorem osubst_mid (cfg : ScanCfg) : ∀ (as bs : List Tok), ListRel (OSubst cfg) as bs →
    ∃ mid, ListRel (TokRel cfg) as mid ∧ ListRel (EqOrNanWord cfg) mid bs
  | [], [], _ => ⟨[], trivial, trivial⟩
  | a :: as, b :: bs, h => by
    obtain ⟨mid, h1, h2⟩ := osubst_mid cfg as bs h.2
    cases h.1 with
    | inl ht => exact ⟨b :: mid, ⟨ht, h1⟩, ⟨Or.inl rfl, h2⟩⟩
    | inr hn => exact ⟨a :: mid, ⟨tokRel_refl cfg a, h1⟩, ⟨Or.inr hn, h2⟩⟩
  | [], _ :: _, h => by cases h
  | _ :: _, [], h => by cases h

theorem findNumbers_osubst (cfg : ScanCfg) (hsep : SepRespects cfg) (as bs : List Tok)
    (h : ListRel (OSubst cfg) as bs) : findNumbers cfg as = findNumbers cfg bs := by
  obtain ⟨mid, h1, h2⟩ := osubst_mid cfg as bs h
  rw [findNumbers_congr cfg hsep as mid h1, findNumbers_nanWord cfg mid bs h2]

theorem listRel_of_forall {α} {R : α → α → Prop} (hr : ∀ a, R a a) : ∀ as : List α, ListRel R as as
  | [] => trivial
  | a :: as => ⟨hr a, listRel_of_forall hr as⟩

theorem listRel_map {α} {R : α → α → Prop} (f : α → α) : ∀ as : List α, (∀ a ∈ as, R a (f a)) →
    ListRel R as (as.map f)
  | [], _ => trivial
  | a :: as, h => ⟨h a List.mem_cons_self, listRel_map f as (fun x hx => h x (List.mem_cons_of_mem _ hx))⟩

theorem listRel_set {α} {R : α → α → Prop} (hr : ∀ a, R a a) : ∀ (as : List α) (i : Nat) (b : α),
    (∀ a, as[i]? = some a → R a b) → ListRel R as (as.set i b)
  | [], _, _, _ => trivial
  | a :: as, 0, b, h => ⟨h a rfl, listRel_of_forall hr as⟩
  | a :: as, i + 1, b, h => ⟨hr a, listRel_set hr as i b (fun x hx => h x (by simpa using hx))⟩


/-! ### 4. the neighbour rule as a structural recursion over the token list -/
open T2N.C18

/-- a significant token: its lowercase copy is not all white space (the test of the annotation pass) -/
def sigTok (cc : CharClasses) (t : Tok) : Bool := !(t.lower.all cc.isWhitespace)

/-- the word of the first significant token of a list -/
def firstSigWord (cc : CharClasses) : List Tok → Option Word
  | [] => none
  | t :: ts => if sigTok cc t then some t.lower else firstSigWord cc ts

/-- is the (possibly absent) neighbour a number word, i.e. accepted by the interpreter on a fresh builder? -/
def isNum : Option Word → Bool
  | some w => NumberWord w
  | none => false

/-- **the neighbour rule, with no scratch state and no indices**: walk the tokens remembering the word `prev` of
the nearest significant token on the left; a significant token whose word is `o` becomes `fz t` when `prev` or the
word of the nearest significant token on the right is a number word, and `fw t` otherwise -/
def readO (cc : CharClasses) (fz fw : Tok → Tok) : Option Word → List Tok → List Tok
  | _, [] => []
  | prev, t :: ts =>
    if sigTok cc t then
      (if t.lower == ['o'] then (if isNum prev || isNum (firstSigWord cc ts) then fz t else fw t) else t)
        :: readO cc fz fw (some t.lower) ts
    else t :: readO cc fz fw prev ts

def markTok (t : Tok) : Tok := { t with nan := true }

def idxFrom (p : Tok → Bool) (n : Nat) (toks : List Tok) : List Nat :=
  (enumFrom n toks).filterMap (fun (i, t) => if p t then some i else none)

theorem indicesWhere_eq (p : Tok → Bool) (toks : List Tok) : indicesWhere p toks = idxFrom p 0 toks := rfl

theorem idxFrom_nil (p : Tok → Bool) (n : Nat) : idxFrom p n [] = [] := rfl

theorem idxFrom_cons (p : Tok → Bool) (n : Nat) (t : Tok) (ts : List Tok) :
    idxFrom p n (t :: ts) = if p t then n :: idxFrom p (n + 1) ts else idxFrom p (n + 1) ts := by
  unfold idxFrom
  simp only [enumFrom, List.filterMap_cons]
  cases p t <;> simp

theorem firstSig_spec (cc : CharClasses) : ∀ (ts : List Tok) (m : Nat),
    match idxFrom (sigTok cc) m ts with
    | [] => firstSigWord cc ts = none
    | k :: _ => m ≤ k ∧ firstSigWord cc ts = some (lowerAt ts (k - m))
  | [], m => by rw [idxFrom_nil]; rfl
  | t :: ts, m => by
    rw [idxFrom_cons]
    by_cases hp : sigTok cc t = true
    · rw [if_pos hp]
      dsimp only
      refine ⟨Nat.le_refl _, ?_⟩
      simp [firstSigWord, hp, lowerAt]
    · rw [if_neg hp]
      have ih := firstSig_spec cc ts (m + 1)
      cases hL : idxFrom (sigTok cc) (m + 1) ts with
      | nil => rw [hL] at ih; dsimp only at ih ⊢; simp [firstSigWord, hp, ih]
      | cons k L =>
        rw [hL] at ih
        dsimp only at ih ⊢
        obtain ⟨h1, h2⟩ := ih
        refine ⟨by omega, ?_⟩
        have hk : k - m = (k - (m + 1)) + 1 := by omega
        rw [hk]
        simp only [firstSigWord, hp, Bool.false_eq_true, if_false, h2]
        simp [lowerAt]

theorem lowerAt_append_left (pre post : List Tok) (k : Nat) (h : k < pre.length) :
    lowerAt (pre ++ post) k = lowerAt pre k := by
  unfold lowerAt
  simp only [List.getD_eq_getElem?_getD]
  rw [List.getElem?_append_left h]

theorem lowerAt_append_right (pre post : List Tok) (k : Nat) (h : pre.length ≤ k) :
    lowerAt (pre ++ post) k = lowerAt post (k - pre.length) := by
  unfold lowerAt
  simp only [List.getD_eq_getElem?_getD]
  rw [List.getElem?_append_right h]

theorem setNan_append (pre : List Tok) (t : Tok) (ts : List Tok) :
    setNan (pre ++ t :: ts) pre.length = pre ++ markTok t :: ts := by
  unfold setNan
  induction pre with
  | nil => rfl
  | cons a pre ih => simp only [List.cons_append, List.length_cons, List.modify_succ_cons, ih]

/-- what the loop has to know about the part already walked: the word of its last significant token -/
def PrevInv (pre : List Tok) (sigPre : List Nat) (prev : Option Word) : Prop :=
  (sigPre = [] ∧ prev = none) ∨ ∃ k, sigPre.getLast? = some k ∧ k < pre.length ∧ prev = some (lowerAt pre k)

theorem numNeighbour_split (cc : CharClasses) (pre : List Tok) (sigPre : List Nat) (prev : Option Word)
    (hinv : PrevInv pre sigPre prev) (t : Tok) (ts : List Tok) :
    numNeighbour (sigPre ++ pre.length :: idxFrom (sigTok cc) (pre.length + 1) ts) sigPre.length
        (pre ++ t :: ts) = (isNum prev || isNum (firstSigWord cc ts)) := by
  unfold numNeighbour
  congr 1
  · -- the neighbour on the left
    cases hinv with
    | inl h => rw [h.1, h.2]; rfl
    | inr h =>
      obtain ⟨k, hk, hlt, hp⟩ := h
      have hne : sigPre.length > 0 := by
        cases sigPre with
        | nil => cases hk
        | cons _ _ => simp
      have hget : (sigPre ++ pre.length :: idxFrom (sigTok cc) (pre.length + 1) ts).getD (sigPre.length - 1) 0 = k := by
        rw [List.getD_eq_getElem?_getD, List.getElem?_append_left (by omega)]
        rw [List.getLast?_eq_getElem?] at hk
        rw [hk]; rfl
      rw [hget, lowerAt_append_left _ _ _ hlt, hp]
      simp [isNum, hne]
  · -- the neighbour on the right
    have hf := firstSig_spec cc ts (pre.length + 1)
    cases hL : idxFrom (sigTok cc) (pre.length + 1) ts with
    | nil =>
      rw [hL] at hf
      dsimp only at hf
      rw [hf]
      simp [isNum]
    | cons k L =>
      rw [hL] at hf
      dsimp only at hf
      obtain ⟨h1, h2⟩ := hf
      have hget : (sigPre ++ pre.length :: k :: L).getD (sigPre.length + 1) 0 = k := by
        rw [List.getD_eq_getElem?_getD, List.getElem?_append_right (by omega)]
        have : sigPre.length + 1 - sigPre.length = 1 := by omega
        rw [this]; rfl
      rw [hget, lowerAt_append_right _ _ _ (by omega), h2]
      have hk : k - pre.length = (k - (pre.length + 1)) + 1 := by omega
      rw [hk]
      have : lowerAt (t :: ts) (k - (pre.length + 1) + 1) = lowerAt ts (k - (pre.length + 1)) := by
        simp [lowerAt]
      rw [this]
      simp [isNum]

theorem specLoop_readO (cc : CharClasses) : ∀ (post pre : List Tok) (sigPre : List Nat) (prev : Option Word),
    PrevInv pre sigPre prev →
    specLoop (sigPre ++ idxFrom (sigTok cc) pre.length post) (idxFrom (sigTok cc) pre.length post)
        sigPre.length (pre ++ post) = pre ++ readO cc id markTok prev post
  | [], pre, sigPre, prev, _ => by
    rw [idxFrom_nil]; rfl
  | t :: ts, pre, sigPre, prev, hinv => by
    rw [idxFrom_cons]
    by_cases hp : sigTok cc t = true
    · rw [if_pos hp]
      unfold specLoop
      rw [numNeighbour_split cc pre sigPre prev hinv t ts]
      have hlow : lowerAt (pre ++ t :: ts) pre.length = t.lower := by
        rw [lowerAt_append_right _ _ _ (Nat.le_refl _), Nat.sub_self]; rfl
      rw [hlow]
      have hinv' : ∀ t' : Tok, t'.lower = t.lower →
          PrevInv (pre ++ [t']) (sigPre ++ [pre.length]) (some t.lower) := by
        intro t' ht'
        refine Or.inr ⟨pre.length, by simp, by simp, ?_⟩
        rw [lowerAt_append_right _ _ _ (Nat.le_refl _), Nat.sub_self]
        show some t.lower = some t'.lower
        rw [ht']
      have hsig : sigPre ++ pre.length :: idxFrom (sigTok cc) (pre.length + 1) ts =
          (sigPre ++ [pre.length]) ++ idxFrom (sigTok cc) (pre.length + 1) ts := by simp
      have hlen : ∀ t' : Tok, (pre ++ [t']).length = pre.length + 1 := by intro t'; simp
      have hj : sigPre.length + 1 = (sigPre ++ [pre.length]).length := by simp
      rw [hsig, hj]
      by_cases hc : (t.lower == ['o'] && !(isNum prev || isNum (firstSigWord cc ts))) = true
      · rw [if_pos hc, setNan_append]
        have ih := specLoop_readO cc ts (pre ++ [markTok t]) (sigPre ++ [pre.length]) (some t.lower)
          (hinv' (markTok t) rfl)
        rw [hlen] at ih
        have hl : pre ++ markTok t :: ts = (pre ++ [markTok t]) ++ ts := by simp
        rw [hl, ih]
        simp only [Bool.and_eq_true, Bool.not_eq_eq_eq_not, Bool.not_true] at hc
        simp only [readO, hp, if_true, hc.1, hc.2, Bool.false_eq_true, if_false, List.append_assoc,
          List.cons_append, List.nil_append]
      · rw [if_neg hc]
        have ih := specLoop_readO cc ts (pre ++ [t]) (sigPre ++ [pre.length]) (some t.lower) (hinv' t rfl)
        rw [hlen] at ih
        have hl : pre ++ t :: ts = (pre ++ [t]) ++ ts := by simp
        rw [hl, ih]
        have hhead : (if t.lower == ['o'] then (if isNum prev || isNum (firstSigWord cc ts) then id t else markTok t)
            else t) = t := by
          by_cases ho : (t.lower == ['o']) = true
          · rw [if_pos ho]
            rw [ho] at hc
            simp only [Bool.true_and, Bool.not_eq_eq_eq_not, Bool.not_true] at hc
            have : (isNum prev || isNum (firstSigWord cc ts)) = true := by
              cases hb : (isNum prev || isNum (firstSigWord cc ts)) with
              | true => rfl
              | false => rw [hb] at hc; exact absurd rfl hc
            rw [if_pos this]; rfl
          · rw [if_neg ho]
        simp only [readO, hp, if_true, hhead, List.append_assoc, List.cons_append, List.nil_append]
    · rw [if_neg hp]
      have hinv' : PrevInv (pre ++ [t]) sigPre prev := by
        cases hinv with
        | inl h => exact Or.inl h
        | inr h =>
          obtain ⟨k, hk, hlt, hpv⟩ := h
          refine Or.inr ⟨k, hk, by simp; omega, ?_⟩
          rw [lowerAt_append_left _ _ _ hlt]; exact hpv
      have ih := specLoop_readO cc ts (pre ++ [t]) sigPre prev hinv'
      have hlen : (pre ++ [t]).length = pre.length + 1 := by simp
      rw [hlen] at ih
      have hl : pre ++ t :: ts = (pre ++ [t]) ++ ts := by simp
      rw [hl, ih]
      simp only [readO, hp, Bool.false_eq_true, if_false, List.append_assoc, List.cons_append, List.nil_append]

/-- **the annotation pass is the structural neighbour rule** (marking instead of rewriting) -/
theorem annotateEn_eq_readO (cc : CharClasses) (toks : List Tok) :
    annotateEn cc En.apply toks = readO cc id markTok none toks := by
  rw [C18_annotateEn_is_spec]
  have h := specLoop_readO cc toks [] [] none (Or.inl ⟨rfl, rfl⟩)
  rw [indicesWhere_eq]
  exact h


/-- two rewritings by the neighbour rule are pointwise related as soon as their two readings of an `o` are -/
theorem readO_rel {R : Tok → Tok → Prop} (cc : CharClasses) (fz fw gz gw : Tok → Tok) (hr : ∀ t, R t t) :
    ∀ (toks : List Tok) (prev : Option Word),
      (∀ t ∈ toks, t.lower = ['o'] → R (fz t) (gz t) ∧ R (fw t) (gw t)) →
      ListRel R (readO cc fz fw prev toks) (readO cc gz gw prev toks)
  | [], _, _ => trivial
  | t :: ts, prev, h => by
    have hts : ∀ x ∈ ts, x.lower = ['o'] → R (fz x) (gz x) ∧ R (fw x) (gw x) :=
      fun x hx => h x (List.mem_cons_of_mem _ hx)
    unfold readO
    by_cases hp : sigTok cc t = true
    · rw [if_pos hp, if_pos hp]
      refine ⟨?_, readO_rel cc fz fw gz gw hr ts _ hts⟩
      by_cases ho : (t.lower == ['o']) = true
      · rw [if_pos ho, if_pos ho]
        have ho' : t.lower = ['o'] := by simpa using ho
        obtain ⟨h1, h2⟩ := h t List.mem_cons_self ho'
        split
        · exact h1
        · exact h2
      · rw [if_neg ho, if_neg ho]; exact hr t
    · rw [if_neg hp, if_neg hp]
      exact ⟨hr t, readO_rel cc fz fw gz gw hr ts _ hts⟩

end T2N.OScan
