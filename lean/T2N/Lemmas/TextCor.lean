/-
  T2N.Lemmas.TextCor — text-level corollaries of the scanner-level theorems C04 (ordinals), C05 (decimals),
  C16 (leading zeros), C08 (digit dictation): the phrase standing in a sentence of ordinary words joined by
  single spaces is REWRITTEN by `replace_numbers_in_text`.

  Generic pieces (on top of T2N/Lemmas/C01Text.lean):
  1. `scan_valid`, `scan_valid_thr`, `replaceText_phrase`: a phrase that VALIDATES to any text `d` (not only the
     decimal digits of a cardinal) is one occurrence with text `d`, for any character classes under `TextLaws`
     and any threshold under which the occurrence is not "small"; the sentence is rewritten with `d`.
  2. what "small" means for the two shapes of text met here: a digit string of at least two characters is
     never small (`notSmall_digits`); `digits of n ++ marker` is small only if `n` is below the threshold
     (`notSmall_marked`, from the well-formedness invariant of the builders, T2N/Lemmas/WellFormed.lean).
  3. `replaceText_zeros` (C16), `replaceText_ordinal` (C04): the two instances used by T2N/Props/C16/Text.lean and
     T2N/Props/C04/Text.lean; `first_of_swap_last`, `first_of_single`: the first word of a phrase is accepted by the
     fresh builder.

  Companion files: T2N/Lemmas/TextCor/Decimal.lean (C05: a spoken decimal is ONE occurrence spanning the whole phrase,
  any character classes, every threshold), T2N/Lemmas/TextCor/Dictation.lean (C08: independence from the character
  classes, tiling occurrences and their splice), T2N/Lemmas/TextCor/<L>.lean and Dec<L>.lean (per language: the words
  of ordinals / fractions are over the alphabet, first words, the French `neuf` pass).
-/
import T2N.Lemmas.C01Text.Assemble
import T2N.Lemmas.WellFormed
import T2N.Lemmas.SepAlone

namespace T2N.TextCor
open T2N T2N.Lift T2N.Spec T2N.C01Text

/-! ## 1. a phrase that validates, in a sentence -/

/-- **threshold 0**: a phrase that validates to `d`, whose words are single tokens, between refused words, is
one occurrence with text `d` — for any character classes satisfying `TextLaws` -/
theorem scan_valid (cfg : ScanCfg) (hmem : cfg.lang ∈ allLangs) (hl : LangAgree cfg.lang)
    (hsep : ∀ x y, cfg.sep x y = false) (hthr : ∀ n, cfg.thrLt n = false) (L : TextLaws cfg.cc)
    (ws : List Word) (d : Word) (hval : text2digitsWords cfg.lang ws = .ok d)
    (hfirst : ∀ w ∈ ws.head?, (cfg.lang.apply w DS.new).1 = none)
    (htok : ∀ w ∈ ws, isTokWord cfg.cc w = true)
    (pre post : List Word) (hpre : ∀ w ∈ pre, cfg.lang.Rejects w) (hpost : ∀ w ∈ post, cfg.lang.Rejects w) :
    ∃ ds v, execGroup cfg.lang.apply ws = .ok ds ∧ cfg.lang.formatW ds = .ok (d, v) ∧
      findNumbers cfg (wordTokens (pre ++ ws ++ post)) =
        .ok [⟨2 * pre.length, 2 * pre.length + (2 * ws.length - 1), d, v, ds.isOrdinal⟩] := by
  have hws : ∀ w ∈ ws, Scanner.isSkipped cfg (wtok w) = false ∧ cfg.lang.isDecSep w = false :=
    fun w hw => ⟨not_skipped_of_tokWord cfg L w (htok w hw),
      nosep_of_valid_builtin cfg.lang hmem ws _ hval w hw⟩
  exact valid_is_one_sentence cfg hl hsep hthr L.space_ws pre ws post d
    (fun w hw => Or.inr (Or.inr (not_accepted_of_rejects _ _ (hpre w hw))))
    (fun w hw => Or.inr (Or.inr (hpost w hw))) hws hfirst hval

/-- **any threshold** under which the occurrence is not small (`hns`) -/
theorem scan_valid_thr (cfg : ScanCfg) (hmem : cfg.lang ∈ allLangs) (hl : LangAgree cfg.lang)
    (hsep : ∀ x y, cfg.sep x y = false) (L : TextLaws cfg.cc)
    (ws : List Word) (d : Word) (hval : text2digitsWords cfg.lang ws = .ok d)
    (hns : ∀ ds v, execGroup cfg.lang.apply ws = .ok ds → cfg.lang.formatW ds = .ok (d, v) →
      ((utf8Len d == 1 || ds.isOrdinal) && cfg.small v) = false)
    (hfirst : ∀ w ∈ ws.head?, (cfg.lang.apply w DS.new).1 = none)
    (htok : ∀ w ∈ ws, isTokWord cfg.cc w = true)
    (pre post : List Word) (hpre : ∀ w ∈ pre, cfg.lang.Rejects w) (hpost : ∀ w ∈ post, cfg.lang.Rejects w) :
    ∃ v o, findNumbers cfg (wordTokens (pre ++ ws ++ post)) =
        .ok [⟨2 * pre.length, 2 * pre.length + (2 * ws.length - 1), d, v, o⟩] := by
  obtain ⟨ds, v, hx, hf, h0⟩ := scan_valid { cfg with thrLt := fun _ => false } hmem hl hsep (fun _ => rfl) L ws d
    hval hfirst htok pre post hpre hpost
  refine ⟨v, ds.isOrdinal, ?_⟩
  refine findNumbers_of_not_small { cfg with thrLt := fun _ => false } cfg rfl rfl rfl (fun _ => rfl) _ _ h0 ?_
  intro o ho
  rw [List.mem_singleton] at ho
  subst ho
  exact hns ds v hx hf

/-- **the text-level statement for a phrase that validates to `d`**: any character classes, any threshold under
which the occurrence is not small; `hann`: the annotation pass leaves the tokens alone -/
theorem replaceText_phrase {cc : CharClasses} (L : TextLaws cc) (l : Language) (thr : Nat → Bool)
    (hmem : l.interp ∈ allLangs) (hl : LangAgree l.interp)
    (ws : List Word) (d : Word) (hval : text2digitsWords l.interp ws = .ok d)
    (hns : ∀ ds v, execGroup l.interp.apply ws = .ok ds → l.interp.formatW ds = .ok (d, v) →
      ((utf8Len d == 1 || ds.isOrdinal) &&
        ({ lang := l.interp, cc := cc, sep := noSep, thrLt := thr } : ScanCfg).small v) = false)
    (hfirst : ∀ w ∈ ws.head?, (l.interp.apply w DS.new).1 = none)
    (pre post : List Word) (hpre : ∀ w ∈ pre, l.interp.Rejects w) (hpost : ∀ w ∈ post, l.interp.Rejects w)
    (hplain : ∀ w ∈ pre ++ ws ++ post, isPlainWord cc w = true)
    (hann : l.annotate cc (wordTokens (pre ++ ws ++ post)) = wordTokens (pre ++ ws ++ post)) :
    replaceText cc l thr (joinWords (pre ++ ws ++ post)) = .ok (joinWords (pre ++ [d] ++ post)) := by
  obtain ⟨v, o, hscan⟩ := scan_valid_thr { lang := l.interp, cc := cc, sep := noSep, thrLt := thr } hmem hl
    (fun _ _ => rfl) L ws d hval hns hfirst (fun w hw => isPlainWord_tok (hplain w (by simp [hw]))) pre post hpre hpost
  exact replaceText_of_scan L l thr pre ws post (ne_nil_of_valid _ ws _ hval) d v o hplain hann hscan

/-- the same with the words of the phrase over the alphabet and `Ordinary` words around -/
theorem replaceText_over {cc : CharClasses} (L : TextLaws cc) (A : AlphaLaws cc) (l : Language) (thr : Nat → Bool)
    (hmem : l.interp ∈ allLangs) (hl : LangAgree l.interp)
    (ws : List Word) (d : Word) (hval : text2digitsWords l.interp ws = .ok d)
    (hns : ∀ ds v, execGroup l.interp.apply ws = .ok ds → l.interp.formatW ds = .ok (d, v) →
      ((utf8Len d == 1 || ds.isOrdinal) &&
        ({ lang := l.interp, cc := cc, sep := noSep, thrLt := thr } : ScanCfg).small v) = false)
    (hfirst : ∀ w ∈ ws.head?, (l.interp.apply w DS.new).1 = none)
    (hover : ∀ w ∈ ws, isOver w = true)
    (pre post : List Word) (hpre : ∀ w ∈ pre, Ordinary cc l.interp w) (hpost : ∀ w ∈ post, Ordinary cc l.interp w)
    (hann : l.annotate cc (wordTokens (pre ++ ws ++ post)) = wordTokens (pre ++ ws ++ post)) :
    replaceText cc l thr (joinWords (pre ++ ws ++ post)) = .ok (joinWords (pre ++ [d] ++ post)) :=
  replaceText_phrase L l thr hmem hl ws d hval hns hfirst pre post (fun w hw => (hpre w hw).1)
    (fun w hw => (hpost w hw).1) (plain_of_parts L A l.interp pre ws post hpre hover hpost) hann

/-! ## 2. when is the occurrence "small"? -/

/-- the builder reached by a group of words of a built-in language holds decimal digits only -/
theorem digitsOk_of_exec (l : Lang) (hmem : l ∈ allLangs) (ws : List Word) (ds : DS)
    (hx : execGroup l.apply ws = .ok ds) : C12.DigitsOk ds.render := by
  have hwf := WellFormed.langWF_all l hmem
  have : WellFormed.BInv (WellFormed.mkOk l) ds :=
    WellFormed.execGroupFrom_inv (WellFormed.BInv (WellFormed.mkOk l)) l.apply hwf.apply_inv ws DS.new false ds
      (WellFormed.BInv.new _ rfl) hx
  exact WellFormed.render_digitsOk this.1

theorem utf8Len_append (a b : Word) : utf8Len (a ++ b) = utf8Len a + utf8Len b := by
  unfold utf8Len
  rw [List.map_append, List.sum_append]

theorem utf8Len_replicate_zero (k : Nat) : utf8Len (List.replicate k '0') = k := by
  induction k with
  | zero => rfl
  | succ k ih =>
    rw [List.replicate_succ]
    show utf8Len (['0'] ++ List.replicate k '0') = k + 1
    rw [utf8Len_append, ih]
    show 1 + k = k + 1
    omega

theorem length_decDigits_pos (n : Nat) : 1 ≤ (decDigits n).length := by
  rw [decDigits]
  split
  · simp
  · rw [List.length_append]; simp

/-- `k ≥ 1` zeros followed by the digits of `n`: at least two characters -/
theorem utf8Len_zeros_dec (k n : Nat) (hk : 0 < k) : 2 ≤ utf8Len (List.replicate k '0' ++ decChars n) := by
  rw [utf8Len_append, utf8Len_replicate_zero, utf8Len_decChars]
  have := length_decDigits_pos n
  omega

theorem isDig_of_replicate (k n : Nat) : ∀ c ∈ List.replicate k '0' ++ decChars n, C01Sent.isDig c = true := by
  intro c hc
  rcases List.mem_append.mp hc with hc | hc
  · rw [List.eq_of_mem_replicate hc]; decide
  · exact C01Sent.decChars_dig n c hc

/-- a text made of ASCII digits is not the text of an ordinal (nor of a fraction) -/
theorem not_ordinal_of_digits (l : Lang) (ds : DS) (d : Word) (v : Value) (hd : ∀ c ∈ d, C01Sent.isDig c = true)
    (hf : l.formatW ds = .ok (d, v)) : ds.isOrdinal = false := by
  unfold Lang.formatW at hf
  split at hf
  · cases hf
  · cases hm : ds.marker with
    | none => unfold DS.isOrdinal; rw [hm]; rfl
    | fraction m =>
      rw [hm] at hf
      dsimp only at hf
      injection hf with hf
      injection hf with h1 h2
      have := hd '/' (by rw [← h1]; simp)
      exact absurd this (by decide)
    | ordinal m =>
      rw [hm] at hf
      dsimp only at hf
      injection hf with hf
      injection hf with h1 h2
      obtain ⟨c, t, hc, hdg⟩ := C01Sent.mk_last m
      have hmem : c ∈ d := by
        rw [← h1, List.mem_append]
        right
        have : c ∈ m.chars.reverse := by rw [hc]; exact List.mem_cons_self
        exact List.mem_reverse.mp this
      rw [hd c hmem] at hdg
      cases hdg

/-- **a digit string of at least two characters is never small** -/
theorem notSmall_digits (cfg : ScanCfg) (ds : DS) (d : Word) (v : Value) (hd : ∀ c ∈ d, C01Sent.isDig c = true)
    (hlen : 2 ≤ utf8Len d) (hf : cfg.lang.formatW ds = .ok (d, v)) :
    ((utf8Len d == 1 || ds.isOrdinal) && cfg.small v) = false := by
  rw [not_ordinal_of_digits cfg.lang ds d v hd hf]
  have : (utf8Len d == 1) = false := by rw [beq_eq_false_iff_ne]; omega
  rw [this]
  rfl

theorem decChars_isDigit (n : Nat) : C12.DigitsOk (decDigits n) := C01Sent.decDigits_lt n

/-- **`digits of n ++ marker`** (the marker not starting with a digit) **is small only if `n` is below the
threshold** -/
theorem notSmall_marked (cfg : ScanCfg) (ds : DS) (n : Nat) (mk : Word) (v : Value)
    (hok : C12.DigitsOk ds.render) (hmk : WellFormed.headNotDigit mk = true)
    (hf : cfg.lang.formatW ds = .ok (decChars n ++ mk, v)) (hthr : cfg.thrLt n = false) :
    cfg.small v = false := by
  unfold Lang.formatW at hf
  split at hf
  · cases hf
  · have key : ∀ (r : Word), WellFormed.headNotDigit r = true → renderChars ds ++ r = decChars n ++ mk →
        ds.render = decDigits n := by
      intro r hr he
      have h1 := (WellFormed.span_digits ds.render hok r hr).1
      have h2 := (WellFormed.span_digits (decDigits n) (decChars_isDigit n) mk hmk).1
      have he' : ds.render.map digitChar ++ r = (decDigits n).map digitChar ++ mk := he
      rw [he', h2] at h1
      exact (C01Sent.map_digitChar_inj _ _ (C01Sent.decDigits_lt n) h1.symm)
    cases hm : ds.marker with
    | none =>
      rw [hm] at hf
      dsimp only at hf
      injection hf with hf
      injection hf with h1 h2
      have hr := key [] rfl (by rw [List.append_nil]; exact h1)
      rw [← h2, hr]
      show cfg.thrLt (valueOfMSB (decDigits n)) = false
      rw [valueOfMSB_decDigits]
      exact hthr
    | fraction m =>
      rw [hm] at hf
      dsimp only at hf
      injection hf with hf
      injection hf with h1 h2
      rw [← h2]
      rfl
    | ordinal m =>
      rw [hm] at hf
      dsimp only at hf
      injection hf with hf
      injection hf with h1 h2
      have hr := key m.chars (WellFormed.mk_head_not_digit m) h1
      rw [← h2, hr]
      show cfg.thrLt (valueOfMSB (decDigits n)) = false
      rw [valueOfMSB_decDigits]
      exact hthr

/-! ### leading zeros (C16) and ordinals (C04), generic in the language -/

/-- `k ≥ 1` zero words followed by a spelling, validating to `k` zeros and the digits of `n`: rewritten, at EVERY
threshold (the text has at least two characters) -/
theorem replaceText_zeros {cc : CharClasses} (L : TextLaws cc) (A : AlphaLaws cc) (l : Language) (thr : Nat → Bool)
    (hmem : l.interp ∈ allLangs) (hl : LangAgree l.interp) (zw : Word) (card : List Word) (k n : Nat) (hk : 0 < k)
    (hval : text2digitsWords l.interp (List.replicate k zw ++ card) = .ok (List.replicate k '0' ++ decChars n))
    (hz : (l.interp.apply zw DS.new).1 = none) (hzo : isOver zw = true) (hover : ∀ w ∈ card, isOver w = true)
    (pre post : List Word) (hpre : ∀ w ∈ pre, Ordinary cc l.interp w) (hpost : ∀ w ∈ post, Ordinary cc l.interp w)
    (hann : l.annotate cc (wordTokens (pre ++ (List.replicate k zw ++ card) ++ post)) =
      wordTokens (pre ++ (List.replicate k zw ++ card) ++ post)) :
    replaceText cc l thr (joinWords (pre ++ (List.replicate k zw ++ card) ++ post)) =
      .ok (joinWords (pre ++ [List.replicate k '0' ++ decChars n] ++ post)) := by
  refine replaceText_over L A l thr hmem hl _ _ hval ?_ ?_ ?_ pre post hpre hpost hann
  · intro ds v _ hf
    exact notSmall_digits _ ds _ v (isDig_of_replicate k n) (utf8Len_zeros_dec k n hk) hf
  · intro w hw
    obtain ⟨k', rfl⟩ : ∃ k', k = k' + 1 := ⟨k - 1, by omega⟩
    rw [List.replicate_succ, List.cons_append, List.head?_cons] at hw
    have : w = zw := by simpa using hw.symm
    rw [this]; exact hz
  · intro w hw
    rcases List.mem_append.mp hw with hw | hw
    · rw [List.eq_of_mem_replicate hw]; exact hzo
    · exact hover w hw

/-- a spelled ordinal validating to `digits of n ++ marker` (the marker does not start with a digit): rewritten, at
every threshold that `n` is not below -/
theorem replaceText_ordinal {cc : CharClasses} (L : TextLaws cc) (A : AlphaLaws cc) (l : Language) (thr : Nat → Bool)
    (hmem : l.interp ∈ allLangs) (hl : LangAgree l.interp) (ws : List Word) (n : Nat) (mk : Word)
    (hmk : WellFormed.headNotDigit mk = true) (hthr : thr n = false)
    (hval : text2digitsWords l.interp ws = .ok (decChars n ++ mk))
    (hfirst : ∀ w ∈ ws.head?, (l.interp.apply w DS.new).1 = none) (hover : ∀ w ∈ ws, isOver w = true)
    (pre post : List Word) (hpre : ∀ w ∈ pre, Ordinary cc l.interp w) (hpost : ∀ w ∈ post, Ordinary cc l.interp w)
    (hann : l.annotate cc (wordTokens (pre ++ ws ++ post)) = wordTokens (pre ++ ws ++ post)) :
    replaceText cc l thr (joinWords (pre ++ ws ++ post)) = .ok (joinWords (pre ++ [decChars n ++ mk] ++ post)) := by
  refine replaceText_over L A l thr hmem hl _ _ hval ?_ hfirst hover pre post hpre hpost hann
  intro ds v hx hf
  rw [notSmall_marked _ ds n mk v (digitsOk_of_exec l.interp hmem ws ds hx) hmk hf hthr, Bool.and_false]

/-- the first word of a phrase that validates is accepted by the fresh builder when the language never answers
`Incomplete` on the fresh builder for it -/
theorem hfirst_of_valid (l : Lang) (ws : List Word) (d : Word) (hval : text2digitsWords l ws = .ok d)
    (hfirst : ∀ w ∈ ws.head?, (l.apply w DS.new).1 ≠ some .incomplete) :
    ∀ w ∈ ws.head?, (l.apply w DS.new).1 = none := first_none_of_valid l ws d hval hfirst

/-- a phrase that validates and differs only by its last word from a phrase whose first word is accepted by the
fresh builder: its first word is accepted by the fresh builder -/
theorem first_of_swap_last (l : Lang) (pre : List Word) (last new : Word) (d : Word)
    (hval : text2digitsWords l (pre ++ [new]) = .ok d)
    (hc : ∀ w ∈ (pre ++ [last]).head?, (l.apply w DS.new).1 = none) :
    ∀ w ∈ (pre ++ [new]).head?, (l.apply w DS.new).1 = none := by
  cases pre with
  | nil =>
    intro w hw
    have : w = new := by simpa using hw.symm
    rw [this]
    exact valid_alone hval
  | cons p t =>
    intro w hw
    exact hc w (by simpa using hw)

/-- a one-word phrase that validates: the word is accepted by the fresh builder -/
theorem first_of_single (l : Lang) (w0 : Word) (d : Word) (hval : text2digitsWords l [w0] = .ok d) :
    ∀ w ∈ [w0].head?, (l.apply w DS.new).1 = none := by
  intro w hw
  have : w = w0 := by simpa using hw.symm
  rw [this]
  exact valid_alone hval

end T2N.TextCor
