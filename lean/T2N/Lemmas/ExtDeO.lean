/-
  T2N.Lemmas.ExtDeO — German ordinals (C04), unbounded: for every rank `0 < n ≤ 10^6`, every declension ending
  and every variant function (with the `ein Million` value, as for the cardinals), the spelled ordinal validates
  to the digits of `n` followed by `.`.  The splitter theory over the extended vocabulary is in ExtDeS.lean.

  * `lemmatize_ord`: the lemmatizer strips the declension ending of `…t` + ending to `…te`;
  * `OrdForm`, `pair_single`, `pair_compound`: making the last atom ordinal marks the number and freezes it;
  * `render_last`: the last word of a rendering is the compound of the last run of uncut atoms;
  * `C04_validate_de`.
-/
import T2N.Lemmas.ExtDeS

namespace T2N.ExtDe
open T2N T2N.DS T2N.Spec T2N.C01De
open T2N.C01En (lsb lsb_ne_nil lsb_rev_dec lsb_zero)
open T2N.EnExt (mark OrdPair)

/-! ### embedding and modification of chains -/

theorem chainG_of_chain {c : List Word} (h : Chain c) : ChainG G2 P2 c := by
  induction h with
  | gap1 hg => exact ChainG.gap1 (List.mem_append_left _ hg)
  | pat1 hp => exact ChainG.pat1 (List.mem_append_left _ hp)
  | gapc hg hp _ ih => exact ChainG.gapc (List.mem_append_left _ hg) (List.mem_append_left _ hp) ih
  | patc hp _ ih => exact ChainG.patc (List.mem_append_left _ hp) ih

/-- the last atom of a chain may be replaced by an atom of the same class -/
theorem ChainG.replace_last {G P : List Word} {a o : Word} (hg : a ∈ G → o ∈ G) (hp : a ∈ P → o ∈ P) :
    ∀ (x : List Word), ChainG G P (x ++ [a]) → ChainG G P (x ++ [o]) := by
  intro x
  induction x with
  | nil =>
    intro h
    cases h with
    | gap1 h => exact ChainG.gap1 (hg h)
    | pat1 h => exact ChainG.pat1 (hp h)
  | cons b x ih =>
    intro h
    cases x with
    | nil =>
      cases h with
      | gapc hb ha _ => exact ChainG.gapc hb (hp ha) (ChainG.pat1 (hp ha))
      | patc hb hc => exact ChainG.patc hb (ih hc)
    | cons c x' =>
      cases h with
      | gapc hb hc hrest => exact ChainG.gapc hb hc (ih hrest)
      | patc hb hc => exact ChainG.patc hb (ih hc)

theorem Chain.tail {a : Word} {rest : List Word} (h : Chain (a :: rest)) (hr : rest ≠ []) : Chain rest := by
  cases h with
  | gap1 _ => exact absurd rfl hr
  | pat1 _ => exact absurd rfl hr
  | gapc _ _ hc => exact hc
  | patc _ hc => exact hc

/-- a non-empty suffix of a chain is a chain -/
theorem Chain.suffix : ∀ (x y : List Word), Chain (x ++ y) → y ≠ [] → Chain y := by
  intro x
  induction x with
  | nil => intro y h _; exact h
  | cons a x ih =>
    intro y h hy
    exact ih y (Chain.tail h (by simp [hy])) hy

/-! ## the lemmatizer on declined ordinals -/

theorem endsWith_last (w s : Word) (c d : Char) (h : endsWith (w ++ [c]) (s ++ [d]) = true) : d = c := by
  have hsuf : s ++ [d] <:+ w ++ [c] := List.isSuffixOf_iff_suffix.mp h
  obtain ⟨t, ht⟩ := hsuf
  have := congrArg List.getLast? ht
  rw [← List.append_assoc] at this
  simpa using this

theorem endsWith_self (y s : Word) : endsWith (y ++ s) s = true :=
  List.isSuffixOf_iff_suffix.mpr (List.suffix_append y s)

/-- `…t` + declension ending is lemmatized to `…te` -/
theorem lemmatize_ord (y ending : Word) (he : ending ∈ De.inflEndings) :
    De.lemmatize (y ++ ['t'] ++ ending) = y ++ w!"te" := by
  have nf : ∀ (z : Word) (c d : Char) (s : Word), d ≠ c → endsWith (z ++ [c]) (s ++ [d]) = false := by
    intro z c d s hne
    cases hq : endsWith (z ++ [c]) (s ++ [d]) with
    | false => rfl
    | true => exact absurd (endsWith_last z s c d hq) hne
  simp only [De.inflEndings, List.mem_cons, List.not_mem_nil, or_false] at he
  unfold De.lemmatize
  rcases he with rfl | rfl | rfl | rfl | rfl
  · have n1 : endsWith (y ++ ['t'] ++ ['e']) w!"tes" = false := nf _ 'e' 's' w!"te" (by decide)
    have n2 : endsWith (y ++ ['t'] ++ ['e']) w!"ter" = false := nf _ 'e' 'r' w!"te" (by decide)
    have n3 : endsWith (y ++ ['t'] ++ ['e']) w!"ten" = false := nf _ 'e' 'n' w!"te" (by decide)
    have n4 : endsWith (y ++ ['t'] ++ ['e']) w!"tem" = false := nf _ 'e' 'm' w!"te" (by decide)
    rw [n1, n2, n3, n4]
    simp
  · have e : y ++ ['t'] ++ w!"er" = y ++ w!"ter" := by simp
    rw [e, endsWith_self y w!"ter"]
    simp [trimEndBy]
  · have e : y ++ ['t'] ++ w!"es" = y ++ w!"tes" := by simp
    rw [e, endsWith_self y w!"tes"]
    simp [trimEndBy]
  · have e : y ++ ['t'] ++ w!"en" = y ++ w!"ten" := by simp
    rw [e, endsWith_self y w!"ten"]
    simp [trimEndBy]
  · have e : y ++ ['t'] ++ w!"em" = y ++ w!"tem" := by simp
    rw [e, endsWith_self y w!"tem"]
    simp [trimEndBy]

/-! ## ordinal forms -/

/-- `o` is an ordinal lemma (ending `-te`) bound to instruction `act` -/
def OrdForm (o : Word) (act : Act) : Prop :=
  isSplittable De.patterns o = false ∧ De.vocab.lookup o = some act ∧ endsWith o w!"te" = true ∧
    (o == w!"eins") = false

theorem applyFuel_ordform (k : Nat) (w o : Word) (act : Act) (b : DS) (hl : De.lemmatize w = o)
    (ho : OrdForm o act) :
    De.applyFuel (k + 1) w b =
      if (act.exec b).1.isNone then
        ((act.exec b).1, { (act.exec b).2.1 with flags := (act.exec b).2.2, marker := .ordinal .dot, frozen := true })
      else ((act.exec b).1, { (act.exec b).2.1 with flags := 0 }) := by
  obtain ⟨h2, h3, h4, h5⟩ := ho
  rw [De.applyFuel]
  dsimp only
  rw [hl, h2, if_neg Bool.false_ne_true, h3, h4, h5]
  have hm : De.morph o = .ordinal .dot := by unfold De.morph; rw [h4]; rfl
  simp only [Option.getD_some, Bool.false_eq_true, if_false, if_true, hm]

/-- the cardinal word `a` is bound to `act` (as a plain word, or as the freezing word `eins`) -/
def CardForm (a : Word) (act : Act) : Prop := Plain a act ∨ (a = w!"eins" ∧ act = T2N.De.unit 1)

/-- replacing a cardinal word by the ordinal word bound to the same instruction turns an accepted step into
the same step, marked and frozen -/
theorem pair_single (k : Nat) (a w o : Word) (act : Act) (ha : CardForm a act) (hl : De.lemmatize w = o)
    (ho : OrdForm o act) : OrdPair (De.applyFuel (k + 1)) a w .dot := by
  intro b b' h
  rw [applyFuel_ordform k w o act b hl ho]
  rcases ha with hp | ⟨rfl, rfl⟩
  · rw [applyFuel_plain k a act b hp] at h
    by_cases hn : (act.exec b).1.isNone = true
    · rw [if_pos hn] at h ⊢
      have h2 := congrArg Prod.snd h
      dsimp only at h2
      rw [← h2, (congrArg Prod.fst h : (act.exec b).1 = none)]
      rfl
    · rw [if_neg hn] at h
      have h1 := congrArg Prod.fst h
      dsimp only at h1
      rw [h1] at hn
      exact absurd rfl hn
  · rw [applyFuel_eins k b] at h
    by_cases hn : ((T2N.De.unit 1).exec b).1.isNone = true
    · rw [if_pos hn] at h ⊢
      have h2 := congrArg Prod.snd h
      dsimp only at h2
      rw [← h2, (congrArg Prod.fst h : ((T2N.De.unit 1).exec b).1 = none)]
      rfl
    · rw [if_neg hn] at h
      have h1 := congrArg Prod.fst h
      dsimp only at h1
      rw [h1] at hn
      exact absurd rfl hn

/-- **compound**: making the last atom of a compound ordinal (and declining it) marks the whole compound -/
theorem pair_compound (pre : List Word) (a o w : Word) (hpre : pre ≠ []) (hc : Chain (pre ++ [a]))
    (hc' : ChainG G2 P2 (pre ++ [o])) (hl : De.lemmatize (pre.flatten ++ w) = pre.flatten ++ o)
    (hp : OrdPair (De.applyFuel 1) a o .dot) :
    OrdPair De.apply (pre ++ [a]).flatten (pre.flatten ++ w) .dot := by
  intro b b' h
  have hlen : 2 ≤ (pre ++ [a]).length := by
    cases pre with
    | nil => exact absurd rfl hpre
    | cons x t => simp
  have hlen' : 2 ≤ (pre ++ [o]).length := by
    cases pre with
    | nil => exact absurd rfl hpre
    | cons x t => simp
  have hfl : (pre ++ [o]).flatten = pre.flatten ++ o := by simp
  rw [De.apply, applyFuel_split 1 _ b (by rw [lemmatize_chain hc]; exact isSplittable_chain hc hlen),
    lemmatize_chain hc, splitWord_chain hc] at h
  rw [De.apply, applyFuel_split 1 _ b (by rw [hl, ← hfl]; exact isSplittable_chainG voc2 hc' hlen'),
    hl, ← hfl, splitWord_chainG voc2 hc']
  cases hx : execGroup (De.applyFuel 1) (pre ++ [a]) with
  | error e =>
    rw [hx] at h
    exact absurd (congrArg Prod.fst h) (by simp)
  | ok ds =>
    rw [hx] at h
    have hx' : execGroup (De.applyFuel 1) (pre ++ [o]) = .ok (mark .dot ds) :=
      EnExt.swap_last (De.applyFuel 1) a o .dot hp pre DS.new false ds hx
    rw [hx']
    exact EnExt.mergeGroup_mark b ds b' _ .dot h

/-! ## the last word of a rendering -/

/-- apply `f` to the word of the last atom -/
def mapLast (f : Word → Word) : List De.Atom → List De.Atom
  | [] => []
  | [a] => [{ a with w := f a.w }]
  | a :: b :: rest => a :: mapLast f (b :: rest)

theorem mapLast_cons_cons (f : Word → Word) (a b : De.Atom) (rest : List De.Atom) :
    mapLast f (a :: b :: rest) = a :: mapLast f (b :: rest) := rfl

theorem mapLast_ne_nil (f : Word → Word) : ∀ A : List De.Atom, A ≠ [] → mapLast f A ≠ []
  | [], h => absurd rfl h
  | [_], _ => List.cons_ne_nil _ _
  | _ :: _ :: _, _ => List.cons_ne_nil _ _

theorem mapLast_id : ∀ A : List De.Atom, mapLast id A = A
  | [] => rfl
  | [_] => rfl
  | a :: b :: rest => by rw [mapLast_cons_cons, mapLast_id (b :: rest)]

theorem opensInit_mapLast (L : Nat) (f : Word → Word) : ∀ A : List De.Atom, opensInit L A → opensInit L (mapLast f A)
  | [], _ => trivial
  | [_], _ => trivial
  | a :: b :: rest, h => by
    have ih := opensInit_mapLast L f (b :: rest) h.2
    rw [mapLast_cons_cons]
    obtain ⟨c, t, hs⟩ := List.exists_cons_of_ne_nil (mapLast_ne_nil f (b :: rest) (List.cons_ne_nil _ _))
    rw [hs] at ih ⊢
    exact ⟨h.1, ih⟩

/-- the words of a non-empty atom list, with the last one singled out -/
theorem ws_mapLast : ∀ A : List De.Atom, A ≠ [] →
    ∃ (pre : List Word) (a : Word), ws A = pre ++ [a] ∧ ∀ f, ws (mapLast f A) = pre ++ [f a]
  | [], h => absurd rfl h
  | [x], _ => ⟨[], x.w, rfl, fun _ => rfl⟩
  | x :: y :: rest, _ => by
    obtain ⟨pre, a, e, hf⟩ := ws_mapLast (y :: rest) (List.cons_ne_nil _ _)
    refine ⟨x.w :: pre, a, ?_, fun f => ?_⟩
    · show x.w :: ws (y :: rest) = _
      rw [e]; rfl
    · rw [mapLast_cons_cons]
      show x.w :: ws (mapLast f (y :: rest)) = _
      rw [hf f]; rfl

/-- **the last word of a rendering**: the atoms split into `A1` (rendered to the words `pre`) and the last run
`P` of uncut atoms; changing the word of the last atom only changes the last word -/
theorem render_last (L : Nat) : ∀ (A : List De.Atom) (cur : Word), A ≠ [] →
    ∃ (A1 P : List De.Atom) (pre : List Word) (cur' : Word), A = A1 ++ P ∧ P ≠ [] ∧ opensInit L P ∧
      ((A1 = [] ∧ cur' = cur ∧ pre = []) ∨ cur' = []) ∧
      ∀ f, De.render L (mapLast f A) cur = pre ++ De.render L (mapLast f P) cur'
  | [], _, h => absurd rfl h
  | [a], cur, _ => ⟨[], [a], [], cur, rfl, List.cons_ne_nil _ _, trivial, Or.inl ⟨rfl, rfl, rfl⟩, fun _ => rfl⟩
  | a :: b :: rest, cur, _ => by
    by_cases hb : a.b ≤ L
    · obtain ⟨A1, P, pre, cur', e, hP, ho, hd, hr⟩ := render_last L (b :: rest) [] (List.cons_ne_nil _ _)
      have hc : cur' = [] := by
        rcases hd with ⟨_, h, _⟩ | h
        · exact h
        · exact h
      refine ⟨a :: A1, P, (cur ++ a.w) :: pre, cur', by rw [e]; rfl, hP, ho, Or.inr hc, fun f => ?_⟩
      rw [mapLast_cons_cons, De.render, if_pos hb, hr f]
      rfl
    · obtain ⟨A1, P, pre, cur', e, hP, ho, hd, hr⟩ := render_last L (b :: rest) (cur ++ a.w) (List.cons_ne_nil _ _)
      rcases hd with ⟨h1, h2, h3⟩ | hc
      · subst h1 h2 h3
        have eP : P = b :: rest := by simpa using e.symm
        subst eP
        refine ⟨[], a :: b :: rest, [], cur, rfl, List.cons_ne_nil _ _, ⟨by omega, ho⟩,
          Or.inl ⟨rfl, rfl, rfl⟩, fun f => by simp⟩
      · refine ⟨a :: A1, P, pre, cur', by rw [e]; rfl, hP, ho, Or.inr hc, fun f => ?_⟩
        rw [mapLast_cons_cons, De.render, if_neg hb, hr f]

/-! ## the ordinal speller -/

/-- the stem that `Spec.De.ordLast` gives to the last word `w` -/
def stemOf (v : Var) (r : Nat) (w : Word) : Word :=
  if r == 0 || r ≥ 20 then w ++ w!"st"
  else if r == 7 && flag v (cp 0 10) then w!"siebent"
  else De.ordUnitStems.getD r w

theorem ordLast_cons_cons (v : Var) (r : Nat) (ending : Word) (a b : De.Atom) (rest : List De.Atom) :
    De.ordLast v r ending (a :: b :: rest) = a :: De.ordLast v r ending (b :: rest) := by
  rw [De.ordLast]
  exact fun h => List.cons_ne_nil _ _ h

theorem ordLast_eq (v : Var) (r : Nat) (ending : Word) : ∀ A : List De.Atom,
    De.ordLast v r ending A = mapLast (fun w => stemOf v r w ++ ending) A
  | [] => rfl
  | [_] => rfl
  | a :: b :: rest => by
    rw [ordLast_cons_cons, mapLast_cons_cons, ordLast_eq v r ending (b :: rest)]

/-- the variant function used for the atoms of an ordinal: `zwei`, never `zwo`, as last word -/
def ordVar (v : Var) (n : Nat) : Var := fun i => if i == cp 0 1 && n % 100 == 2 then 0 else v i

theorem ordinal_eq (v : Var) (n : Nat) (ending : Word) (h : n ≠ 1000000) :
    De.ordinal v n ending =
      De.render (De.level v) (mapLast (fun w => stemOf v (n % 100) w ++ ending) (De.cardinalAtoms (ordVar v n) n)) [] := by
  unfold De.ordinal
  rw [if_neg (by simpa using h)]
  dsimp only
  rw [ordLast_eq]
  rfl

theorem ordVar_ein (v : Var) (n : Nat) (hv : EinVariant v) : EinVariant (ordVar v n) := by
  obtain ⟨h1, h2⟩ := hv
  constructor
  · show flag (ordVar v n) (cp 2 5) = true
    rw [← h1]; rfl
  · show flag (ordVar v n) (cp 3 5) = true
    rw [← h2]; rfl

theorem ordVar_zwo (v : Var) (n : Nat) (h : n % 100 = 2) : flag (ordVar v n) (cp 0 1) = false := by
  unfold flag ordVar
  rw [h]
  rfl

/-! ### the last atom of a cardinal below one million -/

def lastWord (v : Var) (n : Nat) : Word :=
  if n % 1000 = 0 then w!"tausend"
  else if n % 100 = 0 then w!"hundert"
  else if n % 100 < 20 then De.unitWord w!"eins" (flag v (cp 0 1)) (n % 100)
  else De.tensWord v 0 (n % 100 / 10)

theorem below100_last (v : Var) (r : Nat) (_h0 : r ≠ 0) :
    (ws (De.below100 v 0 r w!"eins")).getLast? =
      some (if r < 20 then De.unitWord w!"eins" (flag v (cp 0 1)) r else De.tensWord v 0 (r / 10)) := by
  by_cases h20 : r < 20
  · rw [below100_lt20 v 0 r _ h20, if_pos h20]; rfl
  · rw [if_neg h20]
    by_cases hu : r % 10 = 0
    · rw [below100_tens v 0 r _ h20 hu]; rfl
    · rw [below100_comp v 0 r _ h20 hu]; rfl

theorem hsA_last (v : Var) (g h : Nat) (first : Bool) (h0 : h ≠ 0) :
    (ws (hsA v g h first)).getLast? = some w!"hundert" := by
  rcases hsA_forms v g h first h0 with e | e | e <;> rw [e] <;> rfl

theorem group0_last (v : Var) (g0 : Nat) (first : Bool) (h0 : g0 ≠ 0) (_h1 : g0 < 1000) :
    (ws (De.group v 0 g0 first w!"eins")).getLast? =
      some (if g0 % 100 = 0 then w!"hundert"
        else if g0 % 100 < 20 then De.unitWord w!"eins" (flag v (cp 0 1)) (g0 % 100)
        else De.tensWord v 0 (g0 % 100 / 10)) := by
  rw [group_eq, ws_append, ws_append]
  by_cases hr : g0 % 100 = 0
  · have hl : linkA v 0 (g0 / 100) (g0 % 100) = [] := by
      unfold linkA; rw [if_neg (by simp [hr])]
    have hb : blA v 0 (g0 % 100) w!"eins" = [] := by
      unfold blA; rw [if_pos (by simp [hr])]
    rw [hl, hb, if_pos hr]
    show (ws (hsA v 0 (g0 / 100) first) ++ [] ++ []).getLast? = _
    rw [List.append_nil, List.append_nil]
    exact hsA_last v 0 _ first (by omega)
  · have hb : blA v 0 (g0 % 100) w!"eins" = De.below100 v 0 (g0 % 100) w!"eins" := by
      unfold blA; rw [if_neg (by simp [hr])]
    rw [hb, if_neg hr, List.getLast?_append, below100_last v _ hr, Option.some_or]

theorem scaled1_last (v : Var) (g1 : Nat) (first : Bool) (h0 : g1 ≠ 0) :
    (ws (De.scaled v 1 g1 first)).getLast? = some w!"tausend" := by
  by_cases hc : (g1 == 1 && first && flag v (cp 1 5)) = true
  · rw [scaled1_drop v g1 first hc]; rfl
  · rw [scaled1_full v g1 first h0 hc, ws_append, List.getLast?_append]
    rfl

theorem cardinalAtoms_low (v : Var) (n : Nat) (h : n < 10 ^ 6) :
    De.cardinalAtoms v n = De.scaled v 1 (n / 1000) true ++ g0A v (n % 1000) (n / 1000 == 0) := by
  rw [cardinalAtoms_eq']
  have e3 : n / 1000000000 % 1000 = 0 := by omega
  have e2 : n / 1000000 % 1000 = 0 := by omega
  have e1 : n / 1000 % 1000 = n / 1000 := by omega
  rw [e3, e2, e1, scaled_zero, scaled_zero]
  rfl

theorem cardinalAtoms_last (v : Var) (n : Nat) (hn : 0 < n) (h : n < 10 ^ 6) :
    (ws (De.cardinalAtoms v n)).getLast? = some (lastWord v n) := by
  rw [cardinalAtoms_low v n h, ws_append]
  unfold lastWord
  by_cases h0 : n % 1000 = 0
  · rw [if_pos h0, h0, g0A_zero]
    show (ws (De.scaled v 1 (n / 1000) true) ++ []).getLast? = _
    rw [List.append_nil]
    exact scaled1_last v _ true (by omega)
  · rw [if_neg h0, g0A_pos v _ _ h0, List.getLast?_append, group0_last v _ _ h0 (by omega), Option.some_or]
    have e : n % 1000 % 100 = n % 100 := by omega
    rw [e]

/-- the atoms of a cardinal `0 < n < 10^6` form one chain -/
theorem chain_cardinalAtoms (v : Var) (n : Nat) (hn : 0 < n) (h : n < 10 ^ 6) :
    Chain (ws (De.cardinalAtoms v n)) := by
  rw [cardinalAtoms_low v n h, ws_append]
  have h1 : n / 1000 < 1000 := by omega
  have h0 : n % 1000 < 1000 := by omega
  by_cases hz0 : n % 1000 = 0
  · rw [hz0, g0A_zero]
    simpa [ws] using (chain_scaled1 v (n / 1000) true (by omega) h1).1
  · rw [g0A_pos v _ _ hz0]
    have cg := chain_group v 0 (n % 1000) (n / 1000 == 0) w!"eins" (Or.inr rfl) hz0 h0
    by_cases hz1 : n / 1000 = 0
    · rw [hz1, scaled_zero]
      rw [hz1] at cg
      exact cg
    · obtain ⟨c1, l1⟩ := chain_scaled1 v (n / 1000) true hz1 h1
      exact Chain.append_last c1 l1 cg

/-! ### the ordinal form of the last atom -/

/-- the cardinal word `a` and the ordinal stem `stem` (which ends in `t`) are bound to the same instruction, and
the ordinal lemma `stem ++ "e"` is an atom of the same class as `a` -/
def Key (a stem : Word) : Prop :=
  ∃ (y : Word) (act : Act), stem = y ++ ['t'] ∧ CardForm a act ∧ OrdForm (y ++ w!"te") act ∧
    (a ∈ G2 → y ++ w!"te" ∈ G2) ∧ (a ∈ P2 → y ++ w!"te" ∈ P2)

/-- `Key` for a plain cardinal word -/
macro "key_plain " y:term ", " act:term : tactic =>
  `(tactic| exact ⟨$y, $act, rfl, Or.inl ⟨by decide, by decide, by rfl, by decide, by decide⟩,
      ⟨by decide, by rfl, by decide, by decide⟩, by decide, by decide⟩)

theorem key_tausend : Key w!"tausend" w!"tausendst" := by key_plain w!"tausends", T2N.De.thousand
theorem key_hundert : Key w!"hundert" w!"hundertst" := by key_plain w!"hunderts", T2N.De.hundred

theorem key_eins : Key w!"eins" w!"erst" :=
  ⟨w!"ers", T2N.De.unit 1, rfl, Or.inr ⟨rfl, rfl⟩, ⟨by decide, by rfl, by decide, by decide⟩,
    by decide, by decide⟩

theorem key_unit (v : Var) (zwo : Bool) (r : Nat) (h0 : r ≠ 0) (h20 : r < 20) (hz : r = 2 → zwo = false) :
    Key (De.unitWord w!"eins" zwo r) (stemOf v r (De.unitWord w!"eins" zwo r)) := by
  have hs : stemOf v r (De.unitWord w!"eins" zwo r) =
      if (r == 7 && flag v (cp 0 10)) = true then w!"siebent" else De.ordUnitStems.getD r [] := by
    unfold stemOf
    rw [if_neg (by simp; omega)]
    have : r = 1 ∨ r = 2 ∨ r = 3 ∨ r = 4 ∨ r = 5 ∨ r = 6 ∨ r = 7 ∨ r = 8 ∨ r = 9 ∨ r = 10 ∨ r = 11 ∨ r = 12 ∨
        r = 13 ∨ r = 14 ∨ r = 15 ∨ r = 16 ∨ r = 17 ∨ r = 18 ∨ r = 19 := by omega
    rcases this with rfl | rfl | rfl | rfl | rfl | rfl | rfl | rfl | rfl | rfl | rfl | rfl | rfl | rfl | rfl |
      rfl | rfl | rfl | rfl <;> rfl
  rw [hs]
  by_cases h1 : r = 1
  · subst h1; exact key_eins
  · by_cases h2 : r = 2
    · subst h2
      rw [hz rfl]
      key_plain w!"zwei", T2N.De.unit 2
    · rw [unitWord_ne_one _ zwo r h1]
      have e : De.unitWord [] zwo r = De.unitWords.getD r [] := by
        unfold De.unitWord
        rw [if_neg (by simpa using h1), if_neg (by simp [h2])]
      rw [e]
      have : r = 3 ∨ r = 4 ∨ r = 5 ∨ r = 6 ∨ r = 7 ∨ r = 8 ∨ r = 9 ∨ r = 10 ∨ r = 11 ∨ r = 12 ∨
          r = 13 ∨ r = 14 ∨ r = 15 ∨ r = 16 ∨ r = 17 ∨ r = 18 ∨ r = 19 := by omega
      rcases this with rfl | rfl | rfl | rfl | rfl | rfl | rfl | rfl | rfl | rfl | rfl | rfl | rfl | rfl | rfl |
        rfl | rfl
      · key_plain w!"drit", T2N.De.unit 3
      · key_plain w!"vier", T2N.De.unit 4
      · key_plain w!"fünf", T2N.De.unit 5
      · key_plain w!"sechs", T2N.De.unit 6
      · cases flag v (cp 0 10)
        · key_plain w!"sieb", T2N.De.unit 7
        · key_plain w!"sieben", T2N.De.unit 7
      · key_plain w!"ach", T2N.De.unit 8
      · key_plain w!"neun", T2N.De.unit 9
      · key_plain w!"zehn", Act.put [1, 0]
      · key_plain w!"elf", Act.put [1, 1]
      · key_plain w!"zwölf", Act.put [1, 2]
      · key_plain w!"dreizehn", Act.put [1, 3]
      · key_plain w!"vierzehn", Act.put [1, 4]
      · key_plain w!"fünfzehn", Act.put [1, 5]
      · key_plain w!"sechzehn", Act.put [1, 6]
      · key_plain w!"siebzehn", Act.put [1, 7]
      · key_plain w!"achtzehn", Act.put [1, 8]
      · key_plain w!"neunzehn", Act.put [1, 9]

theorem key_tens (v v' : Var) (r : Nat) (h20 : 20 ≤ r) (h1 : r < 100) :
    Key (De.tensWord v' 0 (r / 10)) (stemOf v r (De.tensWord v' 0 (r / 10))) := by
  have hs : stemOf v r (De.tensWord v' 0 (r / 10)) = De.tensWord v' 0 (r / 10) ++ w!"st" := by
    unfold stemOf
    rw [if_pos (by simp; omega)]
  rw [hs]
  unfold De.tensWord
  have : r / 10 = 2 ∨ r / 10 = 3 ∨ r / 10 = 4 ∨ r / 10 = 5 ∨ r / 10 = 6 ∨ r / 10 = 7 ∨ r / 10 = 8 ∨ r / 10 = 9 := by
    omega
  rcases this with e | e | e | e | e | e | e | e <;> rw [e] <;> cases flag v' (cp 0 0)
  · key_plain w!"zwanzigs", T2N.De.tens 2
  · key_plain w!"zwanzigs", T2N.De.tens 2
  · key_plain w!"dreißigs", T2N.De.tens 3
  · key_plain w!"dreissigs", T2N.De.tens 3
  · key_plain w!"vierzigs", T2N.De.tens 4
  · key_plain w!"vierzigs", T2N.De.tens 4
  · key_plain w!"fünfzigs", T2N.De.tens 5
  · key_plain w!"fünfzigs", T2N.De.tens 5
  · key_plain w!"sechzigs", T2N.De.tens 6
  · key_plain w!"sechzigs", T2N.De.tens 6
  · key_plain w!"siebzigs", T2N.De.tens 7
  · key_plain w!"siebzigs", T2N.De.tens 7
  · key_plain w!"achtzigs", T2N.De.tens 8
  · key_plain w!"achtzigs", T2N.De.tens 8
  · key_plain w!"neunzigs", T2N.De.tens 9
  · key_plain w!"neunzigs", T2N.De.tens 9

/-- **the last atom of the cardinal and its ordinal stem** -/
theorem key_last (v : Var) (n : Nat) :
    Key (lastWord (ordVar v n) n) (stemOf v (n % 100) (lastWord (ordVar v n) n)) := by
  unfold lastWord
  by_cases h0 : n % 1000 = 0
  · rw [if_pos h0]
    have hr : n % 100 = 0 := by omega
    have : stemOf v (n % 100) w!"tausend" = w!"tausendst" := by unfold stemOf; rw [hr]; rfl
    rw [this]; exact key_tausend
  · rw [if_neg h0]
    by_cases hr : n % 100 = 0
    · rw [if_pos hr]
      have : stemOf v (n % 100) w!"hundert" = w!"hundertst" := by unfold stemOf; rw [hr]; rfl
      rw [this]; exact key_hundert
    · rw [if_neg hr]
      by_cases h20 : n % 100 < 20
      · rw [if_pos h20]
        exact key_unit v _ (n % 100) hr h20 (fun h2 => ordVar_zwo v n h2)
      · rw [if_neg h20]
        exact key_tens v _ (n % 100) (by omega) (by omega)

/-! ### below one million the spelling does not read the `ein(e) Million` choice points -/

/-- `v` with the `ein Million / Milliarde` value forced -/
def einVar (v : Var) : Var := fun i => if i == cp 2 5 || i == cp 3 5 then 1 else v i

theorem einVar_ein (v : Var) : EinVariant (einVar v) := ⟨rfl, rfl⟩

theorem einVar_flag (v : Var) (g j : Nat) (hg : g ≤ 1) (hj : j < 16) :
    flag (einVar v) (cp g j) = flag v (cp g j) := by
  unfold flag einVar
  have : (cp g j == cp 2 5 || cp g j == cp 3 5) = false := by
    simp [cp]; omega
  rw [this]
  rfl

theorem einVar_level (v : Var) : De.level (einVar v) = De.level v := rfl

theorem group_einVar (v : Var) (g n : Nat) (first : Bool) (one : Word) (hg : g ≤ 1) :
    De.group (einVar v) g n first one = De.group v g n first one := by
  unfold De.group De.below100 De.tensWord
  simp only [einVar_flag v g 0 hg (by decide), einVar_flag v g 1 hg (by decide), einVar_flag v g 2 hg (by decide),
    einVar_flag v g 3 hg (by decide), einVar_flag v g 4 hg (by decide), einVar_flag v g 8 hg (by decide)]

theorem scaled1_einVar (v : Var) (n : Nat) (first : Bool) :
    De.scaled (einVar v) 1 n first = De.scaled v 1 n first := by
  unfold De.scaled
  simp only [group_einVar v 1 n first _ (Nat.le_refl 1), einVar_flag v 1 5 (Nat.le_refl 1) (by decide),
    einVar_flag v 1 9 (Nat.le_refl 1) (by decide)]

theorem cardinalAtoms_einVar (v : Var) (n : Nat) (h : n < 10 ^ 6) :
    De.cardinalAtoms (einVar v) n = De.cardinalAtoms v n := by
  rw [cardinalAtoms_low _ n h, cardinalAtoms_low _ n h, scaled1_einVar]
  unfold g0A
  rw [group_einVar v 0 _ _ _ (by decide)]

/-! ### the run of an ordinal -/

theorem flatten_snoc (pre : List Word) (a : Word) : (pre ++ [a]).flatten = pre.flatten ++ a := by simp

/-- the interpreter run of the ordinal of rank `0 < n < 10^6`: the digits of `n`, marked ordinal and frozen -/
theorem ordinal_run (v : Var) (n : Nat) (ending : Word) (hn : 0 < n) (h : n < 10 ^ 6)
    (he : ending ∈ De.inflEndings) :
    ∃ f z, execGroupFrom De.apply (De.ordinal v n ending) DS.new false = .ok (mark .dot (st n f z)) := by
  have hL3 : De.level v ≤ 3 := by
    unfold De.level pick
    rw [if_neg (by decide)]
    omega
  rw [ordinal_eq v n ending (by omega)]
  generalize hF : (fun w => stemOf v (n % 100) w ++ ending) = F
  generalize hA : De.cardinalAtoms (ordVar v n) n = A
  -- the cardinal
  obtain ⟨f, z, W, _, hr, hs⟩ := cardinal_REnd (De.level v) hL3 (einVar (ordVar v n)) n (Nat.lt_trans h (by decide))
    (einVar_ein _)
  rw [cardinalAtoms_einVar _ n h, hA] at hr
  have hchain : Chain (ws A) := by rw [← hA]; exact chain_cardinalAtoms _ n hn h
  have hlast : (ws A).getLast? = some (lastWord (ordVar v n) n) := by rw [← hA]; exact cardinalAtoms_last _ n hn h
  have hAne : A ≠ [] := ws_ne_nil hchain.ne_nil
  -- the last word
  obtain ⟨A1, P, pre, cur', eA, hP, ho, hd, hren⟩ := render_last (De.level v) A [] hAne
  have hc' : cur' = [] := by
    rcases hd with ⟨_, h2, _⟩ | h2
    · exact h2
    · exact h2
  subst hc'
  obtain ⟨pp, a, ewsP, hwsF⟩ := ws_mapLast P hP
  have hchP : Chain (ws P) := by
    have : ws A = ws A1 ++ ws P := by rw [eA, ws_append]
    rw [this] at hchain
    exact Chain.suffix _ _ hchain (by rw [ewsP]; simp)
  have ha : a = lastWord (ordVar v n) n := by
    have : ws A = ws A1 ++ (pp ++ [a]) := by rw [eA, ws_append, ewsP]
    rw [this, ← List.append_assoc, List.getLast?_concat] at hlast
    exact Option.some.inj hlast
  -- the words of the cardinal and of the ordinal
  have hW : W = pre ++ [flat P] := by
    have := hren id
    rw [mapLast_id, mapLast_id, hr] at this
    rw [this, render_end (De.level v) P [] hP ho (by rw [List.nil_append]; exact hchP.flatten_ne_nil)]
    rfl
  obtain ⟨y, act, hstem, hcard, hord, hgap, hpat⟩ := key_last v n
  rw [← ha] at hstem hcard hgap hpat
  have hFa : F a = y ++ ['t'] ++ ending := by rw [← hF]; dsimp only; rw [hstem]
  have hflatF : flat (mapLast F P) = pp.flatten ++ F a := by
    unfold flat; rw [hwsF F, flatten_snoc]
  have hWo : De.render (De.level v) (mapLast F A) [] = pre ++ [pp.flatten ++ F a] := by
    rw [hren F, render_end (De.level v) (mapLast F P) [] (mapLast_ne_nil F P hP) (opensInit_mapLast _ F P ho)
      (by rw [hflatF, hFa]; simp), hflatF]
    rfl
  rw [hWo]
  -- the run of the cardinal
  have hrun : execGroupFrom De.apply (pre ++ [(pp ++ [a]).flatten]) DS.new false = .ok (st n f z) := by
    have := hs []
    rw [List.append_nil, st_zero, hW] at this
    have e : flat P = (pp ++ [a]).flatten := by unfold flat; rw [ewsP]
    rw [e] at this
    show execGroupFrom (De.applyFuel 2) _ DS.new false = _
    rw [this, execGroupFrom, if_neg Bool.false_ne_true]
  -- the last word: cardinal / ordinal pair
  have hle : De.lemmatize (y ++ ['t'] ++ w!"e") = y ++ w!"te" := lemmatize_ord y w!"e" (by decide)
  have hpair : OrdPair De.apply (pp ++ [a]).flatten (pp.flatten ++ F a) .dot := by
    by_cases hpp : pp = []
    · subst hpp
      have e1 : ([] ++ [a] : List Word).flatten = a := by simp
      have e2 : ([] : List Word).flatten ++ F a = F a := rfl
      rw [e1, e2, hFa]
      exact pair_single 1 a _ _ act hcard (lemmatize_ord y ending he) hord
    · have hcP : Chain (pp ++ [a]) := by rw [← ewsP]; exact hchP
      have hcG : ChainG G2 P2 (pp ++ [y ++ w!"te"]) :=
        ChainG.replace_last hgap hpat pp (chainG_of_chain hcP)
      have hl : De.lemmatize (pp.flatten ++ F a) = pp.flatten ++ (y ++ w!"te") := by
        rw [hFa, ← List.append_assoc, ← List.append_assoc, lemmatize_ord (pp.flatten ++ y) ending he,
          List.append_assoc]
      have e : y ++ w!"te" = y ++ ['t'] ++ w!"e" := by simp
      exact pair_compound pp a (y ++ w!"te") (F a) hpp hcP hcG hl
        (pair_single 0 a _ _ act hcard (by rw [← e] at hle; exact hle) hord)
  exact ⟨f, z, EnExt.swap_last De.apply _ _ .dot hpair pre DS.new false _ hrun⟩

/-! ### C04 -/

/-- rendering of a marked number -/
theorem format_mark (n f : Nat) (z : Bool) (hn : n ≠ 0) :
    (mark .dot (st n f z)).isEmpty = false ∧
    De.lang.formatW (mark .dot (st n f z)) = .ok (decChars n ++ w!".", .dec (decDigits n) []) := by
  have hne := lsb_ne_nil hn
  have hrender : (mark .dot (st n f z)).render = decDigits n := by
    show List.replicate 0 0 ++ (lsb n).reverse = _
    rw [lsb_rev_dec n hn]; rfl
  constructor
  · show ((lsb n).isEmpty && (0 : Nat) == 0) = false
    cases hl : lsb n with
    | nil => exact absurd hl hne
    | cons a t => rfl
  · have hrne : (mark .dot (st n f z)).render.isEmpty = false := by
      rw [hrender, ← lsb_rev_dec n hn]
      cases hl : lsb n with
      | nil => exact absurd hl hne
      | cons a t => simp
    unfold Lang.formatW
    rw [hrne, if_neg Bool.false_ne_true]
    show Except.ok (renderChars (mark .dot (st n f z)) ++ Mk.dot.chars, Value.dec (mark .dot (st n f z)).render []) = _
    unfold renderChars decChars
    rw [hrender]
    rfl

/-- rank one million: `millionste` | `einmillionste` -/
theorem ordinal_million (v : Var) (ending : Word) (he : ending ∈ De.inflEndings) :
    text2digitsWords De.lang (De.ordinal v 1000000 ending) = .ok (decChars 1000000 ++ w!".") := by
  have hst : mark .dot (st 1000000 0 false) =
      { rbuf := [0, 0, 0, 0, 0, 0, 1], flags := 0, frozen := true, marker := .ordinal .dot } := by
    unfold mark st
    rw [show (1000000 : Nat) = 10 ^ 6 from rfl, lsb_pow]
    rfl
  have hex : execGroup De.lang.apply (De.ordinal v 1000000 ending) = .ok (mark .dot (st 1000000 0 false)) := by
    rw [hst]
    simp only [De.inflEndings, List.mem_cons, List.not_mem_nil, or_false] at he
    unfold De.ordinal
    rw [if_pos (by decide)]
    rcases he with rfl | rfl | rfl | rfl | rfl <;> cases flag v (cp 0 11) <;> rfl
  unfold text2digitsWords
  rw [hex]
  dsimp only
  rw [(format_mark 1000000 0 false (by decide)).1, if_neg Bool.false_ne_true, (format_mark 1000000 0 false (by decide)).2]

/-- **C04 for German, unbounded**: the ordinal of every rank `0 < n ≤ 10^6`, with every declension ending
(`-e`, `-er`, `-es`, `-en`, `-em`), at every split level and in every spelling variant, validates to the digits
of `n` followed by `.` — no restriction on the variant function (ranks up to one million do not use the
`ein(e) Million` choice point) -/
theorem C04_validate_de (v : Spec.Var) (n : Nat) (ending : Word) (hn : 0 < n) (h : n ≤ 10 ^ 6)
    (he : ending ∈ Spec.De.inflEndings) :
    text2digitsWords De.lang (Spec.De.ordinal v n ending) = .ok (decChars n ++ w!".") := by
  by_cases hm : n = 1000000
  · subst hm; exact ordinal_million v ending he
  · have hn' : n ≠ 0 := by omega
    obtain ⟨f, z, hex⟩ := ordinal_run v n ending hn (by omega) he
    have hex' : execGroup De.lang.apply (Spec.De.ordinal v n ending) = .ok (mark .dot (st n f z)) := hex
    unfold text2digitsWords
    rw [hex']
    dsimp only
    rw [(format_mark n f z hn').1, if_neg Bool.false_ne_true, (format_mark n f z hn').2]

/-- the statement on the uniform face of the speller: every inflection index -/
theorem C04_speller_de (v : Spec.Var) (n i : Nat) (ws : List Word) (mk : Word) (hn : 0 < n) (h : n ≤ 10 ^ 6)
    (hs : Spec.De.speller.ordinal v n i = some (ws, mk)) :
    text2digitsWords De.lang ws = .ok (decChars n ++ mk) := by
  have hs' : (if (n == 0 || decide (n > 1000000)) = true then none
      else match De.inflEndings[i]? with
        | some e => some (De.ordinal v n e, w!".")
        | none => none) = some (ws, mk) := hs
  rw [if_neg (by simp; omega)] at hs'
  cases hi : De.inflEndings[i]? with
  | none => rw [hi] at hs'; exact absurd hs' (by simp)
  | some e =>
    rw [hi] at hs'
    have he : e ∈ De.inflEndings := List.mem_of_getElem? hi
    have e1 : De.ordinal v n e = ws := by
      have := Option.some.inj hs'
      exact congrArg Prod.fst this
    have e2 : w!"." = mk := by
      have := Option.some.inj hs'
      exact congrArg Prod.snd this
    rw [← e1, ← e2]
    exact C04_validate_de v n e hn h he

/-- the scanner (threshold 0) finds the spelled ordinal as one occurrence -/
theorem C04_scan_de (v : Spec.Var) (n : Nat) (ending : Word) (hn : 0 < n) (h : n ≤ 10 ^ 6)
    (he : ending ∈ Spec.De.inflEndings) :
    occTexts De.lang zeroThr (Spec.De.ordinal v n ending) = some [decChars n ++ w!"."] :=
  scan_of_validate_de _ _ (C04_validate_de v n ending hn h he)

theorem C04_scan_speller_de (v : Spec.Var) (n i : Nat) (ws : List Word) (mk : Word) (hn : 0 < n) (h : n ≤ 10 ^ 6)
    (hs : Spec.De.speller.ordinal v n i = some (ws, mk)) :
    occTexts De.lang zeroThr ws = some [decChars n ++ mk] :=
  scan_of_validate_de _ _ (C04_speller_de v n i ws mk hn h hs)

example : text2digitsWords De.lang (Spec.De.ordinal (fun _ => 0) 999999 w!"es") = .ok (decChars 999999 ++ w!".") :=
  C04_validate_de _ _ _ (by decide) (by decide) (by decide)
example : text2digitsWords De.lang (Spec.De.ordinal (fun i => if i = 7 then 2 else 1) 1107 w!"en") =
    .ok (decChars 1107 ++ w!".") := C04_validate_de _ _ _ (by decide) (by decide) (by decide)
example : Spec.De.ordinal (fun i => if i = 7 then 2 else 1) 1107 w!"en" = [w!"tausend", w!"einhundert", w!"und", w!"siebenten"] := by
  decide

end T2N.ExtDe
