/-
  T2N.Lemmas.C01Es — the unbounded cardinal round-trip for Spanish (property C01):
  for every `n < 10^12` and every variant function `v`, validating `Spec.Es.cardinal v n` with the model
  of the Spanish interpreter yields the decimal digits of `n`.

  Same structure as `T2N.Lemmas.C01En` (whose language-independent lemmas on `lsb`, `mk`, `put`, `shift`,
  `rangeFree` are reused):
  * `Plain w a`: the word `w` carries no morphological marker (`morph w = .none`) and its lemma is bound to
    the instruction `a`; `apply_plain`: on the states `mk r` (marker `none`) `Es.apply w` is `a.exec`;
  * one step lemma per kind of word (`unit_apply`, `put2_apply`, `hundred_apply`, `y_apply`, `mil_apply`,
    `mil_apply_one`, `millon_apply`);
  * `Steps ws N N'` and the composition `below100_steps`, `group_steps`, `thousands_steps`,
    `millions_steps`, `cardinal_steps`;
  * `C01_validate_es`.
-/
import T2N.Model.Es
import T2N.Model.Scanner
import T2N.Spec.SpellEs
import T2N.Lemmas.DS
import T2N.Lemmas.Act
import T2N.Lemmas.C01En

namespace T2N.C01Es
open T2N T2N.Spec
open T2N.C01En (lsb lsb_zero lsb_pos lsb_cons lsb_digit lsb_ne_nil lsb_rev_dec lsb_length_ge2 lsb_mul_pow
  lsb_add_pow lsb_length_le mk mk_nil put1_lsb put2_lsb shift_empty shift_top shift_lsb rangeFree_lsb
  isEmpty_append)

/-! ## the vocabulary -/

/-- `w` carries no marker and its lemma is bound to instruction `a` -/
def Plain (w : Word) (a : Act) : Prop :=
  Es.morph w = .none ∧ Es.vocab.lookup (Es.lemmatize w) = some a

/-- on a cardinal state (marker `none`) a plain word just runs its instruction; the marker stays `none` -/
theorem apply_plain (w : Word) (a : Act) (r r' : List Nat) (res : Res) (k : Nat) (h : Plain w a)
    (he : a.exec (mk r) = (res, mk r', k)) : Es.apply w (mk r) = (res, mk r') := by
  unfold Es.apply
  dsimp only
  rw [h.1, h.2]
  have hc : (!(mk r).isEmpty && Marker.none != (mk r).marker && !Marker.none.isFraction) = false := by
    have : (Marker.none != (mk r).marker) = false := rfl
    rw [this]; simp
  rw [hc, if_neg Bool.false_ne_true, Option.getD_some, he]
  cases res with
  | none => rfl
  | some e => rfl

theorem plain_unit (d : Nat) (h2 : 2 ≤ d) (h9 : d < 10) : Plain (Es.unitWord d) (T2N.Es.unit d) := by
  have : d = 2 ∨ d = 3 ∨ d = 4 ∨ d = 5 ∨ d = 6 ∨ d = 7 ∨ d = 8 ∨ d = 9 := by omega
  rcases this with rfl | rfl | rfl | rfl | rfl | rfl | rfl | rfl <;> exact ⟨by decide, by rfl⟩

theorem plain_one (f : Nat) : Plain (Es.oneWord f) (T2N.Es.unit 1) := by
  unfold Es.oneWord
  split <;> exact ⟨by decide, by rfl⟩

theorem plain_twentyOne (f : Nat) : Plain (Es.twentyOneWord f) (.put [2, 1]) := by
  unfold Es.twentyOneWord
  split <;> exact ⟨by decide, by rfl⟩

/-- `diez` … `veintinueve` (21 is `twentyOneWord`) -/
theorem plain_teen (r : Nat) (h10 : 10 ≤ r) (h30 : r < 30) (h21 : r ≠ 21) :
    Plain (Es.unitWord r) (.put [r / 10, r % 10]) := by
  have : r = 10 ∨ r = 11 ∨ r = 12 ∨ r = 13 ∨ r = 14 ∨ r = 15 ∨ r = 16 ∨ r = 17 ∨ r = 18 ∨ r = 19 ∨
      r = 20 ∨ r = 22 ∨ r = 23 ∨ r = 24 ∨ r = 25 ∨ r = 26 ∨ r = 27 ∨ r = 28 ∨ r = 29 := by omega
  rcases this with rfl | rfl | rfl | rfl | rfl | rfl | rfl | rfl | rfl | rfl |
      rfl | rfl | rfl | rfl | rfl | rfl | rfl | rfl | rfl <;> exact ⟨by decide, by rfl⟩

theorem plain_tens (t : Nat) (h3 : 3 ≤ t) (h9 : t < 10) : Plain (Es.tensWord t) (.put [t, 0]) := by
  have : t = 3 ∨ t = 4 ∨ t = 5 ∨ t = 6 ∨ t = 7 ∨ t = 8 ∨ t = 9 := by omega
  rcases this with rfl | rfl | rfl | rfl | rfl | rfl | rfl <;> exact ⟨by decide, by rfl⟩

theorem plain_cien : Plain w!"cien" (.put [1, 0, 0]) := ⟨by decide, by rfl⟩

theorem plain_ciento : Plain w!"ciento" (.put [1, 0, 0]) := ⟨by decide, by rfl⟩

/-- `doscientos`, `doscientas` … `novecientos`, `novecientas`: the lemmatizer strips the plural `s` -/
theorem plain_hundred (h : Nat) (fem : Bool) (h2 : 2 ≤ h) (h9 : h < 10) :
    Plain (Es.hundredWord h fem) (.put [h, 0, 0]) := by
  have : h = 2 ∨ h = 3 ∨ h = 4 ∨ h = 5 ∨ h = 6 ∨ h = 7 ∨ h = 8 ∨ h = 9 := by omega
  rcases this with rfl | rfl | rfl | rfl | rfl | rfl | rfl | rfl <;> cases fem <;> exact ⟨by decide, by rfl⟩

theorem plain_y : Plain w!"y" (.when (.lenGe 2) (.fail .incomplete)) := ⟨by decide, by rfl⟩

theorem plain_mil : Plain w!"mil" T2N.Es.mil := ⟨by decide, by rfl⟩

/-- `millón`, `millon`, `millones` (lemma `millon`) -/
theorem plain_millon (v : Var) (plural : Bool) : Plain (Es.millionWord v plural) T2N.Es.millon := by
  unfold Es.millionWord
  cases plural
  · rw [if_neg Bool.false_ne_true]
    cases flag v (cp 2 4)
    · rw [if_neg Bool.false_ne_true]; exact ⟨by decide, by rfl⟩
    · rw [if_pos rfl]; exact ⟨by decide, by rfl⟩
  · rw [if_pos rfl]; exact ⟨by decide, by rfl⟩

/-! ## arithmetic form of the builder operations on `mk (lsb N)` -/

theorem put3_lsb (d N : Nat) (h0 : d ≠ 0) (h9 : d < 10) (hN : N % 1000 = 0) :
    (mk (lsb N)).put [d, 0, 0] = (none, mk (lsb (N + 100 * d))) := by
  have ed : lsb (0 + 10 * (0 + 10 * (d + 10 * 0))) = [0, 0, d] := by
    rw [lsb_cons 0 _ (by decide) (Or.inr (by omega)), lsb_cons 0 _ (by decide) (Or.inr (by omega)),
      lsb_cons d 0 h9 (Or.inl h0), lsb_zero]
  by_cases hz : N = 0
  · subst hz
    have e : 0 + 100 * d = 0 + 10 * (0 + 10 * (d + 10 * 0)) := by omega
    rw [e, ed, lsb_zero]
    simp [DS.put, mk, allZero, h0]
  · obtain ⟨m, rfl⟩ : ∃ m, N = 0 + 10 * (0 + 10 * (0 + 10 * m)) := ⟨N / 1000, by omega⟩
    have hm : m ≠ 0 := by omega
    have e : 0 + 10 * (0 + 10 * (0 + 10 * m)) + 100 * d = 0 + 10 * (0 + 10 * (d + 10 * m)) := by omega
    rw [e, lsb_cons 0 _ (by decide) (Or.inr (by omega)), lsb_cons 0 _ (by decide) (Or.inr (by omega)),
      lsb_cons 0 m (by decide) (Or.inr hm), lsb_cons 0 _ (by decide) (Or.inr (by omega)),
      lsb_cons 0 _ (by decide) (Or.inr (by omega)), lsb_cons d m h9 (Or.inl h0)]
    simp [DS.put, mk, allZero, h0]

theorem unit_guard_lsb (N : Nat) (hN : N % 10 = 0) (hx1 : N / 10 % 10 ≠ 1) (hx2 : N / 10 % 10 ≠ 2) :
    (Guard.and (.neg (.peekEq 2 [1, 0])) (.neg (.peekEq 2 [2, 0]))).eval (mk (lsb N)) = true := by
  by_cases hz : N = 0
  · subst hz; rw [lsb_zero]; rfl
  · obtain ⟨x, m, rfl, hx9, hx1, hx2⟩ : ∃ x m, N = 0 + 10 * (x + 10 * m) ∧ x < 10 ∧ x ≠ 1 ∧ x ≠ 2 :=
      ⟨N / 10 % 10, N / 100, by omega, by omega, by omega, by omega⟩
    rw [lsb_cons 0 _ (by decide) (Or.inr (by omega)), lsb_cons x m hx9 (by omega)]
    simp [Guard.eval, DS.peek, mk, hx1, hx2]

/-! ## one lemma per kind of word: state `N` ↦ state `N'` -/

/-- `un(o/a)`, `dos` … `nueve`: not after `diez` / `veinte` -/
theorem unit_apply (w : Word) (d N : Nat) (hw : Plain w (T2N.Es.unit d)) (h0 : d ≠ 0) (h9 : d < 10)
    (hN : N % 10 = 0) (hx1 : N / 10 % 10 ≠ 1) (hx2 : N / 10 % 10 ≠ 2) :
    Es.apply w (mk (lsb N)) = (none, mk (lsb (N + d))) := by
  refine apply_plain w _ _ _ _ 0 hw ?_
  simp only [T2N.Es.unit, Act.when, Act.exec]
  rw [if_pos (unit_guard_lsb N hN hx1 hx2), put1_lsb d N h0 h9 hN]

/-- `diez` … `veintinueve`, `treinta` … `noventa` -/
theorem put2_apply (w : Word) (a b N : Nat) (hw : Plain w (.put [a, b])) (h0 : a ≠ 0) (h9 : a < 10)
    (hb : b < 10) (hN : N % 100 = 0) :
    Es.apply w (mk (lsb N)) = (none, mk (lsb (N + (10 * a + b)))) := by
  refine apply_plain w _ _ _ _ 0 hw ?_
  simp only [Act.exec]
  rw [put2_lsb a b N h0 h9 hb hN]

/-- `cien`, `ciento`, `doscientos` … -/
theorem hundred_apply (w : Word) (d N : Nat) (hw : Plain w (.put [d, 0, 0])) (h0 : d ≠ 0) (h9 : d < 10)
    (hN : N % 1000 = 0) :
    Es.apply w (mk (lsb N)) = (none, mk (lsb (N + 100 * d))) := by
  refine apply_plain w _ _ _ _ 0 hw ?_
  simp only [Act.exec]
  rw [put3_lsb d N h0 h9 hN]

/-- `y` is accepted as `Incomplete` and leaves the builder alone -/
theorem y_apply (N : Nat) (hN : 10 ≤ N) :
    Es.apply w!"y" (mk (lsb N)) = (some .incomplete, mk (lsb N)) := by
  refine apply_plain _ _ _ _ _ 0 plain_y ?_
  have hg : (Guard.lenGe 2).eval (mk (lsb N)) = true := by
    have := lsb_length_ge2 hN
    simp only [Guard.eval, DS.len, mk]
    simp; omega
  simp only [Act.when, Act.exec]
  rw [if_pos hg]

/-! ### scale words -/

/-- the buffer is not exactly `1` (the guard of `mil` that rejects `un mil`) -/
theorem peek1_lsb (M : Nat) (hM : M ≠ 1) : (Guard.peekEq 2 [1]).eval (mk (lsb M)) = false := by
  by_cases hz : M = 0
  · subst hz; rw [lsb_zero]; rfl
  · by_cases h10 : M < 10
    · rw [lsb_digit M h10 hz]
      simp [Guard.eval, DS.peek, mk, hM]
    · rw [lsb_pos hz, lsb_pos (n := M / 10) (by omega)]
      simp [Guard.eval, DS.peek, mk]

/-- `<g> mil`, `2 ≤ g ≤ 999`, above an arbitrary multiple of 10^6 -/
theorem mil_apply (N0 g : Nat) (hN : N0 % 10 ^ 6 = 0) (g2 : 2 ≤ g) (g1 : g < 1000) :
    Es.apply w!"mil" (mk (lsb (N0 + g))) = (none, mk (lsb (N0 + g * 1000))) := by
  obtain ⟨A, rfl⟩ : ∃ A, N0 = 10 ^ (3 + 3) * A := ⟨N0 / 10 ^ 6, by
    rw [Nat.mul_comm, Nat.div_mul_cancel (Nat.dvd_of_mod_eq_zero hN)]⟩
  rw [Nat.add_comm _ g, Nat.add_comm _ (g * _)]
  refine apply_plain _ _ _ _ _ 0 plain_mil ?_
  simp only [T2N.Es.mil, Act.when, Act.exec]
  have hg : (Guard.rangeFree 3 5).eval (mk (lsb (g + 10 ^ (3 + 3) * A))) = true :=
    rangeFree_lsb 3 g A (by decide) g1
  have hp : (Guard.peekEq 2 [1]).eval (mk (lsb (g + 10 ^ (3 + 3) * A))) = false := peek1_lsb _ (by omega)
  have hs : (mk (lsb (g + 10 ^ (3 + 3) * A))).shift 3 =
      (none, mk (lsb (g * 10 ^ 3 + 10 ^ (3 + 3) * A))) := shift_lsb 3 g A (by decide) (by omega) g1
  rw [if_pos hg, hp, if_neg Bool.false_ne_true, hs]

/-- bare `mil` (implicit `1`) above an arbitrary multiple of 10^6 -/
theorem mil_apply_one (N0 : Nat) (hN : N0 % 10 ^ 6 = 0) :
    Es.apply w!"mil" (mk (lsb N0)) = (none, mk (lsb (N0 + 1000))) := by
  refine apply_plain _ _ _ _ _ 0 plain_mil ?_
  simp only [T2N.Es.mil, Act.when, Act.exec]
  by_cases hz : N0 = 0
  · subst hz
    have e : lsb (0 + 1000) = List.replicate 3 0 ++ [1] := by
      have := lsb_mul_pow 1 3 (by decide)
      rw [lsb_digit 1 (by decide) (by decide)] at this
      exact this
    rw [e, lsb_zero]
    have hg : (Guard.rangeFree 3 5).eval (mk []) = true := rfl
    have hp' : (Guard.peekEq 2 [1]).eval (mk []) = false := rfl
    rw [if_pos hg, hp', if_neg Bool.false_ne_true, shift_empty 3 (by decide)]
  · obtain ⟨A, rfl⟩ : ∃ A, N0 = 0 + 10 * (0 + 10 * (0 + 10 * (0 + 10 * (0 + 10 * (0 + 10 * A))))) :=
      ⟨N0 / 10 ^ 6, by omega⟩
    have hA : A ≠ 0 := by omega
    have e : 0 + 10 * (0 + 10 * (0 + 10 * (0 + 10 * (0 + 10 * (0 + 10 * A))))) + 1000 =
        0 + 10 * (0 + 10 * (0 + 10 * (1 + 10 * (0 + 10 * (0 + 10 * A))))) := by omega
    rw [e, lsb_cons 0 _ (by decide) (Or.inr (by omega)), lsb_cons 0 _ (by decide) (Or.inr (by omega)),
      lsb_cons 0 _ (by decide) (Or.inr (by omega)), lsb_cons 0 _ (by decide) (Or.inr (by omega)),
      lsb_cons 0 _ (by decide) (Or.inr (by omega)), lsb_cons 0 A (by decide) (Or.inr hA),
      lsb_cons 0 _ (by decide) (Or.inr (by omega)), lsb_cons 0 _ (by decide) (Or.inr (by omega)),
      lsb_cons 0 _ (by decide) (Or.inr (by omega)), lsb_cons 1 _ (by decide) (Or.inl (by decide)),
      lsb_cons 0 _ (by decide) (Or.inr (by omega)), lsb_cons 0 A (by decide) (Or.inr hA)]
    have hg : (Guard.rangeFree 3 5).eval (mk (0 :: 0 :: 0 :: 0 :: 0 :: 0 :: lsb A)) = true := by
      simp [Guard.eval, DS.rangeFree, mk, allZero]
    have hs : (mk (0 :: 0 :: 0 :: 0 :: 0 :: 0 :: lsb A)).shift 3 =
        (none, mk (0 :: 0 :: 0 :: 1 :: 0 :: 0 :: lsb A)) := by
      rw [shift_eq _ _ rfl (by decide)]
      have hb : (if (mk (0 :: 0 :: 0 :: 0 :: 0 :: 0 :: lsb A)).rbuf.isEmpty then [1]
          else (mk (0 :: 0 :: 0 :: 0 :: 0 :: 0 :: lsb A)).rbuf) = 0 :: 0 :: 0 :: 0 :: 0 :: 0 :: lsb A := rfl
      rw [hb]
      have : DS.shiftBuf (0 :: 0 :: 0 :: 0 :: 0 :: 0 :: lsb A) 3 = some (0 :: 0 :: 0 :: 1 :: 0 :: 0 :: lsb A) := by
        simp [DS.shiftBuf, DS.shiftSig, allZero]
      rw [this]; rfl
    have hp' : (Guard.peekEq 2 [1]).eval (mk (0 :: 0 :: 0 :: 0 :: 0 :: 0 :: lsb A)) = false := by
      simp [Guard.eval, DS.peek, mk]
    rw [if_pos hg, hp', if_neg Bool.false_ne_true, hs]

/-- `millón` / `millon` / `millones` after a millions count `1 ≤ M < 10^6` (the whole buffer) -/
theorem millon_apply (w : Word) (M : Nat) (hw : Plain w T2N.Es.millon) (M0 : M ≠ 0) (M1 : M < 10 ^ 6) :
    Es.apply w (mk (lsb M)) = (none, mk (lsb (M * 10 ^ 6))) := by
  refine apply_plain w _ _ _ _ 0 hw ?_
  simp only [T2N.Es.millon, Act.when, Act.exec]
  have hlen := lsb_length_le 6 M M1
  have hg : (Guard.rangeFree 6 8).eval (mk (lsb M)) = true := by
    simp only [Guard.eval, DS.rangeFree, mk]
    simp; left; exact hlen
  rw [if_pos hg, shift_top (lsb M) 6 (lsb_ne_nil M0) hlen (by decide), lsb_mul_pow M 6 M0]

/-! ## sequences of words -/

/-- running `ws` (then anything) from state `N` is running the rest from state `N'` -/
def Steps (ws : List Word) (N N' : Nat) : Prop :=
  ∀ rest, execGroupFrom Es.apply (ws ++ rest) (mk (lsb N)) false = execGroupFrom Es.apply rest (mk (lsb N')) false

theorem Steps.nil (N : Nat) : Steps [] N N := fun _ => rfl

theorem Steps.append {a b : List Word} {N N' N'' : Nat} (h1 : Steps a N N') (h2 : Steps b N' N'') :
    Steps (a ++ b) N N'' := by
  intro rest; rw [List.append_assoc, h1, h2]

theorem Steps.single {w : Word} {N N' : Nat} (h : Es.apply w (mk (lsb N)) = (none, mk (lsb N'))) :
    Steps [w] N N' := by
  intro rest
  rw [List.singleton_append, execGroupFrom, h]

theorem Steps.cast {ws : List Word} {N N' M : Nat} (h : Steps ws N N') (e : N' = M) : Steps ws N M := e ▸ h

/-- `y` is accepted as `Incomplete`, leaves the builder alone, and the next word resets the flag -/
theorem Steps.y {w : Word} {N N' : Nat} (hN : 10 ≤ N) (h : Es.apply w (mk (lsb N)) = (none, mk (lsb N'))) :
    Steps [w!"y", w] N N' := by
  intro rest
  show execGroupFrom Es.apply (w!"y" :: w :: rest) (mk (lsb N)) false = _
  rw [execGroupFrom, y_apply N hN]
  dsimp only
  rw [execGroupFrom, h]

/-! ## the spelling, group by group -/

/-- `1 ≤ r ≤ 99` on a state whose two low positions are free, any form `f` of a final unit 1, with or
without `y` -/
theorem below100_steps (v : Var) (g r f N : Nat) (h0 : r ≠ 0) (h1 : r < 100) (hN : N % 100 = 0) :
    Steps (Es.below100 v g r f) N (N + r) := by
  unfold Es.below100
  by_cases e1 : r = 1
  · subst e1
    rw [if_pos (by decide)]
    exact Steps.single (unit_apply _ 1 N (plain_one f) (by decide) (by decide) (by omega) (by omega) (by omega))
  · rw [if_neg (by simp [e1])]
    by_cases e21 : r = 21
    · subst e21
      rw [if_pos (by decide)]
      exact (Steps.single (put2_apply _ 2 1 N (plain_twentyOne f) (by decide) (by decide) (by decide) hN)).cast
        (by omega)
    · rw [if_neg (by simp [e21])]
      by_cases h30 : r < 30
      · rw [if_pos h30]
        by_cases h10 : r < 10
        · exact Steps.single (unit_apply _ r N (plain_unit r (by omega) h10) h0 h10 (by omega) (by omega) (by omega))
        · exact (Steps.single (put2_apply _ (r / 10) (r % 10) N (plain_teen r (by omega) h30 e21) (by omega)
            (by omega) (by omega) hN)).cast (by omega)
      · rw [if_neg h30]
        dsimp only
        have s1 : Steps [Es.tensWord (r / 10)] N (N + 10 * (r / 10)) :=
          (Steps.single (put2_apply _ (r / 10) 0 N (plain_tens (r / 10) (by omega) (by omega)) (by omega)
            (by omega) (by decide) hN)).cast (by omega)
        by_cases hu : r % 10 = 0
        · rw [if_pos (by simp [hu])]
          exact s1.cast (by omega)
        · rw [if_neg (by simp [hu])]
          have hw : Plain (if (r % 10 == 1) = true then Es.oneWord f else Es.unitWord (r % 10))
              (T2N.Es.unit (r % 10)) := by
            by_cases u1 : r % 10 = 1
            · rw [if_pos (by simp [u1]), u1]; exact plain_one f
            · rw [if_neg (by simp [u1])]; exact plain_unit _ (by omega) (by omega)
          generalize (if (r % 10 == 1) = true then Es.oneWord f else Es.unitWord (r % 10)) = uw at hw
          have ha := unit_apply uw (r % 10) (N + 10 * (r / 10)) hw hu (by omega) (by omega) (by omega) (by omega)
          cases hf : flag v (cp g 0)
          · rw [if_neg Bool.false_ne_true]
            exact (Steps.append s1 (Steps.y (by omega) ha)).cast (by omega)
          · rw [if_pos rfl]
            exact (Steps.append s1 (Steps.single ha)).cast (by omega)

/-- **per-group theorem**: a group `1 ≤ n ≤ 999` spelled on a state whose three low positions are free
(arbitrary higher part) adds `n`, for every gender / `y` variant -/
theorem group_steps (v : Var) (g n N : Nat) (_n0 : n ≠ 0) (n1 : n < 1000) (hN : N % 1000 = 0) :
    Steps (Es.group v g n) N (N + n) := by
  unfold Es.group
  dsimp only
  have hs : Steps (if (n / 100 == 0) = true then []
      else if (n / 100 == 1) = true then (if (n % 100 == 0) = true then [w!"cien"] else [w!"ciento"])
      else [Es.hundredWord (n / 100) (Es.isFem v g)]) N (N + 100 * (n / 100)) := by
    by_cases hh : n / 100 = 0
    · rw [if_pos (by simp [hh])]
      exact (Steps.nil N).cast (by omega)
    · rw [if_neg (by simp [hh])]
      by_cases hh1 : n / 100 = 1
      · rw [if_pos (by simp [hh1]), hh1]
        by_cases hr : n % 100 = 0
        · rw [if_pos (by simp [hr])]
          exact Steps.single (hundred_apply _ 1 N plain_cien (by decide) (by decide) hN)
        · rw [if_neg (by simp [hr])]
          exact Steps.single (hundred_apply _ 1 N plain_ciento (by decide) (by decide) hN)
      · rw [if_neg (by simp [hh1])]
        exact Steps.single (hundred_apply _ (n / 100) N (plain_hundred _ _ (by omega) (by omega)) hh (by omega) hN)
  generalize (if (n / 100 == 0) = true then []
      else if (n / 100 == 1) = true then (if (n % 100 == 0) = true then [w!"cien"] else [w!"ciento"])
      else [Es.hundredWord (n / 100) (Es.isFem v g)]) = hsw at hs
  by_cases hr : n % 100 = 0
  · rw [if_pos (by simp [hr]), List.append_nil]
    exact hs.cast (by omega)
  · rw [if_neg (by simp [hr])]
    exact (Steps.append hs (below100_steps v g (n % 100) (Es.oneForm v g) _ hr (by omega) (by omega))).cast
      (by omega)

/-- `<group> mil` (bare `mil` for 1) above an arbitrary multiple of 10^6 -/
theorem thousands_steps (v : Var) (g n N : Nat) (n1 : n < 1000) (hN : N % 10 ^ 6 = 0) :
    Steps (Es.thousands v g n) N (N + n * 1000) := by
  unfold Es.thousands
  by_cases h0 : n = 0
  · rw [if_pos (by simp [h0])]
    exact (Steps.nil N).cast (by omega)
  · rw [if_neg (by simp [h0])]
    by_cases h1 : n = 1
    · rw [if_pos (by simp [h1])]
      exact (Steps.single (mil_apply_one N hN)).cast (by omega)
    · rw [if_neg (by simp [h1])]
      exact Steps.append (group_steps v g n N h0 n1 (by omega)) (Steps.single (mil_apply N n hN (by omega) n1))

/-- the millions part `[<g3> mil] [<g2>] millón|millon|millones`: the buffer holds the 6-digit count
`g3·1000 + g2`, which `shift 6` moves as a whole -/
theorem millions_steps (v : Var) (g3 g2 : Nat) (h3 : g3 < 1000) (h2 : g2 < 1000) :
    Steps (Es.thousands v 3 g3 ++
      (if (g3 == 0 && g2 == 0) = true then []
       else (if (g2 == 0) = true then [] else Es.group v 2 g2) ++ [Es.millionWord v (!(g3 == 0 && g2 == 1))]))
      0 ((g3 * 1000 + g2) * 1000000) := by
  have s3 := thousands_steps v 3 g3 0 h3 (Nat.zero_mod _)
  refine Steps.append s3 ?_
  by_cases hc : (g3 == 0 && g2 == 0) = true
  · rw [if_pos hc]
    simp only [Bool.and_eq_true, beq_iff_eq] at hc
    rw [hc.1, hc.2]
    exact Steps.nil _
  · rw [if_neg hc]
    have hne : ¬ (g3 = 0 ∧ g2 = 0) := by simpa using hc
    have sg : Steps (if (g2 == 0) = true then [] else Es.group v 2 g2) (0 + g3 * 1000) (g3 * 1000 + g2) := by
      by_cases hg : g2 = 0
      · rw [if_pos (by simp [hg])]
        exact (Steps.nil _).cast (by omega)
      · rw [if_neg (by simp [hg])]
        exact (group_steps v 2 g2 _ hg h2 (by omega)).cast (by omega)
    have e6 : (10 : Nat) ^ 6 = 1000000 := by decide
    have hm := millon_apply _ (g3 * 1000 + g2) (plain_millon v (!(g3 == 0 && g2 == 1))) (by omega)
      (by rw [e6]; omega)
    rw [e6] at hm
    exact Steps.append sg (Steps.single hm)

theorem cardinal_steps (v : Var) (n : Nat) (hn : n ≠ 0) (h : n < 10 ^ 12) : Steps (Es.cardinal v n) 0 n := by
  unfold Es.cardinal
  have hn' : (n == 0) = false := by simp [hn]
  rw [hn', if_neg Bool.false_ne_true]
  dsimp only
  obtain ⟨g3, hg3⟩ : ∃ g3, g3 = n / 1000000000 % 1000 := ⟨_, rfl⟩
  obtain ⟨g2, hg2⟩ : ∃ g2, g2 = n / 1000000 % 1000 := ⟨_, rfl⟩
  obtain ⟨g1, hg1⟩ : ∃ g1, g1 = n / 1000 % 1000 := ⟨_, rfl⟩
  obtain ⟨g0, hg0⟩ : ∃ g0, g0 = n % 1000 := ⟨_, rfl⟩
  rw [← hg3, ← hg2, ← hg1, ← hg0]
  have sm := millions_steps v g3 g2 (by omega) (by omega)
  have s1 := thousands_steps v 1 g1 ((g3 * 1000 + g2) * 1000000) (by omega) (by omega)
  have shi := Steps.append sm s1
  have hsum : (g3 * 1000 + g2) * 1000000 + g1 * 1000 + g0 = n := by omega
  generalize (Es.thousands v 3 g3 ++
      (if (g3 == 0 && g2 == 0) = true then []
       else (if (g2 == 0) = true then [] else Es.group v 2 g2) ++ [Es.millionWord v (!(g3 == 0 && g2 == 1))])) ++
      Es.thousands v 1 g1 = hi at shi
  by_cases hz0 : g0 = 0
  · rw [if_pos (by simp [hz0]), List.append_nil]
    exact shi.cast (by rw [← hsum, hz0, Nat.add_zero])
  · rw [if_neg (by simp [hz0])]
    exact (Steps.append shi (group_steps v 0 g0 _ hz0 (by omega) (by omega))).cast hsum

/-- **C01 for Spanish, unbounded**: every cardinal below 10^12, in every accepted spelling variant
(`y` present / absent, gender of the hundreds and of the unit 1, apocope, `millón` / `millon`,
long-scale `<g3> mil <g2> millones`), validates to its decimal digits. -/
theorem C01_validate_es (v : T2N.Spec.Var) (n : Nat) (h : n < 10 ^ 12) :
    T2N.text2digitsWords T2N.Es.lang (T2N.Spec.Es.cardinal v n) = .ok (T2N.Spec.decChars n) := by
  by_cases hn : n = 0
  · subst hn
    have e : decChars 0 = ['0'] := by
      unfold decChars; rw [decDigits, if_pos (by decide)]; decide
    rw [e]
    show text2digitsWords T2N.Es.lang [w!"cero"] = _
    decide
  · have hs := cardinal_steps v n hn h []
    rw [List.append_nil, lsb_zero, mk_nil] at hs
    have hex : execGroup T2N.Es.lang.apply (Es.cardinal v n) = .ok (mk (lsb n)) := by
      show execGroupFrom T2N.Es.apply (Es.cardinal v n) DS.new false = _
      rw [hs, execGroupFrom, if_neg Bool.false_ne_true]
    have hne := lsb_ne_nil hn
    have hemp : (mk (lsb n)).isEmpty = false := by
      show ((lsb n).isEmpty && (0 : Nat) == 0) = false
      cases hl : lsb n with
      | nil => exact absurd hl hne
      | cons a t => rfl
    have hrender : (mk (lsb n)).render = decDigits n := by
      show List.replicate 0 0 ++ (lsb n).reverse = _
      rw [lsb_rev_dec n hn]; rfl
    have hrne : (mk (lsb n)).render.isEmpty = false := by
      rw [hrender, ← lsb_rev_dec n hn]
      cases hl : lsb n with
      | nil => exact absurd hl hne
      | cons a t => simp
    unfold text2digitsWords
    rw [hex]
    dsimp only
    rw [hemp, if_neg Bool.false_ne_true]
    unfold Lang.formatW
    rw [hrne, if_neg Bool.false_ne_true]
    show ValOut.ok (renderChars (mk (lsb n))) = _
    unfold renderChars decChars
    rw [hrender]

/-- the hypothesis is satisfiable; instances with every variant switch off / on (feminine, no `y`,
`millon`) and the long-scale nesting `<g3> mil <g2> millones <g1> mil <g0>` -/
example : T2N.text2digitsWords T2N.Es.lang (T2N.Spec.Es.cardinal (fun _ => 0) 321001231451) =
    .ok (T2N.Spec.decChars 321001231451) := C01_validate_es _ _ (by decide)

example : T2N.text2digitsWords T2N.Es.lang (T2N.Spec.Es.cardinal (fun _ => 1) 123456789012) =
    .ok (T2N.Spec.decChars 123456789012) := C01_validate_es _ _ (by decide)

end T2N.C01Es
