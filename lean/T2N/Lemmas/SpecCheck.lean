/-
  T2N.Lemmas.SpecCheck — Boolean checkers relating the specification spellers (T2N/Spec) to the model
  of the code (T2N/Model); used by the kernel-evaluated instance tables of C01, C04, C05, C08, C16.
-/
import T2N.Lemmas.SimpleCC
import T2N.Spec.Spellers
import T2N.Model.Langs

namespace T2N
open T2N.Spec

/-- three fixed variant functions: the standard spelling and two others that flip every choice point
differently -/
def tableVar : Nat → Var
  | 0 => fun _ => 0
  | 1 => fun _ => 1
  | _ => fun i => (i * 7 + 3) % 5

/-- validation of the spelled cardinal gives the digits; the scanner (threshold 0) finds exactly one
number with those digits -/
def cardOk (l : Lang) (sp : Speller) (k n : Nat) : Bool :=
  let ws := sp.cardinal (tableVar k) n
  text2digitsWords l ws == .ok (decChars n) && occTexts l zeroThr ws == some [decChars n]

def ordOk (l : Lang) (sp : Speller) (k i n : Nat) : Bool :=
  match sp.ordinal (tableVar k) n i with
  | none => true
  | some (ws, mk) =>
    text2digitsWords l ws == .ok (decChars n ++ mk) && occTexts l zeroThr ws == some [decChars n ++ mk]

def zerosOk (l : Lang) (sp : Speller) (k z n : Nat) : Bool :=
  let ws := List.replicate z sp.zeroWord ++ sp.cardinal (tableVar k) n
  let want := List.replicate z '0' ++ decChars n
  text2digitsWords l ws == .ok want && occTexts l zeroThr ws == some [want]

def zeroAfterOk (l : Lang) (sp : Speller) (n : Nat) : Bool :=
  occTexts l zeroThr (sp.cardinal (tableVar 0) n ++ [sp.zeroWord]) == some [decChars n, ['0']]

/-- digits of `d` written with exactly `len` digits (leading zeros) -/
def fixedDigits (len d : Nat) : List Nat :=
  (List.range len).reverse.map (fun i => d / 10 ^ i % 10)

def decOk (l : Lang) (sp : Speller) (thr : Nat → Bool) (n len d : Nat) : Bool :=
  let ds := fixedDigits len d
  let ws := sp.cardinal (tableVar 0) n ++ [sp.sepWord] ++ sp.fraction (tableVar 0) ds
  occTexts l thr ws == some [decChars n ++ [sp.decMark] ++ ds.map digitChar]

def dictOk (l : Lang) (sp : Speller) (len d : Nat) : Bool :=
  let ds := fixedDigits len d
  occTexts l zeroThr (ds.map sp.digitWord) == some ((dictationGroups ds).map (fun g => g.map digitChar))

end T2N
