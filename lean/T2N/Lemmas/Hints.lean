/-
  T2N.Lemmas.Hints — what the two token hints (`nt_separated` → `cfg.sep tok prev`, and
  `not_a_number_part` → `tok.nan`) do at the level of the reported occurrences.

  1. cuts: a tracker state `Cut t k c` from which no occurrence can ever contain a position `< k`
     together with a position `≥ c + 1`; it is preserved by every later `push`; it is established by a
     token hinted "not a number part" (`k = pos + 1, c = pos`: the token is in no occurrence; such a token
     is never skipped, `isSkipped_of_nan`) and by a
     token hinted "separated from its predecessor" (`k = c = pos`: no occurrence contains the token and
     anything before it).
  2. the position shift by one from position `i` on (`shiftS i`), a function on scanner states which
     commutes with `push` at positions `≥ i`; with it: speaking a comma before the hinted token gives
     the same occurrences (shifted by one).
  3. the look-ahead of the lazy iterator: `lookahead` (bound on the tokens consumed when the k-th
     occurrence is returned) and `drive_minimal` (the loop stops at the first push that decides something).
-/
import T2N.Lemmas.Agree
import T2N.Lemmas.Reset
import T2N.Lemmas.Iter
import T2N.Lemmas.SimpleCC

namespace T2N.Hints
open T2N

/-- a token hinted "not a number part" is never skipped: it always goes through `pushNan` -/
theorem isSkipped_of_nan (cfg : ScanCfg) (tok : Tok) (h : tok.nan = true) :
    Scanner.isSkipped cfg tok = false := by
  unfold Scanner.isSkipped; rw [h]; rfl

/-! ### the predecessor of a token: the last token before it that the scanner does not skip -/

def prevFrom (cfg : ScanCfg) : Option Tok → List Tok → Option Tok
  | p, [] => p
  | p, t :: ts => prevFrom cfg (if Scanner.isSkipped cfg t then p else some t) ts

/-- the last token of `ts` that is not skipped (a lone `-` or whitespace is skipped, unless it is hinted
"not a number part") -/
def prevSig (cfg : ScanCfg) (ts : List Tok) : Option Tok := prevFrom cfg none ts

theorem prevFrom_eq (cfg : ScanCfg) : ∀ (ts : List Tok) (p : Option Tok),
    prevFrom cfg p ts = ((ts.filter (fun t => !Scanner.isSkipped cfg t)).getLast?).or p := by
  intro ts
  induction ts with
  | nil => intro p; simp [prevFrom]
  | cons t ts ih =>
    intro p
    unfold prevFrom
    rw [ih]
    by_cases hs : Scanner.isSkipped cfg t = true
    · simp [hs]
    · have hs' : Scanner.isSkipped cfg t = false := by simpa using hs
      simp only [hs', Bool.false_eq_true, if_false, List.filter_cons, Bool.not_false, if_true]
      rw [List.getLast?_cons]
      cases (List.filter (fun t => !Scanner.isSkipped cfg t) ts).getLast? <;> simp

theorem prevSig_eq (cfg : ScanCfg) (ts : List Tok) :
    prevSig cfg ts = (ts.filter (fun t => !Scanner.isSkipped cfg t)).getLast? := by
  unfold prevSig; rw [prevFrom_eq]; simp

theorem pushAll_previous (cfg : ScanCfg) : ∀ (ts : List Tok) (s s' : Scanner) (pos : Nat),
    Scanner.pushAll cfg s (enumFrom pos ts) = .ok s' → s'.previous = prevFrom cfg s.previous ts := by
  intro ts
  induction ts with
  | nil => intro s s' pos h; simp only [enumFrom, Scanner.pushAll] at h; cases h; rfl
  | cons t ts ih =>
    intro s s' pos h
    simp only [enumFrom, Scanner.pushAll] at h
    cases h1 : s.push cfg pos t with
    | error f => rw [h1] at h; cases h
    | ok s1 =>
      rw [h1] at h
      dsimp only at h
      rw [ih s1 s' (pos + 1) h]
      rw [show prevFrom cfg s.previous (t :: ts) =
        prevFrom cfg (if Scanner.isSkipped cfg t then s.previous else some t) ts from rfl]
      by_cases hs : Scanner.isSkipped cfg t = true
      · unfold Scanner.push at h1
        rw [if_pos hs] at h1; cases h1
        rw [if_pos hs]
      · have hs' : Scanner.isSkipped cfg t = false := by simpa using hs
        rw [push_previous cfg s s1 pos t hs' h1, if_neg hs]

/-! ### the run over a prefix -/

theorem pushAll_inv (cfg : ScanCfg) (hl : LangOk cfg.lang) (ts : List Tok) (s : Scanner) (pos : Nat)
    (hsc : ScInv s pos) (hsi : SInv s) :
    ∃ s', Scanner.pushAll cfg s (enumFrom pos ts) = .ok s' ∧ SInv s' ∧ ScInv s' (pos + ts.length) := by
  induction ts generalizing s pos with
  | nil => exact ⟨s, rfl, hsi, hsc⟩
  | cons t ts ih =>
    obtain ⟨s1, e1, i1⟩ := push_ok cfg s pos t hsc
    have hs1 := push_strict cfg hl s s1 pos t hsi hsc.2.1 e1
    obtain ⟨s', e2, a, b⟩ := ih s1 (pos + 1) i1 hs1
    refine ⟨s', ?_, a, ?_⟩
    · simp only [enumFrom, Scanner.pushAll, e1, e2]
    · simpa [Nat.add_assoc, Nat.add_comm 1] using b

theorem split_at (toks : List Tok) (i : Nat) (hi : i < toks.length) :
    toks = toks.take i ++ toks[i] :: toks.drop (i + 1) := by
  rw [List.getElem_cons_drop, List.take_append_drop]

theorem length_take_lt (toks : List Tok) (i : Nat) (hi : i < toks.length) : (toks.take i).length = i := by
  rw [List.length_take]; omega

/-! ### 1. cuts -/

/-- no decided occurrence contains both a position `< k` and a position `> c`, and the open match
(if any) starts at `k` or later -/
def Cut (t : Tracker) (k c : Nat) : Prop :=
  (∀ o ∈ t.queue ++ t.onHold.toList, ¬ (o.start < k ∧ c < o.stop)) ∧
  (k ≤ t.mstart ∨ (t.mstart = t.mend ∧ t.mend ≤ c))

theorem Cut.weaken {t : Tracker} {k c k' : Nat} (h : Cut t k c) (hk : k' ≤ k) : Cut t k' c := by
  obtain ⟨h1, h2⟩ := h
  refine ⟨fun o ho hc => h1 o ho ⟨by omega, hc.2⟩, ?_⟩
  rcases h2 with h2 | h2
  · exact Or.inl (by omega)
  · exact Or.inr h2

theorem Cut.of_closed {t : Tracker} {pos k c : Nat} (h : TrInv t pos) (hc : t.mstart = t.mend)
    (hm : t.mend ≤ c) : Cut t k c := by
  refine ⟨?_, Or.inr ⟨hc, hm⟩⟩
  intro o ho hcon
  have := h.2.2.stop_le o ho
  omega

theorem Cut.advanced {t : Tracker} {k c pos : Nat} (h : Cut t k c) (hk : k ≤ pos) :
    Cut (t.advanced pos) k c := by
  obtain ⟨h1, h2⟩ := h
  refine ⟨h1, Or.inl ?_⟩
  unfold Tracker.advanced
  dsimp only
  by_cases he : (t.mstart == t.mend) = true
  · rw [if_pos he]; exact hk
  · rw [if_neg he]
    rcases h2 with h2 | ⟨h2, _⟩
    · exact h2
    · exact absurd (by simpa using h2) he

theorem Cut.breaker {t : Tracker} {k c : Nat} (h : Cut t k c) : Cut t.breaker k c := h

theorem Cut.numberEnd {t : Tracker} {k c : Nat} (h : Cut t k c) (hle : t.mstart ≤ t.mend)
    (o : Bool) (tx : Word) (v : Value) (f : Bool) : Cut (t.numberEnd o tx v f) k c := by
  obtain ⟨h1, h2⟩ := h
  obtain ⟨b1, b2⟩ := Tracker.numberEnd_bounds t o tx v f
  refine ⟨?_, ?_⟩
  · intro x hx
    rcases Tracker.numberEnd_mem t o tx v f x hx with hm | hm
    · exact h1 x hm
    · subst hm
      dsimp only
      rcases h2 with h2 | ⟨h2, h3⟩ <;> omega
  · rw [b1, b2]
    rcases h2 with h2 | ⟨h2, h3⟩
    · exact Or.inl (by omega)
    · exact Or.inr ⟨rfl, h3⟩

theorem numberEnd_cut (cfg : ScanCfg) (s s1 : Scanner) (k c : Nat) (h : Cut s.tracker k c)
    (hle : s.tracker.mstart ≤ s.tracker.mend) (he : s.numberEnd cfg = .ok s1) : Cut s1.tracker k c := by
  unfold Scanner.numberEnd at he
  cases hf : s.parser.finish cfg.lang with
  | error f => rw [hf] at he; cases he
  | ok r =>
    rw [hf] at he
    cases he
    exact h.numberEnd hle _ _ _ _

theorem outside_cut (cfg : ScanCfg) (s : Scanner) (tok : Tok) (k c : Nat) (h : Cut s.tracker k c) :
    Cut (s.outside cfg tok).tracker k c := by
  rw [outside_eq]
  split
  · exact h
  · exact h

theorem pushNan_cut (cfg : ScanCfg) (s s' : Scanner) (tok : Tok) (k c : Nat) (h : Cut s.tracker k c)
    (hle : s.tracker.mstart ≤ s.tracker.mend) (he : Scanner.pushNan cfg s tok = .ok s') :
    Cut s'.tracker k c := by
  unfold Scanner.pushNan at he
  by_cases hn : s.parser.hasNumber = true
  · rw [if_pos hn] at he
    cases h1 : s.numberEnd cfg with
    | error f => rw [h1] at he; cases he
    | ok s1 =>
      rw [h1] at he; cases he
      exact outside_cut cfg s1 tok k c (numberEnd_cut cfg s s1 k c h hle h1)
  · rw [if_neg hn] at he; cases he
    exact outside_cut cfg s tok k c h

theorem pushRejected_cut (cfg : ScanCfg) (s s' : Scanner) (pos : Nat) (tok : Tok) (k c : Nat)
    (h : Cut s.tracker k c) (hle : s.tracker.mstart ≤ s.tracker.mend) (hk : k ≤ pos)
    (he : Scanner.pushRejected cfg s pos tok = .ok s') : Cut s'.tracker k c := by
  unfold Scanner.pushRejected at he
  by_cases hn : s.parser.hasNumber = true
  · rw [if_pos hn] at he
    cases h1 : s.numberEnd cfg with
    | error f => rw [h1] at he; cases he
    | ok s1 =>
      rw [h1] at he
      dsimp only at he
      have hc1 := numberEnd_cut cfg s s1 k c h hle h1
      by_cases hr : (s1.parser.push cfg.lang tok.lower).1.isNone = true
      · rw [if_pos hr] at he; cases he
        exact hc1.advanced hk
      · rw [if_neg hr] at he
        by_cases hinc : ((s1.parser.push cfg.lang tok.lower).1 == some Err.incomplete) = true
        · rw [if_pos hinc] at he; cases he
          exact hc1
        · rw [if_neg hinc] at he; cases he
          exact outside_cut cfg { s1 with parser := (s1.parser.push cfg.lang tok.lower).2 } tok k c hc1
  · rw [if_neg hn] at he; cases he
    exact outside_cut cfg s tok k c h

/-- **a cut is never undone**: later pushes keep it -/
theorem push_cut (cfg : ScanCfg) (s s' : Scanner) (pos : Nat) (tok : Tok) (k c : Nat)
    (h : Cut s.tracker k c) (hle : s.tracker.mstart ≤ s.tracker.mend) (hk : k ≤ pos)
    (he : s.push cfg pos tok = .ok s') : Cut s'.tracker k c := by
  unfold Scanner.push at he
  by_cases hs : Scanner.isSkipped cfg tok = true
  · rw [if_pos hs] at he; cases he; exact h
  rw [if_neg hs] at he
  by_cases hnan : tok.nan = true
  · rw [if_pos hnan] at he; exact pushNan_cut cfg s s' tok k c h hle he
  rw [if_neg hnan] at he
  dsimp only at he
  cases hr : (s.parser.push cfg.lang (Scanner.testWord cfg s tok)).1 with
  | none => rw [hr] at he; cases he; exact h.advanced hk
  | some e =>
    cases e with
    | incomplete => rw [hr] at he; cases he; exact h
    | overlap => rw [hr] at he; exact pushRejected_cut cfg { s with parser := (s.parser.push cfg.lang (Scanner.testWord cfg s tok)).2 } s' pos tok k c h hle hk he
    | nan => rw [hr] at he; exact pushRejected_cut cfg { s with parser := (s.parser.push cfg.lang (Scanner.testWord cfg s tok)).2 } s' pos tok k c h hle hk he
    | frozen => rw [hr] at he; exact pushRejected_cut cfg { s with parser := (s.parser.push cfg.lang (Scanner.testWord cfg s tok)).2 } s' pos tok k c h hle hk he

theorem pushAll_cut (cfg : ScanCfg) (k c : Nat) : ∀ (ts : List Tok) (s s' : Scanner) (pos : Nat),
    ScInv s pos → Cut s.tracker k c → k ≤ pos → Scanner.pushAll cfg s (enumFrom pos ts) = .ok s' →
    Cut s'.tracker k c ∧ ∃ n, ScInv s' n := by
  intro ts
  induction ts with
  | nil => intro s s' pos hsc h _ he; simp only [enumFrom, Scanner.pushAll] at he; cases he; exact ⟨h, pos, hsc⟩
  | cons t ts ih =>
    intro s s' pos hsc h hk he
    simp only [enumFrom, Scanner.pushAll] at he
    obtain ⟨s1, e1, i1⟩ := push_ok cfg s pos t hsc
    rw [e1] at he
    exact ih s1 s' (pos + 1) i1 (push_cut cfg s s1 pos t k c h hsc.1 hk e1) (by omega) he

theorem finalize_cut (cfg : ScanCfg) (s s' : Scanner) (k c : Nat) (h : Cut s.tracker k c)
    (hle : s.tracker.mstart ≤ s.tracker.mend) (he : s.finalize cfg = .ok s') : Cut s'.tracker k c := by
  unfold Scanner.finalize at he
  by_cases hn : s.parser.hasNumber = true
  · rw [if_pos hn] at he; exact numberEnd_cut cfg s s' k c h hle he
  · rw [if_neg hn] at he; cases he; exact h

/-- a cut made by the token after the prefix `A` is visible in the result of the batch search -/
theorem findNumbers_cut (cfg : ScanCfg) (hl : LangOk cfg.lang) (A B : List Tok) (t : Tok) (k c : Nat)
    (occs : List Occ) (hk : k ≤ A.length + 1)
    (hstep : ∀ s s', Scanner.pushAll cfg {} (enumFrom 0 A) = .ok s → ScInv s A.length → SInv s →
      s.push cfg A.length t = .ok s' → Cut s'.tracker k c)
    (h : findNumbers cfg (A ++ t :: B) = .ok occs) : ∀ o ∈ occs, ¬ (o.start < k ∧ c < o.stop) := by
  obtain ⟨sA, eA, iA, cA⟩ := pushAll_inv cfg hl A {} 0 TrInv.init SInv.init
  rw [Nat.zero_add] at cA
  obtain ⟨s1, e1, c1⟩ := push_ok cfg sA A.length t cA
  have hcut1 := hstep sA s1 eA cA iA e1
  unfold findNumbers at h
  rw [enumFrom_append, Scanner.pushAll_append, eA] at h
  simp only [enumFrom, Scanner.pushAll, Nat.zero_add, e1] at h
  cases e2 : Scanner.pushAll cfg s1 (enumFrom (A.length + 1) B) with
  | error f => rw [e2] at h; cases h
  | ok s2 =>
    rw [e2] at h
    dsimp only at h
    obtain ⟨hcut2, n, hsc2⟩ := pushAll_cut cfg k c B s1 s2 (A.length + 1) c1 hcut1 hk e2
    cases e3 : s2.finalize cfg with
    | error f => rw [e3] at h; cases h
    | ok s3 =>
      rw [e3] at h
      cases h
      have hcut3 := finalize_cut cfg s2 s3 k c hcut2 hsc2.1 e3
      intro o ho
      exact hcut3.1 o (List.mem_append_left _ ho)

/-! #### a token hinted "not a number part" makes a cut around itself -/

theorem numberEnd_closed (cfg : ScanCfg) (s s1 : Scanner) (pos : Nat) (hsc : ScInv s pos)
    (he : s.numberEnd cfg = .ok s1) :
    s1.tracker.mstart = s1.tracker.mend ∧ s1.tracker.mend ≤ pos ∧ ScInv s1 pos ∧ s1.parser = {} := by
  have hp := numberEnd_parser cfg s s1 he
  unfold Scanner.numberEnd at he
  cases hf : s.parser.finish cfg.lang with
  | error f => rw [hf] at he; cases he
  | ok r =>
    rw [hf] at he
    cases he
    obtain ⟨b1, b2⟩ := Tracker.numberEnd_bounds s.tracker s.parser.isOrdinal r.1 r.2
      ((utf8Len r.1 == 1 || s.parser.isOrdinal) && cfg.small r.2)
    refine ⟨?_, ?_, TrInv.numberEnd hsc _ _ _ _, hp⟩
    · dsimp only; rw [b1, b2]
    · dsimp only; rw [b2]; exact hsc.2.1

theorem push_nan_cut (cfg : ScanCfg) (s s' : Scanner) (pos : Nat) (tok : Tok) (hsc : ScInv s pos)
    (hsi : SInv s) (hnan : tok.nan = true)
    (he : s.push cfg pos tok = .ok s') : Cut s'.tracker (pos + 1) pos := by
  have hs := isSkipped_of_nan cfg tok hnan
  unfold Scanner.push at he
  rw [if_neg (by rw [hs]; simp), if_pos hnan] at he
  unfold Scanner.pushNan at he
  by_cases hn : s.parser.hasNumber = true
  · rw [if_pos hn] at he
    cases h1 : s.numberEnd cfg with
    | error f => rw [h1] at he; cases he
    | ok s1 =>
      rw [h1] at he; cases he
      obtain ⟨a1, a2, a3, _⟩ := numberEnd_closed cfg s s1 pos hsc h1
      exact outside_cut cfg s1 tok _ _ (Cut.of_closed a3 a1 a2)
  · rw [if_neg hn] at he; cases he
    have hcl := hsi.closed (by simpa using hn)
    exact outside_cut cfg s tok _ _ (Cut.of_closed hsc hcl hsc.2.1)

/-! #### a token hinted "separated from its predecessor" makes a cut in front of itself -/

theorem testWord_sep (cfg : ScanCfg) (s : Scanner) (tok prev : Tok) (hp : s.previous = some prev)
    (hsep : cfg.sep tok prev = true) (hn : s.parser.hasNumber = true) :
    Scanner.testWord cfg s tok = [','] := by
  unfold Scanner.testWord; rw [hp]; simp [hn, hsep]

theorem push_sep_cut (cfg : ScanCfg) (hl : LangOk cfg.lang) (hc : cfg.lang.Rejects [',']) (s s' : Scanner)
    (pos : Nat) (tok prev : Tok) (hsc : ScInv s pos) (hsi : SInv s) (hp : s.previous = some prev)
    (hsep : cfg.sep tok prev = true) (hs : Scanner.isSkipped cfg tok = false)
    (he : s.push cfg pos tok = .ok s') : Cut s'.tracker pos pos := by
  by_cases hnan : tok.nan = true
  · exact (push_nan_cut cfg s s' pos tok hsc hsi hnan he).weaken (by omega)
  by_cases hn : s.parser.hasNumber = true
  · -- a number is open: the word tested is the forced stop
    unfold Scanner.push at he
    rw [if_neg (by rw [hs]; simp), if_neg hnan, testWord_sep cfg s tok prev hp hsep hn] at he
    dsimp only at he
    obtain ⟨e, hr, hne⟩ := hc s.parser
    obtain ⟨_, _, f3⟩ := parser_push_facts cfg.lang hl s.parser hsi.1 [',']
    have hn' : (s.parser.push cfg.lang [',']).2.hasNumber = true := by rw [f3 e hr]; exact hn
    have key : Scanner.pushRejected cfg { s with parser := (s.parser.push cfg.lang [',']).2 } pos tok = .ok s' := by
      cases e with
      | incomplete => exact absurd rfl hne
      | overlap => rw [hr] at he; exact he
      | nan => rw [hr] at he; exact he
      | frozen => rw [hr] at he; exact he
    unfold Scanner.pushRejected at key
    rw [if_pos hn'] at key
    cases h1 : Scanner.numberEnd cfg { s with parser := (s.parser.push cfg.lang [',']).2 } with
    | error f => rw [h1] at key; cases key
    | ok s1 =>
      rw [h1] at key
      dsimp only at key
      obtain ⟨a1, a2, a3, _⟩ := numberEnd_closed cfg _ s1 pos (show ScInv { s with parser := (s.parser.push cfg.lang [',']).2 } pos from hsc) h1
      have hc1 : Cut s1.tracker pos pos := Cut.of_closed a3 a1 a2
      by_cases hr2 : (s1.parser.push cfg.lang tok.lower).1.isNone = true
      · rw [if_pos hr2] at key; cases key
        exact hc1.advanced (Nat.le_refl _)
      · rw [if_neg hr2] at key
        by_cases hinc : ((s1.parser.push cfg.lang tok.lower).1 == some Err.incomplete) = true
        · rw [if_pos hinc] at key; cases key
          exact hc1
        · rw [if_neg hinc] at key; cases key
          exact outside_cut cfg { s1 with parser := (s1.parser.push cfg.lang tok.lower).2 } tok _ _ hc1
  · -- no number is open: no match is open, whatever the token does it cannot extend one
    have hcl := hsi.closed (by simpa using hn)
    exact push_cut cfg s s' pos tok pos pos (Cut.of_closed hsc hcl hsc.2.1) hsc.1 (Nat.le_refl _) he

/-! ### 2. the shift by one from position `i` on -/

/-- new start of a span `[a, b)` when a token is inserted at position `i` -/
def sA (i a b : Nat) : Nat := if i ≤ a ∧ i < b then a + 1 else a
/-- new end of a span `[a, b)` when a token is inserted at position `i` -/
def sB (i b : Nat) : Nat := if i < b then b + 1 else b

/-- an occurrence after a token has been inserted at position `i` (on occurrences that do not straddle
`i` this is `shiftFrom i`: all or nothing) -/
def shiftOcc (i : Nat) (o : Occ) : Occ := { o with start := sA i o.start o.stop, stop := sB i o.stop }

def shiftT (i : Nat) (t : Tracker) : Tracker :=
  { t with queue := t.queue.map (shiftOcc i), onHold := t.onHold.map (shiftOcc i),
           mstart := sA i t.mstart t.mend, mend := sB i t.mend }

def shiftS (i : Nat) (s : Scanner) : Scanner := { s with tracker := shiftT i s.tracker }

def mapShift (i : Nat) : Except Fault Scanner → Except Fault Scanner
  | .ok s => .ok (shiftS i s)
  | .error f => .error f

theorem sA_self (i b : Nat) : sA i b b = sB i b := by
  unfold sA sB
  by_cases h : i < b
  · rw [if_pos ⟨by omega, h⟩, if_pos h]
  · rw [if_neg (fun hc => h hc.2), if_neg h]

theorem shiftT_advanced (i pos : Nat) (t : Tracker) (hp : i ≤ pos) (hle : t.mstart ≤ t.mend) :
    (shiftT i t).advanced (pos + 1) = shiftT i (t.advanced pos) := by
  cases t with
  | mk q h l a b =>
    have hle' : a ≤ b := hle
    show (⟨q.map (shiftOcc i), h.map (shiftOcc i), l,
        if (sA i a b == sB i b) = true then pos + 1 else sA i a b, pos + 1 + 1⟩ : Tracker) =
      ⟨q.map (shiftOcc i), h.map (shiftOcc i), l, sA i (if (a == b) = true then pos else a) (pos + 1),
        sB i (pos + 1)⟩
    have hb : sB i (pos + 1) = pos + 1 + 1 := by unfold sB; rw [if_pos (by omega)]
    rw [hb]
    congr 1
    by_cases hab : a = b
    · subst hab
      have h2 : (sA i a a == sB i a) = true := by rw [sA_self]; simp
      rw [if_pos h2, if_pos (by simp)]
      unfold sA; rw [if_pos ⟨hp, by omega⟩]
    · have h1 : ¬ ((a == b) = true) := by simpa using hab
      have h2 : ¬ ((sA i a b == sB i b) = true) := by
        unfold sA sB
        simp only [beq_iff_eq]
        split <;> split <;> omega
      rw [if_neg h1, if_neg h2]
      unfold sA
      split <;> split <;> omega

theorem shiftT_numberEnd (i : Nat) (t : Tracker) (o : Bool) (tx : Word) (v : Value) (f : Bool) :
    (shiftT i t).numberEnd o tx v f = shiftT i (t.numberEnd o tx v f) := by
  have hm := sA_self i t.mend
  unfold Tracker.numberEnd
  dsimp only
  generalize (if o = true then Kind.ordinal else Kind.cardinal) = kind
  have hl : (shiftT i t).last = t.last := rfl
  rw [hl]
  by_cases hc : (t.last == kind) = true
  · rw [if_pos hc, if_pos hc]
    simp only [shiftT, shiftOcc, hm, List.map_append, List.map_cons, List.map_nil, Option.map_none]
    cases t.onHold <;> simp [shiftOcc]
  · rw [if_neg hc, if_neg hc]
    by_cases hf : f = true
    · rw [if_pos hf, if_pos hf]
      simp only [shiftT, shiftOcc, hm, Option.map_some]
    · rw [if_neg hf, if_neg hf]
      simp only [shiftT, shiftOcc, hm, List.map_append, List.map_cons, List.map_nil, Option.map_none]

theorem shiftOcc_below (i : Nat) (o : Occ) (h : o.stop ≤ i) : shiftOcc i o = o := by
  cases o with
  | mk a b tx v od =>
    have hb : b ≤ i := h
    simp only [shiftOcc, sA, sB]
    rw [if_neg (by omega), if_neg (by omega)]

theorem shiftT_below (i : Nat) (t : Tracker) (h : TrInv t i) : shiftT i t = t := by
  obtain ⟨h1, h2, h3⟩ := h
  have hall := h3.stop_le
  cases t with
  | mk q hd l a b =>
    have h1' : a ≤ b := h1
    have h2' : b ≤ i := h2
    have hq : q.map (shiftOcc i) = q := by
      have : ∀ o ∈ q, shiftOcc i o = o := by
        intro o ho
        apply shiftOcc_below
        have := hall o (List.mem_append_left _ ho)
        simp only at this
        omega
      rw [List.map_congr_left this]; simp
    have hh : hd.map (shiftOcc i) = hd := by
      cases hd with
      | none => rfl
      | some x =>
        have := hall x (List.mem_append_right _ (by simp [Option.toList]))
        simp only at this
        simp only [Option.map_some]
        rw [shiftOcc_below i x (by omega)]
    simp only [shiftT, hq, hh, sA, sB]
    rw [if_neg (by omega), if_neg (by omega)]

theorem shiftS_below (i : Nat) (s : Scanner) (h : ScInv s i) : shiftS i s = s := by
  unfold shiftS; rw [shiftT_below i s.tracker h]

/-! #### `push` commutes with the shift -/

theorem shiftS_numberEnd (cfg : ScanCfg) (i : Nat) (s : Scanner) :
    (shiftS i s).numberEnd cfg = mapShift i (s.numberEnd cfg) := by
  unfold Scanner.numberEnd
  show (match (s.parser.finish cfg.lang) with | .error f => _ | .ok (text, value) => _) = _
  cases s.parser.finish cfg.lang with
  | error f => rfl
  | ok r =>
    obtain ⟨text, value⟩ := r
    simp only [mapShift, shiftS]
    rw [shiftT_numberEnd]

theorem shiftS_outside (cfg : ScanCfg) (i : Nat) (s : Scanner) (tok : Tok) :
    (shiftS i s).outside cfg tok = shiftS i (s.outside cfg tok) := by
  unfold Scanner.outside
  split <;> rfl

theorem shiftS_pushNan (cfg : ScanCfg) (i : Nat) (s : Scanner) (tok : Tok) :
    Scanner.pushNan cfg (shiftS i s) tok = mapShift i (Scanner.pushNan cfg s tok) := by
  unfold Scanner.pushNan
  show (match (if s.parser.hasNumber = true then (shiftS i s).numberEnd cfg else .ok (shiftS i s)) with
        | .error f => _ | .ok s1 => _) = _
  by_cases hn : s.parser.hasNumber = true
  · rw [if_pos hn, if_pos hn, shiftS_numberEnd]
    cases s.numberEnd cfg with
    | error f => rfl
    | ok s1 => simp only [mapShift]; rw [shiftS_outside]; rfl
  · rw [if_neg hn, if_neg hn]
    simp only [mapShift]; rw [shiftS_outside]; rfl

theorem shiftS_pushRejected (cfg : ScanCfg) (i : Nat) (s : Scanner) (pos : Nat) (tok : Tok) (hp : i ≤ pos)
    (hsc : ScInv s pos) :
    Scanner.pushRejected cfg (shiftS i s) (pos + 1) tok = mapShift i (Scanner.pushRejected cfg s pos tok) := by
  unfold Scanner.pushRejected
  show (if s.parser.hasNumber = true then _ else _) = _
  by_cases hn : s.parser.hasNumber = true
  · rw [if_pos hn, if_pos hn, shiftS_numberEnd]
    cases h1 : s.numberEnd cfg with
    | error f => rfl
    | ok s1 =>
      obtain ⟨a1, _, _, _⟩ := numberEnd_closed cfg s s1 pos hsc h1
      simp only [mapShift]
      show Except.ok _ = Except.ok _
      congr 1
      by_cases hr : (s1.parser.push cfg.lang tok.lower).1.isNone = true
      · simp only [shiftS, hr, if_true]
        rw [shiftT_advanced i pos s1.tracker hp (by omega)]
      · by_cases hinc : ((s1.parser.push cfg.lang tok.lower).1 == some Err.incomplete) = true
        · simp only [shiftS, hr, hinc, Bool.false_eq_true, if_false, if_true]
        · simp only [shiftS, hr, hinc, Bool.false_eq_true, if_false]
          have := shiftS_outside cfg i { s1 with parser := (s1.parser.push cfg.lang tok.lower).2 } tok
          simp only [shiftS] at this
          rw [this]
  · rw [if_neg hn, if_neg hn]
    simp only [mapShift]; rw [shiftS_outside]; rfl

theorem shiftS_push (cfg : ScanCfg) (i : Nat) (s : Scanner) (pos : Nat) (tok : Tok) (hp : i ≤ pos)
    (hsc : ScInv s pos) :
    (shiftS i s).push cfg (pos + 1) tok = mapShift i (s.push cfg pos tok) := by
  unfold Scanner.push
  by_cases hs : Scanner.isSkipped cfg tok = true
  · rw [if_pos hs, if_pos hs]; rfl
  rw [if_neg hs, if_neg hs]
  by_cases hnan : tok.nan = true
  · rw [if_pos hnan, if_pos hnan]; exact shiftS_pushNan cfg i s tok
  rw [if_neg hnan, if_neg hnan]
  have htw : Scanner.testWord cfg (shiftS i s) tok = Scanner.testWord cfg s tok := rfl
  show (match (s.parser.push cfg.lang (Scanner.testWord cfg (shiftS i s) tok)).1 with
    | none => _ | some .incomplete => _ | some _ => _) = _
  rw [htw]
  cases hr : (s.parser.push cfg.lang (Scanner.testWord cfg s tok)).1 with
  | none =>
    simp only [hr]
    show Except.ok (⟨(s.parser.push cfg.lang (Scanner.testWord cfg s tok)).2,
        (shiftT i s.tracker).advanced (pos + 1), some tok⟩ : Scanner) =
      Except.ok (shiftS i ⟨(s.parser.push cfg.lang (Scanner.testWord cfg s tok)).2,
        s.tracker.advanced pos, some tok⟩)
    rw [shiftT_advanced i pos s.tracker hp hsc.1]; rfl
  | some e =>
    cases e with
    | incomplete => simp only [hr]; rfl
    | overlap =>
      simp only [hr]
      exact shiftS_pushRejected cfg i { s with parser := (s.parser.push cfg.lang (Scanner.testWord cfg s tok)).2 } pos tok hp hsc
    | nan =>
      simp only [hr]
      exact shiftS_pushRejected cfg i { s with parser := (s.parser.push cfg.lang (Scanner.testWord cfg s tok)).2 } pos tok hp hsc
    | frozen =>
      simp only [hr]
      exact shiftS_pushRejected cfg i { s with parser := (s.parser.push cfg.lang (Scanner.testWord cfg s tok)).2 } pos tok hp hsc

theorem shiftS_finalize (cfg : ScanCfg) (i : Nat) (s : Scanner) :
    (shiftS i s).finalize cfg = mapShift i (s.finalize cfg) := by
  unfold Scanner.finalize
  show (if s.parser.hasNumber = true then _ else _) = _
  by_cases hn : s.parser.hasNumber = true
  · rw [if_pos hn, if_pos hn]; exact shiftS_numberEnd cfg i s
  · rw [if_neg hn, if_neg hn]; rfl

theorem shiftS_pushAll (cfg : ScanCfg) (i : Nat) : ∀ (ts : List Tok) (s : Scanner) (pos : Nat), i ≤ pos →
    ScInv s pos →
    Scanner.pushAll cfg (shiftS i s) (enumFrom (pos + 1) ts) = mapShift i (Scanner.pushAll cfg s (enumFrom pos ts)) := by
  intro ts
  induction ts with
  | nil => intro s pos _ _; rfl
  | cons t ts ih =>
    intro s pos hp hsc
    simp only [enumFrom, Scanner.pushAll]
    rw [shiftS_push cfg i s pos t hp hsc]
    obtain ⟨s1, e1, c1⟩ := push_ok cfg s pos t hsc
    rw [e1]
    simp only [mapShift]
    exact ih s1 (pos + 1) (by omega) c1

/-! #### speaking a comma -/

/-- the token `","` -/
def commaTok : Tok := { text := [','], lower := [','] }

/-- what is assumed of the character classes: a comma is neither white space nor a letter -/
structure CommaChar (cc : CharClasses) : Prop where
  notWs : cc.isWhitespace ',' = false
  notAlpha : cc.isAlphabetic ',' = false

theorem comma_notSkipped (cfg : ScanCfg) (h : CommaChar cfg.cc) : Scanner.isSkipped cfg commaTok = false := by
  simp [Scanner.isSkipped, commaTok, h.notWs]

theorem comma_notBreaks (cfg : ScanCfg) (h : CommaChar cfg.cc) : breaks cfg commaTok = false := by
  simp [breaks, commaTok, h.notAlpha, CharClasses.trim, h.notWs]

theorem testWord_comma (cfg : ScanCfg) (s : Scanner) : Scanner.testWord cfg s commaTok = [','] := by
  unfold Scanner.testWord
  cases s.previous with
  | none => rfl
  | some prev => dsimp only; split <;> rfl

/-- the state after a token has been pushed on the pristine parser -/
def freshStep (cfg : ScanCfg) (tr : Tracker) (pos : Nat) (t : Tok) : Scanner :=
  match (({} : Parser).push cfg.lang t.lower).1 with
  | none => ⟨(({} : Parser).push cfg.lang t.lower).2, tr.advanced pos, some t⟩
  | some .incomplete => ⟨(({} : Parser).push cfg.lang t.lower).2, tr, some t⟩
  | some _ => ⟨(({} : Parser).push cfg.lang t.lower).2, if breaks cfg t then tr.breaker else tr, some t⟩

theorem fresh_noNumber : ({} : Parser).hasNumber = false := rfl

theorem push_fresh_form (cfg : ScanCfg) (hl : LangOk cfg.lang) (tr : Tracker) (prev : Option Tok) (pos : Nat)
    (t : Tok) (hs : Scanner.isSkipped cfg t = false) (hnan : t.nan = false) :
    Scanner.push cfg ⟨{}, tr, prev⟩ pos t = .ok (freshStep cfg tr pos t) := by
  unfold Scanner.push
  rw [if_neg (by rw [hs]; simp), if_neg (by rw [hnan]; simp), testWord_idle cfg _ t fresh_noNumber]
  dsimp only
  unfold freshStep
  obtain ⟨_, _, f3⟩ := parser_push_facts cfg.lang hl {} PInv.init t.lower
  have hrej : ∀ e, (({} : Parser).push cfg.lang t.lower).1 = some e →
      Scanner.pushRejected cfg ⟨(({} : Parser).push cfg.lang t.lower).2, tr, prev⟩ pos t =
        .ok ⟨(({} : Parser).push cfg.lang t.lower).2, if breaks cfg t then tr.breaker else tr, some t⟩ := by
    intro e he
    have hn : ¬ ((({} : Parser).push cfg.lang t.lower).2.hasNumber = true) := by
      rw [f3 e he, fresh_noNumber]; simp
    unfold Scanner.pushRejected
    rw [if_neg hn, outside_eq]
    split <;> rfl
  cases hr : (({} : Parser).push cfg.lang t.lower).1 with
  | none => rfl
  | some e =>
    cases e with
    | incomplete => rfl
    | overlap => exact hrej _ hr
    | nan => exact hrej _ hr
    | frozen => exact hrej _ hr

/-- the end of a number caused by a token that is then tried on the pristine parser: the retry has the
three outcomes of a push on the pristine parser (accepted, `Incomplete` = skipped, refused) -/
theorem pushRejected_form (cfg : ScanCfg) (s sN : Scanner) (pos : Nat) (t : Tok)
    (hn : s.parser.hasNumber = true) (h1 : s.numberEnd cfg = .ok sN) :
    Scanner.pushRejected cfg s pos t = .ok (freshStep cfg sN.tracker pos t) := by
  have hp := numberEnd_parser cfg s sN h1
  unfold Scanner.pushRejected freshStep
  rw [if_pos hn, h1]
  dsimp only
  rw [hp]
  cases (({} : Parser).push cfg.lang t.lower).1 with
  | none => rfl
  | some e =>
    cases e with
    | incomplete => rfl
    | overlap | nan | frozen =>
      rw [outside_eq]
      by_cases hb : breaks cfg t = true
      · rw [if_pos hb, if_pos hb]; rfl
      · rw [if_neg hb, if_neg hb]; rfl

theorem shiftS_freshStep (cfg : ScanCfg) (i : Nat) (tr : Tracker) (t : Tok) (hle : tr.mstart ≤ tr.mend) :
    shiftS i (freshStep cfg tr i t) = freshStep cfg (shiftT i tr) (i + 1) t := by
  unfold freshStep
  cases (({} : Parser).push cfg.lang t.lower).1 with
  | none =>
    show (⟨_, shiftT i (tr.advanced i), _⟩ : Scanner) = _
    rw [← shiftT_advanced i i tr (Nat.le_refl _) hle]
  | some e =>
    cases e with
    | incomplete => rfl
    | overlap => dsimp only [shiftS]; split <;> rfl
    | nan => dsimp only [shiftS]; split <;> rfl
    | frozen => dsimp only [shiftS]; split <;> rfl

/-- **one step**: pushing the forced stop as a token of its own, then the hinted token, leaves the state
that the hinted token alone leaves, shifted by one -/
theorem comma_step (cfg : ScanCfg) (hl : LangOk cfg.lang) (hf : cfg.lang.ErrFresh)
    (hc : cfg.lang.Rejects [',']) (hcc : CommaChar cfg.cc) (s : Scanner) (i : Nat) (t : Tok)
    (hsc : ScInv s i) (hsi : SInv s) (hidle : Idle s.parser)
    (hs : Scanner.isSkipped cfg t = false) (hnan : t.nan = false)
    (hsep : s.parser.hasNumber = true → Scanner.testWord cfg s t = [',']) :
    ∃ sc, s.push cfg i commaTok = .ok sc ∧ sc.push cfg (i + 1) t = mapShift i (s.push cfg i t) := by
  have hcs := comma_notSkipped cfg hcc
  have hcb := comma_notBreaks cfg hcc
  have hfresh : (({} : Parser).push cfg.lang [',']).2 = {} := Parser.push_fresh_of_rejects cfg.lang hl hf [','] hc
  obtain ⟨e0, hr0, hne0⟩ := hc {}
  by_cases hn : s.parser.hasNumber = true
  · -- a number is open: both streams end it at the forced stop
    obtain ⟨e, hr, hne⟩ := hc s.parser
    obtain ⟨_, _, f3⟩ := parser_push_facts cfg.lang hl s.parser hsi.1 [',']
    have hn' : (s.parser.push cfg.lang [',']).2.hasNumber = true := by rw [f3 e hr]; exact hn
    obtain ⟨sN, eN, cN⟩ := numberEnd_ok cfg { s with parser := (s.parser.push cfg.lang [',']).2 } i hsc hn'
    -- any token whose tested word is the forced stop
    have hpush : ∀ tok : Tok, Scanner.isSkipped cfg tok = false → tok.nan = false →
        Scanner.testWord cfg s tok = [','] → s.push cfg i tok = .ok (freshStep cfg sN.tracker i tok) := by
      intro tok h1 h2 h3
      unfold Scanner.push
      rw [if_neg (by rw [h1]; simp), if_neg (by rw [h2]; simp), h3]
      dsimp only
      have := pushRejected_form cfg { s with parser := (s.parser.push cfg.lang [',']).2 } sN i tok hn' eN
      cases e with
      | incomplete => exact absurd rfl hne
      | overlap => rw [hr]; exact this
      | nan => rw [hr]; exact this
      | frozen => rw [hr]; exact this
    have hcomma : freshStep cfg sN.tracker i commaTok = ⟨{}, sN.tracker, some commaTok⟩ := by
      unfold freshStep
      have hl' : commaTok.lower = [','] := rfl
      rw [hl', hfresh, hr0, hcb]
      cases e0 with
      | incomplete => exact absurd rfl hne0
      | overlap => rfl
      | nan => rfl
      | frozen => rfl
    refine ⟨⟨{}, sN.tracker, some commaTok⟩, ?_, ?_⟩
    · rw [hpush commaTok hcs rfl (testWord_comma cfg s), hcomma]
    · rw [hpush t hs hnan (hsep hn), push_fresh_form cfg hl _ _ _ t hs hnan]
      simp only [mapShift]
      rw [shiftS_freshStep cfg i sN.tracker t cN.1, shiftT_below i sN.tracker cN]
  · -- no number is open: the comma changes nothing but the remembered previous token
    have hn0 : s.parser.hasNumber = false := by simpa using hn
    have hp := hidle hn0
    obtain ⟨p, tr, prev⟩ := s
    simp only at hp
    subst hp
    have hcpush : Scanner.push cfg ⟨{}, tr, prev⟩ i commaTok = .ok ⟨{}, tr, some commaTok⟩ := by
      rw [push_fresh_form cfg hl tr prev i commaTok hcs rfl]
      unfold freshStep
      have hl' : commaTok.lower = [','] := rfl
      rw [hl', hfresh, hr0, hcb]
      cases e0 with
      | incomplete => exact absurd rfl hne0
      | overlap => rfl
      | nan => rfl
      | frozen => rfl
    refine ⟨⟨{}, tr, some commaTok⟩, hcpush, ?_⟩
    rw [push_fresh_form cfg hl tr _ (i + 1) t hs hnan, push_fresh_form cfg hl tr _ i t hs hnan]
    simp only [mapShift]
    rw [shiftS_freshStep cfg i tr t hsc.1, shiftT_below i tr hsc]

/-- **speaking a comma**: the stream in which the token `t` declares itself separated from its predecessor,
and the stream in which a comma token is inserted in front of `t`, have the same occurrences — up to the shift by
one of the positions from `t` on -/
theorem findNumbers_comma (cfg : ScanCfg) (hl : LangOk cfg.lang) (hf : cfg.lang.ErrFresh)
    (hc : cfg.lang.Rejects [',']) (hcc : CommaChar cfg.cc) (A B : List Tok) (t p : Tok)
    (hp : prevSig cfg A = some p) (hsep : cfg.sep t p = true)
    (hs : Scanner.isSkipped cfg t = false) (hnan : t.nan = false) :
    ∃ occs, findNumbers cfg (A ++ t :: B) = .ok occs ∧
      findNumbers cfg (A ++ commaTok :: t :: B) = .ok (occs.map (shiftOcc A.length)) := by
  obtain ⟨sA, eA, iA, cA, dA⟩ := pushAll_rinv cfg hl hf A {} 0 RInv.init
  rw [Nat.zero_add] at cA
  have hprev : sA.previous = some p := by
    rw [pushAll_previous cfg A {} sA 0 eA]; exact hp
  obtain ⟨sc, e1, e2⟩ := comma_step cfg hl hf hc hcc sA A.length t cA iA dA hs hnan
    (fun hn => testWord_sep cfg sA t p hprev hsep hn)
  obtain ⟨s1, e3, c1⟩ := push_ok cfg sA A.length t cA
  rw [e3] at e2
  simp only [mapShift] at e2
  obtain ⟨s2, e4, c2⟩ := pushAll_ok cfg B s1 (A.length + 1) c1
  have e5 := shiftS_pushAll cfg A.length B s1 (A.length + 1) (by omega) c1
  rw [e4] at e5
  simp only [mapShift] at e5
  obtain ⟨s3, e6, _⟩ := finalize_ok cfg s2 _ c2
  have e7 := shiftS_finalize cfg A.length s2
  rw [e6] at e7
  simp only [mapShift] at e7
  refine ⟨s3.tracker.queue, ?_, ?_⟩
  · unfold findNumbers
    rw [enumFrom_append, Scanner.pushAll_append, eA]
    simp only [enumFrom, Scanner.pushAll, Nat.zero_add, e3, e4, e6]
  · unfold findNumbers
    rw [enumFrom_append, Scanner.pushAll_append, eA]
    simp only [enumFrom, Scanner.pushAll, Nat.zero_add, e1, e2, e5, e7]
    rfl


/-! ### 3. bounded look-ahead of the lazy iterator

  When `next` returns the k-th occurrence of the batch result, at most `occs[k+2].start + 1` tokens have
  been consumed (all of them when there is no `occs[k+2]`).  Why: the tracker holds back at most one small
  number (`onHold`); a push that makes the queue non-empty ran exactly one `Tracker.numberEnd`, which
  appends at most two occurrences to the queue and clears `onHold`, and then possibly opens a new match AT
  the current position. -/

/-! ### tracker level -/

/-- lower bound `m` on the starts of every occurrence that can still be appended to the queue -/
def LB (t : Tracker) (m : Nat) : Prop :=
  (∀ o ∈ t.onHold.toList, m ≤ o.start) ∧ (t.mstart = t.mend ∨ m ≤ t.mstart)

theorem LB.init : LB {} 0 := ⟨fun _ _ => Nat.zero_le _, Or.inl rfl⟩

/-- everything about one `Tracker.numberEnd`: it appends at most two occurrences, if it appends any then
nothing stays on hold, it closes the match, and (when the match was open) it keeps every lower bound -/
theorem numberEnd_facts (t : Tracker) (o : Bool) (tx : Word) (v : Value) (f : Bool) :
    ∃ added, (t.numberEnd o tx v f).queue = t.queue ++ added ∧ added.length ≤ 2 ∧
      (added = [] ∨ (t.numberEnd o tx v f).onHold = none) ∧
      (t.numberEnd o tx v f).mstart = (t.numberEnd o tx v f).mend ∧
      ∀ m, t.mstart < t.mend → LB t m →
        LB (t.numberEnd o tx v f) m ∧ ∀ x ∈ added, m ≤ x.start := by
  unfold Tracker.numberEnd
  dsimp only
  generalize (if o = true then Kind.ordinal else Kind.cardinal) = kind
  by_cases hc : (t.last == kind) = true
  · rw [if_pos hc]
    dsimp only
    cases hh : t.onHold with
    | none =>
      refine ⟨[⟨t.mstart, t.mend, tx, v, o⟩], by simp, by simp, Or.inr rfl, rfl, ?_⟩
      intro m hlt hlb
      refine ⟨⟨fun x hx => (by cases hx), Or.inl rfl⟩, ?_⟩
      intro x hx
      have hx' : x = ⟨t.mstart, t.mend, tx, v, o⟩ := by simpa using hx
      subst hx'
      rcases hlb.2 with h | h
      · omega
      · exact h
    | some p =>
      refine ⟨[p, ⟨t.mstart, t.mend, tx, v, o⟩], by simp, by simp, Or.inr rfl, rfl, ?_⟩
      intro m hlt hlb
      refine ⟨⟨fun x hx => (by cases hx), Or.inl rfl⟩, ?_⟩
      intro x hx
      have hx' : x = p ∨ x = ⟨t.mstart, t.mend, tx, v, o⟩ := by simpa using hx
      rcases hx' with hx' | hx'
      · subst hx'
        apply hlb.1
        rw [hh]; simp [Option.toList]
      · subst hx'
        rcases hlb.2 with h | h
        · omega
        · exact h
  · rw [if_neg hc]
    by_cases hf : f = true
    · rw [if_pos hf]
      dsimp only
      refine ⟨[], by simp, by simp, Or.inl rfl, rfl, ?_⟩
      intro m hlt hlb
      refine ⟨⟨?_, Or.inl rfl⟩, fun x hx => by cases hx⟩
      intro x hx
      have hx' : x = ⟨t.mstart, t.mend, tx, v, o⟩ := by simpa [Option.toList] using hx
      subst hx'
      rcases hlb.2 with h | h
      · omega
      · exact h
    · rw [if_neg hf]
      dsimp only
      refine ⟨[⟨t.mstart, t.mend, tx, v, o⟩], rfl, by simp, Or.inr rfl, rfl, ?_⟩
      intro m hlt hlb
      refine ⟨⟨fun x hx => (by cases hx), Or.inl rfl⟩, ?_⟩
      intro x hx
      have hx' : x = ⟨t.mstart, t.mend, tx, v, o⟩ := by simpa using hx
      subst hx'
      rcases hlb.2 with h | h
      · omega
      · exact h

/-- the tracker changes of a push other than `numberEnd` -/
def Step (pos : Nat) (t t' : Tracker) : Prop :=
  t' = t ∨ t' = t.breaker ∨ t' = t.advanced pos

theorem Step.queue {pos : Nat} {t t' : Tracker} (h : Step pos t t') :
    t'.queue = t.queue ∧ t'.onHold = t.onHold := by
  rcases h with h | h | h <;> subst h <;> exact ⟨rfl, rfl⟩

theorem LB.breaker {t : Tracker} {m : Nat} (h : LB t m) : LB t.breaker m := h

theorem LB.advanced {t : Tracker} {m pos : Nat} (h : LB t m) (hm : m ≤ pos) : LB (t.advanced pos) m := by
  refine ⟨h.1, ?_⟩
  unfold Tracker.advanced
  dsimp only
  by_cases he : (t.mstart == t.mend) = true
  · rw [if_pos he]; exact Or.inr hm
  · rw [if_neg he]
    have hne : t.mstart ≠ t.mend := by simpa using he
    rcases h.2 with h' | h'
    · exact absurd h' hne
    · exact Or.inr h'

theorem Step.lb {pos m : Nat} {t t' : Tracker} (h : Step pos t t') (hm : m ≤ pos) (hlb : LB t m) : LB t' m := by
  rcases h with h | h | h <;> subst h
  · exact hlb
  · exact hlb.breaker
  · exact hlb.advanced hm

theorem Step.closed {pos : Nat} {t t' : Tracker} (h : Step pos t t') (hc : t.mstart = t.mend) :
    t'.mstart = t'.mend ∨ pos ≤ t'.mstart := by
  rcases h with h | h | h <;> subst h
  · exact Or.inl hc
  · exact Or.inl hc
  · right
    unfold Tracker.advanced
    dsimp only
    have : (t.mstart == t.mend) = true := by simpa using hc
    rw [if_pos this]
    exact Nat.le_refl _

/-! ### scanner level: the shape of a push -/

theorem numberEnd_shape (cfg : ScanCfg) (s s' : Scanner) (he : s.numberEnd cfg = .ok s') :
    ∃ o tx v f, s'.tracker = s.tracker.numberEnd o tx v f := by
  unfold Scanner.numberEnd at he
  cases hf : s.parser.finish cfg.lang with
  | error f => rw [hf] at he; cases he
  | ok r =>
    rw [hf] at he
    cases he
    exact ⟨_, _, _, _, rfl⟩

theorem outside_step (cfg : ScanCfg) (s : Scanner) (tok : Tok) (pos : Nat) :
    Step pos s.tracker (s.outside cfg tok).tracker := by
  unfold Scanner.outside
  split
  · exact Or.inr (Or.inl rfl)
  · exact Or.inl rfl

/-- a `numberEnd` is run during a push only when the parser holds a number, before or after the word was
offered to it -/
def NEnd (cfg : ScanCfg) (s : Scanner) : Prop :=
  s.parser.hasNumber = true ∨
    ∃ w e, (s.parser.push cfg.lang w).1 = some e ∧ (s.parser.push cfg.lang w).2.hasNumber = true

theorem nend_open (cfg : ScanCfg) (hl : LangOk cfg.lang) (s : Scanner) (hsi : SInv s) (h : NEnd cfg s) :
    s.tracker.mstart < s.tracker.mend := by
  rcases h with h | ⟨w, e, h1, h2⟩
  · exact hsi.2.1.mp h
  · have := (parser_push_facts cfg.lang hl s.parser hsi.1 w).2.2 e h1
    rw [this] at h2
    exact hsi.2.1.mp h2

theorem pushRejected_shape (cfg : ScanCfg) (s s' : Scanner) (pos : Nat) (tok : Tok)
    (he : Scanner.pushRejected cfg s pos tok = .ok s') :
    Step pos s.tracker s'.tracker ∨
      (s.parser.hasNumber = true ∧ ∃ o tx v f, Step pos (s.tracker.numberEnd o tx v f) s'.tracker) := by
  unfold Scanner.pushRejected at he
  by_cases hn : s.parser.hasNumber = true
  · rw [if_pos hn] at he
    right
    refine ⟨hn, ?_⟩
    cases h1 : s.numberEnd cfg with
    | error f => rw [h1] at he; cases he
    | ok s1 =>
      rw [h1] at he
      dsimp only at he
      obtain ⟨o, tx, v, f, hsh⟩ := numberEnd_shape cfg s s1 h1
      refine ⟨o, tx, v, f, ?_⟩
      rw [← hsh]
      by_cases hr : (s1.parser.push cfg.lang tok.lower).1.isNone = true
      · rw [if_pos hr] at he; cases he
        exact Or.inr (Or.inr rfl)
      · rw [if_neg hr] at he
        by_cases hinc : ((s1.parser.push cfg.lang tok.lower).1 == some Err.incomplete) = true
        · rw [if_pos hinc] at he; cases he
          exact Or.inl rfl
        · rw [if_neg hinc] at he; cases he
          exact outside_step cfg { s1 with parser := (s1.parser.push cfg.lang tok.lower).2 } tok pos
  · rw [if_neg hn] at he; cases he
    exact Or.inl (outside_step cfg s tok pos)

/-- a push changes the tracker by a `Step`, possibly after one `numberEnd` -/
theorem push_shape (cfg : ScanCfg) (s s' : Scanner) (pos : Nat) (tok : Tok)
    (he : s.push cfg pos tok = .ok s') :
    Step pos s.tracker s'.tracker ∨
      (NEnd cfg s ∧ ∃ o tx v f, Step pos (s.tracker.numberEnd o tx v f) s'.tracker) := by
  unfold Scanner.push at he
  by_cases hs : Scanner.isSkipped cfg tok = true
  · rw [if_pos hs] at he; cases he; exact Or.inl (Or.inl rfl)
  rw [if_neg hs] at he
  by_cases hnan : tok.nan = true
  · rw [if_pos hnan] at he
    unfold Scanner.pushNan at he
    by_cases hn : s.parser.hasNumber = true
    · rw [if_pos hn] at he
      cases h1 : s.numberEnd cfg with
      | error f => rw [h1] at he; cases he
      | ok s1 =>
        rw [h1] at he; cases he
        obtain ⟨o, tx, v, f, hsh⟩ := numberEnd_shape cfg s s1 h1
        refine Or.inr ⟨Or.inl hn, o, tx, v, f, ?_⟩
        rw [← hsh]
        exact outside_step cfg s1 tok pos
    · rw [if_neg hn] at he; cases he
      exact Or.inl (outside_step cfg s tok pos)
  rw [if_neg hnan] at he
  dsimp only at he
  have hrej : ∀ e, (s.parser.push cfg.lang (Scanner.testWord cfg s tok)).1 = some e →
      Scanner.pushRejected cfg { s with parser := (s.parser.push cfg.lang (Scanner.testWord cfg s tok)).2 } pos tok = .ok s' →
      Step pos s.tracker s'.tracker ∨
        (NEnd cfg s ∧ ∃ o tx v f, Step pos (s.tracker.numberEnd o tx v f) s'.tracker) := by
    intro e hr he'
    rcases pushRejected_shape cfg _ s' pos tok he' with h | ⟨hn, h⟩
    · exact Or.inl h
    · exact Or.inr ⟨Or.inr ⟨_, e, hr, hn⟩, h⟩
  cases hr : (s.parser.push cfg.lang (Scanner.testWord cfg s tok)).1 with
  | none =>
    rw [hr] at he; cases he
    exact Or.inl (Or.inr (Or.inr rfl))
  | some e =>
    cases e with
    | incomplete => rw [hr] at he; cases he; exact Or.inl (Or.inl rfl)
    | overlap => rw [hr] at he; exact hrej _ hr he
    | nan => rw [hr] at he; exact hrej _ hr he
    | frozen => rw [hr] at he; exact hrej _ hr he

theorem finalize_shape (cfg : ScanCfg) (s s' : Scanner) (he : s.finalize cfg = .ok s') :
    s'.tracker = s.tracker ∨
      (s.parser.hasNumber = true ∧ ∃ o tx v f, s'.tracker = s.tracker.numberEnd o tx v f) := by
  unfold Scanner.finalize at he
  by_cases hn : s.parser.hasNumber = true
  · rw [if_pos hn] at he
    exact Or.inr ⟨hn, numberEnd_shape cfg s s' he⟩
  · rw [if_neg hn] at he; cases he; exact Or.inl rfl

theorem finalize_strict (cfg : ScanCfg) (s s' : Scanner) (h : SInv s) (he : s.finalize cfg = .ok s') :
    SInv s' := by
  unfold Scanner.finalize at he
  by_cases hn : s.parser.hasNumber = true
  · rw [if_pos hn] at he
    exact numberEnd_strict cfg s s' h hn he
  · rw [if_neg hn] at he; cases he; exact h

/-! ### what a push / the rest of the batch loop can still append -/

theorem push_added (cfg : ScanCfg) (hl : LangOk cfg.lang) (s s' : Scanner) (pos m : Nat) (tok : Tok)
    (hsi : SInv s) (hm : m ≤ pos) (hlb : LB s.tracker m)
    (he : s.push cfg pos tok = .ok s') :
    LB s'.tracker m ∧ ∃ added, s'.tracker.queue = s.tracker.queue ++ added ∧ ∀ o ∈ added, m ≤ o.start := by
  rcases push_shape cfg s s' pos tok he with hst | ⟨hne, o, tx, v, f, hst⟩
  · exact ⟨hst.lb hm hlb, [], by rw [hst.queue.1]; simp, fun x hx => by cases hx⟩
  · have hlt := nend_open cfg hl s hsi hne
    obtain ⟨added, hq, _, _, _, hall⟩ := numberEnd_facts s.tracker o tx v f
    obtain ⟨hlb1, hadd⟩ := hall m hlt hlb
    exact ⟨hst.lb hm hlb1, added, by rw [hst.queue.1, hq], hadd⟩

theorem finalize_added (cfg : ScanCfg) (s s' : Scanner) (m : Nat)
    (hsi : SInv s) (hlb : LB s.tracker m) (he : s.finalize cfg = .ok s') :
    LB s'.tracker m ∧ ∃ added, s'.tracker.queue = s.tracker.queue ++ added ∧ ∀ o ∈ added, m ≤ o.start := by
  rcases finalize_shape cfg s s' he with h | ⟨hn, o, tx, v, f, h⟩
  · rw [h]; exact ⟨hlb, [], by simp, fun x hx => by cases hx⟩
  · have hlt := hsi.2.1.mp hn
    obtain ⟨added, hq, _, _, _, hall⟩ := numberEnd_facts s.tracker o tx v f
    obtain ⟨hlb1, hadd⟩ := hall m hlt hlb
    rw [h]
    exact ⟨hlb1, added, hq, hadd⟩

theorem pushAll_added (cfg : ScanCfg) (hl : LangOk cfg.lang) (ts : List Tok) :
    ∀ (s s' : Scanner) (pos m : Nat), SInv s → ScInv s pos → m ≤ pos → LB s.tracker m →
      Scanner.pushAll cfg s (enumFrom pos ts) = .ok s' →
      SInv s' ∧ ScInv s' (pos + ts.length) ∧ LB s'.tracker m ∧
        ∃ added, s'.tracker.queue = s.tracker.queue ++ added ∧ ∀ o ∈ added, m ≤ o.start := by
  induction ts with
  | nil =>
    intro s s' pos m hsi hsc _ hlb he
    simp only [enumFrom, Scanner.pushAll] at he
    cases he
    exact ⟨hsi, hsc, hlb, [], by simp, fun x hx => by cases hx⟩
  | cons t ts ih =>
    intro s s' pos m hsi hsc hm hlb he
    simp only [enumFrom, Scanner.pushAll] at he
    obtain ⟨s1, hp, hsc1⟩ := push_ok cfg s pos t hsc
    rw [hp] at he
    dsimp only at he
    have hsi1 := push_strict cfg hl s s1 pos t hsi hsc.2.1 hp
    obtain ⟨hlb1, add1, hq1, ha1⟩ := push_added cfg hl s s1 pos m t hsi hm hlb hp
    obtain ⟨hsi2, hsc2, hlb2, add2, hq2, ha2⟩ := ih s1 s' (pos + 1) m hsi1 hsc1 (by omega) hlb1 he
    refine ⟨hsi2, ?_, hlb2, add1 ++ add2, ?_, ?_⟩
    · have e : pos + (t :: ts).length = pos + 1 + ts.length := by simp only [List.length_cons]; omega
      rw [e]; exact hsc2
    · rw [hq2, hq1, List.append_assoc]
    · intro x hx
      rcases List.mem_append.mp hx with h | h
      · exact ha1 x h
      · exact ha2 x h

theorem batchQ_added (cfg : ScanCfg) (hl : LangOk cfg.lang) (ts : List Tok) (s : Scanner) (pos m : Nat)
    (q : List Occ) (hsi : SInv s) (hsc : ScInv s pos) (hm : m ≤ pos) (hlb : LB s.tracker m)
    (he : batchQ cfg s (enumFrom pos ts) = .ok q) :
    ∃ added, q = s.tracker.queue ++ added ∧ ∀ o ∈ added, m ≤ o.start := by
  unfold batchQ at he
  cases hp : Scanner.pushAll cfg s (enumFrom pos ts) with
  | error f => rw [hp] at he; cases he
  | ok s1 =>
    rw [hp] at he
    dsimp only at he
    cases hf : s1.finalize cfg with
    | error f => rw [hf] at he; cases he
    | ok s2 =>
      rw [hf] at he
      dsimp only at he
      cases he
      obtain ⟨hsi1, _, hlb1, add1, hq1, ha1⟩ := pushAll_added cfg hl ts s s1 pos m hsi hsc hm hlb hp
      obtain ⟨_, add2, hq2, ha2⟩ := finalize_added cfg s1 s2 m hsi1 hlb1 hf
      refine ⟨add1 ++ add2, by rw [hq2, hq1, List.append_assoc], ?_⟩
      intro x hx
      rcases List.mem_append.mp hx with h | h
      · exact ha1 x h
      · exact ha2 x h

/-! ### what a push from an empty queue leaves -/

/-- what a push from an empty queue leaves: nothing decided, or at most two decided, nothing on hold, and
the match closed or opened at `pos` -/
def Ret (t : Tracker) (pos : Nat) : Prop :=
  t.queue = [] ∨ (t.queue.length ≤ 2 ∧ t.onHold = none ∧ (t.mstart = t.mend ∨ pos ≤ t.mstart))

theorem push_ret (cfg : ScanCfg) (s s' : Scanner) (pos : Nat) (tok : Tok) (hq : s.tracker.queue = [])
    (he : s.push cfg pos tok = .ok s') : Ret s'.tracker pos := by
  rcases push_shape cfg s s' pos tok he with hst | ⟨_, o, tx, v, f, hst⟩
  · exact Or.inl (by rw [hst.queue.1, hq])
  · obtain ⟨added, hq1, hlen, hhold, hcl, _⟩ := numberEnd_facts s.tracker o tx v f
    rw [hq, List.nil_append] at hq1
    rcases hhold with h0 | hh
    · exact Or.inl (by rw [hst.queue.1, hq1, h0])
    · exact Or.inr ⟨by rw [hst.queue.1, hq1]; exact hlen, by rw [hst.queue.2, hh], hst.closed hcl⟩

theorem finalize_ret (cfg : ScanCfg) (s s' : Scanner) (hq : s.tracker.queue = [])
    (he : s.finalize cfg = .ok s') :
    s'.tracker.queue = [] ∨
      (s'.tracker.queue.length ≤ 2 ∧ s'.tracker.onHold = none ∧ s'.tracker.mstart = s'.tracker.mend) := by
  rcases finalize_shape cfg s s' he with h | ⟨_, o, tx, v, f, h⟩
  · exact Or.inl (by rw [h, hq])
  · obtain ⟨added, hq1, hlen, hhold, hcl, _⟩ := numberEnd_facts s.tracker o tx v f
    rw [hq, List.nil_append] at hq1
    rw [h]
    rcases hhold with h0 | hh
    · exact Or.inl (by rw [hq1, h0])
    · exact Or.inr ⟨by rw [hq1]; exact hlen, hh, hcl⟩

/-! ### popping the head of the queue keeps the invariants -/

theorem ScInv_pop (s : Scanner) (a : Occ) (ms : List Occ) (pos : Nat) (hq : s.tracker.queue = a :: ms)
    (h : ScInv s pos) : ScInv ({ s with tracker := { s.tracker with queue := ms } } : Scanner) pos := by
  obtain ⟨h1, h2, h3⟩ := h
  refine ⟨h1, h2, ?_⟩
  rw [hq] at h3
  exact OccsBelow.tail (o := a) h3

theorem SInv_pop (s : Scanner) (a : Occ) (ms : List Occ) (hq : s.tracker.queue = a :: ms)
    (h : SInv s) : SInv ({ s with tracker := { s.tracker with queue := ms } } : Scanner) := by
  obtain ⟨h1, h2, h3, h4⟩ := h
  refine ⟨h1, h2, h3, ?_⟩
  intro o ho
  apply h4 o
  rw [hq]
  exact List.mem_cons_of_mem a ho

theorem LB_pop (t : Tracker) (ms : List Occ) (m : Nat) (h : LB t m) : LB { t with queue := ms } m := h

/-! ### the iterator -/

def bound (occs : List Occ) (n j : Nat) : Nat :=
  match occs[j]? with
  | some o => o.start + 1
  | none => n

/-- the iterator invariant after `k` occurrences have been returned -/
structure IInv (cfg : ScanCfg) (toks : List Tok) (occs : List Occ) (it : Iter) (k : Nat) : Prop where
  rest_eq : it.rest = enumFrom it.consumed (toks.drop it.consumed)
  le_len : it.consumed ≤ toks.length
  sc : ScInv it.sc it.consumed
  strict : SInv it.sc
  batch : batchQ cfg it.sc it.rest = .ok (occs.drop k)
  short : it.sc.tracker.queue.length ≤ 1
  lb : ∃ m, m ≤ it.consumed ∧ it.consumed ≤ m + 1 ∧ LB it.sc.tracker m

theorem batchQ_init (cfg : ScanCfg) (toks : List Tok) :
    batchQ cfg {} (enumFrom 0 toks) = findNumbers cfg toks := rfl

theorem IInv.init (cfg : ScanCfg) (toks : List Tok) (occs : List Occ)
    (h : findNumbers cfg toks = .ok occs) : IInv cfg toks occs (iterNew toks) 0 where
  rest_eq := rfl
  le_len := Nat.zero_le _
  sc := TrInv.init
  strict := SInv.init
  batch := by rw [List.drop_zero]; exact h
  short := Nat.zero_le _
  lb := ⟨0, Nat.le_refl _, Nat.zero_le _, LB.init⟩

/-- the facts about the state left by the `while` loop of `next` when it returns an occurrence -/
theorem drive_facts (cfg : ScanCfg) (hl : LangOk cfg.lang) (toks : List Tok) :
    ∀ (ts : List Tok) (s : Scanner) (n : Nat) (o : Occ) (it' : Iter),
      toks.drop n = ts → n ≤ toks.length → s.tracker.queue = [] → ScInv s n → SInv s →
      Iter.drive cfg s (enumFrom n ts) n = .ok (some o, it') →
      it'.rest = enumFrom it'.consumed (toks.drop it'.consumed) ∧ it'.consumed ≤ toks.length ∧
        ScInv it'.sc it'.consumed ∧ SInv it'.sc ∧ it'.sc.tracker.queue.length ≤ 1 ∧
        ∃ m, m ≤ it'.consumed ∧ it'.consumed ≤ m + 1 ∧ LB it'.sc.tracker m := by
  intro ts
  induction ts with
  | nil =>
    intro s n o it' hdrop hn hq hsc hsi he
    simp only [enumFrom] at he
    unfold Iter.drive at he
    obtain ⟨s1, hf, hsc1⟩ := finalize_ok cfg s n hsc
    rw [hf] at he
    dsimp only at he
    have hsi1 := finalize_strict cfg s s1 hsi hf
    cases hq1 : s1.tracker.queue with
    | nil => rw [hq1] at he; cases he
    | cons a ms =>
      rw [hq1] at he
      dsimp only at he
      cases he
      rcases finalize_ret cfg s s1 hq hf with h0 | ⟨hl2, hh, hcl⟩
      · rw [hq1] at h0; cases h0
      · refine ⟨?_, hn, ScInv_pop s1 o ms n hq1 hsc1, SInv_pop s1 o ms hq1 hsi1, ?_,
          n, Nat.le_refl _, Nat.le_succ _, ?_⟩
        · show [] = enumFrom n (toks.drop n)
          rw [hdrop]; rfl
        · rw [hq1] at hl2
          simp only [List.length_cons] at hl2
          show ms.length ≤ 1
          omega
        · refine ⟨fun x hx => ?_, Or.inl hcl⟩
          have hx' : x ∈ s1.tracker.onHold.toList := hx
          rw [hh] at hx'; cases hx'
  | cons t ts ih =>
    intro s n o it' hdrop hn hq hsc hsi he
    have hlt : n < toks.length := by
      apply Nat.lt_of_not_le
      intro hge
      have : toks.drop n = [] := List.drop_eq_nil_of_le hge
      rw [this] at hdrop; cases hdrop
    have hdrop' : toks.drop (n + 1) = ts := by
      have h1 : (toks.drop n).drop 1 = ts := by rw [hdrop]; rfl
      rw [List.drop_drop] at h1
      exact h1
    simp only [enumFrom] at he
    unfold Iter.drive at he
    obtain ⟨s1, hp, hsc1⟩ := push_ok cfg s n t hsc
    rw [hp] at he
    dsimp only at he
    have hsi1 := push_strict cfg hl s s1 n t hsi hsc.2.1 hp
    cases hq1 : s1.tracker.queue with
    | nil =>
      rw [hq1] at he
      dsimp only at he
      exact ih s1 (n + 1) o it' hdrop' (by omega) hq1 hsc1 hsi1 he
    | cons a ms =>
      rw [hq1] at he
      dsimp only at he
      cases he
      rcases push_ret cfg s s1 n t hq hp with h0 | ⟨hl2, hh, hcl⟩
      · rw [hq1] at h0; cases h0
      · refine ⟨?_, hlt, ScInv_pop s1 o ms (n + 1) hq1 hsc1, SInv_pop s1 o ms hq1 hsi1, ?_,
          n, Nat.le_succ _, Nat.le_refl _, ?_⟩
        · show enumFrom (n + 1) ts = enumFrom (n + 1) (toks.drop (n + 1))
          rw [hdrop']
        · rw [hq1] at hl2
          simp only [List.length_cons] at hl2
          show ms.length ≤ 1
          omega
        · refine ⟨fun x hx => ?_, hcl⟩
          have hx' : x ∈ s1.tracker.onHold.toList := hx
          rw [hh] at hx'; cases hx'

/-- `next_spec` read backwards: what a returned occurrence says about the batch queue -/
theorem next_some (cfg : ScanCfg) (it : Iter) (q : List Occ) (o : Occ) (it' : Iter)
    (hb : batchQ cfg it.sc it.rest = .ok q) (he : it.next cfg = .ok (some o, it')) :
    ∃ os, q = o :: os ∧ batchQ cfg it'.sc it'.rest = .ok os := by
  have hs := next_spec cfg it q hb
  cases q with
  | nil => obtain ⟨it'', h1, _⟩ := hs; rw [he] at h1; cases h1
  | cons o' os => obtain ⟨it'', h1, h2⟩ := hs; rw [he] at h1; cases h1; exact ⟨os, rfl, h2⟩

theorem next_none (cfg : ScanCfg) (it : Iter) (q : List Occ) (it' : Iter)
    (hb : batchQ cfg it.sc it.rest = .ok q) (he : it.next cfg = .ok (none, it')) :
    q = [] ∧ batchQ cfg it'.sc it'.rest = .ok [] := by
  have hs := next_spec cfg it q hb
  cases q with
  | nil => obtain ⟨it'', h1, h2⟩ := hs; rw [he] at h1; cases h1; exact ⟨rfl, h2⟩
  | cons o' os => obtain ⟨it'', h1, _⟩ := hs; rw [he] at h1; cases h1

theorem IInv.next (cfg : ScanCfg) (hl : LangOk cfg.lang) {toks : List Tok} {occs : List Occ} {it : Iter}
    {k : Nat} (h : IInv cfg toks occs it k) (o : Occ) (it' : Iter)
    (he : it.next cfg = .ok (some o, it')) :
    occs[k]? = some o ∧ IInv cfg toks occs it' (k + 1) := by
  obtain ⟨os, hd, h2⟩ := next_some cfg it (occs.drop k) o it' h.batch he
  have hk : occs[k]? = some o := by
    have h0 : (occs.drop k)[0]? = some o := by rw [hd]; rfl
    rw [List.getElem?_drop] at h0
    simpa using h0
  have hos : occs.drop (k + 1) = os := by
    have h0 : (occs.drop k).drop 1 = os := by rw [hd]; rfl
    rw [List.drop_drop] at h0
    exact h0
  refine ⟨hk, ?_⟩
  have hb : batchQ cfg it'.sc it'.rest = .ok (occs.drop (k + 1)) := by rw [hos]; exact h2
  unfold Iter.next at he
  cases hq : it.sc.tracker.queue with
  | cons a ms =>
    rw [hq] at he
    dsimp only at he
    cases he
    obtain ⟨m, hm1, hm2, hlb⟩ := h.lb
    have hshort := h.short
    rw [hq] at hshort
    simp only [List.length_cons] at hshort
    exact {
      rest_eq := h.rest_eq
      le_len := h.le_len
      sc := ScInv_pop it.sc o ms it.consumed hq h.sc
      strict := SInv_pop it.sc o ms hq h.strict
      batch := hb
      short := by show ms.length ≤ 1; omega
      lb := ⟨m, hm1, hm2, hlb⟩ }
  | nil =>
    rw [hq] at he
    dsimp only at he
    rw [h.rest_eq] at he
    obtain ⟨f1, f2, f3, f4, f5, f6⟩ :=
      drive_facts cfg hl toks (toks.drop it.consumed) it.sc it.consumed o it' rfl h.le_len hq h.sc h.strict he
    exact { rest_eq := f1, le_len := f2, sc := f3, strict := f4, batch := hb, short := f5, lb := f6 }

theorem IInv.bound (cfg : ScanCfg) (hl : LangOk cfg.lang) {toks : List Tok} {occs : List Occ} {it : Iter}
    {k : Nat} (h : IInv cfg toks occs it k) : it.consumed ≤ Hints.bound occs toks.length (k + 1) := by
  obtain ⟨m, hm1, hm2, hlb⟩ := h.lb
  have hb := h.batch
  rw [h.rest_eq] at hb
  obtain ⟨added, hq, hadd⟩ :=
    batchQ_added cfg hl (toks.drop it.consumed) it.sc it.consumed m (occs.drop k) h.strict h.sc hm1 hlb hb
  unfold Hints.bound
  cases hget : occs[k + 1]? with
  | none => exact h.le_len
  | some x =>
    dsimp only
    have h1 : (occs.drop k)[1]? = some x := by rw [List.getElem?_drop]; exact hget
    rw [hq] at h1
    have hmem : x ∈ added := by
      have hshort := h.short
      cases hqq : it.sc.tracker.queue with
      | nil =>
        rw [hqq, List.nil_append] at h1
        exact List.mem_of_getElem? h1
      | cons a ms =>
        rw [hqq] at hshort h1
        cases ms with
        | nil =>
          have h2 : added[0]? = some x := by simpa using h1
          exact List.mem_of_getElem? h2
        | cons b ms' =>
          simp only [List.length_cons] at hshort
          omega
    have := hadd x hmem
    omega

/-! ### calling `next` repeatedly -/

/-- call `next` k+1 times and return the last answer -/
def nextN (cfg : ScanCfg) : Nat → Iter → Except Fault (Option Occ × Iter)
  | 0, it => it.next cfg
  | k + 1, it =>
    match it.next cfg with
    | .error f => .error f
    | .ok (_, it') => nextN cfg k it'

/-- once the batch queue of the state is empty every later call returns `none` -/
theorem nextN_none (cfg : ScanCfg) : ∀ (k : Nat) (it : Iter) (r : Option Occ) (it' : Iter),
    batchQ cfg it.sc it.rest = .ok [] → nextN cfg k it = .ok (r, it') → r = none := by
  intro k
  induction k with
  | zero =>
    intro it r it' hb he
    unfold nextN at he
    obtain ⟨it'', h1, _⟩ := next_spec cfg it [] hb
    rw [h1] at he
    cases he
    rfl
  | succ k ih =>
    intro it r it' hb he
    unfold nextN at he
    obtain ⟨it'', h1, h2⟩ := next_spec cfg it [] hb
    rw [h1] at he
    dsimp only at he
    exact ih it'' r it' h2 he

theorem nextN_inv (cfg : ScanCfg) (hl : LangOk cfg.lang) (toks : List Tok) (occs : List Occ) :
    ∀ (k j : Nat) (it : Iter) (o : Occ) (it' : Iter), IInv cfg toks occs it j →
      nextN cfg k it = .ok (some o, it') →
      occs[j + k]? = some o ∧ IInv cfg toks occs it' (j + k + 1) := by
  intro k
  induction k with
  | zero =>
    intro j it o it' h he
    unfold nextN at he
    exact IInv.next cfg hl h o it' he
  | succ k ih =>
    intro j it o it' h he
    unfold nextN at he
    cases hn : it.next cfg with
    | error f => rw [hn] at he; cases he
    | ok p =>
      obtain ⟨r, it1⟩ := p
      rw [hn] at he
      dsimp only at he
      cases r with
      | some o1 =>
        obtain ⟨_, h1⟩ := IInv.next cfg hl h o1 it1 hn
        have h2 := ih (j + 1) it1 o it' h1 he
        have e : j + 1 + k = j + (k + 1) := by omega
        rw [e] at h2
        exact h2
      | none =>
        exfalso
        obtain ⟨_, h2⟩ := next_none cfg it (occs.drop j) it1 h.batch hn
        have := nextN_none cfg k it1 (some o) it' h2 he
        cases this

/-- MAIN: when the (k+1)-th call of `next` on a fresh iterator returns `o`, then `o = occs[k]` and at most
`occs[k+2].start + 1` tokens (all of them if there is no `occs[k+2]`) have been consumed -/
theorem lookahead (cfg : ScanCfg) (hl : LangOk cfg.lang) (toks : List Tok) (occs : List Occ)
    (h : findNumbers cfg toks = .ok occs) (k : Nat) (o : Occ) (it' : Iter)
    (he : nextN cfg k (iterNew toks) = .ok (some o, it')) :
    occs[k]? = some o ∧ it'.consumed ≤ bound occs toks.length (k + 2) ∧ it'.consumed ≤ toks.length := by
  obtain ⟨h1, h2⟩ := nextN_inv cfg hl toks occs k 0 (iterNew toks) o it' (IInv.init cfg toks occs h) he
  rw [Nat.zero_add] at h1 h2
  exact ⟨h1, IInv.bound cfg hl h2, h2.le_len⟩

/-! ### minimal consumption -/

/-- `next` stops at the first token whose push decides something: every strictly shorter prefix of the
remaining input leaves the queue empty -/
theorem drive_minimal (cfg : ScanCfg) : ∀ (rest : List (Nat × Tok)) (s : Scanner) (n : Nat) (r : Option Occ)
    (it' : Iter), s.tracker.queue = [] → Iter.drive cfg s rest n = .ok (r, it') →
    ∀ j, n + j < it'.consumed →
      ∃ s1, Scanner.pushAll cfg s (rest.take j) = .ok s1 ∧ s1.tracker.queue = [] := by
  intro rest
  induction rest with
  | nil =>
    intro s n r it' hq he j hj
    exfalso
    unfold Iter.drive at he
    cases hf : s.finalize cfg with
    | error f => rw [hf] at he; cases he
    | ok s1 =>
      rw [hf] at he
      dsimp only at he
      cases hq1 : s1.tracker.queue with
      | nil => rw [hq1] at he; cases he; dsimp only at hj; omega
      | cons a ms => rw [hq1] at he; cases he; dsimp only at hj; omega
  | cons pt rest ih =>
    intro s n r it' hq he j hj
    obtain ⟨pos, tok⟩ := pt
    cases j with
    | zero => exact ⟨s, rfl, hq⟩
    | succ j =>
      unfold Iter.drive at he
      cases hp : s.push cfg pos tok with
      | error f => rw [hp] at he; cases he
      | ok s1 =>
        rw [hp] at he
        dsimp only at he
        cases hq1 : s1.tracker.queue with
        | cons a ms => rw [hq1] at he; cases he; dsimp only at hj; omega
        | nil =>
          rw [hq1] at he
          dsimp only at he
          obtain ⟨s2, h1, h2⟩ := ih s1 (n + 1) r it' hq1 he j (by omega)
          refine ⟨s2, ?_, h2⟩
          simp only [List.take_succ_cons, Scanner.pushAll, hp]
          exact h1

/-! ### a toy instance: the hypotheses are satisfiable and the bound is attained -/

/-- every word `a` is the one-digit number `1`; a builder holding a number rejects everything -/
def toyApply (w : Word) (b : DS) : Res × DS :=
  if w == ['a'] && b.isEmpty then (none, { b with rbuf := [1] }) else (some .nan, b)

def toyLang : Lang where
  code := "toy"
  apply := toyApply
  applyDecimal := fun _ b => (some .nan, b)
  morph := fun _ => .none
  isDecSep := fun _ => false
  decMark := '.'
  isLinking := fun _ => false

theorem toy_ok : LangOk toyLang where
  apply_err := by
    intro w b e h
    show (toyApply w b).2.isEmpty = b.isEmpty
    have h' : (toyApply w b).1 = some e := h
    unfold toyApply at h' ⊢
    by_cases hc : (w == ['a'] && b.isEmpty) = true
    · rw [if_pos hc] at h'; cases h'
    · rw [if_neg hc]
  apply_ok := by
    intro w b h
    show (toyApply w b).2.isEmpty = false
    have h' : (toyApply w b).1 = none := h
    unfold toyApply at h' ⊢
    by_cases hc : (w == ['a'] && b.isEmpty) = true
    · rw [if_pos hc]; rfl
    · rw [if_neg hc] at h'; cases h'

/-- every number is "small", so a lone `1` is held back until the next number arrives -/
def toyCfg : ScanCfg where
  lang := toyLang
  cc := { isWhitespace := fun c => c == ' ', isAlphabetic := fun c => c == 'a',
          isAlphanumeric := fun c => c == 'a', lower := fun c => [c] }
  sep := fun _ _ => false
  thrLt := fun _ => true

def tokA : Tok := { text := ['a'], lower := ['a'] }

/-- `(start, stop)` of the returned occurrence and the number of tokens consumed -/
def view : Except Fault (Option Occ × Iter) → Option (Nat × Nat × Nat)
  | .ok (some o, it') => some (o.start, o.stop, it'.consumed)
  | _ => none

def starts : Except Fault (List Occ) → Option (List Nat)
  | .ok os => some (os.map (·.start))
  | .error _ => none

set_option maxRecDepth 100000 in
/-- the batch result on `a a a a`: four occurrences, one per token -/
example : starts (findNumbers toyCfg [tokA, tokA, tokA, tokA]) = some [0, 1, 2, 3] := by decide

set_option maxRecDepth 100000 in
/-- the bound is attained: the first call of `next` (k = 0) returns `occs[0] = (0, 1)` after consuming
`3 = occs[2].start + 1` of the four tokens -/
example : view (nextN toyCfg 0 (iterNew [tokA, tokA, tokA, tokA])) = some (0, 1, 3) := by decide

set_option maxRecDepth 100000 in
/-- a concrete run: the third call (k = 2) returns `occs[2] = (2, 3)` after consuming all four tokens
(there is no `occs[4]`), the second one (k = 1) returns `occs[1]` without consuming anything more -/
example : view (nextN toyCfg 2 (iterNew [tokA, tokA, tokA, tokA])) = some (2, 3, 4) ∧
    view (nextN toyCfg 1 (iterNew [tokA, tokA, tokA, tokA])) = some (1, 2, 3) := by decide

set_option maxRecDepth 100000 in
/-- … and `3` is indeed the value of the bound of `lookahead` for `k = 0` on that input -/
example : (match findNumbers toyCfg [tokA, tokA, tokA, tokA] with
    | .ok occs => bound occs 4 (0 + 2)
    | .error _ => 0) = 3 := by decide

/-- `lookahead` instantiated on the toy configuration -/
example (toks : List Tok) (occs : List Occ) (h : findNumbers toyCfg toks = .ok occs) (k : Nat) (o : Occ)
    (it' : Iter) (he : nextN toyCfg k (iterNew toks) = .ok (some o, it')) :
    occs[k]? = some o ∧ it'.consumed ≤ bound occs toks.length (k + 2) :=
  let h := lookahead toyCfg toy_ok toks occs h k o it' he
  ⟨h.1, h.2.1⟩

/-! ### concrete configurations and tokens for the examples of T2N/Props/C15/Hints.lean -/

/-- the separation hint of the examples: a token with `tstart = 1` declares itself unrelated to its
predecessor -/
def exSep (t _prev : Tok) : Bool := t.tstart == 1

def exCfg (l : Lang) (thr : Nat) : ScanCfg :=
  { lang := l, cc := simpleCC, sep := exSep, thrLt := fun n => n < thr }

def wd (w : Word) : Tok := { text := w, lower := w }
/-- a token hinted "not a number part" -/
def wdNan (w : Word) : Tok := { text := w, lower := w, nan := true }
/-- a token hinted "separated from its predecessor" -/
def wdSep (w : Word) : Tok := { text := w, lower := w, tstart := 1 }

/-- `(start, stop, text)` of the occurrences -/
def spans : Except Fault (List Occ) → Option (List (Nat × Nat × Word))
  | .ok os => some (os.map (fun o => (o.start, o.stop, o.text)))
  | .error _ => none

/-- the positions from `i` on move up by one (a token has been inserted at position `i`) -/
def shiftFrom (i : Nat) (o : Occ) : Occ :=
  if i ≤ o.start then { o with start := o.start + 1, stop := o.stop + 1 } else o

theorem shiftFrom_fields (i : Nat) (o : Occ) :
    (shiftFrom i o).text = o.text ∧ (shiftFrom i o).value = o.value ∧ (shiftFrom i o).isOrdinal = o.isOrdinal := by
  unfold shiftFrom; split <;> exact ⟨rfl, rfl, rfl⟩

end T2N.Hints
