/-
  T2N.Lemmas.Reset — the scanner forgets everything at a "hard breaker" (basis of C10).

  1. `push_hardBreaker`: whatever the state reached before, after a hard breaker has been pushed the
     parser is pristine (`{}`), no match is open and `last_contiguous_match` is `None`.
  2. `pushAll_sim`: two runs over the same tokens, one at positions `p, p+1, …` and one at positions
     `p+k, p+k+1, …`, started in states that agree up to (a) a prefix `q0` of decided occurrences,
     (b) the shift `k` of all positions, (c) the held-back occurrence while `last = None` (it can never be
     released), (d) the remembered previous token while no number is open (it is never consulted),
     stay in such states: the second run reports the occurrences of the first, shifted by `k`.
  3. `findNumbers_reset`: `find_numbers (A ++ [s] ++ B) = find_numbers (A ++ [s]) ++ shift (find_numbers B)`.

  Assumed of the language: `LangOk` (T2N/Lemmas/Strict.lean) and `Lang.ErrFresh` (a word refused by the
  pristine builder leaves it pristine, flags included).
-/
import T2N.Lemmas.Strict
import T2N.Lemmas.Iter
import T2N.Lemmas.Congr

namespace T2N

/-! ### generic list facts about the loop -/

theorem enumFrom_append {α} (xs ys : List α) :
    ∀ n, enumFrom n (xs ++ ys) = enumFrom n xs ++ enumFrom (n + xs.length) ys := by
  induction xs with
  | nil => intro n; simp [enumFrom]
  | cons x xs ih =>
    intro n
    simp only [List.cons_append, enumFrom, List.length_cons, ih (n + 1)]
    have : n + 1 + xs.length = n + (xs.length + 1) := by omega
    rw [this]

theorem Scanner.pushAll_append (cfg : ScanCfg) (xs ys : List (Nat × Tok)) :
    ∀ σ : Scanner, Scanner.pushAll cfg σ (xs ++ ys) =
      match Scanner.pushAll cfg σ xs with
      | .error f => .error f
      | .ok σ' => Scanner.pushAll cfg σ' ys := by
  induction xs with
  | nil => intro σ; rfl
  | cons pt xs ih =>
    intro σ
    obtain ⟨pos, tok⟩ := pt
    simp only [List.cons_append, Scanner.pushAll]
    cases σ.push cfg pos tok with
    | error f => rfl
    | ok σ' => exact ih σ'

/-! ### what is assumed of the language -/

/-- a word refused by the pristine builder leaves it pristine (flags included) -/
def Lang.ErrFresh (l : Lang) : Prop := ∀ w e, (l.apply w {}).1 = some e → (l.apply w {}).2 = {}

/-- the parser refuses the word in every state, with an error other than `Incomplete` -/
def Lang.Rejects (l : Lang) (w : Word) : Prop :=
  ∀ p : Parser, ∃ e, (p.push l w).1 = some e ∧ e ≠ Err.incomplete

/-- `Rejects` from facts about the interpreter alone: both per-word functions refuse the word on every
builder with an error other than `Incomplete`, and the word is not the decimal separator -/
theorem Lang.rejects_of_apply (l : Lang) (w : Word)
    (h1 : ∀ b, ∃ e, (l.apply w b).1 = some e ∧ e ≠ Err.incomplete)
    (h2 : ∀ b, ∃ e, (l.applyDecimal w b).1 = some e ∧ e ≠ Err.incomplete)
    (h3 : l.isDecSep w = false) : l.Rejects w := by
  intro p
  unfold Parser.push
  rw [h3]
  simp only [Bool.and_false, Bool.false_eq_true, if_false]
  by_cases hd : p.isDec = true
  · rw [if_pos hd]; exact h2 p.dec
  · rw [if_neg hd]; exact h1 p.int

/-- the pristine parser stays pristine when the interpreter leaves the pristine builder pristine -/
theorem Parser.push_fresh (l : Lang) (w : Word) (h : (l.apply w {}).2 = {}) :
    (({} : Parser).push l w).2 = {} := by
  unfold Parser.push
  dsimp only
  simp only [Bool.false_eq_true, if_false]
  rw [h]
  simp [DS.isEmpty]

/-! ### the idle parser is pristine -/

/-- a parser that holds no number is the pristine parser -/
def Idle (p : Parser) : Prop := p.hasNumber = false → p = {}

theorem Idle.init : Idle {} := fun _ => rfl

theorem parser_push_idle (l : Lang) (hl : LangOk l) (hf : l.ErrFresh) (p : Parser) (hp : PInv p)
    (hi : Idle p) (w : Word) : Idle (p.push l w).2 := by
  obtain ⟨_, f2, f3⟩ := parser_push_facts l hl p hp w
  intro hn
  cases hr : (p.push l w).1 with
  | none => rw [f2 hr] at hn; cases hn
  | some e =>
    rw [f3 e hr] at hn
    have hp0 := hi hn
    subst hp0
    apply Parser.push_fresh
    cases ha : (l.apply w {}).1 with
    | some e' => exact hf w e' ha
    | none =>
      -- accepted by the builder: then the parser accepts too
      exfalso
      have : (({} : Parser).push l w).1 = none := by
        unfold Parser.push
        dsimp only
        simp only [Bool.false_eq_true, if_false, ha, Option.isSome_none, Bool.false_and]
      rw [this] at hr; cases hr

/-! ### scanner level: the invariant used below -/

theorem outside_parser (cfg : ScanCfg) (σ : Scanner) (tok : Tok) : (σ.outside cfg tok).parser = σ.parser := by
  rw [outside_eq]; split <;> rfl

theorem outside_previous (cfg : ScanCfg) (σ : Scanner) (tok : Tok) : (σ.outside cfg tok).previous = σ.previous := by
  rw [outside_eq]; split <;> rfl

theorem numberEnd_parser (cfg : ScanCfg) (σ σ' : Scanner) (h : σ.numberEnd cfg = .ok σ') : σ'.parser = {} := by
  unfold Scanner.numberEnd at h
  cases hf : σ.parser.finish cfg.lang with
  | error f => rw [hf] at h; cases h
  | ok r => rw [hf] at h; cases h; rfl

theorem rejected_idle (cfg : ScanCfg) (hl : LangOk cfg.lang) (hf : cfg.lang.ErrFresh) (σ σ' : Scanner)
    (pos : Nat) (tok : Tok) (hi : Idle σ.parser) (he : Scanner.pushRejected cfg σ pos tok = .ok σ') :
    Idle σ'.parser := by
  unfold Scanner.pushRejected at he
  by_cases hn : σ.parser.hasNumber = true
  · rw [if_pos hn] at he
    cases h1 : σ.numberEnd cfg with
    | error f => rw [h1] at he; cases he
    | ok s1 =>
      rw [h1] at he
      dsimp only at he
      have hp1 := numberEnd_parser cfg σ s1 h1
      have hidle : Idle (s1.parser.push cfg.lang tok.lower).2 := by
        rw [hp1]; exact parser_push_idle cfg.lang hl hf {} PInv.init Idle.init tok.lower
      by_cases hr : (s1.parser.push cfg.lang tok.lower).1.isNone = true
      · rw [if_pos hr] at he; cases he; exact hidle
      · rw [if_neg hr] at he
        by_cases hinc : ((s1.parser.push cfg.lang tok.lower).1 == some Err.incomplete) = true
        · rw [if_pos hinc] at he; cases he; exact hidle
        · rw [if_neg hinc] at he; cases he
          show Idle (Scanner.outside cfg _ tok).parser
          rw [outside_parser]; exact hidle
  · rw [if_neg hn] at he; cases he
    show Idle (Scanner.outside cfg _ tok).parser
    rw [outside_parser]; exact hi

theorem push_idle (cfg : ScanCfg) (hl : LangOk cfg.lang) (hf : cfg.lang.ErrFresh) (σ σ' : Scanner)
    (pos : Nat) (tok : Tok) (hp : PInv σ.parser) (hi : Idle σ.parser) (he : σ.push cfg pos tok = .ok σ') :
    Idle σ'.parser := by
  unfold Scanner.push at he
  by_cases hs : Scanner.isSkipped cfg tok = true
  · rw [if_pos hs] at he; cases he; exact hi
  rw [if_neg hs] at he
  by_cases hnan : tok.nan = true
  · rw [if_pos hnan] at he
    unfold Scanner.pushNan at he
    by_cases hn : σ.parser.hasNumber = true
    · rw [if_pos hn] at he
      cases h1 : σ.numberEnd cfg with
      | error f => rw [h1] at he; cases he
      | ok s1 =>
        rw [h1] at he; cases he
        show Idle (Scanner.outside cfg _ tok).parser
        rw [outside_parser, numberEnd_parser cfg σ s1 h1]; exact Idle.init
    · rw [if_neg hn] at he; cases he
      show Idle (Scanner.outside cfg _ tok).parser
      rw [outside_parser]; exact hi
  rw [if_neg hnan] at he
  dsimp only at he
  have hidle := parser_push_idle cfg.lang hl hf σ.parser hp hi (Scanner.testWord cfg σ tok)
  cases hr : (σ.parser.push cfg.lang (Scanner.testWord cfg σ tok)).1 with
  | none => rw [hr] at he; cases he; exact hidle
  | some e =>
    cases e with
    | incomplete => rw [hr] at he; cases he; exact hidle
    | overlap => rw [hr] at he; exact rejected_idle cfg hl hf _ σ' pos tok hidle he
    | nan => rw [hr] at he; exact rejected_idle cfg hl hf _ σ' pos tok hidle he
    | frozen => rw [hr] at he; exact rejected_idle cfg hl hf _ σ' pos tok hidle he

/-- the invariant of the run: positions, "a number is held exactly while a match is open", and
"a parser without a number is pristine" -/
def RInv (σ : Scanner) (pos : Nat) : Prop := SInv σ ∧ ScInv σ pos ∧ Idle σ.parser

theorem RInv.init : RInv {} 0 := ⟨SInv.init, TrInv.init, Idle.init⟩

theorem push_rinv (cfg : ScanCfg) (hl : LangOk cfg.lang) (hf : cfg.lang.ErrFresh) (σ : Scanner) (pos : Nat)
    (tok : Tok) (h : RInv σ pos) : ∃ σ', σ.push cfg pos tok = .ok σ' ∧ RInv σ' (pos + 1) := by
  obtain ⟨h1, h2, h3⟩ := h
  obtain ⟨σ', e1, i1⟩ := push_ok cfg σ pos tok h2
  exact ⟨σ', e1, push_strict cfg hl σ σ' pos tok h1 h2.2.1 e1, i1, push_idle cfg hl hf σ σ' pos tok h1.1 h3 e1⟩

theorem pushAll_rinv (cfg : ScanCfg) (hl : LangOk cfg.lang) (hf : cfg.lang.ErrFresh) (toks : List Tok) :
    ∀ (σ : Scanner) (pos : Nat), RInv σ pos →
      ∃ σ', Scanner.pushAll cfg σ (enumFrom pos toks) = .ok σ' ∧ RInv σ' (pos + toks.length) := by
  induction toks with
  | nil => intro σ pos h; exact ⟨σ, rfl, h⟩
  | cons t ts ih =>
    intro σ pos h
    obtain ⟨s1, h1, h2⟩ := push_rinv cfg hl hf σ pos t h
    obtain ⟨s2, h3, h4⟩ := ih s1 (pos + 1) h2
    refine ⟨s2, ?_, ?_⟩
    · simp only [enumFrom, Scanner.pushAll, h1, h3]
    · have : pos + (t :: ts).length = pos + 1 + ts.length := by simp only [List.length_cons]; omega
      rw [this]; exact h4

/-- no match is open when no number is held -/
theorem SInv.closed {σ : Scanner} (h : SInv σ) (hn : σ.parser.hasNumber = false) :
    σ.tracker.mstart = σ.tracker.mend := by
  obtain ⟨_, h2, h3, _⟩ := h
  have : ¬ σ.tracker.mstart < σ.tracker.mend := by
    intro hlt; rw [h2.mpr hlt] at hn; cases hn
  omega

/-! ### 1. the state after a hard breaker -/

/-- a token after which the scanner is in a clean state whatever came before: it is not skipped, it breaks a
sequence (`breaks`: it contains a letter or is a lone `.`, and is not a linking word), and either it is hinted
as "not part of a number", or the parser refuses its word in every state with an error other than
`Incomplete`; if moreover the token may declare itself separated from its predecessor (`cfg.sep`), the forced
stop `","` that is then tried first must be refused in every state too.
(That the refused word leaves the pristine parser pristine follows from `LangOk` and `Lang.ErrFresh`:
`Parser.push_fresh_of_rejects`.) -/
structure HardBreaker (cfg : ScanCfg) (tok : Tok) : Prop where
  notSkipped : Scanner.isSkipped cfg tok = false
  breaks : breaks cfg tok = true
  rejected : tok.nan = true ∨
    (cfg.lang.Rejects tok.lower ∧ ((∀ prev, cfg.sep tok prev = false) ∨ cfg.lang.Rejects [',']))

/-- a word refused in every state leaves the pristine parser pristine -/
theorem Parser.push_fresh_of_rejects (l : Lang) (hl : LangOk l) (hf : l.ErrFresh) (w : Word)
    (hr : l.Rejects w) : (({} : Parser).push l w).2 = {} := by
  obtain ⟨e, he, _⟩ := hr {}
  obtain ⟨_, _, f3⟩ := parser_push_facts l hl {} PInv.init w
  exact parser_push_idle l hl hf {} PInv.init Idle.init w (by rw [f3 e he]; rfl)

theorem testWord_idle (cfg : ScanCfg) (σ : Scanner) (tok : Tok) (hn : σ.parser.hasNumber = false) :
    Scanner.testWord cfg σ tok = tok.lower := by
  unfold Scanner.testWord
  cases σ.previous with
  | none => rfl
  | some prev => simp [hn]

theorem testWord_cases_reset (cfg : ScanCfg) (σ : Scanner) (tok : Tok) :
    Scanner.testWord cfg σ tok = tok.lower ∨
      (Scanner.testWord cfg σ tok = [','] ∧ ∃ prev, cfg.sep tok prev = true) := by
  unfold Scanner.testWord
  cases σ.previous with
  | none => exact Or.inl rfl
  | some prev =>
    dsimp only
    by_cases hc : (σ.parser.hasNumber && cfg.sep tok prev) = true
    · rw [if_pos hc]
      refine Or.inr ⟨rfl, prev, ?_⟩
      simp only [Bool.and_eq_true] at hc; exact hc.2
    · rw [if_neg hc]; exact Or.inl rfl

theorem outside_breaks_last (cfg : ScanCfg) (σ : Scanner) (tok : Tok) (hb : breaks cfg tok = true) :
    (σ.outside cfg tok).tracker.last = Kind.none := by
  rw [outside_eq, if_pos hb]; rfl

theorem rejected_hard (cfg : ScanCfg) (σ : Scanner) (pos : Nat) (tok : Tok) (hsc : ScInv σ pos)
    (hbr : breaks cfg tok = true) (hrej : cfg.lang.Rejects tok.lower)
    (hfr : (({} : Parser).push cfg.lang tok.lower).2 = {}) (hi : Idle σ.parser) :
    ∃ σ', Scanner.pushRejected cfg σ pos tok = .ok σ' ∧ σ'.parser = {} ∧ σ'.tracker.last = Kind.none := by
  unfold Scanner.pushRejected
  by_cases hn : σ.parser.hasNumber = true
  · obtain ⟨s1, h1, _⟩ := numberEnd_ok cfg σ pos hsc hn
    have hp1 := numberEnd_parser cfg σ s1 h1
    rw [if_pos hn, h1]
    dsimp only
    obtain ⟨e2, he2, hne2⟩ := hrej s1.parser
    have hr : ¬ (s1.parser.push cfg.lang tok.lower).1.isNone = true := by rw [he2]; simp
    have hinc : ¬ ((s1.parser.push cfg.lang tok.lower).1 == some Err.incomplete) = true := by
      rw [he2]; simpa using hne2
    rw [if_neg hr, if_neg hinc]
    refine ⟨_, rfl, ?_, ?_⟩
    · show (Scanner.outside cfg _ tok).parser = {}
      rw [outside_parser]
      show (s1.parser.push cfg.lang tok.lower).2 = {}
      rw [hp1]; exact hfr
    · show (Scanner.outside cfg _ tok).tracker.last = Kind.none
      exact outside_breaks_last cfg _ tok hbr
  · rw [if_neg hn]
    refine ⟨_, rfl, ?_, ?_⟩
    · show (Scanner.outside cfg _ tok).parser = {}
      rw [outside_parser]
      exact hi (by simpa using hn)
    · show (Scanner.outside cfg _ tok).tracker.last = Kind.none
      exact outside_breaks_last cfg _ tok hbr

/-- **the state after a hard breaker**, whatever the (reachable) state before: the parser is pristine, the
kind of the last number is forgotten, no match is open, and the invariant still holds -/
theorem push_hardBreaker (cfg : ScanCfg) (hl : LangOk cfg.lang) (hf : cfg.lang.ErrFresh) (σ : Scanner)
    (pos : Nat) (tok : Tok) (hb : HardBreaker cfg tok) (h : RInv σ pos) :
    ∃ σ', σ.push cfg pos tok = .ok σ' ∧ σ'.parser = {} ∧ σ'.tracker.last = Kind.none ∧
      σ'.tracker.mstart = σ'.tracker.mend ∧ RInv σ' (pos + 1) := by
  obtain ⟨σ', e1, i1⟩ := push_rinv cfg hl hf σ pos tok h
  have key : σ'.parser = {} ∧ σ'.tracker.last = Kind.none := by
    obtain ⟨h1, h2, h3⟩ := h
    unfold Scanner.push at e1
    rw [if_neg (by rw [hb.notSkipped]; simp)] at e1
    by_cases hnan : tok.nan = true
    · rw [if_pos hnan] at e1
      unfold Scanner.pushNan at e1
      by_cases hn : σ.parser.hasNumber = true
      · rw [if_pos hn] at e1
        cases hne : σ.numberEnd cfg with
        | error f => rw [hne] at e1; cases e1
        | ok s1 =>
          rw [hne] at e1; cases e1
          refine ⟨?_, outside_breaks_last cfg _ tok hb.breaks⟩
          show (Scanner.outside cfg _ tok).parser = {}
          rw [outside_parser]; exact numberEnd_parser cfg σ s1 hne
      · rw [if_neg hn] at e1; cases e1
        refine ⟨?_, outside_breaks_last cfg _ tok hb.breaks⟩
        show (Scanner.outside cfg _ tok).parser = {}
        rw [outside_parser]; exact h3 (by simpa using hn)
    · rw [if_neg hnan] at e1
      dsimp only at e1
      rcases hb.rejected with hc | ⟨hrej, hsep⟩
      · exact absurd hc hnan
      · -- the word handed to the parser is refused
        have hw : ∃ e, (σ.parser.push cfg.lang (Scanner.testWord cfg σ tok)).1 = some e ∧ e ≠ Err.incomplete := by
          rcases testWord_cases_reset cfg σ tok with hw | ⟨hw, prev, hprev⟩
          · rw [hw]; exact hrej σ.parser
          · rw [hw]
            rcases hsep with hsep | hsep
            · rw [hsep prev] at hprev; cases hprev
            · exact hsep σ.parser
        obtain ⟨e, he, hne⟩ := hw
        obtain ⟨_, _, f3⟩ := parser_push_facts cfg.lang hl σ.parser h1.1 (Scanner.testWord cfg σ tok)
        -- the parser after the refused word is still idle-pristine
        have hidle : Idle (σ.parser.push cfg.lang (Scanner.testWord cfg σ tok)).2 :=
          parser_push_idle cfg.lang hl hf σ.parser h1.1 h3 _
        have hsc : ScInv ({ σ with parser := (σ.parser.push cfg.lang (Scanner.testWord cfg σ tok)).2 } : Scanner) pos := h2
        have hfr := Parser.push_fresh_of_rejects cfg.lang hl hf tok.lower hrej
        obtain ⟨σ'', e2, p2, l2⟩ := rejected_hard cfg _ pos tok hsc hb.breaks hrej hfr hidle
        rw [he] at e1
        cases e with
        | incomplete => exact absurd rfl hne
        | overlap => dsimp only at e1; rw [e2] at e1; cases e1; exact ⟨p2, l2⟩
        | nan => dsimp only at e1; rw [e2] at e1; cases e1; exact ⟨p2, l2⟩
        | frozen => dsimp only at e1; rw [e2] at e1; cases e1; exact ⟨p2, l2⟩
  refine ⟨σ', e1, key.1, key.2, ?_, i1⟩
  exact i1.1.closed (by rw [key.1]; rfl)

/-! ### 2. the position shift / simulation -/

def shiftOcc (k : Nat) (o : Occ) : Occ := { o with start := o.start + k, stop := o.stop + k }

/-- tracker `a` (positions shifted by `k`, decided prefix `q0`) simulates tracker `b` -/
structure TSim (k : Nat) (q0 : List Occ) (a b : Tracker) : Prop where
  queue : a.queue = q0 ++ b.queue.map (shiftOcc k)
  last : a.last = b.last
  /-- the held-back occurrence matters only while it can still be released -/
  hold : a.last ≠ Kind.none → a.onHold = b.onHold.map (shiftOcc k)
  /-- spans are shifted, or no match is open on either side -/
  span : (a.mstart = b.mstart + k ∧ a.mend = b.mend + k) ∨ (a.mstart = a.mend ∧ b.mstart = b.mend)

theorem TSim.advanced {k : Nat} {q0 : List Occ} {a b : Tracker} (h : TSim k q0 a b) (p : Nat) :
    TSim k q0 (a.advanced (p + k)) (b.advanced p) := by
  obtain ⟨h1, h2, h3, h4⟩ := h
  refine ⟨h1, h2, h3, ?_⟩
  left
  unfold Tracker.advanced
  dsimp only
  refine ⟨?_, by omega⟩
  rcases h4 with ⟨e1, e2⟩ | ⟨e1, e2⟩
  · by_cases hb : b.mstart = b.mend
    · have ha : a.mstart = a.mend := by omega
      simp only [ha, hb, beq_self_eq_true, if_true]
    · have ha : ¬ a.mstart = a.mend := by omega
      simp only [beq_iff_eq, ha, hb, if_false]
      omega
  · simp only [e1, e2, beq_self_eq_true, if_true]

theorem TSim.breaker {k : Nat} {q0 : List Occ} {a b : Tracker} (h : TSim k q0 a b) :
    TSim k q0 a.breaker b.breaker :=
  ⟨h.queue, rfl, fun hne => absurd rfl hne, h.span⟩

theorem TSim.numberEnd {k : Nat} {q0 : List Occ} {a b : Tracker} (h : TSim k q0 a b)
    (hs : a.mstart = b.mstart + k ∧ a.mend = b.mend + k) (o : Bool) (tx : Word) (v : Value) (f : Bool) :
    TSim k q0 (a.numberEnd o tx v f) (b.numberEnd o tx v f) := by
  obtain ⟨h1, h2, h3, _⟩ := h
  obtain ⟨e1, e2⟩ := hs
  unfold Tracker.numberEnd
  dsimp only
  have hocc : (⟨a.mstart, a.mend, tx, v, o⟩ : Occ) = shiftOcc k ⟨b.mstart, b.mend, tx, v, o⟩ := by
    simp only [shiftOcc, e1, e2]
  generalize hk : (if o = true then Kind.ordinal else Kind.cardinal) = kind
  have hkn : kind ≠ Kind.none := by
    subst hk; cases o <;> simp
  rw [h2]
  by_cases hc : (b.last == kind) = true
  · rw [if_pos hc, if_pos hc]
    have hbl : b.last = kind := by simpa using hc
    have hal : a.last ≠ Kind.none := by rw [h2, hbl]; exact hkn
    have hh := h3 hal
    refine ⟨?_, rfl, fun _ => rfl, Or.inl ⟨by dsimp only; omega, by dsimp only; omega⟩⟩
    dsimp only
    rw [h1, hh, hocc]
    cases b.onHold <;> simp [List.map_append, List.append_assoc]
  · rw [if_neg hc, if_neg hc]
    by_cases hf : f = true
    · rw [if_pos hf, if_pos hf]
      refine ⟨h1, rfl, fun _ => ?_, Or.inl ⟨by dsimp only; omega, by dsimp only; omega⟩⟩
      dsimp only
      rw [hocc]; rfl
    · rw [if_neg hf, if_neg hf]
      refine ⟨?_, rfl, fun _ => rfl, Or.inl ⟨by dsimp only; omega, by dsimp only; omega⟩⟩
      dsimp only
      rw [h1, hocc]
      simp [List.map_append, List.append_assoc]

/-- scanner `σ` simulates scanner `τ`: same parser, trackers related (the remembered previous token is
handled separately: `PrevOk`) -/
def SSim (k : Nat) (q0 : List Occ) (σ τ : Scanner) : Prop :=
  σ.parser = τ.parser ∧ TSim k q0 σ.tracker τ.tracker

/-- the remembered previous tokens agree, or no number is open (then `previous` is not consulted) -/
def PrevOk (σ τ : Scanner) : Prop := σ.previous = τ.previous ∨ σ.parser.hasNumber = false

def ResSim (k : Nat) (q0 : List Occ) : Except Fault Scanner → Except Fault Scanner → Prop
  | .ok σ, .ok τ => SSim k q0 σ τ
  | .error f, .error f' => f = f'
  | _, _ => False

/-- "a number is held only while a match is open" (from `SInv`) -/
def Open (τ : Scanner) : Prop := τ.parser.hasNumber = true → τ.tracker.mstart < τ.tracker.mend

theorem numberEnd_sim (cfg : ScanCfg) {k : Nat} {q0 : List Occ} {σ τ : Scanner} (h : SSim k q0 σ τ)
    (ho : Open τ) (hn : τ.parser.hasNumber = true) :
    ResSim k q0 (σ.numberEnd cfg) (τ.numberEnd cfg) := by
  obtain ⟨hp, ht⟩ := h
  have hlt := ho hn
  have hs : σ.tracker.mstart = τ.tracker.mstart + k ∧ σ.tracker.mend = τ.tracker.mend + k := by
    rcases ht.span with h' | ⟨_, h'⟩
    · exact h'
    · omega
  unfold Scanner.numberEnd
  rw [hp]
  cases τ.parser.finish cfg.lang with
  | error f => exact rfl
  | ok r => exact ⟨rfl, ht.numberEnd hs _ _ _ _⟩

theorem outside_sim (cfg : ScanCfg) {k : Nat} {q0 : List Occ} {σ τ : Scanner} (h : SSim k q0 σ τ) (tok : Tok) :
    SSim k q0 (σ.outside cfg tok) (τ.outside cfg tok) := by
  rw [outside_eq, outside_eq]
  split
  · exact ⟨h.1, h.2.breaker⟩
  · exact h

theorem setPrev_sim {k : Nat} {q0 : List Occ} {σ τ : Scanner} (h : SSim k q0 σ τ) (a b : Option Tok) :
    SSim k q0 { σ with previous := a } { τ with previous := b } := h

theorem pushNan_sim (cfg : ScanCfg) {k : Nat} {q0 : List Occ} {σ τ : Scanner} (h : SSim k q0 σ τ)
    (ho : Open τ) (tok : Tok) :
    ResSim k q0 (Scanner.pushNan cfg σ tok) (Scanner.pushNan cfg τ tok) := by
  unfold Scanner.pushNan
  rw [h.1]
  by_cases hn : τ.parser.hasNumber = true
  · rw [if_pos hn, if_pos hn]
    have := numberEnd_sim cfg h ho hn
    cases h1 : σ.numberEnd cfg with
    | error f =>
      cases h2 : τ.numberEnd cfg with
      | error f' => rw [h1, h2] at this; exact this
      | ok t' => rw [h1, h2] at this; cases this
    | ok t =>
      cases h2 : τ.numberEnd cfg with
      | error f' => rw [h1, h2] at this; cases this
      | ok t' =>
        rw [h1, h2] at this
        exact setPrev_sim (outside_sim cfg this tok) _ _
  · rw [if_neg hn, if_neg hn]
    exact setPrev_sim (outside_sim cfg h tok) _ _

theorem pushRejected_sim (cfg : ScanCfg) {k : Nat} {q0 : List Occ} {σ τ : Scanner} (h : SSim k q0 σ τ)
    (ho : Open τ) (p : Nat) (tok : Tok) :
    ResSim k q0 (Scanner.pushRejected cfg σ (p + k) tok) (Scanner.pushRejected cfg τ p tok) := by
  unfold Scanner.pushRejected
  rw [h.1]
  by_cases hn : τ.parser.hasNumber = true
  · rw [if_pos hn, if_pos hn]
    have := numberEnd_sim cfg h ho hn
    cases h1 : σ.numberEnd cfg with
    | error f =>
      cases h2 : τ.numberEnd cfg with
      | error f' => rw [h1, h2] at this; exact this
      | ok t' => rw [h1, h2] at this; cases this
    | ok t =>
      cases h2 : τ.numberEnd cfg with
      | error f' => rw [h1, h2] at this; cases this
      | ok t' =>
        rw [h1, h2] at this
        obtain ⟨tp, tt⟩ := this
        dsimp only
        rw [tp]
        by_cases hr : (t'.parser.push cfg.lang tok.lower).1.isNone = true
        · rw [if_pos hr, if_pos hr]
          exact ⟨rfl, tt.advanced p⟩
        · rw [if_neg hr, if_neg hr]
          by_cases hinc : ((t'.parser.push cfg.lang tok.lower).1 == some Err.incomplete) = true
          · rw [if_pos hinc, if_pos hinc]
            exact ⟨rfl, tt⟩
          · rw [if_neg hinc, if_neg hinc]
            exact setPrev_sim (outside_sim cfg (σ := { t with parser := (t'.parser.push cfg.lang tok.lower).2 })
              (τ := { t' with parser := (t'.parser.push cfg.lang tok.lower).2 }) ⟨rfl, tt⟩ tok) _ _
  · rw [if_neg hn, if_neg hn]
    exact setPrev_sim (outside_sim cfg h tok) _ _

theorem testWord_sim (cfg : ScanCfg) {σ τ : Scanner} (hp : σ.parser = τ.parser) (hprev : PrevOk σ τ) (tok : Tok) :
    Scanner.testWord cfg σ tok = Scanner.testWord cfg τ tok := by
  rcases hprev with h | h
  · unfold Scanner.testWord; rw [h, hp]
  · rw [testWord_idle cfg σ tok h, testWord_idle cfg τ tok (by rw [← hp]; exact h)]

theorem push_sim (cfg : ScanCfg) (hl : LangOk cfg.lang) {k : Nat} {q0 : List Occ} {σ τ : Scanner}
    (h : SSim k q0 σ τ) (hprev : PrevOk σ τ) (hτ : SInv τ) (p : Nat) (tok : Tok) :
    ResSim k q0 (σ.push cfg (p + k) tok) (τ.push cfg p tok) := by
  have ho : Open τ := hτ.2.1.mp
  unfold Scanner.push
  by_cases hs : Scanner.isSkipped cfg tok = true
  · rw [if_pos hs, if_pos hs]; exact h
  rw [if_neg hs, if_neg hs]
  by_cases hnan : tok.nan = true
  · rw [if_pos hnan, if_pos hnan]; exact pushNan_sim cfg h ho tok
  rw [if_neg hnan, if_neg hnan]
  rw [testWord_sim cfg h.1 hprev tok, h.1]
  obtain ⟨_, _, f3⟩ := parser_push_facts cfg.lang hl τ.parser hτ.1 (Scanner.testWord cfg τ tok)
  have hrej : ∀ e, (τ.parser.push cfg.lang (Scanner.testWord cfg τ tok)).1 = some e →
      ResSim k q0
        (Scanner.pushRejected cfg { σ with parser := (τ.parser.push cfg.lang (Scanner.testWord cfg τ tok)).2 } (p + k) tok)
        (Scanner.pushRejected cfg { τ with parser := (τ.parser.push cfg.lang (Scanner.testWord cfg τ tok)).2 } p tok) := by
    intro e he
    apply pushRejected_sim cfg (σ := { σ with parser := (τ.parser.push cfg.lang (Scanner.testWord cfg τ tok)).2 })
      (τ := { τ with parser := (τ.parser.push cfg.lang (Scanner.testWord cfg τ tok)).2 }) ⟨rfl, h.2⟩
    intro hn
    have hn' : (τ.parser.push cfg.lang (Scanner.testWord cfg τ tok)).2.hasNumber = true := hn
    rw [f3 e he] at hn'
    exact ho hn'
  dsimp only
  cases hr : (τ.parser.push cfg.lang (Scanner.testWord cfg τ tok)).1 with
  | none => exact ⟨rfl, h.2.advanced p⟩
  | some e =>
    cases e with
    | incomplete => exact ⟨rfl, h.2⟩
    | overlap => exact hrej _ hr
    | nan => exact hrej _ hr
    | frozen => exact hrej _ hr

/-- every push of a token that is not skipped records it as the previous token -/
theorem push_previous (cfg : ScanCfg) (σ σ' : Scanner) (pos : Nat) (tok : Tok)
    (hs : Scanner.isSkipped cfg tok = false) (he : σ.push cfg pos tok = .ok σ') : σ'.previous = some tok := by
  have hrej : ∀ s : Scanner, Scanner.pushRejected cfg s pos tok = .ok σ' → σ'.previous = some tok := by
    intro s he
    unfold Scanner.pushRejected at he
    by_cases hn : s.parser.hasNumber = true
    · rw [if_pos hn] at he
      cases h1 : s.numberEnd cfg with
      | error f => rw [h1] at he; cases he
      | ok s1 => rw [h1] at he; cases he; rfl
    · rw [if_neg hn] at he; cases he; rfl
  unfold Scanner.push at he
  rw [if_neg (by rw [hs]; simp)] at he
  by_cases hnan : tok.nan = true
  · rw [if_pos hnan] at he
    unfold Scanner.pushNan at he
    cases h1 : (if σ.parser.hasNumber = true then σ.numberEnd cfg else .ok σ) with
    | error f => rw [h1] at he; cases he
    | ok s1 => rw [h1] at he; cases he; rfl
  rw [if_neg hnan] at he
  dsimp only at he
  cases hr : (σ.parser.push cfg.lang (Scanner.testWord cfg σ tok)).1 with
  | none => rw [hr] at he; cases he; rfl
  | some e =>
    cases e with
    | incomplete => rw [hr] at he; cases he; rfl
    | overlap => rw [hr] at he; exact hrej _ he
    | nan => rw [hr] at he; exact hrej _ he
    | frozen => rw [hr] at he; exact hrej _ he

theorem push_prevOk (cfg : ScanCfg) {σ τ σ' τ' : Scanner} (pos pos' : Nat) (tok : Tok) (h : PrevOk σ τ)
    (e1 : σ.push cfg pos tok = .ok σ') (e2 : τ.push cfg pos' tok = .ok τ') : PrevOk σ' τ' := by
  by_cases hs : Scanner.isSkipped cfg tok = true
  · unfold Scanner.push at e1 e2
    rw [if_pos hs] at e1 e2
    cases e1; cases e2; exact h
  · have hs' : Scanner.isSkipped cfg tok = false := by simpa using hs
    left
    rw [push_previous cfg σ σ' pos tok hs' e1, push_previous cfg τ τ' pos' tok hs' e2]

/-- **position shift / context independence of the loop**: from related states, the loop over the same
tokens at positions shifted by `k` ends in related states (same parser; same tracker up to the decided
prefix `q0` and the shift by `k` of all spans) -/
theorem pushAll_sim (cfg : ScanCfg) (hl : LangOk cfg.lang) (k : Nat) (q0 : List Occ) (B : List Tok) :
    ∀ (p : Nat) (σ τ : Scanner), SSim k q0 σ τ → PrevOk σ τ → SInv τ → ScInv τ p →
      ∃ σ' τ', Scanner.pushAll cfg σ (enumFrom (p + k) B) = .ok σ' ∧
        Scanner.pushAll cfg τ (enumFrom p B) = .ok τ' ∧ SSim k q0 σ' τ' ∧ SInv τ' := by
  induction B with
  | nil => intro p σ τ h _ hτ _; exact ⟨σ, τ, rfl, rfl, h, hτ⟩
  | cons t ts ih =>
    intro p σ τ h hprev hτ hsc
    obtain ⟨τ1, e2, i2⟩ := push_ok cfg τ p t hsc
    have hsim := push_sim cfg hl h hprev hτ p t
    rw [e2] at hsim
    cases e1 : σ.push cfg (p + k) t with
    | error f => rw [e1] at hsim; cases hsim
    | ok σ1 =>
      rw [e1] at hsim
      have hτ1 := push_strict cfg hl τ τ1 p t hτ hsc.2.1 e2
      obtain ⟨σ', τ', a1, a2, a3, a4⟩ := ih (p + 1) σ1 τ1 hsim (push_prevOk cfg _ _ t hprev e1 e2) hτ1 i2
      refine ⟨σ', τ', ?_, ?_, a3, a4⟩
      · have : p + 1 + k = p + k + 1 := by omega
        rw [this] at a1
        simp only [enumFrom, Scanner.pushAll, e1, a1]
      · simp only [enumFrom, Scanner.pushAll, e2, a2]

theorem finalize_sim (cfg : ScanCfg) {k : Nat} {q0 : List Occ} {σ τ : Scanner} (h : SSim k q0 σ τ) (ho : Open τ) :
    ResSim k q0 (σ.finalize cfg) (τ.finalize cfg) := by
  unfold Scanner.finalize
  rw [h.1]
  by_cases hn : τ.parser.hasNumber = true
  · rw [if_pos hn, if_pos hn]; exact numberEnd_sim cfg h ho hn
  · rw [if_neg hn, if_neg hn]; exact h

/-! ### 3. the occurrences after a hard breaker do not depend on what came before it -/

theorem findNumbers_reset (cfg : ScanCfg) (hl : LangOk cfg.lang) (hf : cfg.lang.ErrFresh) (A B : List Tok)
    (s : Tok) (hs : HardBreaker cfg s) :
    ∃ oa ob, findNumbers cfg (A ++ [s]) = .ok oa ∧ findNumbers cfg B = .ok ob ∧
      findNumbers cfg (A ++ [s] ++ B) = .ok (oa ++ ob.map (shiftOcc (A.length + 1))) := by
  -- the run over `A`, then the breaker
  obtain ⟨σA, eA, iA⟩ := pushAll_rinv cfg hl hf A {} 0 RInv.init
  obtain ⟨σ0, e0, hp0, hl0, hc0, i0⟩ := push_hardBreaker cfg hl hf σA (0 + A.length) s hs iA
  have eAs : Scanner.pushAll cfg {} (enumFrom 0 (A ++ [s])) = .ok σ0 := by
    rw [enumFrom_append, Scanner.pushAll_append, eA]
    simp only [enumFrom, Scanner.pushAll, e0]
  have hn0 : σ0.parser.hasNumber = false := by rw [hp0]; rfl
  have fin0 : σ0.finalize cfg = .ok σ0 := by
    unfold Scanner.finalize; rw [hn0]; rfl
  -- the run over `B` from the state after the breaker simulates the run over `B` from the initial state
  have hsim0 : SSim (A.length + 1) σ0.tracker.queue σ0 {} := by
    refine ⟨hp0, ?_, ?_, ?_, ?_⟩
    · simp
    · exact hl0
    · intro hne; exact absurd hl0 hne
    · exact Or.inr ⟨hc0, rfl⟩
  obtain ⟨σ1, τ1, e1, e2, hsim1, hτ1⟩ :=
    pushAll_sim cfg hl (A.length + 1) σ0.tracker.queue B 0 σ0 {} hsim0 (Or.inr hn0) SInv.init TrInv.init
  have hfin := finalize_sim cfg hsim1 hτ1.2.1.mp
  have eAll : Scanner.pushAll cfg {} (enumFrom 0 (A ++ [s] ++ B)) = .ok σ1 := by
    rw [enumFrom_append, Scanner.pushAll_append, eAs]
    have : 0 + (A ++ [s]).length = 0 + (A.length + 1) := by simp
    rw [this]; exact e1
  cases f1 : σ1.finalize cfg with
  | error f =>
    cases f2 : τ1.finalize cfg with
    | error f' =>
      -- impossible: `find_numbers` never faults
      exfalso
      obtain ⟨occs, hocc, _⟩ := findNumbers_ok cfg B
      simp only [findNumbers, e2, f2] at hocc
      cases hocc
    | ok τ2 => rw [f1, f2] at hfin; cases hfin
  | ok σ2 =>
    cases f2 : τ1.finalize cfg with
    | error f' => rw [f1, f2] at hfin; cases hfin
    | ok τ2 =>
      rw [f1, f2] at hfin
      refine ⟨σ0.tracker.queue, τ2.tracker.queue, ?_, ?_, ?_⟩
      · simp only [findNumbers, eAs, fin0]
      · simp only [findNumbers, e2, f2]
      · simp only [findNumbers, eAll, f1]
        rw [hfin.2.queue]

end T2N
