/-
  T2N.Lemmas.Congr — the scanner observes a token only through a few predicates; two token streams
  that agree on those observations give the same occurrences (basis of C11, C17, C18, C15-hints).
-/
import T2N.Model.Scanner

namespace T2N

/-- does the token break a sequence when it lands in `outside_number`? -/
def breaks (cfg : ScanCfg) (tok : Tok) : Bool :=
  !((tok.text.all (fun c => !cfg.cc.isAlphabetic c) && cfg.cc.trim tok.text != ['.'])
      || cfg.lang.isLinking tok.lower)

theorem outside_eq (cfg : ScanCfg) (s : Scanner) (tok : Tok) :
    s.outside cfg tok = if breaks cfg tok then { s with tracker := s.tracker.breaker } else s := by
  unfold Scanner.outside breaks; rfl

/-- the language cannot tell the two words apart -/
def LangEq (l : Lang) (w w' : Word) : Prop :=
  (∀ b, l.apply w b = l.apply w' b) ∧ (∀ b, l.applyDecimal w b = l.applyDecimal w' b) ∧
  l.isDecSep w = l.isDecSep w'

theorem LangEq.refl (l : Lang) (w : Word) : LangEq l w w := ⟨fun _ => rfl, fun _ => rfl, rfl⟩

/-- the scanner cannot tell the two tokens apart -/
def TokRel (cfg : ScanCfg) (a b : Tok) : Prop :=
  Scanner.isSkipped cfg a = Scanner.isSkipped cfg b ∧ a.nan = b.nan ∧
  LangEq cfg.lang a.lower b.lower ∧ breaks cfg a = breaks cfg b

def ListRel {α} (R : α → α → Prop) : List α → List α → Prop
  | [], [] => True
  | a :: as, b :: bs => R a b ∧ ListRel R as bs
  | _, _ => False

theorem ListRel.length_eq {α} {R : α → α → Prop} : ∀ {as bs : List α}, ListRel R as bs → as.length = bs.length
  | [], [], _ => rfl
  | _ :: as, _ :: bs, h => by simp [ListRel.length_eq h.2]
  | [], _ :: _, h => by cases h
  | _ :: _, [], h => by cases h

/-- scanner states that differ only in the remembered previous token, which is related -/
def ScRel (cfg : ScanCfg) (s s' : Scanner) : Prop :=
  s.parser = s'.parser ∧ s.tracker = s'.tracker ∧
  (match s.previous, s'.previous with
   | none, none => True
   | some a, some b => TokRel cfg a b
   | _, _ => False)

theorem parser_push_langEq (l : Lang) (p : Parser) {w w' : Word} (h : LangEq l w w') :
    p.push l w = p.push l w' := by
  unfold Parser.push
  rw [h.1, h.2.1, h.2.2]

/-- the separation hint must not distinguish related tokens either -/
def SepRespects (cfg : ScanCfg) : Prop :=
  ∀ a a' b b', TokRel cfg a a' → TokRel cfg b b' → cfg.sep a b = cfg.sep a' b'

theorem testWord_rel (cfg : ScanCfg) (hsep : SepRespects cfg) {s s' : Scanner} {a b : Tok}
    (hs : ScRel cfg s s') (hab : TokRel cfg a b) :
    LangEq cfg.lang (Scanner.testWord cfg s a) (Scanner.testWord cfg s' b) := by
  obtain ⟨hp, _, hprev⟩ := hs
  unfold Scanner.testWord
  cases h1 : s.previous with
  | none =>
    cases h2 : s'.previous with
    | none => exact hab.2.2.1
    | some y => rw [h1, h2] at hprev; cases hprev
  | some x =>
    cases h2 : s'.previous with
    | none => rw [h1, h2] at hprev; cases hprev
    | some y =>
      rw [h1, h2] at hprev
      dsimp only
      rw [hp, hsep a b x y hab hprev]
      split
      · exact LangEq.refl _ _
      · exact hab.2.2.1

theorem numberEnd_rel (cfg : ScanCfg) {s s' : Scanner} (hs : ScRel cfg s s') :
    (match s.numberEnd cfg, s'.numberEnd cfg with
     | .ok t, .ok t' => ScRel cfg t t'
     | .error f, .error f' => f = f'
     | _, _ => False) := by
  obtain ⟨hp, ht, hprev⟩ := hs
  unfold Scanner.numberEnd
  rw [hp, ht]
  cases s'.parser.finish cfg.lang with
  | error f => rfl
  | ok r => exact ⟨rfl, rfl, hprev⟩

theorem outside_rel (cfg : ScanCfg) {s s' : Scanner} {a b : Tok} (hs : ScRel cfg s s')
    (hab : TokRel cfg a b) : ScRel cfg (s.outside cfg a) (s'.outside cfg b) := by
  obtain ⟨hp, ht, hprev⟩ := hs
  rw [outside_eq, outside_eq, hab.2.2.2]
  split
  · exact ⟨hp, by simp [ht], hprev⟩
  · exact ⟨hp, ht, hprev⟩

theorem setPrev_rel (cfg : ScanCfg) {s s' : Scanner} {a b : Tok} (hs : ScRel cfg s s')
    (hab : TokRel cfg a b) : ScRel cfg { s with previous := some a } { s' with previous := some b } :=
  ⟨hs.1, hs.2.1, hab⟩

/-- relation on results -/
def ResRel (cfg : ScanCfg) : Except Fault Scanner → Except Fault Scanner → Prop
  | .ok t, .ok t' => ScRel cfg t t'
  | .error f, .error f' => f = f'
  | _, _ => False

theorem pushNan_rel (cfg : ScanCfg) {s s' : Scanner} {a b : Tok} (hs : ScRel cfg s s')
    (hab : TokRel cfg a b) : ResRel cfg (Scanner.pushNan cfg s a) (Scanner.pushNan cfg s' b) := by
  unfold Scanner.pushNan
  have hp := hs.1
  rw [hp]
  by_cases hn : s'.parser.hasNumber = true
  · simp only [hn, if_true]
    have := numberEnd_rel cfg hs
    cases h1 : s.numberEnd cfg with
    | error f =>
      cases h2 : s'.numberEnd cfg with
      | error f' => rw [h1, h2] at this; exact this
      | ok t' => rw [h1, h2] at this; cases this
    | ok t =>
      cases h2 : s'.numberEnd cfg with
      | error f' => rw [h1, h2] at this; cases this
      | ok t' =>
        rw [h1, h2] at this
        exact setPrev_rel cfg (outside_rel cfg this hab) hab
  · simp only [hn, Bool.false_eq_true, if_false]
    exact setPrev_rel cfg (outside_rel cfg hs hab) hab

theorem pushRejected_rel (cfg : ScanCfg) {s s' : Scanner} {a b : Tok} (pos : Nat) (hs : ScRel cfg s s')
    (hab : TokRel cfg a b) :
    ResRel cfg (Scanner.pushRejected cfg s pos a) (Scanner.pushRejected cfg s' pos b) := by
  unfold Scanner.pushRejected
  have hp := hs.1
  rw [hp]
  by_cases hn : s'.parser.hasNumber = true
  · simp only [hn, if_true]
    have := numberEnd_rel cfg hs
    cases h1 : s.numberEnd cfg with
    | error f =>
      cases h2 : s'.numberEnd cfg with
      | error f' => rw [h1, h2] at this; exact this
      | ok t' => rw [h1, h2] at this; cases this
    | ok t =>
      cases h2 : s'.numberEnd cfg with
      | error f' => rw [h1, h2] at this; cases this
      | ok t' =>
        rw [h1, h2] at this
        obtain ⟨tp, tt, tprev⟩ := this
        dsimp only
        rw [tp, parser_push_langEq cfg.lang t'.parser hab.2.2.1]
        split
        · exact ⟨rfl, by simp [tt], hab⟩
        · split
          · exact ⟨rfl, tt, hab⟩
          · exact setPrev_rel cfg (outside_rel cfg ⟨rfl, tt, tprev⟩ hab) hab
  · simp only [hn, Bool.false_eq_true, if_false]
    exact setPrev_rel cfg (outside_rel cfg hs hab) hab

theorem push_rel (cfg : ScanCfg) (hsep : SepRespects cfg) {s s' : Scanner} {a b : Tok} (pos : Nat)
    (hs : ScRel cfg s s') (hab : TokRel cfg a b) :
    ResRel cfg (s.push cfg pos a) (s'.push cfg pos b) := by
  unfold Scanner.push
  rw [hab.1, hab.2.1]
  by_cases hsk : Scanner.isSkipped cfg b = true
  · simp only [hsk, if_true]; exact hs
  simp only [hsk, Bool.false_eq_true, if_false]
  by_cases hnan : b.nan = true
  · simp only [hnan, if_true]; exact pushNan_rel cfg hs hab
  simp only [hnan, Bool.false_eq_true, if_false]
  have htw := testWord_rel cfg hsep hs hab
  have hp := hs.1
  rw [hp, parser_push_langEq cfg.lang s'.parser htw]
  cases hr : (s'.parser.push cfg.lang (Scanner.testWord cfg s' b)).1 with
  | none => exact ⟨rfl, by simp [hs.2.1], hab⟩
  | some e =>
    cases e with
    | incomplete => exact ⟨rfl, hs.2.1, hab⟩
    | overlap => exact pushRejected_rel cfg pos ⟨rfl, hs.2.1, hs.2.2⟩ hab
    | nan => exact pushRejected_rel cfg pos ⟨rfl, hs.2.1, hs.2.2⟩ hab
    | frozen => exact pushRejected_rel cfg pos ⟨rfl, hs.2.1, hs.2.2⟩ hab

theorem pushAll_rel (cfg : ScanCfg) (hsep : SepRespects cfg) :
    ∀ (as bs : List Tok) (pos : Nat) (s s' : Scanner), ListRel (TokRel cfg) as bs → ScRel cfg s s' →
      ResRel cfg (Scanner.pushAll cfg s (enumFrom pos as)) (Scanner.pushAll cfg s' (enumFrom pos bs))
  | [], [], _, s, s', _, hs => hs
  | a :: as, b :: bs, pos, s, s', hl, hs => by
    simp only [enumFrom, Scanner.pushAll]
    have h1 := push_rel cfg hsep pos hs hl.1
    cases ha : s.push cfg pos a with
    | error f =>
      cases hb : s'.push cfg pos b with
      | error f' => rw [ha, hb] at h1; exact h1
      | ok t' => rw [ha, hb] at h1; cases h1
    | ok t =>
      cases hb : s'.push cfg pos b with
      | error f' => rw [ha, hb] at h1; cases h1
      | ok t' =>
        rw [ha, hb] at h1
        exact pushAll_rel cfg hsep as bs (pos + 1) t t' hl.2 h1
  | [], _ :: _, _, _, _, hl, _ => by cases hl
  | _ :: _, [], _, _, _, hl, _ => by cases hl

/-- **scanner congruence**: observationally equal token streams give the same occurrences
(same spans, texts, values, flags), for every threshold. -/
theorem findNumbers_congr (cfg : ScanCfg) (hsep : SepRespects cfg) (as bs : List Tok)
    (h : ListRel (TokRel cfg) as bs) : findNumbers cfg as = findNumbers cfg bs := by
  unfold findNumbers
  have h1 := pushAll_rel cfg hsep as bs 0 {} {} h ⟨rfl, rfl, trivial⟩
  cases ha : Scanner.pushAll cfg {} (enumFrom 0 as) with
  | error f =>
    cases hb : Scanner.pushAll cfg {} (enumFrom 0 bs) with
    | error f' => rw [ha, hb] at h1; simp only [ResRel] at h1; rw [h1]
    | ok t' => rw [ha, hb] at h1; cases h1
  | ok t =>
    cases hb : Scanner.pushAll cfg {} (enumFrom 0 bs) with
    | error f' => rw [ha, hb] at h1; cases h1
    | ok t' =>
      rw [ha, hb] at h1
      obtain ⟨hp, ht, _⟩ := h1
      dsimp only
      unfold Scanner.finalize Scanner.numberEnd
      rw [hp, ht]
      cases t'.parser.hasNumber
      · simp [ht]
      · cases t'.parser.finish cfg.lang <;> simp

end T2N
