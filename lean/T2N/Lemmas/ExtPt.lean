/-
  T2N.Lemmas.ExtPt — extensions of the unbounded Portuguese round-trip (T2N.Lemmas.C01Pt):
  leading zeros (C16), digit dictation (C08), decimals (C05), ordinals (C04).
  The language-independent scanner lemmas are those of T2N.Lemmas.EnExt (Part 3 there).
-/
import T2N.Lemmas.C01Pt
import T2N.Lemmas.EnExt
import T2N.Lemmas.LangFacts
import T2N.Lemmas.Lift
import T2N.Lemmas.SimpleCC
import T2N.Spec.Spellers

namespace T2N.ExtPt
open T2N T2N.DS T2N.Spec T2N.C01En T2N.C01Pt

/-! ## Part 1 — leading zeros: an accepted Portuguese step does not depend on `lz` -/

/-- guards whose value does not depend on the leading-zero counter (`is_free` reads `is_empty`, but an
empty buffer is free anyway) -/
def gLz : Guard → Bool
  | .tt => true
  | .neg g => gLz g
  | .and a b => gLz a && gLz b
  | .or a b => gLz a && gLz b
  | .peekEq _ _ => true
  | .peekLt _ _ => true
  | .peekLen _ _ => true
  | .null => true
  | .rangeFree _ _ => true
  | .flag _ => true
  | .markerOrd => true
  | .markerNone => true
  | .groupOne _ => true
  | .free _ => true
  | .empty => false
  | .lenGe _ => false
  | .lenEq _ => false

theorem free_lz (b : DS) (k n : Nat) : (EnExt.setLz k b).isFree n = b.isFree n := by
  unfold DS.isFree DS.isEmpty EnExt.setLz
  dsimp only
  cases h : b.rbuf with
  | nil => simp [allZero]
  | cons a t => simp

theorem gLz_eval (g : Guard) (b : DS) (k : Nat) (h : gLz g = true) : g.eval (EnExt.setLz k b) = g.eval b := by
  induction g with
  | tt => rfl
  | neg g ih => simp only [Guard.eval, ih h]
  | and x y ihx ihy =>
    simp only [gLz, Bool.and_eq_true] at h
    simp only [Guard.eval, ihx h.1, ihy h.2]
  | or x y ihx ihy =>
    simp only [gLz, Bool.and_eq_true] at h
    simp only [Guard.eval, ihx h.1, ihy h.2]
  | peekEq _ _ => rfl
  | peekLt _ _ => rfl
  | peekLen _ _ => rfl
  | null => rfl
  | rangeFree _ _ => rfl
  | flag _ => rfl
  | markerOrd => rfl
  | markerNone => rfl
  | groupOne _ => rfl
  | free n => exact free_lz b k n
  | empty => exact absurd h Bool.false_ne_true
  | lenGe _ => exact absurd h Bool.false_ne_true
  | lenEq _ => exact absurd h Bool.false_ne_true

/-- instructions all of whose guards are `lz`-blind -/
def okAct : Act → Bool
  | .ite g a b => gLz g && okAct a && okAct b
  | .block _ a => okAct a
  | _ => true

/-- a `lz`-blind instruction that did not add a leading zero does the same on any number of zeros -/
theorem exec_lz (a : Act) (h : okAct a = true) : ∀ (b : DS) (k : Nat), (a.exec b).2.1.lz = b.lz →
    a.exec (EnExt.setLz k b) = ((a.exec b).1, EnExt.setLz k (a.exec b).2.1, (a.exec b).2.2) := by
  induction a with
  | put ds => intro b k hl; simp only [Act.exec] at *; rw [EnExt.put_lz b ds k hl]
  | fput ds => intro b k _; simp only [Act.exec]; rw [(EnExt.fput_lz b ds k).1]
  | shift p => intro b k _; simp only [Act.exec]; rw [(EnExt.shift_lz b p k).1]
  | putAt d p => intro b k _; simp only [Act.exec]; rw [(EnExt.putAt_lz b d p k).1]
  | push ds => intro b k _; simp only [Act.exec]; rw [(EnExt.push_lz b ds k).1]
  | fail e => intro b k _; rfl
  | ite g x y ihx ihy =>
    intro b k hl
    simp only [okAct, Bool.and_eq_true] at h
    simp only [Act.exec] at *
    rw [gLz_eval g b k h.1.1]
    by_cases hg : g.eval b = true
    · simp only [if_pos hg] at hl ⊢; exact ihx h.1.2 b k hl
    · simp only [if_neg hg] at hl ⊢; exact ihy h.2 b k hl
  | block m a ih =>
    intro b k hl
    simp only [okAct] at h
    simp only [Act.exec] at *
    rw [ih h b k hl]

/-- the instruction of the conjunction `e` -/
def eAct : Act := .when (.and (.lenGe 2) (.and .markerNone (.neg Pt.onlyMult))) (.fail .incomplete)

theorem vocab_all_ok (mnone : Bool) :
    (Pt.vocab mnone).all (fun p => (okAct p.2 && Lift.actNoInc p.2) || p.1 == w!"e") = true := by
  cases mnone <;> decide

theorem lookup_e (mnone : Bool) : (Pt.vocab mnone).lookup w!"e" = some eAct := by cases mnone <;> rfl

theorem vocab_ok (mnone : Bool) (key : Word) (a : Act) (h : (Pt.vocab mnone).lookup key = some a) :
    (okAct a = true ∧ Lift.actNoInc a = true) ∨ a = eAct := by
  have hm := EnExt.lookup_mem key a _ h
  have := List.all_eq_true.mp (vocab_all_ok mnone) _ hm
  simp only [Bool.or_eq_true, Bool.and_eq_true, beq_iff_eq] at this
  rcases this with h1 | h2
  · exact Or.inl h1
  · right
    rw [h2, lookup_e] at h
    exact (Option.some.inj h).symm

/-! ### word level -/

/-- the instruction bound to a word -/
def actOf (w : Word) : Act := ((Pt.vocab (Pt.morph w).isNone).lookup (Pt.lemmatize w)).getD (.fail .nan)

/-- the rewriting of marker and flags after the `match` of `apply` -/
def post (w : Word) (t : Res × DS × Nat) : Res × DS :=
  match t.1 with
  | none => (none, { t.2.1 with marker := Pt.morph w, flags := t.2.2 })
  | some .incomplete => (some .incomplete, { t.2.1 with flags := Pt.CONJUNCTION })
  | some e => (some e, { t.2.1 with flags := 0 })

theorem apply_eq (w : Word) (b : DS) :
    Pt.apply w b = if (!b.isEmpty && Pt.morph w != b.marker) = true then (some .overlap, b)
      else post w ((actOf w).exec b) := by
  unfold Pt.apply
  dsimp only
  split
  · rfl
  · unfold actOf post
    rcases ((Pt.vocab (Pt.morph w).isNone).lookup (Pt.lemmatize w)).getD (.fail .nan) |>.exec b with ⟨r, b', nx⟩
    cases r with
    | none => rfl
    | some e => cases e <;> rfl

theorem post_fst (w : Word) (t : Res × DS × Nat) : (post w t).1 = t.1 := by
  obtain ⟨r, b, n⟩ := t
  unfold post
  cases r with
  | none => rfl
  | some e => cases e <;> rfl

theorem post_lz (w : Word) (t : Res × DS × Nat) : (post w t).2.lz = t.2.1.lz := by
  obtain ⟨r, b, n⟩ := t
  unfold post
  cases r with
  | none => rfl
  | some e => cases e <;> rfl

theorem post_setLz (w : Word) (r : Res) (b : DS) (n k : Nat) :
    post w (r, EnExt.setLz k b, n) = ((post w (r, b, n)).1, EnExt.setLz k (post w (r, b, n)).2) := by
  unfold post
  cases r with
  | none => rfl
  | some e => cases e <;> rfl

theorem actOf_cases (w : Word) : (okAct (actOf w) = true ∧ Lift.actNoInc (actOf w) = true) ∨ actOf w = eAct := by
  unfold actOf
  cases h : (Pt.vocab (Pt.morph w).isNone).lookup (Pt.lemmatize w) with
  | none => exact Or.inl ⟨rfl, rfl⟩
  | some a => exact vocab_ok _ _ a h

theorem apply_lz_mono (w : Word) (b : DS) : b.lz ≤ (Pt.apply w b).2.lz := by
  rw [apply_eq]
  split
  · exact Nat.le_refl _
  · rw [post_lz]; exact EnExt.exec_lz_mono _ b

/-- only the conjunction is answered `Incomplete`, and only on a builder with two digits -/
theorem apply_inc_nonempty (w : Word) (b : DS) (h : (Pt.apply w b).1 = some .incomplete) : b.isEmpty = false := by
  rw [apply_eq] at h
  split at h
  · exact absurd h (by simp)
  · rw [post_fst] at h
    rcases actOf_cases w with ⟨_, hni⟩ | he
    · exact absurd h (Lift.exec_noInc _ b hni)
    · rw [he] at h
      simp only [eAct, Act.when, Act.exec] at h
      by_cases hg : (Guard.and (.lenGe 2) (.and .markerNone (.neg Pt.onlyMult))).eval b = true
      · simp only [Guard.eval, Bool.and_eq_true, decide_eq_true_eq] at hg
        have h2 := hg.1
        unfold DS.len at h2
        unfold DS.isEmpty
        cases hr : b.rbuf with
        | nil =>
          rw [hr] at h2
          have : (b.lz == 0) = false := by simp; simp at h2; omega
          rw [this]; rfl
        | cons a t => rfl
      · rw [if_neg hg] at h
        exact absurd h (by simp)

/-- **`lz`-independence of the Portuguese interpreter**: a word that is accepted (or `Incomplete`)
without adding a leading zero behaves the same whatever the number of leading zeros -/
theorem apply_lz (w : Word) (b : DS) (k : Nat) (hk : b.lz ≤ k)
    (hst : (Pt.apply w b).1 = none ∨ (Pt.apply w b).1 = some .incomplete)
    (hlz : (Pt.apply w b).2.lz = b.lz)
    (hm : b.isEmpty = false ∨ Pt.morph w = b.marker) :
    Pt.apply w (EnExt.setLz k b) = ((Pt.apply w b).1, EnExt.setLz k (Pt.apply w b).2) := by
  rw [apply_eq] at hst hlz ⊢
  rw [apply_eq]
  by_cases hc : (!b.isEmpty && Pt.morph w != b.marker) = true
  · rw [if_pos hc] at hst
    rcases hst with h | h <;> exact absurd h (by simp)
  · rw [if_neg hc] at hst hlz ⊢
    have hc' : ¬ ((!(EnExt.setLz k b).isEmpty && Pt.morph w != (EnExt.setLz k b).marker) = true) := by
      have em : (EnExt.setLz k b).marker = b.marker := rfl
      rw [em]
      rcases hm with hne | hmk
      · have : (EnExt.setLz k b).isEmpty = false := by
          unfold DS.isEmpty EnExt.setLz
          unfold DS.isEmpty at hne
          dsimp only
          cases hr : b.rbuf with
          | nil =>
            rw [hr] at hne
            have h0 : (b.lz == 0) = false := by simpa using hne
            have : (k == 0) = false := by simp at h0 ⊢; omega
            rw [this]; rfl
          | cons a t => rfl
        rw [this]
        rw [hne] at hc
        exact hc
      · rw [hmk]; simp
    rw [if_neg hc']
    rw [post_fst] at hst
    rw [post_lz] at hlz
    have e : (actOf w).exec (EnExt.setLz k b) =
        (((actOf w).exec b).1, EnExt.setLz k ((actOf w).exec b).2.1, ((actOf w).exec b).2.2) := by
      rcases actOf_cases w with ⟨hok, _⟩ | he
      · exact exec_lz _ hok b k hlz
      · rw [he] at hst ⊢
        simp only [eAct, Act.when, Act.exec] at hst ⊢
        have em : (Guard.and Guard.markerNone (Guard.neg Pt.onlyMult)).eval (EnExt.setLz k b) =
            (Guard.and Guard.markerNone (Guard.neg Pt.onlyMult)).eval b := rfl
        by_cases hg : (Guard.and (.lenGe 2) (.and .markerNone (.neg Pt.onlyMult))).eval b = true
        · have hg' : (Guard.and (.lenGe 2) (.and .markerNone (.neg Pt.onlyMult))).eval (EnExt.setLz k b) = true := by
            have h1 : (Guard.lenGe 2).eval (EnExt.setLz k b) = true := by
              have h2 : (Guard.lenGe 2).eval b = true := by
                simp only [Guard.eval, Bool.and_eq_true] at hg
                simpa [Guard.eval] using hg.1
              simp only [Guard.eval, DS.len, EnExt.setLz, ge_iff_le, decide_eq_true_eq] at h2 ⊢
              omega
            have h3 : (Guard.and Guard.markerNone (Guard.neg Pt.onlyMult)).eval b = true := by
              simp only [Guard.eval, Bool.and_eq_true] at hg ⊢
              exact hg.2
            show ((Guard.lenGe 2).eval (EnExt.setLz k b) &&
              (Guard.and Guard.markerNone (Guard.neg Pt.onlyMult)).eval (EnExt.setLz k b)) = true
            rw [h1, em, h3]; rfl
          simp only [if_pos hg, if_pos hg']
        · simp only [if_neg hg] at hst
          rcases hst with h | h <;> exact absurd h (by simp)
    rw [e, post_setLz]

/-! ### run level -/

theorem run_lz_mono : ∀ (ws : List Word) (b : DS) (inc : Bool) (r : DS),
    execGroupFrom Pt.apply ws b inc = .ok r → b.lz ≤ r.lz := by
  intro ws
  induction ws with
  | nil =>
    intro b inc r h
    rw [execGroupFrom] at h
    cases inc with
    | true => exact absurd h (by simp)
    | false =>
      have : b = r := by simpa using h
      rw [this]; exact Nat.le_refl _
  | cons w ws ih =>
    intro b inc r h
    rw [execGroupFrom] at h
    have hm : b.lz ≤ (Pt.apply w b).2.lz := apply_lz_mono w b
    rcases hx : Pt.apply w b with ⟨st, b1⟩
    rw [hx] at h hm
    cases st with
    | none => exact Nat.le_trans hm (ih b1 false r h)
    | some e =>
      cases e with
      | incomplete => exact Nat.le_trans hm (ih b1 true r h)
      | overlap => exact absurd h (by simp)
      | nan => exact absurd h (by simp)
      | frozen => exact absurd h (by simp)

/-- an accepted word on a non-empty builder has the marker of the builder, and leaves it -/
theorem apply_ok_marker (w : Word) (b b1 : DS) (h : Pt.apply w b = (none, b1)) :
    b1.marker = Pt.morph w ∧ (b.isEmpty = false → Pt.morph w = b.marker) := by
  rw [apply_eq] at h
  by_cases hc : (!b.isEmpty && Pt.morph w != b.marker) = true
  · rw [if_pos hc] at h
    exact absurd (congrArg Prod.fst h) (by simp)
  · rw [if_neg hc] at h
    constructor
    · rcases hx : (actOf w).exec b with ⟨r, b', nx⟩
      rw [hx] at h
      have h1 := congrArg Prod.fst h
      rw [post_fst] at h1
      dsimp only at h1
      subst h1
      have h2 : (post w (none, b', nx)).2 = b1 := congrArg Prod.snd h
      rw [← h2]
      rfl
    · intro hne
      rw [hne] at hc
      simpa using hc

/-- from a non-empty builder, a successful run keeps the marker -/
theorem run_marker_ne : ∀ (ws : List Word) (b : DS) (inc : Bool) (r : DS), b.isEmpty = false →
    execGroupFrom Pt.apply ws b inc = .ok r → r.marker = b.marker := by
  intro ws
  induction ws with
  | nil =>
    intro b inc r _ h
    rw [execGroupFrom] at h
    cases inc with
    | true => exact absurd h (by simp)
    | false =>
      have : b = r := by simpa using h
      rw [this]
  | cons w ws ih =>
    intro b inc r hne h
    rw [execGroupFrom] at h
    rcases hx : Pt.apply w b with ⟨st, b1⟩
    rw [hx] at h
    cases st with
    | none =>
      obtain ⟨m1, m2⟩ := apply_ok_marker w b b1 hx
      have hne1 : b1.isEmpty = false := by
        have := Pt.apply_ok_nonempty w b (by rw [hx])
        rw [hx] at this; exact this
      rw [ih b1 false r hne1 h, m1, m2 hne]
    | some e =>
      have hs := Pt.apply_err_same w b e (by rw [hx])
      rw [hx] at hs
      cases e with
      | incomplete =>
        have hne1 : b1.isEmpty = false := by rw [hs.isEmpty_eq]; exact hne
        rw [ih b1 true r hne1 h]
        exact hs.2.2.2
      | overlap => exact absurd h (by simp)
      | nan => exact absurd h (by simp)
      | frozen => exact absurd h (by simp)

/-- the first word of a successful run has the marker of the result -/
theorem run_marker_head (w : Word) (ws : List Word) (b : DS) (inc : Bool) (r : DS)
    (h : execGroupFrom Pt.apply (w :: ws) b inc = .ok r) (hb : b.isEmpty = true) : Pt.morph w = r.marker := by
  rw [execGroupFrom] at h
  rcases hx : Pt.apply w b with ⟨st, b1⟩
  rw [hx] at h
  cases st with
  | none =>
    obtain ⟨m1, _⟩ := apply_ok_marker w b b1 hx
    have hne1 : b1.isEmpty = false := by
      have := Pt.apply_ok_nonempty w b (by rw [hx])
      rw [hx] at this; exact this
    rw [run_marker_ne ws b1 false r hne1 h, m1]
  | some e =>
    cases e with
    | incomplete =>
      have := apply_inc_nonempty w b (by rw [hx])
      rw [hb] at this; exact absurd this (by simp)
    | overlap => exact absurd h (by simp)
    | nan => exact absurd h (by simp)
    | frozen => exact absurd h (by simp)

/-- a run that added no leading zero is reproduced verbatim on `k` leading zeros -/
theorem run_lz_append (k : Nat) (rest : List Word) : ∀ (ws : List Word) (b : DS) (inc : Bool) (r : DS), b.lz ≤ k →
    execGroupFrom Pt.apply ws b inc = .ok r → r.lz = b.lz →
    (b.isEmpty = false ∨ ∀ w ∈ ws.head?, Pt.morph w = b.marker) →
    execGroupFrom Pt.apply (ws ++ rest) (EnExt.setLz k b) inc =
      execGroupFrom Pt.apply rest (EnExt.setLz k r) false := by
  intro ws
  induction ws with
  | nil =>
    intro b inc r _ h _ _
    rw [execGroupFrom] at h
    cases inc with
    | true => exact absurd h (by simp)
    | false =>
      have : b = r := by simpa using h
      rw [this]; rfl
  | cons w ws ih =>
    intro b inc r hk h hl hm
    rw [execGroupFrom] at h
    rw [List.cons_append, execGroupFrom]
    have hmono : b.lz ≤ (Pt.apply w b).2.lz := apply_lz_mono w b
    have hm' : b.isEmpty = false ∨ Pt.morph w = b.marker := by
      rcases hm with h1 | h2
      · exact Or.inl h1
      · exact Or.inr (h2 w (by simp))
    have ht := apply_lz w b k hk
    rcases hx : Pt.apply w b with ⟨st, b1⟩
    rw [hx] at h hmono ht
    dsimp only at ht hmono
    cases st with
    | none =>
      have hm2 := run_lz_mono ws b1 false r h
      have hb1 : b1.lz = b.lz := by omega
      have e : Pt.apply w (EnExt.setLz k b) = (none, EnExt.setLz k b1) := ht (Or.inl rfl) hb1 hm'
      have hne1 : b1.isEmpty = false := by
        have := Pt.apply_ok_nonempty w b (by rw [hx])
        rw [hx] at this; exact this
      rw [e]
      exact ih b1 false r (by omega) h (by omega) (Or.inl hne1)
    | some e =>
      cases e with
      | incomplete =>
        have hm2 := run_lz_mono ws b1 true r h
        have hb1 : b1.lz = b.lz := by omega
        have e : Pt.apply w (EnExt.setLz k b) = (some .incomplete, EnExt.setLz k b1) := ht (Or.inr rfl) hb1 hm'
        have hne : b.isEmpty = false := apply_inc_nonempty w b (by rw [hx])
        have hs := Pt.apply_err_same w b .incomplete (by rw [hx])
        rw [hx] at hs
        have hne1 : b1.isEmpty = false := by rw [hs.isEmpty_eq]; exact hne
        rw [e]
        exact ih b1 true r (by omega) h (by omega) (Or.inl hne1)
      | overlap => exact absurd h (by simp)
      | nan => exact absurd h (by simp)
      | frozen => exact absurd h (by simp)

/-- a successful run from the fresh builder that ends without leading zeros and without marker is
reproduced on `k` leading zeros -/
theorem run_lz_new (k : Nat) (rest ws : List Word) (r : DS)
    (h : execGroupFrom Pt.apply ws DS.new false = .ok r) (hl : r.lz = 0) (hmk : r.marker = .none) :
    execGroupFrom Pt.apply (ws ++ rest) (EnExt.setLz k DS.new) false =
      execGroupFrom Pt.apply rest (EnExt.setLz k r) false := by
  apply run_lz_append k rest ws DS.new false r (Nat.zero_le _) h hl
  right
  intro w hw
  cases ws with
  | nil => simp at hw
  | cons x xs =>
    have : w = x := by simpa using hw.symm
    subst this
    rw [run_marker_head w xs DS.new false r h rfl, hmk]
    rfl

/-! ### C16 -/

theorem morph_zero : Pt.morph Spec.Pt.zeroWord = .none := by decide
theorem actOf_zero : actOf Spec.Pt.zeroWord = .put [0] := by rfl

theorem apply_zero_new (j : Nat) :
    Pt.apply Spec.Pt.zeroWord (EnExt.setLz j DS.new) = (none, EnExt.setLz (j + 1) DS.new) := by
  rw [apply_eq, morph_zero, actOf_zero]
  have : (!(EnExt.setLz j DS.new).isEmpty && Marker.none != (EnExt.setLz j DS.new).marker) = false := by
    show (!(EnExt.setLz j DS.new).isEmpty && Marker.none != Marker.none) = false
    simp
  rw [this, if_neg Bool.false_ne_true]
  unfold post
  rw [morph_zero]
  rfl

theorem zeros_run (rest : List Word) : ∀ (k j : Nat),
    execGroupFrom Pt.apply (List.replicate k Spec.Pt.zeroWord ++ rest) (EnExt.setLz j DS.new) false =
      execGroupFrom Pt.apply rest (EnExt.setLz (j + k) DS.new) false := by
  intro k
  induction k with
  | zero => intro j; rfl
  | succ k ih =>
    intro j
    rw [List.replicate_succ, List.cons_append, execGroupFrom, apply_zero_new]
    dsimp only
    rw [ih (j + 1)]
    have : j + 1 + k = j + (k + 1) := by omega
    rw [this]

/-- the run of a non-zero cardinal on the empty builder (from `cardinal_steps`) -/
theorem cardinal_run (v : Var) (n : Nat) (hn : n ≠ 0) (h : n < 10 ^ 12) :
    ∃ fl, execGroupFrom Pt.apply (Spec.Pt.cardinal v n) DS.new false = .ok (mkP (lsb n) fl) := by
  obtain ⟨fl, hs⟩ := C01Pt.cardinal_steps v n hn h
  have hs := hs []
  rw [List.append_nil, lsb_zero] at hs
  refine ⟨fl, ?_⟩
  show execGroupFrom Pt.apply (Spec.Pt.cardinal v n) (mkP [] 0) false = _
  rw [hs, execGroupFrom, if_neg Bool.false_ne_true]

/-- the same run after `k` leading zeros, followed by anything -/
theorem cardinal_run_lz (v : Var) (k n : Nat) (hn : n ≠ 0) (h : n < 10 ^ 12) (rest : List Word) :
    ∃ fl, execGroupFrom Pt.apply (Spec.Pt.cardinal v n ++ rest) (EnExt.setLz k DS.new) false =
      execGroupFrom Pt.apply rest (EnExt.setLz k (mkP (lsb n) fl)) false := by
  obtain ⟨fl, hr⟩ := cardinal_run v n hn h
  exact ⟨fl, run_lz_new k rest _ _ hr rfl rfl⟩

/-- rendering of a number with `k` leading zeros -/
theorem format_lz (k n fl : Nat) (hn : n ≠ 0) :
    (EnExt.setLz k (mkP (lsb n) fl)).isEmpty = false ∧
    Pt.lang.formatW (EnExt.setLz k (mkP (lsb n) fl)) =
      .ok (List.replicate k '0' ++ decChars n, .dec (List.replicate k 0 ++ decDigits n) []) := by
  have hne := lsb_ne_nil hn
  have hrender : (EnExt.setLz k (mkP (lsb n) fl)).render = List.replicate k 0 ++ decDigits n := by
    show List.replicate k 0 ++ (lsb n).reverse = _
    rw [lsb_rev_dec n hn]
  constructor
  · show ((lsb n).isEmpty && k == 0) = false
    cases hl : lsb n with
    | nil => exact absurd hl hne
    | cons a t => rfl
  · have hrne : (EnExt.setLz k (mkP (lsb n) fl)).render.isEmpty = false := by
      rw [hrender, ← lsb_rev_dec n hn]
      cases hl : lsb n with
      | nil => exact absurd hl hne
      | cons a t => simp
    unfold Lang.formatW
    rw [hrne, if_neg Bool.false_ne_true]
    show Except.ok (renderChars (EnExt.setLz k (mkP (lsb n) fl)),
      Value.dec (EnExt.setLz k (mkP (lsb n) fl)).render []) = _
    unfold renderChars decChars
    rw [hrender, List.map_append, EnExt.replicate_map]
    rfl

/-- the builder reached by `k` zeros followed by the spelling of `n` -/
theorem zeros_cardinal_run (v : Var) (k n : Nat) (hn : n ≠ 0) (h : n < 10 ^ 12) (rest : List Word) :
    ∃ fl, execGroupFrom Pt.apply (List.replicate k Spec.Pt.zeroWord ++ Spec.Pt.cardinal v n ++ rest) DS.new false =
      execGroupFrom Pt.apply rest (EnExt.setLz k (mkP (lsb n) fl)) false := by
  obtain ⟨fl, hr⟩ := cardinal_run_lz v k n hn h rest
  refine ⟨fl, ?_⟩
  show execGroupFrom Pt.apply _ (EnExt.setLz 0 DS.new) false = _
  rw [List.append_assoc, zeros_run, Nat.zero_add, hr]

/-- **C16 for Portuguese, every number of leading zeros** (`0 < n < 10^12`, every variant) -/
theorem C16_validate_pt (v : Spec.Var) (k n : Nat) (hn : 0 < n) (h : n < 10 ^ 12) :
    text2digitsWords Pt.lang (List.replicate k Spec.Pt.zeroWord ++ Spec.Pt.cardinal v n) =
      .ok (List.replicate k '0' ++ decChars n) := by
  have hn' : n ≠ 0 := by omega
  obtain ⟨fl, hr⟩ := zeros_cardinal_run v k n hn' h []
  rw [List.append_nil, execGroupFrom, if_neg Bool.false_ne_true] at hr
  have hex : execGroup Pt.lang.apply (List.replicate k Spec.Pt.zeroWord ++ Spec.Pt.cardinal v n) =
      .ok (EnExt.setLz k (mkP (lsb n) fl)) := hr
  unfold text2digitsWords
  rw [hex]
  dsimp only
  rw [(format_lz k n fl hn').1, if_neg Bool.false_ne_true, (format_lz k n fl hn').2]

example : text2digitsWords Pt.lang (List.replicate 3 Spec.Pt.zeroWord ++ Spec.Pt.cardinal (fun _ => 1) 100045) =
    .ok (List.replicate 3 '0' ++ decChars 100045) := C16_validate_pt _ 3 _ (by decide) (by decide)

/-- `k ≥ 1` zeros alone validate to `k` digits `0` -/
theorem C16_zeros_only_pt (k : Nat) (hk : 0 < k) :
    text2digitsWords Pt.lang (List.replicate k Spec.Pt.zeroWord) = .ok (List.replicate k '0') := by
  have hex : execGroup Pt.lang.apply (List.replicate k Spec.Pt.zeroWord) = .ok (EnExt.setLz k DS.new) := by
    have := zeros_run [] k 0
    rw [List.append_nil, Nat.zero_add] at this
    show execGroupFrom Pt.apply _ (EnExt.setLz 0 DS.new) false = _
    rw [this, execGroupFrom, if_neg Bool.false_ne_true]
  unfold text2digitsWords
  rw [hex]
  dsimp only
  have he : (EnExt.setLz k DS.new).isEmpty = false := by
    show (([] : List Nat).isEmpty && k == 0) = false
    have : (k == 0) = false := by simp; omega
    rw [this]; rfl
  rw [he, if_neg Bool.false_ne_true]
  have hr : (EnExt.setLz k DS.new).render = List.replicate k 0 := by
    show List.replicate k 0 ++ [] = _
    rw [List.append_nil]
  unfold Lang.formatW
  have hrne : (EnExt.setLz k DS.new).render.isEmpty = false := by
    rw [hr]; cases k with
    | zero => omega
    | succ k => rfl
  rw [hrne, if_neg Bool.false_ne_true]
  show ValOut.ok (renderChars (EnExt.setLz k DS.new)) = _
  unfold renderChars
  rw [hr, EnExt.replicate_map]
  rfl

theorem C16_lone_zero_pt : text2digitsWords Pt.lang [Spec.Pt.zeroWord] = .ok ['0'] :=
  C16_zeros_only_pt 1 (by decide)

/-- `zero` on a builder that holds a non-zero number is refused with `Overlap` (the flags are reset) -/
theorem apply_zero_after (k n fl : Nat) (hn : n ≠ 0) :
    Pt.apply Spec.Pt.zeroWord (EnExt.setLz k (mkP (lsb n) fl)) =
      (some .overlap, EnExt.setLz k (mkP (lsb n) 0)) := by
  rw [apply_eq, morph_zero, actOf_zero]
  have : (!(EnExt.setLz k (mkP (lsb n) fl)).isEmpty && Marker.none != (EnExt.setLz k (mkP (lsb n) fl)).marker) = false := by
    show (!(EnExt.setLz k (mkP (lsb n) fl)).isEmpty && Marker.none != Marker.none) = false
    simp
  rw [this, if_neg Bool.false_ne_true]
  cases hl : lsb n with
  | nil => exact absurd hl (lsb_ne_nil hn)
  | cons a t => rfl

/-- **C16, `zero` after a number**: after (`k` zeros and) the spelling of `0 < n < 10^12` the builder refuses
`zero` with `Overlap` and keeps its digits; validation of the whole phrase fails with `Overlap` -/
theorem C16_zero_after_pt (v : Spec.Var) (k n : Nat) (hn : 0 < n) (h : n < 10 ^ 12) :
    ∃ b, execGroup Pt.lang.apply (List.replicate k Spec.Pt.zeroWord ++ Spec.Pt.cardinal v n) = .ok b ∧
      (Pt.lang.apply Spec.Pt.zeroWord b).1 = some .overlap ∧
      renderChars (Pt.lang.apply Spec.Pt.zeroWord b).2 = renderChars b ∧
      text2digitsWords Pt.lang (List.replicate k Spec.Pt.zeroWord ++ Spec.Pt.cardinal v n ++ [Spec.Pt.zeroWord]) =
        .err .overlap := by
  have hn' : n ≠ 0 := by omega
  obtain ⟨fl, hr⟩ := zeros_cardinal_run v k n hn' h []
  rw [List.append_nil, execGroupFrom, if_neg Bool.false_ne_true] at hr
  obtain ⟨fl2, hr2⟩ := zeros_cardinal_run v k n hn' h [Spec.Pt.zeroWord]
  refine ⟨EnExt.setLz k (mkP (lsb n) fl), hr, ?_, ?_, ?_⟩
  · show (Pt.apply _ _).1 = _
    rw [apply_zero_after k n fl hn']
  · show renderChars (Pt.apply _ _).2 = _
    rw [apply_zero_after k n fl hn']
    rfl
  · unfold text2digitsWords
    have : execGroup Pt.lang.apply (List.replicate k Spec.Pt.zeroWord ++ Spec.Pt.cardinal v n ++ [Spec.Pt.zeroWord]) =
        .error .overlap := by
      show execGroupFrom Pt.apply _ DS.new false = _
      rw [hr2, execGroupFrom, apply_zero_after k n fl2 hn']
    rw [this]

/-! ## Part 2 — the scanner on a phrase of words, for any language
(`EnExt.pushWords`, `EnExt.push_word`, `EnExt.parser_push_nosep`, `EnExt.numberEnd_int` are language-independent) -/

/-- the language accepts only words that the scanner hands over (not skipped, not the separator) -/
def Accepts (l : Lang) : Prop :=
  ∀ w b, (l.apply w b).1 = none ∨ (l.apply w b).1 = some .incomplete →
    EnExt.skipW w = false ∧ l.isDecSep w = false

/-- **lifting**: a successful interpreter run is reproduced by the scanner, word by word, as one open match -/
theorem lift_run (l : Lang) (hl : Accepts l) (thr : Nat → Bool) : ∀ (ws : List Word) (b : DS) (inc : Bool) (r : DS),
    execGroupFrom l.apply ws b inc = .ok r → ∀ (s : Scanner) (i : Nat), EnExt.SI s b →
    ∃ s', EnExt.pushWords (scanCfg l thr) s i ws = .ok s' ∧ EnExt.SI s' r := by
  intro ws
  induction ws with
  | nil =>
    intro b inc r h s i hs
    rw [execGroupFrom] at h
    cases inc with
    | true => exact absurd h (by simp)
    | false =>
      have : b = r := by simpa using h
      rw [← this]
      exact ⟨s, rfl, hs⟩
  | cons w ws ih =>
    intro b inc r h s i hs
    rw [execGroupFrom] at h
    obtain ⟨hp, hq, hh⟩ := hs
    rcases hx : l.apply w b with ⟨st, b1⟩
    rw [hx] at h
    have hx' : l.apply w s.parser.int = (st, b1) := by rw [hp]; exact hx
    have hpush : st = none ∨ st = some .incomplete → s.parser.push l w = (st, { int := b1 }) := by
      intro hst
      have hw := hl w b (by rw [hx]; exact hst)
      rw [EnExt.parser_push_nosep l s.parser w (by rw [hp]) hw.2, hx', hp]
    rw [EnExt.pushWords]
    cases st with
    | none =>
      have hw := hl w b (by rw [hx]; exact Or.inl rfl)
      rw [EnExt.push_word l thr s i w hw.1, hpush (Or.inl rfl)]
      exact ih b1 false r h _ (i + 2) ⟨rfl, hq, hh⟩
    | some e =>
      cases e with
      | incomplete =>
        have hw := hl w b (by rw [hx]; exact Or.inr rfl)
        rw [EnExt.push_word l thr s i w hw.1, hpush (Or.inr rfl)]
        exact ih b1 true r h _ (i + 2) ⟨rfl, hq, hh⟩
      | overlap => exact absurd h (by simp)
      | nan => exact absurd h (by simp)
      | frozen => exact absurd h (by simp)

/-- end of a pending integer-mode number under threshold 0: its text is appended to the queue -/
theorem finalize_run (l : Lang) (s : Scanner) (r : DS) (text : Word) (val : Value) (hs : EnExt.SI s r)
    (hne : r.isEmpty = false) (hf : l.formatW r = .ok (text, val)) :
    ∃ sf, s.finalize (scanCfg l zeroThr) = .ok sf ∧ sf.parser = {} ∧ sf.tracker.onHold = none ∧
      sf.tracker.queue.map (·.text) = [text] := by
  obtain ⟨hp, hq, hh⟩ := hs
  unfold Scanner.finalize
  have hn : s.parser.hasNumber = true := by
    rw [hp]; show (!r.isEmpty) = true; rw [hne]; rfl
  rw [hn, if_pos rfl]
  unfold Scanner.numberEnd
  have hfin : s.parser.finish (scanCfg l zeroThr).lang = .ok (text, val) := by
    rw [hp]; exact hf
  rw [hfin]
  dsimp only
  rw [EnExt.small_zeroThr, Bool.and_false]
  obtain ⟨t1, t2⟩ := EnExt.tracker_numberEnd s.tracker s.parser.isOrdinal text val hh
  refine ⟨_, rfl, rfl, t1, ?_⟩
  show List.map (·.text) (s.tracker.numberEnd s.parser.isOrdinal text val false).queue = _
  rw [t2, hq]
  rfl

/-- **whatever validates is found by the scanner** (threshold 0): a word list accepted by
`text2digitsWords` yields exactly one occurrence, with the same text -/
theorem scan_of_validate (l : Lang) (hl : Accepts l) (ws : List Word) (t : Word)
    (h : text2digitsWords l ws = .ok t) : occTexts l zeroThr ws = some [t] := by
  unfold text2digitsWords at h
  cases hx : execGroup l.apply ws with
  | error e => rw [hx] at h; exact absurd h (by simp)
  | ok r =>
    rw [hx] at h
    dsimp only at h
    cases hne : r.isEmpty with
    | true => rw [hne, if_pos rfl] at h; exact absurd h (by simp)
    | false =>
      rw [hne, if_neg Bool.false_ne_true] at h
      cases hf : l.formatW r with
      | error f => rw [hf] at h; exact absurd h (by simp)
      | ok tv =>
        obtain ⟨t', val⟩ := tv
        rw [hf] at h
        have : t' = t := by simpa using h
        subst this
        obtain ⟨s1, e1, hs1⟩ := lift_run l hl zeroThr ws DS.new false r hx {} 0 ⟨rfl, rfl, rfl⟩
        obtain ⟨sf, e2, _, _, hq⟩ := finalize_run l s1 r t' val hs1 hne hf
        unfold occTexts
        rw [EnExt.findNumbers_words, e1]
        dsimp only
        rw [e2]
        dsimp only
        rw [hq]

/-! ### dictation steps (states `EnExt.St`: `z` leading zeros, at most one pending non-zero digit) -/

/-- an accepted digit word -/
theorem step_accept (l : Lang) (s : Scanner) (pos z z' : Nat) (pend pend' : Option Nat) (q : List Word) (w : Word)
    (hw : EnExt.skipW w = false ∧ l.isDecSep w = false) (hst : EnExt.St s z pend q)
    (ha : l.apply w { rbuf := EnExt.pendL pend, lz := z } = (none, { rbuf := EnExt.pendL pend', lz := z' })) :
    ∃ s', s.push (scanCfg l zeroThr) pos (EnExt.wt w) = .ok s' ∧ EnExt.St s' z' pend' q := by
  obtain ⟨hp, hh, hq⟩ := hst
  have hpush : s.parser.push l w = (none, EnExt.pz z' pend') := by
    rw [EnExt.parser_push_nosep l s.parser w (by rw [hp]; rfl) hw.2, hp]
    have ha' : l.apply w (EnExt.pz z pend).int = (none, { rbuf := EnExt.pendL pend', lz := z' }) := ha
    rw [ha']; rfl
  rw [EnExt.push_word l zeroThr s pos w hw.1, hpush]
  exact ⟨_, rfl, rfl, hh, hq⟩

/-- the `Err(_)` arms of `push` for an error that is not `Incomplete` -/
theorem push_word_rejected (l : Lang) (thr : Nat → Bool) (s : Scanner) (pos : Nat) (w : Word) (err : Err) (p' : Parser)
    (hsk : EnExt.skipW w = false) (herr : err ≠ .incomplete) (hpush : s.parser.push l w = (some err, p')) :
    s.push (scanCfg l thr) pos (EnExt.wt w) =
      Scanner.pushRejected (scanCfg l thr) { s with parser := p' } pos (EnExt.wt w) := by
  rw [EnExt.push_word l thr s pos w hsk, hpush]
  cases err with
  | incomplete => exact absurd rfl herr
  | overlap => rfl
  | nan => rfl
  | frozen => rfl

/-- a refused digit word: the pending number ends, the word starts the next one -/
theorem step_reject (l : Lang) (s : Scanner) (pos z z' e : Nat) (pend' : Option Nat) (q : List Word) (w : Word)
    (err : Err) (herr : err ≠ .incomplete)
    (hw : EnExt.skipW w = false ∧ l.isDecSep w = false) (hst : EnExt.St s z (some e) q)
    (ha : l.apply w { rbuf := [e], lz := z } = (some err, { rbuf := [e], lz := z }))
    (hb : l.apply w {} = (none, { rbuf := EnExt.pendL pend', lz := z' })) :
    ∃ s', s.push (scanCfg l zeroThr) pos (EnExt.wt w) = .ok s' ∧
      EnExt.St s' z' pend' (q ++ [(EnExt.grpDigits z (some e)).map digitChar]) := by
  obtain ⟨hp, hh, hq⟩ := hst
  have hpush : s.parser.push l w = (some err, EnExt.pz z (some e)) := by
    rw [EnExt.parser_push_nosep l s.parser w (by rw [hp]; rfl) hw.2, hp]
    have ha' : l.apply w (EnExt.pz z (some e)).int = (some err, { rbuf := [e], lz := z }) := ha
    rw [ha']; rfl
  rw [push_word_rejected l zeroThr s pos w err _ hw.1 herr hpush]
  unfold Scanner.pushRejected
  have hn : ({ s with parser := EnExt.pz z (some e) } : Scanner).parser.hasNumber = true := rfl
  rw [if_pos hn]
  have hr : (EnExt.pz z (some e)).int.render.isEmpty = false := by
    show (List.replicate z 0 ++ [e]).isEmpty = false
    simp
  rw [EnExt.numberEnd_int _ _ rfl rfl hr]
  dsimp only
  have hpush2 : ({} : Parser).push l w = (none, EnExt.pz z' pend') := by
    rw [EnExt.parser_push_nosep l {} w rfl hw.2]
    have hb' : l.apply w ({} : Parser).int = (none, { rbuf := EnExt.pendL pend', lz := z' }) := hb
    rw [hb']; rfl
  have hpush2' : Parser.push (scanCfg l zeroThr).lang {} (EnExt.wt w).lower = (none, EnExt.pz z' pend') := hpush2
  rw [hpush2']
  have hforget : ((utf8Len (renderChars (EnExt.pz z (some e)).int) == 1 || false) &&
      (scanCfg l zeroThr).small (Value.dec (EnExt.pz z (some e)).int.render [])) = false := by
    rw [EnExt.small_zeroThr, Bool.and_false]
  rw [hforget]
  obtain ⟨t1, t2⟩ := EnExt.tracker_numberEnd s.tracker false (renderChars (EnExt.pz z (some e)).int)
    (Value.dec (EnExt.pz z (some e)).int.render []) hh
  refine ⟨_, rfl, rfl, t1, ?_⟩
  show List.map (·.text) (s.tracker.numberEnd false (renderChars (EnExt.pz z (some e)).int)
    (Value.dec (EnExt.pz z (some e)).int.render []) false).queue = _
  rw [t2, List.map_append, hq]
  rfl

theorem finalize_empty (l : Lang) (s : Scanner) (q : List Word) (hst : EnExt.St s 0 none q) :
    ∃ sf, s.finalize (scanCfg l zeroThr) = .ok sf ∧ sf.tracker.queue.map (·.text) = q := by
  obtain ⟨hp, _, hq⟩ := hst
  unfold Scanner.finalize
  have : s.parser.hasNumber = false := by rw [hp]; rfl
  rw [this, if_neg Bool.false_ne_true]
  exact ⟨s, rfl, hq⟩

theorem finalize_pending (l : Lang) (s : Scanner) (z : Nat) (pend : Option Nat) (q : List Word)
    (hst : EnExt.St s z pend q) (hne : z ≠ 0 ∨ pend ≠ none) :
    ∃ sf, s.finalize (scanCfg l zeroThr) = .ok sf ∧
      sf.tracker.queue.map (·.text) = q ++ [(EnExt.grpDigits z pend).map digitChar] := by
  obtain ⟨hp, hh, hq⟩ := hst
  unfold Scanner.finalize
  have hgne : EnExt.grpDigits z pend ≠ [] := by
    unfold EnExt.grpDigits
    rcases hne with h | h
    · cases z with
      | zero => exact absurd rfl h
      | succ z => simp [List.replicate_succ]
    · cases pend with
      | none => exact absurd rfl h
      | some e => simp [EnExt.pendL]
  have hrd : (EnExt.pz z pend).int.render = EnExt.grpDigits z pend := by
    cases pend <;> rfl
  have hn : s.parser.hasNumber = true := by
    rw [hp]
    show (!(((EnExt.pendL pend).isEmpty) && z == 0)) = true
    rcases hne with h | h
    · have : (z == 0) = false := by simp [h]
      rw [this, Bool.and_false]; rfl
    · cases pend with
      | none => exact absurd rfl h
      | some e => rfl
  have hr : s.parser.int.render.isEmpty = false := by
    rw [hp, hrd]
    cases hg : EnExt.grpDigits z pend with
    | nil => exact absurd hg hgne
    | cons a t => rfl
  rw [hn, if_pos rfl, EnExt.numberEnd_int _ s (by rw [hp]; rfl) (by rw [hp]; rfl) hr]
  have hforget : ((utf8Len (renderChars s.parser.int) == 1 || false) &&
      (scanCfg l zeroThr).small (Value.dec s.parser.int.render [])) = false := by
    rw [EnExt.small_zeroThr, Bool.and_false]
  rw [hforget]
  obtain ⟨_, t2⟩ := EnExt.tracker_numberEnd s.tracker false (renderChars s.parser.int)
    (Value.dec s.parser.int.render []) hh
  refine ⟨_, rfl, ?_⟩
  show List.map (·.text) (s.tracker.numberEnd false (renderChars s.parser.int)
    (Value.dec s.parser.int.render []) false).queue = _
  rw [t2, List.map_append, hq]
  show _ ++ [renderChars s.parser.int] = _
  unfold renderChars
  rw [hp, hrd]

/-- a word refused (not `Incomplete`) while an integer-mode number is open: that number is emitted and the
word starts the next one -/
theorem step_reject_run (l : Lang) (s : Scanner) (pos z' : Nat) (pend' : Option Nat) (r r' : DS) (text : Word)
    (val : Value) (w : Word) (err : Err) (herr : err ≠ .incomplete)
    (hw : EnExt.skipW w = false ∧ l.isDecSep w = false) (hs : EnExt.SI s r) (hne : r'.isEmpty = false)
    (hf : l.formatW r' = .ok (text, val))
    (ha : l.apply w r = (some err, r'))
    (hb : l.apply w {} = (none, { rbuf := EnExt.pendL pend', lz := z' })) :
    ∃ s', s.push (scanCfg l zeroThr) pos (EnExt.wt w) = .ok s' ∧ EnExt.St s' z' pend' [text] := by
  obtain ⟨hp, hq, hh⟩ := hs
  have hpush : s.parser.push l w = (some err, { int := r' }) := by
    rw [EnExt.parser_push_nosep l s.parser w (by rw [hp]) hw.2, hp]
    have ha' : l.apply w ({ int := r } : Parser).int = (some err, r') := ha
    rw [ha']
  rw [push_word_rejected l zeroThr s pos w err _ hw.1 herr hpush]
  unfold Scanner.pushRejected
  have hn : ({ s with parser := { int := r' } } : Scanner).parser.hasNumber = true := by
    show (!r'.isEmpty) = true; rw [hne]; rfl
  rw [if_pos hn]
  unfold Scanner.numberEnd
  have hfin : ({ s with parser := { int := r' } } : Scanner).parser.finish (scanCfg l zeroThr).lang =
      .ok (text, val) := hf
  rw [hfin]
  dsimp only
  rw [EnExt.small_zeroThr, Bool.and_false]
  have hpush2 : Parser.push (scanCfg l zeroThr).lang {} (EnExt.wt w).lower = (none, EnExt.pz z' pend') := by
    show ({} : Parser).push l w = _
    rw [EnExt.parser_push_nosep l {} w rfl hw.2]
    have hb' : l.apply w ({} : Parser).int = (none, { rbuf := EnExt.pendL pend', lz := z' }) := hb
    rw [hb']; rfl
  rw [hpush2]
  obtain ⟨t1, t2⟩ := EnExt.tracker_numberEnd s.tracker r'.isOrdinal text val hh
  refine ⟨_, rfl, rfl, t1, ?_⟩
  show List.map (·.text) (s.tracker.numberEnd r'.isOrdinal text val false).queue = _
  rw [t2, hq]
  rfl

/-! ## Part 3 — Portuguese: the scanner finds whatever validates; C16 at the scanner -/

theorem vocab_keys_ok (mnone : Bool) :
    (Pt.vocab mnone).all (fun p => !p.1.isEmpty && p.1.all (fun c => !simpleIsWs c)) = true := by
  cases mnone <;> decide

theorem endsWith_ws (w suf : Word) (c : Char) (hw : w.all simpleIsWs = true) (hc : c ∈ suf)
    (hcw : simpleIsWs c = false) : endsWith w suf = false := by
  cases h : endsWith w suf with
  | false => rfl
  | true =>
    unfold endsWith at h
    have h1 : suf <:+ w := List.isSuffixOf_iff_suffix.mp h
    have h2 := List.all_eq_true.mp hw c (h1.subset hc)
    rw [hcw] at h2; cases h2

theorem lemmatize_ws (w : Word) (h : w.all simpleIsWs = true) : Pt.lemmatize w = w := by
  unfold Pt.lemmatize
  rw [endsWith_ws w w!"a" 'a' h (by decide) (by decide), endsWith_ws w w!"as" 'a' h (by decide) (by decide),
    endsWith_ws w w!"o" 'o' h (by decide) (by decide), endsWith_ws w w!"os" 'o' h (by decide) (by decide)]
  simp

theorem apply_nan (w : Word) (b : DS) (h : actOf w = .fail .nan) :
    (Pt.apply w b).1 = some .overlap ∨ (Pt.apply w b).1 = some .nan := by
  rw [apply_eq]
  split
  · exact Or.inl rfl
  · rw [post_fst, h]; exact Or.inr rfl

/-- a word that the interpreter accepts (or answers `Incomplete` to) is neither skipped by the scanner
nor the decimal separator -/
theorem accepts_pt : Accepts Pt.lang := by
  intro w b h
  have h : (Pt.apply w b).1 = none ∨ (Pt.apply w b).1 = some .incomplete := h
  have hnan : actOf w = .fail .nan → False := by
    intro hx
    rcases apply_nan w b hx with h1 | h1 <;> rw [h1] at h <;> rcases h with h | h <;> exact absurd h (by simp)
  constructor
  · unfold EnExt.skipW
    rw [Bool.or_eq_false_iff]
    constructor
    · cases hq : (w == ['-']) with
      | false => rfl
      | true =>
        have : w = ['-'] := by simpa using hq
        subst this
        exact (hnan rfl).elim
    · cases hq : w.all simpleCC.isWhitespace with
      | false => rfl
      | true =>
        exfalso
        have hq' : w.all simpleIsWs = true := hq
        cases hlk : (Pt.vocab (Pt.morph w).isNone).lookup (Pt.lemmatize w) with
        | none => exact hnan (by unfold actOf; rw [hlk]; rfl)
        | some a =>
          have hm := EnExt.lookup_mem _ a _ hlk
          have hk := List.all_eq_true.mp (vocab_keys_ok _) _ hm
          rw [lemmatize_ws w hq'] at hk
          simp only [Bool.and_eq_true, Bool.not_eq_true'] at hk
          cases hw : w with
          | nil => rw [hw] at hk; exact absurd hk.1 (by simp)
          | cons c t =>
            rw [hw] at hk hq'
            have h1 : simpleIsWs c = true := (List.all_eq_true.mp hq') c List.mem_cons_self
            have h2 := (List.all_eq_true.mp hk.2) c List.mem_cons_self
            rw [h1] at h2
            exact absurd h2 (by decide)
  · cases hq : Pt.lang.isDecSep w with
    | false => rfl
    | true =>
      have : w = w!"vírgula" := by
        have : (w == w!"vírgula") = true := hq
        simpa using this
      subst this
      exact (hnan rfl).elim

/-- **whatever validates in Portuguese is found by the scanner as one occurrence** (threshold 0) -/
theorem scan_of_validate_pt (ws : List Word) (t : Word) (h : text2digitsWords Pt.lang ws = .ok t) :
    occTexts Pt.lang zeroThr ws = some [t] := scan_of_validate Pt.lang accepts_pt ws t h

theorem C01_scan_pt (v : Spec.Var) (n : Nat) (h : n < 10 ^ 12) :
    occTexts Pt.lang zeroThr (Spec.Pt.cardinal v n) = some [decChars n] :=
  scan_of_validate_pt _ _ (C01_validate_pt v n h)

theorem C16_scan_pt (v : Spec.Var) (k n : Nat) (hn : 0 < n) (h : n < 10 ^ 12) :
    occTexts Pt.lang zeroThr (List.replicate k Spec.Pt.zeroWord ++ Spec.Pt.cardinal v n) =
      some [List.replicate k '0' ++ decChars n] :=
  scan_of_validate_pt _ _ (C16_validate_pt v k n hn h)

theorem C16_zeros_only_scan_pt (k : Nat) (hk : 0 < k) :
    occTexts Pt.lang zeroThr (List.replicate k Spec.Pt.zeroWord) = some [List.replicate k '0'] :=
  scan_of_validate_pt _ _ (C16_zeros_only_pt k hk)

/-- **C16, `zero` after a number, at the scanner**: the number ends and the zero is a number of its own -/
theorem C16_zero_after_scan_pt (v : Spec.Var) (k n : Nat) (hn : 0 < n) (h : n < 10 ^ 12) :
    occTexts Pt.lang zeroThr (List.replicate k Spec.Pt.zeroWord ++ Spec.Pt.cardinal v n ++ [Spec.Pt.zeroWord]) =
      some [List.replicate k '0' ++ decChars n, ['0']] := by
  have hn' : n ≠ 0 := by omega
  obtain ⟨fl, hrun⟩ := zeros_cardinal_run v k n hn' h []
  rw [List.append_nil, execGroupFrom, if_neg Bool.false_ne_true] at hrun
  have hz := apply_zero_after k n fl hn'
  obtain ⟨hne, hf⟩ := format_lz k n 0 hn'
  obtain ⟨s1, e1, hs1⟩ := lift_run Pt.lang accepts_pt zeroThr _ DS.new false _ hrun {} 0 ⟨rfl, rfl, rfl⟩
  have hb : Pt.lang.apply Spec.Pt.zeroWord {} = (none, { rbuf := EnExt.pendL none, lz := 1 }) := apply_zero_new 0
  obtain ⟨s2, e2, hs2⟩ := step_reject_run Pt.lang s1
    (0 + 2 * (List.replicate k Spec.Pt.zeroWord ++ Spec.Pt.cardinal v n).length)
    1 none _ _ _ _ Spec.Pt.zeroWord .overlap (by decide) ⟨by decide, by decide⟩ hs1 hne hf hz hb
  obtain ⟨sf, e3, hq⟩ := finalize_pending Pt.lang s2 1 none _ hs2 (Or.inl (by decide))
  unfold occTexts
  rw [EnExt.findNumbers_words, EnExt.pushWords_append, e1]
  dsimp only
  rw [EnExt.pushWords, e2]
  dsimp only
  rw [EnExt.pushWords]
  dsimp only
  rw [e3]
  dsimp only
  rw [hq]
  rfl

example : occTexts Pt.lang zeroThr (Spec.Pt.cardinal (fun _ => 0) 1021 ++ [Spec.Pt.zeroWord]) =
    some [decChars 1021, ['0']] := C16_zero_after_scan_pt (fun _ => 0) 0 1021 (by decide) (by decide)

/-! ## Part 4 — digit dictation (C08) -/

theorem apply_zero_empty (z : Nat) :
    Pt.apply (Spec.Pt.digitWord 0) { rbuf := [], lz := z } = (none, { rbuf := [], lz := z + 1 }) :=
  apply_zero_new z

theorem apply_zero_pend (z e : Nat) :
    Pt.apply (Spec.Pt.digitWord 0) { rbuf := [e], lz := z } = (some .overlap, { rbuf := [e], lz := z }) := rfl

theorem digit_plain (d : Nat) (h0 : d ≠ 0) (h9 : d < 10) :
    Pt.morph (Spec.Pt.digitWord d) = .none ∧ actOf (Spec.Pt.digitWord d) = Pt.unit true d ∧
    Pt.apply (Spec.Pt.digitWord d) DS.new = (none, { rbuf := [d] }) := by
  have : d = 1 ∨ d = 2 ∨ d = 3 ∨ d = 4 ∨ d = 5 ∨ d = 6 ∨ d = 7 ∨ d = 8 ∨ d = 9 := by omega
  rcases this with rfl | rfl | rfl | rfl | rfl | rfl | rfl | rfl | rfl <;> exact ⟨by decide, by rfl, by rfl⟩

theorem apply_digit_empty (z d : Nat) (h0 : d ≠ 0) (h9 : d < 10) :
    Pt.apply (Spec.Pt.digitWord d) { rbuf := [], lz := z } = (none, { rbuf := [d], lz := z }) := by
  obtain ⟨hm, _, hx⟩ := digit_plain d h0 h9
  have := apply_lz (Spec.Pt.digitWord d) DS.new z (Nat.zero_le _) (by rw [hx]; exact Or.inl rfl) (by rw [hx]; rfl)
    (Or.inr (by rw [hm]; rfl))
  rw [hx] at this
  exact this

theorem apply_digit_pend (z e d : Nat) (he : e ≠ 0) (h0 : d ≠ 0) (h9 : d < 10) :
    Pt.apply (Spec.Pt.digitWord d) { rbuf := [e], lz := z } = (some .nan, { rbuf := [e], lz := z }) := by
  obtain ⟨hm, ha, _⟩ := digit_plain d h0 h9
  rw [apply_eq, hm, ha]
  have : (!({ rbuf := [e], lz := z } : DS).isEmpty && Marker.none != ({ rbuf := [e], lz := z } : DS).marker) = false := by
    show (!({ rbuf := [e], lz := z } : DS).isEmpty && Marker.none != Marker.none) = false
    simp
  rw [this, if_neg Bool.false_ne_true]
  have hg : (Guard.and (.neg (.peekEq 2 [1, 0])) (.neg (Pt.smallerBlocked true))).eval { rbuf := [e], lz := z } = false := by
    simp [Pt.smallerBlocked, Pt.onlyMult, Guard.eval, DS.peek, DS.isFree, DS.isEmpty, allZero, hasBits, he,
      Pt.CONJUNCTION, Pt.ONLY_MULTIPLIERS]
  simp only [Pt.unit, Act.when, Act.exec]
  rw [if_neg (by rw [hg]; exact Bool.false_ne_true)]
  rfl

theorem digit_noskip (d : Nat) (h9 : d < 10) :
    EnExt.skipW (Spec.Pt.digitWord d) = false ∧ Pt.lang.isDecSep (Spec.Pt.digitWord d) = false := by
  have : d = 0 ∨ d = 1 ∨ d = 2 ∨ d = 3 ∨ d = 4 ∨ d = 5 ∨ d = 6 ∨ d = 7 ∨ d = 8 ∨ d = 9 := by omega
  rcases this with rfl | rfl | rfl | rfl | rfl | rfl | rfl | rfl | rfl | rfl <;> exact ⟨by decide, by decide⟩

/-- **the scanner on dictated digits**, from any state `(z, pend)` -/
theorem dict_run : ∀ (ds : List Nat), (∀ d ∈ ds, d < 10) → ∀ (s : Scanner) (z : Nat) (pend : Option Nat)
    (q : List Word) (i : Nat), EnExt.St s z pend q → (∀ e, pend = some e → e ≠ 0) →
    ∃ s' sf, EnExt.pushWords (scanCfg Pt.lang zeroThr) s i (ds.map Spec.Pt.digitWord) = .ok s' ∧
      s'.finalize (scanCfg Pt.lang zeroThr) = .ok sf ∧
      sf.tracker.queue.map (·.text) = q ++ (EnExt.dg z pend ds).map (fun g => g.map digitChar) := by
  intro ds
  induction ds with
  | nil =>
    intro _ s z pend q i hst _
    refine ⟨s, ?_⟩
    cases pend with
    | none =>
      by_cases hz : z = 0
      · subst hz
        obtain ⟨sf, h1, h2⟩ := finalize_empty Pt.lang s q hst
        exact ⟨sf, rfl, h1, by rw [h2]; simp [EnExt.dg]⟩
      · obtain ⟨sf, h1, h2⟩ := finalize_pending Pt.lang s z none q hst (Or.inl hz)
        exact ⟨sf, rfl, h1, by rw [h2, EnExt.dg, if_neg hz]; rfl⟩
    | some e =>
      obtain ⟨sf, h1, h2⟩ := finalize_pending Pt.lang s z (some e) q hst (Or.inr (by simp))
      exact ⟨sf, rfl, h1, by rw [h2, EnExt.dg]; rfl⟩
  | cons d ds ih =>
    intro hds s z pend q i hst hpe
    have hd9 : d < 10 := hds d List.mem_cons_self
    have hds' : ∀ x ∈ ds, x < 10 := fun x hx => hds x (List.mem_cons_of_mem _ hx)
    have hw := digit_noskip d hd9
    rw [List.map_cons, EnExt.pushWords]
    cases pend with
    | none =>
      by_cases hd : d = 0
      · subst hd
        obtain ⟨s1, e1, st1⟩ := step_accept Pt.lang s i z (z + 1) none none q _ hw hst (apply_zero_empty z)
        obtain ⟨s', sf, r1, r2, r3⟩ := ih hds' s1 (z + 1) none q (i + 2) st1 (fun e h => by simp at h)
        refine ⟨s', sf, by rw [e1]; exact r1, r2, ?_⟩
        rw [r3, EnExt.dg, if_pos rfl]
      · obtain ⟨s1, e1, st1⟩ := step_accept Pt.lang s i z z none (some d) q _ hw hst (apply_digit_empty z d hd hd9)
        obtain ⟨s', sf, r1, r2, r3⟩ := ih hds' s1 z (some d) q (i + 2) st1
          (fun e h => by have : d = e := by simpa using h
                         rw [← this]; exact hd)
        refine ⟨s', sf, by rw [e1]; exact r1, r2, ?_⟩
        rw [r3, EnExt.dg, if_neg hd]
    | some e =>
      have he : e ≠ 0 := hpe e rfl
      by_cases hd : d = 0
      · subst hd
        obtain ⟨s1, e1, st1⟩ := step_reject Pt.lang s i z 1 e none q _ .overlap (by decide) hw hst
          (apply_zero_pend z e) (apply_zero_empty 0)
        obtain ⟨s', sf, r1, r2, r3⟩ := ih hds' s1 1 none _ (i + 2) st1 (fun e h => by simp at h)
        refine ⟨s', sf, by rw [e1]; exact r1, r2, ?_⟩
        rw [r3, EnExt.dg, if_pos rfl, List.map_cons, List.append_assoc]
        rfl
      · obtain ⟨s1, e1, st1⟩ := step_reject Pt.lang s i z 0 e (some d) q _ .nan (by decide) hw hst
          (apply_digit_pend z e d he hd hd9) (apply_digit_empty 0 d hd hd9)
        obtain ⟨s', sf, r1, r2, r3⟩ := ih hds' s1 0 (some d) _ (i + 2) st1
          (fun e h => by have : d = e := by simpa using h
                         rw [← this]; exact hd)
        refine ⟨s', sf, by rw [e1]; exact r1, r2, ?_⟩
        rw [r3, EnExt.dg, if_neg hd, List.map_cons, List.append_assoc]
        rfl

/-- **C08 for Portuguese, every digit sequence**: the scanner groups dictated digits exactly as
`Spec.dictationGroups` (zeros attach to the following non-zero digit, trailing zeros stand alone) -/
theorem C08_dictation_pt (ds : List Nat) (h : ∀ d ∈ ds, d < 10) :
    occTexts Pt.lang zeroThr (ds.map Spec.Pt.digitWord) =
      some ((dictationGroups ds).map (fun g => g.map digitChar)) := by
  have hst : EnExt.St {} 0 none [] := ⟨rfl, rfl, rfl⟩
  obtain ⟨s', sf, r1, r2, r3⟩ := dict_run ds h {} 0 none [] 0 hst (fun e h => by simp at h)
  unfold occTexts
  rw [EnExt.findNumbers_words, r1]
  dsimp only
  rw [r2]
  dsimp only
  rw [r3, EnExt.dg_dictation, List.nil_append]

/-- the same statement on `findNumbers` -/
theorem C08_dictation_pt_occ (ds : List Nat) (h : ∀ d ∈ ds, d < 10) :
    ∃ occs, findNumbers (scanCfg Pt.lang zeroThr) (wordTokens (ds.map Spec.Pt.digitWord)) = .ok occs ∧
      occs.map (·.text) = (dictationGroups ds).map (fun g => g.map digitChar) := by
  have hst : EnExt.St {} 0 none [] := ⟨rfl, rfl, rfl⟩
  obtain ⟨s', sf, r1, r2, r3⟩ := dict_run ds h {} 0 none [] 0 hst (fun e h => by simp at h)
  refine ⟨sf.tracker.queue, ?_, by rw [r3, EnExt.dg_dictation, List.nil_append]⟩
  rw [EnExt.findNumbers_words, r1]
  dsimp only
  rw [r2]

example : occTexts Pt.lang zeroThr ([0, 0, 7, 0, 1, 2, 0, 0].map Spec.Pt.digitWord) =
    some [w!"007", w!"01", w!"2", w!"00"] := C08_dictation_pt _ (by decide)

/-! ## Part 5 — decimals (C05) -/

/-- decimal phase: integer part `I`, fraction builder `D`, nothing emitted -/
def SDg (s : Scanner) (I D : DS) : Prop :=
  s.parser = { int := I, dec := D, isDec := true } ∧ s.tracker.queue = [] ∧ s.tracker.onHold = none

/-- the language accepts, in decimal mode, only words that the scanner hands over -/
def AcceptsDec (l : Lang) : Prop :=
  ∀ w d, (l.applyDecimal w d).1 = none ∨ (l.applyDecimal w d).1 = some .incomplete → EnExt.skipW w = false

theorem parser_push_decg (l : Lang) (p : Parser) (w : Word) (hd : p.isDec = true) :
    p.push l w = ((l.applyDecimal w p.dec).1, { p with dec := (l.applyDecimal w p.dec).2 }) := by
  unfold Parser.push
  rw [hd, if_pos rfl]
  rcases l.applyDecimal w p.dec with ⟨r, d⟩
  dsimp only
  simp

/-- **lifting in decimal mode**: a successful run of `apply_decimal` on the fraction builder is reproduced by
the scanner -/
theorem lift_run_dec (l : Lang) (hl : AcceptsDec l) (thr : Nat → Bool) (I : DS) :
    ∀ (ws : List Word) (d : DS) (inc : Bool) (r : DS),
    execGroupFrom l.applyDecimal ws d inc = .ok r → ∀ (s : Scanner) (i : Nat), SDg s I d →
    ∃ s', EnExt.pushWords (scanCfg l thr) s i ws = .ok s' ∧ SDg s' I r := by
  intro ws
  induction ws with
  | nil =>
    intro d inc r h s i hs
    rw [execGroupFrom] at h
    cases inc with
    | true => exact absurd h (by simp)
    | false =>
      have : d = r := by simpa using h
      rw [← this]
      exact ⟨s, rfl, hs⟩
  | cons w ws ih =>
    intro d inc r h s i hs
    rw [execGroupFrom] at h
    obtain ⟨hp, hq, hh⟩ := hs
    rcases hx : l.applyDecimal w d with ⟨st, d1⟩
    rw [hx] at h
    have hpush : s.parser.push l w = (st, { int := I, dec := d1, isDec := true }) := by
      rw [parser_push_decg l s.parser w (by rw [hp]), hp]
      dsimp only
      rw [hx]
    rw [EnExt.pushWords]
    cases st with
    | none =>
      have hw := hl w d (by rw [hx]; exact Or.inl rfl)
      rw [EnExt.push_word l thr s i w hw, hpush]
      exact ih d1 false r h _ (i + 2) ⟨rfl, hq, hh⟩
    | some e =>
      cases e with
      | incomplete =>
        have hw := hl w d (by rw [hx]; exact Or.inr rfl)
        rw [EnExt.push_word l thr s i w hw, hpush]
        exact ih d1 true r h _ (i + 2) ⟨rfl, hq, hh⟩
      | overlap => exact absurd h (by simp)
      | nan => exact absurd h (by simp)
      | frozen => exact absurd h (by simp)

theorem render_ne_nil (D : DS) (h : D.isEmpty = false) : ∃ x xs, D.render = x :: xs := by
  unfold DS.isEmpty at h
  unfold DS.render
  cases hz : D.lz with
  | zero =>
    rw [hz] at h
    cases hr : D.rbuf.reverse with
    | nil =>
      have : D.rbuf = [] := by simpa using hr
      rw [this] at h
      exact absurd h (by decide)
    | cons a t => exact ⟨a, t, by simp⟩
  | succ k => exact ⟨0, List.replicate k 0 ++ D.rbuf.reverse, by simp [List.replicate_succ]⟩

/-- end of a decimal number: exactly one occurrence, whatever the threshold -/
theorem finalize_decimal (l : Lang) (thr : Nat → Bool) (s : Scanner) (I D : DS) (hs : SDg s I D)
    (hne : I.isEmpty = false) (hm : I.marker = .none) (hD : D.isEmpty = false) :
    ∃ sf a b, s.finalize (scanCfg l thr) = .ok sf ∧
      sf.tracker.queue = [⟨a, b, renderChars I ++ [l.decMark] ++ renderChars D, .dec I.render D.render, false⟩] := by
  obtain ⟨hp, hq, hh⟩ := hs
  unfold Scanner.finalize
  have hn : s.parser.hasNumber = true := by
    rw [hp]; show (!I.isEmpty) = true; rw [hne]; rfl
  rw [hn, if_pos rfl]
  unfold Scanner.numberEnd
  have ho : s.parser.isOrdinal = false := by
    rw [hp]; show I.marker.isOrdinal = false; rw [hm]; rfl
  obtain ⟨x, xs, hrr⟩ := render_ne_nil D hD
  have hf : s.parser.finish (scanCfg l thr).lang =
      .ok (renderChars I ++ [l.decMark] ++ renderChars D, .dec I.render D.render) := by
    rw [hp]
    unfold Parser.finish
    dsimp only
    rw [hD]
    show l.formatDecimalW I D = _
    unfold Lang.formatDecimalW
    have hc : (I.render.isEmpty && D.render.isEmpty) = false := by rw [hrr]; simp
    rw [hc, if_neg Bool.false_ne_true]
  rw [hf, ho]
  dsimp only
  have hsm : (scanCfg l thr).small (.dec I.render D.render) = false := by
    rw [hrr]; rfl
  rw [hsm, Bool.and_false]
  obtain ⟨_, t2⟩ := EnExt.tracker_numberEnd s.tracker false (renderChars I ++ [l.decMark] ++ renderChars D)
    (.dec I.render D.render) hh
  refine ⟨_, s.tracker.mstart, s.tracker.mend, rfl, ?_⟩
  show (s.tracker.numberEnd false _ _ false).queue = _
  rw [t2, hq]
  rfl


/-! ### Portuguese: the separator, the fraction (zeros, then one cardinal) -/

theorem morph_sep : Pt.morph Spec.Pt.sepWord = .none := by decide
theorem actOf_sep : actOf Spec.Pt.sepWord = .fail .nan := by rfl

theorem apply_sep (b : DS) (hm : b.marker = .none) :
    Pt.apply Spec.Pt.sepWord b = (some .nan, { b with flags := 0 }) := by
  rw [apply_eq, morph_sep, actOf_sep]
  have : (!b.isEmpty && Marker.none != b.marker) = false := by rw [hm]; simp
  rw [this, if_neg Bool.false_ne_true]
  rfl

theorem parser_push_sep (p : Parser) (hd : p.isDec = false) (hne : p.int.isEmpty = false)
    (hm : p.int.marker = .none) :
    p.push Pt.lang Spec.Pt.sepWord =
      (some .incomplete, { p with int := { p.int with flags := 0 }, isDec := true }) := by
  unfold Parser.push
  rw [hd, if_neg Bool.false_ne_true]
  have ha : Pt.lang.apply Spec.Pt.sepWord p.int = (some .nan, { p.int with flags := 0 }) := apply_sep p.int hm
  rw [ha]
  dsimp only
  have e1 : ({ p.int with flags := 0 } : DS).isEmpty = false := hne
  rw [e1, hm]
  rfl

theorem step_point (thr : Nat → Bool) (s : Scanner) (i : Nat) (I : DS) (hs : EnExt.SI s I) (hne : I.isEmpty = false)
    (hm : I.marker = .none) :
    ∃ s', s.push (scanCfg Pt.lang thr) i (EnExt.wt Spec.Pt.sepWord) = .ok s' ∧ SDg s' { I with flags := 0 } {} := by
  obtain ⟨hp, hq, hh⟩ := hs
  have hpush : s.parser.push Pt.lang Spec.Pt.sepWord =
      (some .incomplete, { int := { I with flags := 0 }, dec := {}, isDec := true }) := by
    rw [parser_push_sep s.parser (by rw [hp]) (by rw [hp]; exact hne) (by rw [hp]; exact hm), hp]
  rw [EnExt.push_word Pt.lang thr s i Spec.Pt.sepWord (by decide), hpush]
  exact ⟨_, rfl, rfl, hq, hh⟩

theorem acceptsDec_pt : AcceptsDec Pt.lang := fun w d h => (accepts_pt w d h).1

theorem frac_split : ∀ ds : List Nat, ∃ kz rest, ds = List.replicate kz 0 ++ rest ∧
    ds.takeWhile (· == 0) = List.replicate kz 0 ∧ ds.dropWhile (· == 0) = rest ∧ (∀ d ∈ rest.head?, d ≠ 0) := by
  intro ds
  induction ds with
  | nil => exact ⟨0, [], rfl, rfl, rfl, by simp⟩
  | cons d ds ih =>
    by_cases hd : d = 0
    · subst hd
      obtain ⟨kz, rest, h1, h2, h3, h4⟩ := ih
      refine ⟨kz + 1, rest, ?_, ?_, ?_, h4⟩
      · rw [List.replicate_succ, List.cons_append, ← h1]
      · rw [List.takeWhile_cons, if_pos (by rfl), h2, List.replicate_succ]
      · rw [List.dropWhile_cons, if_pos (by rfl), h3]
    · refine ⟨0, d :: ds, rfl, ?_, ?_, ?_⟩
      · rw [List.takeWhile_cons, if_neg (by simp [hd])]; rfl
      · rw [List.dropWhile_cons, if_neg (by simp [hd])]
      · intro x hx
        have : x = d := by simpa using hx.symm
        rw [this]; exact hd

theorem decDigits_digit (d : Nat) (hd : d < 10) : decDigits d = [d] := by
  rw [decDigits, if_pos hd]

theorem decDigits_step (a d : Nat) (ha : a ≠ 0) (hd : d < 10) : decDigits (10 * a + d) = decDigits a ++ [d] := by
  rw [decDigits, if_neg (by omega)]
  have e1 : (10 * a + d) / 10 = a := by omega
  have e2 : (10 * a + d) % 10 = d := by omega
  rw [e1, e2]

theorem decDigits_foldl : ∀ (l : List Nat) (acc : Nat), acc ≠ 0 → (∀ d ∈ l, d < 10) →
    decDigits (l.foldl (fun acc d => 10 * acc + d) acc) = decDigits acc ++ l := by
  intro l
  induction l with
  | nil => intro acc _ _; simp
  | cons d l ih =>
    intro acc ha hl
    rw [List.foldl_cons, ih (10 * acc + d) (by omega) (fun x hx => hl x (List.mem_cons_of_mem _ hx)),
      decDigits_step acc d ha (hl d List.mem_cons_self), List.append_assoc]
    rfl

theorem digitsValue_dec (d : Nat) (l : List Nat) (hd : d ≠ 0) (h9 : ∀ x ∈ d :: l, x < 10) :
    decDigits (Spec.Pt.digitsValue (d :: l)) = d :: l ∧ Spec.Pt.digitsValue (d :: l) ≠ 0 := by
  have hd9 : d < 10 := h9 d List.mem_cons_self
  have e : decDigits (Spec.Pt.digitsValue (d :: l)) = d :: l := by
    unfold Spec.Pt.digitsValue
    rw [List.foldl_cons]
    have : 10 * 0 + d = d := by omega
    rw [this, decDigits_foldl l d hd (fun x hx => h9 x (List.mem_cons_of_mem _ hx)), decDigits_digit d hd9]
    rfl
  refine ⟨e, ?_⟩
  intro h0
  rw [h0, decDigits_digit 0 (by decide)] at e
  have : 0 = d := by simpa using congrArg List.head? e
  exact hd this.symm

/-- the integer part as an interpreter run -/
theorem int_run (v : Var) (n : Nat) (h : n < 10 ^ 12) :
    ∃ I, execGroupFrom Pt.apply (Spec.Pt.cardinal v n) DS.new false = .ok I ∧
      I.isEmpty = false ∧ I.marker = .none ∧ I.render = decDigits n := by
  by_cases hn : n = 0
  · subst hn
    refine ⟨EnExt.setLz 1 DS.new, ?_, rfl, rfl, ?_⟩
    · have := zeros_run [] 1 0
      exact this
    · rw [decDigits_digit 0 (by decide)]; rfl
  · obtain ⟨fl, hr⟩ := cardinal_run v n hn h
    refine ⟨mkP (lsb n) fl, hr, (format_lz 0 n fl hn).1, rfl, ?_⟩
    show List.replicate 0 0 ++ (lsb n).reverse = _
    rw [lsb_rev_dec n hn]; rfl

/-- the fraction as an interpreter run on the fraction builder -/
theorem frac_run (v : Var) (ds : List Nat) (hds : ds ≠ []) (h9 : ∀ d ∈ ds, d < 10)
    (hfr : Spec.Pt.digitsValue (ds.dropWhile (· == 0)) < 10 ^ 12) :
    ∃ D, execGroupFrom Pt.apply (Spec.Pt.fraction v ds) DS.new false = .ok D ∧ D.isEmpty = false ∧ D.render = ds := by
  obtain ⟨kz, rest, h1, h2, h3, h4⟩ := frac_split ds
  have hf : Spec.Pt.fraction v ds = List.replicate kz Spec.Pt.zeroWord ++
      (if rest.isEmpty then [] else Spec.Pt.cardinal v (Spec.Pt.digitsValue rest)) := by
    unfold Spec.Pt.fraction
    dsimp only
    rw [h2, h3, EnExt.replicate_map]
  rw [h3] at hfr
  rw [hf]
  cases rest with
  | nil =>
    rw [List.append_nil] at h1
    have hk : kz ≠ 0 := by
      intro hk; rw [hk] at h1; exact hds h1
    refine ⟨EnExt.setLz kz DS.new, ?_, ?_, ?_⟩
    · have := zeros_run [] kz 0
      rw [Nat.zero_add] at this
      show execGroupFrom Pt.apply (List.replicate kz Spec.Pt.zeroWord ++ []) (EnExt.setLz 0 DS.new) false = _
      rw [this, execGroupFrom, if_neg Bool.false_ne_true]
    · show (([] : List Nat).isEmpty && kz == 0) = false
      have : (kz == 0) = false := by simp [hk]
      rw [this]; rfl
    · show List.replicate kz 0 ++ [] = ds
      rw [h1, List.append_nil]
  | cons d l =>
    have hd : d ≠ 0 := h4 d (by simp)
    have h9' : ∀ x ∈ d :: l, x < 10 := by
      intro x hx
      apply h9 x
      rw [h1]
      exact List.mem_append_right _ hx
    obtain ⟨hdec, hm0⟩ := digitsValue_dec d l hd h9'
    obtain ⟨fl, hr⟩ := zeros_cardinal_run v kz _ hm0 hfr []
    rw [List.append_nil, execGroupFrom, if_neg Bool.false_ne_true] at hr
    refine ⟨EnExt.setLz kz (mkP (lsb (Spec.Pt.digitsValue (d :: l))) fl), ?_, (format_lz kz _ fl hm0).1, ?_⟩
    · have e : (d :: l).isEmpty = false := rfl
      rw [e, if_neg Bool.false_ne_true]
      exact hr
    · show List.replicate kz 0 ++ (lsb (Spec.Pt.digitsValue (d :: l))).reverse = ds
      rw [lsb_rev_dec _ hm0, hdec, ← h1]

/- The statement asked for (`C05_decimal_<l>` without `hfr`) is FALSE for Portuguese: `Spec.Pt.fraction` reads the
   digits after the leading zeros as ONE cardinal, and `Spec.Pt.cardinal` is only defined below 10^12, so a fraction
   with more than 12 significant digits is not spelled faithfully (counter-example `C05_decimal_pt_long` below):

   theorem C05_decimal_pt (v n ds thr) (h : n < 10 ^ 12) (hds : ds ≠ []) (h9 : ∀ d ∈ ds, d < 10) :
       occTexts Pt.lang thr (cardinal v n ++ [sepWord] ++ fraction v ds) =
         some [decChars n ++ [decMark] ++ ds.map digitChar]
-/

/-- **C05 for Portuguese**: integer part `n < 10^12`, any non-empty fraction whose significant part (after the
leading zeros) is below `10^12`, any threshold, any variant: exactly one occurrence, whose text is
`<digits of n>,<fraction digits>` -/
theorem C05_decimal_pt_occ (v : Spec.Var) (n : Nat) (ds : List Nat) (thr : Nat → Bool) (h : n < 10 ^ 12)
    (hds : ds ≠ []) (h9 : ∀ d ∈ ds, d < 10) (hfr : Spec.Pt.digitsValue (ds.dropWhile (· == 0)) < 10 ^ 12) :
    ∃ a b, findNumbers (scanCfg Pt.lang thr)
        (wordTokens (Spec.Pt.cardinal v n ++ [Spec.Pt.sepWord] ++ Spec.Pt.fraction v ds)) =
      .ok [⟨a, b, decChars n ++ [','] ++ ds.map digitChar, .dec (decDigits n) ds, false⟩] := by
  obtain ⟨I, hrun, hne, hm, hrd⟩ := int_run v n h
  obtain ⟨D, hdrun, hDne, hDr⟩ := frac_run v ds hds h9 hfr
  have hs0 : EnExt.SI {} DS.new := ⟨rfl, rfl, rfl⟩
  obtain ⟨s1, e1, hs1⟩ := lift_run Pt.lang accepts_pt thr _ _ _ _ hrun {} 0 hs0
  obtain ⟨s2, e2, hs2⟩ := step_point thr s1 (0 + 2 * (Spec.Pt.cardinal v n).length) I hs1 hne hm
  obtain ⟨s3, e3, hs3⟩ := lift_run_dec Pt.lang acceptsDec_pt thr { I with flags := 0 } _ _ _ _ hdrun s2
    (0 + 2 * (Spec.Pt.cardinal v n).length + 2) hs2
  obtain ⟨sf, a, b, e4, hq⟩ := finalize_decimal Pt.lang thr s3 { I with flags := 0 } D hs3 hne hm hDne
  have hrI : ({ I with flags := 0 } : DS).render = decDigits n := hrd
  have hcI : renderChars ({ I with flags := 0 } : DS) = decChars n := by
    unfold renderChars decChars; rw [hrI]
  have hcD : renderChars D = ds.map digitChar := by unfold renderChars; rw [hDr]
  rw [hrI, hcI, hcD, hDr] at hq
  refine ⟨a, b, ?_⟩
  rw [EnExt.findNumbers_words, List.append_assoc, EnExt.pushWords_append, e1]
  dsimp only
  rw [List.singleton_append, EnExt.pushWords, e2]
  dsimp only
  rw [e3]
  dsimp only
  rw [e4]
  dsimp only
  rw [hq]
  rfl

theorem C05_decimal_pt (v : Spec.Var) (n : Nat) (ds : List Nat) (thr : Nat → Bool) (h : n < 10 ^ 12)
    (hds : ds ≠ []) (h9 : ∀ d ∈ ds, d < 10) (hfr : Spec.Pt.digitsValue (ds.dropWhile (· == 0)) < 10 ^ 12) :
    occTexts Pt.lang thr (Spec.Pt.cardinal v n ++ [Spec.Pt.sepWord] ++ Spec.Pt.fraction v ds) =
      some [decChars n ++ [Spec.Pt.decMark] ++ ds.map digitChar] := by
  obtain ⟨a, b, e⟩ := C05_decimal_pt_occ v n ds thr h hds h9 hfr
  unfold occTexts
  rw [e]
  rfl

/-- the extra hypothesis holds in particular for every fraction of at most 12 digits -/
theorem digitsValue_lt : ∀ (l : List Nat) (acc : Nat), (∀ d ∈ l, d < 10) →
    l.foldl (fun acc d => 10 * acc + d) acc < (acc + 1) * 10 ^ l.length := by
  intro l
  induction l with
  | nil => intro acc _; simp
  | cons d l ih =>
    intro acc hl
    rw [List.foldl_cons]
    have := ih (10 * acc + d) (fun x hx => hl x (List.mem_cons_of_mem _ hx))
    have hd := hl d List.mem_cons_self
    rw [List.length_cons, Nat.pow_succ]
    calc List.foldl (fun acc d => 10 * acc + d) (10 * acc + d) l < (10 * acc + d + 1) * 10 ^ l.length := this
      _ ≤ ((acc + 1) * 10) * 10 ^ l.length := Nat.mul_le_mul_right _ (by omega)
      _ = (acc + 1) * (10 ^ l.length * 10) := by rw [Nat.mul_assoc, Nat.mul_comm 10]

theorem frac_ok_of_length (ds : List Nat) (h9 : ∀ d ∈ ds, d < 10) (hlen : ds.length ≤ 12) :
    Spec.Pt.digitsValue (ds.dropWhile (· == 0)) < 10 ^ 12 := by
  have hsub : ∀ d ∈ ds.dropWhile (· == 0), d < 10 := fun d hd => h9 d ((List.dropWhile_sublist _).subset hd)
  have hl : (ds.dropWhile (· == 0)).length ≤ 12 := Nat.le_trans (List.dropWhile_sublist _).length_le hlen
  have := digitsValue_lt _ 0 hsub
  unfold Spec.Pt.digitsValue
  rw [Nat.zero_add, Nat.one_mul] at this
  exact Nat.lt_of_lt_of_le this (Nat.pow_le_pow_right (by decide) hl)

theorem C05_decimal_pt_len (v : Spec.Var) (n : Nat) (ds : List Nat) (thr : Nat → Bool) (h : n < 10 ^ 12)
    (hds : ds ≠ []) (h9 : ∀ d ∈ ds, d < 10) (hlen : ds.length ≤ 12) :
    occTexts Pt.lang thr (Spec.Pt.cardinal v n ++ [Spec.Pt.sepWord] ++ Spec.Pt.fraction v ds) =
      some [decChars n ++ [Spec.Pt.decMark] ++ ds.map digitChar] :=
  C05_decimal_pt v n ds thr h hds h9 (frac_ok_of_length ds h9 hlen)

example : occTexts Pt.lang (fun _ => true) (Spec.Pt.cardinal (fun _ => 0) 0 ++ [Spec.Pt.sepWord] ++
    Spec.Pt.fraction (fun _ => 0) [0, 0, 7, 2]) = some [decChars 0 ++ [','] ++ w!"0072"] :=
  C05_decimal_pt_len (fun _ => 0) 0 [0, 0, 7, 2] (fun _ => true) (by decide) (by decide) (by decide) (by decide)

/-- counter-example to the statement without `hfr`: 13 significant fraction digits — the spelling of the fraction is
empty (`cardinal v (10^12) = []`), and `um vírgula` is read `1` -/
theorem C05_decimal_pt_long :
    occTexts Pt.lang zeroThr (Spec.Pt.cardinal (fun _ => 0) 1 ++ [Spec.Pt.sepWord] ++
      Spec.Pt.fraction (fun _ => 0) (1 :: List.replicate 12 0)) = some [['1']] := by decide

/-! ## Part 6 — ordinals (C04) -/

/-- builder states reached while interpreting an ordinal: digits and marker (the flags stay 0) -/
def mkM (r : List Nat) (m : Marker) : DS := { rbuf := r, marker := m }

theorem put_marker (b : DS) (ds : List Nat) (m : Marker) :
    ({ b with marker := m }).put ds = ((b.put ds).1, { (b.put ds).2 with marker := m }) := by
  unfold DS.put
  dsimp only
  repeat (first | rfl | split)

theorem put_mkM {r r' : List Nat} {ds : List Nat} (m : Marker) (h : (C01En.mk r).put ds = (none, C01En.mk r')) :
    (mkM r m).put ds = (none, mkM r' m) := by
  have := put_marker (C01En.mk r) ds m
  rw [h] at this
  exact this

/-- the marker of inflection `i` -/
def mkOf (i : Nat) : Mk :=
  match i with
  | 0 => .mo | 1 => .fa | 2 => .mos | _ => .fas

theorem mkOf_chars (i : Nat) (hi : i < 4) : (mkOf i).chars = Spec.Pt.ordMarker i := by
  have : i = 0 ∨ i = 1 ∨ i = 2 ∨ i = 3 := by omega
  rcases this with rfl | rfl | rfl | rfl <;> rfl

/-- `w` is an ordinal word with marker `m`, bound to instruction `a` -/
def OrdP (w : Word) (a : Act) (m : Mk) : Prop := Pt.morph w = .ordinal m ∧ actOf w = a

/-- the marker of the builder: none before the first word, the marker of the words afterwards -/
def Valid (m : Mk) (N : Nat) (M : Marker) : Prop := (N = 0 ∧ M = .none) ∨ M = .ordinal m

theorem apply_ord {w : Word} {a : Act} {m : Mk} {N N' : Nat} {M : Marker} (h : OrdP w a m) (hM : Valid m N M)
    (he : a.exec (mkM (lsb N) M) = (none, mkM (lsb N') M, 0)) :
    Pt.apply w (mkM (lsb N) M) = (none, mkM (lsb N') (.ordinal m)) := by
  rw [apply_eq, h.1, h.2]
  have hc : (!(mkM (lsb N) M).isEmpty && Marker.ordinal m != (mkM (lsb N) M).marker) = false := by
    rcases hM with ⟨h0, _⟩ | hm
    · subst h0; rw [lsb_zero]; rfl
    · show (!(mkM (lsb N) M).isEmpty && Marker.ordinal m != M) = false
      rw [hm]; simp
  rw [hc, if_neg Bool.false_ne_true, he]
  unfold post
  dsimp only
  rw [h.1]
  rfl

theorem not_onlyMult_M (r : List Nat) (M : Marker) : (Guard.neg Pt.onlyMult).eval (mkM r M) = true := by
  show (!(hasBits 0 2)) = true
  rw [hb02]; rfl

/-! ### the ordinal vocabulary -/

theorem i_cases {i : Nat} (hi : i < 4) : i = 0 ∨ i = 1 ∨ i = 2 ∨ i = 3 := by omega

theorem ordP_mil (i : Nat) (hi : i < 4) : OrdP (w!"milésim" ++ Spec.Pt.ordEnding i) Pt.mil (mkOf i) := by
  rcases i_cases hi with rfl | rfl | rfl | rfl <;> exact ⟨by decide, by rfl⟩

theorem ordP_hundred_base (h i : Nat) (h0 : h ≠ 0) (h9 : h < 10) (hi : i < 4) :
    OrdP (Spec.Pt.ordHundredStems.getD h [] ++ Spec.Pt.ordEnding i) (Pt.hundreds [h, 0, 0]) (mkOf i) := by
  have : h = 1 ∨ h = 2 ∨ h = 3 ∨ h = 4 ∨ h = 5 ∨ h = 6 ∨ h = 7 ∨ h = 8 ∨ h = 9 := by omega
  rcases this with rfl | rfl | rfl | rfl | rfl | rfl | rfl | rfl | rfl <;>
    rcases i_cases hi with rfl | rfl | rfl | rfl <;> exact ⟨by decide, by rfl⟩

theorem ordP_hundred_alt (i : Nat) (hi : i < 4) :
    OrdP (w!"tricentésim" ++ Spec.Pt.ordEnding i) (Pt.hundreds [3, 0, 0]) (mkOf i) ∧
    OrdP (w!"seiscentésim" ++ Spec.Pt.ordEnding i) (Pt.hundreds [6, 0, 0]) (mkOf i) ∧
    OrdP (w!"nongentésim" ++ Spec.Pt.ordEnding i) (Pt.hundreds [9, 0, 0]) (mkOf i) := by
  rcases i_cases hi with rfl | rfl | rfl | rfl <;>
    exact ⟨⟨by decide, by rfl⟩, ⟨by decide, by rfl⟩, ⟨by decide, by rfl⟩⟩

theorem ordP_hundred (v : Var) (h i : Nat) (h0 : h ≠ 0) (h9 : h < 10) (hi : i < 4) :
    OrdP (Spec.Pt.ordHundredStem v h ++ Spec.Pt.ordEnding i) (Pt.hundreds [h, 0, 0]) (mkOf i) := by
  unfold Spec.Pt.ordHundredStem
  obtain ⟨a3, a6, a9⟩ := ordP_hundred_alt i hi
  split
  · rename_i hc
    have : h = 3 := by simp only [Bool.and_eq_true, beq_iff_eq] at hc; exact hc.1
    subst this; exact a3
  · split
    · rename_i hc
      have : h = 6 := by simp only [Bool.and_eq_true, beq_iff_eq] at hc; exact hc.1
      subst this; exact a6
    · split
      · rename_i hc
        have : h = 9 := by simp only [Bool.and_eq_true, beq_iff_eq] at hc; exact hc.1
        subst this; exact a9
      · exact ordP_hundred_base h i h0 h9 hi

theorem ordP_tens_base (t i : Nat) (t0 : t ≠ 0) (t9 : t < 10) (hi : i < 4) :
    OrdP (Spec.Pt.ordTensStems.getD t [] ++ Spec.Pt.ordEnding i) (Pt.small false [t, 0]) (mkOf i) := by
  have : t = 1 ∨ t = 2 ∨ t = 3 ∨ t = 4 ∨ t = 5 ∨ t = 6 ∨ t = 7 ∨ t = 8 ∨ t = 9 := by omega
  rcases this with rfl | rfl | rfl | rfl | rfl | rfl | rfl | rfl | rfl <;>
    rcases i_cases hi with rfl | rfl | rfl | rfl <;> exact ⟨by decide, by rfl⟩

theorem ordP_tens_alt (i : Nat) (hi : i < 4) :
    OrdP (w!"setuagésim" ++ Spec.Pt.ordEnding i) (Pt.small false [7, 0]) (mkOf i) ∧
    OrdP (w!"undécim" ++ Spec.Pt.ordEnding i) (Pt.small false [1, 1]) (mkOf i) ∧
    OrdP (w!"duodécim" ++ Spec.Pt.ordEnding i) (Pt.small false [1, 2]) (mkOf i) := by
  rcases i_cases hi with rfl | rfl | rfl | rfl <;>
    exact ⟨⟨by decide, by rfl⟩, ⟨by decide, by rfl⟩, ⟨by decide, by rfl⟩⟩

theorem ordP_tens (v : Var) (t i : Nat) (t0 : t ≠ 0) (t9 : t < 10) (hi : i < 4) :
    OrdP (Spec.Pt.ordTensStem v t ++ Spec.Pt.ordEnding i) (Pt.small false [t, 0]) (mkOf i) := by
  unfold Spec.Pt.ordTensStem
  split
  · rename_i hc
    have : t = 7 := by simp only [Bool.and_eq_true, beq_iff_eq] at hc; exact hc.1
    subst this; exact (ordP_tens_alt i hi).1
  · exact ordP_tens_base t i t0 t9 hi

/-- the instruction of the ordinal unit words: `nono` is guarded like a cardinal -/
def unitActO (u : Nat) : Act := if u = 9 then Pt.small false [9] else .put [u]

theorem ordP_unit (u i : Nat) (u0 : u ≠ 0) (u9 : u < 10) (hi : i < 4) :
    OrdP (Spec.Pt.ordUnitStems.getD u [] ++ Spec.Pt.ordEnding i) (unitActO u) (mkOf i) := by
  have : u = 1 ∨ u = 2 ∨ u = 3 ∨ u = 4 ∨ u = 5 ∨ u = 6 ∨ u = 7 ∨ u = 8 ∨ u = 9 := by omega
  rcases this with rfl | rfl | rfl | rfl | rfl | rfl | rfl | rfl | rfl <;>
    rcases i_cases hi with rfl | rfl | rfl | rfl <;> exact ⟨by decide, by rfl⟩

/-! ### what the instructions do -/

theorem small_exec (ds : List Nat) (N N' : Nat) (M : Marker) (h : (C01En.mk (lsb N)).put ds = (none, C01En.mk (lsb N'))) :
    (Pt.small false ds).exec (mkM (lsb N) M) = (none, mkM (lsb N') M, 0) := by
  simp only [Pt.small, Act.when, Act.exec]
  have hg : (Guard.neg (Pt.smallerBlocked false)).eval (mkM (lsb N) M) = true := not_onlyMult_M _ M
  rw [if_pos hg, put_mkM M h]

theorem hundreds_exec (ds : List Nat) (N N' : Nat) (M : Marker) (h : (C01En.mk (lsb N)).put ds = (none, C01En.mk (lsb N'))) :
    (Pt.hundreds ds).exec (mkM (lsb N) M) = (none, mkM (lsb N') M, 0) := by
  simp only [Pt.hundreds, Act.when, Act.exec]
  rw [if_pos (not_onlyMult_M _ M), put_mkM M h]

theorem unit_exec (u N : Nat) (M : Marker) (u0 : u ≠ 0) (u9 : u < 10) (hN : N % 10 = 0) :
    (unitActO u).exec (mkM (lsb N) M) = (none, mkM (lsb (N + u)) M, 0) := by
  unfold unitActO
  by_cases h : u = 9
  · rw [if_pos h]; subst h
    exact small_exec [9] N (N + 9) M (put1_lsb 9 N (by decide) (by decide) hN)
  · rw [if_neg h]
    simp only [Act.exec]
    rw [put_mkM M (put1_lsb u N u0 u9 hN)]

theorem mil_exec (M : Marker) : Pt.mil.exec (mkM (lsb 0) M) = (none, mkM (lsb 1000) M, 0) := by
  rw [lsb_zero, lsb_1000]
  simp [Pt.mil, Pt.onlyMult, Act.when, Act.exec, Guard.eval, mkM, DS.rangeFree, DS.peek, DS.shift, DS.shiftBuf,
    hasBits, Pt.ONLY_MULTIPLIERS]

/-! ### sequences of ordinal words -/

/-- running `ws` (then anything) from digits `N` is continuing from digits `N'`; the marker stays valid -/
def StepsO (m : Mk) (ws : List Word) (N N' : Nat) : Prop :=
  ∀ M, Valid m N M → ∃ M', Valid m N' M' ∧ ∀ rest,
    execGroupFrom Pt.apply (ws ++ rest) (mkM (lsb N) M) false = execGroupFrom Pt.apply rest (mkM (lsb N') M') false

theorem StepsO.nil (m : Mk) (N : Nat) : StepsO m [] N N := fun M hM => ⟨M, hM, fun _ => rfl⟩

theorem StepsO.append {m : Mk} {a b : List Word} {N N' N'' : Nat} (h1 : StepsO m a N N') (h2 : StepsO m b N' N'') :
    StepsO m (a ++ b) N N'' := by
  intro M hM
  obtain ⟨M1, v1, e1⟩ := h1 M hM
  obtain ⟨M2, v2, e2⟩ := h2 M1 v1
  exact ⟨M2, v2, fun rest => by rw [List.append_assoc, e1, e2]⟩

theorem StepsO.single {m : Mk} {w : Word} {N N' : Nat}
    (h : ∀ M, Valid m N M → Pt.apply w (mkM (lsb N) M) = (none, mkM (lsb N') (.ordinal m))) : StepsO m [w] N N' := by
  intro M hM
  refine ⟨.ordinal m, Or.inr rfl, fun rest => ?_⟩
  rw [List.singleton_append, execGroupFrom, h M hM]

theorem StepsO.cast {m : Mk} {ws : List Word} {N N' K : Nat} (h : StepsO m ws N N') (e : N' = K) :
    StepsO m ws N K := e ▸ h

/-- one ordinal word whose instruction adds to the digits -/
theorem StepsO.word {m : Mk} {w : Word} {a : Act} {N N' : Nat} (h : OrdP w a m)
    (he : ∀ M, a.exec (mkM (lsb N) M) = (none, mkM (lsb N') M, 0)) : StepsO m [w] N N' :=
  StepsO.single fun M hM => apply_ord h hM (he M)

/-! ### the spelling, piece by piece -/

theorem thousand_steps (i k : Nat) (hi : i < 4) (hk : k ≤ 1) :
    StepsO (mkOf i) ((if k == 0 then [] else [w!"milésim"]).map (· ++ Spec.Pt.ordEnding i)) 0 (1000 * k) := by
  by_cases h : k = 0
  · subst h; exact StepsO.nil _ 0
  · have : k = 1 := by omega
    subst this
    exact StepsO.word (ordP_mil i hi) mil_exec

theorem hundred_steps (v : Var) (i h N : Nat) (hi : i < 4) (h9 : h < 10) (hN : N % 1000 = 0) :
    StepsO (mkOf i) ((if h == 0 then [] else [Spec.Pt.ordHundredStem v h]).map (· ++ Spec.Pt.ordEnding i)) N
      (N + 100 * h) := by
  by_cases h0 : h = 0
  · subst h0; exact StepsO.nil _ N
  · rw [if_neg (by simp [h0])]
    exact StepsO.word (ordP_hundred v h i h0 h9 hi) fun M =>
      hundreds_exec [h, 0, 0] N (N + 100 * h) M (put3_lsb h N h0 h9 hN)

theorem tens_steps (v : Var) (i t N : Nat) (hi : i < 4) (t9 : t < 10) (hN : N % 100 = 0) :
    StepsO (mkOf i) ((if t == 0 then [] else [Spec.Pt.ordTensStem v t]).map (· ++ Spec.Pt.ordEnding i)) N
      (N + 10 * t) := by
  by_cases t0 : t = 0
  · subst t0; exact StepsO.nil _ N
  · rw [if_neg (by simp [t0])]
    exact StepsO.word (ordP_tens v t i t0 t9 hi) fun M =>
      small_exec [t, 0] N (N + 10 * t) M (by
        have := put2_lsb t 0 N t0 t9 (by decide) hN
        rw [Nat.add_zero] at this; exact this)

theorem unit_steps (i u N : Nat) (hi : i < 4) (u9 : u < 10) (hN : N % 10 = 0) :
    StepsO (mkOf i) ((if u == 0 then [] else [Spec.Pt.ordUnitStems.getD u []]).map (· ++ Spec.Pt.ordEnding i)) N
      (N + u) := by
  by_cases u0 : u = 0
  · subst u0; exact StepsO.nil _ N
  · rw [if_neg (by simp [u0])]
    exact StepsO.word (ordP_unit u i u0 u9 hi) fun M => unit_exec u N M u0 u9 hN

/-- tens and units, with the one-word forms `undécimo`, `duodécimo` -/
theorem low_steps (v : Var) (i t u N : Nat) (hi : i < 4) (t9 : t < 10) (u9 : u < 10) (hN : N % 100 = 0) :
    StepsO (mkOf i)
      ((if (t == 1 && u == 1 && flag v (cp 0 12)) = true then [w!"undécim"]
        else if (t == 1 && u == 2 && flag v (cp 0 13)) = true then [w!"duodécim"]
        else (if t == 0 then [] else [Spec.Pt.ordTensStem v t]) ++
          (if u == 0 then [] else [Spec.Pt.ordUnitStems.getD u []])).map (· ++ Spec.Pt.ordEnding i))
      N (N + 10 * t + u) := by
  split
  · rename_i hc
    simp only [Bool.and_eq_true, beq_iff_eq] at hc
    obtain ⟨⟨rfl, rfl⟩, _⟩ := hc
    exact StepsO.word (ordP_tens_alt i hi).2.1 fun M =>
      small_exec [1, 1] N _ M (put2_lsb 1 1 N (by decide) (by decide) (by decide) hN)
  · split
    · rename_i hc
      simp only [Bool.and_eq_true, beq_iff_eq] at hc
      obtain ⟨⟨rfl, rfl⟩, _⟩ := hc
      exact StepsO.word (ordP_tens_alt i hi).2.2 fun M =>
        small_exec [1, 2] N _ M (put2_lsb 1 2 N (by decide) (by decide) (by decide) hN)
    · rw [List.map_append]
      exact StepsO.append (tens_steps v i t N hi t9 hN) (unit_steps i u (N + 10 * t) hi u9 (by omega))

theorem ordinal_steps (v : Var) (n i : Nat) (hn : n ≤ 1999) (hi : i < 4) :
    StepsO (mkOf i) (Spec.Pt.ordinal v n i) 0 n := by
  unfold Spec.Pt.ordinal Spec.Pt.ordinalStems
  dsimp only
  rw [List.map_append, List.map_append]
  have s1 := thousand_steps i (n / 1000) hi (by omega)
  have s2 := hundred_steps v i (n / 100 % 10) (1000 * (n / 1000)) hi (by omega) (by omega)
  have s3 := low_steps v i (n / 10 % 10) (n % 10) (1000 * (n / 1000) + 100 * (n / 100 % 10)) hi (by omega) (by omega)
    (by omega)
  exact (StepsO.append (StepsO.append s1 s2) s3).cast (by omega)

/-- **C04 for Portuguese**: every rank `1 ≤ n ≤ 1999` (the whole range of `Spec.Pt.speller`), each of the four
inflections, every variant (`septuagésimo | setuagésimo`, `sexcentésimo | seiscentésimo`, `noningentésimo |
nongentésimo`, `décimo primeiro | undécimo`, `décimo segundo | duodécimo`, `trecentésimo | tricentésimo`):
validating the spelled ordinal yields the digits of `n` followed by the marker `º ª ᵒˢ ᵃˢ` -/
theorem C04_validate_pt' (v : Spec.Var) (n i : Nat) (h0 : 0 < n) (hn : n ≤ 1999) (hi : i < 4) :
    text2digitsWords Pt.lang (Spec.Pt.ordinal v n i) = .ok (decChars n ++ Spec.Pt.ordMarker i) := by
  have hn' : n ≠ 0 := by omega
  obtain ⟨M', hv, hs⟩ := ordinal_steps v n i hn hi .none (Or.inl ⟨rfl, rfl⟩)
  have hM : M' = .ordinal (mkOf i) := by
    rcases hv with ⟨h, _⟩ | h
    · exact absurd h hn'
    · exact h
  subst hM
  have hs := hs []
  rw [List.append_nil, lsb_zero] at hs
  have hex : execGroup Pt.lang.apply (Spec.Pt.ordinal v n i) = .ok (mkM (lsb n) (.ordinal (mkOf i))) := by
    show execGroupFrom Pt.apply (Spec.Pt.ordinal v n i) (mkM [] .none) false = _
    rw [hs, execGroupFrom, if_neg Bool.false_ne_true]
  have hne := lsb_ne_nil hn'
  have hemp : (mkM (lsb n) (.ordinal (mkOf i))).isEmpty = false := by
    show ((lsb n).isEmpty && (0 : Nat) == 0) = false
    cases hl : lsb n with
    | nil => exact absurd hl hne
    | cons a t => rfl
  have hrender : (mkM (lsb n) (.ordinal (mkOf i))).render = decDigits n := by
    show List.replicate 0 0 ++ (lsb n).reverse = _
    rw [lsb_rev_dec n hn']; rfl
  have hrne : (mkM (lsb n) (.ordinal (mkOf i))).render.isEmpty = false := by
    rw [hrender, ← lsb_rev_dec n hn']
    cases hl : lsb n with
    | nil => exact absurd hl hne
    | cons a t => simp
  unfold text2digitsWords
  rw [hex]
  dsimp only
  rw [hemp, if_neg Bool.false_ne_true]
  unfold Lang.formatW
  rw [hrne, if_neg Bool.false_ne_true]
  show ValOut.ok (renderChars (mkM (lsb n) (.ordinal (mkOf i))) ++ (mkOf i).chars) = _
  unfold renderChars decChars
  rw [hrender, mkOf_chars i hi]

/-- the statement on the uniform face `Spec.Pt.speller` -/
theorem C04_validate_pt (v : Spec.Var) (n i : Nat) (ws : List Word) (mk : Word)
    (h : Spec.Pt.speller.ordinal v n i = some (ws, mk)) :
    text2digitsWords Pt.lang ws = .ok (decChars n ++ mk) := by
  have h : (if (n == 0 || decide (n > 1999) || decide (i ≥ 4)) = true then none
      else some (Spec.Pt.ordinal v n i, Spec.Pt.ordMarker i)) = some (ws, mk) := h
  by_cases hc : (n == 0 || decide (n > 1999) || decide (i ≥ 4)) = true
  · rw [if_pos hc] at h; exact absurd h (by simp)
  · rw [if_neg hc] at h
    have e := Option.some.inj h
    have e1 : Spec.Pt.ordinal v n i = ws := congrArg Prod.fst e
    have e2 : Spec.Pt.ordMarker i = mk := congrArg Prod.snd e
    simp only [Bool.or_eq_true, beq_iff_eq, decide_eq_true_eq, not_or] at hc
    rw [← e1, ← e2]
    exact C04_validate_pt' v n i (by omega) (by omega) (by omega)

theorem C04_scan_pt (v : Spec.Var) (n i : Nat) (ws : List Word) (mk : Word)
    (h : Spec.Pt.speller.ordinal v n i = some (ws, mk)) :
    occTexts Pt.lang zeroThr ws = some [decChars n ++ mk] :=
  scan_of_validate_pt _ _ (C04_validate_pt v n i ws mk h)

example : text2digitsWords Pt.lang (Spec.Pt.ordinal (fun _ => 0) 1999 3) = .ok (decChars 1999 ++ w!"ᵃˢ") :=
  C04_validate_pt' _ 1999 3 (by decide) (by decide) (by decide)

example : text2digitsWords Pt.lang (Spec.Pt.ordinal (fun _ => 1) 712 0) = .ok (decChars 712 ++ w!"º") :=
  C04_validate_pt' _ 712 0 (by decide) (by decide) (by decide)

end T2N.ExtPt
