/-
  T2N.Lemmas.PairsFr.Tables — the finite facts of the pair rule, each a kernel-evaluated table of 100 rows
  indexed by ONE of the two numbers (never by the pair):
  * `words_ok`     — the words of `std n` are ordinary words for the scanner;
  * `rowA`         — the state of the reference scanner after `std a (et)`, and what the 28 numbers `b` whose spelling
                     begins with a simple (hyphen-free) word do in that state;
  * `compOk`       — the other 72 numbers `b` are ONE hyphenated word; its sub-builder holds two digits;
  * `rowS`         — every fusion is a spelling of the fused number (after normalisation).
-/
import T2N.Lemmas.PairsFr.Sim

set_option maxRecDepth 1000000

namespace T2N.PairsFr
open T2N T2N.Spec

/-- the numbers below 100 whose standard spelling begins with a hyphen-free word: `zéro … seize`, the tens
`vingt … soixante` and `vingt et un … soixante et un`, `soixante et onze` -/
def atomBs : List Nat :=
  [0, 1, 2, 3, 4, 5, 6, 7, 8, 9, 10, 11, 12, 13, 14, 15, 16, 20, 21, 30, 31, 40, 41, 50, 51, 60, 61, 71]

def isAtomB (b : Nat) : Bool := atomBs.contains b

/-- state of the reference scanner after the first number and the optional `et` -/
def stA (a : Nat) (cj : Bool) : List Word × DS := simFrom ([], {}) (std a ++ cjl cj)

/-- `et` is refused after `a` (fewer than two digits, or `dix` was the last word): `a` has been emitted and the
builder is fresh -/
def caseF (a : Nat) (cj : Bool) : Bool := cj && (a < 10 || a == 10 || a == 70 || a == 90)

/-- the open builder refuses every `put` of two digits -/
def blk2 (b : DS) : Bool :=
  !b.frozen && !b.rbuf.isEmpty && (decide (b.rbuf.length < 2) || !allZero (b.rbuf.take 2))

def rowA (a : Nat) (cj : Bool) : Bool :=
  if a == 0 && !cj then true
  else if caseF a cj then stA a cj == ([decChars a], {})
  else (stA a cj).1 == [] && blk2 (stA a cj).2 && txt (stA a cj).2 == decChars a &&
    atomBs.all (fun b => fin (simFrom (stA a cj) (std b)) == expected a b cj)

/-- sub-builder of a hyphenated word: two digits -/
def shape2 (ds : DS) : Bool := ds.rbuf.length == 2 && !allZero ds.rbuf.reverse && ds.lz == 0

def compOk (b : Nat) : Bool :=
  match std b with
  | [W] => W.contains '-' &&
      (match execGroup (T2N.Fr.applyFuel 1) (splitOnChar '-' W) with
       | .ok ds => shape2 ds
       | .error _ => false) &&
      (T2N.Fr.apply W {}).1.isNone && !(T2N.Fr.apply W {}).2.isEmpty && txt (T2N.Fr.apply W {}).2 == decChars b
  | _ => false

def rowS (a : Nat) : Bool :=
  (List.range 22).all (fun b => [false, true].all (fun cj =>
    match fused a b cj with
    | none => true
    | some c => norm (std c) == norm (std a ++ std b)))

theorem tbl_words : checkRange (fun n => (std n).all okW) 0 100 = true := by decide +kernel
theorem tbl_rowA_f : checkRange (fun a => rowA a false) 0 100 = true := by decide +kernel
theorem tbl_rowA_t : checkRange (fun a => rowA a true) 0 100 = true := by decide +kernel
theorem tbl_comp : checkRange (fun b => isAtomB b || compOk b) 0 100 = true := by decide +kernel
theorem tbl_rowS : checkRange rowS 0 100 = true := by decide +kernel

theorem words_ok (n : Nat) (h : n < 100) : (std n).all okW = true :=
  checkRange_spec _ 100 0 tbl_words n (Nat.zero_le _) (by omega)

theorem rowA_ok (a : Nat) (h : a < 100) (cj : Bool) : rowA a cj = true := by
  cases cj with
  | false => exact checkRange_spec _ 100 0 tbl_rowA_f a (Nat.zero_le _) (by omega)
  | true => exact checkRange_spec _ 100 0 tbl_rowA_t a (Nat.zero_le _) (by omega)

theorem comp_ok (b : Nat) (h : b < 100) : (isAtomB b || compOk b) = true :=
  checkRange_spec _ 100 0 tbl_comp b (Nat.zero_le _) (by omega)

theorem rowS_ok (a : Nat) (h : a < 100) : rowS a = true :=
  checkRange_spec _ 100 0 tbl_rowS a (Nat.zero_le _) (by omega)

end T2N.PairsFr
