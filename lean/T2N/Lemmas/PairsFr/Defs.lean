/-
  T2N.Lemmas.PairsFr.Defs — definitions for the C08 pair rule (French): the standard spelling `std`, the explicit
  fusion function `fused`, the expected scanner output `expected`, the normalisation `norm` of word lists, and the
  word-level reference scanner `sim` (a fold of the interpreter over the words) to which the real scanner is reduced
  in `T2N.Lemmas.PairsFr.Sim`.
-/
import T2N.Lemmas.SpecCheck

namespace T2N.PairsFr
open T2N T2N.Spec

/-- the standard spelling (traditional orthography: hyphens below 100, `et` with spaces, `quatre-vingts`) -/
def std (n : Nat) : List Word := Spec.Fr.cardinal (tableVar 0) n

/-- the optional conjunction between the two numbers -/
def cjl (cj : Bool) : List Word := if cj then [Spec.Fr.conj] else []

/-- the spoken pair: `std a`, optionally `et`, `std b` -/
def phrase (a b : Nat) (cj : Bool) : List Word := std a ++ cjl cj ++ std b

/-- **the fusions**: the cases in which the words of `a` (+ `et`) + the words of `b` are read as ONE number
* `quatre` + `vingt` / `vingt et un` (nothing between): 80 / 81 (`quatre vingt`, `quatre vingt (et) un`);
* `dix`, `soixante-dix`, `quatre-vingt-dix` + `sept`, `huit`, `neuf` (nothing between): `a + b`;
* `vingt`, `trente`, `quarante`, `cinquante` + a unit `1…9`: `a + b` — `un` only with `et` (`vingt un` is two numbers),
  `deux…neuf` with or without `et`;
* `soixante` + `1…16` (`soixante (et) onze`, `soixante douze`, …), `un` only with `et`: `60 + b`;
* `quatre-vingts` + `1…16`, with or without `et`: `80 + b`. -/
def fused (a b : Nat) (cj : Bool) : Option Nat :=
  if a = 4 ∧ (b = 20 ∨ b = 21) ∧ cj = false then some (60 + b)
  else if (a = 10 ∨ a = 70 ∨ a = 90) ∧ 7 ≤ b ∧ b ≤ 9 ∧ cj = false then some (a + b)
  else if (a = 20 ∨ a = 30 ∨ a = 40 ∨ a = 50) ∧ 1 ≤ b ∧ b ≤ 9 ∧ (b = 1 → cj = true) then some (a + b)
  else if a = 60 ∧ 1 ≤ b ∧ b ≤ 16 ∧ (b = 1 → cj = true) then some (a + b)
  else if a = 80 ∧ 1 ≤ b ∧ b ≤ 16 then some (a + b)
  else none

/-- **the expected texts**: the fused number; otherwise a spoken zero attaches to the number that follows it
directly (`zéro douze` ↦ `012`, `zéro zéro` ↦ `00`; not across `et`); otherwise both numbers, in order -/
def expected (a b : Nat) (cj : Bool) : List Word :=
  match fused a b cj with
  | some c => [decChars c]
  | none => if a = 0 ∧ cj = false then ['0' :: decChars b] else [decChars a, decChars b]

/-! ### normalisation of spellings (as in `oracle_c08`): hyphens opened, `et` dropped, plural `s` stripped -/

/-- the plural mark: a final `s` of a word longer than three letters other than `trois` (`vingts`, `cents`) -/
def stripS (w : Word) : Word :=
  if w.length > 3 ∧ w ≠ w!"trois" ∧ w.getLast? = some 's' then w.dropLast else w

def norm (ws : List Word) : List Word :=
  ((ws.flatMap (splitOnChar '-')).filter (fun w => w != Spec.Fr.conj && !w.isEmpty)).map stripS

/-! ### the word-level reference scanner -/

/-- text of a finished number -/
def txt (b : DS) : Word :=
  match T2N.Fr.lang.formatW b with
  | .ok (t, _) => t
  | .error _ => []

/-- one word: accepted (or `Incomplete`) — the builder moves on; refused — the open number (if any) is emitted and
the word is offered to a fresh builder -/
def stepW (st : List Word × DS) (w : Word) : List Word × DS :=
  match T2N.Fr.apply w st.2 with
  | (none, b') => (st.1, b')
  | (some .incomplete, b') => (st.1, b')
  | (some _, b') => if b'.isEmpty then (st.1, b') else (st.1 ++ [txt b'], (T2N.Fr.apply w {}).2)

def simFrom (st : List Word × DS) (ws : List Word) : List Word × DS := ws.foldl stepW st

/-- end of input: the open number (if any) is emitted -/
def fin (st : List Word × DS) : List Word := if st.2.isEmpty then st.1 else st.1 ++ [txt st.2]

def sim (ws : List Word) : List Word := fin (simFrom ([], {}) ws)

end T2N.PairsFr
