/-
  T2N.Lemmas.PairsFr.Sim — the scanner (threshold 0) on a phrase of plain words IS the word-level reference
  scanner `sim`: for every word list none of whose words is skipped (`-`, blank) or the decimal separator,
  `occTexts Fr.lang zeroThr ws = some (sim ws)`. No hypothesis on the interpreter's answers: accepted words,
  `Incomplete`, refusals with or without an open number are all followed.
-/
import T2N.Lemmas.PairsFr.Defs
import T2N.Lemmas.ExtFr

namespace T2N.PairsFr
open T2N T2N.Spec
open T2N.EnExt (wt skipW pushWords findNumbers_words push_word parser_push_nosep tracker_numberEnd
  pushWords_append small_zeroThr)

/-- a word the scanner hands to the interpreter as it is -/
def okW (w : Word) : Bool := !skipW w && !T2N.Fr.lang.isDecSep w

/-- scanner state: integer-mode parser holding `b`, nothing on hold, emitted texts `q` -/
def Inv (s : Scanner) (q : List Word) (b : DS) : Prop :=
  s.parser = { int := b } ∧ s.tracker.onHold = none ∧ s.tracker.queue.map (·.text) = q

theorem render_ne (b : DS) (h : b.isEmpty = false) : b.render.isEmpty = false := by
  unfold DS.isEmpty at h
  unfold DS.render
  cases hr : b.rbuf with
  | cons x t => simp
  | nil =>
    rw [hr] at h
    cases hz : b.lz with
    | zero => rw [hz] at h; exact absurd h (by decide)
    | succ k => simp [List.replicate_succ]

theorem format_ok (b : DS) (h : b.isEmpty = false) :
    ∃ v, T2N.Fr.lang.formatW b = .ok (txt b, v) := by
  have hr := render_ne b h
  unfold txt
  unfold Lang.formatW
  rw [hr, if_neg Bool.false_ne_true]
  cases b.marker <;> exact ⟨_, rfl⟩

theorem outside_inv (cfg : ScanCfg) (s : Scanner) (tok : Tok) :
    (s.outside cfg tok).parser = s.parser ∧ (s.outside cfg tok).tracker.onHold = s.tracker.onHold ∧
      (s.outside cfg tok).tracker.queue = s.tracker.queue := by
  unfold Scanner.outside
  split <;> exact ⟨rfl, rfl, rfl⟩

/-- one word of the phrase -/
theorem step_inv (s : Scanner) (pos : Nat) (q : List Word) (b : DS) (w : Word) (hw : okW w = true)
    (hs : Inv s q b) :
    ∃ s', s.push (scanCfg T2N.Fr.lang zeroThr) pos (wt w) = .ok s' ∧
      Inv s' (stepW (q, b) w).1 (stepW (q, b) w).2 := by
  obtain ⟨hp, hh, hq⟩ := hs
  have hsk : skipW w = false := by
    unfold okW at hw; cases h : skipW w with
    | false => rfl
    | true => rw [h] at hw; exact absurd hw (by simp)
  have hds : T2N.Fr.lang.isDecSep w = false := by
    unfold okW at hw; cases h : T2N.Fr.lang.isDecSep w with
    | false => rfl
    | true => rw [h] at hw; exact absurd hw (by simp)
  have hpush : s.parser.push T2N.Fr.lang w = ((T2N.Fr.apply w b).1, { int := (T2N.Fr.apply w b).2 }) := by
    rw [parser_push_nosep T2N.Fr.lang s.parser w (by rw [hp]) hds, hp]
    rfl
  rw [push_word T2N.Fr.lang zeroThr s pos w hsk, hpush]
  unfold stepW
  rcases hx : T2N.Fr.apply w b with ⟨r, b'⟩
  dsimp only
  have rejected : ∀ e : Err, e ≠ .incomplete →
      ∃ s', Scanner.pushRejected (scanCfg T2N.Fr.lang zeroThr) { s with parser := { int := b' } } pos (wt w) = .ok s' ∧
        Inv s' (if b'.isEmpty then (q, b') else (q ++ [txt b'], (T2N.Fr.apply w {}).2)).1
          (if b'.isEmpty then (q, b') else (q ++ [txt b'], (T2N.Fr.apply w {}).2)).2 := by
    intro e _
    unfold Scanner.pushRejected
    cases hne : b'.isEmpty with
    | true =>
      have hn : ({ s with parser := { int := b' } } : Scanner).parser.hasNumber = false := by
        show (!b'.isEmpty) = false; rw [hne]; rfl
      rw [hn, if_neg Bool.false_ne_true, if_pos rfl]
      obtain ⟨o1, o2, o3⟩ := outside_inv (scanCfg T2N.Fr.lang zeroThr) { s with parser := { int := b' } } (wt w)
      refine ⟨_, rfl, ?_, ?_, ?_⟩
      · exact o1
      · exact o2.trans hh
      · exact (congrArg (List.map (·.text)) o3).trans hq
    | false =>
      have hn : ({ s with parser := { int := b' } } : Scanner).parser.hasNumber = true := by
        show (!b'.isEmpty) = true; rw [hne]; rfl
      rw [if_pos hn, if_neg Bool.false_ne_true]
      obtain ⟨v, hf⟩ := format_ok b' hne
      unfold Scanner.numberEnd
      have hfin : ({ s with parser := { int := b' } } : Scanner).parser.finish (scanCfg T2N.Fr.lang zeroThr).lang =
          .ok (txt b', v) := hf
      rw [hfin]
      dsimp only
      rw [small_zeroThr, Bool.and_false]
      have hpush2 : Parser.push (scanCfg T2N.Fr.lang zeroThr).lang {} (wt w).lower =
          ((T2N.Fr.apply w {}).1, { int := (T2N.Fr.apply w {}).2 }) := by
        show ({} : Parser).push T2N.Fr.lang w = _
        rw [parser_push_nosep T2N.Fr.lang {} w rfl hds]
        rfl
      rw [hpush2]
      dsimp only
      obtain ⟨t1, t2⟩ := tracker_numberEnd s.tracker b'.isOrdinal (txt b') v hh
      have hq2 : List.map (·.text) (s.tracker.numberEnd b'.isOrdinal (txt b') v false).queue = q ++ [txt b'] := by
        rw [t2, List.map_append, hq]; rfl
      cases hr2 : (T2N.Fr.apply w {}).1.isNone with
      | true =>
        rw [if_pos rfl]
        exact ⟨_, rfl, rfl, t1, hq2⟩
      | false =>
        rw [if_neg Bool.false_ne_true]
        -- `Incomplete` on the fresh parser leaves the scanner as it is; any other error goes through `outside`
        cases hr3 : ((T2N.Fr.apply w {}).1 == some Err.incomplete) with
        | true =>
          rw [if_pos rfl]
          exact ⟨_, rfl, rfl, t1, hq2⟩
        | false =>
          rw [if_neg Bool.false_ne_true]
          obtain ⟨o1, o2, o3⟩ := outside_inv (scanCfg T2N.Fr.lang zeroThr)
            { s with parser := { int := (T2N.Fr.apply w {}).2 },
                     tracker := s.tracker.numberEnd b'.isOrdinal (txt b') v false } (wt w)
          refine ⟨_, rfl, ?_, ?_, ?_⟩
          · exact o1
          · exact o2.trans t1
          · exact (congrArg (List.map (·.text)) o3).trans hq2
  cases r with
  | none => exact ⟨_, rfl, rfl, hh, hq⟩
  | some e =>
    cases e with
    | incomplete => exact ⟨_, rfl, rfl, hh, hq⟩
    | overlap => exact rejected .overlap (by simp)
    | nan => exact rejected .nan (by simp)
    | frozen => exact rejected .frozen (by simp)

theorem run_inv : ∀ (ws : List Word) (s : Scanner) (pos : Nat) (q : List Word) (b : DS),
    (∀ w ∈ ws, okW w = true) → Inv s q b →
    ∃ s', pushWords (scanCfg T2N.Fr.lang zeroThr) s pos ws = .ok s' ∧
      Inv s' (simFrom (q, b) ws).1 (simFrom (q, b) ws).2 := by
  intro ws
  induction ws with
  | nil => intro s pos q b _ hs; exact ⟨s, rfl, hs⟩
  | cons w ws ih =>
    intro s pos q b hw hs
    obtain ⟨s1, e1, hs1⟩ := step_inv s pos q b w (hw w List.mem_cons_self) hs
    obtain ⟨s2, e2, hs2⟩ := ih s1 (pos + 2) _ _ (fun x hx => hw x (List.mem_cons_of_mem _ hx)) hs1
    refine ⟨s2, ?_, ?_⟩
    · rw [pushWords, e1]; exact e2
    · exact hs2

theorem finalize_inv (s : Scanner) (q : List Word) (b : DS) (hs : Inv s q b) :
    ∃ sf, s.finalize (scanCfg T2N.Fr.lang zeroThr) = .ok sf ∧ sf.tracker.queue.map (·.text) = fin (q, b) := by
  obtain ⟨hp, hh, hq⟩ := hs
  unfold Scanner.finalize fin
  cases hne : b.isEmpty with
  | true =>
    have hn : s.parser.hasNumber = false := by rw [hp]; show (!b.isEmpty) = false; rw [hne]; rfl
    rw [hn, if_neg Bool.false_ne_true]
    exact ⟨s, rfl, by rw [hq]; simp⟩
  | false =>
    have hn : s.parser.hasNumber = true := by rw [hp]; show (!b.isEmpty) = true; rw [hne]; rfl
    rw [hn, if_pos rfl]
    obtain ⟨v, hf⟩ := format_ok b hne
    unfold Scanner.numberEnd
    have hfin : s.parser.finish (scanCfg T2N.Fr.lang zeroThr).lang = .ok (txt b, v) := by rw [hp]; exact hf
    rw [hfin]
    dsimp only
    rw [small_zeroThr, Bool.and_false]
    obtain ⟨_, t2⟩ := tracker_numberEnd s.tracker s.parser.isOrdinal (txt b) v hh
    refine ⟨_, rfl, ?_⟩
    show List.map (·.text) (s.tracker.numberEnd s.parser.isOrdinal (txt b) v false).queue = _
    rw [t2, List.map_append, hq]
    simp

/-- **the scanner is the reference scanner** on phrases of ordinary words -/
theorem scan_eq_sim (ws : List Word) (hw : ∀ w ∈ ws, okW w = true) :
    occTexts T2N.Fr.lang zeroThr ws = some (sim ws) := by
  obtain ⟨s1, e1, hs1⟩ := run_inv ws {} 0 [] {} hw ⟨rfl, rfl, rfl⟩
  obtain ⟨sf, e2, hq⟩ := finalize_inv s1 _ _ hs1
  unfold occTexts
  rw [findNumbers_words, e1]
  dsimp only
  rw [e2]
  dsimp only
  rw [hq]
  rfl

/-! ### algebra of the reference scanner -/

theorem simFrom_append (st : List Word × DS) (a b : List Word) :
    simFrom st (a ++ b) = simFrom (simFrom st a) b := by
  unfold simFrom
  rw [List.foldl_append]

theorem stepW_queue (q : List Word) (b : DS) (w : Word) :
    stepW (q, b) w = (q ++ (stepW ([], b) w).1, (stepW ([], b) w).2) := by
  unfold stepW
  dsimp only
  rcases T2N.Fr.apply w b with ⟨r, b'⟩
  cases r with
  | none => simp
  | some e =>
    cases e <;> dsimp only <;> (try simp) <;> split <;> simp

theorem simFrom_queue : ∀ (ws : List Word) (q : List Word) (b : DS),
    simFrom (q, b) ws = (q ++ (simFrom ([], b) ws).1, (simFrom ([], b) ws).2) := by
  intro ws
  induction ws with
  | nil => intro q b; simp [simFrom]
  | cons w ws ih =>
    intro q b
    have e1 : simFrom (q, b) (w :: ws) = simFrom (stepW (q, b) w) ws := rfl
    have e2 : simFrom ([], b) (w :: ws) = simFrom (stepW ([], b) w) ws := rfl
    rw [e1, e2, stepW_queue q b w, ih, ih (stepW ([], b) w).1]
    simp [List.append_assoc]

theorem fin_queue (q q' : List Word) (b : DS) : fin (q ++ q', b) = q ++ fin (q', b) := by
  unfold fin
  dsimp only
  split <;> simp

/-- after an emitted prefix `q` and a fresh builder, the rest of the phrase is scanned on its own -/
theorem fin_simFrom_fresh (q : List Word) (ws : List Word) :
    fin (simFrom (q, {}) ws) = q ++ sim ws := by
  rw [simFrom_queue ws q {}]
  have := fin_queue q (simFrom ([], {}) ws).1 (simFrom ([], {}) ws).2
  rw [this]
  rfl

end T2N.PairsFr
