/-
  T2N.Lemmas.ExtDeS — German ordinals (C04), splitter part (the rest is in ExtDeO.lean).
  German ordinals, unbounded: for every rank `0 < n ≤ 10^6`, every declension ending
  and every variant function, the spelled ordinal validates to the digits of `n` followed by `.`.

  * `Voc`, `ChainG`, `split_chainG`: the splitter theory of `C01DeS`, parametric in the vocabulary, instantiated
    with the cardinal atoms plus the ordinal forms (`erste` … `neunzigste`, `hundertste`, `tausendste`);
  * `lemmatize_ord`: the lemmatizer strips the declension ending of `…t` + ending to `…te`;
  * `OrdForm`, `pair_single`, `pair_compound`: making the last atom ordinal marks the number and freezes it;
  * `render_last`: the last word of a rendering is the compound of the last run of uncut atoms;
  * `C04_validate_de`.
-/
import T2N.Lemmas.ExtDe

namespace T2N.ExtDe
open T2N T2N.DS T2N.Spec T2N.C01De
open T2N.C01En (lsb lsb_ne_nil lsb_rev_dec lsb_zero)
open T2N.EnExt (mark OrdPair)

/-! ## the splitter on chains over an arbitrary vocabulary -/

/-- the facts about a vocabulary of gap atoms `G` and pattern atoms `P` that make the splitter return the
atoms of a compound -/
structure Voc (G P : List Word) : Prop where
  gapEnd : ∀ g ∈ G, g ≠ [] ∧ (∀ i, i < g.length → longestAt De.patterns (g.drop i) = none) ∧ g ∉ P
  gapNext : ∀ g ∈ G, ∀ p ∈ P, ∀ (tail : Word) (i : Nat), i < g.length →
    longestAt De.patterns (g.drop i ++ (p ++ tail)) = none
  patEnd : ∀ p ∈ P, p ≠ [] ∧ longestAt De.patterns p = some p.length
  patNext : ∀ p ∈ P, ∀ a ∈ G ++ P, ∀ tail : Word, longestAt De.patterns (p ++ (a ++ tail)) = some p.length

/-- a compound over `G`, `P`: never two gap atoms in a row -/
inductive ChainG (G P : List Word) : List Word → Prop
  | gap1 {g : Word} : g ∈ G → ChainG G P [g]
  | pat1 {p : Word} : p ∈ P → ChainG G P [p]
  | gapc {g p : Word} {rest : List Word} : g ∈ G → p ∈ P → ChainG G P (p :: rest) → ChainG G P (g :: p :: rest)
  | patc {p a : Word} {rest : List Word} : p ∈ P → ChainG G P (a :: rest) → ChainG G P (p :: a :: rest)

variable {G P : List Word}

theorem ChainG.head_mem {a : Word} {rest : List Word} (h : ChainG G P (a :: rest)) : a ∈ G ++ P := by
  cases h with
  | gap1 hg => exact List.mem_append_left _ hg
  | pat1 hp => exact List.mem_append_right _ hp
  | gapc hg _ _ => exact List.mem_append_left _ hg
  | patc hp _ => exact List.mem_append_right _ hp

theorem ChainG.ne_nil {c : List Word} (h : ChainG G P c) : c ≠ [] := by
  cases h <;> exact List.cons_ne_nil _ _

theorem Voc.ne_nil (V : Voc G P) {a : Word} (ha : a ∈ G ++ P) : a ≠ [] := by
  rcases List.mem_append.mp ha with h | h
  · exact (V.gapEnd a h).1
  · exact (V.patEnd a h).1

theorem split_chainG (V : Voc G P) {c : List Word} (h : ChainG G P c) : ∀ fuel, c.flatten.length < fuel →
    splitWordFuel De.patterns fuel c.flatten [] = c ∧
    (∀ a rest, c = a :: rest → a ∈ P → ∀ g : Word, g ≠ [] →
      splitWordFuel De.patterns fuel c.flatten g.reverse = g :: c) := by
  induction h with
  | @gap1 g hg =>
    intro fuel hf
    obtain ⟨hne, hend, hnp⟩ := V.gapEnd g hg
    refine ⟨?_, fun a rest e ha => ?_⟩
    · simp only [List.flatten_cons, List.flatten_nil, List.append_nil] at hf ⊢
      obtain ⟨f', rfl⟩ : ∃ f', fuel = f' + g.length := ⟨fuel - g.length, by omega⟩
      have := split_gap De.patterns g [] [] f' (fun i hi => by simpa using hend i hi)
      rw [List.append_nil] at this
      rw [this, split_end]
      simp [hne]
    · cases e; exact absurd ha hnp
  | @pat1 p hp =>
    intro fuel hf
    obtain ⟨hne, hl⟩ := V.patEnd p hp
    simp only [List.flatten_cons, List.flatten_nil, List.append_nil] at hf ⊢
    obtain ⟨f', rfl⟩ : ∃ f', fuel = f' + 1 := ⟨fuel - 1, by omega⟩
    have key : ∀ acc, splitWordFuel De.patterns (f' + 1) p acc =
        (if acc.isEmpty then [] else [acc.reverse]) ++ [p] := by
      intro acc
      have := split_pat De.patterns p [] acc f' hne (by simpa using hl)
      rw [List.append_nil] at this
      rw [this, split_end]; simp
    refine ⟨by rw [key]; rfl, fun a rest _ _ g hg => ?_⟩
    rw [key]; simp [hg]
  | @gapc g p rest hg hp _ ih =>
    intro fuel hf
    obtain ⟨hne, _, hnp⟩ := V.gapEnd g hg
    refine ⟨?_, fun a rest' e ha => ?_⟩
    · rw [List.flatten_cons] at hf ⊢
      rw [List.length_append] at hf
      obtain ⟨f', rfl⟩ : ∃ f', fuel = f' + g.length := ⟨fuel - g.length, by omega⟩
      have hn : ∀ i, i < g.length → longestAt De.patterns (g.drop i ++ (p :: rest).flatten) = none := by
        intro i hi
        rw [List.flatten_cons]
        exact V.gapNext g hg p hp _ i hi
      rw [split_gap De.patterns g _ [] f' hn, List.append_nil]
      exact (ih f' (by omega)).2 p rest rfl hp g hne
    · cases e; exact absurd ha hnp
  | @patc p a rest hp hc ih =>
    intro fuel hf
    obtain ⟨hne, _⟩ := V.patEnd p hp
    rw [List.flatten_cons] at hf ⊢
    rw [List.length_append] at hf
    obtain ⟨f', rfl⟩ : ∃ f', fuel = f' + 1 := ⟨fuel - 1, by omega⟩
    have hl : longestAt De.patterns (p ++ (a :: rest).flatten) = some p.length := by
      rw [List.flatten_cons]
      exact V.patNext p hp a hc.head_mem _
    have hplen : 0 < p.length := List.length_pos_iff.mpr hne
    have key : ∀ acc, splitWordFuel De.patterns (f' + 1) (p ++ (a :: rest).flatten) acc =
        (if acc.isEmpty then [] else [acc.reverse]) ++ [p] ++ (a :: rest) := by
      intro acc
      rw [split_pat De.patterns p _ acc f' hne hl, (ih f' (by omega)).1]
    refine ⟨by rw [key]; rfl, fun _ _ _ _ g hg => ?_⟩
    rw [key]; simp [hg]

/-- **the splitter returns the atoms of a compound** -/
theorem splitWord_chainG (V : Voc G P) {c : List Word} (h : ChainG G P c) : splitWord De.patterns c.flatten = c :=
  (split_chainG V h _ (Nat.lt_succ_self _)).1

/-- a compound of at least two atoms is splittable -/
theorem isSplittable_chainG (V : Voc G P) {c : List Word} (h : ChainG G P c) (h2 : 2 ≤ c.length) :
    isSplittable De.patterns c.flatten = true := by
  unfold isSplittable
  cases h with
  | gap1 _ => simp at h2
  | pat1 _ => simp at h2
  | @gapc g p rest hg hp hc =>
    obtain ⟨hne, _, _⟩ := V.gapEnd g hg
    obtain ⟨hpne, _⟩ := V.patEnd p hp
    have hn : ∀ i, i < g.length → longestAt De.patterns (g.drop i ++ (p :: rest).flatten) = none := by
      intro i hi
      rw [List.flatten_cons]
      exact V.gapNext g hg p hp _ i hi
    have hl : ∃ n, longestAt De.patterns (p ++ rest.flatten) = some n := by
      cases hc with
      | gap1 hg' => exact absurd hp (V.gapEnd _ hg').2.2
      | gapc hg' _ _ => exact absurd hp (V.gapEnd _ hg').2.2
      | pat1 _ => exact ⟨_, by simpa using (V.patEnd p hp).2⟩
      | patc _ hc' => exact ⟨_, by rw [List.flatten_cons]; exact V.patNext p hp _ hc'.head_mem _⟩
    obtain ⟨n, hl⟩ := hl
    rw [List.flatten_cons, firstMatch_gap De.patterns g _ 0 hn, List.flatten_cons,
      firstMatch_pat De.patterns p _ _ n hpne hl]
    have : 0 < g.length := List.length_pos_iff.mpr hne
    simp; omega
  | @patc p a rest hp hc =>
    obtain ⟨hpne, _⟩ := V.patEnd p hp
    have hl : longestAt De.patterns (p ++ (a :: rest).flatten) = some p.length := by
      rw [List.flatten_cons]
      exact V.patNext p hp a hc.head_mem _
    rw [List.flatten_cons, firstMatch_pat De.patterns p _ 0 _ hpne hl]
    have : 0 < a.length := List.length_pos_iff.mpr (V.ne_nil hc.head_mem)
    simp; omega

/-! ### the vocabulary with the ordinal forms -/

/-- ordinal gap atoms (lemma form, ending `-e`) -/
def ogaps : List Word := [
  w!"erste", w!"zweite", w!"dritte", w!"vierte", w!"fünfte", w!"sechste", w!"siebte", w!"siebente", w!"achte",
  w!"neunte", w!"zehnte", w!"elfte", w!"zwölfte", w!"dreizehnte", w!"vierzehnte", w!"fünfzehnte", w!"sechzehnte",
  w!"siebzehnte", w!"achtzehnte", w!"neunzehnte",
  w!"zwanzigste", w!"dreißigste", w!"dreissigste", w!"vierzigste", w!"fünfzigste", w!"sechzigste", w!"siebzigste",
  w!"achtzigste", w!"neunzigste"]

/-- ordinal pattern atoms -/
def opats : List Word := [w!"hundertste", w!"tausendste"]

def G2 : List Word := gaps ++ ogaps
def P2 : List Word := pats3 ++ opats

set_option maxRecDepth 100000 in
theorem gapEnd2_ok : G2.all (fun g => !g.isEmpty && gapEndB g && !P2.contains g) = true := by decide +kernel

set_option maxRecDepth 100000 in
theorem gapNext2a_ok : gaps.all (fun g => opats.all (fun p => gapNextB g p)) = true := by decide +kernel

set_option maxRecDepth 100000 in
theorem gapNext2b_ok : ogaps.all (fun g => pats3.all (fun p => gapNextB g p)) = true := by decide +kernel

set_option maxRecDepth 100000 in
theorem gapNext2c_ok : ogaps.all (fun g => opats.all (fun p => gapNextB g p)) = true := by decide +kernel

theorem gapNext2_ok {g p : Word} (hg : g ∈ G2) (hp : p ∈ P2) : gapNextB g p = true := by
  rcases List.mem_append.mp hg with hg | hg <;> rcases List.mem_append.mp hp with hp | hp
  · exact (List.all_eq_true.mp ((List.all_eq_true.mp gapNext_ok) g hg)) p hp
  · exact (List.all_eq_true.mp ((List.all_eq_true.mp gapNext2a_ok) g hg)) p hp
  · exact (List.all_eq_true.mp ((List.all_eq_true.mp gapNext2b_ok) g hg)) p hp
  · exact (List.all_eq_true.mp ((List.all_eq_true.mp gapNext2c_ok) g hg)) p hp

set_option maxRecDepth 100000 in
theorem patEnd2_ok : P2.all (fun p => !p.isEmpty && longestAt De.patterns p == some p.length) = true := by
  decide +kernel

set_option maxRecDepth 100000 in
theorem patNext2_ok : P2.all (fun p => (G2 ++ P2).all (fun a => patNextB p a)) = true := by decide +kernel

theorem voc2 : Voc G2 P2 where
  gapEnd := by
    intro g hg
    have h1 := (List.all_eq_true.mp gapEnd2_ok) g hg
    simp only [Bool.and_eq_true, Bool.not_eq_true', gapEndB, List.all_eq_true, List.mem_range] at h1
    refine ⟨by intro e; rw [e] at h1; simp at h1, fun i hi => ?_, by simpa using h1.2⟩
    have := h1.1.2 i hi
    simpa using this
  gapNext := by
    intro g hg p hp tail i hi
    have h1 := gapNext2_ok hg hp
    simp only [gapNextB, List.all_eq_true, List.mem_range, Bool.and_eq_true] at h1
    obtain ⟨hs, hn⟩ := h1 i hi
    rw [← List.append_assoc, longestAt_stable _ _ _ hs]
    simpa using hn
  patEnd := by
    intro p hp
    have h1 := (List.all_eq_true.mp patEnd2_ok) p hp
    simp only [Bool.and_eq_true, Bool.not_eq_true', beq_iff_eq] at h1
    exact ⟨by intro e; rw [e] at h1; simp at h1, h1.2⟩
  patNext := by
    intro p hp a ha tail
    have h1 := (List.all_eq_true.mp ((List.all_eq_true.mp patNext2_ok) p hp)) a ha
    simp only [patNextB, Bool.and_eq_true, beq_iff_eq] at h1
    rw [← List.append_assoc, longestAt_stable _ _ _ h1.1]
    exact h1.2

end T2N.ExtDe
