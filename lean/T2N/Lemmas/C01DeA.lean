/-
  T2N.Lemmas.C01DeA — German cardinals, part A: the word-step lemmas on the builder (including the
  `flags` field) and the interpretation of a FLAT sequence of atoms (every atom its own word).

  State abstraction: `st N f z = { rbuf := lsb N, flags := f, frozen := z }`.
  All step lemmas are in frame form: the part of `N` above the positions touched is arbitrary.
-/
import T2N.Model.De
import T2N.Model.Scanner
import T2N.Spec.SpellDe
import T2N.Lemmas.DS
import T2N.Lemmas.Act
import T2N.Lemmas.C01En

namespace T2N.C01De
open T2N T2N.DS T2N.Spec T2N.C01En

/-! ## states -/

/-- builder state: digits of `N`, flags `f`, frozen `z` -/
def st (N f : Nat) (z : Bool) : DS := { rbuf := lsb N, flags := f, frozen := z }

theorem st_zero : st 0 0 false = DS.new := by
  unfold st; rw [lsb_zero]; rfl

theorem st_eq (N f : Nat) : st N f false = { C01En.mk (lsb N) with flags := f } := rfl

/-! ## the primitive operations do not look at `flags` -/

theorem put_flags (b : DS) (f : Nat) (ds : List Nat) :
    ({ b with flags := f }).put ds = ((b.put ds).1, { (b.put ds).2 with flags := f }) := by
  unfold DS.put
  dsimp only
  split
  · rfl
  · split
    · rfl
    · split
      · rfl
      · split
        · rfl
        · split
          · rfl
          · split <;> rfl

theorem shift_flags (b : DS) (f : Nat) (p : Nat) :
    ({ b with flags := f }).shift p = ((b.shift p).1, { (b.shift p).2 with flags := f }) := by
  unfold DS.shift
  dsimp only
  split
  · rfl
  · split
    · rfl
    · generalize shiftBuf (if b.rbuf.isEmpty = true then [1] else b.rbuf) p = o
      cases o <;> rfl

theorem putDigitAt_flags (b : DS) (f : Nat) (d p : Nat) :
    ({ b with flags := f }).putDigitAt d p = ((b.putDigitAt d p).1, { (b.putDigitAt d p).2 with flags := f }) := by
  unfold DS.putDigitAt
  dsimp only
  split
  · rfl
  · split
    · rfl
    · split
      · rfl
      · split <;> rfl

theorem st_put {N N' f : Nat} {ds : List Nat} (h : (C01En.mk (lsb N)).put ds = (none, C01En.mk (lsb N'))) :
    (st N f false).put ds = (none, st N' f false) := by
  rw [st_eq, put_flags, h]; rfl

theorem st_shift {N N' f : Nat} {p : Nat} (h : (C01En.mk (lsb N)).shift p = (none, C01En.mk (lsb N'))) :
    (st N f false).shift p = (none, st N' f false) := by
  rw [st_eq, shift_flags, h]; rfl


/-! ## plain (unsplittable, undeclined, non-ordinal) words -/

/-- `w` is not touched by `lemmatize`, is not split, is bound to instruction `a`, is no ordinal and not `eins` -/
def Plain (w : Word) (a : Act) : Prop :=
  De.lemmatize w = w ∧ isSplittable De.patterns w = false ∧ De.vocab.lookup w = some a ∧
    endsWith w w!"te" = false ∧ (w == w!"eins") = false

theorem applyFuel_plain (k : Nat) (w : Word) (a : Act) (b : DS) (h : Plain w a) :
    De.applyFuel (k + 1) w b =
      if (a.exec b).1.isNone then ((a.exec b).1, { (a.exec b).2.1 with flags := (a.exec b).2.2 })
      else ((a.exec b).1, { (a.exec b).2.1 with flags := 0 }) := by
  obtain ⟨h1, h2, h3, h4, h5⟩ := h
  rw [De.applyFuel]
  dsimp only
  rw [h1, h2, if_neg Bool.false_ne_true, h3, h4, h5]
  simp only [Option.getD_some, Bool.false_eq_true, if_false]

/-- `eins`: unit 1, then the builder is frozen -/
theorem applyFuel_eins (k : Nat) (b : DS) :
    De.applyFuel (k + 1) w!"eins" b =
      if ((De.unit 1).exec b).1.isNone then
        (((De.unit 1).exec b).1, { ((De.unit 1).exec b).2.1 with flags := ((De.unit 1).exec b).2.2, frozen := true })
      else (((De.unit 1).exec b).1, { ((De.unit 1).exec b).2.1 with flags := 0 }) := by
  rw [De.applyFuel]
  dsimp only
  have h1 : De.lemmatize w!"eins" = w!"eins" := by decide
  have h2 : isSplittable De.patterns w!"eins" = false := by decide
  have h3 : De.vocab.lookup w!"eins" = some (De.unit 1) := by rfl
  have h4 : endsWith w!"eins" w!"te" = false := by decide
  rw [h1, h2, if_neg Bool.false_ne_true, h3, h4]
  simp only [Option.getD_some, Bool.false_eq_true, if_false, beq_self_eq_true, if_true]
  rfl


/-! ### the vocabulary of the speller -/

theorem plain_ein : Plain w!"ein" (T2N.De.unit 1) := ⟨by decide, by decide, by rfl, by decide, by decide⟩

theorem unitWord_ne_one (one : Word) (zwo : Bool) (d : Nat) (h : d ≠ 1) :
    De.unitWord one zwo d = De.unitWord [] zwo d := by
  have h1 : ¬ ((d == 1) = true) := by simpa using h
  unfold De.unitWord
  rw [if_neg h1, if_neg h1]

theorem plain_unit (one : Word) (zwo : Bool) (d : Nat) (h2 : 2 ≤ d) (h9 : d < 10) :
    Plain (De.unitWord one zwo d) (T2N.De.unit d) := by
  rw [unitWord_ne_one one zwo d (by omega)]
  have : d = 2 ∨ d = 3 ∨ d = 4 ∨ d = 5 ∨ d = 6 ∨ d = 7 ∨ d = 8 ∨ d = 9 := by omega
  rcases this with rfl | rfl | rfl | rfl | rfl | rfl | rfl | rfl <;> cases zwo <;>
    exact ⟨by decide, by decide, by rfl, by decide, by decide⟩

theorem plain_teen (one : Word) (zwo : Bool) (b : Nat) (h9 : b < 10) :
    Plain (De.unitWord one zwo (10 + b)) (.put [1, b]) := by
  rw [unitWord_ne_one one zwo _ (by omega)]
  have : b = 0 ∨ b = 1 ∨ b = 2 ∨ b = 3 ∨ b = 4 ∨ b = 5 ∨ b = 6 ∨ b = 7 ∨ b = 8 ∨ b = 9 := by omega
  rcases this with rfl | rfl | rfl | rfl | rfl | rfl | rfl | rfl | rfl | rfl <;> cases zwo <;>
    exact ⟨by decide, by decide, by rfl, by decide, by decide⟩

theorem plain_tens (v : Var) (g t : Nat) (h2 : 2 ≤ t) (h9 : t < 10) :
    Plain (De.tensWord v g t) (T2N.De.tens t) := by
  unfold De.tensWord
  have : t = 2 ∨ t = 3 ∨ t = 4 ∨ t = 5 ∨ t = 6 ∨ t = 7 ∨ t = 8 ∨ t = 9 := by omega
  rcases this with rfl | rfl | rfl | rfl | rfl | rfl | rfl | rfl <;>
    cases flag v (cp g 0) <;> exact ⟨by decide, by decide, by rfl, by decide, by decide⟩

theorem plain_und : Plain w!"und" (.fail .incomplete) := ⟨by decide, by decide, by rfl, by decide, by decide⟩
theorem plain_hundert : Plain w!"hundert" T2N.De.hundred := ⟨by decide, by decide, by rfl, by decide, by decide⟩
theorem plain_tausend : Plain w!"tausend" T2N.De.thousand := ⟨by decide, by decide, by rfl, by decide, by decide⟩
theorem plain_million : Plain w!"million" T2N.De.million := ⟨by decide, by decide, by rfl, by decide, by decide⟩
theorem plain_millionen : Plain w!"millionen" T2N.De.million := ⟨by decide, by decide, by rfl, by decide, by decide⟩
theorem plain_milliarde : Plain w!"milliarde" (.shift 9) := ⟨by decide, by decide, by rfl, by decide, by decide⟩
theorem plain_milliarden : Plain w!"milliarden" (.shift 9) := ⟨by decide, by decide, by rfl, by decide, by decide⟩


/-! ## word-step lemmas (frame form) -/

theorem free2_st (N f : Nat) (hN : N % 100 = 0) : (Guard.free 2).eval (st N f false) = true := by
  show ((lsb N).isEmpty && (0 : Nat) == 0 || allZero ((lsb N).take 2)) = true
  by_cases hz : N = 0
  · subst hz; rw [lsb_zero]; rfl
  · obtain ⟨m, rfl⟩ : ∃ m, N = 0 + 10 * (0 + 10 * m) := ⟨N / 100, by omega⟩
    have hm : m ≠ 0 := by omega
    rw [lsb_cons 0 _ (by decide) (Or.inr (by omega)), lsb_cons 0 m (by decide) (Or.inr hm)]
    rfl

/-- a unit word `d` (1..9) on a state whose two low positions are free: adds `d`, sets the flag TENS -/
theorem unit_apply (k : Nat) (w : Word) (d N f : Nat) (hw : Plain w (T2N.De.unit d)) (h0 : d ≠ 0) (h9 : d < 10)
    (hN : N % 100 = 0) :
    De.applyFuel (k + 1) w (st N f false) = (none, st (N + d) 1 false) := by
  rw [applyFuel_plain k w _ _ hw]
  simp only [T2N.De.unit, Act.when, Act.exec]
  rw [if_pos (free2_st N f hN), st_put (put1_lsb d N h0 h9 (by omega))]
  rfl

/-- `eins` (always the last word): adds 1 and freezes -/
theorem eins_apply (k : Nat) (N f : Nat) (hN : N % 100 = 0) :
    De.applyFuel (k + 1) w!"eins" (st N f false) = (none, st (N + 1) 1 true) := by
  rw [applyFuel_eins k]
  simp only [T2N.De.unit, Act.when, Act.exec]
  rw [if_pos (free2_st N f hN), st_put (put1_lsb 1 N (by decide) (by decide) (by omega))]
  rfl

/-- `zehn` … `neunzehn`: `put [1, b]` -/
theorem teen_apply (k : Nat) (w : Word) (b N f : Nat) (hw : Plain w (.put [1, b])) (hb : b < 10)
    (hN : N % 100 = 0) :
    De.applyFuel (k + 1) w (st N f false) = (none, st (N + (10 + b)) 0 false) := by
  rw [applyFuel_plain k w _ _ hw]
  have hx : (Act.put [1, b]).exec (st N f false) = (none, st (N + (10 + b)) f false, 0) := by
    simp only [Act.exec]
    rw [st_put (put2_lsb 1 b N (by decide) (by decide) hb hN)]
  rw [hx]
  rfl

/-- `putDigitAt t 1` on a state whose tens position is free (the unit position is arbitrary) -/
theorem putAt1_lsb (t N f : Nat) (h0 : t ≠ 0) (h9 : t < 10) (hN : N / 10 % 10 = 0) :
    (st N f false).putDigitAt t 1 = (none, st (N + 10 * t) f false) := by
  have ht : (t == 0) = false := by simpa using h0
  unfold DS.putDigitAt st
  dsimp only
  rw [if_neg Bool.false_ne_true, if_neg (by rw [ht]; exact Bool.false_ne_true)]
  by_cases hz : N < 10
  · -- at most one digit in the buffer
    by_cases hz0 : N = 0
    · subst hz0
      have e : 0 + 10 * t = 0 + 10 * (t + 10 * 0) := by omega
      rw [e, lsb_cons 0 _ (by decide) (Or.inr (by omega)), lsb_cons t 0 h9 (Or.inl h0)]
      simp [lsb_zero]
    · have e : N + 10 * t = N + 10 * (t + 10 * 0) := by omega
      rw [e, lsb_cons N _ hz (Or.inl hz0), lsb_cons t 0 h9 (Or.inl h0)]
      simp [lsb_zero, lsb_digit N hz hz0]
  · obtain ⟨u, m, rfl, hu, hm⟩ : ∃ u m, N = u + 10 * (0 + 10 * m) ∧ u < 10 ∧ m ≠ 0 :=
      ⟨N % 10, N / 100, by omega, by omega, by omega⟩
    have e : u + 10 * (0 + 10 * m) + 10 * t = u + 10 * (t + 10 * m) := by omega
    rw [e, lsb_cons u (t + 10 * m) hu (Or.inr (by omega)), lsb_cons t m h9 (Or.inl h0),
      lsb_cons u (0 + 10 * m) hu (Or.inr (by omega)), lsb_cons 0 m (by decide) (Or.inr hm)]
    simp

/-- a tens word `t` (2..9) when the flag TENS is not set: digit `t` at position 1 -/
theorem tens_apply (k : Nat) (w : Word) (t N : Nat) (hw : Plain w (T2N.De.tens t)) (h0 : t ≠ 0) (h9 : t < 10)
    (hN : N / 10 % 10 = 0) :
    De.applyFuel (k + 1) w (st N 0 false) = (none, st (N + 10 * t) 0 false) := by
  rw [applyFuel_plain k w _ _ hw]
  simp only [T2N.De.tens, Act.when, Act.exec]
  have hg : (Guard.neg (.flag 1)).eval (st N 0 false) = true := by
    show (!(hasBits 0 1)) = true
    decide
  rw [if_pos hg, putAt1_lsb t N 0 h0 h9 hN]
  rfl

/-- `und`: always `Incomplete`; the error path resets the flags -/
theorem und_apply (k : Nat) (N f : Nat) :
    De.applyFuel (k + 1) w!"und" (st N f false) = (some .incomplete, st N 0 false) := by
  rw [applyFuel_plain k _ _ _ plain_und]
  rfl


/-! ### hundert -/

theorem shift2_lsb (d N : Nat) (h0 : d ≠ 0) (h9 : d < 10) (hN : N % 1000 = d) :
    (C01En.mk (lsb N)).shift 2 = (none, C01En.mk (lsb (N + 99 * d))) := by
  by_cases hz : N = d
  · subst hz
    have e : N + 99 * N = N * 10 ^ 2 := by omega
    rw [e, lsb_mul_pow N 2 h0, lsb_digit N h9 h0, shift_top [N] 2 (by simp) (by simp) (by decide)]
  · obtain ⟨m, rfl⟩ : ∃ m, N = d + 10 * (0 + 10 * (0 + 10 * m)) := ⟨N / 1000, by omega⟩
    have hm : m ≠ 0 := by omega
    have e : d + 10 * (0 + 10 * (0 + 10 * m)) + 99 * d = 0 + 10 * (0 + 10 * (d + 10 * m)) := by omega
    rw [e, lsb_cons d _ h9 (Or.inl h0), lsb_cons 0 _ (by decide) (Or.inr (by omega)),
      lsb_cons 0 m (by decide) (Or.inr hm), lsb_cons 0 _ (by decide) (Or.inr (by omega)),
      lsb_cons 0 _ (by decide) (Or.inr (by omega)), lsb_cons d m h9 (Or.inl h0)]
    have hs : DS.shiftSig ([d] ++ List.replicate 1 0) = [d] := by
      simp [DS.shiftSig, h0]
    exact shift_frame [d] (lsb m) 1 hs (by simp)

theorem hundert_guard (N f : Nat) (hN : N % 1000 < 10) :
    (Guard.or (.peekLen 2 1) (.peekLt 2 [2, 0])).eval (st N f false) = true := by
  show ((((lsb N).take 2).reverse.length == 1) || lexLt ((lsb N).take 2).reverse [2, 0]) = true
  by_cases hz : N = 0
  · subst hz; rw [lsb_zero]; rfl
  · by_cases hd : N < 10
    · rw [lsb_digit N hd hz]; rfl
    · obtain ⟨d, m, rfl, hd9, hm⟩ : ∃ d m, N = d + 10 * (0 + 10 * m) ∧ d < 10 ∧ m ≠ 0 :=
        ⟨N % 10, N / 100, by omega, by omega, by omega⟩
      rw [lsb_cons d _ hd9 (Or.inr (by omega)), lsb_cons 0 m (by decide) (Or.inr hm)]
      rfl

/-- `hundert` after a unit `d` (arbitrary part above the hundreds group) -/
theorem hundert_apply (k : Nat) (d N f : Nat) (h0 : d ≠ 0) (h9 : d < 10) (hN : N % 1000 = d) :
    De.applyFuel (k + 1) w!"hundert" (st N f false) = (none, st (N + 99 * d) 0 false) := by
  rw [applyFuel_plain k _ _ _ plain_hundert]
  have hx : T2N.De.hundred.exec (st N f false) = (none, st (N + 99 * d) f false, 0) := by
    simp only [T2N.De.hundred, Act.exec]
    rw [if_pos (hundert_guard N f (by omega)), st_shift (shift2_lsb d N h0 h9 hN)]
  rw [hx]
  rfl

theorem lsb_pow (p : Nat) : lsb (10 ^ p) = List.replicate p 0 ++ [1] := by
  have := lsb_mul_pow 1 p (by decide)
  rw [lsb_digit 1 (by decide) (by decide), Nat.one_mul] at this
  exact this

/-- `hundert` as first word: implicit `ein` -/
theorem hundert_apply_zero (k : Nat) (f : Nat) :
    De.applyFuel (k + 1) w!"hundert" (st 0 f false) = (none, st 100 0 false) := by
  rw [applyFuel_plain k _ _ _ plain_hundert]
  have hs : (C01En.mk (lsb 0)).shift 2 = (none, C01En.mk (lsb 100)) := by
    rw [show (100 : Nat) = 10 ^ 2 from rfl, lsb_pow, lsb_zero]
    exact shift_empty 2 (by decide)
  have hx : T2N.De.hundred.exec (st 0 f false) = (none, st 100 f false, 0) := by
    simp only [T2N.De.hundred, Act.exec]
    rw [if_pos (hundert_guard 0 f (by decide)), st_shift hs]
  rw [hx]
  rfl

/-! ### tausend, million(en), milliarde(n) -/

theorem shift_zero_lsb (p : Nat) (hp : p ≠ 0) : (C01En.mk (lsb 0)).shift p = (none, C01En.mk (lsb (10 ^ p))) := by
  rw [lsb_pow, lsb_zero]
  exact shift_empty p hp

/-- the action of a scale word (`when (rangeFree p (p+2)) (shift p)` or plain `shift p`) on a state whose
low `p + 3` positions hold only the group `g` -/
theorem scale_exec (p N0 g f : Nat) (hp : 3 ≤ p) (hN : N0 % 10 ^ (p + 3) = 0) (g0 : g ≠ 0) (g1 : g < 1000) :
    (Guard.rangeFree p (p + 2)).eval (st (N0 + g) f false) = true ∧
    (st (N0 + g) f false).shift p = (none, st (N0 + g * 10 ^ p) f false) := by
  obtain ⟨A, rfl⟩ : ∃ A, N0 = 10 ^ (p + 3) * A := ⟨N0 / 10 ^ (p + 3), by
    rw [Nat.mul_comm, Nat.div_mul_cancel (Nat.dvd_of_mod_eq_zero hN)]⟩
  rw [Nat.add_comm _ g, Nat.add_comm _ (g * _)]
  exact ⟨rangeFree_lsb p g A hp g1, st_shift (shift_lsb p g A hp g0 g1)⟩

theorem tausend_apply (k : Nat) (N0 g f : Nat) (hN : N0 % 10 ^ 6 = 0) (g0 : g ≠ 0) (g1 : g < 1000) :
    De.applyFuel (k + 1) w!"tausend" (st (N0 + g) f false) = (none, st (N0 + g * 10 ^ 3) 0 false) := by
  rw [applyFuel_plain k _ _ _ plain_tausend]
  obtain ⟨hg, hs⟩ := scale_exec 3 N0 g f (by decide) hN g0 g1
  have hx : T2N.De.thousand.exec (st (N0 + g) f false) = (none, st (N0 + g * 10 ^ 3) f false, 0) := by
    simp only [T2N.De.thousand, Act.when, Act.exec]
    rw [if_pos hg, hs]
  rw [hx]
  rfl

theorem tausend_apply_zero (k : Nat) (f : Nat) :
    De.applyFuel (k + 1) w!"tausend" (st 0 f false) = (none, st (10 ^ 3) 0 false) := by
  rw [applyFuel_plain k _ _ _ plain_tausend]
  have hg : (Guard.rangeFree 3 5).eval (st 0 f false) = true := by
    show (decide (3 ≥ (lsb 0).length) || allZero (((lsb 0).drop 3).take (5 + 1 - 3))) = true
    rw [lsb_zero]; rfl
  have hx : T2N.De.thousand.exec (st 0 f false) = (none, st (10 ^ 3) f false, 0) := by
    simp only [T2N.De.thousand, Act.when, Act.exec]
    rw [if_pos hg, st_shift (shift_zero_lsb 3 (by decide))]
  rw [hx]
  rfl

theorem million_apply (k : Nat) (w : Word) (N0 g f : Nat) (hw : Plain w T2N.De.million) (hN : N0 % 10 ^ 9 = 0)
    (g0 : g ≠ 0) (g1 : g < 1000) :
    De.applyFuel (k + 1) w (st (N0 + g) f false) = (none, st (N0 + g * 10 ^ 6) 0 false) := by
  rw [applyFuel_plain k _ _ _ hw]
  obtain ⟨hg, hs⟩ := scale_exec 6 N0 g f (by decide) hN g0 g1
  have hx : T2N.De.million.exec (st (N0 + g) f false) = (none, st (N0 + g * 10 ^ 6) f false, 0) := by
    simp only [T2N.De.million, Act.when, Act.exec]
    rw [if_pos hg, hs]
  rw [hx]
  rfl

theorem milliarde_apply (k : Nat) (w : Word) (N0 g f : Nat) (hw : Plain w (.shift 9)) (hN : N0 % 10 ^ 12 = 0)
    (g0 : g ≠ 0) (g1 : g < 1000) :
    De.applyFuel (k + 1) w (st (N0 + g) f false) = (none, st (N0 + g * 10 ^ 9) 0 false) := by
  rw [applyFuel_plain k _ _ _ hw]
  obtain ⟨_, hs⟩ := scale_exec 9 N0 g f (by decide) hN g0 g1
  have hx : (Act.shift 9).exec (st (N0 + g) f false) = (none, st (N0 + g * 10 ^ 9) f false, 0) := by
    simp only [Act.exec]
    rw [hs]
  rw [hx]
  rfl


/-! ## sequences of words -/

/-- running `ws` (then anything) from builder `b` is running the rest from builder `b'`
(interpreter with fuel `k + 1`: `k = 1` is `De.apply`, `k = 0` the interpreter of the pieces of a compound) -/
def Steps (k : Nat) (ws : List Word) (b b' : DS) : Prop :=
  ∀ rest, execGroupFrom (De.applyFuel (k + 1)) (ws ++ rest) b false =
    execGroupFrom (De.applyFuel (k + 1)) rest b' false

theorem Steps.nil (k : Nat) (b : DS) : Steps k [] b b := fun _ => rfl

theorem Steps.append {k : Nat} {x y : List Word} {b b' b'' : DS} (h1 : Steps k x b b') (h2 : Steps k y b' b'') :
    Steps k (x ++ y) b b'' := by
  intro rest; rw [List.append_assoc, h1, h2]

theorem Steps.single {k : Nat} {w : Word} {b b' : DS} (h : De.applyFuel (k + 1) w b = (none, b')) :
    Steps k [w] b b' := by
  intro rest
  rw [List.singleton_append, execGroupFrom, h]

theorem Steps.cons {k : Nat} {w : Word} {ws : List Word} {b b' b'' : DS}
    (h : De.applyFuel (k + 1) w b = (none, b')) (h2 : Steps k ws b' b'') : Steps k (w :: ws) b b'' :=
  Steps.append (Steps.single h) h2

/-- `und` is accepted as `Incomplete`, resets the flags, and the next word clears the `Incomplete` status -/
theorem Steps.und {k : Nat} {ws : List Word} {N f : Nat} {b' : DS} (h : Steps k ws (st N 0 false) b')
    (hne : ws ≠ []) : Steps k (w!"und" :: ws) (st N f false) b' := by
  intro rest
  obtain ⟨w, ws', rfl⟩ := List.exists_cons_of_ne_nil hne
  rw [List.cons_append, execGroupFrom, und_apply k N f]
  dsimp only
  have := h rest
  rw [List.cons_append, execGroupFrom] at this
  rw [List.cons_append, execGroupFrom]
  exact this

/-! ## the flat spelling (every atom its own word), group by group -/

/-- the words of a list of atoms -/
def ws (as : List De.Atom) : List Word := as.map (·.w)

theorem ws_append (x y : List De.Atom) : ws (x ++ y) = ws x ++ ws y := List.map_append

theorem ws_setLastB (b : Nat) : ∀ as : List De.Atom, ws (De.setLastB b as) = ws as
  | [] => rfl
  | [_] => rfl
  | a :: c :: rest => by
    have := ws_setLastB b (c :: rest)
    unfold ws at this ⊢
    rw [De.setLastB, List.map_cons, this]
    · rfl
    · exact fun h => List.cons_ne_nil _ _ h

/-- the multiplier / unit word in a position where 1 is spelled `ein` -/
theorem unitw_apply (k : Nat) (zwo : Bool) (d N f : Nat) (h0 : d ≠ 0) (h9 : d < 10) (hN : N % 100 = 0) :
    De.applyFuel (k + 1) (De.unitWord w!"ein" zwo d) (st N f false) = (none, st (N + d) 1 false) := by
  by_cases h1 : d = 1
  · subst h1
    exact unit_apply k _ 1 N f plain_ein h0 h9 hN
  · exact unit_apply k _ d N f (plain_unit _ zwo d (by omega) h9) h0 h9 hN

/-! equations of `De.below100` -/

theorem below100_lt20 (v : Var) (g r : Nat) (one : Word) (h : r < 20) :
    De.below100 v g r one = [⟨De.unitWord one (flag v (cp g 1)) r, 3⟩] := by
  unfold De.below100
  dsimp only
  rw [if_pos h]

theorem below100_tens (v : Var) (g r : Nat) (one : Word) (h : ¬ r < 20) (hu : r % 10 = 0) :
    De.below100 v g r one = [⟨De.tensWord v g (r / 10), 3⟩] := by
  unfold De.below100
  dsimp only
  rw [if_neg h, if_pos (by simp [hu])]

theorem below100_comp (v : Var) (g r : Nat) (one : Word) (h : ¬ r < 20) (hu : r % 10 ≠ 0) :
    De.below100 v g r one =
      [⟨De.unitWord w!"ein" (flag v (cp g 1)) (r % 10), 3⟩, ⟨w!"und", 3⟩, ⟨De.tensWord v g (r / 10), 3⟩] := by
  unfold De.below100
  dsimp only
  rw [if_neg h, if_neg (by simp [hu])]

/-- flags / frozen after the tens-unit part `r` -/
def blF (r : Nat) : Nat := if r < 10 then 1 else 0
def blZ (r : Nat) (one : Word) : Bool := r == 1 && one == w!"eins"

theorem blZ_ein (r : Nat) : blZ r w!"ein" = false := by
  unfold blZ; rw [show (w!"ein" == w!"eins") = false by decide]; simp

/-- a lone word below 20 (`one` is the spelling of 1) -/
theorem lone_apply (k : Nat) (zwo : Bool) (r : Nat) (one : Word) (N : Nat) (h0 : r ≠ 0) (h1 : r < 20)
    (hN : N % 100 = 0) (hone : one = w!"ein" ∨ one = w!"eins") :
    De.applyFuel (k + 1) (De.unitWord one zwo r) (st N 0 false) = (none, st (N + r) (blF r) (blZ r one)) := by
  by_cases h10 : r < 10
  · have hf : blF r = 1 := by unfold blF; rw [if_pos h10]
    rw [hf]
    by_cases hr1 : r = 1
    · subst hr1
      rcases hone with rfl | rfl
      · exact unit_apply k _ 1 N 0 plain_ein h0 h10 hN
      · exact eins_apply k N 0 hN
    · have hz : blZ r one = false := by unfold blZ; simp [hr1]
      rw [hz]
      exact unit_apply k _ r N 0 (plain_unit _ _ r (by omega) h10) h0 h10 hN
  · have hf : blF r = 0 := by unfold blF; rw [if_neg h10]
    have hz : blZ r one = false := by unfold blZ; simp; omega
    rw [hf, hz]
    obtain ⟨b, rfl⟩ : ∃ b, r = 10 + b := ⟨r - 10, by omega⟩
    exact teen_apply k _ b N 0 (plain_teen _ _ b (by omega)) (by omega) hN

theorem tensw_apply (k : Nat) (v : Var) (g r N : Nat) (h : ¬ r < 20) (h1 : r < 100) (hN : N / 10 % 10 = 0) :
    De.applyFuel (k + 1) (De.tensWord v g (r / 10)) (st N 0 false) = (none, st (N + 10 * (r / 10)) 0 false) :=
  tens_apply k _ (r / 10) N (plain_tens v g (r / 10) (by omega) (by omega)) (by omega) (by omega) hN

theorem below100_ne_nil (v : Var) (g r : Nat) (one : Word) : ws (De.below100 v g r one) ≠ [] := by
  unfold De.below100
  dsimp only
  split
  · simp [ws]
  · split <;> simp [ws]

theorem below100_steps (k : Nat) (v : Var) (g r : Nat) (one : Word) (N : Nat) (h0 : r ≠ 0) (h1 : r < 100)
    (hN : N % 100 = 0) (hone : one = w!"ein" ∨ one = w!"eins") :
    Steps k (ws (De.below100 v g r one)) (st N 0 false) (st (N + r) (blF r) (blZ r one)) := by
  by_cases h20 : r < 20
  · rw [below100_lt20 v g r one h20]
    exact Steps.single (lone_apply k _ r one N h0 h20 hN hone)
  · have hf : blF r = 0 := by unfold blF; rw [if_neg (by omega)]
    have hz : blZ r one = false := by unfold blZ; simp; omega
    rw [hf, hz]
    by_cases hu : r % 10 = 0
    · rw [below100_tens v g r one h20 hu]
      have := tensw_apply k v g r N h20 h1 (by omega)
      have e : N + 10 * (r / 10) = N + r := by omega
      rw [e] at this
      exact Steps.single this
    · rw [below100_comp v g r one h20 hu]
      have s1 := unitw_apply k (flag v (cp g 1)) (r % 10) N 0 hu (by omega) hN
      have s3 := tensw_apply k v g r (N + r % 10) h20 h1 (by omega)
      have e : N + r % 10 + 10 * (r / 10) = N + r := by omega
      rw [e] at s3
      exact Steps.cons s1 (Steps.und (Steps.single s3) (by simp))

/-- the hundreds part of a group -/
def hsA (v : Var) (g h : Nat) (first : Bool) : List De.Atom :=
  if h == 0 then []
  else if h == 1 && first && flag v (cp g 4) then [⟨w!"hundert", 2⟩]
  else [⟨De.unitWord w!"ein" (flag v (cp g 2)) h, if flag v (cp g 8) then 9 else 2⟩, ⟨w!"hundert", 2⟩]

/-- the optional `und` after `hundert` -/
def linkA (v : Var) (g h r : Nat) : List De.Atom :=
  if h != 0 && r != 0 && (r < 20 || r % 10 == 0) && flag v (cp g 3) then [⟨w!"und", 2⟩] else []

/-- the tens-unit part of a group -/
def blA (v : Var) (g r : Nat) (one : Word) : List De.Atom :=
  if r == 0 then [] else De.below100 v g r one

theorem group_eq (v : Var) (g n : Nat) (first : Bool) (one : Word) :
    De.group v g n first one = hsA v g (n / 100) first ++ linkA v g (n / 100) (n % 100) ++ blA v g (n % 100) one := rfl

theorem hsA_steps (k : Nat) (v : Var) (g h : Nat) (first : Bool) (N : Nat) (h9 : h < 10) (hN : N % 1000 = 0)
    (hf : first = true → N = 0) :
    Steps k (ws (hsA v g h first)) (st N 0 false) (st (N + 100 * h) 0 false) := by
  unfold hsA
  by_cases hh : h = 0
  · subst hh
    exact Steps.nil k _
  · rw [if_neg (by simpa using hh)]
    by_cases hc : (h == 1 && first && flag v (cp g 4)) = true
    · rw [if_pos hc]
      simp only [Bool.and_eq_true, beq_iff_eq] at hc
      have hN0 : N = 0 := hf hc.1.2
      subst hN0
      rw [hc.1.1]
      exact Steps.single (hundert_apply_zero k 0)
    · rw [if_neg hc]
      have s1 := unitw_apply k (flag v (cp g 2)) h N 0 hh h9 (by omega)
      have s2 := hundert_apply k h (N + h) 1 hh h9 (by omega)
      have e : N + h + 99 * h = N + 100 * h := by omega
      rw [e] at s2
      exact Steps.cons s1 (Steps.single s2)

/-- flags after a group -/
def grF (n : Nat) : Nat := if n % 100 = 0 then 0 else blF (n % 100)

/-- **per-group theorem (flat spelling)**: a group `1 ≤ n ≤ 999` spelled atom by atom on a state whose
three low positions are free (arbitrary higher part, flags clear) adds `n` -/
theorem group_steps (k : Nat) (v : Var) (g n : Nat) (first : Bool) (one : Word) (N : Nat)
    (n1 : n < 1000) (hN : N % 1000 = 0) (hf : first = true → N = 0) (hone : one = w!"ein" ∨ one = w!"eins") :
    Steps k (ws (De.group v g n first one)) (st N 0 false) (st (N + n) (grF n) (blZ (n % 100) one)) := by
  rw [group_eq, ws_append, ws_append]
  have sh := hsA_steps k v g (n / 100) first N (by omega) hN hf
  unfold grF
  by_cases hr : n % 100 = 0
  · have hl : linkA v g (n / 100) (n % 100) = [] := by
      unfold linkA; rw [if_neg (by simp [hr])]
    have hb : blA v g (n % 100) one = [] := by
      unfold blA; rw [if_pos (by simp [hr])]
    have hz : blZ (n % 100) one = false := by rw [hr]; rfl
    rw [hl, hb, if_pos hr, hz]
    have e : N + 100 * (n / 100) = N + n := by omega
    rw [e] at sh
    simpa [ws] using sh
  · have hb : blA v g (n % 100) one = De.below100 v g (n % 100) one := by
      unfold blA; rw [if_neg (by simp [hr])]
    rw [hb, if_neg hr]
    have sb := below100_steps k v g (n % 100) one (N + 100 * (n / 100)) hr (by omega) (by omega) hone
    have hne := below100_ne_nil v g (n % 100) one
    have e : N + 100 * (n / 100) + n % 100 = N + n := by omega
    rw [e] at sb
    unfold linkA
    by_cases hc : (n / 100 != 0 && n % 100 != 0 && (decide (n % 100 < 20) || n % 100 % 10 == 0) && flag v (cp g 3)) = true
    · rw [if_pos hc, List.append_assoc]
      exact Steps.append sh (Steps.und sb hne)
    · rw [if_neg hc]
      exact Steps.append (Steps.append sh (Steps.nil k _)) sb

/-! ## composition over the four groups (flat spelling) -/

/-- the `ein` variant of `ein(e) Million / Milliarde` (the value `eine` is a known defect of the library) -/
def EinVariant (v : Var) : Prop := flag v (cp 2 5) = true ∧ flag v (cp 3 5) = true

/-! equations of `De.scaled` -/

theorem scaled_zero (v : Var) (g : Nat) (first : Bool) : De.scaled v g 0 first = [] := rfl

theorem scaled1_drop (v : Var) (n : Nat) (first : Bool) (hc : (n == 1 && first && flag v (cp 1 5)) = true) :
    De.scaled v 1 n first = [⟨w!"tausend", 1⟩] := by
  have hn : ¬ ((n == 0) = true) := by
    simp only [Bool.and_eq_true, beq_iff_eq] at hc
    rw [hc.1.1]; decide
  unfold De.scaled
  rw [if_neg hn, if_pos (show ((1 : Nat) == 1) = true from rfl), if_pos hc]

theorem scaled1_full (v : Var) (n : Nat) (first : Bool) (hn : n ≠ 0)
    (hc : ¬ (n == 1 && first && flag v (cp 1 5)) = true) :
    De.scaled v 1 n first =
      De.setLastB (if flag v (cp 1 9) then 2 else 1) (De.group v 1 n first w!"ein") ++ [⟨w!"tausend", 1⟩] := by
  unfold De.scaled
  rw [if_neg (by simpa using hn), if_pos (show ((1 : Nat) == 1) = true from rfl), if_neg hc]

/-- singular / plural scale noun of group 2 and 3 -/
def sgW (g : Nat) : Word := if g == 2 then w!"million" else w!"milliarde"
def plW (g : Nat) : Word := if g == 2 then w!"millionen" else w!"milliarden"

theorem scaledM_one (v : Var) (g : Nat) (first : Bool) (hg : g ≠ 1) :
    De.scaled v g 1 first = [⟨if flag v (cp g 5) then w!"ein" else w!"eine", 0⟩, ⟨sgW g, 0⟩] := by
  unfold De.scaled
  rw [if_neg (by decide), if_neg (by simpa using hg)]
  rfl

theorem scaledM_full (v : Var) (g n : Nat) (first : Bool) (hg : g ≠ 1) (hn : n ≠ 0) (h1 : n ≠ 1) :
    De.scaled v g n first = De.setLastB 0 (De.group v g n first w!"ein") ++ [⟨plW g, 0⟩] := by
  unfold De.scaled
  rw [if_neg (by simpa using hn), if_neg (by simpa using hg)]
  dsimp only
  rw [if_neg (by simpa using h1)]
  rfl

theorem plain_sgW (g : Nat) (hg : g = 2 ∨ g = 3) :
    Plain (sgW g) (if g = 2 then T2N.De.million else .shift 9) := by
  rcases hg with rfl | rfl
  · exact plain_million
  · exact plain_milliarde

/-- the scale noun of group `g = 2, 3` (singular or plural) -/
theorem scaleM_apply (k : Nat) (w : Word) (g N0 n f : Nat) (hg : g = 2 ∨ g = 3) (hw : w = sgW g ∨ w = plW g)
    (hN : N0 % 10 ^ (3 * g + 3) = 0) (n0 : n ≠ 0) (n1 : n < 1000) :
    De.applyFuel (k + 1) w (st (N0 + n) f false) = (none, st (N0 + n * 10 ^ (3 * g)) 0 false) := by
  rcases hg with rfl | rfl
  · rcases hw with rfl | rfl
    · exact million_apply k _ N0 n f plain_million hN n0 n1
    · exact million_apply k _ N0 n f plain_millionen hN n0 n1
  · rcases hw with rfl | rfl
    · exact milliarde_apply k _ N0 n f plain_milliarde hN n0 n1
    · exact milliarde_apply k _ N0 n f plain_milliarden hN n0 n1

theorem scaled_steps (k : Nat) (v : Var) (g n : Nat) (first : Bool) (N : Nat) (hg : g = 1 ∨ g = 2 ∨ g = 3)
    (n1 : n < 1000) (hN : N % 10 ^ (3 * g + 3) = 0) (hf : first = true → N = 0) (hv : EinVariant v) :
    Steps k (ws (De.scaled v g n first)) (st N 0 false) (st (N + n * 10 ^ (3 * g)) 0 false) := by
  by_cases hn : n = 0
  · subst hn
    rw [scaled_zero, Nat.zero_mul, Nat.add_zero]
    exact Steps.nil k (st N 0 false)
  · have hN3 : N % 1000 = 0 := mod1000_of_pow g N hN
    by_cases hg1 : g = 1
    · subst hg1
      by_cases hc : (n == 1 && first && flag v (cp 1 5)) = true
      · rw [scaled1_drop v n first hc]
        simp only [Bool.and_eq_true, beq_iff_eq] at hc
        have hN0 : N = 0 := hf hc.1.2
        subst hN0
        rw [hc.1.1]
        have := tausend_apply_zero k 0
        exact Steps.single (by simpa using this)
      · rw [scaled1_full v n first hn hc, ws_append, ws_setLastB]
        have sg := group_steps k v 1 n first w!"ein" N n1 hN3 hf (Or.inl rfl)
        rw [blZ_ein] at sg
        exact Steps.append sg (Steps.single (tausend_apply k N n _ hN hn n1))
    · have hg' : g = 2 ∨ g = 3 := by omega
      have hv' : flag v (cp g 5) = true := by
        rcases hg' with rfl | rfl
        · exact hv.1
        · exact hv.2
      by_cases h1 : n = 1
      · subst h1
        rw [scaledM_one v g first hg1, hv']
        exact Steps.cons (unit_apply k _ 1 N 0 plain_ein (by decide) (by decide) (by omega))
          (Steps.single (scaleM_apply k _ g N 1 1 hg' (Or.inl rfl) hN (by decide) (by decide)))
      · rw [scaledM_full v g n first hg1 hn h1, ws_append, ws_setLastB]
        have sg := group_steps k v g n first w!"ein" N n1 hN3 hf (Or.inl rfl)
        rw [blZ_ein] at sg
        exact Steps.append sg (Steps.single (scaleM_apply k _ g N n _ hg' (Or.inr rfl) hN hn n1))


theorem isEmpty_append {α} (a b : List α) : (a ++ b).isEmpty = (a.isEmpty && b.isEmpty) := by
  cases a <;> cases b <;> rfl

theorem setLastB_isEmpty (b : Nat) : ∀ as : List De.Atom, (De.setLastB b as).isEmpty = as.isEmpty
  | [] => rfl
  | [_] => rfl
  | _ :: _ :: _ => rfl

theorem scaled_isEmpty (v : Var) (g n : Nat) (first : Bool) (hg : g = 1 ∨ g = 2 ∨ g = 3) :
    (De.scaled v g n first).isEmpty = (n == 0) := by
  by_cases hn : n = 0
  · subst hn; rfl
  · have hn' : (n == 0) = false := by simpa using hn
    rw [hn']
    by_cases hg1 : g = 1
    · subst hg1
      by_cases hc : (n == 1 && first && flag v (cp 1 5)) = true
      · rw [scaled1_drop v n first hc]; rfl
      · rw [scaled1_full v n first hn hc, isEmpty_append]; simp
    · by_cases h1 : n = 1
      · subst h1; rw [scaledM_one v g first hg1]; rfl
      · rw [scaledM_full v g n first hg1 hn h1, isEmpty_append]; simp

/-- the atoms of the three scaled groups -/
def hiA (v : Var) (n : Nat) : List De.Atom :=
  De.scaled v 3 (n / 1000000000 % 1000) true ++ De.scaled v 2 (n / 1000000 % 1000) (n / 1000000000 % 1000 == 0) ++
    De.scaled v 1 (n / 1000 % 1000) (n / 1000000000 % 1000 == 0 && n / 1000000 % 1000 == 0)

theorem cardinalAtoms_eq (v : Var) (n : Nat) :
    De.cardinalAtoms v n =
      hiA v n ++ (if n % 1000 == 0 then [] else De.group v 0 (n % 1000) (hiA v n).isEmpty w!"eins") := rfl

theorem hiA_isEmpty (v : Var) (n : Nat) :
    (hiA v n).isEmpty = (n / 1000000000 % 1000 == 0 && n / 1000000 % 1000 == 0 && n / 1000 % 1000 == 0) := by
  unfold hiA
  rw [isEmpty_append, isEmpty_append, scaled_isEmpty v 3 _ _ (by omega), scaled_isEmpty v 2 _ _ (by omega),
    scaled_isEmpty v 1 _ _ (by omega)]

theorem cardinalAtoms_steps (k : Nat) (v : Var) (n : Nat) (h : n < 10 ^ 12) (hv : EinVariant v) :
    Steps k (ws (De.cardinalAtoms v n)) (st 0 0 false) (st n (grF (n % 1000)) (blZ (n % 1000 % 100) w!"eins")) := by
  rw [cardinalAtoms_eq, hiA_isEmpty]
  unfold hiA
  obtain ⟨g3, hg3⟩ : ∃ g3, g3 = n / 1000000000 % 1000 := ⟨_, rfl⟩
  obtain ⟨g2, hg2⟩ : ∃ g2, g2 = n / 1000000 % 1000 := ⟨_, rfl⟩
  obtain ⟨g1, hg1⟩ : ∃ g1, g1 = n / 1000 % 1000 := ⟨_, rfl⟩
  obtain ⟨g0, hg0⟩ : ∃ g0, g0 = n % 1000 := ⟨_, rfl⟩
  rw [← hg3, ← hg2, ← hg1, ← hg0]
  have e3 : (10 : Nat) ^ (3 * 3) = 1000000000 := by decide
  have e2 : (10 : Nat) ^ (3 * 2) = 1000000 := by decide
  have e1 : (10 : Nat) ^ (3 * 1) = 1000 := by decide
  have f3 : (10 : Nat) ^ (3 * 3 + 3) = 1000000000000 := by decide
  have f2 : (10 : Nat) ^ (3 * 2 + 3) = 1000000000 := by decide
  have f1 : (10 : Nat) ^ (3 * 1 + 3) = 1000000 := by decide
  have s3 := scaled_steps k v 3 g3 true 0 (Or.inr (Or.inr rfl)) (by omega) (Nat.zero_mod _) (fun _ => rfl) hv
  have hf2 : (g3 == 0) = true → 0 + g3 * 10 ^ (3 * 3) = 0 := by
    intro hh
    have h0 : g3 = 0 := by simpa using hh
    rw [h0]
  have s2 := scaled_steps k v 2 g2 (g3 == 0) (0 + g3 * 10 ^ (3 * 3)) (Or.inr (Or.inl rfl)) (by omega)
    (by omega) hf2 hv
  have hf1 : (g3 == 0 && g2 == 0) = true → 0 + g3 * 10 ^ (3 * 3) + g2 * 10 ^ (3 * 2) = 0 := by
    intro hh
    simp only [Bool.and_eq_true, beq_iff_eq] at hh
    rw [hh.1, hh.2]
  have s1 := scaled_steps k v 1 g1 (g3 == 0 && g2 == 0) (0 + g3 * 10 ^ (3 * 3) + g2 * 10 ^ (3 * 2))
    (Or.inl rfl) (by omega) (by omega) hf1 hv
  have shi := Steps.append (Steps.append s3 s2) s1
  rw [e3, e2, e1, ← ws_append, ← ws_append] at shi
  rw [ws_append]
  have hsum : 0 + g3 * 1000000000 + g2 * 1000000 + g1 * 1000 + g0 = n := by omega
  by_cases hz0 : g0 = 0
  · rw [if_pos (by simpa using hz0)]
    have e : 0 + g3 * 1000000000 + g2 * 1000000 + g1 * 1000 = n := by omega
    rw [e] at shi
    rw [hz0]
    exact Steps.append shi (Steps.nil k _)
  · rw [if_neg (by simpa using hz0)]
    have hfirst : (g3 == 0 && g2 == 0 && g1 == 0) = true →
        0 + g3 * 1000000000 + g2 * 1000000 + g1 * 1000 = 0 := by
      intro hh
      simp only [Bool.and_eq_true, beq_iff_eq] at hh
      rw [hh.1.1, hh.1.2, hh.2]
    have sg := group_steps k v 0 g0 (g3 == 0 && g2 == 0 && g1 == 0) w!"eins"
      (0 + g3 * 1000000000 + g2 * 1000000 + g1 * 1000) (by omega) (by omega) hfirst (Or.inr rfl)
    rw [hsum] at sg
    exact Steps.append shi sg

/-! ## rendering of the final state -/

theorem validate_of_steps (wds : List Word) (n f : Nat) (z : Bool) (hn : n ≠ 0)
    (hs : Steps 1 wds (st 0 0 false) (st n f z)) :
    T2N.text2digitsWords T2N.De.lang wds = .ok (T2N.Spec.decChars n) := by
  have hs := hs []
  rw [List.append_nil, st_zero] at hs
  have hex : execGroup T2N.De.lang.apply wds = .ok (st n f z) := by
    show execGroupFrom (T2N.De.applyFuel 2) wds DS.new false = _
    rw [hs, execGroupFrom, if_neg Bool.false_ne_true]
  have hne := lsb_ne_nil hn
  have hemp : (st n f z).isEmpty = false := by
    show ((lsb n).isEmpty && (0 : Nat) == 0) = false
    cases hl : lsb n with
    | nil => exact absurd hl hne
    | cons a t => rfl
  have hrender : (st n f z).render = decDigits n := by
    show List.replicate 0 0 ++ (lsb n).reverse = _
    rw [lsb_rev_dec n hn]; rfl
  have hrne : (st n f z).render.isEmpty = false := by
    rw [hrender, ← lsb_rev_dec n hn]
    cases hl : lsb n with
    | nil => exact absurd hl hne
    | cons a t => simp
  unfold text2digitsWords
  rw [hex]
  dsimp only
  rw [hemp, if_neg Bool.false_ne_true]
  unfold Lang.formatW
  rw [hrne, if_neg Bool.false_ne_true]
  show ValOut.ok (renderChars (st n f z)) = _
  unfold renderChars decChars
  rw [hrender]

end T2N.C01De
