/-
  T2N.Lemmas.C01It.Tables — kernel-evaluated finite tables (Italian, C01): for every group 1..999 and every
  choice of the `cento` elision, of the accent and of the apocope, the closed facts about its list of atoms
  (`gToks`): the splitter chain condition, `lemmatize`, and the agreement with the specification's spelling
  (`Spec.It.group` at the glued levels, the accent rule, the apocope).
  These are exhaustive evaluations by `decide +kernel`; everything else in the proof is structural.
-/
import T2N.Lemmas.C01It.Sem

set_option maxRecDepth 1000000

namespace T2N.C01It
open T2N T2N.Spec

/-- a variant function that answers `alt` at every choice point -/
def constVar (alt : Bool) : Var := fun _ => if alt then 1 else 0

def lemOk (w : Word) : Bool := It.lemmatize w == w

/-- the accent rule of the specification with the choice made explicit -/
def accB (a : Bool) (w : Word) : Word :=
  if decide (w.length > 3) && w!"tre".isSuffixOf w && a then w.dropLast ++ ['é'] else w

/-- the accent rule on the last part of a longer word -/
def accP (w : Word) : Word := if w!"tre".isSuffixOf w then w.dropLast ++ ['é'] else w

def mila : Word := w!"mila"
def mille : Word := w!"mille"

/-- the first atom may follow `mila` and `mille` -/
def headOk (G : List Word) : Bool :=
  match G with
  | x :: _ => pairOk mila x && pairOk mille x
  | [] => false

/-- closed facts about the atoms of group `n` (no accent, no apocope) -/
def rowBase (alt : Bool) (n : Nat) : Bool :=
  let G := gToks alt false false n
  let W := flat G
  chainTo G none && lemOk W && chainTo G (some mila) && headOk G && tailOk W &&
  (Spec.It.group (constVar alt) 0 0 n == [W]) &&
  (accB true W == flat (gToks alt (n != 3) false n)) && (accP W == flat (gToks alt true false n)) &&
  decide (3 ≤ W.length)

/-- closed facts about the accented atoms of group `10 j + 3` -/
def rowAcc (alt : Bool) (j : Nat) : Bool :=
  let G := gToks alt true false (10 * j + 3)
  chainTo G none && lemOk (flat G) && headOk G && tailOk (flat G)

/-- closed facts about the apocopated atoms of group `10 j + 1` -/
def rowApo (alt : Bool) (j : Nat) : Bool :=
  let n := 10 * j + 1
  let W := flat (gToks alt false true n)
  chainTo (gToks alt false true n) none && lemOk W &&
  (decide (n % 100 ≤ 20) || ((flat (gToks alt false false n)).dropLast == W && accB true W == W))

/-- the accent rule leaves the atoms below 100 alone when they are separate words -/
def rowAtoms (r : Nat) : Bool := (rToks false false r).map (accB true) == rToks false false r

theorem tblBase_false_0 : checkRange (rowBase false) 1 199 = true := by decide +kernel
theorem tblBase_false_1 : checkRange (rowBase false) 200 200 = true := by decide +kernel
theorem tblBase_false_2 : checkRange (rowBase false) 400 200 = true := by decide +kernel
theorem tblBase_false_3 : checkRange (rowBase false) 600 200 = true := by decide +kernel
theorem tblBase_false_4 : checkRange (rowBase false) 800 200 = true := by decide +kernel

theorem rowBase_false (n : Nat) (h0 : n ≠ 0) (h1 : n < 1000) : rowBase false n = true := by
  by_cases a1 : n < 200
  · exact checkRange_spec _ _ _ tblBase_false_0 n (by omega) (by omega)
  · by_cases a2 : n < 400
    · exact checkRange_spec _ _ _ tblBase_false_1 n (by omega) (by omega)
    · by_cases a3 : n < 600
      · exact checkRange_spec _ _ _ tblBase_false_2 n (by omega) (by omega)
      · by_cases a4 : n < 800
        · exact checkRange_spec _ _ _ tblBase_false_3 n (by omega) (by omega)
        · exact checkRange_spec _ _ _ tblBase_false_4 n (by omega) (by omega)

theorem tblAcc_false : checkRange (rowAcc false) 0 100 = true := by decide +kernel
theorem tblApo_false : checkRange (rowApo false) 0 100 = true := by decide +kernel

theorem tblBase_true_0 : checkRange (rowBase true) 1 199 = true := by decide +kernel
theorem tblBase_true_1 : checkRange (rowBase true) 200 200 = true := by decide +kernel
theorem tblBase_true_2 : checkRange (rowBase true) 400 200 = true := by decide +kernel
theorem tblBase_true_3 : checkRange (rowBase true) 600 200 = true := by decide +kernel
theorem tblBase_true_4 : checkRange (rowBase true) 800 200 = true := by decide +kernel

theorem rowBase_true (n : Nat) (h0 : n ≠ 0) (h1 : n < 1000) : rowBase true n = true := by
  by_cases a1 : n < 200
  · exact checkRange_spec _ _ _ tblBase_true_0 n (by omega) (by omega)
  · by_cases a2 : n < 400
    · exact checkRange_spec _ _ _ tblBase_true_1 n (by omega) (by omega)
    · by_cases a3 : n < 600
      · exact checkRange_spec _ _ _ tblBase_true_2 n (by omega) (by omega)
      · by_cases a4 : n < 800
        · exact checkRange_spec _ _ _ tblBase_true_3 n (by omega) (by omega)
        · exact checkRange_spec _ _ _ tblBase_true_4 n (by omega) (by omega)

theorem tblAcc_true : checkRange (rowAcc true) 0 100 = true := by decide +kernel
theorem tblApo_true : checkRange (rowApo true) 0 100 = true := by decide +kernel

theorem tblAtoms : checkRange rowAtoms 0 100 = true := by decide +kernel

theorem rowBase_all (alt : Bool) (n : Nat) (h0 : n ≠ 0) (h1 : n < 1000) : rowBase alt n = true := by
  cases alt
  · exact rowBase_false n h0 h1
  · exact rowBase_true n h0 h1

theorem rowAcc_all (alt : Bool) (j : Nat) (h : j < 100) : rowAcc alt j = true := by
  cases alt
  · exact checkRange_spec _ _ _ tblAcc_false j (by omega) (by omega)
  · exact checkRange_spec _ _ _ tblAcc_true j (by omega) (by omega)

theorem rowApo_all (alt : Bool) (j : Nat) (h : j < 100) : rowApo alt j = true := by
  cases alt
  · exact checkRange_spec _ _ _ tblApo_false j (by omega) (by omega)
  · exact checkRange_spec _ _ _ tblApo_true j (by omega) (by omega)

theorem rowAtoms_all (r : Nat) (h : r < 100) : rowAtoms r = true :=
  checkRange_spec _ _ _ tblAtoms r (by omega) (by omega)

end T2N.C01It
