/-
  T2N.Lemmas.C01It.Words — Italian: the words of a spelled cardinal as steps on the builder.
  * `gword_step`: the one-word spelling of a group (any elision / accent / apocope variant);
  * `tword_step`: `…mila` glued to its multiplier;
  * `lword_step`: thousands and units glued in one word (`duemilatrecentoquarantacinque`).
-/
import T2N.Lemmas.C01It.Tables

set_option maxRecDepth 100000

namespace T2N.C01It
open T2N T2N.Spec
open T2N.C01En (mk lsb lsb_zero lsb_pos lsb_ne_nil mk_nil)

theorem valueOf_lsb (n : Nat) : DS.valueOf (lsb n) = n := by
  induction n using Nat.strongRecOn with
  | ind n ih =>
    by_cases h : n = 0
    · subst h; rw [lsb_zero]; rfl
    · rw [lsb_pos h, DS.valueOf, ih (n / 10) (by omega)]; omega

theorem StepsF.ne_nil {f : Nat} {ws : List Word} {N N' : Nat} (h : StepsF f ws N N') (hne : N ≠ N') : ws ≠ [] := by
  intro e
  subst e
  have := h []
  rw [List.append_nil, execGroupFrom, if_neg Bool.false_ne_true] at this
  injection this with this
  have e2 : lsb N = lsb N' := congrArg DS.rbuf this
  apply hne
  rw [← valueOf_lsb N, e2, valueOf_lsb]

/-! ### the variants only matter for a final `tre` / `…uno` -/

theorem uTok_acc_irrel (u : Nat) (h : u ≠ 3) : uTok true u = uTok false u := by
  simp [uTok, h]

theorem gToks_acc_irrel (alt apo : Bool) (n : Nat) (h : n % 10 ≠ 3) : gToks alt true apo n = gToks alt false apo n := by
  have h1 : uTok true (n % 100) = uTok false (n % 100) := uTok_acc_irrel _ (by omega)
  have h2 : uTok true (n % 100 % 10) = uTok false (n % 100 % 10) := uTok_acc_irrel _ (by omega)
  unfold gToks rToks eToks
  rw [h1, h2]

theorem gToks_apo_irrel (alt acc : Bool) (n : Nat) (h : n % 10 ≠ 1) : gToks alt acc true n = gToks alt acc false n := by
  have h1 : ∀ t, elTok true t (n % 100 % 10) = elTok false t (n % 100 % 10) := by
    intro t
    simp [elTok, h]
  have h2 : (n % 100 == 81) = false := by simp; omega
  unfold gToks rToks eToks
  rw [h1, h2]
  simp

/-! ### reading the tables -/

theorem lemOk_eq {w : Word} (h : lemOk w = true) : It.lemmatize w = w := by
  unfold lemOk at h; exact beq_iff_eq.mp h

structure BaseFacts (alt : Bool) (n : Nat) : Prop where
  chain : chainTo (gToks alt false false n) none = true
  lem : It.lemmatize (flat (gToks alt false false n)) = flat (gToks alt false false n)
  chainMila : chainTo (gToks alt false false n) (some mila) = true
  head : headOk (gToks alt false false n) = true
  tail : tailOk (flat (gToks alt false false n)) = true
  spec : Spec.It.group (constVar alt) 0 0 n = [flat (gToks alt false false n)]
  accB : accB true (flat (gToks alt false false n)) = flat (gToks alt (n != 3) false n)
  accP : accP (flat (gToks alt false false n)) = flat (gToks alt true false n)
  len : 3 ≤ (flat (gToks alt false false n)).length

theorem baseFacts (alt : Bool) (n : Nat) (h0 : n ≠ 0) (h1 : n < 1000) : BaseFacts alt n := by
  have h := rowBase_all alt n h0 h1
  unfold rowBase at h
  simp only [Bool.and_eq_true, beq_iff_eq, decide_eq_true_eq] at h
  obtain ⟨⟨⟨⟨⟨⟨⟨⟨a1, a2⟩, a3⟩, a4⟩, a5⟩, a6⟩, a7⟩, a8⟩, a9⟩ := h
  exact ⟨a1, lemOk_eq a2, a3, a4, a5, a6, a7, a8, a9⟩

structure VarFacts (G : List Word) : Prop where
  chain : chainTo G none = true
  lem : It.lemmatize (flat G) = flat G

theorem varFacts_ff (alt : Bool) (n : Nat) (h0 : n ≠ 0) (h1 : n < 1000) : VarFacts (gToks alt false false n) :=
  ⟨(baseFacts alt n h0 h1).chain, (baseFacts alt n h0 h1).lem⟩

theorem accFacts (alt : Bool) (n : Nat) (h1 : n < 1000) (h3 : n % 10 = 3) :
    chainTo (gToks alt true false n) none = true ∧
    It.lemmatize (flat (gToks alt true false n)) = flat (gToks alt true false n) ∧
    headOk (gToks alt true false n) = true ∧ tailOk (flat (gToks alt true false n)) = true := by
  have h := rowAcc_all alt (n / 10) (by omega)
  unfold rowAcc at h
  have e : 10 * (n / 10) + 3 = n := by omega
  rw [e] at h
  simp only [Bool.and_eq_true] at h
  obtain ⟨⟨⟨a1, a2⟩, a3⟩, a4⟩ := h
  exact ⟨a1, lemOk_eq a2, a3, a4⟩

theorem varFacts_tf (alt : Bool) (n : Nat) (h0 : n ≠ 0) (h1 : n < 1000) : VarFacts (gToks alt true false n) := by
  by_cases h3 : n % 10 = 3
  · exact ⟨(accFacts alt n h1 h3).1, (accFacts alt n h1 h3).2.1⟩
  · rw [gToks_acc_irrel alt false n h3]; exact varFacts_ff alt n h0 h1

theorem apoFacts (alt : Bool) (n : Nat) (h1 : n < 1000) (h3 : n % 10 = 1) :
    chainTo (gToks alt false true n) none = true ∧
    It.lemmatize (flat (gToks alt false true n)) = flat (gToks alt false true n) ∧
    (20 < n % 100 → (flat (gToks alt false false n)).dropLast = flat (gToks alt false true n) ∧
      accB true (flat (gToks alt false true n)) = flat (gToks alt false true n)) := by
  have h := rowApo_all alt (n / 10) (by omega)
  unfold rowApo at h
  have e : 10 * (n / 10) + 1 = n := by omega
  rw [e] at h
  simp only [Bool.and_eq_true, Bool.or_eq_true, decide_eq_true_eq, beq_iff_eq] at h
  obtain ⟨⟨a1, a2⟩, a3⟩ := h
  refine ⟨a1, lemOk_eq a2, fun h20 => ?_⟩
  rcases a3 with a3 | a3
  · omega
  · exact a3

theorem varFacts_ft (alt : Bool) (n : Nat) (h0 : n ≠ 0) (h1 : n < 1000) : VarFacts (gToks alt false true n) := by
  by_cases h3 : n % 10 = 1
  · exact ⟨(apoFacts alt n h1 h3).1, (apoFacts alt n h1 h3).2.1⟩
  · rw [gToks_apo_irrel alt false n h3]; exact varFacts_ff alt n h0 h1

theorem varFacts (alt acc apo : Bool) (n : Nat) (h0 : n ≠ 0) (h1 : n < 1000) : VarFacts (gToks alt acc apo n) := by
  cases acc
  · cases apo
    · exact varFacts_ff alt n h0 h1
    · exact varFacts_ft alt n h0 h1
  · cases apo
    · exact varFacts_tf alt n h0 h1
    · by_cases h3 : n % 10 = 3
      · rw [gToks_apo_irrel alt true n (by omega)]; exact varFacts_tf alt n h0 h1
      · rw [gToks_acc_irrel alt true n h3]; exact varFacts_ft alt n h0 h1


/-! ### the words -/

theorem pow3 : (10 : Nat) ^ 3 = 1000 := by decide
theorem pow2 : (10 : Nat) ^ 2 = 100 := by decide
theorem pow6 : (10 : Nat) ^ 6 = 1000000 := by decide
theorem pow9 : (10 : Nat) ^ 9 = 1000000000 := by decide

/-- **the one-word spelling of a group** `1 ≤ m ≤ 999` (every elision / accent / apocope variant) on three
free positions — two are enough below 100 -/
theorem gword_step (alt acc apo : Bool) (m N : Nat) (m0 : m ≠ 0) (m1 : m < 1000)
    (hN : N % 1000 = 0 ∨ (m < 100 ∧ N % 100 = 0)) :
    StepsF 1 [flat (gToks alt acc apo m)] N (N + m) := by
  have F := varFacts alt acc apo m m0 m1
  have h0 : StepsF 0 (gToks alt acc apo m) 0 (0 + m) := gToks_steps 0 alt acc apo m 0 m1 (by decide)
  rw [Nat.zero_add] at h0
  have hne := h0.ne_nil (Ne.symm m0)
  rcases hN with hN | ⟨hm, hN⟩
  · exact word_step _ 3 m N hne F.chain F.lem h0 (gToks_steps 1 alt acc apo m N m1 hN) m0
      (by rw [pow3]; exact m1) (Or.inl (Nat.le_refl _)) (by rw [pow3]; exact hN)
  · have h1 : StepsF 1 (gToks alt acc apo m) N (N + m) := by
      rw [gToks_lt100 alt acc apo m hm]; exact rToks_steps 1 acc apo m N hm hN
    exact word_step _ 2 m N hne F.chain F.lem h0 h1 m0 (by rw [pow2]; exact hm) (Or.inl (by decide))
      (by rw [pow2]; exact hN)

theorem lastOk_mila : lastOk mila = true := by decide

theorem mila_step (f N g : Nat) (hN : N % 10 ^ 6 = 0) (g2 : 2 ≤ g) (g1 : g < 1000) :
    StepsF f [mila] (N + g) (N + g * 1000) :=
  StepsF.atom plain_mila (mila_exec N g hN g2 g1)

theorem mille_step (f N : Nat) (hN : N % 10 ^ 6 = 0) : StepsF f [mille] N (N + 1000) :=
  StepsF.atom plain_mille (mille_exec N hN)

/-- atoms of the thousands part -/
def pToks (alt : Bool) (g : Nat) : List Word :=
  if g == 1 then [mille] else gToks alt false false g ++ [mila]

theorem pToks_steps (f : Nat) (alt : Bool) (g N : Nat) (g0 : g ≠ 0) (g1 : g < 1000) (hN : N % 10 ^ 6 = 0) :
    StepsF f (pToks alt g) N (N + g * 1000) := by
  unfold pToks
  by_cases h : g = 1
  · subst h; exact mille_step f N hN
  · rw [if_neg (by simp [h])]
    have hN3 : N % 1000 = 0 := by rw [pow6] at hN; omega
    exact StepsF.append (gToks_steps f alt false false g N g1 hN3) (mila_step f N g hN (by omega) g1)

/-- **`…mila` glued to its multiplier** `2 ≤ m ≤ 999` -/
theorem tword_step (alt : Bool) (m N : Nat) (m2 : 2 ≤ m) (m1 : m < 1000) (hN : N % 10 ^ 6 = 0) :
    StepsF 1 [flat (gToks alt false false m) ++ mila] N (N + m * 1000) := by
  have B := baseFacts alt m (by omega) m1
  have hT : flat (gToks alt false false m ++ [mila]) = flat (gToks alt false false m) ++ mila := by
    rw [flat_append, flat_single]
  have hp : pToks alt m = gToks alt false false m ++ [mila] := by
    unfold pToks; rw [if_neg (by simp; omega)]
  have hchain : chainTo (gToks alt false false m ++ [mila]) none = true := by
    rw [chainTo_append]
    show (chainTo (gToks alt false false m) (some mila) && lastOk mila) = true
    rw [B.chainMila, lastOk_mila]; rfl
  have hlem : It.lemmatize (flat (gToks alt false false m ++ [mila])) = flat (gToks alt false false m ++ [mila]) := by
    rw [hT]; exact lemmatize_append _ mila (Or.inr (by decide)) (by decide)
  have h0 := pToks_steps 0 alt m 0 (by omega) m1 (by decide)
  have h1 := pToks_steps 1 alt m N (by omega) m1 hN
  rw [hp] at h0 h1
  rw [Nat.zero_add] at h0
  have := word_step _ 6 (m * 1000) N (by simp) hchain hlem h0 h1 (by omega) (by rw [pow6]; omega) (Or.inr rfl) hN
  rw [hT] at this
  exact this

/-- facts about the units part of a glued word -/
theorem lowFacts (alt acc : Bool) (n : Nat) (h0 : n ≠ 0) (h1 : n < 1000) :
    chainTo (gToks alt acc false n) none = true ∧ headOk (gToks alt acc false n) = true ∧
      tailOk (flat (gToks alt acc false n)) = true := by
  have B := baseFacts alt n h0 h1
  cases acc
  · exact ⟨B.chain, B.head, B.tail⟩
  · by_cases h3 : n % 10 = 3
    · have A := accFacts alt n h1 h3
      exact ⟨A.1, A.2.2.1, A.2.2.2⟩
    · rw [gToks_acc_irrel alt false n h3]; exact ⟨B.chain, B.head, B.tail⟩

theorem flat_pToks_l (alt : Bool) (g : Nat) : (flat (pToks alt g)).contains 'l' = true := by
  unfold pToks
  by_cases h : g = 1
  · subst h; rw [if_pos (by decide)]; decide
  · rw [if_neg (by simp [h]), flat_append, flat_single, List.contains_iff_mem]
    exact List.mem_append_right _ (by decide)

theorem chainTo_pToks (alt : Bool) (g : Nat) (g0 : g ≠ 0) (g1 : g < 1000) (x : Word)
    (hx : pairOk mila x = true ∧ pairOk mille x = true) : chainTo (pToks alt g) (some x) = true := by
  unfold pToks
  by_cases h : g = 1
  · subst h; exact hx.2
  · rw [if_neg (by simp [h]), chainTo_append]
    show (chainTo (gToks alt false false g) (some mila) && pairOk mila x) = true
    rw [(baseFacts alt g g0 g1).chainMila, hx.1]; rfl

/-- **thousands and units glued in one word** (`duemilatrecentoquarantacinque`, `milleuno`) -/
theorem lword_step (alt1 alt0 acc : Bool) (g1 g0 N : Nat) (a0 : g1 ≠ 0) (a1 : g1 < 1000) (b0 : g0 ≠ 0) (b1 : g0 < 1000)
    (hN : N % 10 ^ 6 = 0) :
    StepsF 1 [flat (pToks alt1 g1) ++ flat (gToks alt0 acc false g0)] N (N + g1 * 1000 + g0) := by
  obtain ⟨c1, c2, c3⟩ := lowFacts alt0 acc g0 b0 b1
  have hT : flat (pToks alt1 g1 ++ gToks alt0 acc false g0) = flat (pToks alt1 g1) ++ flat (gToks alt0 acc false g0) :=
    flat_append _ _
  have hchain : chainTo (pToks alt1 g1 ++ gToks alt0 acc false g0) none = true := by
    rw [chainTo_append]
    cases hG : gToks alt0 acc false g0 with
    | nil => rw [hG] at c2; cases c2
    | cons x rest =>
      rw [hG] at c2 c1
      dsimp only
      unfold headOk at c2
      rw [Bool.and_eq_true] at c2
      rw [chainTo_pToks alt1 g1 a0 a1 x c2, c1]; rfl
  have hlem : It.lemmatize (flat (pToks alt1 g1 ++ gToks alt0 acc false g0)) =
      flat (pToks alt1 g1 ++ gToks alt0 acc false g0) := by
    rw [hT]; exact lemmatize_append _ _ (Or.inl (flat_pToks_l alt1 g1)) c3
  have hN3 : (N + g1 * 1000) % 1000 = 0 := by rw [pow6] at hN; omega
  have h0 : StepsF 0 (pToks alt1 g1 ++ gToks alt0 acc false g0) 0 (0 + g1 * 1000 + g0) :=
    StepsF.append (pToks_steps 0 alt1 g1 0 a0 a1 (by decide))
      (gToks_steps 0 alt0 acc false g0 (0 + g1 * 1000) b1 (by omega))
  have h1 : StepsF 1 (pToks alt1 g1 ++ gToks alt0 acc false g0) N (N + g1 * 1000 + g0) :=
    StepsF.append (pToks_steps 1 alt1 g1 N a0 a1 hN) (gToks_steps 1 alt0 acc false g0 (N + g1 * 1000) b1 hN3)
  have hne : pToks alt1 g1 ++ gToks alt0 acc false g0 ≠ [] := h0.ne_nil (by omega)
  have e : 0 + g1 * 1000 + g0 = g1 * 1000 + g0 := by omega
  rw [e] at h0
  have := word_step _ 6 (g1 * 1000 + g0) N hne hchain hlem h0 (h1.cast (by omega)) (by omega) (by rw [pow6]; omega)
    (Or.inr rfl) hN
  rw [hT] at this
  exact this.cast (by omega)

/-! ### the accent rule on concatenations -/

theorem isPrefixOf_append_long : ∀ (p q r : List Char), p.length ≤ q.length → p.isPrefixOf (q ++ r) = p.isPrefixOf q
  | [], _, _, _ => by simp
  | _ :: _, [], _, h => by simp at h
  | a :: p, b :: q, r, h => by
    rw [List.cons_append, List.isPrefixOf_cons_cons, List.isPrefixOf_cons_cons,
      isPrefixOf_append_long p q r (by simpa using h)]

theorem isSuffixOf_append_long (s X a : List Char) (h : s.length ≤ a.length) :
    s.isSuffixOf (X ++ a) = s.isSuffixOf a := by
  unfold List.isSuffixOf
  rw [List.reverse_append, isPrefixOf_append_long _ _ _ (by simpa using h)]

/-- the accent rule on `P ++ W`: only the last part matters -/
theorem accB_glue (a : Bool) (P W : Word) (hP : P ≠ []) (hW : 3 ≤ W.length) :
    accB a (P ++ W) = P ++ (if a then accP W else W) := by
  have hlen : decide ((P ++ W).length > 3) = true := by
    have : 0 < P.length := List.length_pos_iff.mpr hP
    simp; omega
  have hWne : W ≠ [] := by intro e; rw [e] at hW; simp at hW
  unfold accB accP
  rw [hlen, Bool.true_and, isSuffixOf_append_long w!"tre" P W hW]
  cases a
  · simp
  · by_cases hs : (w!"tre".isSuffixOf W) = true
    · rw [hs]
      simp only [Bool.and_self, if_true]
      rw [List.dropLast_append_of_ne_nil hWne, List.append_assoc]
    · rw [Bool.not_eq_true] at hs
      rw [hs]; simp

/-- words ending in `mila` take no accent -/
theorem accB_mila (a : Bool) (X : Word) : accB a (X ++ mila) = X ++ mila := by
  unfold accB
  rw [isSuffixOf_append_long w!"tre" X mila (by decide)]
  have : (w!"tre".isSuffixOf mila) = false := by decide
  rw [this]; simp

end T2N.C01It
