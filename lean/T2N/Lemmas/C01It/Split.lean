/-
  T2N.Lemmas.C01It.Split — the leftmost-longest compound splitter (`splitWord It.patterns`) on a word that is
  a concatenation of "atoms": a Boolean, kernel-evaluable chain condition (`chainTo`) on the list of atoms
  implies that the splitter returns exactly the atoms (`splitWord_chain`) and that a word of two or more
  atoms is splittable (`isSplittable_chain`). The condition only looks at an atom and the atom that follows
  it (`pairOk`), so it composes along concatenations (`chainTo_append`).
-/
import T2N.Model.It
import T2N.Spec.SpellIt
import T2N.Lemmas.Finite

set_option maxRecDepth 100000
namespace T2N.C01It
open T2N T2N.Spec

/-! ## the leftmost-longest splitter on concatenations of atoms -/

/-- `p` certainly is not a prefix of `known ++ rest`, whatever `rest`: a mismatch inside `known` -/
def clash : Word → Word → Bool
  | p :: ps, k :: ks => p != k || clash ps ks
  | _, _ => false

theorem clash_sound : ∀ (p known : Word), clash p known = true → ∀ rest, p.isPrefixOf (known ++ rest) = false
  | [], _, h => by simp [clash] at h
  | _ :: _, [], h => by simp [clash] at h
  | p :: ps, k :: ks, h => by
    intro rest
    simp only [clash, Bool.or_eq_true, bne_iff_ne, ne_eq] at h
    simp only [List.cons_append, List.isPrefixOf_cons_cons, Bool.and_eq_false_iff, beq_eq_false_iff_ne, ne_eq]
    rcases h with h | h
    · exact Or.inl h
    · exact Or.inr (clash_sound ps ks h rest)

theorem isPrefixOf_append_of (p known rest : Word) (h : p.isPrefixOf known = true) :
    p.isPrefixOf (known ++ rest) = true := by
  rw [List.isPrefixOf_iff_prefix] at h ⊢
  exact List.IsPrefix.trans h (List.prefix_append _ _)

/-- the step function of `longestAt` -/
def laStep (s : Word) (acc : Option Nat) (p : Word) : Option Nat :=
  if p.isPrefixOf s && !p.isEmpty then
    match acc with
    | none => some p.length
    | some n => some (max n p.length)
  else acc

theorem longestAt_eq (pats : List Word) (s : Word) : longestAt pats s = pats.foldl (laStep s) none := rfl

theorem foldl_none (pats : List Word) (s : Word) (acc : Option Nat)
    (h : ∀ p ∈ pats, (p.isPrefixOf s && !p.isEmpty) = false) : pats.foldl (laStep s) acc = acc := by
  induction pats generalizing acc with
  | nil => rfl
  | cons p ps ih =>
    rw [List.foldl_cons]
    have hp := h p (List.mem_cons_self)
    have : laStep s acc p = acc := by unfold laStep; rw [hp]; rfl
    rw [this]
    exact ih acc (fun q hq => h q (List.mem_cons_of_mem _ hq))

/-- no pattern matches at the start of `known ++ rest` -/
def noMatch (pats : List Word) (known : Word) : Bool := pats.all (fun p => clash p known || p.isEmpty)

theorem noMatch_sound (pats : List Word) (known : Word) (h : noMatch pats known = true) (rest : Word) :
    longestAt pats (known ++ rest) = none := by
  rw [longestAt_eq]
  apply foldl_none
  intro p hp
  unfold noMatch at h
  rw [List.all_eq_true] at h
  have := h p hp
  rw [Bool.or_eq_true] at this
  rcases this with h1 | h1
  · rw [clash_sound p known h1 rest]; rfl
  · rw [h1]; simp

theorem foldl_bound (pats : List Word) (s : Word) (n : Nat) (acc : Option Nat)
    (hacc : acc = none ∨ ∃ m, acc = some m ∧ m ≤ n)
    (h : ∀ p ∈ pats, (p.isPrefixOf s && !p.isEmpty) = true → p.length ≤ n) :
    pats.foldl (laStep s) acc = none ∨ ∃ m, pats.foldl (laStep s) acc = some m ∧ m ≤ n := by
  induction pats generalizing acc with
  | nil => exact hacc
  | cons p ps ih =>
    rw [List.foldl_cons]
    apply ih
    · unfold laStep
      by_cases hp : (p.isPrefixOf s && !p.isEmpty) = true
      · rw [if_pos hp]
        have hl := h p List.mem_cons_self hp
        rcases hacc with rfl | ⟨m, rfl, hm⟩
        · exact Or.inr ⟨_, rfl, hl⟩
        · exact Or.inr ⟨_, rfl, Nat.max_le.mpr ⟨hm, hl⟩⟩
      · rw [if_neg hp]; exact hacc
    · exact fun q hq => h q (List.mem_cons_of_mem _ hq)

theorem foldl_ge (pats : List Word) (s : Word) (n : Nat) (acc : Option Nat)
    (hacc : ∃ m, acc = some m ∧ n ≤ m) : ∃ m, pats.foldl (laStep s) acc = some m ∧ n ≤ m := by
  induction pats generalizing acc with
  | nil => exact hacc
  | cons p ps ih =>
    rw [List.foldl_cons]
    apply ih
    obtain ⟨m, rfl, hm⟩ := hacc
    unfold laStep
    by_cases hp : (p.isPrefixOf s && !p.isEmpty) = true
    · rw [if_pos hp]; exact ⟨_, rfl, Nat.le_trans hm (Nat.le_max_left _ _)⟩
    · rw [if_neg hp]; exact ⟨_, rfl, hm⟩

theorem foldl_reach (pats : List Word) (s : Word) (p : Word) (hp : p ∈ pats)
    (hm : (p.isPrefixOf s && !p.isEmpty) = true) (acc : Option Nat) :
    ∃ m, pats.foldl (laStep s) acc = some m ∧ p.length ≤ m := by
  induction pats generalizing acc with
  | nil => cases hp
  | cons q qs ih =>
    rw [List.foldl_cons]
    rcases List.mem_cons.mp hp with rfl | hq
    · apply foldl_ge
      unfold laStep
      rw [if_pos hm]
      cases acc with
      | none => exact ⟨_, rfl, Nat.le_refl _⟩
      | some a => exact ⟨_, rfl, Nat.le_max_right _ _⟩
    · exact ih hq _

/-- the longest pattern at the start of `p ++ known ++ rest` is `p`, whatever `rest` -/
def matchIs (pats : List Word) (p known : Word) : Bool :=
  pats.contains p && !p.isEmpty && pats.all (fun q => clash q (p ++ known) || decide (q.length ≤ p.length))

theorem matchIs_sound (pats : List Word) (p known : Word) (h : matchIs pats p known = true) (rest : Word) :
    longestAt pats (p ++ known ++ rest) = some p.length := by
  unfold matchIs at h
  simp only [Bool.and_eq_true, List.contains_iff_mem, List.all_eq_true, Bool.or_eq_true, decide_eq_true_eq] at h
  obtain ⟨⟨h1, h2⟩, h3⟩ := h
  rw [longestAt_eq]
  have hpm : (p.isPrefixOf (p ++ known ++ rest) && !p.isEmpty) = true := by
    rw [h2, Bool.and_true, List.append_assoc, List.isPrefixOf_iff_prefix]
    exact List.prefix_append _ _
  obtain ⟨m, e, hm⟩ := foldl_reach pats _ p h1 hpm none
  have hb := foldl_bound pats (p ++ known ++ rest) p.length none (Or.inl rfl) (by
    intro q hq hqm
    rcases h3 q hq with hc | hl
    · rw [clash_sound q _ hc rest] at hqm; simp at hqm
    · exact hl)
  rw [e] at hb ⊢
  rcases hb with hb | ⟨m', e', hm'⟩
  · cases hb
  · cases e'; congr 1; omega


/-! ### token chains -/

def flat (ts : List Word) : Word := ts.flatten

theorem flat_nil : flat [] = [] := rfl
theorem flat_cons (a : Word) (ts : List Word) : flat (a :: ts) = a ++ flat ts := rfl
theorem flat_append (xs ys : List Word) : flat (xs ++ ys) = flat xs ++ flat ys := by
  unfold flat; simp
theorem flat_single (a : Word) : flat [a] = a := by simp [flat]

def isPat (a : Word) : Bool := It.patterns.contains a

/-- no pattern matches at any position inside the gap token, when `known` follows -/
def gapOk (pats : List Word) : Word → Word → Bool
  | [], _ => true
  | c :: cs, known => noMatch pats (c :: cs ++ known) && gapOk pats cs known

/-- no pattern matches at any position inside the gap token standing at the end of the word -/
def gapEnd (pats : List Word) : Word → Bool
  | [] => true
  | c :: cs => (longestAt pats (c :: cs)).isNone && gapEnd pats cs

def GapRun : Word → Word → Prop
  | [], _ => True
  | c :: cs, R => longestAt It.patterns (c :: (cs ++ R)) = none ∧ GapRun cs R

theorem gapOk_sound (a known : Word) (h : gapOk It.patterns a known = true) (rest : Word) :
    GapRun a (known ++ rest) := by
  induction a with
  | nil => trivial
  | cons c cs ih =>
    simp only [gapOk, Bool.and_eq_true] at h
    refine ⟨?_, ih h.2⟩
    have := noMatch_sound It.patterns _ h.1 rest
    rw [List.append_assoc] at this
    exact this

theorem gapEnd_sound (a : Word) (h : gapEnd It.patterns a = true) : GapRun a [] := by
  induction a with
  | nil => trivial
  | cons c cs ih =>
    simp only [gapEnd, Bool.and_eq_true, Option.isNone_iff_eq_none] at h
    refine ⟨?_, ih h.2⟩
    rw [List.append_nil]; exact h.1

/-- token `a` followed by token `b` (then anything) is cut out correctly -/
def pairOk (a b : Word) : Bool :=
  if isPat a then matchIs It.patterns a b else (!a.isEmpty && isPat b && gapOk It.patterns a b)

/-- token `a` at the end of the word is cut out correctly -/
def lastOk (a : Word) : Bool :=
  if isPat a then (!a.isEmpty && longestAt It.patterns a == some a.length) else (!a.isEmpty && gapEnd It.patterns a)

/-- every token is cut out correctly; `nx` = the token that follows the list (`none`: end of word) -/
def chainTo : List Word → Option Word → Bool
  | [], _ => true
  | [a], none => lastOk a
  | [a], some b => pairOk a b
  | a :: b :: rest, nx => pairOk a b && chainTo (b :: rest) nx

theorem chainTo_append (A B : List Word) (nx : Option Word) :
    chainTo (A ++ B) nx = (chainTo A (match B with | [] => nx | b :: _ => some b) && chainTo B nx) := by
  induction A with
  | nil => cases B <;> simp [chainTo]
  | cons a A ih =>
    cases A with
    | nil =>
      cases B with
      | nil => simp [chainTo]
      | cons b B => simp [chainTo]
    | cons a' A =>
      simp only [List.cons_append, chainTo] at ih ⊢
      rw [ih, Bool.and_assoc]

theorem splitWordFuel_gapRun (a : Word) : ∀ (R g : Word) (f : Nat), GapRun a R →
    splitWordFuel It.patterns (f + a.length) (a ++ R) g = splitWordFuel It.patterns f R (a.reverse ++ g) := by
  induction a with
  | nil => intro R g f _; rfl
  | cons c cs ih =>
    intro R g f h
    have e : f + (c :: cs).length = (f + cs.length) + 1 := by simp; omega
    rw [e, List.cons_append, splitWordFuel, h.1]
    dsimp only
    rw [ih R (c :: g) f h.2]
    simp

theorem firstMatch_gapRun (a : Word) : ∀ (R : Word) (i : Nat), GapRun a R →
    firstMatch It.patterns (a ++ R) i = firstMatch It.patterns R (i + a.length) := by
  induction a with
  | nil => intro R i _; rfl
  | cons c cs ih =>
    intro R i h
    rw [List.cons_append, firstMatch, h.1]
    dsimp only
    rw [ih R (i + 1) h.2]
    congr 1; simp; omega

/-- what a chain says about its first token -/
theorem chainTo_head (a : Word) (rest : List Word) (h : chainTo (a :: rest) none = true) :
    a ≠ [] ∧ chainTo rest none = true ∧
    (if isPat a then longestAt It.patterns (a ++ flat rest) = some a.length
     else GapRun a (flat rest) ∧ (rest = [] ∨ ∃ b r, rest = b :: r ∧ isPat b = true)) := by
  cases rest with
  | nil =>
    simp only [chainTo, lastOk] at h
    rw [flat_nil, List.append_nil]
    by_cases hp : isPat a = true
    · rw [if_pos hp] at h ⊢
      simp only [Bool.and_eq_true, Bool.not_eq_true', beq_iff_eq] at h
      exact ⟨by intro e; rw [e] at h; simp at h, rfl, h.2⟩
    · rw [if_neg hp] at h ⊢
      simp only [Bool.and_eq_true, Bool.not_eq_true'] at h
      exact ⟨by intro e; rw [e] at h; simp at h, rfl, gapEnd_sound a h.2, Or.inl rfl⟩
  | cons b r =>
    simp only [chainTo, Bool.and_eq_true] at h
    obtain ⟨h1, h2⟩ := h
    unfold pairOk at h1
    rw [flat_cons]
    by_cases hp : isPat a = true
    · rw [if_pos hp] at h1 ⊢
      have hm := matchIs_sound It.patterns a b h1 (flat r)
      rw [List.append_assoc] at hm
      refine ⟨?_, h2, hm⟩
      intro e; rw [e] at h1; simp [matchIs] at h1
    · rw [if_neg hp] at h1 ⊢
      simp only [Bool.and_eq_true, Bool.not_eq_true'] at h1
      exact ⟨by intro e; rw [e] at h1; simp at h1, h2, gapOk_sound a b h1.2 (flat r), Or.inr ⟨b, r, rfl, h1.1.2⟩⟩

/-- **the splitter on a chain of atoms** returns the atoms -/
theorem split_chain (toks : List Word) : ∀ (gap : Word) (fuel : Nat), chainTo toks none = true →
    (gap = [] ∨ toks = [] ∨ ∃ b r, toks = b :: r ∧ isPat b = true) → (flat toks).length < fuel →
    splitWordFuel It.patterns fuel (flat toks) gap = (if gap.isEmpty then [] else [gap.reverse]) ++ toks := by
  induction toks with
  | nil =>
    intro gap fuel _ _ hf
    obtain ⟨f, rfl⟩ : ∃ f, fuel = f + 1 := ⟨fuel - 1, by omega⟩
    rw [flat_nil, splitWordFuel, List.append_nil]
  | cons a rest ih =>
    intro gap fuel h hg hf
    obtain ⟨ha, hrest, hx⟩ := chainTo_head a rest h
    rw [flat_cons] at hf ⊢
    rw [List.length_append] at hf
    by_cases hp : isPat a = true
    · rw [if_pos hp] at hx
      obtain ⟨c, cs, rfl⟩ := List.exists_cons_of_ne_nil ha
      obtain ⟨f, rfl⟩ : ∃ f, fuel = f + 1 := ⟨fuel - 1, by omega⟩
      rw [List.cons_append, splitWordFuel]
      rw [List.cons_append] at hx
      rw [hx]
      dsimp only
      rw [← List.cons_append, List.take_left' rfl, List.drop_left' rfl,
        ih [] f hrest (Or.inl rfl) (by simp at hf; omega)]
      simp
    · rw [if_neg hp] at hx
      have hg0 : gap = [] := by
        rcases hg with hg | hg | ⟨b, r, e, hb⟩
        · exact hg
        · cases hg
        · cases e; exact absurd hb hp
      subst hg0
      obtain ⟨f, rfl⟩ : ∃ f, fuel = f + a.length := ⟨fuel - a.length, by omega⟩
      rw [splitWordFuel_gapRun a _ _ f hx.1, List.append_nil,
        ih a.reverse f hrest (Or.inr (by
          rcases hx.2 with h0 | h1
          · exact Or.inl h0
          · exact Or.inr h1)) (by omega)]
      have : a.reverse.isEmpty = false := by
        cases a with
        | nil => exact absurd rfl ha
        | cons c cs => simp
      rw [this, List.reverse_reverse]
      simp

theorem splitWord_chain (toks : List Word) (h : chainTo toks none = true) :
    splitWord It.patterns (flat toks) = toks := by
  unfold splitWord
  rw [split_chain toks [] _ h (Or.inl rfl) (by omega)]
  rfl

/-- a chain of at least two atoms is a splittable word -/
theorem isSplittable_chain (a b : Word) (rest : List Word) (h : chainTo (a :: b :: rest) none = true) :
    isSplittable It.patterns (flat (a :: b :: rest)) = true := by
  obtain ⟨ha, hrest, hx⟩ := chainTo_head a (b :: rest) h
  obtain ⟨hb, _, hy⟩ := chainTo_head b rest hrest
  unfold isSplittable
  by_cases hp : isPat a = true
  · rw [if_pos hp] at hx
    obtain ⟨c, cs, rfl⟩ := List.exists_cons_of_ne_nil ha
    rw [flat_cons, List.cons_append, firstMatch]
    rw [List.cons_append] at hx
    rw [hx]
    dsimp only
    have : 0 < b.length := List.length_pos_iff.mpr hb
    rw [flat_cons]
    simp; omega
  · rw [if_neg hp] at hx
    have hbp : isPat b = true := by
      rcases hx.2 with h0 | ⟨b', r', e, hb'⟩
      · cases h0
      · cases e; exact hb'
    rw [if_pos hbp] at hy
    rw [flat_cons, firstMatch_gapRun a _ 0 hx.1, flat_cons]
    obtain ⟨c, cs, rfl⟩ := List.exists_cons_of_ne_nil hb
    rw [List.cons_append, firstMatch]
    rw [List.cons_append] at hy
    rw [hy]
    dsimp only
    have : 0 < a.length := List.length_pos_iff.mpr ha
    simp; omega

end T2N.C01It
