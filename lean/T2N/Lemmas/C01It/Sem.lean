/-
  T2N.Lemmas.C01It.Sem — Italian: the vocabulary words as arithmetic steps on the builder (frame form:
  arbitrary higher part), sequences of words (`StepsF`), and the interpretation of a compound word.
-/
import T2N.Model.It
import T2N.Model.Scanner
import T2N.Spec.SpellIt
import T2N.Lemmas.DS
import T2N.Lemmas.Act
import T2N.Lemmas.C01En
import T2N.Lemmas.C01It.Split

set_option maxRecDepth 100000

namespace T2N.C01It
open T2N T2N.Spec
open T2N.DS (shiftSig shiftBuf)
open T2N.C01En (mk lsb lsb_zero lsb_pos lsb_cons lsb_digit lsb_ne_nil lsb_rev_dec lsb_length_ge2 lsb_mul_pow
  lsb_add_pow lsb_length_le lsb_rev_head mk_nil put1_lsb put2_lsb unit_guard_lsb shift_empty shift_top shift_frame
  shift_lsb rangeFree_lsb lsb_len3 pow_ge_1000)

/-! ## the vocabulary: words that are neither split nor lemmatised -/

/-- `w` is a non-compound, non-ordinal word bound to instruction `a` -/
def Plain (w : Word) (a : Act) : Prop :=
  It.lemmatize w = w ∧ isSplittable It.patterns w = false ∧ (w == w!"non") = false ∧ It.vocab.lookup w = some a

theorem applyFuel_plain (f : Nat) (w : Word) (a : Act) (b : DS) (h : Plain w a) :
    It.applyFuel (f + 1) w b = ((a.exec b).1, (a.exec b).2.1) := by
  obtain ⟨h1, h2, h3, h4⟩ := h
  have hm : It.morph w = .none := by
    unfold It.morph
    rw [h1, if_neg (by simp)]
  rw [It.applyFuel]
  dsimp only
  rw [h1, if_neg (by rw [h2]; exact Bool.false_ne_true), h3, Bool.and_false, if_neg Bool.false_ne_true, h4, hm]
  simp [Marker.isNone]

/-! ## arithmetic form of the builder operations on `mk (lsb N)` -/

/-- **frame lemma for `put`**: a number `m < 10^k` is put into `k` free low positions -/
theorem put_lsb (k m N : Nat) (m0 : m ≠ 0) (hm : m < 10 ^ k) (hN : N % 10 ^ k = 0) :
    (mk (lsb N)).put (lsb m).reverse = (none, mk (lsb (N + m))) := by
  obtain ⟨x, t, hx, hx0⟩ := lsb_rev_head m m0
  have hnz : allZero (lsb m).reverse = false := by rw [hx]; simp [allZero, hx0]
  have hne0 : ((lsb m).reverse == [0]) = false := by
    rw [hx]
    cases t with
    | nil => simp [hx0]
    | cons a t => simp
  have hlen := lsb_length_le k m hm
  unfold DS.put
  rw [if_neg (by simp [mk]), hne0, Bool.and_false, if_neg Bool.false_ne_true, hnz, if_neg Bool.false_ne_true]
  by_cases hA : N = 0
  · subst hA
    rw [lsb_zero, Nat.zero_add, if_pos (by simp [mk])]
    simp [mk]
  · obtain ⟨A, rfl⟩ : ∃ A, N = A * 10 ^ k := ⟨N / 10 ^ k, by rw [Nat.div_mul_cancel (Nat.dvd_of_mod_eq_zero hN)]⟩
    have hA0 : A ≠ 0 := by intro e; apply hA; rw [e, Nat.zero_mul]
    have hAne := lsb_ne_nil hA0
    have e1 : A * 10 ^ k + m = m + 10 ^ k * A := by rw [Nat.mul_comm, Nat.add_comm]
    rw [e1, lsb_mul_pow A k hA0, lsb_add_pow k m A hA0 hm]
    have hr : (mk (List.replicate k 0 ++ lsb A)).rbuf = List.replicate k 0 ++ lsb A := rfl
    rw [hr]
    rw [if_neg (by simp [hAne]), if_neg (by simp; omega)]
    have htake : List.take (lsb m).reverse.length (List.replicate k 0 ++ lsb A) = List.replicate (lsb m).length 0 := by
      rw [List.length_reverse, List.take_append_of_le_length (by simp; omega), List.take_replicate]
      congr 1; omega
    have hdrop : List.drop (lsb m).reverse.length (List.replicate k 0 ++ lsb A) =
        List.replicate (k - (lsb m).length) 0 ++ lsb A := by
      rw [List.length_reverse, List.drop_append_of_le_length (by simp; omega), List.drop_replicate]
    rw [htake, hdrop, if_pos (by simp [allZero]), List.reverse_reverse]
    simp [mk]

theorem lsb_one : lsb 1 = [1] := lsb_digit 1 (by decide) (by decide)

theorem lsb_pow (p : Nat) : lsb (10 ^ p) = List.replicate p 0 ++ [1] := by
  have := lsb_mul_pow 1 p (by decide)
  rw [lsb_one, Nat.one_mul] at this
  exact this

/-- units with the guard `is_free(2)` (`un`, `uno`, `otto`, `tto`) -/
theorem unitFree_exec (d N : Nat) (h0 : d ≠ 0) (h9 : d < 10) (hN : N % 100 = 0) :
    (It.unitFree d).exec (mk (lsb N)) = (none, mk (lsb (N + d)), 0) := by
  have hg : (Guard.free 2).eval (mk (lsb N)) = true := by
    by_cases hz : N = 0
    · subst hz; rw [lsb_zero]; rfl
    · obtain ⟨m, rfl⟩ : ∃ m, N = 0 + 10 * (0 + 10 * m) := ⟨N / 100, by omega⟩
      rw [lsb_cons 0 _ (by decide) (Or.inr (by omega)), lsb_cons 0 m (by decide) (Or.inr (by omega))]
      simp [Guard.eval, DS.isFree, mk, allZero]
  simp only [It.unitFree, Act.when, Act.exec]
  rw [if_pos hg, put1_lsb d N h0 h9 (by omega)]

/-- units with the guard `peek(2) != "10"` -/
theorem unit_exec (d N : Nat) (h0 : d ≠ 0) (h9 : d < 10) (hN : N % 10 = 0) (hx : N / 10 % 10 ≠ 1) :
    (It.unit d).exec (mk (lsb N)) = (none, mk (lsb (N + d)), 0) := by
  simp only [It.unit, Act.when, Act.exec]
  rw [if_pos (unit_guard_lsb N hN hx), put1_lsb d N h0 h9 hN]

/-- teens, tens, elided tens+unit: `put [a, b]` -/
theorem put2_exec (a b N : Nat) (h0 : a ≠ 0) (h9 : a < 10) (hb : b < 10) (hN : N % 100 = 0) :
    (Act.put [a, b]).exec (mk (lsb N)) = (none, mk (lsb (N + (10 * a + b))), 0) := by
  simp only [Act.exec]
  rw [put2_lsb a b N h0 h9 hb hN]

/-- `centuno`: `put [1,0,1]` -/
theorem put101_exec (N : Nat) (hN : N % 1000 = 0) :
    (Act.put [1, 0, 1]).exec (mk (lsb N)) = (none, mk (lsb (N + 101)), 0) := by
  have e : lsb 101 = [1, 0, 1] := by
    rw [show (101 : Nat) = 1 + 10 * (0 + 10 * 1) from rfl, lsb_cons 1 _ (by decide) (Or.inl (by decide)),
      lsb_cons 0 1 (by decide) (Or.inr (by decide)), lsb_one]
  have := put_lsb 3 101 N (by decide) (by decide) hN
  rw [e] at this
  simp only [Act.exec]
  rw [show ([1, 0, 1] : List Nat) = [1, 0, 1].reverse from rfl, this]

theorem shift2_zero (r : List Nat) : (mk (0 :: 0 :: 0 :: r)).shift 2 = (none, mk (0 :: 0 :: 1 :: r)) := by
  rw [shift_eq _ _ rfl (by decide)]
  simp [mk, shiftBuf, shiftSig, allZero]

/-- bare `cento` on three free positions: the implicit one -/
theorem cento_exec_zero (N : Nat) (hN : N % 1000 = 0) :
    It.cento.exec (mk (lsb N)) = (none, mk (lsb (N + 100)), 0) := by
  by_cases hz : N = 0
  · subst hz
    rw [lsb_zero, Nat.zero_add, show (100 : Nat) = 10 ^ 2 from rfl, lsb_pow 2]
    have hg : (Guard.and (.and (.or (.peekLen 2 1) (.peekLt 2 [1, 0])) (.neg (.peekEq 2 [1]))) (.neg (.peekEq 2 [0, 1]))).eval
        (mk []) = true := rfl
    simp only [It.cento, Act.exec]
    rw [if_pos hg, shift_empty 2 (by decide)]
  · obtain ⟨m, rfl⟩ : ∃ m, N = 0 + 10 * (0 + 10 * (0 + 10 * m)) := ⟨N / 1000, by omega⟩
    have hm : m ≠ 0 := by omega
    have e : 0 + 10 * (0 + 10 * (0 + 10 * m)) + 100 = 0 + 10 * (0 + 10 * (1 + 10 * m)) := by omega
    rw [e, lsb_cons 0 _ (by decide) (Or.inr (by omega)), lsb_cons 0 _ (by decide) (Or.inr (by omega)),
      lsb_cons 0 m (by decide) (Or.inr hm), lsb_cons 0 _ (by decide) (Or.inr (by omega)),
      lsb_cons 0 _ (by decide) (Or.inr (by omega)), lsb_cons 1 m (by decide) (Or.inl (by decide))]
    have hg : (Guard.and (.and (.or (.peekLen 2 1) (.peekLt 2 [1, 0])) (.neg (.peekEq 2 [1]))) (.neg (.peekEq 2 [0, 1]))).eval
        (mk (0 :: 0 :: 0 :: lsb m)) = true := by
      simp [Guard.eval, DS.peek, mk, lexLt]
    simp only [It.cento, Act.exec]
    rw [if_pos hg, shift2_zero]

/-- `cento` after a unit `d ≥ 2` -/
theorem cento_exec (d N : Nat) (h2 : 2 ≤ d) (h9 : d < 10) (hN : N % 1000 = d) :
    It.cento.exec (mk (lsb N)) = (none, mk (lsb (N + 99 * d)), 0) := by
  have h0 : d ≠ 0 := by omega
  have h1 : d ≠ 1 := by omega
  simp only [It.cento, Act.exec]
  by_cases hz : N = d
  · subst hz
    have hg : (Guard.and (.and (.or (.peekLen 2 1) (.peekLt 2 [1, 0])) (.neg (.peekEq 2 [1]))) (.neg (.peekEq 2 [0, 1]))).eval
        (mk [N]) = true := by
      simp [Guard.eval, DS.peek, mk, h1]
    have e : N + 99 * N = N * 10 ^ 2 := by omega
    rw [e, lsb_mul_pow N 2 h0, lsb_digit N h9 h0, if_pos hg, shift_top [N] 2 (by simp) (by simp) (by decide)]
  · obtain ⟨m, rfl⟩ : ∃ m, N = d + 10 * (0 + 10 * (0 + 10 * m)) := ⟨N / 1000, by omega⟩
    have hm : m ≠ 0 := by omega
    have e : d + 10 * (0 + 10 * (0 + 10 * m)) + 99 * d = 0 + 10 * (0 + 10 * (d + 10 * m)) := by omega
    rw [e, lsb_cons d _ h9 (Or.inl h0), lsb_cons 0 _ (by decide) (Or.inr (by omega)),
      lsb_cons 0 m (by decide) (Or.inr hm), lsb_cons 0 _ (by decide) (Or.inr (by omega)),
      lsb_cons 0 _ (by decide) (Or.inr (by omega)), lsb_cons d m h9 (Or.inl h0)]
    have hg : (Guard.and (.and (.or (.peekLen 2 1) (.peekLt 2 [1, 0])) (.neg (.peekEq 2 [1]))) (.neg (.peekEq 2 [0, 1]))).eval
        (mk (d :: 0 :: 0 :: lsb m)) = true := by
      simp [Guard.eval, DS.peek, mk, lexLt, h1]
    rw [if_pos hg]
    have hs : shiftSig ([d] ++ List.replicate 1 0) = [d] := by
      simp [shiftSig, h0]
    have hsh : (mk (d :: 0 :: 0 :: lsb m)).shift 2 = (none, mk (0 :: 0 :: d :: lsb m)) :=
      shift_frame [d] (lsb m) 1 hs (by simp)
    rw [hsh]


/-! ### scale words -/

theorem exists_mul_of_mod (N q : Nat) (h : N % q = 0) : ∃ A, N = q * A :=
  ⟨N / q, by rw [Nat.mul_comm, Nat.div_mul_cancel (Nat.dvd_of_mod_eq_zero h)]⟩

/-- `mille`: `put [1,0,0,0]` on six free positions -/
theorem mille_exec (N : Nat) (hN : N % 10 ^ 6 = 0) :
    (Act.when (.rangeFree 3 5) (.put [1, 0, 0, 0])).exec (mk (lsb N)) = (none, mk (lsb (N + 1000)), 0) := by
  have e : lsb 1000 = [0, 0, 0, 1] := lsb_pow 3
  have hp := put_lsb 6 1000 N (by decide) (by decide) hN
  rw [e] at hp
  obtain ⟨A, rfl⟩ := exists_mul_of_mod N _ hN
  have hg : (Guard.rangeFree 3 5).eval (mk (lsb (10 ^ 6 * A))) = true := by
    have := rangeFree_lsb 3 0 A (by decide) (by decide)
    rw [Nat.zero_add] at this
    exact this
  simp only [Act.when, Act.exec]
  rw [if_pos hg, show ([1, 0, 0, 0] : List Nat) = [0, 0, 0, 1].reverse from rfl, hp]

def milaBad : Guard := .or (.or (.or (.peekEq 3 [1]) (.peekEq 3 [0, 0, 1])) (.peekLen 3 0)) (.peekEq 3 [0, 0, 0])

theorem milaBad_false (M : Nat) (h : 2 ≤ M % 1000) : milaBad.eval (mk (lsb M)) = false := by
  unfold milaBad
  by_cases h10 : M < 10
  · rw [lsb_digit M h10 (by omega)]
    have : M ≠ 1 := by omega
    simp [Guard.eval, DS.peek, mk, this]
  · by_cases h100 : M < 100
    · obtain ⟨a, b, rfl, ha, hb, hb0⟩ : ∃ a b, M = a + 10 * b ∧ a < 10 ∧ b < 10 ∧ b ≠ 0 :=
        ⟨M % 10, M / 10, by omega, by omega, by omega, by omega⟩
      rw [lsb_cons a b ha (Or.inr hb0), lsb_digit b hb hb0]
      simp [Guard.eval, DS.peek, mk]
    · obtain ⟨a, b, c, m, rfl, ha, hb, hc, hcm⟩ : ∃ a b c m, M = a + 10 * (b + 10 * (c + 10 * m)) ∧ a < 10 ∧ b < 10 ∧
          c < 10 ∧ (c ≠ 0 ∨ m ≠ 0) :=
        ⟨M % 10, M / 10 % 10, M / 100 % 10, M / 1000, by omega, by omega, by omega, by omega, by omega⟩
      rw [lsb_cons a _ ha (Or.inr (by omega)), lsb_cons b _ hb (Or.inr (by omega)), lsb_cons c m hc hcm]
      simp [Guard.eval, DS.peek, mk]
      omega

/-- `mila`: the group `2 ≤ g ≤ 999` in the low positions becomes thousands -/
theorem mila_exec (N g : Nat) (hN : N % 10 ^ 6 = 0) (g2 : 2 ≤ g) (g1 : g < 1000) :
    (Act.when (.rangeFree 3 5) (.ite milaBad (.fail .nan) (.shift 3))).exec (mk (lsb (N + g))) =
      (none, mk (lsb (N + g * 1000)), 0) := by
  have hbad := milaBad_false (N + g) (by
    have : (1000 : Nat) ∣ 10 ^ 6 := ⟨1000, by decide⟩
    have := Nat.mod_mod_of_dvd N this
    omega)
  obtain ⟨A, rfl⟩ := exists_mul_of_mod N _ hN
  rw [Nat.add_comm _ g, Nat.add_comm _ (g * 1000)] at *
  have hg : (Guard.rangeFree 3 5).eval (mk (lsb (g + 10 ^ 6 * A))) = true := rangeFree_lsb 3 g A (by decide) g1
  have hs : (mk (lsb (g + 10 ^ 6 * A))).shift 3 = (none, mk (lsb (g * 1000 + 10 ^ 6 * A))) :=
    shift_lsb 3 g A (by decide) (by omega) g1
  simp only [Act.when, Act.exec]
  rw [if_pos hg, hbad, if_neg Bool.false_ne_true, hs]

theorem groupIsOne_lsb (p k A : Nat) (hk : k ≠ 0) (hkp : k ≤ p) : groupIsOne (mk (lsb (1 + 10 ^ p * A))) k = true := by
  unfold groupIsOne
  by_cases hA : A = 0
  · subst hA
    rw [Nat.mul_zero, Nat.add_zero, lsb_one]
    obtain ⟨k', rfl⟩ : ∃ k', k = k' + 1 := ⟨k - 1, by omega⟩
    simp [mk, allZero]
  · have h1 : 1 < 10 ^ p := Nat.one_lt_pow (by omega) (by decide)
    rw [lsb_add_pow p 1 A hA h1, lsb_one]
    obtain ⟨k', rfl⟩ : ∃ k', k = k' + 1 := ⟨k - 1, by omega⟩
    have : (mk ([1] ++ List.replicate (p - [1].length) 0 ++ lsb A)).rbuf.take (k' + 1) = 1 :: List.replicate k' 0 := by
      show List.take (k' + 1) ([1] ++ List.replicate (p - 1) 0 ++ lsb A) = _
      rw [List.append_assoc, List.singleton_append, List.take_succ_cons,
        List.take_append_of_le_length (by simp; omega), List.take_replicate]
      congr 2; omega
    rw [this]
    simp [allZero]

/-- `milione` after `un` -/
theorem milione_exec (N : Nat) (hN : N % 10 ^ 9 = 0) :
    (Act.when (.rangeFree 6 8) (It.multSing 6)).exec (mk (lsb (N + 1))) = (none, mk (lsb (N + 10 ^ 6)), 0) := by
  obtain ⟨A, rfl⟩ := exists_mul_of_mod N _ hN
  rw [Nat.add_comm _ 1, Nat.add_comm _ (10 ^ 6)]
  have hg : (Guard.rangeFree 6 8).eval (mk (lsb (1 + 10 ^ 9 * A))) = true := rangeFree_lsb 6 1 A (by decide) (by decide)
  have hone : (Guard.neg (.groupOne 6)).eval (mk (lsb (1 + 10 ^ 9 * A))) = false := by
    simp only [Guard.eval]
    rw [groupIsOne_lsb 9 6 A (by decide) (by decide)]; rfl
  have hs : (mk (lsb (1 + 10 ^ 9 * A))).shift 6 = (none, mk (lsb (1 * 10 ^ 6 + 10 ^ 9 * A))) :=
    shift_lsb 6 1 A (by decide) (by decide) (by decide)
  rw [Nat.one_mul] at hs
  simp only [Act.when, It.multSing, Act.exec]
  rw [if_pos hg, hone, if_neg Bool.false_ne_true, hs]

/-- `miliardo` after `un` (the builder holds exactly one) -/
theorem miliardo_exec : (It.multSing 9).exec (mk (lsb 1)) = (none, mk (lsb (10 ^ 9)), 0) := by
  have hone : (Guard.neg (.groupOne 9)).eval (mk (lsb 1)) = false := by
    rw [lsb_one]; rfl
  have hs := shift_lsb 9 1 0 (by decide) (by decide) (by decide)
  rw [Nat.mul_zero, Nat.add_zero, Nat.add_zero, Nat.one_mul] at hs
  simp only [It.multSing, Act.exec]
  rw [hone, if_neg Bool.false_ne_true, hs]

theorem plurBad_false (M : Nat) (h : 2 ≤ M) : (Guard.or .empty It.isJustOne).eval (mk (lsb M)) = false := by
  have hne := lsb_ne_nil (n := M) (by omega)
  have hemp : (mk (lsb M)).isEmpty = false := by
    show ((lsb M).isEmpty && (0 : Nat) == 0) = false
    cases hl : lsb M with
    | nil => exact absurd hl hne
    | cons a t => rfl
  simp only [Guard.eval, It.isJustOne, hemp, Bool.false_or]
  by_cases h10 : M < 10
  · rw [lsb_digit M h10 (by omega)]
    have : M ≠ 1 := by omega
    simp [DS.peek, DS.len, mk, this]
  · have := lsb_length_ge2 (n := M) (by omega)
    have hl : ((mk (lsb M)).len == 1) = false := by
      show ((lsb M).length + 0 == 1) = false
      simp; omega
    rw [hl, Bool.false_and]

/-- `milioni` after a group `g ≥ 2` -/
theorem milioni_exec (N g : Nat) (hN : N % 10 ^ 9 = 0) (g2 : 2 ≤ g) (g1 : g < 1000) :
    (Act.when (.rangeFree 6 8) (It.multPlur 6)).exec (mk (lsb (N + g))) = (none, mk (lsb (N + g * 10 ^ 6)), 0) := by
  have hbad := plurBad_false (N + g) (by omega)
  obtain ⟨A, rfl⟩ := exists_mul_of_mod N _ hN
  rw [Nat.add_comm _ g, Nat.add_comm _ (g * 10 ^ 6)] at *
  have hg : (Guard.rangeFree 6 8).eval (mk (lsb (g + 10 ^ 9 * A))) = true := rangeFree_lsb 6 g A (by decide) g1
  have hs : (mk (lsb (g + 10 ^ 9 * A))).shift 6 = (none, mk (lsb (g * 10 ^ 6 + 10 ^ 9 * A))) :=
    shift_lsb 6 g A (by decide) (by omega) g1
  simp only [Act.when, It.multPlur, Act.exec]
  rw [if_pos hg, hbad, if_neg Bool.false_ne_true, hs]

/-- `miliardi` after a group `g ≥ 2` (first group of the number) -/
theorem miliardi_exec (g : Nat) (g2 : 2 ≤ g) (g1 : g < 1000) :
    (It.multPlur 9).exec (mk (lsb g)) = (none, mk (lsb (g * 10 ^ 9)), 0) := by
  have hbad := plurBad_false g g2
  have hs := shift_lsb 9 g 0 (by decide) (by omega) g1
  rw [Nat.mul_zero, Nat.add_zero, Nat.add_zero] at hs
  simp only [It.multPlur, Act.exec]
  rw [hbad, if_neg Bool.false_ne_true, hs]

/-- `e`: `Incomplete` as soon as two digits are there; the builder is untouched -/
theorem e_exec (N : Nat) (hN : 10 ≤ N) :
    (Act.when (.lenGe 2) (.fail .incomplete)).exec (mk (lsb N)) = (some .incomplete, mk (lsb N), 0) := by
  have hg : (Guard.lenGe 2).eval (mk (lsb N)) = true := by
    have := lsb_length_ge2 hN
    simp only [Guard.eval, DS.len, mk]
    simp; omega
  simp only [Act.when, Act.exec]
  rw [if_pos hg]


/-! ## sequences of words -/

/-- running `ws` (then anything) from state `N` is running the rest from state `N'`; `f + 1` is the fuel of
`applyFuel` (`f = 1`: the words of the text; `f = 0`: the pieces of a compound) -/
def StepsF (f : Nat) (ws : List Word) (N N' : Nat) : Prop :=
  ∀ rest, execGroupFrom (It.applyFuel (f + 1)) (ws ++ rest) (mk (lsb N)) false =
    execGroupFrom (It.applyFuel (f + 1)) rest (mk (lsb N')) false

theorem StepsF.nil (f N : Nat) : StepsF f [] N N := fun _ => rfl

theorem StepsF.append {f : Nat} {a b : List Word} {N N' N'' : Nat} (h1 : StepsF f a N N') (h2 : StepsF f b N' N'') :
    StepsF f (a ++ b) N N'' := by
  intro rest; rw [List.append_assoc, h1, h2]

theorem StepsF.single {f : Nat} {w : Word} {N N' : Nat}
    (h : It.applyFuel (f + 1) w (mk (lsb N)) = (none, mk (lsb N'))) : StepsF f [w] N N' := by
  intro rest
  rw [List.singleton_append, execGroupFrom, h]

theorem StepsF.cast {f : Nat} {ws : List Word} {N N' M : Nat} (h : StepsF f ws N N') (e : N' = M) :
    StepsF f ws N M := e ▸ h

/-- a vocabulary word whose instruction succeeds -/
theorem StepsF.atom {f : Nat} {w : Word} {a : Act} {N N' : Nat} (hp : Plain w a)
    (he : a.exec (mk (lsb N)) = (none, mk (lsb N'), 0)) : StepsF f [w] N N' := by
  apply StepsF.single
  rw [applyFuel_plain f w a _ hp, he]

theorem plain_e : Plain w!"e" (.when (.lenGe 2) (.fail .incomplete)) := ⟨by decide, by decide, by decide, by rfl⟩

/-- `e` is accepted as `Incomplete`, leaves the builder alone, and the next word resets the flag -/
theorem StepsF.e {f : Nat} {ws : List Word} {N N' : Nat} (hN : 10 ≤ N) (h : StepsF f ws N N') (hne : ws ≠ []) :
    StepsF f (w!"e" :: ws) N N' := by
  intro rest
  obtain ⟨w, ws', rfl⟩ := List.exists_cons_of_ne_nil hne
  rw [List.cons_append, execGroupFrom, applyFuel_plain f _ _ _ plain_e, e_exec N hN]
  dsimp only
  have := h rest
  rw [List.cons_append, execGroupFrom] at this
  rw [List.cons_append, execGroupFrom]
  exact this

/-! ## the atoms and their steps -/

theorem plain_unit (d : Nat) (h : d = 2 ∨ d = 3 ∨ d = 4 ∨ d = 5 ∨ d = 6 ∨ d = 7 ∨ d = 9) :
    Plain (It.unitWord d) (T2N.It.unit d) := by
  rcases h with rfl | rfl | rfl | rfl | rfl | rfl | rfl <;> exact ⟨by decide, by decide, by decide, by rfl⟩

theorem plain_tre_acc : Plain w!"tré" (T2N.It.unit 3) := ⟨by decide, by decide, by decide, by rfl⟩
theorem plain_uno : Plain w!"uno" (T2N.It.unitFree 1) := ⟨by decide, by decide, by decide, by rfl⟩
theorem plain_un : Plain w!"un" (T2N.It.unitFree 1) := ⟨by decide, by decide, by decide, by rfl⟩
theorem plain_otto : Plain w!"otto" (T2N.It.unitFree 8) := ⟨by decide, by decide, by decide, by rfl⟩
theorem plain_tto : Plain w!"tto" (T2N.It.unitFree 8) := ⟨by decide, by decide, by decide, by rfl⟩

theorem plain_teen (b : Nat) (h9 : b < 10) : Plain (It.unitWord (10 + b)) (.put [1, b]) := by
  have : b = 0 ∨ b = 1 ∨ b = 2 ∨ b = 3 ∨ b = 4 ∨ b = 5 ∨ b = 6 ∨ b = 7 ∨ b = 8 ∨ b = 9 := by omega
  rcases this with rfl | rfl | rfl | rfl | rfl | rfl | rfl | rfl | rfl | rfl <;>
    exact ⟨by decide, by decide, by decide, by rfl⟩

theorem plain_tens (t : Nat) (h2 : 2 ≤ t) (h9 : t < 10) : Plain (It.tensWord t) (.put [t, 0]) := by
  have : t = 2 ∨ t = 3 ∨ t = 4 ∨ t = 5 ∨ t = 6 ∨ t = 7 ∨ t = 8 ∨ t = 9 := by omega
  rcases this with rfl | rfl | rfl | rfl | rfl | rfl | rfl | rfl <;>
    exact ⟨by decide, by decide, by decide, by rfl⟩

/-- `ventuno`, `ventotto`, … -/
def elidedWord (t u : Nat) : Word := (It.tensWord t).dropLast ++ It.unitWord u

theorem plain_elided (t u : Nat) (h2 : 2 ≤ t) (h9 : t < 10) (hu : u = 1 ∨ u = 8) :
    Plain (elidedWord t u) (.put [t, u]) := by
  have : t = 2 ∨ t = 3 ∨ t = 4 ∨ t = 5 ∨ t = 6 ∨ t = 7 ∨ t = 8 ∨ t = 9 := by omega
  rcases this with rfl | rfl | rfl | rfl | rfl | rfl | rfl | rfl <;> rcases hu with rfl | rfl <;>
    exact ⟨by decide, by decide, by decide, by rfl⟩

/-- `ventun`, `trentun`, … (apocope before `milioni`, `miliardi`) -/
theorem plain_apocope (t : Nat) (h2 : 2 ≤ t) (h9 : t < 10) : Plain (elidedWord t 1).dropLast (.put [t, 1]) := by
  have : t = 2 ∨ t = 3 ∨ t = 4 ∨ t = 5 ∨ t = 6 ∨ t = 7 ∨ t = 8 ∨ t = 9 := by omega
  rcases this with rfl | rfl | rfl | rfl | rfl | rfl | rfl | rfl <;>
    exact ⟨by decide, by decide, by decide, by rfl⟩

theorem plain_ttanta : Plain w!"ttanta" (.put [8, 0]) := ⟨by decide, by decide, by decide, by rfl⟩
theorem plain_ttantuno : Plain w!"ttantuno" (.put [8, 1]) := ⟨by decide, by decide, by decide, by rfl⟩
theorem plain_ttantun : Plain w!"ttantun" (.put [8, 1]) := ⟨by decide, by decide, by decide, by rfl⟩
theorem plain_ttantotto : Plain w!"ttantotto" (.put [8, 8]) := ⟨by decide, by decide, by decide, by rfl⟩
theorem plain_cento : Plain w!"cento" T2N.It.cento := ⟨by decide, by decide, by decide, by rfl⟩
theorem plain_centuno : Plain w!"centuno" (.put [1, 0, 1]) := ⟨by decide, by decide, by decide, by rfl⟩
theorem plain_mille : Plain w!"mille" (.when (.rangeFree 3 5) (.put [1, 0, 0, 0])) :=
  ⟨by decide, by decide, by decide, by rfl⟩
theorem plain_mila : Plain w!"mila" (.when (.rangeFree 3 5) (.ite milaBad (.fail .nan) (.shift 3))) :=
  ⟨by decide, by decide, by decide, by rfl⟩
theorem plain_milione : Plain w!"milione" (.when (.rangeFree 6 8) (T2N.It.multSing 6)) :=
  ⟨by decide, by decide, by decide, by rfl⟩
theorem plain_milioni : Plain w!"milioni" (.when (.rangeFree 6 8) (T2N.It.multPlur 6)) :=
  ⟨by decide, by decide, by decide, by rfl⟩
theorem plain_miliardo : Plain w!"miliardo" (T2N.It.multSing 9) := ⟨by decide, by decide, by decide, by rfl⟩
theorem plain_miliardi : Plain w!"miliardi" (T2N.It.multPlur 9) := ⟨by decide, by decide, by decide, by rfl⟩

/-- a unit `1 ≤ d ≤ 9` on two free positions -/
theorem unit_step (f d N : Nat) (h0 : d ≠ 0) (h9 : d < 10) (hN : N % 100 = 0) :
    StepsF f [It.unitWord d] N (N + d) := by
  by_cases h1 : d = 1
  · subst h1; exact StepsF.atom plain_uno (unitFree_exec 1 N (by decide) (by decide) hN)
  · by_cases h8 : d = 8
    · subst h8; exact StepsF.atom plain_otto (unitFree_exec 8 N (by decide) (by decide) hN)
    · exact StepsF.atom (plain_unit d (by omega)) (unit_exec d N h0 h9 (by omega) (by omega))

/-- a unit other than `uno`, `otto` after a tens word -/
theorem unit_step' (f d N : Nat) (hd : d = 2 ∨ d = 3 ∨ d = 4 ∨ d = 5 ∨ d = 6 ∨ d = 7 ∨ d = 9)
    (hN : N % 10 = 0) (hx : N / 10 % 10 ≠ 1) : StepsF f [It.unitWord d] N (N + d) :=
  StepsF.atom (plain_unit d hd) (unit_exec d N (by omega) (by omega) hN hx)

theorem tre_acc_step (f N : Nat) (hN : N % 10 = 0) (hx : N / 10 % 10 ≠ 1) : StepsF f [w!"tré"] N (N + 3) :=
  StepsF.atom plain_tre_acc (unit_exec 3 N (by decide) (by decide) hN hx)

theorem teen_step (f b N : Nat) (hb : b < 10) (hN : N % 100 = 0) : StepsF f [It.unitWord (10 + b)] N (N + (10 + b)) := by
  have := put2_exec 1 b N (by decide) (by decide) hb hN
  exact StepsF.atom (plain_teen b hb) (by rw [this])

theorem tens_step (f t N : Nat) (h2 : 2 ≤ t) (h9 : t < 10) (hN : N % 100 = 0) :
    StepsF f [It.tensWord t] N (N + 10 * t) := by
  have := put2_exec t 0 N (by omega) h9 (by decide) hN
  exact StepsF.atom (plain_tens t h2 h9) (by rw [this]; rfl)

theorem elided_step (f t u N : Nat) (h2 : 2 ≤ t) (h9 : t < 10) (hu : u = 1 ∨ u = 8) (hN : N % 100 = 0) :
    StepsF f [elidedWord t u] N (N + (10 * t + u)) := by
  have := put2_exec t u N (by omega) h9 (by omega) hN
  exact StepsF.atom (plain_elided t u h2 h9 hu) this

theorem apocope_step (f t N : Nat) (h2 : 2 ≤ t) (h9 : t < 10) (hN : N % 100 = 0) :
    StepsF f [(elidedWord t 1).dropLast] N (N + (10 * t + 1)) := by
  have := put2_exec t 1 N (by omega) h9 (by omega) hN
  exact StepsF.atom (plain_apocope t h2 h9) this


/-! ## the atoms of a group 1..999 -/

/-- final unit atom: `tré` when the accent is written -/
def uTok (acc : Bool) (u : Nat) : Word := if acc && u == 3 then w!"tré" else It.unitWord u

/-- `ventuno` | `ventun` (apocope), `ventotto` -/
def elTok (apo : Bool) (t u : Nat) : Word := if apo && u == 1 then (elidedWord t 1).dropLast else elidedWord t u

/-- atoms of `r < 100`; `acc`: a final `tre` is written `tré`; `apo`: a final `…uno` is written `…un` -/
def rToks (acc apo : Bool) (r : Nat) : List Word :=
  if r == 0 then []
  else if r < 20 then [uTok acc r]
  else if r % 10 == 0 then [It.tensWord (r / 10)]
  else if r % 10 == 1 || r % 10 == 8 then [elTok apo (r / 10) (r % 10)]
  else [It.tensWord (r / 10), uTok acc (r % 10)]

/-- atoms of `r = 8` or `80 ≤ r < 90` after an elided `cent-` (`centotto`, `centottanta`) -/
def eToks (acc apo : Bool) (r : Nat) : List Word :=
  if r == 8 then [w!"tto"] else if r == 80 then [w!"ttanta"]
  else if r == 81 then [if apo then w!"ttantun" else w!"ttantuno"]
  else if r == 88 then [w!"ttantotto"] else [w!"ttanta", uTok acc (r % 10)]

def hToks (h : Nat) : List Word :=
  if h == 0 then [] else if h == 1 then [w!"cento"] else [It.unitWord h, w!"cento"]

/-- does `…cento` lose its `o` before the rest `r`? (`alt` = the choice `cp g 4`) -/
def elides (alt : Bool) (h r : Nat) : Bool :=
  h != 0 && ((decide (80 ≤ r) && decide (r < 90) && !alt) || (r == 8 && alt))

/-- atoms of the one-word spelling of the group `n` (1..999) -/
def gToks (alt acc apo : Bool) (n : Nat) : List Word :=
  if n / 100 == 1 && n % 100 == 1 && alt then [w!"centuno"]
  else hToks (n / 100) ++
    (if elides alt (n / 100) (n % 100) then eToks acc apo (n % 100) else rToks acc apo (n % 100))

theorem uTok_step (f : Nat) (acc : Bool) (d N : Nat) (h0 : d ≠ 0) (h9 : d < 10) (hN : N % 100 = 0) :
    StepsF f [uTok acc d] N (N + d) := by
  unfold uTok
  by_cases hc : (acc && d == 3) = true
  · rw [if_pos hc]
    simp only [Bool.and_eq_true, beq_iff_eq] at hc
    rw [hc.2]
    exact tre_acc_step f N (by omega) (by omega)
  · rw [if_neg hc]; exact unit_step f d N h0 h9 hN

theorem uTok_step' (f : Nat) (acc : Bool) (d N : Nat) (hd : d = 2 ∨ d = 3 ∨ d = 4 ∨ d = 5 ∨ d = 6 ∨ d = 7 ∨ d = 9)
    (hN : N % 10 = 0) (hx : N / 10 % 10 ≠ 1) : StepsF f [uTok acc d] N (N + d) := by
  unfold uTok
  by_cases hc : (acc && d == 3) = true
  · rw [if_pos hc]
    simp only [Bool.and_eq_true, beq_iff_eq] at hc
    rw [hc.2]
    exact tre_acc_step f N hN hx
  · rw [if_neg hc]; exact unit_step' f d N hd hN hx

theorem uTok_teen (acc : Bool) (b : Nat) : uTok acc (10 + b) = It.unitWord (10 + b) := by
  unfold uTok
  rw [if_neg]
  simp; omega

theorem elTok_step (f : Nat) (apo : Bool) (t u N : Nat) (h2 : 2 ≤ t) (h9 : t < 10) (hu : u = 1 ∨ u = 8)
    (hN : N % 100 = 0) : StepsF f [elTok apo t u] N (N + (10 * t + u)) := by
  unfold elTok
  by_cases hc : (apo && u == 1) = true
  · rw [if_pos hc]
    simp only [Bool.and_eq_true, beq_iff_eq] at hc
    rw [hc.2]
    exact apocope_step f t N h2 h9 hN
  · rw [if_neg hc]; exact elided_step f t u N h2 h9 hu hN

theorem rToks_steps (f : Nat) (acc apo : Bool) (r N : Nat) (h1 : r < 100) (hN : N % 100 = 0) :
    StepsF f (rToks acc apo r) N (N + r) := by
  unfold rToks
  by_cases h0 : r = 0
  · subst h0; exact StepsF.nil f N
  · rw [if_neg (by simp [h0])]
    by_cases h20 : r < 20
    · rw [if_pos h20]
      by_cases h10 : r < 10
      · exact uTok_step f acc r N h0 h10 hN
      · obtain ⟨b, rfl⟩ : ∃ b, r = 10 + b := ⟨r - 10, by omega⟩
        rw [uTok_teen]
        exact teen_step f b N (by omega) hN
    · rw [if_neg h20]
      have ht2 : 2 ≤ r / 10 := by omega
      have ht9 : r / 10 < 10 := by omega
      by_cases hu : r % 10 = 0
      · rw [if_pos (by simp [hu])]
        exact (tens_step f (r / 10) N ht2 ht9 hN).cast (by omega)
      · rw [if_neg (by simp [hu])]
        by_cases h18 : r % 10 = 1 ∨ r % 10 = 8
        · rw [if_pos (by simpa using h18)]
          exact (elTok_step f apo (r / 10) (r % 10) N ht2 ht9 h18 hN).cast (by omega)
        · rw [if_neg (by simpa using h18)]
          have s1 := tens_step f (r / 10) N ht2 ht9 hN
          have s2 := uTok_step' f acc (r % 10) (N + 10 * (r / 10)) (by omega) (by omega) (by omega)
          exact (StepsF.append s1 s2).cast (by omega)

theorem eToks_steps (f : Nat) (acc apo : Bool) (r N : Nat) (hr : r = 8 ∨ (80 ≤ r ∧ r < 90)) (hN : N % 100 = 0) :
    StepsF f (eToks acc apo r) N (N + r) := by
  have p80 := put2_exec 8 0 N (by decide) (by decide) (by decide) hN
  have p81 := put2_exec 8 1 N (by decide) (by decide) (by decide) hN
  have p88 := put2_exec 8 8 N (by decide) (by decide) (by decide) hN
  have s80 : StepsF f [w!"ttanta"] N (N + 80) := StepsF.atom plain_ttanta p80
  have su : ∀ u, u = 2 ∨ u = 3 ∨ u = 4 ∨ u = 5 ∨ u = 6 ∨ u = 7 ∨ u = 9 →
      StepsF f [w!"ttanta", uTok acc u] N (N + (80 + u)) := fun u hu =>
    (StepsF.append s80 (uTok_step' f acc u (N + 80) hu (by omega) (by omega))).cast (by omega)
  have : r = 8 ∨ r = 80 ∨ r = 81 ∨ r = 82 ∨ r = 83 ∨ r = 84 ∨ r = 85 ∨ r = 86 ∨ r = 87 ∨ r = 88 ∨ r = 89 := by omega
  rcases this with rfl | rfl | rfl | rfl | rfl | rfl | rfl | rfl | rfl | rfl | rfl
  · exact StepsF.atom plain_tto (unitFree_exec 8 N (by decide) (by decide) hN)
  · exact s80
  · cases apo
    · exact StepsF.atom plain_ttantuno p81
    · exact StepsF.atom plain_ttantun p81
  · exact su 2 (by omega)
  · exact su 3 (by omega)
  · exact su 4 (by omega)
  · exact su 5 (by omega)
  · exact su 6 (by omega)
  · exact su 7 (by omega)
  · exact StepsF.atom plain_ttantotto p88
  · exact su 9 (by omega)

theorem hToks_steps (f h N : Nat) (h9 : h < 10) (hN : N % 1000 = 0) : StepsF f (hToks h) N (N + 100 * h) := by
  unfold hToks
  by_cases h0 : h = 0
  · subst h0; exact StepsF.nil f N
  · rw [if_neg (by simp [h0])]
    by_cases h1 : h = 1
    · subst h1
      exact StepsF.atom plain_cento (cento_exec_zero N hN)
    · rw [if_neg (by simp [h1])]
      have s1 := unit_step f h N h0 h9 (by omega)
      have s2 : StepsF f [w!"cento"] (N + h) (N + h + 99 * h) :=
        StepsF.atom plain_cento (cento_exec h (N + h) (by omega) h9 (by omega))
      exact (StepsF.append s1 s2).cast (by omega)

/-- **per-group theorem**: the atoms of a group `1 ≤ n ≤ 999` on three free positions (arbitrary higher part) add `n` -/
theorem gToks_steps (f : Nat) (alt acc apo : Bool) (n N : Nat) (n1 : n < 1000) (hN : N % 1000 = 0) :
    StepsF f (gToks alt acc apo n) N (N + n) := by
  unfold gToks
  by_cases hc : (n / 100 == 1 && n % 100 == 1 && alt) = true
  · rw [if_pos hc]
    simp only [Bool.and_eq_true, beq_iff_eq] at hc
    have : n = 101 := by omega
    subst this
    exact StepsF.atom plain_centuno (put101_exec N hN)
  · rw [if_neg hc]
    have s1 := hToks_steps f (n / 100) N (by omega) hN
    have hN' : (N + 100 * (n / 100)) % 100 = 0 := by omega
    by_cases he : elides alt (n / 100) (n % 100) = true
    · rw [if_pos he]
      have hr : n % 100 = 8 ∨ (80 ≤ n % 100 ∧ n % 100 < 90) := by
        unfold elides at he
        simp only [Bool.and_eq_true, Bool.or_eq_true, decide_eq_true_eq, beq_iff_eq] at he
        rcases he.2 with h | h
        · exact Or.inr ⟨h.1.1, h.1.2⟩
        · exact Or.inl h.1
      exact (StepsF.append s1 (eToks_steps f acc apo (n % 100) _ hr hN')).cast (by omega)
    · rw [if_neg he]
      exact (StepsF.append s1 (rToks_steps f acc apo (n % 100) _ (by omega) hN')).cast (by omega)

/-- a group below 100 only needs two free positions -/
theorem gToks_lt100 (alt acc apo : Bool) (r : Nat) (h : r < 100) : gToks alt acc apo r = rToks acc apo r := by
  unfold gToks
  have h1 : r / 100 = 0 := by omega
  have h2 : r % 100 = r := by omega
  rw [h1, h2]
  simp [hToks, elides]

/-! ## compound words -/

/-- **a compound word**: lemmatised to itself, split into `toks`, which are interpreted on a fresh builder
and give `m`; the result is merged into `k` free positions of the main builder -/
theorem compound_apply (W : Word) (toks : List Word) (k m N : Nat)
    (hlem : It.lemmatize W = W) (hsplit : isSplittable It.patterns W = true)
    (htoks : splitWord It.patterns W = toks) (hsteps : StepsF 0 toks 0 m)
    (m0 : m ≠ 0) (hm : m < 10 ^ k) (hk : k ≤ 3 ∨ k = 6) (hN : N % 10 ^ k = 0) :
    It.apply W (mk (lsb N)) = (none, mk (lsb (N + m))) := by
  have hmorph : It.morph W = .none := by
    unfold It.morph
    rw [hlem, if_neg (by simp)]
  have hex : execGroup (It.applyFuel 1) toks = .ok (mk (lsb m)) := by
    have := hsteps []
    rw [List.append_nil, lsb_zero, mk_nil] at this
    unfold execGroup
    rw [this, execGroupFrom, if_neg Bool.false_ne_true]
  have hlen := lsb_length_le k m hm
  have hcond : ((mk (lsb m)).len > 3 && (mk (lsb m)).len ≤ 6 && !(mk (lsb N)).rangeFree 3 5) = false := by
    have hl : (mk (lsb m)).len = (lsb m).length := rfl
    rcases hk with hk | hk
    · have : decide ((mk (lsb m)).len > 3) = false := by rw [hl]; simp; omega
      rw [this]; rfl
    · subst hk
      obtain ⟨A, rfl⟩ := exists_mul_of_mod N _ hN
      have := rangeFree_lsb 3 0 A (by decide) (by decide)
      rw [Nat.zero_add] at this
      rw [this]; simp
  unfold It.apply
  rw [It.applyFuel]
  dsimp only
  rw [hlem, if_pos hsplit, htoks, hex]
  dsimp only
  unfold mergeGroup
  rw [hcond, if_neg Bool.false_ne_true]
  have hp : (mk (lsb m)).rbuf.reverse = (lsb m).reverse := rfl
  rw [hp, put_lsb k m N m0 hm hN, hmorph]
  rfl

/-- **a word made of the atoms `T`** (one atom: a vocabulary word; several: a compound) -/
theorem word_step (T : List Word) (k m N : Nat) (hne : T ≠ [])
    (hchain : chainTo T none = true) (hlem : It.lemmatize (flat T) = flat T)
    (h0 : StepsF 0 T 0 m) (h1 : StepsF 1 T N (N + m))
    (m0 : m ≠ 0) (hm : m < 10 ^ k) (hk : k ≤ 3 ∨ k = 6) (hN : N % 10 ^ k = 0) :
    StepsF 1 [flat T] N (N + m) := by
  cases T with
  | nil => exact absurd rfl hne
  | cons a T =>
    cases T with
    | nil => rw [flat_single]; exact h1
    | cons b rest =>
      apply StepsF.single
      exact compound_apply _ _ k m N hlem (isSplittable_chain a b rest hchain) (splitWord_chain _ hchain) h0 m0 hm hk hN

/-! ### `lemmatize` leaves a compound alone -/

theorem dropWhile_append_ne_nil {α} (p : α → Bool) (l m : List α) (h : l.dropWhile p ≠ []) :
    (l ++ m).dropWhile p = l.dropWhile p ++ m := by
  induction l with
  | nil => exact absurd rfl h
  | cons a l ih =>
    rw [List.cons_append, List.dropWhile_cons, List.dropWhile_cons]
    by_cases ha : p a = true
    · rw [List.dropWhile_cons, if_pos ha] at h
      rw [if_pos ha, if_pos ha, ih h]
    · rw [if_neg ha, if_neg ha]; rfl

theorem getLast?_append_ne {α} (l l' : List α) (h : l' ≠ []) : (l ++ l').getLast? = l'.getLast? := by
  rw [List.getLast?_append, List.getLast?_eq_some_getLast h]; rfl

theorem trimEndBy_append (p : Char → Bool) (A B : Word) (h : trimEndBy p B ≠ []) :
    trimEndBy p (A ++ B) = A ++ trimEndBy p B := by
  unfold trimEndBy at *
  have h' : B.reverse.dropWhile p ≠ [] := by
    intro e; apply h; rw [e]; rfl
  rw [List.reverse_append, dropWhile_append_ne_nil p _ _ h', List.reverse_append, List.reverse_reverse]

/-- the trimmed word is not empty and does not end in `m` (so it is neither `…esim` nor `…decim`) -/
def tailOk (B : Word) : Bool :=
  !(trimEndBy It.isVowelEnding B).isEmpty && (trimEndBy It.isVowelEnding B).getLast? != some 'm'

theorem endsWith_false_of_last (w suf : Word) (c : Char) (hs : suf.getLast? = some c) (hw : w.getLast? ≠ some c) :
    endsWith w suf = false := by
  unfold endsWith
  cases h : suf.isSuffixOf w with
  | false => rfl
  | true =>
    rw [List.isSuffixOf_iff_suffix] at h
    obtain ⟨x, rfl⟩ := h
    exfalso; apply hw
    have hne : suf ≠ [] := by intro e; rw [e] at hs; cases hs
    rw [getLast?_append_ne _ _ hne, hs]

theorem lemmatize_append (A B : Word)
    (hl : A.contains 'l' = true ∨ (trimEndBy It.isVowelEnding B).contains 'l' = true) (hB : tailOk B = true) :
    It.lemmatize (A ++ B) = A ++ B := by
  unfold tailOk at hB
  simp only [Bool.and_eq_true, Bool.not_eq_true', bne_iff_ne, ne_eq] at hB
  have hne : trimEndBy It.isVowelEnding B ≠ [] := by
    intro e; rw [e] at hB; simp at hB
  have hlast : (A ++ trimEndBy It.isVowelEnding B).getLast? ≠ some 'm' := by
    rw [getLast?_append_ne _ _ hne]; exact hB.2
  have hcl : (A ++ trimEndBy It.isVowelEnding B).contains 'l' = true := by
    rw [List.contains_iff_mem] at *
    rcases hl with h | h
    · exact List.mem_append_left _ h
    · exact List.mem_append_right _ (List.contains_iff_mem.mp h)
  have hord : It.ordStems.contains (A ++ trimEndBy It.isVowelEnding B) = false := by
    cases h : It.ordStems.contains (A ++ trimEndBy It.isVowelEnding B) with
    | false => rfl
    | true =>
      rw [List.contains_iff_mem] at h
      have hall : ∀ s ∈ It.ordStems, s.contains 'l' = false := by decide
      rw [hall _ h] at hcl
      cases hcl
  unfold It.lemmatize
  dsimp only
  rw [trimEndBy_append _ A B hne, hord, Bool.false_and, Bool.false_or,
    endsWith_false_of_last _ w!"esim" 'm' rfl hlast, endsWith_false_of_last _ w!"decim" 'm' rfl hlast]
  rfl

end T2N.C01It
