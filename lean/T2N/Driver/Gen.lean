/-
  T2N.Driver.Gen — specification-driven input generation: `gen` requests are answered from the
  spellers in T2N/Spec (never from the model of the code): the phrase to feed to the implementation
  and what the property says the result must be.
-/
import T2N.Driver.Proto
import T2N.Spec.Spellers

namespace T2N.Gen
open T2N.Proto T2N.Spec

def showPhrase (ws : List Word) : String := escape (joinWords ws)

/-- the standard spelling (variant function constantly 0) -/
def std : Var := fun _ => 0

/-- variant function of a request seed: 0 = standard; `10^9 + k` = the UNIFORM variant (every choice point takes
option `k`: the extremes of the variant space, e.g. "spaces everywhere"); anything else = pseudo-random per choice point -/
def varOf (seed : Nat) : Var :=
  if seed == 0 then std else if seed ≥ 1000000000 then (fun _ => seed - 1000000000) else varOfSeed seed

/-- word normalisation used when comparing spellings in the pair rule: French plural `s`
(`quatre-vingts`, `cents`) is an inflection the property lists among the accepted variants -/
def normWord (code : String) (w : Word) : Word :=
  if code == "fr" && w != w!"trois" && w.length > 3 then trimEndBy (· == 's') w else w

/-- is `ws` (hyphens opened, conjunctions removed) a variant spelling of `c`, conjunctions being
optional? searched over a fixed family of variant seeds -/
def isSpellingOf (sp : Speller) (c : Nat) (ws : List Word) : Bool :=
  let norm (l : List Word) : List Word := ((openHyphens l).filter (· != sp.conj)).map (normWord sp.code)
  (List.range 48).any (fun s =>
    let v : Var := if s == 0 then std else varOfSeed s
    norm (sp.cardinal v c) == norm ws)

/-- C08: what `spell a (joiner) spell b` may be rewritten to: both numbers (with the joiner kept),
or the single number one of whose variant spellings consists of exactly the words of `a` and `b`
(the conjunction being optional, as in C01), or — a spoken zero first — the leading-zero reading of C16. -/
def allowedPair (sp : Speller) (a b : Nat) (withConj : Bool) : List Word :=
  let wa := sp.cardinal std a
  let wb := sp.cardinal std b
  let both : Word :=
    if withConj then decChars a ++ [' '] ++ sp.conj ++ [' '] ++ decChars b else decChars a ++ [' '] ++ decChars b
  let fused := ([a + b, a * b].eraseDups).filter (fun c => isSpellingOf sp c (wa ++ wb))
  let lead : List Word := if a == 0 then [['0'] ++ decChars b] else []
  both :: (lead ++ fused.map decChars)

def gen (fields : List String) : String :=
  match fields with
  | ["card", lc, n, seed] =>
    match spellerByCode lc with
    | none => "no-lang"
    | some sp =>
      let v : Var := varOf seed.toNat!
      showPhrase (sp.cardinal v n.toNat!) ++ "|" ++ escape (decChars n.toNat!)
  | ["ord", lc, n, seed, infl] =>
    match spellerByCode lc with
    | none => "no-lang"
    | some sp =>
      let v : Var := varOf seed.toNat!
      match sp.ordinal v n.toNat! infl.toNat! with
      | none => "-"
      | some (ws, mk) => showPhrase ws ++ "|" ++ escape (decChars n.toNat! ++ mk)
  | ["dec", lc, n, seed, ds] =>
    match spellerByCode lc with
    | none => "no-lang"
    | some sp =>
      let v : Var := varOf seed.toNat!
      let d := parseDigits ds
      showPhrase (sp.cardinal v n.toNat! ++ [sp.sepWord] ++ sp.fraction v d) ++ "|" ++
        escape (decChars n.toNat! ++ [sp.decMark] ++ d.map digitChar)
  | ["zeros", lc, k, n, seed] =>
    match spellerByCode lc with
    | none => "no-lang"
    | some sp =>
      let v : Var := varOf seed.toNat!
      showPhrase (List.replicate k.toNat! sp.zeroWord ++ sp.cardinal v n.toNat!) ++ "|" ++
        escape (List.replicate k.toNat! '0' ++ decChars n.toNat!)
  | ["zeroafter", lc, n, seed] =>
    match spellerByCode lc with
    | none => "no-lang"
    | some sp =>
      let v : Var := varOf seed.toNat!
      showPhrase (sp.cardinal v n.toNat! ++ [sp.zeroWord]) ++ "|" ++ escape (decChars n.toNat! ++ [' ', '0'])
  | ["dict", lc, ds] =>
    match spellerByCode lc with
    | none => "no-lang"
    | some sp =>
      let d := parseDigits ds
      showPhrase (d.map sp.digitWord) ++ "|" ++
        escape (joinWords ((dictationGroups d).map (fun g => g.map digitChar)))
  | ["pair", lc, a, b, j] =>
    match spellerByCode lc with
    | none => "no-lang"
    | some sp =>
      let wc := j == "1"
      let phrase := sp.cardinal std a.toNat! ++ (if wc then [sp.conj] else []) ++ sp.cardinal std b.toNat!
      showPhrase phrase ++ "|" ++ ";".intercalate ((allowedPair sp a.toNat! b.toNat! wc).map escape)
  | _ => "bad-gen"

end T2N.Gen
