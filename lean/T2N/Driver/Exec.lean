/-
  T2N.Driver.Exec — executes one request line on the model and renders the canonical answer.
-/
import T2N.Driver.Proto
import T2N.Model.Langs

namespace T2N.Exec
open T2N.Proto

/-- the fixed battery of queries reported after every builder operation -/
def queries (b : DS) : String :=
  let peeks := [0, 1, 2, 3, 6].map (fun k => showDigits (b.peek k))
  let frees := [0, 1, 2, 3, 4, 6].map (fun k => showBool (b.isFree k))
  let rfs := [(0, 1), (1, 2), (3, 5), (6, 8), (2, 9), (2, 2), (3, 1)].map (fun (s, e) =>
    match b.isRangeFree s e with
    | .ok v => showBool v
    | .error _ => "P")
  let pfs := [0, 1, 2, 3, 7].map (fun p => showBool (b.isPositionFree p))
  toString b.len ++ "," ++ showBool b.isEmpty ++ showBool b.isNull ++ showBool b.isOrdinal ++ "," ++
    "/".intercalate peeks ++ "," ++ String.join frees ++ "," ++ String.join rfs ++ "," ++ String.join pfs ++
    "," ++ showDigits b.render

inductive DsOp where
  | op (o : Op)
  | setFlags (n : Nat)
  | setMarker (m : Marker)
  | bad

def parseDsOp (s : String) : DsOp :=
  match s.splitOn ":" with
  | ["put", ds] => .op (.put (parseDigits ds))
  | ["at", d, p] => .op (.putAt (d.toNat!) (p.toNat!))
  | ["sh", p] => .op (.shift p.toNat!)
  | ["fput", ds] => .op (.fput (parseDigits ds))
  | ["push", ds] => .op (.push (parseDigits ds))
  | ["fr"] => .op .freeze
  | ["rs"] => .op .reset
  | ["setf", n] => .setFlags n.toNat!
  | "setm" :: rest => .setMarker (markerOfStr (":".intercalate rest))
  | _ => .bad

def runDs (ops : List String) : String := Id.run do
  let mut b := DS.new
  let mut outs : Array String := #[]
  for o in ops do
    match parseDsOp o with
    | .op op =>
      let (r, b') := b.step op
      b := b'
      outs := outs.push (showRes r ++ "|" ++ showState b ++ "|" ++ queries b)
    | .setFlags n => b := { b with flags := n }; outs := outs.push ("OK|" ++ showState b ++ "|" ++ queries b)
    | .setMarker m => b := { b with marker := m }; outs := outs.push ("OK|" ++ showState b ++ "|" ++ queries b)
    | .bad => outs := outs.push "bad-op"
  return ";".intercalate outs.toList

def withLang (code : String) (f : Lang → String) : String :=
  match langByCode code with
  | some l => f l
  | none => "no-lang"

def showFmt : Except Fault (String × Value) → String
  | .ok (t, v) => escapeStr t ++ "|" ++ showValue v
  | .error _ => "PANIC"

def exec (line : String) : String :=
  match line.splitOn "\t" with
  | ["ds", ops] => runDs ((ops.splitOn " ").filter (· ≠ ""))
  | ["apply", lc, w, st] => withLang lc fun l =>
      let (r, b) := l.apply (unescape w) (parseState st)
      showRes r ++ "|" ++ showState b
  | ["applydec", lc, w, st] => withLang lc fun l =>
      let (r, b) := l.applyDecimal (unescape w) (parseState st)
      showRes r ++ "|" ++ showState b
  | ["morph", lc, w] => withLang lc fun l => showMarker (l.morph (unescape w))
  | ["sep", lc, w] => withLang lc fun l => showBool (l.isDecSep (unescape w))
  | ["link", lc, w] => withLang lc fun l => showBool (l.isLinking (unescape w))
  | ["fmt", lc, st] => withLang lc fun l => showFmt (l.format (parseState st))
  | ["fmtdec", lc, st1, st2] => withLang lc fun l => showFmt (l.formatDecimal (parseState st1) (parseState st2))
  | _ => "bad-request"

end T2N.Exec
