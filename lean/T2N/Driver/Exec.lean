/-
  T2N.Driver.Exec — executes one request line on the model and renders the canonical answer.
-/
import T2N.Driver.Proto
import T2N.Driver.CC
import T2N.Model.Api
import T2N.Model.Script
import T2N.Driver.Gen
import T2N.Driver.Laws

namespace T2N.Exec
open T2N.Proto

/-- the fixed battery of queries reported after every builder operation -/
def queries (b : DS) : String :=
  -- (the last arguments of each list are extreme: usize::MAX = 2^64 - 1, 2^40)
  let umax : Nat := 18446744073709551615
  let peeks := [0, 1, 2, 3, 6, umax].map (fun k => showDigits (b.peek k))
  let frees := [0, 1, 2, 3, 4, 6, umax].map (fun k => showBool (b.isFree k))
  let rfs := [(0, 1), (1, 2), (3, 5), (6, 8), (2, 9), (2, 2), (3, 1), (0, umax), (1, umax), (umax - 1, umax), (5, 1099511627776)].map (fun (s, e) =>
    match b.isRangeFree s e with
    | .ok v => showBool v
    | .error _ => "P")
  let pfs := [0, 1, 2, 3, 7, 1099511627776, umax].map (fun p => showBool (b.isPositionFree p))
  toString b.len ++ "," ++ showBool b.isEmpty ++ showBool b.isNull ++ showBool b.isOrdinal ++ "," ++
    "/".intercalate peeks ++ "," ++ String.join frees ++ "," ++ String.join rfs ++ "," ++ String.join pfs ++
    "," ++ showDigits b.render

inductive DsOp where
  | op (o : Op)
  | setFlags (n : Nat)
  | setMarker (m : Marker)
  | bad

def parseDsOp (s : String) : DsOp :=
  match s.splitOn ":" with
  | ["put", ds] => .op (.put (parseDigits ds))
  | ["at", d, p] => .op (.putAt (d.toNat!) (p.toNat!))
  | ["sh", p] => .op (.shift p.toNat!)
  | ["fput", ds] => .op (.fput (parseDigits ds))
  | ["push", ds] => .op (.push (parseDigits ds))
  | ["fr"] => .op .freeze
  | ["rs"] => .op .reset
  | ["setf", n] => .setFlags n.toNat!
  | "setm" :: rest => .setMarker (markerOfStr (":".intercalate rest))
  | _ => .bad

def runDs (ops : List String) : String := Id.run do
  let mut b := DS.new
  let mut outs : Array String := #[("INIT|" ++ showState b ++ "|" ++ queries b)]
  for o in ops do
    match parseDsOp o with
    | .op op =>
      let (r, b') := b.step op
      b := b'
      outs := outs.push (showRes r ++ "|" ++ showState b ++ "|" ++ queries b)
    | .setFlags n => b := { b with flags := n }; outs := outs.push ("OK|" ++ showState b ++ "|" ++ queries b)
    | .setMarker m => b := { b with marker := m }; outs := outs.push ("OK|" ++ showState b ++ "|" ++ queries b)
    | .bad => outs := outs.push "bad-op"
  return ";".intercalate outs.toList

structure LangSel where
  lang : Lang
  annot : CharClasses → List Tok → List Tok

def facadeOf (code : String) : Option Language :=
  allLanguages.find? (fun l => String.ofList l.iso == code)

/-- `en`.. concrete interpreters, `L:en`.. the `Language` facade, `G:en`.. through
`get_interpreter_for`, `script` the scripted interpreter. In the model the first two coincide. -/
def selLang (code : String) : Option LangSel :=
  if code == "script" then some ⟨Script.lang, fun _ => id⟩
  else if code.startsWith "G:" then
    (getInterpreterFor (code.drop 2).toString.toList).map (fun l => ⟨l.interp, fun cc => l.annotate cc⟩)
  else
    let c := if code.startsWith "L:" then (code.drop 2).toString else code
    (facadeOf c).map (fun l => ⟨l.interp, fun cc => l.annotate cc⟩)

def withLang (code : String) (f : Lang → String) : String :=
  match selLang code with
  | some l => f l.lang
  | none => "no-lang"

def showFmt : Except Fault (String × Value) → String
  | .ok (t, v) => escapeStr t ++ "|" ++ showValue v
  | .error _ => "PANIC"

def showOcc (o : Occ) : String :=
  toString o.start ++ "-" ++ toString o.stop ++ ":" ++ escape o.text ++ ":" ++ showBool o.isOrdinal ++ ":" ++
    showValue o.value

def parseTok (s : String) : Tok :=
  match s.splitOn "," with
  | [t] => { text := unescape t, lower := [] }
  | [t, l] => { text := unescape t, lower := unescape l }
  | [t, l, n] => { text := unescape t, lower := unescape l, nan := n == "1" }
  | [t, l, n, a, b] => { text := unescape t, lower := unescape l, nan := n == "1", tstart := a.toNat!, tend := b.toNat! }
  | _ => { text := [], lower := [] }

def parseToks (s : String) : List Tok := ((s.splitOn " ").filter (· ≠ "")).map parseTok

def harnessSep (t prev : Tok) : Bool := t.tstart > prev.tend + 100

inductive OutTok where
  | kept (i : Nat)
  | repl (text : Word) (children : List OutTok)

def showOutTok : OutTok → String
  | .kept i => "K" ++ toString i
  | .repl t ch => "R" ++ escape t ++ "[" ++ ".".intercalate (ch.map (fun c => match c with | .kept i => toString i | .repl _ _ => "M")) ++ "]"

def iterTrace (cfg : ScanCfg) : Nat → Nat → Iter → List String → Except Fault (List String)
  | 0, _, _, acc => .ok acc.reverse
  | fuel + 1, nones, it, acc =>
    if nones ≥ 3 then .ok acc.reverse
    else
      match it.next cfg with
      | .error f => .error f
      | .ok (some o, it') => iterTrace cfg fuel nones it' ((showOcc o ++ "@" ++ toString it'.consumed) :: acc)
      | .ok (none, it') => iterTrace cfg fuel (nones + 1) it' (("N@" ++ toString it'.consumed) :: acc)

def runScan (cfg : ScanCfg) (toks : List Tok) : String :=
  match findNumbers cfg toks with
  | .error _ => "PANIC"
  | .ok occs =>
    match iterTrace cfg (toks.length + 8) 0 (iterNew toks) ["@0"] with
    | .error _ => "PANIC"
    | .ok trace =>
      let init : List OutTok := (List.range toks.length).map OutTok.kept
      match replaceStream (fun ch data => OutTok.repl data ch) init occs with
      | .error _ => "PANIC"
      | .ok out =>
        ",".intercalate (occs.map showOcc) ++ "|" ++ ",".intercalate trace ++ "|" ++
          ",".intercalate (out.map showOutTok)

def showVal : ValOut → String
  | .ok d => "OK:" ++ escape d
  | .err e => "ERR:" ++ e.toString
  | .panic => "PANIC"

def sigWords : List (String × Word) :=
  [("en", w!"seven"), ("fr", w!"sept"), ("es", w!"siete"), ("pt", w!"sete"), ("it", w!"sette"),
   ("de", w!"sieben"), ("nl", w!"zeven")]

def lookupSig (l : Lang) : String :=
  "+".intercalate ((sigWords.filter (fun (_, w) => match text2digitsWords l [w] with | .ok _ => true | _ => false)).map (·.1))

def exec (cc : CharClasses) (line : String) : String :=
  match line.splitOn "\t" with
  | "gen" :: rest => Gen.gen rest
  | ["ds", ops] => runDs ((ops.splitOn " ").filter (· ≠ ""))
  | ["apply", lc, w, st] => withLang lc fun l =>
      let (r, b) := l.apply (unescape w) (parseState st)
      showRes r ++ "|" ++ showState b
  | ["applydec", lc, w, st] => withLang lc fun l =>
      let (r, b) := l.applyDecimal (unescape w) (parseState st)
      showRes r ++ "|" ++ showState b
  | ["morph", lc, w] => withLang lc fun l => showMarker (l.morph (unescape w))
  | ["sep", lc, w] => withLang lc fun l => showBool (l.isDecSep (unescape w))
  | ["link", lc, w] => withLang lc fun l => showBool (l.isLinking (unescape w))
  | ["fmt", lc, st] => withLang lc fun l => showFmt (l.format (parseState st))
  | ["fmtdec", lc, st1, st2] => withLang lc fun l => showFmt (l.formatDecimal (parseState st1) (parseState st2))
  | ["val", lc, phrase] => withLang lc fun l => showVal (text2digits cc l (unescape phrase))
  | ["text", lc, thr, text] =>
    match selLang lc with
    | none => "no-lang"
    | some sel =>
      let cfg : ScanCfg := { lang := sel.lang, cc := cc, sep := noSep, thrLt := CC.thrLtBits (CC.parseHex thr) }
      match replaceTextWith cfg (sel.annot cc) (unescape text) with
      | .ok out => escape out
      | .error _ => "PANIC"
  | ["scan", lc, thr, toks] =>
    match selLang lc with
    | none => "no-lang"
    | some sel =>
      let cfg : ScanCfg := { lang := sel.lang, cc := cc, sep := harnessSep, thrLt := CC.thrLtBits (CC.parseHex thr) }
      runScan cfg (parseToks toks)
  | ["scanp", lc, thr, toks] =>
    -- tokens whose hint methods are the trait's defaults: no separation hint, never "not a number part"
    match selLang lc with
    | none => "no-lang"
    | some sel =>
      let cfg : ScanCfg := { lang := sel.lang, cc := cc, sep := noSep, thrLt := CC.thrLtBits (CC.parseHex thr) }
      let ts := (parseToks toks).map (fun t => { t with nan := false })
      match findNumbers cfg ts with
      | .error _ => "PANIC"
      | .ok occs =>
        let o := ",".intercalate (occs.map showOcc)
        o ++ "|" ++ o ++ "|" ++ showBool (DS.new.isEmpty)
  | ["occ", lc, thr, text] =>
    match selLang lc with
    | none => "no-lang"
    | some sel =>
      let cfg : ScanCfg := { lang := sel.lang, cc := cc, sep := noSep, thrLt := CC.thrLtBits (CC.parseHex thr) }
      let toks := sel.annot cc (tokenize cc (unescape text))
      match findNumbers cfg toks with
      | .error _ => "PANIC"
      | .ok occs =>
        ",".intercalate (occs.map showOcc) ++ "|" ++
          ",".intercalate (toks.map (fun t => escape t.text ++ ":" ++ showBool t.nan))
  | ["tok", text] =>
    ",".intercalate ((tokenize cc (unescape text)).map (fun t => escape t.text ++ ":" ++ escape t.lower))
  | ["annot", lc, toks] =>
    match selLang lc with
    | none => "no-lang"
    | some sel => String.join ((sel.annot cc (parseToks toks)).map (fun t => showBool t.nan))
  | ["lookup", code] =>
    match getInterpreterFor (unescape code) with
    | some l => "some:" ++ lookupSig l.interp
    | none => "none"
  | ["laws"] => CharLaws.showLaws cc
  | ["lawsdbg"] => CharLaws.showLawsDebug cc
  | ["lawsall", name] => CharLaws.showAllBad cc name
  | _ => "bad-request"

end T2N.Exec
