/-
  T2N.Driver.CC — executable `CharClasses` instance for the driver, loaded from a table dumped from
  Rust `std` by the harness (`t2n-harness cc-dump`), plus the decoding of f64 thresholds.
-/
import T2N.Model.Scanner

namespace T2N.CC

structure Table where
  ws : Array (Nat × Nat) := #[]
  alpha : Array (Nat × Nat) := #[]
  alnum : Array (Nat × Nat) := #[]
  lower : Array (Nat × List Nat) := #[]

/-- binary search in sorted disjoint ranges -/
def inRanges (rs : Array (Nat × Nat)) (c : Nat) : Bool := Id.run do
  let mut lo := 0
  let mut hi := rs.size
  while lo < hi do
    let mid := (lo + hi) / 2
    let (a, b) := rs[mid]!
    if c < a then hi := mid
    else if c > b then lo := mid + 1
    else return true
  return false

def lookupLower (t : Array (Nat × List Nat)) (c : Nat) : Option (List Nat) := Id.run do
  let mut lo := 0
  let mut hi := t.size
  while lo < hi do
    let mid := (lo + hi) / 2
    let (a, v) := t[mid]!
    if c < a then hi := mid
    else if c > a then lo := mid + 1
    else return some v
  return none

def asciiTable : Table :=
  { ws := #[(9, 13), (32, 32)], alpha := #[(65, 90), (97, 122)], alnum := #[(48, 57), (65, 90), (97, 122)],
    lower := (List.range 26).toArray.map (fun i => (65 + i, [97 + i])) }

def Table.toCC (t : Table) : CharClasses where
  isWhitespace := fun c => inRanges t.ws c.toNat
  isAlphabetic := fun c => inRanges t.alpha c.toNat
  isAlphanumeric := fun c => inRanges t.alnum c.toNat
  lower := fun c =>
    match lookupLower t.lower c.toNat with
    | some l => l.map Char.ofNat
    | none => [c]

def parseTable (content : String) : Table := Id.run do
  let mut t : Table := {}
  for line in content.splitOn "\n" do
    match line.splitOn " " with
    | ["W", a, b] => t := { t with ws := t.ws.push (a.toNat!, b.toNat!) }
    | ["A", a, b] => t := { t with alpha := t.alpha.push (a.toNat!, b.toNat!) }
    | ["N", a, b] => t := { t with alnum := t.alnum.push (a.toNat!, b.toNat!) }
    | "L" :: c :: rest => t := { t with lower := t.lower.push (c.toNat!, rest.map String.toNat!) }
    | _ => pure ()
  return t

/-- `n < threshold` for the f64 given by its bit pattern (exact; `n` a natural number). -/
def thrLtBits (bits : Nat) (n : Nat) : Bool :=
  let sign : Nat := bits / 2 ^ 63
  let e : Nat := (bits / 2 ^ 52) % 2048
  let m : Nat := bits % 2 ^ 52
  if e == 2047 then (m == 0 && sign == 0)       -- NaN: false; +inf: true; -inf: false
  else if sign == 1 then false                   -- negative or -0.0: never above a natural number
  else
    let (mant, ex) : Nat × Int := if e == 0 then (m, -1074) else (2 ^ 52 + m, (e : Int) - 1075)
    if ex ≥ 0 then n < mant * 2 ^ ex.toNat else n * 2 ^ (-ex).toNat < mant

def parseHex (s : String) : Nat :=
  s.toList.foldl (fun acc c =>
    let v := if '0' ≤ c && c ≤ '9' then c.toNat - 48
             else if 'a' ≤ c && c ≤ 'f' then c.toNat - 87
             else if 'A' ≤ c && c ≤ 'F' then c.toNat - 55 else 0
    acc * 16 + v) 0

end T2N.CC
