/-
  T2N.Driver.Laws — executable Boolean checkers for the LAWS about the character classes (`CharClasses`) that the
  text-level theorems take as hypotheses.  Pure `Bool` functions depending on the model only, so that the driver
  executable can evaluate them on the table dumped from Rust `std` (request `laws`) without importing a proof file.

  The matching `Prop`s live in the proof files (`WsText.WsLaws`, `C17.TextLaws`, `C11.CaseLaws`, …); soundness
  (`checkX cc = true → X cc`) is proved in T2N/Lemmas/CharLaws.lean, which also proves that the letter lists copied
  below are the ones of the proof files (`sepLetters_eq`, `alphabet_eq`).
-/
import T2N.Model.Api

namespace T2N.CharLaws

/-! ### evaluating a predicate on every `Char` -/

/-- `p (Char.ofNat i) && p (Char.ofNat (i+1)) && … ` for `fuel` consecutive code points from `i`
(tail recursive, structural on the fuel; stops at the first failure) -/
def allFrom (p : Char → Bool) : Nat → Nat → Bool
  | _, 0 => true
  | i, fuel + 1 => if p (Char.ofNat i) then allFrom p (i + 1) fuel else false

/-- `p` holds of every Unicode scalar value: `0 ..= 0xD7FF` and `0xE000 ..= 0x10FFFF` -/
def allChars (p : Char → Bool) : Bool :=
  allFrom p 0 0xD800 && allFrom p 0xE000 (0x110000 - 0xE000)

/-- the first code point from `i` (at most `fuel` of them) at which `p` fails -/
def firstFrom (p : Char → Bool) : Nat → Nat → Option Nat
  | _, 0 => none
  | i, fuel + 1 => if p (Char.ofNat i) then firstFrom p (i + 1) fuel else some i

/-- the first Unicode scalar value at which `p` fails (debugging aid for a failed law) -/
def firstBad (p : Char → Bool) : Option Nat :=
  match firstFrom p 0 0xD800 with
  | some n => some n
  | none => firstFrom p 0xE000 (0x110000 - 0xE000)

/-! ### the letter lists (copies; proved equal to the originals in T2N/Lemmas/CharLaws.lean) -/

/-- copy of `T2N.C17.sepLetters` (the `letters` of T2N/Lemmas/Inert.lean; French without `-`) -/
def sepLetters : Language → List Char
  | .english => w!"zeronughtfiswcdvxlyamb"
  | .french => w!"zérounièmepdxtsqachfvgl"
  | .german => w!"nuleisrtzwodvfüchbaögßm"
  | .italian => w!"zerounasimpdctéqvlbè"
  | .spanish => w!"cerounapimdsgtqxéhvzúóly"
  | .dutch => w!"nuléerstwdivjfzachgombë"
  | .portuguese => w!"zeroumpidsagntêcqxévühlãõb"

/-- copy of `T2N.C01Text.alphabet` -/
def alphabet : List Char := w!"abcdefghijklmnopqrstuvwxyzßàáâãäçèéêëíîïñóôõöùúûü"

/-! ### one predicate on characters per universally quantified law -/

/-- `WsText.WsLaws.not_alnum` and `.not_alpha` -/
def wsLawsAt (cc : CharClasses) (c : Char) : Bool :=
  !cc.isWhitespace c || (!cc.isAlphanumeric c && !cc.isAlphabetic c)

/-- `WsText.LowerWs` -/
def lowerWsAt (cc : CharClasses) (c : Char) : Bool :=
  !cc.isWhitespace c || (cc.lower c).all cc.isWhitespace

/-- `WsText.LowerWsNe` -/
def lowerWsNeAt (cc : CharClasses) (c : Char) : Bool :=
  !cc.isWhitespace c || !(cc.lower c).isEmpty

/-- `WsText.SepInert cc ls` -/
def sepInertAt (cc : CharClasses) (ls : List Char) (c : Char) : Bool :=
  cc.isAlphanumeric c || (cc.lower c).all (fun d => !ls.contains d)

/-- hypothesis `hlow` of `WsText.sepInert_of_alnum` -/
def lowerNonAlnumAt (cc : CharClasses) (c : Char) : Bool :=
  cc.isAlphanumeric c || (cc.lower c).all (fun d => !cc.isAlphanumeric d)

/-- the four fields of `C11.CaseLaws` -/
def caseLawsAt (cc : CharClasses) (c : Char) : Bool :=
  !(cc.lower c).isEmpty &&
  (cc.isWhitespace c == (cc.lower c).all cc.isWhitespace) &&
  (cc.isAlphabetic c == (cc.lower c).any cc.isAlphabetic) &&
  (!cc.isWhitespace c || cc.lower c == [c])

def caseNonemptyAt (cc : CharClasses) (c : Char) : Bool := !(cc.lower c).isEmpty
def caseWsIffAt (cc : CharClasses) (c : Char) : Bool := cc.isWhitespace c == (cc.lower c).all cc.isWhitespace
def caseAlphaIffAt (cc : CharClasses) (c : Char) : Bool := cc.isAlphabetic c == (cc.lower c).any cc.isAlphabetic
def caseWsLowerIdAt (cc : CharClasses) (c : Char) : Bool := !cc.isWhitespace c || cc.lower c == [c]

/-- `C01Text.TextLaws.ws_not_alnum` -/
def wsNotAlnumAt (cc : CharClasses) (c : Char) : Bool :=
  !cc.isWhitespace c || !cc.isAlphanumeric c

/-- the seven fields of `C11.Recasing cc f` -/
def recasingAt (cc : CharClasses) (f : Char → Char) (c : Char) : Bool :=
  (cc.isAlphanumeric (f c) == cc.isAlphanumeric c) &&
  (cc.isAlphabetic (f c) == cc.isAlphabetic c) &&
  (cc.isWhitespace (f c) == cc.isWhitespace c) &&
  ((f c == '-') == (c == '-')) &&
  ((f c == '\'') == (c == '\'')) &&
  ((f c == '.') == (c == '.')) &&
  (cc.lower (f c) == cc.lower c)

/-! ### the checkers -/

/-- `WsText.WsLaws cc` -/
def checkWsLaws (cc : CharClasses) : Bool :=
  allChars (wsLawsAt cc) && !cc.isWhitespace '-' && !cc.isWhitespace '\''

/-- `WsText.LowerWs cc` -/
def checkLowerWs (cc : CharClasses) : Bool := allChars (lowerWsAt cc)

/-- `WsText.LowerWsNe cc` -/
def checkLowerWsNe (cc : CharClasses) : Bool := allChars (lowerWsNeAt cc)

/-- `WsText.SepInert cc ls` -/
def checkSepInert (cc : CharClasses) (ls : List Char) : Bool := allChars (sepInertAt cc ls)

/-- the two hypotheses of `WsText.sepInert_of_alnum` for the letters `ls` -/
def checkLowerNonAlnum (cc : CharClasses) : Bool := allChars (lowerNonAlnumAt cc)

def needsLowerWs : Language → Bool
  | .english => true
  | .french => true
  | _ => false

/-- `C17.TextLaws cc l` -/
def checkTextLaws (cc : CharClasses) (l : Language) : Bool :=
  checkWsLaws cc && checkSepInert cc (sepLetters l) && (!needsLowerWs l || checkLowerWs cc)

/-- `C11.CaseLaws cc` -/
def checkCaseLaws (cc : CharClasses) : Bool := allChars (caseLawsAt cc)

/-- `C11.Recasing cc f` -/
def checkRecasing (cc : CharClasses) (f : Char → Char) : Bool := allChars (recasingAt cc f)

/-- `C01Text.TextLaws cc` -/
def checkC01TextLaws (cc : CharClasses) : Bool :=
  cc.isWhitespace ' ' && (cc.lower ' ' == [' ']) && allChars (wsNotAlnumAt cc) &&
  !cc.isAlphanumeric '-' && (cc.lower '-' == ['-'])

/-- `C01Text.AlphaLaws cc`, for the alphabet `ls` -/
def checkAlphaLaws (cc : CharClasses) (ls : List Char) : Bool :=
  ls.all (fun c => cc.isAlphanumeric c && cc.lower c == [c])

/-- `CommaChar cc` -/
def checkCommaChar (cc : CharClasses) : Bool :=
  !cc.isWhitespace ',' && !cc.isAlphabetic ','

/-- the in-line hypothesis `hspace : cfg.cc.isWhitespace ' ' = true` of `C01_…`/`C07_…` -/
def checkSpaceWs (cc : CharClasses) : Bool := cc.isWhitespace ' '

def langName : Language → String
  | .english => "en"
  | .french => "fr"
  | .german => "de"
  | .italian => "it"
  | .spanish => "es"
  | .dutch => "nl"
  | .portuguese => "pt"

def languages : List Language := [.english, .french, .german, .italian, .spanish, .dutch, .portuguese]

/-- every law by name (one entry per language for the language-indexed ones); specification -/
def checkAllLawsSpec (cc : CharClasses) : List (String × Bool) :=
  [("WsLaws", checkWsLaws cc),
   ("LowerWs", checkLowerWs cc),
   ("LowerWsNe", checkLowerWsNe cc)] ++
  languages.map (fun l => ("SepInert." ++ langName l, checkSepInert cc (sepLetters l))) ++
  languages.map (fun l => ("C17.TextLaws." ++ langName l, checkTextLaws cc l)) ++
  [("LowerNonAlnum", checkLowerNonAlnum cc),
   ("C11.CaseLaws", checkCaseLaws cc),
   ("C11.Recasing.asciiUpper", checkRecasing cc Char.toUpper),
   ("C11.Recasing.asciiLower", checkRecasing cc Char.toLower),
   ("C01Text.TextLaws", checkC01TextLaws cc),
   ("C01Text.AlphaLaws", checkAlphaLaws cc alphabet),
   ("CommaChar", checkCommaChar cc),
   ("SpaceWs", checkSpaceWs cc)]

/-- `checkAllLawsSpec` with every pass over the characters made once (`checkAllLaws_eq_spec` in
T2N/Lemmas/CharLaws.lean): what the driver evaluates -/
def checkAllLaws (cc : CharClasses) : List (String × Bool) :=
  let ws := checkWsLaws cc
  let lw := checkLowerWs cc
  let seps := languages.map (fun l => (l, checkSepInert cc (sepLetters l)))
  [("WsLaws", ws),
   ("LowerWs", lw),
   ("LowerWsNe", checkLowerWsNe cc)] ++
  seps.map (fun (l, b) => ("SepInert." ++ langName l, b)) ++
  seps.map (fun (l, b) => ("C17.TextLaws." ++ langName l, ws && b && (!needsLowerWs l || lw))) ++
  [("LowerNonAlnum", checkLowerNonAlnum cc),
   ("C11.CaseLaws", checkCaseLaws cc),
   ("C11.Recasing.asciiUpper", checkRecasing cc Char.toUpper),
   ("C11.Recasing.asciiLower", checkRecasing cc Char.toLower),
   ("C01Text.TextLaws", checkC01TextLaws cc),
   ("C01Text.AlphaLaws", checkAlphaLaws cc alphabet),
   ("CommaChar", checkCommaChar cc),
   ("SpaceWs", checkSpaceWs cc)]

def showLaws (cc : CharClasses) : String :=
  " ".intercalate ((checkAllLaws cc).map (fun (n, b) => n ++ "=" ++ (if b then "1" else "0")))

/-! ### debugging: the first offending character of each universally quantified law -/

def showBad (cc : CharClasses) (n : Option Nat) : String :=
  match n with
  | none => "ok"
  | some n =>
    let c := Char.ofNat n
    "U+" ++ String.ofList (Nat.toDigits 16 n) ++
      "[ws=" ++ (if cc.isWhitespace c then "1" else "0") ++
      ",alpha=" ++ (if cc.isAlphabetic c then "1" else "0") ++
      ",alnum=" ++ (if cc.isAlphanumeric c then "1" else "0") ++
      ",lower=" ++ "+".intercalate ((cc.lower c).map (fun d => String.ofList (Nat.toDigits 16 d.toNat))) ++ "]"

/-- all failing code points of `p` (debugging; allocates) -/
def allBad (p : Char → Bool) : List Nat :=
  ((List.range 0x110000).filter (fun n => (n < 0xD800 || 0xDFFF < n) && !p (Char.ofNat n)))

def lawsDebug (cc : CharClasses) : List (String × Option Nat) :=
  [("WsLaws", firstBad (wsLawsAt cc)),
   ("LowerWs", firstBad (lowerWsAt cc)),
   ("LowerWsNe", firstBad (lowerWsNeAt cc))] ++
  languages.map (fun l => ("SepInert." ++ langName l, firstBad (sepInertAt cc (sepLetters l)))) ++
  [("LowerNonAlnum", firstBad (lowerNonAlnumAt cc)),
   ("C11.CaseLaws.lower_nonempty", firstBad (caseNonemptyAt cc)),
   ("C11.CaseLaws.ws_iff", firstBad (caseWsIffAt cc)),
   ("C11.CaseLaws.alpha_iff", firstBad (caseAlphaIffAt cc)),
   ("C11.CaseLaws.ws_lower_id", firstBad (caseWsLowerIdAt cc)),
   ("C11.Recasing.asciiUpper", firstBad (recasingAt cc Char.toUpper)),
   ("C11.Recasing.asciiLower", firstBad (recasingAt cc Char.toLower)),
   ("C01Text.TextLaws.ws_not_alnum", firstBad (wsNotAlnumAt cc)),
   ("C01Text.AlphaLaws", (alphabet.find? (fun c => !(cc.isAlphanumeric c && cc.lower c == [c]))).map Char.toNat)]

def showLawsDebug (cc : CharClasses) : String :=
  " ".intercalate ((lawsDebug cc).map (fun (n, b) => n ++ "=" ++ showBad cc b))

/-- every failing code point of the named per-character law (request `lawsall`) -/
def showAllBad (cc : CharClasses) (name : String) : String :=
  let p : Option (Char → Bool) :=
    match name with
    | "WsLaws" => some (wsLawsAt cc)
    | "LowerWs" => some (lowerWsAt cc)
    | "LowerWsNe" => some (lowerWsNeAt cc)
    | "LowerNonAlnum" => some (lowerNonAlnumAt cc)
    | "C11.CaseLaws" => some (caseLawsAt cc)
    | "C11.CaseLaws.lower_nonempty" => some (caseNonemptyAt cc)
    | "C11.CaseLaws.ws_iff" => some (caseWsIffAt cc)
    | "C11.CaseLaws.alpha_iff" => some (caseAlphaIffAt cc)
    | "C11.CaseLaws.ws_lower_id" => some (caseWsLowerIdAt cc)
    | "C11.Recasing.asciiUpper" => some (recasingAt cc Char.toUpper)
    | "C11.Recasing.asciiLower" => some (recasingAt cc Char.toLower)
    | "C01Text.TextLaws.ws_not_alnum" => some (wsNotAlnumAt cc)
    | _ => (languages.find? (fun l => "SepInert." ++ langName l == name)).map (fun l => sepInertAt cc (sepLetters l))
  match p with
  | none => "no-law"
  | some p => " ".intercalate ((allBad p).map (fun n => showBad cc (some n)))

end T2N.CharLaws
