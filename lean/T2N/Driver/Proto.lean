/-
  T2N.Driver.Proto — line protocol shared with the Rust harness (see DESIGN.md §2.5).
  Text fields are percent-escaped UTF-8: bytes that are ASCII alphanumerics or one of `-'._` are
  literal, every other byte is `%XX`.
-/
import T2N.Model.Lang

namespace T2N.Proto

def hexDigit (n : Nat) : Char :=
  if n < 10 then Char.ofNat (48 + n) else Char.ofNat (55 + n)

def hexVal (c : Char) : Nat :=
  if '0' ≤ c && c ≤ '9' then c.toNat - 48
  else if 'A' ≤ c && c ≤ 'F' then c.toNat - 55
  else if 'a' ≤ c && c ≤ 'f' then c.toNat - 87
  else 0

def isLiteralByte (b : UInt8) : Bool :=
  (48 ≤ b && b ≤ 57) || (65 ≤ b && b ≤ 90) || (97 ≤ b && b ≤ 122) ||
  b == 45 || b == 39 || b == 46 || b == 95

def escapeStr (s : String) : String := Id.run do
  let mut out := ""
  for b in s.toUTF8 do
    if isLiteralByte b then out := out.push (Char.ofNat b.toNat)
    else
      out := out.push '%'
      out := out.push (hexDigit (b.toNat / 16))
      out := out.push (hexDigit (b.toNat % 16))
  return out

def escape (w : Word) : String := escapeStr (String.ofList w)

def unescapeBytes (cs : List Char) (acc : ByteArray) : ByteArray :=
  match cs with
  | [] => acc
  | '%' :: a :: b :: rest => unescapeBytes rest (acc.push (UInt8.ofNat (hexVal a * 16 + hexVal b)))
  | c :: rest => unescapeBytes rest (acc.push (UInt8.ofNat c.toNat))

def unescapeStr (s : String) : String :=
  match String.fromUTF8? (unescapeBytes s.toList ByteArray.empty) with
  | some r => r
  | none => "�"

def unescape (s : String) : Word := (unescapeStr s).toList

def parseDigits (s : String) : List Nat := s.toList.map (fun c => c.toNat - 48)

def showDigits (ds : List Nat) : String := digitsToString ds

def showBool (b : Bool) : String := if b then "1" else "0"

def showRes : Res → String
  | none => "OK"
  | some e => "ERR:" ++ e.toString

def markerOfStr (s : String) : Marker :=
  let mk (t : String) : Option Mk :=
    [Mk.th, .ths, .st, .nd, .rd, .rds, .eme, .emes, .er, .ers, .ere, .eres, .mo, .fa, .mos, .fas,
     .esPrimer, .dot, .nlE, .avo].find? (fun m => m.str == t)
  if s == "-" then .none
  else if s.startsWith "O:" then
    match mk (unescapeStr (s.drop 2).toString) with | some m => .ordinal m | none => .none
  else if s.startsWith "F:" then
    match mk (unescapeStr (s.drop 2).toString) with | some m => .fraction m | none => .none
  else .none

def showMarker : Marker → String
  | .none => "-"
  | .ordinal m => "O:" ++ escapeStr m.str
  | .fraction m => "F:" ++ escapeStr m.str

/-- builder state `buf|lz|frozen|flags|marker` (buf most significant first) -/
def showState (b : DS) : String :=
  showDigits b.rbuf.reverse ++ "|" ++ toString b.lz ++ "|" ++ showBool b.frozen ++ "|" ++
    toString b.flags ++ "|" ++ showMarker b.marker

def parseState (s : String) : DS :=
  match s.splitOn "|" with
  | [buf, lz, fr, fl, mk] =>
    { rbuf := (parseDigits buf).reverse, lz := lz.toNat!, frozen := fr == "1", flags := fl.toNat!,
      marker := markerOfStr mk }
  | _ => {}

def showValue : Value → String
  | .dec i [] => "D" ++ showDigits i
  | .dec i f => "D" ++ showDigits i ++ "." ++ showDigits f
  | .recip i => "R" ++ showDigits i

end T2N.Proto
