/-
  C03 — Totality: every public entry point returns for every input, never panics.

  The model makes every way the Rust code can panic explicit (`Fault`): the `unwrap()` on the float
  parse of an empty digit text, `Vec::drain` on a bad range, the `debug_assert!` of `is_range_free`.
  The theorems below show that no entry point reaches any of them, for every language value, every
  token stream / text, every threshold function (including those of NaN and ±∞) and every char classes.
  Termination is by construction: every model function is structurally recursive (Lean accepted them
  without `partial`); the one recursion of the Rust (`apply → exec_group → apply`) is bounded by fuel.
  Byte-offset slicing of `&str`, allocation and stack depth are outside the model (oracle only).
-/
import T2N.Lemmas.Scanner
import T2N.Props.C06

namespace T2N.C03
open T2N

/-- `find_numbers` returns a value -/
theorem C03_findNumbers (cfg : ScanCfg) (toks : List Tok) : ∃ occs, findNumbers cfg toks = .ok occs := by
  obtain ⟨occs, h, _⟩ := findNumbers_ok cfg toks
  exact ⟨occs, h⟩

/-- `replace_numbers_in_stream` returns a value (the `drain(start..end)` ranges are always valid) -/
theorem C03_replaceStream {T} (mk : List T → Word → T) (cfg : ScanCfg) (toks : List Tok) (ts : List T)
    (hlen : ts.length = toks.length) :
    ∃ occs out, findNumbers cfg toks = .ok occs ∧ replaceStream mk ts occs = .ok out := by
  obtain ⟨occs, h⟩ := C03_findNumbers cfg toks
  have hs := C06.C06_spansOk cfg toks occs h
  rw [← hlen] at hs
  exact ⟨occs, _, h, C02.C02_replace_is_splice mk ts occs hs⟩

/-- `replace_numbers_in_text` returns a value, whatever the annotation pass does to the tokens -/
theorem C03_replaceText (cfg : ScanCfg) (annot : List Tok → List Tok) (s : Word) :
    ∃ out, replaceTextWith cfg annot s = .ok out := by
  unfold replaceTextWith
  obtain ⟨occs, out, h1, h2⟩ := C03_replaceStream (basicReplace cfg.cc) cfg (annot (tokenize cfg.cc s))
    (annot (tokenize cfg.cc s)) rfl
  simp only [h1, h2]
  exact ⟨_, rfl⟩

theorem C03_replaceText_language (cc : CharClasses) (l : Language) (thr : Nat → Bool) (s : Word) :
    ∃ out, replaceText cc l thr s = .ok out :=
  C03_replaceText _ _ s

/-- `text2digits` never panics: it returns digits or an error value -/
theorem C03_text2digits (cc : CharClasses) (l : Lang) (s : Word) : text2digits cc l s ≠ .panic := by
  unfold text2digits text2digitsWords
  cases execGroup l.apply (cc.splitWhitespace (cc.lowerStr s)) with
  | error e => simp
  | ok ds =>
    by_cases he : ds.isEmpty = true
    · simp [he]
    · have he' : ds.isEmpty = false := by simpa using he
      obtain ⟨r, hr⟩ := formatW_ok l ds he'
      simp [he', hr]

/-- validation of an empty or whitespace-only text reports an error -/
theorem C03_text2digits_empty (l : Lang) : text2digitsWords l [] = .err .nan := by
  simp [text2digitsWords, execGroup, execGroupFrom, DS.new, DS.isEmpty]

/-- the lazy iterator: the loop of `next` returns (an occurrence or the end) from every state that
satisfies the scanner invariant, on every remaining enumerated input -/
theorem C03_iter_drive (cfg : ScanCfg) (toks : List Tok) :
    ∀ (s : Scanner) (pos n : Nat), ScInv s pos →
      ∃ r, Iter.drive cfg s (enumFrom pos toks) n = .ok r ∧ ∃ q, ScInv r.2.sc q := by
  induction toks with
  | nil =>
    intro s pos n h
    obtain ⟨s', h1, h2⟩ := finalize_ok cfg s pos h
    simp only [enumFrom, Iter.drive, h1]
    cases hq : s'.tracker.queue with
    | nil => exact ⟨_, rfl, pos, h2⟩
    | cons o ms =>
      refine ⟨_, rfl, pos, ?_⟩
      obtain ⟨a1, a2, a3⟩ := h2
      rw [hq] at a3
      exact ⟨a1, a2, a3.tail⟩
  | cons tok toks ih =>
    intro s pos n h
    obtain ⟨s', h1, h2⟩ := push_ok cfg s pos tok h
    simp only [enumFrom, Iter.drive, h1]
    cases hq : s'.tracker.queue with
    | cons o ms =>
      refine ⟨_, rfl, pos + 1, ?_⟩
      obtain ⟨a1, a2, a3⟩ := h2
      rw [hq] at a3
      exact ⟨a1, a2, a3.tail⟩
    | nil => exact ih s' (pos + 1) (n + 1) h2

/-- any number of calls to `next`: each returns -/
theorem C03_iter_next (cfg : ScanCfg) (it : Iter) (pos : Nat) (toks : List Tok)
    (hrest : it.rest = enumFrom pos toks) (h : ScInv it.sc pos) :
    ∃ r, it.next cfg = .ok r := by
  unfold Iter.next
  cases hq : it.sc.tracker.queue with
  | cons o ms => exact ⟨_, rfl⟩
  | nil =>
    dsimp only
    rw [hrest]
    obtain ⟨r, hr, _⟩ := C03_iter_drive cfg toks it.sc pos it.consumed h
    exact ⟨r, hr⟩

/-- `get_interpreter_for` is a total function of its argument -/
theorem C03_lookup_total (c : Word) : getInterpreterFor c = none ∨ ∃ l, getInterpreterFor c = some l := by
  cases getInterpreterFor c with
  | none => exact Or.inl rfl
  | some l => exact Or.inr ⟨l, rfl⟩

end T2N.C03
