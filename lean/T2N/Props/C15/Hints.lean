/-
  C15 (continued) — the token hints at the level of the reported occurrences, and the look-ahead of the
  lazy iterator.

  * `C15_nan_outside`: a token hinted "not a number part" is inside no occurrence (such a token is never
    skipped, even when it is white space or a lone `-`: `Hints.isSkipped_of_nan`).
  * `C15_sep_splits`: a (non-skipped) token hinted "separated from its predecessor" is never in the same
    occurrence as anything before it.
  * `C15_sep_as_comma`: the hint gives the occurrences that a comma token inserted in front of the token
    gives (positions from the token on shifted by one), for every token that is not skipped and not hinted
    "not a number part" (`C15_sep_as_comma_incomplete`: the Dutch instance with a word answered `Incomplete`).
    The left-out case — the token is hinted "not a number part" as well — is `C15_sep_as_comma_nan` (end of
    the file): such a token never consults the separation hint, and a comma token in front of it is invisible;
    this needs one more fact about the language (`HintsNan.Inert cfg.lang [',']`: the refused forced stop
    leaves what `finish` / `isOrdinal` observe unchanged), true of the seven interpreters
    (`C15_stop_inert_builtin`). `C15_sep_as_comma_any`, `C15_sep_as_comma_any_builtin`: the statement of
    `C15_sep_as_comma` without the restriction on the "not a number part" hint.
  * `C15_lookahead_bound`: when `next` returns the k-th occurrence, at most `occs[k+2].start + 1` tokens
    have been read (all of them if there is no `occs[k+2]`); `C15_on_demand`, `C15_on_demand_minimal`:
    a queued occurrence is returned without reading anything, and the reading stops at the first token
    whose push decides an occurrence.

  Assumptions on the language (all proved for the seven interpreters, `C15_builtin`): `LangOk`
  (T2N/Lemmas/Strict.lean), `Lang.ErrFresh` and `Lang.Rejects [',']` (T2N/Lemmas/Reset.lean: a word
  refused by the pristine builder leaves it pristine; the forced stop `","` is refused in every parser
  state with an error other than `Incomplete`).
-/
import T2N.Lemmas.Hints
import T2N.Lemmas.HintsNan
import T2N.Props.C06
import T2N.Props.C07
import T2N.Props.C10
import T2N.Props.C15

namespace T2N.C15
open T2N T2N.Hints

/-! ### the assumptions hold for the seven interpreters -/

theorem C15_en_rejects_comma : En.lang.Rejects [','] :=
  Lang.rejects_of_apply En.lang [','] (fun _ => ⟨.nan, rfl, by intro h; cases h⟩)
    (fun _ => ⟨.nan, rfl, by intro h; cases h⟩) rfl

theorem C15_builtin (l : Lang) (hl : l ∈ allLangs) : LangOk l ∧ l.ErrFresh ∧ l.Rejects [','] := by
  simp only [allLangs, List.mem_cons, List.not_mem_nil, or_false] at hl
  rcases hl with rfl | rfl | rfl | rfl | rfl | rfl | rfl
  · exact ⟨C06.C06_langOk_en, C10.C10_en_errFresh, C15_en_rejects_comma⟩
  · exact ⟨C06.C06_langOk_fr, C10.C10_fr_errFresh, C10.C10_fr_rejects_comma⟩
  · exact ⟨C06.C06_langOk_es, C10.C10_es_errFresh, C10.C10_es_rejects_comma⟩
  · exact ⟨C06.C06_langOk_pt, C10.C10_pt_errFresh, C10.C10_pt_rejects_comma⟩
  · exact ⟨C06.C06_langOk_it, C10.C10_it_errFresh, C10.C10_it_rejects_comma⟩
  · exact ⟨C06.C06_langOk_de, C10.C10_de_errFresh, C10.C10_de_rejects_comma⟩
  · exact ⟨C06.C06_langOk_nl, C10.C10_nl_errFresh, C10.C10_nl_rejects_comma⟩

/-- the explicit character classes of the instance tables treat the comma as punctuation -/
theorem C15_commaChar_simple : CommaChar simpleCC := ⟨by decide, by decide⟩

/-! ### "not a number part" -/

/-- the hint is looked at before the scanner decides to skip a token -/
theorem C15_nan_never_skipped (cfg : ScanCfg) (tok : Tok) (hnan : tok.nan = true) :
    Scanner.isSkipped cfg tok = false := isSkipped_of_nan cfg tok hnan

/-- **C15 (not a number part)**: for every configuration whose language satisfies `LangOk`, every token
stream and threshold: a token that declares itself "not a number part" is inside no occurrence — whatever
its text: a white-space token or a lone `-` carrying the hint is not skipped (`C15_nan_never_skipped`,
instance `C15_nan_whitespace_outside`). -/
theorem C15_nan_outside (cfg : ScanCfg) (hl : LangOk cfg.lang) (toks : List Tok) (occs : List Occ)
    (h : findNumbers cfg toks = .ok occs) (i : Nat) (hi : i < toks.length) (hnan : toks[i].nan = true) :
    ∀ o ∈ occs, ¬ (o.start ≤ i ∧ i < o.stop) := by
  have hlen := length_take_lt toks i hi
  have hsplit := split_at toks i hi
  rw [hsplit] at h
  have key := findNumbers_cut cfg hl (toks.take i) (toks.drop (i + 1)) toks[i] (i + 1) i occs
    (by rw [hlen]; exact Nat.le_refl _)
    (by
      intro s s' _ hsc hsi he
      rw [hlen] at hsc he
      exact push_nan_cut cfg s s' i toks[i] hsc hsi hnan he) h
  intro o ho hc
  exact key o ho ⟨by omega, hc.2⟩

/-! ### "separated from the predecessor" -/

/-- **C15 (separated)**: the predecessor of token `i` is the last token before it that the scanner does
not skip (`prevSig`, = `(… filter not-skipped).getLast?`: `prevSig_eq`). If token `i` (not skipped) declares
itself unrelated to its predecessor, no occurrence contains token `i` together with any earlier position.
Assumes `LangOk` and that the forced stop `","` is refused in every parser state. -/
theorem C15_sep_splits (cfg : ScanCfg) (hl : LangOk cfg.lang) (hc : cfg.lang.Rejects [','])
    (toks : List Tok) (occs : List Occ) (h : findNumbers cfg toks = .ok occs) (i : Nat)
    (hi : i < toks.length) (p : Tok) (hp : prevSig cfg (toks.take i) = some p)
    (hsep : cfg.sep toks[i] p = true) (hs : Scanner.isSkipped cfg toks[i] = false) :
    ∀ o ∈ occs, ¬ (o.start < i ∧ i < o.stop) := by
  have hlen := length_take_lt toks i hi
  have hsplit := split_at toks i hi
  rw [hsplit] at h
  exact findNumbers_cut cfg hl (toks.take i) (toks.drop (i + 1)) toks[i] i i occs
    (by rw [hlen]; omega)
    (by
      intro s s' eA hsc hsi he
      rw [hlen] at hsc he
      have hprev : s.previous = some p := by
        rw [pushAll_previous cfg (toks.take i) {} s 0 eA]; exact hp
      exact push_sep_cut cfg hl hc s s' i toks[i] p hsc hsi hprev hsep hs he) h

/-- the same in the form "prefix, token, suffix" -/
theorem C15_sep_splits' (cfg : ScanCfg) (hl : LangOk cfg.lang) (hc : cfg.lang.Rejects [','])
    (A B : List Tok) (t p : Tok) (occs : List Occ) (h : findNumbers cfg (A ++ t :: B) = .ok occs)
    (hp : prevSig cfg A = some p) (hsep : cfg.sep t p = true) (hs : Scanner.isSkipped cfg t = false) :
    ∀ o ∈ occs, ¬ (o.start < A.length ∧ A.length < o.stop) :=
  findNumbers_cut cfg hl A B t A.length A.length occs (by omega)
    (by
      intro s s' eA hsc hsi he
      have hprev : s.previous = some p := by
        rw [pushAll_previous cfg A {} s 0 eA]; exact hp
      exact push_sep_cut cfg hl hc s s' A.length t p hsc hsi hprev hsep hs he) h

/-! ### the hint is a spoken comma -/

/-- **C15 (the hint is a spoken comma)**: let the token `t`, after the tokens `A` and before the tokens
`B`, declare itself unrelated to its predecessor `p`. Then the stream `A, t, B` and the stream
`A, ",", t, B` (a comma token without hints inserted in front of `t`; the hint of `t` may stay, it is no
longer consulted) yield the same occurrences, the positions from `t` on being shifted by one.

Assumptions: `LangOk`, `ErrFresh`, the forced stop is refused in every state (all seven interpreters:
`C15_builtin`); the comma is neither white space nor a letter for the character classes; `t` is not a
skipped token and not hinted "not a number part" (such tokens never consult the hint). Nothing is assumed
of the word of `t`: when the forced stop has ended the number, `t` is tried on the pristine parser with the
three outcomes of an ordinary push (accepted / `Incomplete`: skipped / refused: outside), which is what
happens to `t` after a spoken comma. -/
theorem C15_sep_as_comma (cfg : ScanCfg) (hl : LangOk cfg.lang) (hf : cfg.lang.ErrFresh)
    (hc : cfg.lang.Rejects [',']) (hcc : CommaChar cfg.cc) (A B : List Tok) (t p : Tok)
    (hp : prevSig cfg A = some p) (hsep : cfg.sep t p = true)
    (hs : Scanner.isSkipped cfg t = false) (hnan : t.nan = false) :
    ∃ occs, findNumbers cfg (A ++ t :: B) = .ok occs ∧
      findNumbers cfg (A ++ commaTok :: t :: B) = .ok (occs.map (shiftFrom A.length)) := by
  obtain ⟨occs, h1, h2⟩ := findNumbers_comma cfg hl hf hc hcc A B t p hp hsep hs hnan
  refine ⟨occs, h1, ?_⟩
  rw [h2]
  congr 1
  apply List.map_congr_left
  intro o ho
  have hcut := C15_sep_splits' cfg hl hc A B t p occs h1 hp hsep hs o ho
  have hstrict := C06.C06_strict cfg hl (A ++ t :: B) occs h1 o ho
  cases o with
  | mk a b tx v od =>
    simp only at hcut hstrict
    simp only [Hints.shiftOcc, shiftFrom, Hints.sA, Hints.sB]
    by_cases hle : A.length ≤ a
    · rw [if_pos ⟨hle, by omega⟩, if_pos (by omega), if_pos hle]
    · rw [if_neg (fun hh => hle hh.1), if_neg (by omega), if_neg hle]

/-- … in particular the same digit texts, values and ordinal flags, in the same order -/
theorem C15_sep_as_comma_texts (cfg : ScanCfg) (hl : LangOk cfg.lang) (hf : cfg.lang.ErrFresh)
    (hc : cfg.lang.Rejects [',']) (hcc : CommaChar cfg.cc) (A B : List Tok) (t p : Tok)
    (hp : prevSig cfg A = some p) (hsep : cfg.sep t p = true)
    (hs : Scanner.isSkipped cfg t = false) (hnan : t.nan = false) :
    ∃ occs occs', findNumbers cfg (A ++ t :: B) = .ok occs ∧
      findNumbers cfg (A ++ commaTok :: t :: B) = .ok occs' ∧
      occs'.map (fun o => (o.text, o.value, o.isOrdinal)) = occs.map (fun o => (o.text, o.value, o.isOrdinal)) := by
  obtain ⟨occs, h1, h2⟩ := C15_sep_as_comma cfg hl hf hc hcc A B t p hp hsep hs hnan
  refine ⟨occs, _, h1, h2, ?_⟩
  rw [List.map_map]
  apply List.map_congr_left
  intro o _
  obtain ⟨a, b, c⟩ := shiftFrom_fields A.length o
  simp only [Function.comp, a, b, c]

/-! ### look-ahead -/

/-- **C15 (bounded look-ahead)**: `nextN cfg k it` calls `next` `k+1` times and returns the last answer.
When the `(k+1)`-th call on a fresh iterator returns an occurrence, it is the `k`-th occurrence of the
batch search, and the iterator has read at most `occs[k+2].start + 1` tokens — it has not read beyond the
first token of the second occurrence after the one it returns — or the whole stream if there is no such
occurrence (`Hints.bound occs n j = occs[j].start + 1`, or `n` if `occs[j]` does not exist).
The bound is attained (`example` below). -/
theorem C15_lookahead_bound (cfg : ScanCfg) (hl : LangOk cfg.lang) (toks : List Tok) (occs : List Occ)
    (h : findNumbers cfg toks = .ok occs) (k : Nat) (o : Occ) (it' : Iter)
    (he : nextN cfg k (iterNew toks) = .ok (some o, it')) :
    occs[k]? = some o ∧ it'.consumed ≤ Hints.bound occs toks.length (k + 2) ∧ it'.consumed ≤ toks.length :=
  lookahead cfg hl toks occs h k o it' he

/-- the bound spelled out -/
theorem C15_lookahead_bound' (cfg : ScanCfg) (hl : LangOk cfg.lang) (toks : List Tok) (occs : List Occ)
    (h : findNumbers cfg toks = .ok occs) (k : Nat) (o o2 : Occ) (it' : Iter)
    (he : nextN cfg k (iterNew toks) = .ok (some o, it')) (h2 : occs[k + 2]? = some o2) :
    it'.consumed ≤ o2.start + 1 ∧ it'.consumed ≤ o2.stop := by
  have hb := (C15_lookahead_bound cfg hl toks occs h k o it' he).2.1
  unfold Hints.bound at hb
  rw [h2] at hb
  dsimp only at hb
  have hstrict := C06.C06_strict cfg hl toks occs h o2 (List.mem_of_getElem? h2)
  exact ⟨hb, by omega⟩

/-- **C15 (on demand)**: while an occurrence is queued, `next` returns it without reading the stream -/
theorem C15_on_demand (cfg : ScanCfg) (it : Iter) (o : Occ) (ms : List Occ)
    (hq : it.sc.tracker.queue = o :: ms) :
    ∃ it', it.next cfg = .ok (some o, it') ∧ it'.consumed = it.consumed ∧ it'.rest = it.rest := by
  unfold Iter.next
  rw [hq]
  exact ⟨_, rfl, rfl, rfl⟩

/-- … and when it has to read, it stops at the first token whose push decides an occurrence: after every
strictly shorter prefix of the tokens it has read, nothing was queued -/
theorem C15_on_demand_minimal (cfg : ScanCfg) (it : Iter) (r : Option Occ) (it' : Iter)
    (he : it.next cfg = .ok (r, it')) (j : Nat) (hj : it.consumed + j < it'.consumed) :
    ∃ s1, Scanner.pushAll cfg it.sc (it.rest.take j) = .ok s1 ∧ s1.tracker.queue = [] := by
  unfold Iter.next at he
  cases hq : it.sc.tracker.queue with
  | cons o ms =>
    rw [hq] at he
    cases he
    exact absurd hj (by dsimp only; omega)
  | nil =>
    rw [hq] at he
    exact drive_minimal cfg it.rest it.sc it.consumed r it' hq he j hj

/-! ### the same for the seven interpreters, without assumptions on the language -/

theorem C15_nan_outside_builtin (cfg : ScanCfg) (hb : cfg.lang ∈ allLangs) (toks : List Tok) (occs : List Occ)
    (h : findNumbers cfg toks = .ok occs) (i : Nat) (hi : i < toks.length) (hnan : toks[i].nan = true) :
    ∀ o ∈ occs, ¬ (o.start ≤ i ∧ i < o.stop) :=
  C15_nan_outside cfg (C15_builtin cfg.lang hb).1 toks occs h i hi hnan

theorem C15_sep_splits_builtin (cfg : ScanCfg) (hb : cfg.lang ∈ allLangs)
    (toks : List Tok) (occs : List Occ) (h : findNumbers cfg toks = .ok occs) (i : Nat)
    (hi : i < toks.length) (p : Tok) (hp : prevSig cfg (toks.take i) = some p)
    (hsep : cfg.sep toks[i] p = true) (hs : Scanner.isSkipped cfg toks[i] = false) :
    ∀ o ∈ occs, ¬ (o.start < i ∧ i < o.stop) :=
  C15_sep_splits cfg (C15_builtin cfg.lang hb).1 (C15_builtin cfg.lang hb).2.2 toks occs h i hi p hp hsep hs

theorem C15_sep_as_comma_builtin (cfg : ScanCfg) (hb : cfg.lang ∈ allLangs) (hcc : CommaChar cfg.cc)
    (A B : List Tok) (t p : Tok) (hp : prevSig cfg A = some p) (hsep : cfg.sep t p = true)
    (hs : Scanner.isSkipped cfg t = false) (hnan : t.nan = false) :
    ∃ occs, findNumbers cfg (A ++ t :: B) = .ok occs ∧
      findNumbers cfg (A ++ commaTok :: t :: B) = .ok (occs.map (shiftFrom A.length)) :=
  C15_sep_as_comma cfg (C15_builtin cfg.lang hb).1 (C15_builtin cfg.lang hb).2.1 (C15_builtin cfg.lang hb).2.2
    hcc A B t p hp hsep hs hnan

theorem C15_lookahead_bound_builtin (cfg : ScanCfg) (hb : cfg.lang ∈ allLangs) (toks : List Tok) (occs : List Occ)
    (h : findNumbers cfg toks = .ok occs) (k : Nat) (o : Occ) (it' : Iter)
    (he : nextN cfg k (iterNew toks) = .ok (some o, it')) :
    occs[k]? = some o ∧ it'.consumed ≤ Hints.bound occs toks.length (k + 2) ∧ it'.consumed ≤ toks.length :=
  C15_lookahead_bound cfg (C15_builtin cfg.lang hb).1 toks occs h k o it' he

/-! ### examples (English and Dutch interpreters, `simpleCC`, hints as in `Hints.exCfg`) -/

/-- "twenty ⟨one: not a number part⟩ two", threshold 0: the hinted token (position 2) is in no occurrence -/
example : ∃ occs, findNumbers (exCfg En.lang 0) [wd w!"twenty", wd w!" ", wdNan w!"one", wd w!" ", wd w!"two"] = .ok occs ∧
    ∀ o ∈ occs, ¬ (o.start ≤ 2 ∧ 2 < o.stop) := by
  obtain ⟨occs, h, _⟩ := findNumbers_ok (exCfg En.lang 0) [wd w!"twenty", wd w!" ", wdNan w!"one", wd w!" ", wd w!"two"]
  exact ⟨occs, h, C15_nan_outside _ C06.C06_langOk_en _ occs h 2 (by decide) rfl⟩

set_option maxRecDepth 100000 in
/-- … the occurrences are "20" and "2" -/
example : spans (findNumbers (exCfg En.lang 0) [wd w!"twenty", wd w!" ", wdNan w!"one", wd w!" ", wd w!"two"]) =
    some [(0, 1, w!"20"), (4, 5, w!"2")] := by decide +kernel

set_option maxRecDepth 100000 in
/-- no restriction to tokens that are not skipped: the scanner looks at the hint before it skips white space
(and a lone `-`), so a white-space (or hyphen) token hinted "not a number part" splits "twenty one" into
"20" and "1" and is outside both; without the hint the hyphen is skipped and "21" is found -/
theorem C15_nan_whitespace_outside :
    spans (findNumbers (exCfg En.lang 0) [wd w!"twenty", wdNan w!" ", wd w!"one"]) =
      some [(0, 1, w!"20"), (2, 3, w!"1")] ∧
    spans (findNumbers (exCfg En.lang 0) [wd w!"twenty", wdNan w!"-", wd w!"one"]) =
      some [(0, 1, w!"20"), (2, 3, w!"1")] ∧
    spans (findNumbers (exCfg En.lang 0) [wd w!"twenty", wd w!"-", wd w!"one"]) = some [(0, 3, w!"21")] := by
  decide +kernel

/-- … as `C15_nan_outside` says of that stream (no side condition to discharge) -/
example : ∃ occs, findNumbers (exCfg En.lang 0) [wd w!"twenty", wdNan w!" ", wd w!"one"] = .ok occs ∧
    ∀ o ∈ occs, ¬ (o.start ≤ 1 ∧ 1 < o.stop) := by
  obtain ⟨occs, h, _⟩ := findNumbers_ok (exCfg En.lang 0) [wd w!"twenty", wdNan w!" ", wd w!"one"]
  exact ⟨occs, h, C15_nan_outside _ C06.C06_langOk_en _ occs h 1 (by decide) rfl⟩

/-- "twenty ⟨one: separated⟩ two": no occurrence contains position 2 together with an earlier one -/
example : ∃ occs, findNumbers (exCfg En.lang 0) [wd w!"twenty", wd w!" ", wdSep w!"one", wd w!" ", wd w!"two"] = .ok occs ∧
    ∀ o ∈ occs, ¬ (o.start < 2 ∧ 2 < o.stop) := by
  obtain ⟨occs, h, _⟩ := findNumbers_ok (exCfg En.lang 0) [wd w!"twenty", wd w!" ", wdSep w!"one", wd w!" ", wd w!"two"]
  exact ⟨occs, h, C15_sep_splits _ C06.C06_langOk_en C15_en_rejects_comma _ occs h 2 (by decide)
    (wd w!"twenty") (by decide) rfl (by decide)⟩

set_option maxRecDepth 100000 in
/-- … with the hint "20", "1", "2"; without it "21", "2" -/
example : spans (findNumbers (exCfg En.lang 0) [wd w!"twenty", wd w!" ", wdSep w!"one", wd w!" ", wd w!"two"]) =
      some [(0, 1, w!"20"), (2, 3, w!"1"), (4, 5, w!"2")] ∧
    spans (findNumbers (exCfg En.lang 0) [wd w!"twenty", wd w!" ", wd w!"one", wd w!" ", wd w!"two"]) =
      some [(0, 3, w!"21"), (4, 5, w!"2")] := by decide +kernel

set_option maxRecDepth 100000 in
/-- the hint as a spoken comma, on "twenty ⟨one: separated⟩ two" (threshold 10, so that holding back matters) -/
example : ∃ occs, findNumbers (exCfg En.lang 10) ([wd w!"twenty", wd w!" "] ++ wdSep w!"one" :: [wd w!" ", wd w!"two"]) = .ok occs ∧
    findNumbers (exCfg En.lang 10) ([wd w!"twenty", wd w!" "] ++ commaTok :: wdSep w!"one" :: [wd w!" ", wd w!"two"]) =
      .ok (occs.map (shiftFrom 2)) :=
  C15_sep_as_comma (exCfg En.lang 10) C06.C06_langOk_en C10.C10_en_errFresh C15_en_rejects_comma
    C15_commaChar_simple [wd w!"twenty", wd w!" "] [wd w!" ", wd w!"two"] (wdSep w!"one") (wd w!"twenty")
    (by decide) rfl (by decide) rfl

set_option maxRecDepth 100000 in
/-- **`C15_sep_as_comma` needs no hypothesis on the word of `t`.** Dutch "en" is answered `Incomplete` by the
pristine parser and is not a linking word. In "twintig ⟨en: separated⟩ een" (threshold 10) the forced stop
ends "20", then "en" — tried on the pristine parser at the end of the number — is merely skipped as
`Incomplete`, exactly as in "twintig , en een": both streams report "20" and "1". -/
theorem C15_sep_as_comma_incomplete :
    spans (findNumbers (exCfg Nl.lang 10) [wd w!"twintig", wd w!" ", wdSep w!"en", wd w!" ", wd w!"een"]) =
      some [(0, 1, w!"20"), (4, 5, w!"1")] ∧
    spans (findNumbers (exCfg Nl.lang 10) [wd w!"twintig", wd w!" ", commaTok, wdSep w!"en", wd w!" ", wd w!"een"]) =
      some [(0, 1, w!"20"), (5, 6, w!"1")] := by decide +kernel

/-- … as an instance of the theorem -/
example : ∃ occs, findNumbers (exCfg Nl.lang 10) ([wd w!"twintig", wd w!" "] ++ wdSep w!"en" :: [wd w!" ", wd w!"een"]) = .ok occs ∧
    findNumbers (exCfg Nl.lang 10) ([wd w!"twintig", wd w!" "] ++ commaTok :: wdSep w!"en" :: [wd w!" ", wd w!"een"]) =
      .ok (occs.map (shiftFrom 2)) :=
  C15_sep_as_comma (exCfg Nl.lang 10) C06.C06_langOk_nl C10.C10_nl_errFresh C10.C10_nl_rejects_comma
    C15_commaChar_simple [wd w!"twintig", wd w!" "] [wd w!" ", wd w!"een"] (wdSep w!"en") (wd w!"twintig")
    (by decide) rfl (by decide) rfl

set_option maxRecDepth 100000 in
/-- the look-ahead bound is attained in English: on "one two three four" (threshold 10) the first call of
`next` returns "1" = `occs[0]` after reading 5 = `occs[2].start + 1` of the 7 tokens (the lone "1" is held
back until "2" is complete, which is known when "three" arrives); the second call returns "2" without
reading anything; the third returns "3" after reading everything (there is no `occs[4]`) -/
example :
    let toks := [wd w!"one", wd w!" ", wd w!"two", wd w!" ", wd w!"three", wd w!" ", wd w!"four"]
    spans (findNumbers (exCfg En.lang 10) toks) =
      some [(0, 1, w!"1"), (2, 3, w!"2"), (4, 5, w!"3"), (6, 7, w!"4")] ∧
    Hints.view (nextN (exCfg En.lang 10) 0 (iterNew toks)) = some (0, 1, 5) ∧
    Hints.view (nextN (exCfg En.lang 10) 1 (iterNew toks)) = some (2, 3, 5) ∧
    Hints.view (nextN (exCfg En.lang 10) 2 (iterNew toks)) = some (4, 5, 7) := by decide +kernel

/-! ### the hint is a spoken comma — the token is hinted "not a number part" as well

  `C15_sep_as_comma` leaves out the tokens hinted BOTH "separated from the predecessor" and "not a number
  part". Such a token goes through the `not_a_number_part` branch of `push`, which does not consult the
  separation hint: it ends the open number with the parser as it is. After a spoken comma the number has been
  ended by the comma token, with the parser that has refused the forced stop `","`. Both give the same
  occurrence when the refused forced stop leaves no trace that `finish` (digit text, value) or `isOrdinal`
  observe: `HintsNan.Inert cfg.lang [',']`. A refused word changes nothing but the blocking flags in every
  one of the seven interpreters (T2N/Lemmas/LangFacts.lean), so this holds for all of them. -/

/-- the seven interpreters refuse the forced stop `","` (every word they refuse, in fact) without an effect
on the digit text, the value or the ordinal flag of the number held -/
theorem C15_stop_inert_builtin (l : Lang) (hl : l ∈ allLangs) : HintsNan.Inert l [','] :=
  HintsNan.inert_builtin l hl [',']

/-- **C15 (a comma in front of a token hinted "not a number part" is invisible)**: for a token `t` hinted
"not a number part", after the tokens `A` and before the tokens `B`, the stream `A, t, B` and the stream
`A, ",", t, B` yield the same occurrences, the positions from `t` on being shifted by one — whatever `t`
declares about its predecessor (no hypothesis on `cfg.sep`: the hint is not consulted), whatever its text
(such a token is never skipped).

Assumptions on the language: those of `C15_sep_as_comma`, and `HintsNan.Inert cfg.lang [',']`
(all seven interpreters: `C15_builtin`, `C15_stop_inert_builtin`). -/
theorem C15_sep_as_comma_nan (cfg : ScanCfg) (hl : LangOk cfg.lang) (hf : cfg.lang.ErrFresh)
    (hc : cfg.lang.Rejects [',']) (hk : HintsNan.Inert cfg.lang [',']) (hcc : CommaChar cfg.cc)
    (A B : List Tok) (t : Tok) (hnan : t.nan = true) :
    ∃ occs, findNumbers cfg (A ++ t :: B) = .ok occs ∧
      findNumbers cfg (A ++ commaTok :: t :: B) = .ok (occs.map (shiftFrom A.length)) := by
  obtain ⟨occs, h1, h2⟩ := HintsNan.findNumbers_comma_nan cfg hl hf hc hk hcc A B t hnan
  refine ⟨occs, h1, ?_⟩
  rw [h2]
  congr 1
  apply List.map_congr_left
  intro o ho
  have hcut := HintsNan.nan_cut cfg hl A B t hnan occs h1 o ho
  have hstrict := C06.C06_strict cfg hl (A ++ t :: B) occs h1 o ho
  exact HintsNan.shiftOcc_eq_shiftFrom A.length o hstrict (fun hh => hcut ⟨by omega, hh.2⟩)

/-- **C15 (the hint is a spoken comma, every token)**: the statement of `C15_sep_as_comma` without the
hypothesis that `t` is not hinted "not a number part" — at the price of the assumption
`HintsNan.Inert cfg.lang [',']` on the language. -/
theorem C15_sep_as_comma_any (cfg : ScanCfg) (hl : LangOk cfg.lang) (hf : cfg.lang.ErrFresh)
    (hc : cfg.lang.Rejects [',']) (hk : HintsNan.Inert cfg.lang [',']) (hcc : CommaChar cfg.cc)
    (A B : List Tok) (t p : Tok) (hp : prevSig cfg A = some p) (hsep : cfg.sep t p = true)
    (hs : Scanner.isSkipped cfg t = false) :
    ∃ occs, findNumbers cfg (A ++ t :: B) = .ok occs ∧
      findNumbers cfg (A ++ commaTok :: t :: B) = .ok (occs.map (shiftFrom A.length)) := by
  by_cases hnan : t.nan = true
  · exact C15_sep_as_comma_nan cfg hl hf hc hk hcc A B t hnan
  · exact C15_sep_as_comma cfg hl hf hc hcc A B t p hp hsep hs (by simpa using hnan)

/-- … the same digit texts, values and ordinal flags, in the same order -/
theorem C15_sep_as_comma_any_texts (cfg : ScanCfg) (hl : LangOk cfg.lang) (hf : cfg.lang.ErrFresh)
    (hc : cfg.lang.Rejects [',']) (hk : HintsNan.Inert cfg.lang [',']) (hcc : CommaChar cfg.cc)
    (A B : List Tok) (t p : Tok) (hp : prevSig cfg A = some p) (hsep : cfg.sep t p = true)
    (hs : Scanner.isSkipped cfg t = false) :
    ∃ occs occs', findNumbers cfg (A ++ t :: B) = .ok occs ∧
      findNumbers cfg (A ++ commaTok :: t :: B) = .ok occs' ∧
      occs'.map (fun o => (o.text, o.value, o.isOrdinal)) = occs.map (fun o => (o.text, o.value, o.isOrdinal)) := by
  obtain ⟨occs, h1, h2⟩ := C15_sep_as_comma_any cfg hl hf hc hk hcc A B t p hp hsep hs
  refine ⟨occs, _, h1, h2, ?_⟩
  rw [List.map_map]
  apply List.map_congr_left
  intro o _
  obtain ⟨a, b, c⟩ := shiftFrom_fields A.length o
  simp only [Function.comp, a, b, c]

/-! #### the same for the seven interpreters, without assumptions on the language -/

theorem C15_sep_as_comma_nan_builtin (cfg : ScanCfg) (hb : cfg.lang ∈ allLangs) (hcc : CommaChar cfg.cc)
    (A B : List Tok) (t : Tok) (hnan : t.nan = true) :
    ∃ occs, findNumbers cfg (A ++ t :: B) = .ok occs ∧
      findNumbers cfg (A ++ commaTok :: t :: B) = .ok (occs.map (shiftFrom A.length)) :=
  C15_sep_as_comma_nan cfg (C15_builtin cfg.lang hb).1 (C15_builtin cfg.lang hb).2.1 (C15_builtin cfg.lang hb).2.2
    (C15_stop_inert_builtin cfg.lang hb) hcc A B t hnan

/-- `C15_sep_as_comma_builtin` without the hypothesis `t.nan = false` -/
theorem C15_sep_as_comma_any_builtin (cfg : ScanCfg) (hb : cfg.lang ∈ allLangs) (hcc : CommaChar cfg.cc)
    (A B : List Tok) (t p : Tok) (hp : prevSig cfg A = some p) (hsep : cfg.sep t p = true)
    (hs : Scanner.isSkipped cfg t = false) :
    ∃ occs, findNumbers cfg (A ++ t :: B) = .ok occs ∧
      findNumbers cfg (A ++ commaTok :: t :: B) = .ok (occs.map (shiftFrom A.length)) :=
  C15_sep_as_comma_any cfg (C15_builtin cfg.lang hb).1 (C15_builtin cfg.lang hb).2.1 (C15_builtin cfg.lang hb).2.2
    (C15_stop_inert_builtin cfg.lang hb) hcc A B t p hp hsep hs

/-! #### examples -/

/-- a token hinted both "separated from its predecessor" (`tstart = 1`, `Hints.exSep`) and "not a number part" -/
def wdSepNan (w : Word) : Tok := { text := w, lower := w, nan := true, tstart := 1 }

set_option maxRecDepth 100000 in
/-- French "quatre vingt ⟨un: separated, not a number part⟩ deux", threshold 0: "80" and "2" in both streams
(the open number "quatre vingt" is ended by the hinted token itself in the first stream, by the comma
token in the second) -/
theorem C15_sep_as_comma_nan_example_fr :
    spans (findNumbers (exCfg Fr.lang 0)
      [wd w!"quatre", wd w!" ", wd w!"vingt", wd w!" ", wdSepNan w!"un", wd w!" ", wd w!"deux"]) =
      some [(0, 3, w!"80"), (6, 7, w!"2")] ∧
    spans (findNumbers (exCfg Fr.lang 0)
      [wd w!"quatre", wd w!" ", wd w!"vingt", wd w!" ", commaTok, wdSepNan w!"un", wd w!" ", wd w!"deux"]) =
      some [(0, 3, w!"80"), (7, 8, w!"2")] := by decide +kernel

set_option maxRecDepth 100000 in
/-- … German, the number is ended in decimal mode: "zwei komma fünf ⟨eins⟩ zwei" gives "2,5" and "2" in
both streams -/
theorem C15_sep_as_comma_nan_example_de :
    spans (findNumbers (exCfg De.lang 0)
      [wd w!"zwei", wd w!" ", wd w!"komma", wd w!" ", wd w!"fünf", wd w!" ", wdSepNan w!"eins", wd w!" ", wd w!"zwei"]) =
      some [(0, 5, w!"2,5"), (8, 9, w!"2")] ∧
    spans (findNumbers (exCfg De.lang 0)
      [wd w!"zwei", wd w!" ", wd w!"komma", wd w!" ", wd w!"fünf", wd w!" ", commaTok, wdSepNan w!"eins", wd w!" ", wd w!"zwei"]) =
      some [(0, 5, w!"2,5"), (9, 10, w!"2")] := by decide +kernel

/-- … as an instance of `C15_sep_as_comma_any` (all hypotheses discharged) -/
example : ∃ occs, findNumbers (exCfg Fr.lang 0)
      ([wd w!"quatre", wd w!" ", wd w!"vingt", wd w!" "] ++ wdSepNan w!"un" :: [wd w!" ", wd w!"deux"]) = .ok occs ∧
    findNumbers (exCfg Fr.lang 0)
      ([wd w!"quatre", wd w!" ", wd w!"vingt", wd w!" "] ++ commaTok :: wdSepNan w!"un" :: [wd w!" ", wd w!"deux"]) =
      .ok (occs.map (shiftFrom 4)) :=
  C15_sep_as_comma_any (exCfg Fr.lang 0) C06.C06_langOk_fr C10.C10_fr_errFresh C10.C10_fr_rejects_comma
    (C15_stop_inert_builtin Fr.lang (by simp [allLangs])) C15_commaChar_simple
    [wd w!"quatre", wd w!" ", wd w!"vingt", wd w!" "] [wd w!" ", wd w!"deux"] (wdSepNan w!"un") (wd w!"vingt")
    (by decide) rfl (by decide)

/-- … and of `C15_sep_as_comma_nan_builtin` (Dutch; a token hinted "not a number part" only) -/
example : ∃ occs, findNumbers (exCfg Nl.lang 10)
      ([wd w!"twintig", wd w!" "] ++ wdNan w!"en" :: [wd w!" ", wd w!"een"]) = .ok occs ∧
    findNumbers (exCfg Nl.lang 10)
      ([wd w!"twintig", wd w!" "] ++ commaTok :: wdNan w!"en" :: [wd w!" ", wd w!"een"]) =
      .ok (occs.map (shiftFrom 2)) :=
  C15_sep_as_comma_nan_builtin (exCfg Nl.lang 10) (by simp [allLangs, exCfg]) C15_commaChar_simple
    [wd w!"twintig", wd w!" "] [wd w!" ", wd w!"een"] (wdNan w!"en") rfl

end T2N.C15
