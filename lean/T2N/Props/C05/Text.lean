/-
  C05 (text level) — a spoken decimal number (the spelled integer part `n < 10^12`, the separator word, the spelled
  fraction digits `ds`), standing in a sentence of ordinary words joined by single spaces, is REWRITTEN by
  `replace_numbers_in_text` as `<digits of n><mark><ds>` — one number, the other words kept:
  `replaceText cc <language> thr (joinWords (pre ++ (integer ++ [sep] ++ fraction) ++ post)) =
     .ok (joinWords (pre ++ [digits ++ [mark] ++ fraction digits] ++ post))`.

  * character classes: any `cc` satisfying `TextLaws` and `AlphaLaws` (T2N/Lemmas/C01Text.lean; `simpleCC` does);
  * `pre` / `post`: `Ordinary` words (refused by the language in every state, single lower-case tokens);
  * threshold: EVERY threshold — a decimal number is never "small";
  * fractions: the reading styles and bounds of the scanner-level theorems `C05_decimal_<l>_all` (T2N/Props/C05.lean).
  Proofs: T2N/Lemmas/TextCor/Decimal.lean (`decimal_phrase`: a direct proof, for any character classes, that the
  scanner reports one occurrence spanning the whole phrase; `replaceText_decimal`), from the interpreter-level runs
  of the integer part (`C01_validate_<l>_all`) and of the fraction (`fraction_run` of each language).
-/
import T2N.Props.C05
import T2N.Props.C01.Text
import T2N.Lemmas.TextCor.Decimal
import T2N.Lemmas.TextCor.En
import T2N.Lemmas.TextCor.DecEs
import T2N.Lemmas.TextCor.DecPt
import T2N.Lemmas.TextCor.DecIt
import T2N.Lemmas.TextCor.DecNl
import T2N.Lemmas.TextCor.DecDe
import T2N.Lemmas.TextCor.DecFr

namespace T2N.C05
open T2N T2N.Lift T2N.Spec T2N.C01Text T2N.TextCor

/-! ### English -/

/-- **C05 (en), text level**: every integer part `n < 10^12`, every variant, every non-empty fraction (zeros as
`zero` | `nought`), every threshold -/
theorem C05_text_en {cc : CharClasses} (L : TextLaws cc) (A : AlphaLaws cc) (thr : Nat → Bool)
    (v : Var) (n : Nat) (ds : List Nat) (h : n < 10 ^ 12) (hds : ds ≠ []) (h9 : ∀ d ∈ ds, d < 10)
    (pre post : List Word) (hpre : ∀ w ∈ pre, Ordinary cc En.lang w) (hpost : ∀ w ∈ post, Ordinary cc En.lang w) :
    replaceText cc .english thr
        (joinWords (pre ++ (Spec.En.cardinal v n ++ [Spec.En.sepWord] ++ Spec.En.fraction v ds) ++ post)) =
      .ok (joinWords (pre ++ [decChars n ++ [Spec.En.decMark] ++ ds.map digitChar] ++ post)) := by
  have hval := T2N.C01.C01_validate_en_all v n h
  obtain ⟨D, hD, hDne, hDr⟩ := TextCor.En.fraction_run v ds hds h9
  have hP : ∀ w ∈ Spec.En.cardinal v n ++ [Spec.En.sepWord] ++ Spec.En.fraction v ds, C01Text.En.P w = true := by
    intro w hw
    rw [List.mem_append, List.mem_append] at hw
    rcases hw with (hw | hw) | hw
    · exact List.all_eq_true.mp (C01Text.En.cardinal_P v n) w hw
    · rw [List.mem_singleton.mp hw]; decide
    · exact List.all_eq_true.mp (TextCor.En.fraction_P v ds h9) w hw
  refine replaceText_decimal L A .english thr (by simp [Language.interp, allLangs]) T2N.C07.C07_langAgree_en
    (Spec.En.cardinal v n) (Spec.En.fraction v ds) Spec.En.sepWord n ds D hval (EnScan.en_hfirst v n _ hval) rfl
    (TextCor.En.fraction_ne_nil v ds hds) hD hDne hDr (fun w hw => TextCor.En.over_of_P (hP w hw))
    pre post hpre hpost ?_
  show annotateEn cc En.lang.apply _ = _
  apply annotateEn_wordTokens
  intro w hw
  rw [List.mem_append, List.mem_append] at hw
  rcases hw with (hw | hw) | hw
  · exact ne_of_rejects (hpre w hw).1 (by decide)
  · exact TextCor.En.not_o_of_P (hP w hw)
  · exact ne_of_rejects (hpost w hw).1 (by decide)

/-- explicit classes -/
theorem C05_text_en_simple (thr : Nat → Bool) (v : Var) (n : Nat) (ds : List Nat) (h : n < 10 ^ 12) (hds : ds ≠ [])
    (h9 : ∀ d ∈ ds, d < 10) (pre post : List Word)
    (hpre : ∀ w ∈ pre, Ordinary simpleCC En.lang w) (hpost : ∀ w ∈ post, Ordinary simpleCC En.lang w) :
    replaceText simpleCC .english thr
        (joinWords (pre ++ (Spec.En.cardinal v n ++ [Spec.En.sepWord] ++ Spec.En.fraction v ds) ++ post)) =
      .ok (joinWords (pre ++ [decChars n ++ [Spec.En.decMark] ++ ds.map digitChar] ++ post)) :=
  C05_text_en simple_textLaws simple_alphaLaws thr v n ds h hds h9 pre post hpre hpost

/-- the hypotheses are satisfiable, whatever the threshold (here: everything is "small") -/
example : replaceText simpleCC .english (fun _ => true)
    (joinWords ([w!"about"] ++ (Spec.En.cardinal (fun _ => 0) 3 ++ [Spec.En.sepWord] ++
      Spec.En.fraction (fun _ => 0) [0, 7]) ++ [w!"percent"])) =
    .ok (joinWords ([w!"about"] ++ [decChars 3 ++ ['.'] ++ w!"07"] ++ [w!"percent"])) :=
  C05_text_en_simple _ _ 3 [0, 7] (by decide) (by decide) (by decide) _ _
    (fun w hw => by
      have : w = w!"about" := by simpa using hw
      subst this
      exact T2N.C01.C01_text_en_ordinary _ (fun _ => rfl) (fun _ => rfl) rfl (by decide))
    (fun w hw => by
      have : w = w!"percent" := by simpa using hw
      subst this
      exact T2N.C01.C01_text_en_ordinary _ (fun _ => rfl) (fun _ => rfl) rfl (by decide))

/-- the same kind of sentence as plain strings -/
example : T2N.C01.C01_text_is (replaceText simpleCC .english (fun _ => true) "about three point zero seven percent".toList)
    "about 3.07 percent" = true := by decide +kernel

/-! ### Spanish -/

/-- **C05 (es), text level**, every threshold: the fraction read as `cero … cero` + ONE cardinal (hence the bound on the digits after the leading zeros, as in `C05_decimal_es_all`) -/
theorem C05_text_es {cc : CharClasses} (L : TextLaws cc) (A : AlphaLaws cc) (thr : Nat → Bool)
    (v : Var) (n : Nat) (ds : List Nat) (h : n < 10 ^ 12) (hds : ds ≠ []) (h9 : ∀ d ∈ ds, d < 10)
    (hlen : (ds.dropWhile (· == 0)).length ≤ 12)
    (pre post : List Word) (hpre : ∀ w ∈ pre, Ordinary cc Es.lang w) (hpost : ∀ w ∈ post, Ordinary cc Es.lang w) :
    replaceText cc .spanish thr
        (joinWords (pre ++ (Spec.Es.cardinal v n ++ [Spec.Es.sepWord] ++ Spec.Es.fraction v ds) ++ post)) =
      .ok (joinWords (pre ++ [decChars n ++ [Spec.Es.decMark] ++ ds.map digitChar] ++ post)) :=
  TextCor.Es.text_c05 L A thr v n ds h hds h9 hlen pre post hpre hpost

/-! ### Portuguese -/

/-- **C05 (pt), text level**, every threshold: the fraction read as `zero … zero` + ONE cardinal (hence the bound, as in `C05_decimal_pt_all`) -/
theorem C05_text_pt {cc : CharClasses} (L : TextLaws cc) (A : AlphaLaws cc) (thr : Nat → Bool)
    (v : Var) (n : Nat) (ds : List Nat) (h : n < 10 ^ 12) (hds : ds ≠ []) (h9 : ∀ d ∈ ds, d < 10)
    (hfr : Spec.Pt.digitsValue (ds.dropWhile (· == 0)) < 10 ^ 12)
    (pre post : List Word) (hpre : ∀ w ∈ pre, Ordinary cc Pt.lang w) (hpost : ∀ w ∈ post, Ordinary cc Pt.lang w) :
    replaceText cc .portuguese thr
        (joinWords (pre ++ (Spec.Pt.cardinal v n ++ [Spec.Pt.sepWord] ++ Spec.Pt.fraction v ds) ++ post)) =
      .ok (joinWords (pre ++ [decChars n ++ [Spec.Pt.decMark] ++ ds.map digitChar] ++ post)) :=
  TextCor.Pt.text_c05 L A thr v n ds h hds h9 hfr pre post hpre hpost

/-- in particular every fraction of at most 12 digits -/
theorem C05_text_pt_len {cc : CharClasses} (L : TextLaws cc) (A : AlphaLaws cc) (thr : Nat → Bool)
    (v : Var) (n : Nat) (ds : List Nat) (h : n < 10 ^ 12) (hds : ds ≠ []) (h9 : ∀ d ∈ ds, d < 10) (hlen : ds.length ≤ 12)
    (pre post : List Word) (hpre : ∀ w ∈ pre, Ordinary cc Pt.lang w) (hpost : ∀ w ∈ post, Ordinary cc Pt.lang w) :
    replaceText cc .portuguese thr
        (joinWords (pre ++ (Spec.Pt.cardinal v n ++ [Spec.Pt.sepWord] ++ Spec.Pt.fraction v ds) ++ post)) =
      .ok (joinWords (pre ++ [decChars n ++ [Spec.Pt.decMark] ++ ds.map digitChar] ++ post)) :=
  TextCor.Pt.text_c05_len L A thr v n ds h hds h9 hlen pre post hpre hpost

/-! ### Italian -/

/-- **C05 (it), text level**, every threshold: the fraction read as `zero … zero` + ONE cardinal (the bound of `C05_decimal_it_all`) -/
theorem C05_text_it {cc : CharClasses} (L : TextLaws cc) (A : AlphaLaws cc) (thr : Nat → Bool)
    (v : Var) (n : Nat) (ds : List Nat) (h : n < 10 ^ 12) (hds : ds ≠ []) (h9 : ∀ d ∈ ds, d < 10)
    (hlen : (ds.dropWhile (· == 0)).length ≤ 12)
    (pre post : List Word) (hpre : ∀ w ∈ pre, Ordinary cc It.lang w) (hpost : ∀ w ∈ post, Ordinary cc It.lang w) :
    replaceText cc .italian thr
        (joinWords (pre ++ (Spec.It.cardinal v n ++ [Spec.It.sepWord] ++ Spec.It.fraction v ds) ++ post)) =
      .ok (joinWords (pre ++ [decChars n ++ [Spec.It.decMark] ++ ds.map digitChar] ++ post)) :=
  TextCor.It.text_c05 L A thr v n ds h hds h9 hlen pre post hpre hpost

/-! ### Dutch -/

/-- **C05 (nl), text level**, every threshold: the fraction read as `nul … nul` + ONE cardinal (the bound of `C05_decimal_nl_all`) -/
theorem C05_text_nl {cc : CharClasses} (L : TextLaws cc) (A : AlphaLaws cc) (thr : Nat → Bool)
    (v : Var) (n : Nat) (ds : List Nat) (h : n < 10 ^ 12) (hds : ds ≠ []) (h9 : ∀ d ∈ ds, d < 10)
    (hlen : (ds.dropWhile (· == 0)).length ≤ 12)
    (pre post : List Word) (hpre : ∀ w ∈ pre, Ordinary cc Nl.lang w) (hpost : ∀ w ∈ post, Ordinary cc Nl.lang w) :
    replaceText cc .dutch thr
        (joinWords (pre ++ (Spec.Nl.cardinal v n ++ [Spec.Nl.sepWord] ++ Spec.Nl.fraction v ds) ++ post)) =
      .ok (joinWords (pre ++ [decChars n ++ [Spec.Nl.decMark] ++ ds.map digitChar] ++ post)) :=
  TextCor.Nl.text_c05 L A thr v n ds h hds h9 hlen pre post hpre hpost

/-! ### German -/

/-- **C05 (de), text level**, every threshold: the fraction spoken digit by digit; integer part in the `ein Million / ein Milliarde` variants (as everywhere) -/
theorem C05_text_de {cc : CharClasses} (L : TextLaws cc) (A : AlphaLaws cc) (thr : Nat → Bool)
    (v : Var) (n : Nat) (ds : List Nat) (h : n < 10 ^ 12) (hv : flag v (cp 2 5) = true ∧ flag v (cp 3 5) = true) (hds : ds ≠ []) (h9 : ∀ d ∈ ds, d < 10)
    (pre post : List Word) (hpre : ∀ w ∈ pre, Ordinary cc De.lang w) (hpost : ∀ w ∈ post, Ordinary cc De.lang w) :
    replaceText cc .german thr
        (joinWords (pre ++ (Spec.De.cardinal v n ++ [Spec.De.sepWord] ++ Spec.De.fraction v ds) ++ post)) =
      .ok (joinWords (pre ++ [decChars n ++ [Spec.De.decMark] ++ ds.map digitChar] ++ post)) :=
  TextCor.De.text_c05 L A thr v n ds h hv hds h9 pre post hpre hpost

/-! ### French -/

/-- **C05 (fr), text level**, every threshold: the fraction read as `zéro … zéro` + ONE cardinal (the bound of `C05_decimal_fr_all`); when the integer part is the lone word `neuf` (`n = 9`) the words before must not make the `neuf` pass fire — necessary: `C05_text_fr_neuf_kept` -/
theorem C05_text_fr {cc : CharClasses} (L : TextLaws cc) (A : AlphaLaws cc) (thr : Nat → Bool)
    (v : Var) (n : Nat) (ds : List Nat) (h : n < 10 ^ 12) (hds : ds ≠ []) (h9 : ∀ d ∈ ds, d < 10)
    (hlen : (ds.dropWhile (· == 0)).length ≤ 12)
    (pre post : List Word) (hpre : ∀ w ∈ pre, Ordinary cc Fr.lang w) (hpost : ∀ w ∈ post, Ordinary cc Fr.lang w)
    (hneuf : n = 9 → T2N.C01.C01_text_fr_neufMarked pre = false) :
    replaceText cc .french thr
        (joinWords (pre ++ (Spec.Fr.cardinal v n ++ [Spec.Fr.sepWord] ++ Spec.Fr.fraction v ds) ++ post)) =
      .ok (joinWords (pre ++ [decChars n ++ [Spec.Fr.decMark] ++ ds.map digitChar] ++ post)) :=
  TextCor.Fr.text_c05 L A thr v n ds h hds h9 hlen pre post hpre hpost hneuf

/-- no article (`un`, `le`, `du`, `l'`) among the words before: no hypothesis on `neuf` -/
theorem C05_text_fr_no_article {cc : CharClasses} (L : TextLaws cc) (A : AlphaLaws cc) (thr : Nat → Bool)
    (v : Var) (n : Nat) (ds : List Nat) (h : n < 10 ^ 12) (hds : ds ≠ []) (h9 : ∀ d ∈ ds, d < 10)
    (hlen : (ds.dropWhile (· == 0)).length ≤ 12)
    (pre post : List Word) (hpre : ∀ w ∈ pre, Ordinary cc Fr.lang w) (hpost : ∀ w ∈ post, Ordinary cc Fr.lang w)
    (hart : ∀ a ∈ pre, frArticles.contains a = false) :
    replaceText cc .french thr
        (joinWords (pre ++ (Spec.Fr.cardinal v n ++ [Spec.Fr.sepWord] ++ Spec.Fr.fraction v ds) ++ post)) =
      .ok (joinWords (pre ++ [decChars n ++ [Spec.Fr.decMark] ++ ds.map digitChar] ++ post)) :=
  TextCor.Fr.text_c05_no_article L A thr v n ds h hds h9 hlen pre post hpre hpost hart

/-- **the hypothesis on `neuf` is necessary**: after `le chat a` the `neuf` of `neuf virgule cinq` is marked by the
annotation pass (the word after it, `virgule`, is no number word) and the text is left unchanged -/
theorem C05_text_fr_neuf_kept :
    T2N.C01.C01_text_fr_neufMarked [w!"le", w!"chat", w!"a"] = true ∧
    Spec.Fr.cardinal (fun _ => 0) 9 ++ [Spec.Fr.sepWord] ++ Spec.Fr.fraction (fun _ => 0) [5] =
      [w!"neuf", w!"virgule", w!"cinq"] ∧
    T2N.C01.C01_text_is (replaceText simpleCC .french (fun _ => true)
      (joinWords ([w!"le", w!"chat", w!"a"] ++ (Spec.Fr.cardinal (fun _ => 0) 9 ++ [Spec.Fr.sepWord] ++
        Spec.Fr.fraction (fun _ => 0) [5]) ++ [w!"vies"])))
      "le chat a neuf virgule cinq vies" = true :=
  TextCor.Fr.text_c05_neuf_kept

/-! ### plain strings, every language (threshold: everything is "small") -/

example : T2N.C01.C01_text_is (replaceText simpleCC .spanish (fun _ => true) "cuesta tres coma cero siete euros".toList)
    "cuesta 3,07 euros" = true := by decide +kernel

example : T2N.C01.C01_text_is (replaceText simpleCC .portuguese (fun _ => true) "custa três vírgula zero sete euros".toList)
    "custa 3,07 euros" = true := by decide +kernel

example : T2N.C01.C01_text_is (replaceText simpleCC .italian (fun _ => true) "costa tre virgola zero sette euro".toList)
    "costa 3,07 euro" = true := by decide +kernel

example : T2N.C01.C01_text_is (replaceText simpleCC .dutch (fun _ => true) "het kost drie komma nul zeven euro".toList)
    "het kost 3,07 euro" = true := by decide +kernel

example : T2N.C01.C01_text_is (replaceText simpleCC .german (fun _ => true) "es kostet drei komma null sieben euro".toList)
    "es kostet 3,07 euro" = true := by decide +kernel

example : T2N.C01.C01_text_is (replaceText simpleCC .french (fun _ => true) "il mesure trois virgule zéro sept mètres".toList)
    "il mesure 3,07 mètres" = true := by decide +kernel

end T2N.C05
