/- C05, last clause — "a separator word with no number before it, or nothing usable after it, is left as a word".
   One block per language, all instances of the generic theorems of T2N/Lemmas/SepAlone.lean (task `c05sep`).

   For each of the seven languages `<l>` (separator word `Spec.<L>.sepWord`: en `point`, fr `virgule`, es `coma`,
   pt `vírgula`, it `virgola`, de/nl `komma`):

   1. `C05_sep_alone_<l>`            no number before the separator (only words that the parser refuses, or nothing):
                                      the occurrences are exactly those of what follows, scanned on its own and
                                      shifted; every occurrence starts after the separator token. EVERY threshold.
      `C05_sep_alone_texts_<l>`      the same on the texts, for the weaker hypothesis "not accepted by the fresh builder".
      `C05_sep_only_<l>`             the separator word alone: no occurrence.
      `C05_sep_then_number_<l>`      `sep <cardinal>` (threshold 0): the number alone, the separator stays a word.
   2. `C05_sep_nothing_after_<l>`    `<cardinal> sep w…` with `w…` refused by the parser (or nothing): the occurrences
                                      are those found when the input ends after the number. EVERY threshold.
      `C05_sep_nothing_after_zero_<l>`  at threshold 0: one occurrence, the integer alone; its span ends at the last word
                                      of the number (the separator token is outside); the text has no decimal mark.
      `C05_sep_nothing_after_texts_<l>` the texts.
   3. `C05_sep_twice_<l>`            `<n> sep <fraction> sep Y`: the second separator ends the decimal number, which is
                                      reported as if the input ended there; `Y` is scanned on its own. EVERY threshold.
      `C05_sep_twice_texts_<l>`      the texts.
   No counter-example was found: the seven interpreters behave alike. -/
import T2N.Props.C05
import T2N.Props.C07
import T2N.Props.C01
import T2N.Lemmas.SepAlone

set_option maxRecDepth 100000

namespace T2N.C05
open T2N T2N.Lift T2N.SepAlone

theorem sep_mem_en : T2N.En.lang ∈ allLangs := by simp [allLangs]

/-! ## ——— English ——— -/

/-- **C05 (sep, en) clause 1**: `pre` consists of words that the English parser refuses in every state (possibly none),
then the separator word, then anything: for EVERY threshold the scanner reports exactly the occurrences of `post`
scanned on its own, shifted by the `2 * pre.length + 2` tokens before it; in particular no occurrence covers the
separator token (position `2 * pre.length`) and the separator after nothing never starts a decimal. -/
theorem C05_sep_alone_en (thr : Nat → Bool) (pre post : List Word) (hpre : ∀ w ∈ pre, T2N.En.lang.Rejects w) :
    ∃ ob, findNumbers (scanCfg T2N.En.lang thr) (wordTokens post) = .ok ob ∧
      findNumbers (scanCfg T2N.En.lang thr) (wordTokens (pre ++ [T2N.Spec.En.sepWord] ++ post)) =
        .ok (ob.map (shiftOcc (2 * pre.length + 2))) ∧
      ∀ o ∈ ob.map (shiftOcc (2 * pre.length + 2)), 2 * pre.length < o.start := by
  obtain ⟨ob, h1, h2⟩ := sep_alone T2N.En.lang sep_mem_en T2N.C07.C07_langAgree_en thr T2N.Spec.En.sepWord rfl pre post
    (fun w hw => not_accepted_of_rejects _ _ (hpre w hw))
  refine ⟨ob, h1, h2, ?_⟩
  intro o ho
  have := shift_start _ _ o ho
  omega

/-- clause 1 on the texts, under the weaker hypothesis that no word of `pre` is accepted by the fresh builder -/
theorem C05_sep_alone_texts_en (thr : Nat → Bool) (pre post : List Word)
    (hpre : ∀ w ∈ pre, (T2N.En.lang.apply w DS.new).1 ≠ none) :
    occTexts T2N.En.lang thr (pre ++ [T2N.Spec.En.sepWord] ++ post) = occTexts T2N.En.lang thr post :=
  sep_alone_texts T2N.En.lang sep_mem_en T2N.C07.C07_langAgree_en thr T2N.Spec.En.sepWord rfl pre post hpre

/-- the separator word alone is left as a word, whatever the threshold -/
theorem C05_sep_only_en (thr : Nat → Bool) : occTexts T2N.En.lang thr [T2N.Spec.En.sepWord] = some [] :=
  sep_only T2N.En.lang sep_mem_en T2N.C07.C07_langAgree_en thr T2N.Spec.En.sepWord rfl

/-- `sep <cardinal>` (threshold 0): the number is found on its own — one occurrence starting at token 2 — and the
separator is kept as a word: a leading separator never starts a decimal `0.…` -/
theorem C05_sep_then_number_en (v : T2N.Spec.Var) (n : Nat) (h : n < 10 ^ 12) :
    findNumbers (scanCfg T2N.En.lang zeroThr) (wordTokens ([T2N.Spec.En.sepWord] ++ T2N.Spec.En.cardinal v n)) =
      .ok [⟨2, 2 + (2 * (T2N.Spec.En.cardinal v n).length - 1), T2N.Spec.decChars n,
        .dec (T2N.Spec.decDigits n) [], false⟩] :=
  sep_then_number T2N.En.lang sep_mem_en T2N.C07.C07_langAgree_en T2N.Spec.En.sepWord rfl _ n (phraseOk_en v n h)

theorem C05_sep_then_number_texts_en (v : T2N.Spec.Var) (n : Nat) (h : n < 10 ^ 12) :
    occTexts T2N.En.lang zeroThr ([T2N.Spec.En.sepWord] ++ T2N.Spec.En.cardinal v n) = some [T2N.Spec.decChars n] := by
  unfold occTexts
  rw [C05_sep_then_number_en v n h]
  rfl

/-- **C05 (sep, en) clause 2**: a spelled cardinal, the separator word, then words that the parser refuses in every
state (possibly none: end of the input) — for EVERY threshold the occurrences are exactly those found when the input
ends after the number: the separator does not attach to the number, and nothing else is found. -/
theorem C05_sep_nothing_after_en (v : T2N.Spec.Var) (n : Nat) (thr : Nat → Bool) (h : n < 10 ^ 12)
    (post : List Word) (hpost : ∀ w ∈ post, T2N.En.lang.Rejects w) :
    findNumbers (scanCfg T2N.En.lang thr)
        (wordTokens (T2N.Spec.En.cardinal v n ++ [T2N.Spec.En.sepWord] ++ post)) =
      findNumbers (scanCfg T2N.En.lang thr) (wordTokens (T2N.Spec.En.cardinal v n)) := by
  have := nothing_after T2N.En.lang T2N.C07.C07_langAgree_en _ n (phraseOk_en v n h) thr []
    (T2N.Spec.En.sepWord :: post) (fun _ hw => by cases hw)
    (fun w hw => by
      rcases List.mem_cons.mp hw with rfl | hw
      · exact sep_stops_builtin T2N.En.lang sep_mem_en _ rfl
      · exact Stops.of_rejects (hpost w hw))
  rw [List.nil_append] at this
  rw [List.append_assoc, List.singleton_append]
  exact this

/-- clause 2 at threshold 0: exactly one occurrence, the integer alone — tokens `0 … 2·len−2`, the separator (token
`2·len`) is outside the span — and its text contains no decimal mark -/
theorem C05_sep_nothing_after_zero_en (v : T2N.Spec.Var) (n : Nat) (h : n < 10 ^ 12)
    (post : List Word) (hpost : ∀ w ∈ post, T2N.En.lang.Rejects w) :
    findNumbers (scanCfg T2N.En.lang zeroThr)
        (wordTokens (T2N.Spec.En.cardinal v n ++ [T2N.Spec.En.sepWord] ++ post)) =
      .ok [⟨0, 2 * (T2N.Spec.En.cardinal v n).length - 1, T2N.Spec.decChars n,
        .dec (T2N.Spec.decDigits n) [], false⟩] ∧
    T2N.Spec.En.decMark ∉ T2N.Spec.decChars n := by
  refine ⟨?_, (decChars_no_mark n).2⟩
  rw [C05_sep_nothing_after_en v n zeroThr h post hpost]
  have := scan_phrase_zero T2N.En.lang T2N.C07.C07_langAgree_en _ n (phraseOk_en v n h) [] (fun _ hw => by cases hw)
  rw [List.nil_append] at this
  rw [this]
  simp

theorem C05_sep_nothing_after_texts_en (v : T2N.Spec.Var) (n : Nat) (h : n < 10 ^ 12)
    (post : List Word) (hpost : ∀ w ∈ post, T2N.En.lang.Rejects w) :
    occTexts T2N.En.lang zeroThr (T2N.Spec.En.cardinal v n ++ [T2N.Spec.En.sepWord] ++ post) =
      some [T2N.Spec.decChars n] := by
  unfold occTexts
  rw [(C05_sep_nothing_after_zero_en v n h post hpost).1]
  rfl

/-- **C05 (sep, en) clause 3**: `<n> sep <fraction> sep Y` (hypotheses of `C05_decimal_en_occ_all`; `Y` any words) —
for EVERY threshold the second separator ends the decimal number, reported with the text `<n>.<fraction>` as if the
input ended there, the second separator is in no occurrence, and `Y` is scanned on its own (shifted). -/
theorem C05_sep_twice_en (v : T2N.Spec.Var) (n : Nat) (ds : List Nat) (thr : Nat → Bool) (h : n < 10 ^ 12)
    (hds : ds ≠ []) (h9 : ∀ d ∈ ds, d < 10) (Y : List Word) :
    ∃ a b ob, findNumbers (scanCfg T2N.En.lang thr) (wordTokens Y) = .ok ob ∧
      findNumbers (scanCfg T2N.En.lang thr)
        (wordTokens (T2N.Spec.En.cardinal v n ++ [T2N.Spec.En.sepWord] ++ T2N.Spec.En.fraction v ds ++
          [T2N.Spec.En.sepWord] ++ Y)) =
        .ok (⟨a, b, T2N.Spec.decChars n ++ ['.'] ++ ds.map digitChar, .dec (T2N.Spec.decDigits n) ds, false⟩ ::
          ob.map (shiftOcc (2 * (T2N.Spec.En.cardinal v n ++ [T2N.Spec.En.sepWord] ++
            T2N.Spec.En.fraction v ds).length + 2))) := by
  obtain ⟨a0, b0, e0⟩ := C05_decimal_en_occ_all v n ds zeroThr h hds h9
  obtain ⟨a, b, e1⟩ := C05_decimal_en_occ_all v n ds thr h hds h9
  obtain ⟨ob, h1, h2⟩ := sep_twice T2N.En.lang sep_mem_en T2N.C07.C07_langAgree_en thr T2N.Spec.En.sepWord rfl rfl rfl
    (T2N.Spec.En.cardinal v n ++ [T2N.Spec.En.sepWord] ++ T2N.Spec.En.fraction v ds) Y (by simp) _ _
    ⟨_, _, rfl, hds⟩ e0 e1
  exact ⟨a, b, ob, h1, h2⟩

theorem C05_sep_twice_texts_en (v : T2N.Spec.Var) (n : Nat) (ds : List Nat) (thr : Nat → Bool) (h : n < 10 ^ 12)
    (hds : ds ≠ []) (h9 : ∀ d ∈ ds, d < 10) (Y : List Word) :
    occTexts T2N.En.lang thr (T2N.Spec.En.cardinal v n ++ [T2N.Spec.En.sepWord] ++ T2N.Spec.En.fraction v ds ++
        [T2N.Spec.En.sepWord] ++ Y) =
      (occTexts T2N.En.lang thr Y).map ((T2N.Spec.decChars n ++ ['.'] ++ ds.map digitChar) :: ·) := by
  obtain ⟨a, b, ob, h1, h2⟩ := C05_sep_twice_en v n ds thr h hds h9 Y
  unfold occTexts
  rw [h1, h2]
  dsimp only
  rw [List.map_cons, map_text_shift]
  rfl

/-- `point <5>` ↦ `5` (the separator stays a word); `<12> point foo` ↦ `12`; `<2> point <5> point <5>` ↦ `2.5`, `5`;
`<2> point <5> point` with every number "small" ↦ `2.5`. The hypotheses are satisfiable. -/
example : occTexts T2N.En.lang zeroThr ([T2N.Spec.En.sepWord] ++ T2N.Spec.En.cardinal (fun _ => 0) 5) =
    some [T2N.Spec.decChars 5] := C05_sep_then_number_texts_en _ 5 (by decide)

example : T2N.En.lang.Rejects w!"foo" := Lang.rejects_of_apply T2N.En.lang _ (fun _ => ⟨.nan, rfl, by intro h; cases h⟩)
      (fun _ => ⟨.nan, rfl, by intro h; cases h⟩) rfl

example : occTexts T2N.En.lang zeroThr (T2N.Spec.En.cardinal (fun _ => 0) 12 ++ [T2N.Spec.En.sepWord] ++ [w!"foo"]) =
    some [T2N.Spec.decChars 12] :=
  C05_sep_nothing_after_texts_en _ 12 (by decide) [w!"foo"] (fun w hw => by
    have : w = w!"foo" := by simpa using hw
    subst this
    exact Lang.rejects_of_apply T2N.En.lang _ (fun _ => ⟨.nan, rfl, by intro h; cases h⟩)
      (fun _ => ⟨.nan, rfl, by intro h; cases h⟩) rfl)

example : occTexts T2N.En.lang zeroThr (T2N.Spec.En.cardinal (fun _ => 0) 2 ++ [T2N.Spec.En.sepWord] ++
    T2N.Spec.En.fraction (fun _ => 0) [5] ++ [T2N.Spec.En.sepWord] ++ T2N.Spec.En.cardinal (fun _ => 0) 5) =
    some [T2N.Spec.decChars 2 ++ ['.'] ++ w!"5", T2N.Spec.decChars 5] := by
  rw [C05_sep_twice_texts_en _ 2 [5] zeroThr (by decide) (by decide) (by decide) _,
    phrase_texts T2N.En.lang T2N.C07.C07_langAgree_en _ 5 (phraseOk_en _ 5 (by decide))]
  rfl

example : occTexts T2N.En.lang (fun _ => true) (T2N.Spec.En.cardinal (fun _ => 0) 2 ++ [T2N.Spec.En.sepWord] ++
    T2N.Spec.En.fraction (fun _ => 0) [5] ++ [T2N.Spec.En.sepWord] ++ []) =
    some [T2N.Spec.decChars 2 ++ ['.'] ++ w!"5"] := by
  rw [C05_sep_twice_texts_en _ 2 [5] (fun _ => true) (by decide) (by decide) (by decide) []]
  rfl

/-- clause 2 under a threshold: with every number "small", `<2> point foo` reports nothing — the lone `2` is left as
a word exactly as it is when the input ends after it (`C05_sep_nothing_after_en` + evaluation of `<2>` alone) -/
example : occTexts T2N.En.lang (fun _ => true)
    (T2N.Spec.En.cardinal (fun _ => 0) 2 ++ [T2N.Spec.En.sepWord] ++ [w!"foo"]) = some [] := by
  unfold occTexts
  rw [C05_sep_nothing_after_en _ 2 (fun _ => true) (by decide) [w!"foo"] (fun w hw => by
    have : w = w!"foo" := by simpa using hw
    subst this
    exact Lang.rejects_of_apply T2N.En.lang _ (fun _ => ⟨.nan, rfl, by intro h; cases h⟩)
      (fun _ => ⟨.nan, rfl, by intro h; cases h⟩) rfl)]
  have : occTexts T2N.En.lang (fun _ => true) (T2N.Spec.En.cardinal (fun _ => 0) 2) = some [] := by
    decide +kernel
  exact this

/-! ## ——— French ——— -/

/-- **C05 (sep, fr) clause 1**: `pre` consists of words that the French parser refuses in every state (possibly none),
then the separator word, then anything: for EVERY threshold the scanner reports exactly the occurrences of `post`
scanned on its own, shifted by the `2 * pre.length + 2` tokens before it; in particular no occurrence covers the
separator token (position `2 * pre.length`) and the separator after nothing never starts a decimal. -/
theorem C05_sep_alone_fr (thr : Nat → Bool) (pre post : List Word) (hpre : ∀ w ∈ pre, T2N.Fr.lang.Rejects w) :
    ∃ ob, findNumbers (scanCfg T2N.Fr.lang thr) (wordTokens post) = .ok ob ∧
      findNumbers (scanCfg T2N.Fr.lang thr) (wordTokens (pre ++ [T2N.Spec.Fr.sepWord] ++ post)) =
        .ok (ob.map (shiftOcc (2 * pre.length + 2))) ∧
      ∀ o ∈ ob.map (shiftOcc (2 * pre.length + 2)), 2 * pre.length < o.start := by
  obtain ⟨ob, h1, h2⟩ := sep_alone T2N.Fr.lang T2N.C01Sent.Fr.mem_all T2N.C07.C07_langAgree_fr thr T2N.Spec.Fr.sepWord rfl pre post
    (fun w hw => not_accepted_of_rejects _ _ (hpre w hw))
  refine ⟨ob, h1, h2, ?_⟩
  intro o ho
  have := shift_start _ _ o ho
  omega

/-- clause 1 on the texts, under the weaker hypothesis that no word of `pre` is accepted by the fresh builder -/
theorem C05_sep_alone_texts_fr (thr : Nat → Bool) (pre post : List Word)
    (hpre : ∀ w ∈ pre, (T2N.Fr.lang.apply w DS.new).1 ≠ none) :
    occTexts T2N.Fr.lang thr (pre ++ [T2N.Spec.Fr.sepWord] ++ post) = occTexts T2N.Fr.lang thr post :=
  sep_alone_texts T2N.Fr.lang T2N.C01Sent.Fr.mem_all T2N.C07.C07_langAgree_fr thr T2N.Spec.Fr.sepWord rfl pre post hpre

/-- the separator word alone is left as a word, whatever the threshold -/
theorem C05_sep_only_fr (thr : Nat → Bool) : occTexts T2N.Fr.lang thr [T2N.Spec.Fr.sepWord] = some [] :=
  sep_only T2N.Fr.lang T2N.C01Sent.Fr.mem_all T2N.C07.C07_langAgree_fr thr T2N.Spec.Fr.sepWord rfl

/-- `sep <cardinal>` (threshold 0): the number is found on its own — one occurrence starting at token 2 — and the
separator is kept as a word: a leading separator never starts a decimal `0,…` -/
theorem C05_sep_then_number_fr (v : T2N.Spec.Var) (n : Nat) (h : n < 10 ^ 12) :
    findNumbers (scanCfg T2N.Fr.lang zeroThr) (wordTokens ([T2N.Spec.Fr.sepWord] ++ T2N.Spec.Fr.cardinal v n)) =
      .ok [⟨2, 2 + (2 * (T2N.Spec.Fr.cardinal v n).length - 1), T2N.Spec.decChars n,
        .dec (T2N.Spec.decDigits n) [], false⟩] :=
  sep_then_number T2N.Fr.lang T2N.C01Sent.Fr.mem_all T2N.C07.C07_langAgree_fr T2N.Spec.Fr.sepWord rfl _ n (phraseOk_fr v n h)

theorem C05_sep_then_number_texts_fr (v : T2N.Spec.Var) (n : Nat) (h : n < 10 ^ 12) :
    occTexts T2N.Fr.lang zeroThr ([T2N.Spec.Fr.sepWord] ++ T2N.Spec.Fr.cardinal v n) = some [T2N.Spec.decChars n] := by
  unfold occTexts
  rw [C05_sep_then_number_fr v n h]
  rfl

/-- **C05 (sep, fr) clause 2**: a spelled cardinal, the separator word, then words that the parser refuses in every
state (possibly none: end of the input) — for EVERY threshold the occurrences are exactly those found when the input
ends after the number: the separator does not attach to the number, and nothing else is found. -/
theorem C05_sep_nothing_after_fr (v : T2N.Spec.Var) (n : Nat) (thr : Nat → Bool) (h : n < 10 ^ 12)
    (post : List Word) (hpost : ∀ w ∈ post, T2N.Fr.lang.Rejects w) :
    findNumbers (scanCfg T2N.Fr.lang thr)
        (wordTokens (T2N.Spec.Fr.cardinal v n ++ [T2N.Spec.Fr.sepWord] ++ post)) =
      findNumbers (scanCfg T2N.Fr.lang thr) (wordTokens (T2N.Spec.Fr.cardinal v n)) := by
  have := nothing_after T2N.Fr.lang T2N.C07.C07_langAgree_fr _ n (phraseOk_fr v n h) thr []
    (T2N.Spec.Fr.sepWord :: post) (fun _ hw => by cases hw)
    (fun w hw => by
      rcases List.mem_cons.mp hw with rfl | hw
      · exact sep_stops_builtin T2N.Fr.lang T2N.C01Sent.Fr.mem_all _ rfl
      · exact Stops.of_rejects (hpost w hw))
  rw [List.nil_append] at this
  rw [List.append_assoc, List.singleton_append]
  exact this

/-- clause 2 at threshold 0: exactly one occurrence, the integer alone — tokens `0 … 2·len−2`, the separator (token
`2·len`) is outside the span — and its text contains no decimal mark -/
theorem C05_sep_nothing_after_zero_fr (v : T2N.Spec.Var) (n : Nat) (h : n < 10 ^ 12)
    (post : List Word) (hpost : ∀ w ∈ post, T2N.Fr.lang.Rejects w) :
    findNumbers (scanCfg T2N.Fr.lang zeroThr)
        (wordTokens (T2N.Spec.Fr.cardinal v n ++ [T2N.Spec.Fr.sepWord] ++ post)) =
      .ok [⟨0, 2 * (T2N.Spec.Fr.cardinal v n).length - 1, T2N.Spec.decChars n,
        .dec (T2N.Spec.decDigits n) [], false⟩] ∧
    T2N.Spec.Fr.decMark ∉ T2N.Spec.decChars n := by
  refine ⟨?_, (decChars_no_mark n).1⟩
  rw [C05_sep_nothing_after_fr v n zeroThr h post hpost]
  have := scan_phrase_zero T2N.Fr.lang T2N.C07.C07_langAgree_fr _ n (phraseOk_fr v n h) [] (fun _ hw => by cases hw)
  rw [List.nil_append] at this
  rw [this]
  simp

theorem C05_sep_nothing_after_texts_fr (v : T2N.Spec.Var) (n : Nat) (h : n < 10 ^ 12)
    (post : List Word) (hpost : ∀ w ∈ post, T2N.Fr.lang.Rejects w) :
    occTexts T2N.Fr.lang zeroThr (T2N.Spec.Fr.cardinal v n ++ [T2N.Spec.Fr.sepWord] ++ post) =
      some [T2N.Spec.decChars n] := by
  unfold occTexts
  rw [(C05_sep_nothing_after_zero_fr v n h post hpost).1]
  rfl

/-- **C05 (sep, fr) clause 3**: `<n> sep <fraction> sep Y` (hypotheses of `C05_decimal_fr_occ_all`; `Y` any words) —
for EVERY threshold the second separator ends the decimal number, reported with the text `<n>,<fraction>` as if the
input ended there, the second separator is in no occurrence, and `Y` is scanned on its own (shifted). -/
theorem C05_sep_twice_fr (v : T2N.Spec.Var) (n : Nat) (ds : List Nat) (thr : Nat → Bool) (h : n < 10 ^ 12)
    (hds : ds ≠ []) (h9 : ∀ d ∈ ds, d < 10) (hlen : (ds.dropWhile (· == 0)).length ≤ 12) (Y : List Word) :
    ∃ a b ob, findNumbers (scanCfg T2N.Fr.lang thr) (wordTokens Y) = .ok ob ∧
      findNumbers (scanCfg T2N.Fr.lang thr)
        (wordTokens (T2N.Spec.Fr.cardinal v n ++ [T2N.Spec.Fr.sepWord] ++ T2N.Spec.Fr.fraction v ds ++
          [T2N.Spec.Fr.sepWord] ++ Y)) =
        .ok (⟨a, b, T2N.Spec.decChars n ++ [','] ++ ds.map digitChar, .dec (T2N.Spec.decDigits n) ds, false⟩ ::
          ob.map (shiftOcc (2 * (T2N.Spec.Fr.cardinal v n ++ [T2N.Spec.Fr.sepWord] ++
            T2N.Spec.Fr.fraction v ds).length + 2))) := by
  obtain ⟨a0, b0, e0⟩ := C05_decimal_fr_occ_all v n ds zeroThr h hds h9 hlen
  obtain ⟨a, b, e1⟩ := C05_decimal_fr_occ_all v n ds thr h hds h9 hlen
  obtain ⟨ob, h1, h2⟩ := sep_twice T2N.Fr.lang T2N.C01Sent.Fr.mem_all T2N.C07.C07_langAgree_fr thr T2N.Spec.Fr.sepWord rfl rfl rfl
    (T2N.Spec.Fr.cardinal v n ++ [T2N.Spec.Fr.sepWord] ++ T2N.Spec.Fr.fraction v ds) Y (by simp) _ _
    ⟨_, _, rfl, hds⟩ e0 e1
  exact ⟨a, b, ob, h1, h2⟩

theorem C05_sep_twice_texts_fr (v : T2N.Spec.Var) (n : Nat) (ds : List Nat) (thr : Nat → Bool) (h : n < 10 ^ 12)
    (hds : ds ≠ []) (h9 : ∀ d ∈ ds, d < 10) (hlen : (ds.dropWhile (· == 0)).length ≤ 12) (Y : List Word) :
    occTexts T2N.Fr.lang thr (T2N.Spec.Fr.cardinal v n ++ [T2N.Spec.Fr.sepWord] ++ T2N.Spec.Fr.fraction v ds ++
        [T2N.Spec.Fr.sepWord] ++ Y) =
      (occTexts T2N.Fr.lang thr Y).map ((T2N.Spec.decChars n ++ [','] ++ ds.map digitChar) :: ·) := by
  obtain ⟨a, b, ob, h1, h2⟩ := C05_sep_twice_fr v n ds thr h hds h9 hlen Y
  unfold occTexts
  rw [h1, h2]
  dsimp only
  rw [List.map_cons, map_text_shift]
  rfl

/-- `virgule <5>` ↦ `5` (the separator stays a word); `<12> virgule foo` ↦ `12`; `<2> virgule <5> virgule <5>` ↦ `2,5`, `5`;
`<2> virgule <5> virgule` with every number "small" ↦ `2,5`. The hypotheses are satisfiable. -/
example : occTexts T2N.Fr.lang zeroThr ([T2N.Spec.Fr.sepWord] ++ T2N.Spec.Fr.cardinal (fun _ => 0) 5) =
    some [T2N.Spec.decChars 5] := C05_sep_then_number_texts_fr _ 5 (by decide)

example : T2N.Fr.lang.Rejects w!"foo" := Lang.rejects_of_apply T2N.Fr.lang _ (fun _ => ⟨.nan, rfl, by intro h; cases h⟩)
      (fun _ => ⟨.nan, rfl, by intro h; cases h⟩) rfl

example : occTexts T2N.Fr.lang zeroThr (T2N.Spec.Fr.cardinal (fun _ => 0) 12 ++ [T2N.Spec.Fr.sepWord] ++ [w!"foo"]) =
    some [T2N.Spec.decChars 12] :=
  C05_sep_nothing_after_texts_fr _ 12 (by decide) [w!"foo"] (fun w hw => by
    have : w = w!"foo" := by simpa using hw
    subst this
    exact Lang.rejects_of_apply T2N.Fr.lang _ (fun _ => ⟨.nan, rfl, by intro h; cases h⟩)
      (fun _ => ⟨.nan, rfl, by intro h; cases h⟩) rfl)

example : occTexts T2N.Fr.lang zeroThr (T2N.Spec.Fr.cardinal (fun _ => 0) 2 ++ [T2N.Spec.Fr.sepWord] ++
    T2N.Spec.Fr.fraction (fun _ => 0) [5] ++ [T2N.Spec.Fr.sepWord] ++ T2N.Spec.Fr.cardinal (fun _ => 0) 5) =
    some [T2N.Spec.decChars 2 ++ [','] ++ w!"5", T2N.Spec.decChars 5] := by
  rw [C05_sep_twice_texts_fr _ 2 [5] zeroThr (by decide) (by decide) (by decide) (by decide) _,
    phrase_texts T2N.Fr.lang T2N.C07.C07_langAgree_fr _ 5 (phraseOk_fr _ 5 (by decide))]
  rfl

example : occTexts T2N.Fr.lang (fun _ => true) (T2N.Spec.Fr.cardinal (fun _ => 0) 2 ++ [T2N.Spec.Fr.sepWord] ++
    T2N.Spec.Fr.fraction (fun _ => 0) [5] ++ [T2N.Spec.Fr.sepWord] ++ []) =
    some [T2N.Spec.decChars 2 ++ [','] ++ w!"5"] := by
  rw [C05_sep_twice_texts_fr _ 2 [5] (fun _ => true) (by decide) (by decide) (by decide) (by decide) []]
  rfl

/-- clause 2 under a threshold: with every number "small", `<2> virgule foo` reports nothing — the lone `2` is left as
a word exactly as it is when the input ends after it (`C05_sep_nothing_after_fr` + evaluation of `<2>` alone) -/
example : occTexts T2N.Fr.lang (fun _ => true)
    (T2N.Spec.Fr.cardinal (fun _ => 0) 2 ++ [T2N.Spec.Fr.sepWord] ++ [w!"foo"]) = some [] := by
  unfold occTexts
  rw [C05_sep_nothing_after_fr _ 2 (fun _ => true) (by decide) [w!"foo"] (fun w hw => by
    have : w = w!"foo" := by simpa using hw
    subst this
    exact Lang.rejects_of_apply T2N.Fr.lang _ (fun _ => ⟨.nan, rfl, by intro h; cases h⟩)
      (fun _ => ⟨.nan, rfl, by intro h; cases h⟩) rfl)]
  have : occTexts T2N.Fr.lang (fun _ => true) (T2N.Spec.Fr.cardinal (fun _ => 0) 2) = some [] := by
    decide +kernel
  exact this

/-! ## ——— Spanish ——— -/

/-- **C05 (sep, es) clause 1**: `pre` consists of words that the Spanish parser refuses in every state (possibly none),
then the separator word, then anything: for EVERY threshold the scanner reports exactly the occurrences of `post`
scanned on its own, shifted by the `2 * pre.length + 2` tokens before it; in particular no occurrence covers the
separator token (position `2 * pre.length`) and the separator after nothing never starts a decimal. -/
theorem C05_sep_alone_es (thr : Nat → Bool) (pre post : List Word) (hpre : ∀ w ∈ pre, T2N.Es.lang.Rejects w) :
    ∃ ob, findNumbers (scanCfg T2N.Es.lang thr) (wordTokens post) = .ok ob ∧
      findNumbers (scanCfg T2N.Es.lang thr) (wordTokens (pre ++ [T2N.Spec.Es.sepWord] ++ post)) =
        .ok (ob.map (shiftOcc (2 * pre.length + 2))) ∧
      ∀ o ∈ ob.map (shiftOcc (2 * pre.length + 2)), 2 * pre.length < o.start := by
  obtain ⟨ob, h1, h2⟩ := sep_alone T2N.Es.lang T2N.C01Sent.Es.mem_all T2N.C07.C07_langAgree_es thr T2N.Spec.Es.sepWord rfl pre post
    (fun w hw => not_accepted_of_rejects _ _ (hpre w hw))
  refine ⟨ob, h1, h2, ?_⟩
  intro o ho
  have := shift_start _ _ o ho
  omega

/-- clause 1 on the texts, under the weaker hypothesis that no word of `pre` is accepted by the fresh builder -/
theorem C05_sep_alone_texts_es (thr : Nat → Bool) (pre post : List Word)
    (hpre : ∀ w ∈ pre, (T2N.Es.lang.apply w DS.new).1 ≠ none) :
    occTexts T2N.Es.lang thr (pre ++ [T2N.Spec.Es.sepWord] ++ post) = occTexts T2N.Es.lang thr post :=
  sep_alone_texts T2N.Es.lang T2N.C01Sent.Es.mem_all T2N.C07.C07_langAgree_es thr T2N.Spec.Es.sepWord rfl pre post hpre

/-- the separator word alone is left as a word, whatever the threshold -/
theorem C05_sep_only_es (thr : Nat → Bool) : occTexts T2N.Es.lang thr [T2N.Spec.Es.sepWord] = some [] :=
  sep_only T2N.Es.lang T2N.C01Sent.Es.mem_all T2N.C07.C07_langAgree_es thr T2N.Spec.Es.sepWord rfl

/-- `sep <cardinal>` (threshold 0): the number is found on its own — one occurrence starting at token 2 — and the
separator is kept as a word: a leading separator never starts a decimal `0,…` -/
theorem C05_sep_then_number_es (v : T2N.Spec.Var) (n : Nat) (h : n < 10 ^ 12) :
    findNumbers (scanCfg T2N.Es.lang zeroThr) (wordTokens ([T2N.Spec.Es.sepWord] ++ T2N.Spec.Es.cardinal v n)) =
      .ok [⟨2, 2 + (2 * (T2N.Spec.Es.cardinal v n).length - 1), T2N.Spec.decChars n,
        .dec (T2N.Spec.decDigits n) [], false⟩] :=
  sep_then_number T2N.Es.lang T2N.C01Sent.Es.mem_all T2N.C07.C07_langAgree_es T2N.Spec.Es.sepWord rfl _ n (phraseOk_es v n h)

theorem C05_sep_then_number_texts_es (v : T2N.Spec.Var) (n : Nat) (h : n < 10 ^ 12) :
    occTexts T2N.Es.lang zeroThr ([T2N.Spec.Es.sepWord] ++ T2N.Spec.Es.cardinal v n) = some [T2N.Spec.decChars n] := by
  unfold occTexts
  rw [C05_sep_then_number_es v n h]
  rfl

/-- **C05 (sep, es) clause 2**: a spelled cardinal, the separator word, then words that the parser refuses in every
state (possibly none: end of the input) — for EVERY threshold the occurrences are exactly those found when the input
ends after the number: the separator does not attach to the number, and nothing else is found. -/
theorem C05_sep_nothing_after_es (v : T2N.Spec.Var) (n : Nat) (thr : Nat → Bool) (h : n < 10 ^ 12)
    (post : List Word) (hpost : ∀ w ∈ post, T2N.Es.lang.Rejects w) :
    findNumbers (scanCfg T2N.Es.lang thr)
        (wordTokens (T2N.Spec.Es.cardinal v n ++ [T2N.Spec.Es.sepWord] ++ post)) =
      findNumbers (scanCfg T2N.Es.lang thr) (wordTokens (T2N.Spec.Es.cardinal v n)) := by
  have := nothing_after T2N.Es.lang T2N.C07.C07_langAgree_es _ n (phraseOk_es v n h) thr []
    (T2N.Spec.Es.sepWord :: post) (fun _ hw => by cases hw)
    (fun w hw => by
      rcases List.mem_cons.mp hw with rfl | hw
      · exact sep_stops_builtin T2N.Es.lang T2N.C01Sent.Es.mem_all _ rfl
      · exact Stops.of_rejects (hpost w hw))
  rw [List.nil_append] at this
  rw [List.append_assoc, List.singleton_append]
  exact this

/-- clause 2 at threshold 0: exactly one occurrence, the integer alone — tokens `0 … 2·len−2`, the separator (token
`2·len`) is outside the span — and its text contains no decimal mark -/
theorem C05_sep_nothing_after_zero_es (v : T2N.Spec.Var) (n : Nat) (h : n < 10 ^ 12)
    (post : List Word) (hpost : ∀ w ∈ post, T2N.Es.lang.Rejects w) :
    findNumbers (scanCfg T2N.Es.lang zeroThr)
        (wordTokens (T2N.Spec.Es.cardinal v n ++ [T2N.Spec.Es.sepWord] ++ post)) =
      .ok [⟨0, 2 * (T2N.Spec.Es.cardinal v n).length - 1, T2N.Spec.decChars n,
        .dec (T2N.Spec.decDigits n) [], false⟩] ∧
    T2N.Spec.Es.decMark ∉ T2N.Spec.decChars n := by
  refine ⟨?_, (decChars_no_mark n).1⟩
  rw [C05_sep_nothing_after_es v n zeroThr h post hpost]
  have := scan_phrase_zero T2N.Es.lang T2N.C07.C07_langAgree_es _ n (phraseOk_es v n h) [] (fun _ hw => by cases hw)
  rw [List.nil_append] at this
  rw [this]
  simp

theorem C05_sep_nothing_after_texts_es (v : T2N.Spec.Var) (n : Nat) (h : n < 10 ^ 12)
    (post : List Word) (hpost : ∀ w ∈ post, T2N.Es.lang.Rejects w) :
    occTexts T2N.Es.lang zeroThr (T2N.Spec.Es.cardinal v n ++ [T2N.Spec.Es.sepWord] ++ post) =
      some [T2N.Spec.decChars n] := by
  unfold occTexts
  rw [(C05_sep_nothing_after_zero_es v n h post hpost).1]
  rfl

/-- **C05 (sep, es) clause 3**: `<n> sep <fraction> sep Y` (hypotheses of `C05_decimal_es_occ_all`; `Y` any words) —
for EVERY threshold the second separator ends the decimal number, reported with the text `<n>,<fraction>` as if the
input ended there, the second separator is in no occurrence, and `Y` is scanned on its own (shifted). -/
theorem C05_sep_twice_es (v : T2N.Spec.Var) (n : Nat) (ds : List Nat) (thr : Nat → Bool) (h : n < 10 ^ 12)
    (hds : ds ≠ []) (h9 : ∀ d ∈ ds, d < 10) (hlen : (ds.dropWhile (· == 0)).length ≤ 12) (Y : List Word) :
    ∃ a b ob, findNumbers (scanCfg T2N.Es.lang thr) (wordTokens Y) = .ok ob ∧
      findNumbers (scanCfg T2N.Es.lang thr)
        (wordTokens (T2N.Spec.Es.cardinal v n ++ [T2N.Spec.Es.sepWord] ++ T2N.Spec.Es.fraction v ds ++
          [T2N.Spec.Es.sepWord] ++ Y)) =
        .ok (⟨a, b, T2N.Spec.decChars n ++ [','] ++ ds.map digitChar, .dec (T2N.Spec.decDigits n) ds, false⟩ ::
          ob.map (shiftOcc (2 * (T2N.Spec.Es.cardinal v n ++ [T2N.Spec.Es.sepWord] ++
            T2N.Spec.Es.fraction v ds).length + 2))) := by
  obtain ⟨a0, b0, e0⟩ := C05_decimal_es_occ_all v n ds zeroThr h hds h9 hlen
  obtain ⟨a, b, e1⟩ := C05_decimal_es_occ_all v n ds thr h hds h9 hlen
  obtain ⟨ob, h1, h2⟩ := sep_twice T2N.Es.lang T2N.C01Sent.Es.mem_all T2N.C07.C07_langAgree_es thr T2N.Spec.Es.sepWord rfl rfl rfl
    (T2N.Spec.Es.cardinal v n ++ [T2N.Spec.Es.sepWord] ++ T2N.Spec.Es.fraction v ds) Y (by simp) _ _
    ⟨_, _, rfl, hds⟩ e0 e1
  exact ⟨a, b, ob, h1, h2⟩

theorem C05_sep_twice_texts_es (v : T2N.Spec.Var) (n : Nat) (ds : List Nat) (thr : Nat → Bool) (h : n < 10 ^ 12)
    (hds : ds ≠ []) (h9 : ∀ d ∈ ds, d < 10) (hlen : (ds.dropWhile (· == 0)).length ≤ 12) (Y : List Word) :
    occTexts T2N.Es.lang thr (T2N.Spec.Es.cardinal v n ++ [T2N.Spec.Es.sepWord] ++ T2N.Spec.Es.fraction v ds ++
        [T2N.Spec.Es.sepWord] ++ Y) =
      (occTexts T2N.Es.lang thr Y).map ((T2N.Spec.decChars n ++ [','] ++ ds.map digitChar) :: ·) := by
  obtain ⟨a, b, ob, h1, h2⟩ := C05_sep_twice_es v n ds thr h hds h9 hlen Y
  unfold occTexts
  rw [h1, h2]
  dsimp only
  rw [List.map_cons, map_text_shift]
  rfl

/-- `coma <5>` ↦ `5` (the separator stays a word); `<12> coma foo` ↦ `12`; `<2> coma <5> coma <5>` ↦ `2,5`, `5`;
`<2> coma <5> coma` with every number "small" ↦ `2,5`. The hypotheses are satisfiable. -/
example : occTexts T2N.Es.lang zeroThr ([T2N.Spec.Es.sepWord] ++ T2N.Spec.Es.cardinal (fun _ => 0) 5) =
    some [T2N.Spec.decChars 5] := C05_sep_then_number_texts_es _ 5 (by decide)

example : T2N.Es.lang.Rejects w!"foo" := T2N.C01.C01_es_rejects_of_nan _ (by decide) (by decide) (by decide)

example : occTexts T2N.Es.lang zeroThr (T2N.Spec.Es.cardinal (fun _ => 0) 12 ++ [T2N.Spec.Es.sepWord] ++ [w!"foo"]) =
    some [T2N.Spec.decChars 12] :=
  C05_sep_nothing_after_texts_es _ 12 (by decide) [w!"foo"] (fun w hw => by
    have : w = w!"foo" := by simpa using hw
    subst this
    exact T2N.C01.C01_es_rejects_of_nan _ (by decide) (by decide) (by decide))

example : occTexts T2N.Es.lang zeroThr (T2N.Spec.Es.cardinal (fun _ => 0) 2 ++ [T2N.Spec.Es.sepWord] ++
    T2N.Spec.Es.fraction (fun _ => 0) [5] ++ [T2N.Spec.Es.sepWord] ++ T2N.Spec.Es.cardinal (fun _ => 0) 5) =
    some [T2N.Spec.decChars 2 ++ [','] ++ w!"5", T2N.Spec.decChars 5] := by
  rw [C05_sep_twice_texts_es _ 2 [5] zeroThr (by decide) (by decide) (by decide) (by decide) _,
    phrase_texts T2N.Es.lang T2N.C07.C07_langAgree_es _ 5 (phraseOk_es _ 5 (by decide))]
  rfl

example : occTexts T2N.Es.lang (fun _ => true) (T2N.Spec.Es.cardinal (fun _ => 0) 2 ++ [T2N.Spec.Es.sepWord] ++
    T2N.Spec.Es.fraction (fun _ => 0) [5] ++ [T2N.Spec.Es.sepWord] ++ []) =
    some [T2N.Spec.decChars 2 ++ [','] ++ w!"5"] := by
  rw [C05_sep_twice_texts_es _ 2 [5] (fun _ => true) (by decide) (by decide) (by decide) (by decide) []]
  rfl

/-- clause 2 under a threshold: with every number "small", `<2> coma foo` reports nothing — the lone `2` is left as
a word exactly as it is when the input ends after it (`C05_sep_nothing_after_es` + evaluation of `<2>` alone) -/
example : occTexts T2N.Es.lang (fun _ => true)
    (T2N.Spec.Es.cardinal (fun _ => 0) 2 ++ [T2N.Spec.Es.sepWord] ++ [w!"foo"]) = some [] := by
  unfold occTexts
  rw [C05_sep_nothing_after_es _ 2 (fun _ => true) (by decide) [w!"foo"] (fun w hw => by
    have : w = w!"foo" := by simpa using hw
    subst this
    exact T2N.C01.C01_es_rejects_of_nan _ (by decide) (by decide) (by decide))]
  have : occTexts T2N.Es.lang (fun _ => true) (T2N.Spec.Es.cardinal (fun _ => 0) 2) = some [] := by
    decide +kernel
  exact this

/-! ## ——— Portuguese ——— -/

/-- **C05 (sep, pt) clause 1**: `pre` consists of words that the Portuguese parser refuses in every state (possibly none),
then the separator word, then anything: for EVERY threshold the scanner reports exactly the occurrences of `post`
scanned on its own, shifted by the `2 * pre.length + 2` tokens before it; in particular no occurrence covers the
separator token (position `2 * pre.length`) and the separator after nothing never starts a decimal. -/
theorem C05_sep_alone_pt (thr : Nat → Bool) (pre post : List Word) (hpre : ∀ w ∈ pre, T2N.Pt.lang.Rejects w) :
    ∃ ob, findNumbers (scanCfg T2N.Pt.lang thr) (wordTokens post) = .ok ob ∧
      findNumbers (scanCfg T2N.Pt.lang thr) (wordTokens (pre ++ [T2N.Spec.Pt.sepWord] ++ post)) =
        .ok (ob.map (shiftOcc (2 * pre.length + 2))) ∧
      ∀ o ∈ ob.map (shiftOcc (2 * pre.length + 2)), 2 * pre.length < o.start := by
  obtain ⟨ob, h1, h2⟩ := sep_alone T2N.Pt.lang T2N.C01Sent.Pt.mem_all T2N.C07.C07_langAgree_pt thr T2N.Spec.Pt.sepWord rfl pre post
    (fun w hw => not_accepted_of_rejects _ _ (hpre w hw))
  refine ⟨ob, h1, h2, ?_⟩
  intro o ho
  have := shift_start _ _ o ho
  omega

/-- clause 1 on the texts, under the weaker hypothesis that no word of `pre` is accepted by the fresh builder -/
theorem C05_sep_alone_texts_pt (thr : Nat → Bool) (pre post : List Word)
    (hpre : ∀ w ∈ pre, (T2N.Pt.lang.apply w DS.new).1 ≠ none) :
    occTexts T2N.Pt.lang thr (pre ++ [T2N.Spec.Pt.sepWord] ++ post) = occTexts T2N.Pt.lang thr post :=
  sep_alone_texts T2N.Pt.lang T2N.C01Sent.Pt.mem_all T2N.C07.C07_langAgree_pt thr T2N.Spec.Pt.sepWord rfl pre post hpre

/-- the separator word alone is left as a word, whatever the threshold -/
theorem C05_sep_only_pt (thr : Nat → Bool) : occTexts T2N.Pt.lang thr [T2N.Spec.Pt.sepWord] = some [] :=
  sep_only T2N.Pt.lang T2N.C01Sent.Pt.mem_all T2N.C07.C07_langAgree_pt thr T2N.Spec.Pt.sepWord rfl

/-- `sep <cardinal>` (threshold 0): the number is found on its own — one occurrence starting at token 2 — and the
separator is kept as a word: a leading separator never starts a decimal `0,…` -/
theorem C05_sep_then_number_pt (v : T2N.Spec.Var) (n : Nat) (h : n < 10 ^ 12) :
    findNumbers (scanCfg T2N.Pt.lang zeroThr) (wordTokens ([T2N.Spec.Pt.sepWord] ++ T2N.Spec.Pt.cardinal v n)) =
      .ok [⟨2, 2 + (2 * (T2N.Spec.Pt.cardinal v n).length - 1), T2N.Spec.decChars n,
        .dec (T2N.Spec.decDigits n) [], false⟩] :=
  sep_then_number T2N.Pt.lang T2N.C01Sent.Pt.mem_all T2N.C07.C07_langAgree_pt T2N.Spec.Pt.sepWord rfl _ n (phraseOk_pt v n h)

theorem C05_sep_then_number_texts_pt (v : T2N.Spec.Var) (n : Nat) (h : n < 10 ^ 12) :
    occTexts T2N.Pt.lang zeroThr ([T2N.Spec.Pt.sepWord] ++ T2N.Spec.Pt.cardinal v n) = some [T2N.Spec.decChars n] := by
  unfold occTexts
  rw [C05_sep_then_number_pt v n h]
  rfl

/-- **C05 (sep, pt) clause 2**: a spelled cardinal, the separator word, then words that the parser refuses in every
state (possibly none: end of the input) — for EVERY threshold the occurrences are exactly those found when the input
ends after the number: the separator does not attach to the number, and nothing else is found. -/
theorem C05_sep_nothing_after_pt (v : T2N.Spec.Var) (n : Nat) (thr : Nat → Bool) (h : n < 10 ^ 12)
    (post : List Word) (hpost : ∀ w ∈ post, T2N.Pt.lang.Rejects w) :
    findNumbers (scanCfg T2N.Pt.lang thr)
        (wordTokens (T2N.Spec.Pt.cardinal v n ++ [T2N.Spec.Pt.sepWord] ++ post)) =
      findNumbers (scanCfg T2N.Pt.lang thr) (wordTokens (T2N.Spec.Pt.cardinal v n)) := by
  have := nothing_after T2N.Pt.lang T2N.C07.C07_langAgree_pt _ n (phraseOk_pt v n h) thr []
    (T2N.Spec.Pt.sepWord :: post) (fun _ hw => by cases hw)
    (fun w hw => by
      rcases List.mem_cons.mp hw with rfl | hw
      · exact sep_stops_builtin T2N.Pt.lang T2N.C01Sent.Pt.mem_all _ rfl
      · exact Stops.of_rejects (hpost w hw))
  rw [List.nil_append] at this
  rw [List.append_assoc, List.singleton_append]
  exact this

/-- clause 2 at threshold 0: exactly one occurrence, the integer alone — tokens `0 … 2·len−2`, the separator (token
`2·len`) is outside the span — and its text contains no decimal mark -/
theorem C05_sep_nothing_after_zero_pt (v : T2N.Spec.Var) (n : Nat) (h : n < 10 ^ 12)
    (post : List Word) (hpost : ∀ w ∈ post, T2N.Pt.lang.Rejects w) :
    findNumbers (scanCfg T2N.Pt.lang zeroThr)
        (wordTokens (T2N.Spec.Pt.cardinal v n ++ [T2N.Spec.Pt.sepWord] ++ post)) =
      .ok [⟨0, 2 * (T2N.Spec.Pt.cardinal v n).length - 1, T2N.Spec.decChars n,
        .dec (T2N.Spec.decDigits n) [], false⟩] ∧
    T2N.Spec.Pt.decMark ∉ T2N.Spec.decChars n := by
  refine ⟨?_, (decChars_no_mark n).1⟩
  rw [C05_sep_nothing_after_pt v n zeroThr h post hpost]
  have := scan_phrase_zero T2N.Pt.lang T2N.C07.C07_langAgree_pt _ n (phraseOk_pt v n h) [] (fun _ hw => by cases hw)
  rw [List.nil_append] at this
  rw [this]
  simp

theorem C05_sep_nothing_after_texts_pt (v : T2N.Spec.Var) (n : Nat) (h : n < 10 ^ 12)
    (post : List Word) (hpost : ∀ w ∈ post, T2N.Pt.lang.Rejects w) :
    occTexts T2N.Pt.lang zeroThr (T2N.Spec.Pt.cardinal v n ++ [T2N.Spec.Pt.sepWord] ++ post) =
      some [T2N.Spec.decChars n] := by
  unfold occTexts
  rw [(C05_sep_nothing_after_zero_pt v n h post hpost).1]
  rfl

/-- **C05 (sep, pt) clause 3**: `<n> sep <fraction> sep Y` (hypotheses of `C05_decimal_pt_occ_all`; `Y` any words) —
for EVERY threshold the second separator ends the decimal number, reported with the text `<n>,<fraction>` as if the
input ended there, the second separator is in no occurrence, and `Y` is scanned on its own (shifted). -/
theorem C05_sep_twice_pt (v : T2N.Spec.Var) (n : Nat) (ds : List Nat) (thr : Nat → Bool) (h : n < 10 ^ 12)
    (hds : ds ≠ []) (h9 : ∀ d ∈ ds, d < 10) (hfr : T2N.Spec.Pt.digitsValue (ds.dropWhile (· == 0)) < 10 ^ 12) (Y : List Word) :
    ∃ a b ob, findNumbers (scanCfg T2N.Pt.lang thr) (wordTokens Y) = .ok ob ∧
      findNumbers (scanCfg T2N.Pt.lang thr)
        (wordTokens (T2N.Spec.Pt.cardinal v n ++ [T2N.Spec.Pt.sepWord] ++ T2N.Spec.Pt.fraction v ds ++
          [T2N.Spec.Pt.sepWord] ++ Y)) =
        .ok (⟨a, b, T2N.Spec.decChars n ++ [','] ++ ds.map digitChar, .dec (T2N.Spec.decDigits n) ds, false⟩ ::
          ob.map (shiftOcc (2 * (T2N.Spec.Pt.cardinal v n ++ [T2N.Spec.Pt.sepWord] ++
            T2N.Spec.Pt.fraction v ds).length + 2))) := by
  obtain ⟨a0, b0, e0⟩ := C05_decimal_pt_occ_all v n ds zeroThr h hds h9 hfr
  obtain ⟨a, b, e1⟩ := C05_decimal_pt_occ_all v n ds thr h hds h9 hfr
  obtain ⟨ob, h1, h2⟩ := sep_twice T2N.Pt.lang T2N.C01Sent.Pt.mem_all T2N.C07.C07_langAgree_pt thr T2N.Spec.Pt.sepWord rfl rfl rfl
    (T2N.Spec.Pt.cardinal v n ++ [T2N.Spec.Pt.sepWord] ++ T2N.Spec.Pt.fraction v ds) Y (by simp) _ _
    ⟨_, _, rfl, hds⟩ e0 e1
  exact ⟨a, b, ob, h1, h2⟩

theorem C05_sep_twice_texts_pt (v : T2N.Spec.Var) (n : Nat) (ds : List Nat) (thr : Nat → Bool) (h : n < 10 ^ 12)
    (hds : ds ≠ []) (h9 : ∀ d ∈ ds, d < 10) (hfr : T2N.Spec.Pt.digitsValue (ds.dropWhile (· == 0)) < 10 ^ 12) (Y : List Word) :
    occTexts T2N.Pt.lang thr (T2N.Spec.Pt.cardinal v n ++ [T2N.Spec.Pt.sepWord] ++ T2N.Spec.Pt.fraction v ds ++
        [T2N.Spec.Pt.sepWord] ++ Y) =
      (occTexts T2N.Pt.lang thr Y).map ((T2N.Spec.decChars n ++ [','] ++ ds.map digitChar) :: ·) := by
  obtain ⟨a, b, ob, h1, h2⟩ := C05_sep_twice_pt v n ds thr h hds h9 hfr Y
  unfold occTexts
  rw [h1, h2]
  dsimp only
  rw [List.map_cons, map_text_shift]
  rfl

/-- `vírgula <5>` ↦ `5` (the separator stays a word); `<12> vírgula foo` ↦ `12`; `<2> vírgula <5> vírgula <5>` ↦ `2,5`, `5`;
`<2> vírgula <5> vírgula` with every number "small" ↦ `2,5`. The hypotheses are satisfiable. -/
example : occTexts T2N.Pt.lang zeroThr ([T2N.Spec.Pt.sepWord] ++ T2N.Spec.Pt.cardinal (fun _ => 0) 5) =
    some [T2N.Spec.decChars 5] := C05_sep_then_number_texts_pt _ 5 (by decide)

example : T2N.Pt.lang.Rejects w!"foo" := T2N.C01.C01_pt_rejects_of_nan _ (by decide) (by decide) (by decide)

example : occTexts T2N.Pt.lang zeroThr (T2N.Spec.Pt.cardinal (fun _ => 0) 12 ++ [T2N.Spec.Pt.sepWord] ++ [w!"foo"]) =
    some [T2N.Spec.decChars 12] :=
  C05_sep_nothing_after_texts_pt _ 12 (by decide) [w!"foo"] (fun w hw => by
    have : w = w!"foo" := by simpa using hw
    subst this
    exact T2N.C01.C01_pt_rejects_of_nan _ (by decide) (by decide) (by decide))

example : occTexts T2N.Pt.lang zeroThr (T2N.Spec.Pt.cardinal (fun _ => 0) 2 ++ [T2N.Spec.Pt.sepWord] ++
    T2N.Spec.Pt.fraction (fun _ => 0) [5] ++ [T2N.Spec.Pt.sepWord] ++ T2N.Spec.Pt.cardinal (fun _ => 0) 5) =
    some [T2N.Spec.decChars 2 ++ [','] ++ w!"5", T2N.Spec.decChars 5] := by
  rw [C05_sep_twice_texts_pt _ 2 [5] zeroThr (by decide) (by decide) (by decide) (by decide) _,
    phrase_texts T2N.Pt.lang T2N.C07.C07_langAgree_pt _ 5 (phraseOk_pt _ 5 (by decide))]
  rfl

example : occTexts T2N.Pt.lang (fun _ => true) (T2N.Spec.Pt.cardinal (fun _ => 0) 2 ++ [T2N.Spec.Pt.sepWord] ++
    T2N.Spec.Pt.fraction (fun _ => 0) [5] ++ [T2N.Spec.Pt.sepWord] ++ []) =
    some [T2N.Spec.decChars 2 ++ [','] ++ w!"5"] := by
  rw [C05_sep_twice_texts_pt _ 2 [5] (fun _ => true) (by decide) (by decide) (by decide) (by decide) []]
  rfl

/-- clause 2 under a threshold: with every number "small", `<2> vírgula foo` reports nothing — the lone `2` is left as
a word exactly as it is when the input ends after it (`C05_sep_nothing_after_pt` + evaluation of `<2>` alone) -/
example : occTexts T2N.Pt.lang (fun _ => true)
    (T2N.Spec.Pt.cardinal (fun _ => 0) 2 ++ [T2N.Spec.Pt.sepWord] ++ [w!"foo"]) = some [] := by
  unfold occTexts
  rw [C05_sep_nothing_after_pt _ 2 (fun _ => true) (by decide) [w!"foo"] (fun w hw => by
    have : w = w!"foo" := by simpa using hw
    subst this
    exact T2N.C01.C01_pt_rejects_of_nan _ (by decide) (by decide) (by decide))]
  have : occTexts T2N.Pt.lang (fun _ => true) (T2N.Spec.Pt.cardinal (fun _ => 0) 2) = some [] := by
    decide +kernel
  exact this

/-! ## ——— Italian ——— -/

/-- **C05 (sep, it) clause 1**: `pre` consists of words that the Italian parser refuses in every state (possibly none),
then the separator word, then anything: for EVERY threshold the scanner reports exactly the occurrences of `post`
scanned on its own, shifted by the `2 * pre.length + 2` tokens before it; in particular no occurrence covers the
separator token (position `2 * pre.length`) and the separator after nothing never starts a decimal. -/
theorem C05_sep_alone_it (thr : Nat → Bool) (pre post : List Word) (hpre : ∀ w ∈ pre, T2N.It.lang.Rejects w) :
    ∃ ob, findNumbers (scanCfg T2N.It.lang thr) (wordTokens post) = .ok ob ∧
      findNumbers (scanCfg T2N.It.lang thr) (wordTokens (pre ++ [T2N.Spec.It.sepWord] ++ post)) =
        .ok (ob.map (shiftOcc (2 * pre.length + 2))) ∧
      ∀ o ∈ ob.map (shiftOcc (2 * pre.length + 2)), 2 * pre.length < o.start := by
  obtain ⟨ob, h1, h2⟩ := sep_alone T2N.It.lang T2N.C01Sent.It.mem_all T2N.C07.C07_langAgree_it thr T2N.Spec.It.sepWord rfl pre post
    (fun w hw => not_accepted_of_rejects _ _ (hpre w hw))
  refine ⟨ob, h1, h2, ?_⟩
  intro o ho
  have := shift_start _ _ o ho
  omega

/-- clause 1 on the texts, under the weaker hypothesis that no word of `pre` is accepted by the fresh builder -/
theorem C05_sep_alone_texts_it (thr : Nat → Bool) (pre post : List Word)
    (hpre : ∀ w ∈ pre, (T2N.It.lang.apply w DS.new).1 ≠ none) :
    occTexts T2N.It.lang thr (pre ++ [T2N.Spec.It.sepWord] ++ post) = occTexts T2N.It.lang thr post :=
  sep_alone_texts T2N.It.lang T2N.C01Sent.It.mem_all T2N.C07.C07_langAgree_it thr T2N.Spec.It.sepWord rfl pre post hpre

/-- the separator word alone is left as a word, whatever the threshold -/
theorem C05_sep_only_it (thr : Nat → Bool) : occTexts T2N.It.lang thr [T2N.Spec.It.sepWord] = some [] :=
  sep_only T2N.It.lang T2N.C01Sent.It.mem_all T2N.C07.C07_langAgree_it thr T2N.Spec.It.sepWord rfl

/-- `sep <cardinal>` (threshold 0): the number is found on its own — one occurrence starting at token 2 — and the
separator is kept as a word: a leading separator never starts a decimal `0,…` -/
theorem C05_sep_then_number_it (v : T2N.Spec.Var) (n : Nat) (h : n < 10 ^ 12) :
    findNumbers (scanCfg T2N.It.lang zeroThr) (wordTokens ([T2N.Spec.It.sepWord] ++ T2N.Spec.It.cardinal v n)) =
      .ok [⟨2, 2 + (2 * (T2N.Spec.It.cardinal v n).length - 1), T2N.Spec.decChars n,
        .dec (T2N.Spec.decDigits n) [], false⟩] :=
  sep_then_number T2N.It.lang T2N.C01Sent.It.mem_all T2N.C07.C07_langAgree_it T2N.Spec.It.sepWord rfl _ n (phraseOk_it v n h)

theorem C05_sep_then_number_texts_it (v : T2N.Spec.Var) (n : Nat) (h : n < 10 ^ 12) :
    occTexts T2N.It.lang zeroThr ([T2N.Spec.It.sepWord] ++ T2N.Spec.It.cardinal v n) = some [T2N.Spec.decChars n] := by
  unfold occTexts
  rw [C05_sep_then_number_it v n h]
  rfl

/-- **C05 (sep, it) clause 2**: a spelled cardinal, the separator word, then words that the parser refuses in every
state (possibly none: end of the input) — for EVERY threshold the occurrences are exactly those found when the input
ends after the number: the separator does not attach to the number, and nothing else is found. -/
theorem C05_sep_nothing_after_it (v : T2N.Spec.Var) (n : Nat) (thr : Nat → Bool) (h : n < 10 ^ 12)
    (post : List Word) (hpost : ∀ w ∈ post, T2N.It.lang.Rejects w) :
    findNumbers (scanCfg T2N.It.lang thr)
        (wordTokens (T2N.Spec.It.cardinal v n ++ [T2N.Spec.It.sepWord] ++ post)) =
      findNumbers (scanCfg T2N.It.lang thr) (wordTokens (T2N.Spec.It.cardinal v n)) := by
  have := nothing_after T2N.It.lang T2N.C07.C07_langAgree_it _ n (phraseOk_it v n h) thr []
    (T2N.Spec.It.sepWord :: post) (fun _ hw => by cases hw)
    (fun w hw => by
      rcases List.mem_cons.mp hw with rfl | hw
      · exact sep_stops_builtin T2N.It.lang T2N.C01Sent.It.mem_all _ rfl
      · exact Stops.of_rejects (hpost w hw))
  rw [List.nil_append] at this
  rw [List.append_assoc, List.singleton_append]
  exact this

/-- clause 2 at threshold 0: exactly one occurrence, the integer alone — tokens `0 … 2·len−2`, the separator (token
`2·len`) is outside the span — and its text contains no decimal mark -/
theorem C05_sep_nothing_after_zero_it (v : T2N.Spec.Var) (n : Nat) (h : n < 10 ^ 12)
    (post : List Word) (hpost : ∀ w ∈ post, T2N.It.lang.Rejects w) :
    findNumbers (scanCfg T2N.It.lang zeroThr)
        (wordTokens (T2N.Spec.It.cardinal v n ++ [T2N.Spec.It.sepWord] ++ post)) =
      .ok [⟨0, 2 * (T2N.Spec.It.cardinal v n).length - 1, T2N.Spec.decChars n,
        .dec (T2N.Spec.decDigits n) [], false⟩] ∧
    T2N.Spec.It.decMark ∉ T2N.Spec.decChars n := by
  refine ⟨?_, (decChars_no_mark n).1⟩
  rw [C05_sep_nothing_after_it v n zeroThr h post hpost]
  have := scan_phrase_zero T2N.It.lang T2N.C07.C07_langAgree_it _ n (phraseOk_it v n h) [] (fun _ hw => by cases hw)
  rw [List.nil_append] at this
  rw [this]
  simp

theorem C05_sep_nothing_after_texts_it (v : T2N.Spec.Var) (n : Nat) (h : n < 10 ^ 12)
    (post : List Word) (hpost : ∀ w ∈ post, T2N.It.lang.Rejects w) :
    occTexts T2N.It.lang zeroThr (T2N.Spec.It.cardinal v n ++ [T2N.Spec.It.sepWord] ++ post) =
      some [T2N.Spec.decChars n] := by
  unfold occTexts
  rw [(C05_sep_nothing_after_zero_it v n h post hpost).1]
  rfl

/-- **C05 (sep, it) clause 3**: `<n> sep <fraction> sep Y` (hypotheses of `C05_decimal_it_occ_all`; `Y` any words) —
for EVERY threshold the second separator ends the decimal number, reported with the text `<n>,<fraction>` as if the
input ended there, the second separator is in no occurrence, and `Y` is scanned on its own (shifted). -/
theorem C05_sep_twice_it (v : T2N.Spec.Var) (n : Nat) (ds : List Nat) (thr : Nat → Bool) (h : n < 10 ^ 12)
    (hds : ds ≠ []) (h9 : ∀ d ∈ ds, d < 10) (hlen : (ds.dropWhile (· == 0)).length ≤ 12) (Y : List Word) :
    ∃ a b ob, findNumbers (scanCfg T2N.It.lang thr) (wordTokens Y) = .ok ob ∧
      findNumbers (scanCfg T2N.It.lang thr)
        (wordTokens (T2N.Spec.It.cardinal v n ++ [T2N.Spec.It.sepWord] ++ T2N.Spec.It.fraction v ds ++
          [T2N.Spec.It.sepWord] ++ Y)) =
        .ok (⟨a, b, T2N.Spec.decChars n ++ [','] ++ ds.map digitChar, .dec (T2N.Spec.decDigits n) ds, false⟩ ::
          ob.map (shiftOcc (2 * (T2N.Spec.It.cardinal v n ++ [T2N.Spec.It.sepWord] ++
            T2N.Spec.It.fraction v ds).length + 2))) := by
  obtain ⟨a0, b0, e0⟩ := C05_decimal_it_occ_all v n ds zeroThr h hds h9 hlen
  obtain ⟨a, b, e1⟩ := C05_decimal_it_occ_all v n ds thr h hds h9 hlen
  obtain ⟨ob, h1, h2⟩ := sep_twice T2N.It.lang T2N.C01Sent.It.mem_all T2N.C07.C07_langAgree_it thr T2N.Spec.It.sepWord rfl rfl rfl
    (T2N.Spec.It.cardinal v n ++ [T2N.Spec.It.sepWord] ++ T2N.Spec.It.fraction v ds) Y (by simp) _ _
    ⟨_, _, rfl, hds⟩ e0 e1
  exact ⟨a, b, ob, h1, h2⟩

theorem C05_sep_twice_texts_it (v : T2N.Spec.Var) (n : Nat) (ds : List Nat) (thr : Nat → Bool) (h : n < 10 ^ 12)
    (hds : ds ≠ []) (h9 : ∀ d ∈ ds, d < 10) (hlen : (ds.dropWhile (· == 0)).length ≤ 12) (Y : List Word) :
    occTexts T2N.It.lang thr (T2N.Spec.It.cardinal v n ++ [T2N.Spec.It.sepWord] ++ T2N.Spec.It.fraction v ds ++
        [T2N.Spec.It.sepWord] ++ Y) =
      (occTexts T2N.It.lang thr Y).map ((T2N.Spec.decChars n ++ [','] ++ ds.map digitChar) :: ·) := by
  obtain ⟨a, b, ob, h1, h2⟩ := C05_sep_twice_it v n ds thr h hds h9 hlen Y
  unfold occTexts
  rw [h1, h2]
  dsimp only
  rw [List.map_cons, map_text_shift]
  rfl

/-- `virgola <5>` ↦ `5` (the separator stays a word); `<12> virgola foo` ↦ `12`; `<2> virgola <5> virgola <5>` ↦ `2,5`, `5`;
`<2> virgola <5> virgola` with every number "small" ↦ `2,5`. The hypotheses are satisfiable. -/
example : occTexts T2N.It.lang zeroThr ([T2N.Spec.It.sepWord] ++ T2N.Spec.It.cardinal (fun _ => 0) 5) =
    some [T2N.Spec.decChars 5] := C05_sep_then_number_texts_it _ 5 (by decide)

example : T2N.It.lang.Rejects w!"foo" := Lang.rejects_of_apply T2N.It.lang _ (fun _ => ⟨.nan, rfl, by intro h; cases h⟩)
      (fun _ => ⟨.nan, rfl, by intro h; cases h⟩) rfl

example : occTexts T2N.It.lang zeroThr (T2N.Spec.It.cardinal (fun _ => 0) 12 ++ [T2N.Spec.It.sepWord] ++ [w!"foo"]) =
    some [T2N.Spec.decChars 12] :=
  C05_sep_nothing_after_texts_it _ 12 (by decide) [w!"foo"] (fun w hw => by
    have : w = w!"foo" := by simpa using hw
    subst this
    exact Lang.rejects_of_apply T2N.It.lang _ (fun _ => ⟨.nan, rfl, by intro h; cases h⟩)
      (fun _ => ⟨.nan, rfl, by intro h; cases h⟩) rfl)

example : occTexts T2N.It.lang zeroThr (T2N.Spec.It.cardinal (fun _ => 0) 2 ++ [T2N.Spec.It.sepWord] ++
    T2N.Spec.It.fraction (fun _ => 0) [5] ++ [T2N.Spec.It.sepWord] ++ T2N.Spec.It.cardinal (fun _ => 0) 5) =
    some [T2N.Spec.decChars 2 ++ [','] ++ w!"5", T2N.Spec.decChars 5] := by
  rw [C05_sep_twice_texts_it _ 2 [5] zeroThr (by decide) (by decide) (by decide) (by decide) _,
    phrase_texts T2N.It.lang T2N.C07.C07_langAgree_it _ 5 (phraseOk_it _ 5 (by decide))]
  rfl

example : occTexts T2N.It.lang (fun _ => true) (T2N.Spec.It.cardinal (fun _ => 0) 2 ++ [T2N.Spec.It.sepWord] ++
    T2N.Spec.It.fraction (fun _ => 0) [5] ++ [T2N.Spec.It.sepWord] ++ []) =
    some [T2N.Spec.decChars 2 ++ [','] ++ w!"5"] := by
  rw [C05_sep_twice_texts_it _ 2 [5] (fun _ => true) (by decide) (by decide) (by decide) (by decide) []]
  rfl

/-- clause 2 under a threshold: with every number "small", `<2> virgola foo` reports nothing — the lone `2` is left as
a word exactly as it is when the input ends after it (`C05_sep_nothing_after_it` + evaluation of `<2>` alone) -/
example : occTexts T2N.It.lang (fun _ => true)
    (T2N.Spec.It.cardinal (fun _ => 0) 2 ++ [T2N.Spec.It.sepWord] ++ [w!"foo"]) = some [] := by
  unfold occTexts
  rw [C05_sep_nothing_after_it _ 2 (fun _ => true) (by decide) [w!"foo"] (fun w hw => by
    have : w = w!"foo" := by simpa using hw
    subst this
    exact Lang.rejects_of_apply T2N.It.lang _ (fun _ => ⟨.nan, rfl, by intro h; cases h⟩)
      (fun _ => ⟨.nan, rfl, by intro h; cases h⟩) rfl)]
  have : occTexts T2N.It.lang (fun _ => true) (T2N.Spec.It.cardinal (fun _ => 0) 2) = some [] := by
    decide +kernel
  exact this

/-! ## ——— German ——— -/

/-- **C05 (sep, de) clause 1**: `pre` consists of words that the German parser refuses in every state (possibly none),
then the separator word, then anything: for EVERY threshold the scanner reports exactly the occurrences of `post`
scanned on its own, shifted by the `2 * pre.length + 2` tokens before it; in particular no occurrence covers the
separator token (position `2 * pre.length`) and the separator after nothing never starts a decimal. -/
theorem C05_sep_alone_de (thr : Nat → Bool) (pre post : List Word) (hpre : ∀ w ∈ pre, T2N.De.lang.Rejects w) :
    ∃ ob, findNumbers (scanCfg T2N.De.lang thr) (wordTokens post) = .ok ob ∧
      findNumbers (scanCfg T2N.De.lang thr) (wordTokens (pre ++ [T2N.Spec.De.sepWord] ++ post)) =
        .ok (ob.map (shiftOcc (2 * pre.length + 2))) ∧
      ∀ o ∈ ob.map (shiftOcc (2 * pre.length + 2)), 2 * pre.length < o.start := by
  obtain ⟨ob, h1, h2⟩ := sep_alone T2N.De.lang T2N.C01Sent.De.mem_all T2N.C07.C07_langAgree_de thr T2N.Spec.De.sepWord rfl pre post
    (fun w hw => not_accepted_of_rejects _ _ (hpre w hw))
  refine ⟨ob, h1, h2, ?_⟩
  intro o ho
  have := shift_start _ _ o ho
  omega

/-- clause 1 on the texts, under the weaker hypothesis that no word of `pre` is accepted by the fresh builder -/
theorem C05_sep_alone_texts_de (thr : Nat → Bool) (pre post : List Word)
    (hpre : ∀ w ∈ pre, (T2N.De.lang.apply w DS.new).1 ≠ none) :
    occTexts T2N.De.lang thr (pre ++ [T2N.Spec.De.sepWord] ++ post) = occTexts T2N.De.lang thr post :=
  sep_alone_texts T2N.De.lang T2N.C01Sent.De.mem_all T2N.C07.C07_langAgree_de thr T2N.Spec.De.sepWord rfl pre post hpre

/-- the separator word alone is left as a word, whatever the threshold -/
theorem C05_sep_only_de (thr : Nat → Bool) : occTexts T2N.De.lang thr [T2N.Spec.De.sepWord] = some [] :=
  sep_only T2N.De.lang T2N.C01Sent.De.mem_all T2N.C07.C07_langAgree_de thr T2N.Spec.De.sepWord rfl

/-- `sep <cardinal>` (threshold 0): the number is found on its own — one occurrence starting at token 2 — and the
separator is kept as a word: a leading separator never starts a decimal `0,…` -/
theorem C05_sep_then_number_de (v : T2N.Spec.Var) (n : Nat) (h : n < 10 ^ 12) (hv : T2N.Spec.flag v (T2N.Spec.cp 2 5) = true ∧ T2N.Spec.flag v (T2N.Spec.cp 3 5) = true) :
    findNumbers (scanCfg T2N.De.lang zeroThr) (wordTokens ([T2N.Spec.De.sepWord] ++ T2N.Spec.De.cardinal v n)) =
      .ok [⟨2, 2 + (2 * (T2N.Spec.De.cardinal v n).length - 1), T2N.Spec.decChars n,
        .dec (T2N.Spec.decDigits n) [], false⟩] :=
  sep_then_number T2N.De.lang T2N.C01Sent.De.mem_all T2N.C07.C07_langAgree_de T2N.Spec.De.sepWord rfl _ n (phraseOk_de v n h hv)

theorem C05_sep_then_number_texts_de (v : T2N.Spec.Var) (n : Nat) (h : n < 10 ^ 12) (hv : T2N.Spec.flag v (T2N.Spec.cp 2 5) = true ∧ T2N.Spec.flag v (T2N.Spec.cp 3 5) = true) :
    occTexts T2N.De.lang zeroThr ([T2N.Spec.De.sepWord] ++ T2N.Spec.De.cardinal v n) = some [T2N.Spec.decChars n] := by
  unfold occTexts
  rw [C05_sep_then_number_de v n h hv]
  rfl

/-- **C05 (sep, de) clause 2**: a spelled cardinal, the separator word, then words that the parser refuses in every
state (possibly none: end of the input) — for EVERY threshold the occurrences are exactly those found when the input
ends after the number: the separator does not attach to the number, and nothing else is found. -/
theorem C05_sep_nothing_after_de (v : T2N.Spec.Var) (n : Nat) (thr : Nat → Bool) (h : n < 10 ^ 12) (hv : T2N.Spec.flag v (T2N.Spec.cp 2 5) = true ∧ T2N.Spec.flag v (T2N.Spec.cp 3 5) = true)
    (post : List Word) (hpost : ∀ w ∈ post, T2N.De.lang.Rejects w) :
    findNumbers (scanCfg T2N.De.lang thr)
        (wordTokens (T2N.Spec.De.cardinal v n ++ [T2N.Spec.De.sepWord] ++ post)) =
      findNumbers (scanCfg T2N.De.lang thr) (wordTokens (T2N.Spec.De.cardinal v n)) := by
  have := nothing_after T2N.De.lang T2N.C07.C07_langAgree_de _ n (phraseOk_de v n h hv) thr []
    (T2N.Spec.De.sepWord :: post) (fun _ hw => by cases hw)
    (fun w hw => by
      rcases List.mem_cons.mp hw with rfl | hw
      · exact sep_stops_builtin T2N.De.lang T2N.C01Sent.De.mem_all _ rfl
      · exact Stops.of_rejects (hpost w hw))
  rw [List.nil_append] at this
  rw [List.append_assoc, List.singleton_append]
  exact this

/-- clause 2 at threshold 0: exactly one occurrence, the integer alone — tokens `0 … 2·len−2`, the separator (token
`2·len`) is outside the span — and its text contains no decimal mark -/
theorem C05_sep_nothing_after_zero_de (v : T2N.Spec.Var) (n : Nat) (h : n < 10 ^ 12) (hv : T2N.Spec.flag v (T2N.Spec.cp 2 5) = true ∧ T2N.Spec.flag v (T2N.Spec.cp 3 5) = true)
    (post : List Word) (hpost : ∀ w ∈ post, T2N.De.lang.Rejects w) :
    findNumbers (scanCfg T2N.De.lang zeroThr)
        (wordTokens (T2N.Spec.De.cardinal v n ++ [T2N.Spec.De.sepWord] ++ post)) =
      .ok [⟨0, 2 * (T2N.Spec.De.cardinal v n).length - 1, T2N.Spec.decChars n,
        .dec (T2N.Spec.decDigits n) [], false⟩] ∧
    T2N.Spec.De.decMark ∉ T2N.Spec.decChars n := by
  refine ⟨?_, (decChars_no_mark n).1⟩
  rw [C05_sep_nothing_after_de v n zeroThr h hv post hpost]
  have := scan_phrase_zero T2N.De.lang T2N.C07.C07_langAgree_de _ n (phraseOk_de v n h hv) [] (fun _ hw => by cases hw)
  rw [List.nil_append] at this
  rw [this]
  simp

theorem C05_sep_nothing_after_texts_de (v : T2N.Spec.Var) (n : Nat) (h : n < 10 ^ 12) (hv : T2N.Spec.flag v (T2N.Spec.cp 2 5) = true ∧ T2N.Spec.flag v (T2N.Spec.cp 3 5) = true)
    (post : List Word) (hpost : ∀ w ∈ post, T2N.De.lang.Rejects w) :
    occTexts T2N.De.lang zeroThr (T2N.Spec.De.cardinal v n ++ [T2N.Spec.De.sepWord] ++ post) =
      some [T2N.Spec.decChars n] := by
  unfold occTexts
  rw [(C05_sep_nothing_after_zero_de v n h hv post hpost).1]
  rfl

/-- **C05 (sep, de) clause 3**: `<n> sep <fraction> sep Y` (hypotheses of `C05_decimal_de_occ_all`; `Y` any words) —
for EVERY threshold the second separator ends the decimal number, reported with the text `<n>,<fraction>` as if the
input ended there, the second separator is in no occurrence, and `Y` is scanned on its own (shifted). -/
theorem C05_sep_twice_de (v : T2N.Spec.Var) (n : Nat) (ds : List Nat) (thr : Nat → Bool) (h : n < 10 ^ 12) (hv : T2N.Spec.flag v (T2N.Spec.cp 2 5) = true ∧ T2N.Spec.flag v (T2N.Spec.cp 3 5) = true)
    (hds : ds ≠ []) (h9 : ∀ d ∈ ds, d < 10) (Y : List Word) :
    ∃ a b ob, findNumbers (scanCfg T2N.De.lang thr) (wordTokens Y) = .ok ob ∧
      findNumbers (scanCfg T2N.De.lang thr)
        (wordTokens (T2N.Spec.De.cardinal v n ++ [T2N.Spec.De.sepWord] ++ T2N.Spec.De.fraction v ds ++
          [T2N.Spec.De.sepWord] ++ Y)) =
        .ok (⟨a, b, T2N.Spec.decChars n ++ [','] ++ ds.map digitChar, .dec (T2N.Spec.decDigits n) ds, false⟩ ::
          ob.map (shiftOcc (2 * (T2N.Spec.De.cardinal v n ++ [T2N.Spec.De.sepWord] ++
            T2N.Spec.De.fraction v ds).length + 2))) := by
  obtain ⟨a0, b0, e0⟩ := C05_decimal_de_occ_all v n ds zeroThr h hv hds h9
  obtain ⟨a, b, e1⟩ := C05_decimal_de_occ_all v n ds thr h hv hds h9
  obtain ⟨ob, h1, h2⟩ := sep_twice T2N.De.lang T2N.C01Sent.De.mem_all T2N.C07.C07_langAgree_de thr T2N.Spec.De.sepWord rfl rfl rfl
    (T2N.Spec.De.cardinal v n ++ [T2N.Spec.De.sepWord] ++ T2N.Spec.De.fraction v ds) Y (by simp) _ _
    ⟨_, _, rfl, hds⟩ e0 e1
  exact ⟨a, b, ob, h1, h2⟩

theorem C05_sep_twice_texts_de (v : T2N.Spec.Var) (n : Nat) (ds : List Nat) (thr : Nat → Bool) (h : n < 10 ^ 12) (hv : T2N.Spec.flag v (T2N.Spec.cp 2 5) = true ∧ T2N.Spec.flag v (T2N.Spec.cp 3 5) = true)
    (hds : ds ≠ []) (h9 : ∀ d ∈ ds, d < 10) (Y : List Word) :
    occTexts T2N.De.lang thr (T2N.Spec.De.cardinal v n ++ [T2N.Spec.De.sepWord] ++ T2N.Spec.De.fraction v ds ++
        [T2N.Spec.De.sepWord] ++ Y) =
      (occTexts T2N.De.lang thr Y).map ((T2N.Spec.decChars n ++ [','] ++ ds.map digitChar) :: ·) := by
  obtain ⟨a, b, ob, h1, h2⟩ := C05_sep_twice_de v n ds thr h hv hds h9 Y
  unfold occTexts
  rw [h1, h2]
  dsimp only
  rw [List.map_cons, map_text_shift]
  rfl

/-- `komma <5>` ↦ `5` (the separator stays a word); `<12> komma foo` ↦ `12`; `<2> komma <5> komma <5>` ↦ `2,5`, `5`;
`<2> komma <5> komma` with every number "small" ↦ `2,5`. The hypotheses are satisfiable. -/
example : occTexts T2N.De.lang zeroThr ([T2N.Spec.De.sepWord] ++ T2N.Spec.De.cardinal (fun _ => 1) 5) =
    some [T2N.Spec.decChars 5] := C05_sep_then_number_texts_de _ 5 (by decide) (by decide)

example : T2N.De.lang.Rejects w!"foo" := Lang.rejects_of_apply T2N.De.lang _ (fun _ => ⟨.nan, rfl, by intro h; cases h⟩)
      (fun _ => ⟨.nan, rfl, by intro h; cases h⟩) rfl

example : occTexts T2N.De.lang zeroThr (T2N.Spec.De.cardinal (fun _ => 1) 12 ++ [T2N.Spec.De.sepWord] ++ [w!"foo"]) =
    some [T2N.Spec.decChars 12] :=
  C05_sep_nothing_after_texts_de _ 12 (by decide) (by decide) [w!"foo"] (fun w hw => by
    have : w = w!"foo" := by simpa using hw
    subst this
    exact Lang.rejects_of_apply T2N.De.lang _ (fun _ => ⟨.nan, rfl, by intro h; cases h⟩)
      (fun _ => ⟨.nan, rfl, by intro h; cases h⟩) rfl)

example : occTexts T2N.De.lang zeroThr (T2N.Spec.De.cardinal (fun _ => 1) 2 ++ [T2N.Spec.De.sepWord] ++
    T2N.Spec.De.fraction (fun _ => 1) [5] ++ [T2N.Spec.De.sepWord] ++ T2N.Spec.De.cardinal (fun _ => 1) 5) =
    some [T2N.Spec.decChars 2 ++ [','] ++ w!"5", T2N.Spec.decChars 5] := by
  rw [C05_sep_twice_texts_de _ 2 [5] zeroThr (by decide) (by decide) (by decide) (by decide) _,
    phrase_texts T2N.De.lang T2N.C07.C07_langAgree_de _ 5 (phraseOk_de _ 5 (by decide) (by decide))]
  rfl

example : occTexts T2N.De.lang (fun _ => true) (T2N.Spec.De.cardinal (fun _ => 1) 2 ++ [T2N.Spec.De.sepWord] ++
    T2N.Spec.De.fraction (fun _ => 1) [5] ++ [T2N.Spec.De.sepWord] ++ []) =
    some [T2N.Spec.decChars 2 ++ [','] ++ w!"5"] := by
  rw [C05_sep_twice_texts_de _ 2 [5] (fun _ => true) (by decide) (by decide) (by decide) (by decide) []]
  rfl

/-- clause 2 under a threshold: with every number "small", `<2> komma foo` reports nothing — the lone `2` is left as
a word exactly as it is when the input ends after it (`C05_sep_nothing_after_de` + evaluation of `<2>` alone) -/
example : occTexts T2N.De.lang (fun _ => true)
    (T2N.Spec.De.cardinal (fun _ => 1) 2 ++ [T2N.Spec.De.sepWord] ++ [w!"foo"]) = some [] := by
  unfold occTexts
  rw [C05_sep_nothing_after_de _ 2 (fun _ => true) (by decide) (by decide) [w!"foo"] (fun w hw => by
    have : w = w!"foo" := by simpa using hw
    subst this
    exact Lang.rejects_of_apply T2N.De.lang _ (fun _ => ⟨.nan, rfl, by intro h; cases h⟩)
      (fun _ => ⟨.nan, rfl, by intro h; cases h⟩) rfl)]
  have : occTexts T2N.De.lang (fun _ => true) (T2N.Spec.De.cardinal (fun _ => 1) 2) = some [] := by
    decide +kernel
  exact this

/-! ## ——— Dutch ——— -/

/-- **C05 (sep, nl) clause 1**: `pre` consists of words that the Dutch parser refuses in every state (possibly none),
then the separator word, then anything: for EVERY threshold the scanner reports exactly the occurrences of `post`
scanned on its own, shifted by the `2 * pre.length + 2` tokens before it; in particular no occurrence covers the
separator token (position `2 * pre.length`) and the separator after nothing never starts a decimal. -/
theorem C05_sep_alone_nl (thr : Nat → Bool) (pre post : List Word) (hpre : ∀ w ∈ pre, T2N.Nl.lang.Rejects w) :
    ∃ ob, findNumbers (scanCfg T2N.Nl.lang thr) (wordTokens post) = .ok ob ∧
      findNumbers (scanCfg T2N.Nl.lang thr) (wordTokens (pre ++ [T2N.Spec.Nl.sepWord] ++ post)) =
        .ok (ob.map (shiftOcc (2 * pre.length + 2))) ∧
      ∀ o ∈ ob.map (shiftOcc (2 * pre.length + 2)), 2 * pre.length < o.start := by
  obtain ⟨ob, h1, h2⟩ := sep_alone T2N.Nl.lang T2N.C01Sent.Nl.mem_all T2N.C07.C07_langAgree_nl thr T2N.Spec.Nl.sepWord rfl pre post
    (fun w hw => not_accepted_of_rejects _ _ (hpre w hw))
  refine ⟨ob, h1, h2, ?_⟩
  intro o ho
  have := shift_start _ _ o ho
  omega

/-- clause 1 on the texts, under the weaker hypothesis that no word of `pre` is accepted by the fresh builder -/
theorem C05_sep_alone_texts_nl (thr : Nat → Bool) (pre post : List Word)
    (hpre : ∀ w ∈ pre, (T2N.Nl.lang.apply w DS.new).1 ≠ none) :
    occTexts T2N.Nl.lang thr (pre ++ [T2N.Spec.Nl.sepWord] ++ post) = occTexts T2N.Nl.lang thr post :=
  sep_alone_texts T2N.Nl.lang T2N.C01Sent.Nl.mem_all T2N.C07.C07_langAgree_nl thr T2N.Spec.Nl.sepWord rfl pre post hpre

/-- the separator word alone is left as a word, whatever the threshold -/
theorem C05_sep_only_nl (thr : Nat → Bool) : occTexts T2N.Nl.lang thr [T2N.Spec.Nl.sepWord] = some [] :=
  sep_only T2N.Nl.lang T2N.C01Sent.Nl.mem_all T2N.C07.C07_langAgree_nl thr T2N.Spec.Nl.sepWord rfl

/-- `sep <cardinal>` (threshold 0): the number is found on its own — one occurrence starting at token 2 — and the
separator is kept as a word: a leading separator never starts a decimal `0,…` -/
theorem C05_sep_then_number_nl (v : T2N.Spec.Var) (n : Nat) (h : n < 10 ^ 12) :
    findNumbers (scanCfg T2N.Nl.lang zeroThr) (wordTokens ([T2N.Spec.Nl.sepWord] ++ T2N.Spec.Nl.cardinal v n)) =
      .ok [⟨2, 2 + (2 * (T2N.Spec.Nl.cardinal v n).length - 1), T2N.Spec.decChars n,
        .dec (T2N.Spec.decDigits n) [], false⟩] :=
  sep_then_number T2N.Nl.lang T2N.C01Sent.Nl.mem_all T2N.C07.C07_langAgree_nl T2N.Spec.Nl.sepWord rfl _ n (phraseOk_nl v n h)

theorem C05_sep_then_number_texts_nl (v : T2N.Spec.Var) (n : Nat) (h : n < 10 ^ 12) :
    occTexts T2N.Nl.lang zeroThr ([T2N.Spec.Nl.sepWord] ++ T2N.Spec.Nl.cardinal v n) = some [T2N.Spec.decChars n] := by
  unfold occTexts
  rw [C05_sep_then_number_nl v n h]
  rfl

/-- **C05 (sep, nl) clause 2**: a spelled cardinal, the separator word, then words that the parser refuses in every
state (possibly none: end of the input) — for EVERY threshold the occurrences are exactly those found when the input
ends after the number: the separator does not attach to the number, and nothing else is found. -/
theorem C05_sep_nothing_after_nl (v : T2N.Spec.Var) (n : Nat) (thr : Nat → Bool) (h : n < 10 ^ 12)
    (post : List Word) (hpost : ∀ w ∈ post, T2N.Nl.lang.Rejects w) :
    findNumbers (scanCfg T2N.Nl.lang thr)
        (wordTokens (T2N.Spec.Nl.cardinal v n ++ [T2N.Spec.Nl.sepWord] ++ post)) =
      findNumbers (scanCfg T2N.Nl.lang thr) (wordTokens (T2N.Spec.Nl.cardinal v n)) := by
  have := nothing_after T2N.Nl.lang T2N.C07.C07_langAgree_nl _ n (phraseOk_nl v n h) thr []
    (T2N.Spec.Nl.sepWord :: post) (fun _ hw => by cases hw)
    (fun w hw => by
      rcases List.mem_cons.mp hw with rfl | hw
      · exact sep_stops_builtin T2N.Nl.lang T2N.C01Sent.Nl.mem_all _ rfl
      · exact Stops.of_rejects (hpost w hw))
  rw [List.nil_append] at this
  rw [List.append_assoc, List.singleton_append]
  exact this

/-- clause 2 at threshold 0: exactly one occurrence, the integer alone — tokens `0 … 2·len−2`, the separator (token
`2·len`) is outside the span — and its text contains no decimal mark -/
theorem C05_sep_nothing_after_zero_nl (v : T2N.Spec.Var) (n : Nat) (h : n < 10 ^ 12)
    (post : List Word) (hpost : ∀ w ∈ post, T2N.Nl.lang.Rejects w) :
    findNumbers (scanCfg T2N.Nl.lang zeroThr)
        (wordTokens (T2N.Spec.Nl.cardinal v n ++ [T2N.Spec.Nl.sepWord] ++ post)) =
      .ok [⟨0, 2 * (T2N.Spec.Nl.cardinal v n).length - 1, T2N.Spec.decChars n,
        .dec (T2N.Spec.decDigits n) [], false⟩] ∧
    T2N.Spec.Nl.decMark ∉ T2N.Spec.decChars n := by
  refine ⟨?_, (decChars_no_mark n).1⟩
  rw [C05_sep_nothing_after_nl v n zeroThr h post hpost]
  have := scan_phrase_zero T2N.Nl.lang T2N.C07.C07_langAgree_nl _ n (phraseOk_nl v n h) [] (fun _ hw => by cases hw)
  rw [List.nil_append] at this
  rw [this]
  simp

theorem C05_sep_nothing_after_texts_nl (v : T2N.Spec.Var) (n : Nat) (h : n < 10 ^ 12)
    (post : List Word) (hpost : ∀ w ∈ post, T2N.Nl.lang.Rejects w) :
    occTexts T2N.Nl.lang zeroThr (T2N.Spec.Nl.cardinal v n ++ [T2N.Spec.Nl.sepWord] ++ post) =
      some [T2N.Spec.decChars n] := by
  unfold occTexts
  rw [(C05_sep_nothing_after_zero_nl v n h post hpost).1]
  rfl

/-- **C05 (sep, nl) clause 3**: `<n> sep <fraction> sep Y` (hypotheses of `C05_decimal_nl_occ_all`; `Y` any words) —
for EVERY threshold the second separator ends the decimal number, reported with the text `<n>,<fraction>` as if the
input ended there, the second separator is in no occurrence, and `Y` is scanned on its own (shifted). -/
theorem C05_sep_twice_nl (v : T2N.Spec.Var) (n : Nat) (ds : List Nat) (thr : Nat → Bool) (h : n < 10 ^ 12)
    (hds : ds ≠ []) (h9 : ∀ d ∈ ds, d < 10) (hlen : (ds.dropWhile (· == 0)).length ≤ 12) (Y : List Word) :
    ∃ a b ob, findNumbers (scanCfg T2N.Nl.lang thr) (wordTokens Y) = .ok ob ∧
      findNumbers (scanCfg T2N.Nl.lang thr)
        (wordTokens (T2N.Spec.Nl.cardinal v n ++ [T2N.Spec.Nl.sepWord] ++ T2N.Spec.Nl.fraction v ds ++
          [T2N.Spec.Nl.sepWord] ++ Y)) =
        .ok (⟨a, b, T2N.Spec.decChars n ++ [','] ++ ds.map digitChar, .dec (T2N.Spec.decDigits n) ds, false⟩ ::
          ob.map (shiftOcc (2 * (T2N.Spec.Nl.cardinal v n ++ [T2N.Spec.Nl.sepWord] ++
            T2N.Spec.Nl.fraction v ds).length + 2))) := by
  obtain ⟨a0, b0, e0⟩ := C05_decimal_nl_occ_all v n ds zeroThr h hds h9 hlen
  obtain ⟨a, b, e1⟩ := C05_decimal_nl_occ_all v n ds thr h hds h9 hlen
  obtain ⟨ob, h1, h2⟩ := sep_twice T2N.Nl.lang T2N.C01Sent.Nl.mem_all T2N.C07.C07_langAgree_nl thr T2N.Spec.Nl.sepWord rfl rfl rfl
    (T2N.Spec.Nl.cardinal v n ++ [T2N.Spec.Nl.sepWord] ++ T2N.Spec.Nl.fraction v ds) Y (by simp) _ _
    ⟨_, _, rfl, hds⟩ e0 e1
  exact ⟨a, b, ob, h1, h2⟩

theorem C05_sep_twice_texts_nl (v : T2N.Spec.Var) (n : Nat) (ds : List Nat) (thr : Nat → Bool) (h : n < 10 ^ 12)
    (hds : ds ≠ []) (h9 : ∀ d ∈ ds, d < 10) (hlen : (ds.dropWhile (· == 0)).length ≤ 12) (Y : List Word) :
    occTexts T2N.Nl.lang thr (T2N.Spec.Nl.cardinal v n ++ [T2N.Spec.Nl.sepWord] ++ T2N.Spec.Nl.fraction v ds ++
        [T2N.Spec.Nl.sepWord] ++ Y) =
      (occTexts T2N.Nl.lang thr Y).map ((T2N.Spec.decChars n ++ [','] ++ ds.map digitChar) :: ·) := by
  obtain ⟨a, b, ob, h1, h2⟩ := C05_sep_twice_nl v n ds thr h hds h9 hlen Y
  unfold occTexts
  rw [h1, h2]
  dsimp only
  rw [List.map_cons, map_text_shift]
  rfl

/-- `komma <5>` ↦ `5` (the separator stays a word); `<12> komma foo` ↦ `12`; `<2> komma <5> komma <5>` ↦ `2,5`, `5`;
`<2> komma <5> komma` with every number "small" ↦ `2,5`. The hypotheses are satisfiable. -/
example : occTexts T2N.Nl.lang zeroThr ([T2N.Spec.Nl.sepWord] ++ T2N.Spec.Nl.cardinal (fun _ => 0) 5) =
    some [T2N.Spec.decChars 5] := C05_sep_then_number_texts_nl _ 5 (by decide)

example : T2N.Nl.lang.Rejects w!"foo" := Lang.rejects_of_apply T2N.Nl.lang _ (fun _ => ⟨.nan, rfl, by intro h; cases h⟩)
      (fun _ => ⟨.nan, rfl, by intro h; cases h⟩) rfl

example : occTexts T2N.Nl.lang zeroThr (T2N.Spec.Nl.cardinal (fun _ => 0) 12 ++ [T2N.Spec.Nl.sepWord] ++ [w!"foo"]) =
    some [T2N.Spec.decChars 12] :=
  C05_sep_nothing_after_texts_nl _ 12 (by decide) [w!"foo"] (fun w hw => by
    have : w = w!"foo" := by simpa using hw
    subst this
    exact Lang.rejects_of_apply T2N.Nl.lang _ (fun _ => ⟨.nan, rfl, by intro h; cases h⟩)
      (fun _ => ⟨.nan, rfl, by intro h; cases h⟩) rfl)

example : occTexts T2N.Nl.lang zeroThr (T2N.Spec.Nl.cardinal (fun _ => 0) 2 ++ [T2N.Spec.Nl.sepWord] ++
    T2N.Spec.Nl.fraction (fun _ => 0) [5] ++ [T2N.Spec.Nl.sepWord] ++ T2N.Spec.Nl.cardinal (fun _ => 0) 5) =
    some [T2N.Spec.decChars 2 ++ [','] ++ w!"5", T2N.Spec.decChars 5] := by
  rw [C05_sep_twice_texts_nl _ 2 [5] zeroThr (by decide) (by decide) (by decide) (by decide) _,
    phrase_texts T2N.Nl.lang T2N.C07.C07_langAgree_nl _ 5 (phraseOk_nl _ 5 (by decide))]
  rfl

example : occTexts T2N.Nl.lang (fun _ => true) (T2N.Spec.Nl.cardinal (fun _ => 0) 2 ++ [T2N.Spec.Nl.sepWord] ++
    T2N.Spec.Nl.fraction (fun _ => 0) [5] ++ [T2N.Spec.Nl.sepWord] ++ []) =
    some [T2N.Spec.decChars 2 ++ [','] ++ w!"5"] := by
  rw [C05_sep_twice_texts_nl _ 2 [5] (fun _ => true) (by decide) (by decide) (by decide) (by decide) []]
  rfl

/-- clause 2 under a threshold: with every number "small", `<2> komma foo` reports nothing — the lone `2` is left as
a word exactly as it is when the input ends after it (`C05_sep_nothing_after_nl` + evaluation of `<2>` alone) -/
example : occTexts T2N.Nl.lang (fun _ => true)
    (T2N.Spec.Nl.cardinal (fun _ => 0) 2 ++ [T2N.Spec.Nl.sepWord] ++ [w!"foo"]) = some [] := by
  unfold occTexts
  rw [C05_sep_nothing_after_nl _ 2 (fun _ => true) (by decide) [w!"foo"] (fun w hw => by
    have : w = w!"foo" := by simpa using hw
    subst this
    exact Lang.rejects_of_apply T2N.Nl.lang _ (fun _ => ⟨.nan, rfl, by intro h; cases h⟩)
      (fun _ => ⟨.nan, rfl, by intro h; cases h⟩) rfl)]
  have : occTexts T2N.Nl.lang (fun _ => true) (T2N.Spec.Nl.cardinal (fun _ => 0) 2) = some [] := by
    decide +kernel
  exact this

end T2N.C05
