/-
  C15 — token-stream contract: lazy and batch search agree, token hints are honoured.
-/
import T2N.Lemmas.Scanner
import T2N.Props.C03
import T2N.Lemmas.Iter

namespace T2N.C15
open T2N

/-- constructing the iterator consumes nothing -/
theorem C15_lazy_zero (toks : List Tok) : (iterNew toks).consumed = 0 ∧ (iterNew toks).sc.tracker.queue = [] :=
  ⟨rfl, rfl⟩

theorem outside_parser {cfg : ScanCfg} {s : Scanner} {tok : Tok} {p : Option Tok} :
    ({ (s.outside cfg tok) with previous := p } : Scanner).parser = s.parser := by
  unfold Scanner.outside; split <;> rfl

/-- a token declared "not a number part" is never handed to the parser: it can only end the current
number and count as a (possible) sequence breaker -/
theorem C15_nan_not_parsed (cfg : ScanCfg) (s : Scanner) (pos : Nat) (tok : Tok) (hn : tok.nan = true)
    (hs : Scanner.isSkipped cfg tok = false) (s' : Scanner) (h : s.push cfg pos tok = .ok s') :
    s'.parser = {} ∨ (s.parser.hasNumber = false ∧ s'.parser = s.parser) := by
  unfold Scanner.push at h
  rw [hs, hn] at h
  simp only [Bool.false_eq_true, if_false, if_true] at h
  unfold Scanner.pushNan at h
  by_cases hh : s.parser.hasNumber = true
  · left
    rw [if_pos hh] at h
    unfold Scanner.numberEnd at h
    cases hf : s.parser.finish cfg.lang with
    | error f => rw [hf] at h; cases h
    | ok r =>
      rw [hf] at h
      dsimp only at h
      cases h
      rw [outside_parser]
  · right
    rw [if_neg hh] at h
    dsimp only at h
    cases h
    refine ⟨by simpa using hh, ?_⟩
    rw [outside_parser]

/-- a token that declares itself unrelated to its predecessor while a number is open is presented to
the parser as a comma: exactly as if a comma had been spoken between them -/
theorem C15_sep_is_comma (cfg : ScanCfg) (s : Scanner) (tok prev : Tok) (hp : s.previous = some prev)
    (hn : s.parser.hasNumber = true) (hsep : cfg.sep tok prev = true) :
    Scanner.testWord cfg s tok = [','] := by
  unfold Scanner.testWord; rw [hp]; simp [hn, hsep]

/-- without an open number (or without a predecessor) the hint is ignored -/
theorem C15_sep_ignored (cfg : ScanCfg) (s : Scanner) (tok : Tok) (hn : s.parser.hasNumber = false) :
    Scanner.testWord cfg s tok = tok.lower := by
  unfold Scanner.testWord; cases s.previous <;> simp [hn]

/-- every call to `next` returns (from C03) -/
theorem C15_next_returns (cfg : ScanCfg) (toks : List Tok) : ∃ r, (iterNew toks).next cfg = .ok r :=
  C03.C03_iter_next cfg (iterNew toks) 0 toks rfl TrInv.init

/-- **C15 (lazy = batch)**: on any token stream, with any hints, language and threshold, calling `next`
until it returns `None` yields exactly the occurrences of the batch search, in the same order.
(`fuel` only bounds the number of calls made; any bound above the number of occurrences works.) -/
theorem C15_iter_eq_batch (cfg : ScanCfg) (toks : List Tok) (occs : List Occ)
    (h : findNumbers cfg toks = .ok occs) (fuel : Nat) (hf : occs.length < fuel) :
    iterCollect cfg fuel (iterNew toks) = .ok occs := by
  apply iterCollect_spec cfg fuel (iterNew toks) occs _ hf
  unfold findNumbers at h
  unfold batchQ
  exact h

/-- … and the batch search always returns (C03), so the equation is never vacuous -/
theorem C15_iter_eq_batch' (cfg : ScanCfg) (toks : List Tok) :
    ∃ occs, findNumbers cfg toks = .ok occs ∧ iterCollect cfg (occs.length + 1) (iterNew toks) = .ok occs := by
  obtain ⟨occs, h⟩ := C03.C03_findNumbers cfg toks
  exact ⟨occs, h, C15_iter_eq_batch cfg toks occs h _ (Nat.lt_succ_self _)⟩

/-- after the last item the iterator keeps returning `None` -/
theorem C15_iter_stays_ended (cfg : ScanCfg) (it : Iter) (h : batchQ cfg it.sc it.rest = .ok []) :
    ∃ it', it.next cfg = .ok (none, it') ∧ batchQ cfg it'.sc it'.rest = .ok [] :=
  next_spec cfg it [] h

end T2N.C15
