/-
  C15 — token-stream contract: lazy and batch search agree, token hints are honoured.
-/
import T2N.Lemmas.Scanner
import T2N.Props.C03

namespace T2N.C15
open T2N

/-- constructing the iterator consumes nothing -/
theorem C15_lazy_zero (toks : List Tok) : (iterNew toks).consumed = 0 ∧ (iterNew toks).sc.tracker.queue = [] :=
  ⟨rfl, rfl⟩

theorem outside_parser {cfg : ScanCfg} {s : Scanner} {tok : Tok} {p : Option Tok} :
    ({ (s.outside cfg tok) with previous := p } : Scanner).parser = s.parser := by
  unfold Scanner.outside; split <;> rfl

/-- a token declared "not a number part" is never handed to the parser: it can only end the current
number and count as a (possible) sequence breaker -/
theorem C15_nan_not_parsed (cfg : ScanCfg) (s : Scanner) (pos : Nat) (tok : Tok) (hn : tok.nan = true)
    (hs : Scanner.isSkipped cfg tok = false) (s' : Scanner) (h : s.push cfg pos tok = .ok s') :
    s'.parser = {} ∨ (s.parser.hasNumber = false ∧ s'.parser = s.parser) := by
  unfold Scanner.push at h
  rw [hs, hn] at h
  simp only [Bool.false_eq_true, if_false, if_true] at h
  unfold Scanner.pushNan at h
  by_cases hh : s.parser.hasNumber = true
  · left
    rw [if_pos hh] at h
    unfold Scanner.numberEnd at h
    cases hf : s.parser.finish cfg.lang with
    | error f => rw [hf] at h; cases h
    | ok r =>
      rw [hf] at h
      dsimp only at h
      cases h
      rw [outside_parser]
  · right
    rw [if_neg hh] at h
    dsimp only at h
    cases h
    refine ⟨by simpa using hh, ?_⟩
    rw [outside_parser]

/-- a token that declares itself unrelated to its predecessor while a number is open is presented to
the parser as a comma: exactly as if a comma had been spoken between them -/
theorem C15_sep_is_comma (cfg : ScanCfg) (s : Scanner) (tok prev : Tok) (hp : s.previous = some prev)
    (hn : s.parser.hasNumber = true) (hsep : cfg.sep tok prev = true) :
    Scanner.testWord cfg s tok = [','] := by
  unfold Scanner.testWord; rw [hp]; simp [hn, hsep]

/-- without an open number (or without a predecessor) the hint is ignored -/
theorem C15_sep_ignored (cfg : ScanCfg) (s : Scanner) (tok : Tok) (hn : s.parser.hasNumber = false) :
    Scanner.testWord cfg s tok = tok.lower := by
  unfold Scanner.testWord; cases s.previous <;> simp [hn]

/-- every call to `next` returns (from C03) -/
theorem C15_next_returns (cfg : ScanCfg) (toks : List Tok) : ∃ r, (iterNew toks).next cfg = .ok r :=
  C03.C03_iter_next cfg (iterNew toks) 0 toks rfl TrInv.init

end T2N.C15
