/-
  C04 (text level) — the spelled ordinal of rank `n`, standing in a sentence of ordinary words joined by single
  spaces, is REWRITTEN by `replace_numbers_in_text` as the decimal digits of `n` followed by the ordinal marker —
  one number, the other words kept:
  `replaceText cc <language> thr (joinWords (pre ++ spelling ++ post)) = .ok (joinWords (pre ++ [digits ++ marker] ++ post))`.

  * character classes: any `cc` satisfying `TextLaws` and `AlphaLaws` (T2N/Lemmas/C01Text.lean; `simpleCC` does);
  * `pre` / `post`: `Ordinary` words (refused by the language in every state, single lower-case tokens);
  * threshold: any `thr` with `thr n = false` — an ordinal is "small" exactly when its rank is below the threshold,
    whatever its length (necessary: `C04_text_en_small_kept`);
  * ranks, inflections and variants: those of the validator theorems `C04_validate_<l>_all`.
  Proofs: T2N/Lemmas/TextCor.lean (`replaceText_ordinal`) and T2N/Lemmas/TextCor/*.lean.
-/
import T2N.Props.C04
import T2N.Props.C01.Text
import T2N.Lemmas.TextCor
import T2N.Lemmas.TextCor.En
import T2N.Lemmas.TextCor.Es
import T2N.Lemmas.TextCor.Pt
import T2N.Lemmas.TextCor.It
import T2N.Lemmas.TextCor.Nl
import T2N.Lemmas.TextCor.De
import T2N.Lemmas.TextCor.Fr

namespace T2N.C04
open T2N T2N.Lift T2N.Spec T2N.C01Text T2N.TextCor

/-! ### English -/

theorem C04_text_marker_en (n : Nat) (plural : Bool) (hp : plural = true → Spec.En.pluralOk n = true) :
    WellFormed.headNotDigit (Spec.En.ordinalMarker n plural) = true := by
  rw [← (EnExt.marker_eq n plural hp).1]
  exact WellFormed.mk_head_not_digit _

/-- **C04 (en), text level**: every rank `0 < n < 10^12`, every variant, singular or (where spelled) plural -/
theorem C04_text_en {cc : CharClasses} (L : TextLaws cc) (A : AlphaLaws cc) (thr : Nat → Bool)
    (v : Var) (n : Nat) (hn : 0 < n) (h : n < 10 ^ 12) (plural : Bool)
    (hp : plural = true → Spec.En.pluralOk n = true) (hthr : thr n = false)
    (pre post : List Word) (hpre : ∀ w ∈ pre, Ordinary cc En.lang w) (hpost : ∀ w ∈ post, Ordinary cc En.lang w) :
    replaceText cc .english thr (joinWords (pre ++ Spec.En.ordinal v n plural ++ post)) =
      .ok (joinWords (pre ++ [decChars n ++ Spec.En.ordinalMarker n plural] ++ post)) := by
  have hn' : n ≠ 0 := by omega
  have hval := C04_validate_en_all' v n hn h plural hp
  refine replaceText_ordinal L A .english thr (by simp [Language.interp, allLangs]) T2N.C07.C07_langAgree_en
    (Spec.En.ordinal v n plural) n _ (C04_text_marker_en n plural hp) hthr hval
    (TextCor.En.ordinal_first v n hn' h plural _ _ hval (T2N.C01.C01_validate_en_all _ n h))
    (TextCor.En.ordinal_over v n hn' h plural) pre post hpre hpost ?_
  show annotateEn cc En.lang.apply _ = _
  apply annotateEn_wordTokens
  intro w hw
  rw [List.mem_append, List.mem_append] at hw
  rcases hw with (hw | hw) | hw
  · exact ne_of_rejects (hpre w hw).1 (by decide)
  · exact TextCor.En.ordinal_not_o v n hn' h plural w hw
  · exact ne_of_rejects (hpost w hw).1 (by decide)

/-- explicit classes, threshold 0 -/
theorem C04_text_en_simple (v : Var) (n : Nat) (hn : 0 < n) (h : n < 10 ^ 12) (plural : Bool)
    (hp : plural = true → Spec.En.pluralOk n = true) (pre post : List Word)
    (hpre : ∀ w ∈ pre, Ordinary simpleCC En.lang w) (hpost : ∀ w ∈ post, Ordinary simpleCC En.lang w) :
    replaceText simpleCC .english zeroThr (joinWords (pre ++ Spec.En.ordinal v n plural ++ post)) =
      .ok (joinWords (pre ++ [decChars n ++ Spec.En.ordinalMarker n plural] ++ post)) :=
  C04_text_en simple_textLaws simple_alphaLaws zeroThr v n hn h plural hp rfl pre post hpre hpost

/-- the hypotheses are satisfiable: `the … prize` -/
example : replaceText simpleCC .english zeroThr
    (joinWords ([w!"the"] ++ Spec.En.ordinal (fun _ => 0) 323 false ++ [w!"prize"])) =
    .ok (joinWords ([w!"the"] ++ [decChars 323 ++ w!"rd"] ++ [w!"prize"])) :=
  C04_text_en_simple _ 323 (by decide) (by decide) false (fun h => by cases h) _ _
    (fun w hw => by
      have : w = w!"the" := by simpa using hw
      subst this
      exact T2N.C01.C01_text_en_ordinary _ (fun _ => rfl) (fun _ => rfl) rfl (by decide))
    (fun w hw => by
      have : w = w!"prize" := by simpa using hw
      subst this
      exact T2N.C01.C01_text_en_ordinary _ (fun _ => rfl) (fun _ => rfl) rfl (by decide))

/-- the same kind of sentence as plain strings -/
example : T2N.C01.C01_text_is (replaceText simpleCC .english zeroThr "the twenty-first prize".toList)
    "the 21st prize" = true := by decide +kernel

/-- **the hypothesis on the threshold is necessary**: with threshold 10 a lone `third` is left in words, whereas
`twenty-first` (rank ≥ 10) is rewritten -/
theorem C04_text_en_small_kept :
    T2N.C01.C01_text_is (replaceText simpleCC .english (fun k => decide (k < 10)) "the third prize".toList)
      "the third prize" = true ∧
    T2N.C01.C01_text_is (replaceText simpleCC .english (fun k => decide (k < 10)) "the twenty-first prize".toList)
      "the 21st prize" = true := by
  constructor <;> decide +kernel

/-! ### Spanish -/

/-- **C04 (es), text level**: every rank `1 … 1999`, every inflection and variant the speller produces (hypotheses of `C04_validate_es_all`) -/
theorem C04_text_es {cc : CharClasses} (L : TextLaws cc) (A : AlphaLaws cc) (thr : Nat → Bool)
    (v : Var) (n i : Nat) (ws : List Word) (mk : Word) (hi4 : i = 4 → n = 1)
    (ho : Spec.Es.speller.ordinal v n i = some (ws, mk)) (hthr : thr n = false)
    (pre post : List Word) (hpre : ∀ w ∈ pre, Ordinary cc Es.lang w) (hpost : ∀ w ∈ post, Ordinary cc Es.lang w) :
    replaceText cc .spanish thr (joinWords (pre ++ ws ++ post)) = .ok (joinWords (pre ++ [decChars n ++ mk] ++ post)) :=
  TextCor.Es.text_c04 L A thr v n i ws mk hi4 ho hthr pre post hpre hpost

/-! ### Portuguese -/

/-- **C04 (pt), text level**: every rank `1 … 1999`, every inflection and variant the speller produces (hypotheses of `C04_validate_pt_all`) -/
theorem C04_text_pt {cc : CharClasses} (L : TextLaws cc) (A : AlphaLaws cc) (thr : Nat → Bool)
    (v : Var) (n i : Nat) (ws : List Word) (mk : Word)
    (ho : Spec.Pt.speller.ordinal v n i = some (ws, mk)) (hthr : thr n = false)
    (pre post : List Word) (hpre : ∀ w ∈ pre, Ordinary cc Pt.lang w) (hpost : ∀ w ∈ post, Ordinary cc Pt.lang w) :
    replaceText cc .portuguese thr (joinWords (pre ++ ws ++ post)) = .ok (joinWords (pre ++ [decChars n ++ mk] ++ post)) :=
  TextCor.Pt.text_c04 L A thr v n i ws mk ho hthr pre post hpre hpost

/-! ### Italian -/

/-- **C04 (it), text level**: every rank `1 … 10^6`, every inflection and variant (hypotheses of `C04_validate_it_all`) -/
theorem C04_text_it {cc : CharClasses} (L : TextLaws cc) (A : AlphaLaws cc) (thr : Nat → Bool)
    (v : Var) (n i : Nat) (hn : 0 < n) (h : n ≤ 10 ^ 6) (ws : List Word) (mk : Word)
    (ho : Spec.It.speller.ordinal v n i = some (ws, mk)) (hthr : thr n = false)
    (pre post : List Word) (hpre : ∀ w ∈ pre, Ordinary cc It.lang w) (hpost : ∀ w ∈ post, Ordinary cc It.lang w) :
    replaceText cc .italian thr (joinWords (pre ++ ws ++ post)) = .ok (joinWords (pre ++ [decChars n ++ mk] ++ post)) :=
  TextCor.It.text_c04 L A thr v n i hn h ws mk ho hthr pre post hpre hpost

/-! ### Dutch -/

/-- **C04 (nl), text level**: every rank `1 … 10^6`, every variant (hypotheses of `C04_validate_nl_all`) -/
theorem C04_text_nl {cc : CharClasses} (L : TextLaws cc) (A : AlphaLaws cc) (thr : Nat → Bool)
    (v : Var) (n i : Nat) (ws : List Word) (mk : Word)
    (hs : Spec.Nl.speller.ordinal v n i = some (ws, mk)) (hthr : thr n = false)
    (pre post : List Word) (hpre : ∀ w ∈ pre, Ordinary cc Nl.lang w) (hpost : ∀ w ∈ post, Ordinary cc Nl.lang w) :
    replaceText cc .dutch thr (joinWords (pre ++ ws ++ post)) = .ok (joinWords (pre ++ [decChars n ++ mk] ++ post)) :=
  TextCor.Nl.text_c04 L A thr v n i ws mk hs hthr pre post hpre hpost

/-! ### German -/

/-- **C04 (de), text level**: every rank `1 … 10^6`, the five declension endings, every variant (hypotheses of `C04_speller_de_all`) -/
theorem C04_text_de {cc : CharClasses} (L : TextLaws cc) (A : AlphaLaws cc) (thr : Nat → Bool)
    (v : Var) (n i : Nat) (ws : List Word) (mk : Word) (hn : 0 < n) (h : n ≤ 10 ^ 6)
    (hs : Spec.De.speller.ordinal v n i = some (ws, mk)) (hthr : thr n = false)
    (pre post : List Word) (hpre : ∀ w ∈ pre, Ordinary cc De.lang w) (hpost : ∀ w ∈ post, Ordinary cc De.lang w) :
    replaceText cc .german thr (joinWords (pre ++ ws ++ post)) = .ok (joinWords (pre ++ [decChars n ++ mk] ++ post)) :=
  TextCor.De.text_c04 L A thr v n i ws mk hn h hs hthr pre post hpre hpost

/-! ### French -/

/-- **C04 (fr), text level**: every rank `1 … 10^6`, every inflection and variant (hypotheses of `C04_validate_fr_all`); no hypothesis on `neuf` is needed: a spelled ordinal is never the lone word `neuf`, and a `neuf` inside it has a number-word neighbour -/
theorem C04_text_fr {cc : CharClasses} (L : TextLaws cc) (A : AlphaLaws cc) (thr : Nat → Bool)
    (v : Var) (n i : Nat) (ws : List Word) (mk : Word) (hn : 0 < n) (h : n ≤ 10 ^ 6)
    (ho : Spec.Fr.speller.ordinal v n i = some (ws, mk)) (hthr : thr n = false)
    (pre post : List Word) (hpre : ∀ w ∈ pre, Ordinary cc Fr.lang w) (hpost : ∀ w ∈ post, Ordinary cc Fr.lang w) :
    replaceText cc .french thr (joinWords (pre ++ ws ++ post)) = .ok (joinWords (pre ++ [decChars n ++ mk] ++ post)) :=
  TextCor.Fr.text_c04 L A thr v n i ws mk hn h ho hthr pre post hpre hpost

/-! ### plain strings, every language (threshold 0) -/

example : T2N.C01.C01_text_is (replaceText simpleCC .spanish zeroThr "la vigésima tercera vez".toList)
    "la 23ª vez" = true := by decide +kernel

example : T2N.C01.C01_text_is (replaceText simpleCC .portuguese zeroThr "pela vigésima terceira vez".toList)
    "pela 23ª vez" = true := by decide +kernel

example : T2N.C01.C01_text_is (replaceText simpleCC .italian zeroThr "il ventitreesimo piano".toList)
    "il 23º piano" = true := by decide +kernel

example : T2N.C01.C01_text_is (replaceText simpleCC .dutch zeroThr "de eenentwintigste prijs".toList)
    "de 21e prijs" = true := by decide +kernel

example : T2N.C01.C01_text_is (replaceText simpleCC .german zeroThr "der dreiundzwanzigste tag".toList)
    "der 23. tag" = true := by decide +kernel

example : T2N.C01.C01_text_is (replaceText simpleCC .french zeroThr "voici le vingt et unième prix".toList)
    "voici le 21ème prix" = true := by decide +kernel

end T2N.C04
