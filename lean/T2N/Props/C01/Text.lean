/-
  C01 (text level) — the spelled cardinal `n < 10^12`, in any accepted variant, standing in a sentence of ordinary
  words joined by single spaces, is REWRITTEN by `replace_numbers_in_text` as the decimal digits of `n` — one
  number, the other words kept: `replaceText cc <language> thr (joinWords (pre ++ spelling ++ post)) =
  .ok (joinWords (pre ++ [digits] ++ post))`.

  * character classes: any `cc` satisfying `TextLaws` (space is white space and its own lowercase, white space is
    not alphanumeric, `-` is not alphanumeric and its own lowercase) and `AlphaLaws` (the letters of the seven
    languages' number words are alphanumeric and lower case); `simpleCC` satisfies both;
  * `pre` / `post`: `Ordinary` words — refused by the language in every state (`Lang.Rejects`), a single token and
    their own lowercase copy (`isPlainWord`);
  * threshold: any `thr` with `n ≥ 10` or `thr n = false` (the number is not "small");
  * English, Spanish, Portuguese, Italian, German (`ein Million` variants only), Dutch: no other hypothesis;
    French: a hypothesis on the words before a lone `neuf` (necessary: `C01_text_fr_neuf_kept`).
  Proofs: T2N/Lemmas/C01Text.lean and T2N/Lemmas/C01Text/*.lean.
-/
import T2N.Props.C01
import T2N.Props.C07
import T2N.Lemmas.C01Text.Assemble
import T2N.Lemmas.C01Text.En
import T2N.Lemmas.C01Text.Es
import T2N.Lemmas.C01Text.Pt
import T2N.Lemmas.C01Text.It
import T2N.Lemmas.C01Text.De
import T2N.Lemmas.C01Text.Nl
import T2N.Lemmas.C01Text.FrOver
import T2N.Lemmas.C01Text.Fr
import T2N.Lemmas.C01Text.FrKept

namespace T2N.C01
open T2N T2N.Lift T2N.Spec T2N.C01Text

/-- the laws asked of the character classes hold of the explicit classes `simpleCC` -/
theorem C01_text_simpleCC_laws : TextLaws simpleCC ∧ AlphaLaws simpleCC := ⟨simple_textLaws, simple_alphaLaws⟩

/-! ### English -/

/-- **C01 (en), text level**: for every `n < 10^12`, every variant `v`, character classes under the stated laws,
ordinary words around, and a threshold under which `n` is not small -/
theorem C01_text_en {cc : CharClasses} (L : TextLaws cc) (A : AlphaLaws cc) (thr : Nat → Bool)
    (v : Var) (n : Nat) (h : n < 10 ^ 12) (hthr : n < 10 → thr n = false)
    (pre post : List Word) (hpre : ∀ w ∈ pre, Ordinary cc En.lang w) (hpost : ∀ w ∈ post, Ordinary cc En.lang w) :
    replaceText cc .english thr (joinWords (pre ++ Spec.En.cardinal v n ++ post)) =
      .ok (joinWords (pre ++ [decChars n] ++ post)) := by
  have hval := C01_validate_en_all v n h
  refine replaceText_cardinal L A .english thr (by simp [Language.interp, allLangs]) T2N.C07.C07_langAgree_en
    (Spec.En.cardinal v n) n hthr hval (EnScan.en_hfirst v n _ hval) (C01Text.En.cardinal_over v n)
    pre post hpre hpost ?_
  show annotateEn cc En.lang.apply _ = _
  apply annotateEn_wordTokens
  intro w hw
  rw [List.mem_append, List.mem_append] at hw
  rcases hw with (hw | hw) | hw
  · exact ne_of_rejects (hpre w hw).1 (by decide)
  · exact C01Text.En.cardinal_not_o v n w hw
  · exact ne_of_rejects (hpost w hw).1 (by decide)

/-- **C01 (en), text level, explicit classes, threshold 0** -/
theorem C01_text_en_simple (v : Var) (n : Nat) (h : n < 10 ^ 12) (pre post : List Word)
    (hpre : ∀ w ∈ pre, Ordinary simpleCC En.lang w) (hpost : ∀ w ∈ post, Ordinary simpleCC En.lang w) :
    replaceText simpleCC .english zeroThr (joinWords (pre ++ Spec.En.cardinal v n ++ post)) =
      .ok (joinWords (pre ++ [decChars n] ++ post)) :=
  C01_text_en simple_textLaws simple_alphaLaws zeroThr v n h (fun _ => rfl) pre post hpre hpost

/-- a word the English interpreter answers `NaN` to is ordinary -/
theorem C01_text_en_ordinary (w : Word) (h1 : ∀ b, (En.lang.apply w b).1 = some .nan)
    (h2 : ∀ b, (En.lang.applyDecimal w b).1 = some .nan)
    (h3 : En.lang.isDecSep w = false) (h4 : isPlainWord simpleCC w = true) : Ordinary simpleCC En.lang w :=
  ordinary_of_apply _ _ _ (fun b => ⟨.nan, h1 b, by intro h; cases h⟩) (fun b => ⟨.nan, h2 b, by intro h; cases h⟩) h3 h4

/-- the hypotheses are satisfiable: `i have … apples` → `i have 123456789012 apples` -/
example : replaceText simpleCC .english zeroThr
    (joinWords ([w!"i", w!"have"] ++ Spec.En.cardinal (fun _ => 1) 123456789012 ++ [w!"apples"])) =
    .ok (joinWords ([w!"i", w!"have"] ++ [decChars 123456789012] ++ [w!"apples"])) :=
  C01_text_en_simple _ _ (by decide) _ _
    (fun w hw => by
      simp only [List.mem_cons, List.not_mem_nil, or_false] at hw
      rcases hw with rfl | rfl <;>
        exact C01_text_en_ordinary _ (fun _ => rfl) (fun _ => rfl) rfl (by decide))
    (fun w hw => by
      simp only [List.mem_cons, List.not_mem_nil, or_false] at hw
      subst hw
      exact C01_text_en_ordinary _ (fun _ => rfl) (fun _ => rfl) rfl (by decide))

/-- `replaceText … = .ok s`, as a Boolean (for kernel-evaluated instances on plain strings) -/
def C01_text_is (r : Except Fault Word) (s : String) : Bool :=
  match r with
  | .ok w => w == s.toList
  | .error _ => false

/-- the same kind of sentence as plain strings -/
example : C01_text_is (replaceText simpleCC .english zeroThr "i have twenty-one apples".toList)
    "i have 21 apples" = true := by decide +kernel

/-- a general threshold: with threshold 10 (`thr n = (n < 10)`) every `n ≥ 10` is rewritten … -/
example (v : Var) (n : Nat) (h : n < 10 ^ 12) (h10 : 10 ≤ n) (pre post : List Word)
    (hpre : ∀ w ∈ pre, Ordinary simpleCC En.lang w) (hpost : ∀ w ∈ post, Ordinary simpleCC En.lang w) :
    replaceText simpleCC .english (fun k => decide (k < 10)) (joinWords (pre ++ Spec.En.cardinal v n ++ post)) =
      .ok (joinWords (pre ++ [decChars n] ++ post)) :=
  C01_text_en simple_textLaws simple_alphaLaws _ v n h (fun h9 => by omega) pre post hpre hpost

/-- … whereas a lone number below the threshold is left in words: the hypothesis `n < 10 → thr n = false` is
necessary -/
theorem C01_text_en_small_kept :
    C01_text_is (replaceText simpleCC .english (fun k => decide (k < 10))
      (joinWords ([w!"i", w!"have"] ++ Spec.En.cardinal (fun _ => 0) 3 ++ [w!"apples"])))
      "i have three apples" = true ∧
    C01_text_is (replaceText simpleCC .english zeroThr
      (joinWords ([w!"i", w!"have"] ++ Spec.En.cardinal (fun _ => 0) 3 ++ [w!"apples"])))
      "i have 3 apples" = true := by
  constructor <;> decide +kernel

/-! ### Spanish -/

/-- **C01 (es), text level**: for every `n < 10^12`, every variant `v`, character classes
under the stated laws, ordinary words around, and a threshold under which `n` is not small. The Spanish interpreter
has no annotation pass. -/
theorem C01_text_es {cc : CharClasses} (L : TextLaws cc) (A : AlphaLaws cc) (thr : Nat → Bool)
    (v : Var) (n : Nat) (h : n < 10 ^ 12) (hthr : n < 10 → thr n = false)
    (pre post : List Word) (hpre : ∀ w ∈ pre, Ordinary cc Es.lang w) (hpost : ∀ w ∈ post, Ordinary cc Es.lang w) :
    replaceText cc .spanish thr (joinWords (pre ++ Spec.Es.cardinal v n ++ post)) =
      .ok (joinWords (pre ++ [decChars n] ++ post)) := by
  have hval := C01_validate_es_all v n h
  exact replaceText_cardinal L A .spanish thr (by simp [Language.interp, allLangs]) T2N.C07.C07_langAgree_es
    (Spec.Es.cardinal v n) n hthr hval
    (first_none_of_valid _ _ _ hval (fun w _ => C01Sent.Es.first w))
    (C01Text.Es.cardinal_over v n) pre post hpre hpost rfl

/-- **C01 (es), text level, explicit classes, threshold 0** -/
theorem C01_text_es_simple (v : Var) (n : Nat) (h : n < 10 ^ 12) (pre post : List Word)
    (hpre : ∀ w ∈ pre, Ordinary simpleCC Es.lang w) (hpost : ∀ w ∈ post, Ordinary simpleCC Es.lang w) :
    replaceText simpleCC .spanish zeroThr (joinWords (pre ++ Spec.Es.cardinal v n ++ post)) =
      .ok (joinWords (pre ++ [decChars n] ++ post)) :=
  C01_text_es simple_textLaws simple_alphaLaws zeroThr v n h (fun _ => rfl) pre post hpre hpost

/-- the hypotheses are satisfiable: `tengo … manzanas` -/
example : replaceText simpleCC .spanish zeroThr
    (joinWords ([w!"tengo"] ++ Spec.Es.cardinal (fun _ => 1) 123456789012 ++ [w!"manzanas"])) =
    .ok (joinWords ([w!"tengo"] ++ [decChars 123456789012] ++ [w!"manzanas"])) :=
  C01_text_es_simple _ _ (by decide) _ _
    (fun w hw => by
      have : w = w!"tengo" := by simpa using hw
      subst this
      exact ⟨C01_es_rejects_of_nan _ (by decide) (by decide) (by decide), by decide⟩)
    (fun w hw => by
      have : w = w!"manzanas" := by simpa using hw
      subst this
      exact ⟨C01_es_rejects_of_nan _ (by decide) (by decide) (by decide), by decide⟩)

/-! ### Portuguese -/

/-- **C01 (pt), text level**: for every `n < 10^12`, every variant `v`, character classes
under the stated laws, ordinary words around, and a threshold under which `n` is not small. The Portuguese interpreter
has no annotation pass. -/
theorem C01_text_pt {cc : CharClasses} (L : TextLaws cc) (A : AlphaLaws cc) (thr : Nat → Bool)
    (v : Var) (n : Nat) (h : n < 10 ^ 12) (hthr : n < 10 → thr n = false)
    (pre post : List Word) (hpre : ∀ w ∈ pre, Ordinary cc Pt.lang w) (hpost : ∀ w ∈ post, Ordinary cc Pt.lang w) :
    replaceText cc .portuguese thr (joinWords (pre ++ Spec.Pt.cardinal v n ++ post)) =
      .ok (joinWords (pre ++ [decChars n] ++ post)) := by
  have hval := C01_validate_pt_all v n h
  exact replaceText_cardinal L A .portuguese thr (by simp [Language.interp, allLangs]) T2N.C07.C07_langAgree_pt
    (Spec.Pt.cardinal v n) n hthr hval
    (first_none_of_valid _ _ _ hval (fun w _ => C01Sent.Pt.first w))
    (C01Text.Pt.cardinal_over v n) pre post hpre hpost rfl

/-- **C01 (pt), text level, explicit classes, threshold 0** -/
theorem C01_text_pt_simple (v : Var) (n : Nat) (h : n < 10 ^ 12) (pre post : List Word)
    (hpre : ∀ w ∈ pre, Ordinary simpleCC Pt.lang w) (hpost : ∀ w ∈ post, Ordinary simpleCC Pt.lang w) :
    replaceText simpleCC .portuguese zeroThr (joinWords (pre ++ Spec.Pt.cardinal v n ++ post)) =
      .ok (joinWords (pre ++ [decChars n] ++ post)) :=
  C01_text_pt simple_textLaws simple_alphaLaws zeroThr v n h (fun _ => rfl) pre post hpre hpost

/-- the hypotheses are satisfiable: `tenho … laranjas` -/
example : replaceText simpleCC .portuguese zeroThr
    (joinWords ([w!"tenho"] ++ Spec.Pt.cardinal (fun _ => 1) 123456789012 ++ [w!"laranjas"])) =
    .ok (joinWords ([w!"tenho"] ++ [decChars 123456789012] ++ [w!"laranjas"])) :=
  C01_text_pt_simple _ _ (by decide) _ _
    (fun w hw => by
      have : w = w!"tenho" := by simpa using hw
      subst this
      exact ⟨C01_pt_rejects_of_nan _ (by decide) (by decide) (by decide), by decide⟩)
    (fun w hw => by
      have : w = w!"laranjas" := by simpa using hw
      subst this
      exact ⟨C01_pt_rejects_of_nan _ (by decide) (by decide) (by decide), by decide⟩)

/-! ### Italian -/

/-- **C01 (it), text level**: for every `n < 10^12`, every variant `v`, character classes
under the stated laws, ordinary words around, and a threshold under which `n` is not small. The Italian interpreter
has no annotation pass. -/
theorem C01_text_it {cc : CharClasses} (L : TextLaws cc) (A : AlphaLaws cc) (thr : Nat → Bool)
    (v : Var) (n : Nat) (h : n < 10 ^ 12) (hthr : n < 10 → thr n = false)
    (pre post : List Word) (hpre : ∀ w ∈ pre, Ordinary cc It.lang w) (hpost : ∀ w ∈ post, Ordinary cc It.lang w) :
    replaceText cc .italian thr (joinWords (pre ++ Spec.It.cardinal v n ++ post)) =
      .ok (joinWords (pre ++ [decChars n] ++ post)) := by
  have hval := C01_validate_it_all v n h
  exact replaceText_cardinal L A .italian thr (by simp [Language.interp, allLangs]) T2N.C07.C07_langAgree_it
    (Spec.It.cardinal v n) n hthr hval
    (first_none_of_valid _ _ _ hval (C01Sent.It.first v n h))
    (C01Text.It.cardinal_over v n) pre post hpre hpost rfl

/-- **C01 (it), text level, explicit classes, threshold 0** -/
theorem C01_text_it_simple (v : Var) (n : Nat) (h : n < 10 ^ 12) (pre post : List Word)
    (hpre : ∀ w ∈ pre, Ordinary simpleCC It.lang w) (hpost : ∀ w ∈ post, Ordinary simpleCC It.lang w) :
    replaceText simpleCC .italian zeroThr (joinWords (pre ++ Spec.It.cardinal v n ++ post)) =
      .ok (joinWords (pre ++ [decChars n] ++ post)) :=
  C01_text_it simple_textLaws simple_alphaLaws zeroThr v n h (fun _ => rfl) pre post hpre hpost

/-- the hypotheses are satisfiable: `ho … mele` -/
example : replaceText simpleCC .italian zeroThr
    (joinWords ([w!"ho"] ++ Spec.It.cardinal (fun _ => 1) 123456789012 ++ [w!"mele"])) =
    .ok (joinWords ([w!"ho"] ++ [decChars 123456789012] ++ [w!"mele"])) :=
  C01_text_it_simple _ _ (by decide) _ _
    (fun w hw => by
      have : w = w!"ho" := by simpa using hw
      subst this
      exact ⟨Lang.rejects_of_apply It.lang _ (fun _ => ⟨.nan, rfl, by intro h; cases h⟩)
        (fun _ => ⟨.nan, rfl, by intro h; cases h⟩) rfl, by decide⟩)
    (fun w hw => by
      have : w = w!"mele" := by simpa using hw
      subst this
      exact ⟨Lang.rejects_of_apply It.lang _ (fun _ => ⟨.nan, rfl, by intro h; cases h⟩)
        (fun _ => ⟨.nan, rfl, by intro h; cases h⟩) rfl, by decide⟩)

/-! ### German -/

/-- **C01 (de), text level**: for every `n < 10^12`, every variant `v` (the `ein Million / ein Milliarde` variants: the restriction is necessary,
`C01_de_eine_million_rejected_all`), character classes
under the stated laws, ordinary words around, and a threshold under which `n` is not small. The German interpreter
has no annotation pass. -/
theorem C01_text_de {cc : CharClasses} (L : TextLaws cc) (A : AlphaLaws cc) (thr : Nat → Bool)
    (v : Var) (n : Nat) (h : n < 10 ^ 12) (hv : flag v (cp 2 5) = true ∧ flag v (cp 3 5) = true) (hthr : n < 10 → thr n = false)
    (pre post : List Word) (hpre : ∀ w ∈ pre, Ordinary cc De.lang w) (hpost : ∀ w ∈ post, Ordinary cc De.lang w) :
    replaceText cc .german thr (joinWords (pre ++ Spec.De.cardinal v n ++ post)) =
      .ok (joinWords (pre ++ [decChars n] ++ post)) := by
  have hval := C01_validate_de_all v n h hv
  exact replaceText_cardinal L A .german thr (by simp [Language.interp, allLangs]) T2N.C07.C07_langAgree_de
    (Spec.De.cardinal v n) n hthr hval
    (first_none_of_valid _ _ _ hval (C01Sent.De.first v n h hv))
    (C01Text.De.cardinal_over v n) pre post hpre hpost rfl

/-- **C01 (de), text level, explicit classes, threshold 0** -/
theorem C01_text_de_simple (v : Var) (n : Nat) (h : n < 10 ^ 12) (hv : flag v (cp 2 5) = true ∧ flag v (cp 3 5) = true) (pre post : List Word)
    (hpre : ∀ w ∈ pre, Ordinary simpleCC De.lang w) (hpost : ∀ w ∈ post, Ordinary simpleCC De.lang w) :
    replaceText simpleCC .german zeroThr (joinWords (pre ++ Spec.De.cardinal v n ++ post)) =
      .ok (joinWords (pre ++ [decChars n] ++ post)) :=
  C01_text_de simple_textLaws simple_alphaLaws zeroThr v n h hv (fun _ => rfl) pre post hpre hpost

/-- the hypotheses are satisfiable: `habe … äpfel` -/
example : replaceText simpleCC .german zeroThr
    (joinWords ([w!"habe"] ++ Spec.De.cardinal (fun _ => 1) 123456789012 ++ [w!"äpfel"])) =
    .ok (joinWords ([w!"habe"] ++ [decChars 123456789012] ++ [w!"äpfel"])) :=
  C01_text_de_simple _ _ (by decide) (by decide) _ _
    (fun w hw => by
      have : w = w!"habe" := by simpa using hw
      subst this
      exact ⟨Lang.rejects_of_apply De.lang _ (fun _ => ⟨.nan, rfl, by intro h; cases h⟩)
        (fun _ => ⟨.nan, rfl, by intro h; cases h⟩) rfl, by decide⟩)
    (fun w hw => by
      have : w = w!"äpfel" := by simpa using hw
      subst this
      exact ⟨Lang.rejects_of_apply De.lang _ (fun _ => ⟨.nan, rfl, by intro h; cases h⟩)
        (fun _ => ⟨.nan, rfl, by intro h; cases h⟩) rfl, by decide⟩)

/-! ### Dutch -/

/-- **C01 (nl), text level**: for every `n < 10^12`, every variant `v`, character classes
under the stated laws, ordinary words around, and a threshold under which `n` is not small. The Dutch interpreter
has no annotation pass. -/
theorem C01_text_nl {cc : CharClasses} (L : TextLaws cc) (A : AlphaLaws cc) (thr : Nat → Bool)
    (v : Var) (n : Nat) (h : n < 10 ^ 12) (hthr : n < 10 → thr n = false)
    (pre post : List Word) (hpre : ∀ w ∈ pre, Ordinary cc Nl.lang w) (hpost : ∀ w ∈ post, Ordinary cc Nl.lang w) :
    replaceText cc .dutch thr (joinWords (pre ++ Spec.Nl.cardinal v n ++ post)) =
      .ok (joinWords (pre ++ [decChars n] ++ post)) := by
  have hval := C01_validate_nl_all v n h
  exact replaceText_cardinal L A .dutch thr (by simp [Language.interp, allLangs]) T2N.C07.C07_langAgree_nl
    (Spec.Nl.cardinal v n) n hthr hval
    (first_none_of_valid _ _ _ hval (C01Sent.Nl.first v n h))
    (C01Text.Nl.cardinal_over v n) pre post hpre hpost rfl

/-- **C01 (nl), text level, explicit classes, threshold 0** -/
theorem C01_text_nl_simple (v : Var) (n : Nat) (h : n < 10 ^ 12) (pre post : List Word)
    (hpre : ∀ w ∈ pre, Ordinary simpleCC Nl.lang w) (hpost : ∀ w ∈ post, Ordinary simpleCC Nl.lang w) :
    replaceText simpleCC .dutch zeroThr (joinWords (pre ++ Spec.Nl.cardinal v n ++ post)) =
      .ok (joinWords (pre ++ [decChars n] ++ post)) :=
  C01_text_nl simple_textLaws simple_alphaLaws zeroThr v n h (fun _ => rfl) pre post hpre hpost

/-- the hypotheses are satisfiable: `hier … appels` -/
example : replaceText simpleCC .dutch zeroThr
    (joinWords ([w!"hier"] ++ Spec.Nl.cardinal (fun _ => 1) 123456789012 ++ [w!"appels"])) =
    .ok (joinWords ([w!"hier"] ++ [decChars 123456789012] ++ [w!"appels"])) :=
  C01_text_nl_simple _ _ (by decide) _ _
    (fun w hw => by
      have : w = w!"hier" := by simpa using hw
      subst this
      exact ⟨Lang.rejects_of_apply Nl.lang _ (fun _ => ⟨.nan, rfl, by intro h; cases h⟩)
        (fun _ => ⟨.nan, rfl, by intro h; cases h⟩) rfl, by decide⟩)
    (fun w hw => by
      have : w = w!"appels" := by simpa using hw
      subst this
      exact ⟨Lang.rejects_of_apply Nl.lang _ (fun _ => ⟨.nan, rfl, by intro h; cases h⟩)
        (fun _ => ⟨.nan, rfl, by intro h; cases h⟩) rfl, by decide⟩)

/-! ### French

The French annotation pass marks a `neuf` as "not a number" (the adjective *new*) when an article (`un`, `le`,
`du`, `l'`) stands two or three words before it, the word before it is neither `numéro` nor `virgule`, and neither
neighbour is a number word. Inside a spelled cardinal a `neuf` always has a number-word neighbour — the word
before it, or, when the spelling starts with `neuf`, the word after it — except in the spelling of 9 itself. -/

/-- the decision of the French pass for the lone `neuf` that spells 9, as a function of the words before it:
`frNeufMarked pre = (2 ≤ |pre|) ∧ (pre[-2] or pre[-3] is an article) ∧ pre[-1] ≠ numéro` -/
abbrev C01_text_fr_neufMarked (pre : List Word) : Bool := C01Text.Fr.frNeufMarked pre

/-- **C01 (fr), text level**: for every `n < 10^12`, every variant `v`, character classes under the stated laws,
ordinary words around, and a threshold under which `n` is not small; for `n = 9` the words before must not make
the `neuf` pass fire (`hneuf`; necessary: `C01_text_fr_neuf_kept`) -/
theorem C01_text_fr {cc : CharClasses} (L : TextLaws cc) (A : AlphaLaws cc) (thr : Nat → Bool)
    (v : Var) (n : Nat) (h : n < 10 ^ 12) (hthr : n < 10 → thr n = false)
    (pre post : List Word) (hpre : ∀ w ∈ pre, Ordinary cc Fr.lang w) (hpost : ∀ w ∈ post, Ordinary cc Fr.lang w)
    (hneuf : n = 9 → C01_text_fr_neufMarked pre = false) :
    replaceText cc .french thr (joinWords (pre ++ Spec.Fr.cardinal v n ++ post)) =
      .ok (joinWords (pre ++ [decChars n] ++ post)) := by
  have hval := C01_validate_fr_all v n h
  refine replaceText_cardinal L A .french thr (by simp [Language.interp, allLangs]) T2N.C07.C07_langAgree_fr
    (Spec.Fr.cardinal v n) n hthr hval
    (first_none_of_valid _ _ _ hval (C01Sent.Fr.first v n))
    (C01Text.FrOver.cardinal_over v n) pre post hpre hpost ?_
  exact C01Text.Fr.annotateFr_cardinal L v n hval pre post (fun w hw => (hpre w hw).1) (fun w hw => (hpost w hw).1)
    (fun w hw => isPlainWord_tok (plain_of_parts L A Fr.lang pre _ post hpre (C01Text.FrOver.cardinal_over v n) hpost w hw))
    hneuf

/-- the hypothesis `hneuf` is exactly the decision of the pass: in the sentence `pre ++ [neuf] ++ post` (refused words
around) the pass's decision for the `neuf` — `frDecW`, which is the model's decision on these tokens
(`C01Text.Fr.frDec_wordTokens`) — is `C01_text_fr_neufMarked pre` -/
theorem C01_text_fr_neuf_decision (pre post : List Word) (hpre : ∀ w ∈ pre, Fr.lang.Rejects w)
    (hpost : ∀ w ∈ post, Fr.lang.Rejects w) :
    C01Text.Fr.frDecW (pre ++ [w!"neuf"] ++ post) pre.length = C01_text_fr_neufMarked pre :=
  C01Text.Fr.frDecW_lone pre post hpre hpost

/-- no article (`un`, `le`, `du`, `l'`) among the words before: the hypothesis on `neuf` holds -/
theorem C01_text_fr_no_article {cc : CharClasses} (L : TextLaws cc) (A : AlphaLaws cc) (thr : Nat → Bool)
    (v : Var) (n : Nat) (h : n < 10 ^ 12) (hthr : n < 10 → thr n = false)
    (pre post : List Word) (hpre : ∀ w ∈ pre, Ordinary cc Fr.lang w) (hpost : ∀ w ∈ post, Ordinary cc Fr.lang w)
    (hart : ∀ a ∈ pre, frArticles.contains a = false) :
    replaceText cc .french thr (joinWords (pre ++ Spec.Fr.cardinal v n ++ post)) =
      .ok (joinWords (pre ++ [decChars n] ++ post)) :=
  C01_text_fr L A thr v n h hthr pre post hpre hpost (fun _ => C01Text.Fr.frNeufMarked_of_no_article pre hart)

/-- **C01 (fr), text level, explicit classes, threshold 0** -/
theorem C01_text_fr_simple (v : Var) (n : Nat) (h : n < 10 ^ 12) (pre post : List Word)
    (hpre : ∀ w ∈ pre, Ordinary simpleCC Fr.lang w) (hpost : ∀ w ∈ post, Ordinary simpleCC Fr.lang w)
    (hneuf : n = 9 → C01_text_fr_neufMarked pre = false) :
    replaceText simpleCC .french zeroThr (joinWords (pre ++ Spec.Fr.cardinal v n ++ post)) =
      .ok (joinWords (pre ++ [decChars n] ++ post)) :=
  C01_text_fr simple_textLaws simple_alphaLaws zeroThr v n h (fun _ => rfl) pre post hpre hpost hneuf

/-- the hypotheses are satisfiable: `voici … pommes` (1990-reform spelling, Belgian / Swiss tens) -/
example : replaceText simpleCC .french zeroThr
    (joinWords ([w!"voici"] ++ Spec.Fr.cardinal (fun _ => 2) 123456789012 ++ [w!"pommes"])) =
    .ok (joinWords ([w!"voici"] ++ [decChars 123456789012] ++ [w!"pommes"])) :=
  C01_text_fr_simple _ _ (by decide) _ _
    (fun w hw => by
      have : w = w!"voici" := by simpa using hw
      subst this
      exact ⟨Lang.rejects_of_apply Fr.lang _ (fun _ => ⟨.nan, rfl, by intro h; cases h⟩)
        (fun _ => ⟨.nan, rfl, by intro h; cases h⟩) rfl, by decide⟩)
    (fun w hw => by
      have : w = w!"pommes" := by simpa using hw
      subst this
      exact ⟨Lang.rejects_of_apply Fr.lang _ (fun _ => ⟨.nan, rfl, by intro h; cases h⟩)
        (fun _ => ⟨.nan, rfl, by intro h; cases h⟩) rfl, by decide⟩)
    (fun h => by cases h)

/-- an article before a spelling that contains `neuf` with a number-word neighbour is harmless:
`le chat a neuf mille vies`-style sentences need no hypothesis (here `n = 9009 ≠ 9`) -/
example : C01_text_is (replaceText simpleCC .french zeroThr "le chat a neuf mille neuf vies".toList)
    "le chat a 9009 vies" = true := by decide +kernel

/-- **the hypothesis on `neuf` is necessary**: after `le chat a` the lone `neuf` is marked by the pass (an article
three words before, refused neighbours) and the text is left unchanged -/
theorem C01_text_fr_neuf_kept :
    C01_text_fr_neufMarked [w!"le", w!"chat", w!"a"] = true ∧
    Spec.Fr.cardinal (fun _ => 0) 9 = [w!"neuf"] ∧
    C01_text_is (replaceText simpleCC .french zeroThr
      (joinWords ([w!"le", w!"chat", w!"a"] ++ Spec.Fr.cardinal (fun _ => 0) 9 ++ [w!"vies"])))
      "le chat a neuf vies" = true := by
  refine ⟨by decide, by decide, ?_⟩
  decide +kernel

/-- **the hypothesis on `neuf` is necessary, in general**: for `n = 9` (every variant spells it `neuf`), any
character classes under the laws, any threshold, ordinary words around: when `C01_text_fr_neufMarked pre = true` the
pass marks the `neuf` and the text is returned unchanged. With `C01_text_fr`: at threshold 0 the `9` is written in
digits if and only if `C01_text_fr_neufMarked pre = false`. -/
theorem C01_text_fr_neuf_kept_all {cc : CharClasses} (L : TextLaws cc) (A : AlphaLaws cc) (thr : Nat → Bool) (v : Var)
    (pre post : List Word) (hpre : ∀ w ∈ pre, Ordinary cc Fr.lang w) (hpost : ∀ w ∈ post, Ordinary cc Fr.lang w)
    (hm : C01_text_fr_neufMarked pre = true) :
    replaceText cc .french thr (joinWords (pre ++ Spec.Fr.cardinal v 9 ++ post)) =
      .ok (joinWords (pre ++ Spec.Fr.cardinal v 9 ++ post)) := by
  rw [C01Text.Fr.cardinal_nine v]
  exact C01Text.Fr.replaceText_lone_kept L A thr pre post hpre hpost hm

/-- … whereas without the article it is rewritten -/
example : C01_text_is (replaceText simpleCC .french zeroThr "mon chat a neuf vies".toList)
    "mon chat a 9 vies" = true := by decide +kernel

end T2N.C01
