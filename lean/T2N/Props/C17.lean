/-
  C17 — whitespace kind and amount never matter.

  * search: replacing whitespace runs by other whitespace runs changes separator tokens only; the scanner
    observes a token through `isSkipped` (is it `-` / all whitespace), the `nan` hint, what the language
    does with its lowercase text, and whether it breaks a sequence. Streams whose tokens agree on these
    observations give identical occurrences (`C17_scan`), and an all-whitespace token is observed the same
    whatever whitespace characters it is made of (`C17_ws_token`), provided every test uses the same
    notion of whitespace — which is what `English::basic_annotate` violated before the fix of F-en-ascii-ws.
  * validation: `text2digits` sees its input through `split_whitespace` only (`C17_validate`,
    `C17_split_ws_subst`).
  * separator tokens: a whitespace substitution inside a separator token (`", "` → `",\t "`) changes its
    lowercase text, which the scanner hands to the language. For each built-in language a word that shares no
    character with the language's vocabulary / splitter patterns (`L.Sepish`, T2N.Lemmas.Inert) is treated like
    the empty word, so any two such tokens are related (`C17_separator_tokens_rel_<l>`).
-/
import T2N.Lemmas.Congr
import T2N.Lemmas.Inert
import T2N.Lemmas.SimpleCC
import T2N.Model.Api

namespace T2N.C17
open T2N

/-- **C17 (search)**: token streams that the scanner cannot tell apart give the same occurrences. -/
theorem C17_scan (cfg : ScanCfg) (hsep : SepRespects cfg) (toks toks' : List Tok)
    (h : ListRel (TokRel cfg) toks toks') : findNumbers cfg toks = findNumbers cfg toks' :=
  findNumbers_congr cfg hsep toks toks' h

/-- an all-whitespace token (that does not declare itself "not part of a number": such a token is never
skipped, it ends the number like any other hinted token) is skipped whatever it is made of: pushing it
leaves the scanner unchanged -/
theorem C17_ws_token (cfg : ScanCfg) (s : Scanner) (pos : Nat) (tok : Tok)
    (h : tok.text.all cfg.cc.isWhitespace = true) (hn : tok.nan = false) : s.push cfg pos tok = .ok s := by
  unfold Scanner.push Scanner.isSkipped
  simp [h, hn]

/-- hence any two non-empty whitespace runs are interchangeable as tokens, and whitespace tokens can be
inserted or removed anywhere without changing what is recognised (spans shift by the token count) -/
theorem C17_ws_tokens_rel (cfg : ScanCfg) (a b : Tok) (ha : a.text.all cfg.cc.isWhitespace = true)
    (hb : b.text.all cfg.cc.isWhitespace = true) (hna : a.nan = false) (hnb : b.nan = false)
    (pos pos' : Nat) (s : Scanner) :
    s.push cfg pos a = s.push cfg pos' b := by
  rw [C17_ws_token cfg s pos a ha hna, C17_ws_token cfg s pos' b hb hnb]

/-- **C17 (validation)**: validation depends on the text only through its whitespace-separated words -/
theorem C17_validate (cc : CharClasses) (l : Lang) (s s' : Word)
    (h : cc.splitWhitespace (cc.lowerStr s) = cc.splitWhitespace (cc.lowerStr s')) :
    text2digits cc l s = text2digits cc l s' := by
  unfold text2digits; rw [h]

/-! ### `split_whitespace` ignores the kind and amount of whitespace -/

theorem go_ws_prefix (cc : CharClasses) (u : Word) (hu : u.all cc.isWhitespace = true) (rest : Word) :
    CharClasses.splitWhitespace.go cc (u ++ rest) [] = CharClasses.splitWhitespace.go cc rest [] := by
  induction u with
  | nil => rfl
  | cons c cs ih =>
    simp only [List.all_cons, Bool.and_eq_true] at hu
    simp only [List.cons_append, CharClasses.splitWhitespace.go, hu.1, if_true, List.isEmpty_nil]
    exact ih hu.2

theorem go_ws_after_word (cc : CharClasses) (u : Word) (hu : u.all cc.isWhitespace = true) (hne : u ≠ [])
    (rest cur : Word) (hc : cur ≠ []) :
    CharClasses.splitWhitespace.go cc (u ++ rest) cur = cur.reverse :: CharClasses.splitWhitespace.go cc rest [] := by
  cases u with
  | nil => exact absurd rfl hne
  | cons c cs =>
    simp only [List.all_cons, Bool.and_eq_true] at hu
    have hce : cur.isEmpty = false := by simpa using hc
    simp only [List.cons_append, CharClasses.splitWhitespace.go, hu.1, if_true, hce, Bool.false_eq_true, if_false]
    rw [go_ws_prefix cc cs hu.2]

/-- replacing one whitespace run (anywhere: leading, inner, trailing) by another non-empty whitespace
run does not change the words; iterating gives any whitespace substitution -/
theorem C17_split_ws_subst (cc : CharClasses) (a u u' b : Word)
    (hu : u.all cc.isWhitespace = true) (hu' : u'.all cc.isWhitespace = true) (hne : u ≠ []) (hne' : u' ≠ []) :
    cc.splitWhitespace (a ++ u ++ b) = cc.splitWhitespace (a ++ u' ++ b) := by
  unfold CharClasses.splitWhitespace
  suffices h : ∀ cur, CharClasses.splitWhitespace.go cc (a ++ u ++ b) cur =
      CharClasses.splitWhitespace.go cc (a ++ u' ++ b) cur from h []
  induction a with
  | nil =>
    intro cur
    simp only [List.nil_append]
    by_cases hc : cur = []
    · subst hc; rw [go_ws_prefix cc u hu, go_ws_prefix cc u' hu']
    · rw [go_ws_after_word cc u hu hne b cur hc, go_ws_after_word cc u' hu' hne' b cur hc]
  | cons c cs ih =>
    intro cur
    simp only [List.cons_append, List.append_assoc, CharClasses.splitWhitespace.go]
    simp only [List.append_assoc] at ih
    split
    · split <;> simp [ih]
    · exact ih _

/-- adding whitespace at either end does not change the words -/
theorem C17_split_ws_leading (cc : CharClasses) (u s : Word) (hu : u.all cc.isWhitespace = true) :
    cc.splitWhitespace (u ++ s) = cc.splitWhitespace s := by
  unfold CharClasses.splitWhitespace
  exact go_ws_prefix cc u hu s

/-! ### separator tokens are inert for every built-in language

`L.Sepish w`: no character of `w` is a letter of language `L` (`L.letters`: the characters of the vocabulary
keys, decimal vocabulary keys and splitter patterns; plus `-` for French — the French compound error path
keeps the blocking flags, the plain one clears them, `Fr.dash_counterexample` — and `è` for Italian, the
linking word "è"). -/

/-- a token the language does not regard as a linking word breaks a sequence iff it is not pure
punctuation / is a lone full stop — a property of its text and the character classes only -/
theorem C17_breaks_of_not_linking (cfg : ScanCfg) (a : Tok) (h : cfg.lang.isLinking a.lower = false) :
    breaks cfg a = !(a.text.all (fun c => !cfg.cc.isAlphabetic c) && cfg.cc.trim a.text != ['.']) := by
  unfold breaks
  rw [h, Bool.or_false]

theorem C17_separator_tokens_rel_en (cfg : ScanCfg) (hl : cfg.lang = En.lang) (a b : Tok)
    (ha : En.Sepish a.lower) (hb : En.Sepish b.lower) (hn : a.nan = b.nan)
    (hs : Scanner.isSkipped cfg a = Scanner.isSkipped cfg b) (hbr : breaks cfg a = breaks cfg b) :
    TokRel cfg a b :=
  ⟨hs, hn, hl ▸ En.langEq_sepish _ _ ha hb, hbr⟩

theorem C17_separator_tokens_rel_fr (cfg : ScanCfg) (hl : cfg.lang = Fr.lang) (a b : Tok)
    (ha : Fr.Sepish a.lower) (hb : Fr.Sepish b.lower) (hn : a.nan = b.nan)
    (hs : Scanner.isSkipped cfg a = Scanner.isSkipped cfg b) (hbr : breaks cfg a = breaks cfg b) :
    TokRel cfg a b :=
  ⟨hs, hn, hl ▸ Fr.langEq_sepish _ _ ha hb, hbr⟩

theorem C17_separator_tokens_rel_es (cfg : ScanCfg) (hl : cfg.lang = Es.lang) (a b : Tok)
    (ha : Es.Sepish a.lower) (hb : Es.Sepish b.lower) (hn : a.nan = b.nan)
    (hs : Scanner.isSkipped cfg a = Scanner.isSkipped cfg b) (hbr : breaks cfg a = breaks cfg b) :
    TokRel cfg a b :=
  ⟨hs, hn, hl ▸ Es.langEq_sepish _ _ ha hb, hbr⟩

theorem C17_separator_tokens_rel_pt (cfg : ScanCfg) (hl : cfg.lang = Pt.lang) (a b : Tok)
    (ha : Pt.Sepish a.lower) (hb : Pt.Sepish b.lower) (hn : a.nan = b.nan)
    (hs : Scanner.isSkipped cfg a = Scanner.isSkipped cfg b) (hbr : breaks cfg a = breaks cfg b) :
    TokRel cfg a b :=
  ⟨hs, hn, hl ▸ Pt.langEq_sepish _ _ ha hb, hbr⟩

theorem C17_separator_tokens_rel_it (cfg : ScanCfg) (hl : cfg.lang = It.lang) (a b : Tok)
    (ha : It.Sepish a.lower) (hb : It.Sepish b.lower) (hn : a.nan = b.nan)
    (hs : Scanner.isSkipped cfg a = Scanner.isSkipped cfg b) (hbr : breaks cfg a = breaks cfg b) :
    TokRel cfg a b :=
  ⟨hs, hn, hl ▸ It.langEq_sepish _ _ ha hb, hbr⟩

theorem C17_separator_tokens_rel_de (cfg : ScanCfg) (hl : cfg.lang = De.lang) (a b : Tok)
    (ha : De.Sepish a.lower) (hb : De.Sepish b.lower) (hn : a.nan = b.nan)
    (hs : Scanner.isSkipped cfg a = Scanner.isSkipped cfg b) (hbr : breaks cfg a = breaks cfg b) :
    TokRel cfg a b :=
  ⟨hs, hn, hl ▸ De.langEq_sepish _ _ ha hb, hbr⟩

theorem C17_separator_tokens_rel_nl (cfg : ScanCfg) (hl : cfg.lang = Nl.lang) (a b : Tok)
    (ha : Nl.Sepish a.lower) (hb : Nl.Sepish b.lower) (hn : a.nan = b.nan)
    (hs : Scanner.isSkipped cfg a = Scanner.isSkipped cfg b) (hbr : breaks cfg a = breaks cfg b) :
    TokRel cfg a b :=
  ⟨hs, hn, hl ▸ Nl.langEq_sepish _ _ ha hb, hbr⟩

/-- French separator tokens containing `-` (e.g. `" - "` → `" -\t"`): two tokens without letters that agree on
whether they contain `-` are related -/
theorem C17_separator_tokens_rel_fr_dash (cfg : ScanCfg) (hl : cfg.lang = Fr.lang) (a b : Tok)
    (ha : Sepish Fr.letters0 a.lower) (hb : Sepish Fr.letters0 b.lower)
    (hd : a.lower.contains '-' = b.lower.contains '-') (hn : a.nan = b.nan)
    (hs : Scanner.isSkipped cfg a = Scanner.isSkipped cfg b) (hbr : breaks cfg a = breaks cfg b) :
    TokRel cfg a b :=
  ⟨hs, hn, hl ▸ Fr.langEq_sepish0 _ _ ha hb hd, hbr⟩

/-- the hypotheses are satisfiable: `", "` and `",\t "` in French -/
example : TokRel (scanCfg Fr.lang zeroThr) { text := w!", ", lower := w!", " }
    { text := w!",\t ", lower := w!",\t " } :=
  C17_separator_tokens_rel_fr _ rfl _ _ (by decide +kernel) (by decide +kernel) rfl (by decide +kernel)
    (by decide +kernel)

/-- … and `" - "`, `" -\t"` for the `-` variant -/
example : TokRel (scanCfg Fr.lang zeroThr) { text := w!" - ", lower := w!" - " }
    { text := w!" -\t", lower := w!" -\t" } :=
  C17_separator_tokens_rel_fr_dash _ rfl _ _ (by decide +kernel) (by decide +kernel) (by decide +kernel) rfl
    (by decide +kernel) (by decide +kernel)

end T2N.C17
