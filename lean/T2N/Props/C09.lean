/-
  C09 — lone-number policy: the threshold only ever hides small isolated numbers.
-/
import T2N.Lemmas.Scanner
import T2N.Lemmas.Thr
import T2N.Lemmas.Policy

namespace T2N.C09
open T2N

/-- a number that is not "small" (`forget = false`) is enqueued at once, whatever the tracker state:
multi-digit cardinals, decimals and fractions are rewritten at every threshold -/
theorem C09_big_always (t : Tracker) (isOrd : Bool) (text : Word) (v : Value) :
    ∃ pre, (t.numberEnd isOrd text v false).queue = pre ++ [⟨t.mstart, t.mend, text, v, isOrd⟩] ∧
      (t.numberEnd isOrd text v false).onHold = none := by
  unfold Tracker.numberEnd
  dsimp only
  generalize (if isOrd = true then Kind.ordinal else Kind.cardinal) = kind
  by_cases hc : (t.last == kind) = true
  · rw [if_pos hc]; exact ⟨_, rfl, by first | rfl | trivial⟩
  · rw [if_neg hc]
    simp only [Bool.false_eq_true, if_false]
    exact ⟨_, rfl, by first | rfl | trivial⟩

/-- `small` needs an integer value: decimals and the Spanish fraction are never small -/
theorem C09_decimal_never_small (cfg : ScanCfg) (i d : List Nat) (hd : d ≠ []) :
    cfg.small (.dec i d) = false := by
  cases d with
  | nil => exact absurd rfl hd
  | cons x xs => rfl

theorem C09_fraction_never_small (cfg : ScanCfg) (i : List Nat) : cfg.small (.recip i) = false := rfl

/-- a threshold that no natural number is below (0, negative, NaN, −∞) makes nothing small -/
theorem C09_zero_threshold (cfg : ScanCfg) (h : ∀ n, cfg.thrLt n = false) (v : Value) : cfg.small v = false := by
  cases v with
  | dec i f => cases f with
    | nil => exact h _
    | cons x xs => rfl
  | recip i => rfl

/-- raising the threshold only makes more numbers small (monotonicity of the test itself) -/
theorem C09_small_monotone (c1 c2 : ScanCfg) (h : ∀ n, c1.thrLt n = true → c2.thrLt n = true) (v : Value)
    (hs : c1.small v = true) : c2.small v = true := by
  cases v with
  | dec i f => cases f with
    | nil => exact h _ hs
    | cons x xs => cases hs
  | recip i => cases hs

/-- a small number next to a number of the same kind (no breaker in between: `last = kind`) is released
together with the held one: sequences such as `one, two, three` are always rewritten -/
theorem C09_sequence_released (t : Tracker) (isOrd : Bool) (text : Word) (v : Value) (forget : Bool)
    (h : t.last = (if isOrd then Kind.ordinal else Kind.cardinal)) :
    (t.numberEnd isOrd text v forget).queue =
      t.queue ++ t.onHold.toList ++ [⟨t.mstart, t.mend, text, v, isOrd⟩] ∧
    (t.numberEnd isOrd text v forget).onHold = none := by
  unfold Tracker.numberEnd
  dsimp only
  rw [h]
  simp only [beq_self_eq_true, if_true]
  cases t.onHold <;> exact ⟨by first | rfl | simp, by first | rfl | trivial⟩

/-- after a breaker a small number is held back, and a held number is dropped by the next number of a
different kind or after a breaker — it can only ever be released by `C09_sequence_released` -/
theorem C09_isolated_held (t : Tracker) (isOrd : Bool) (text : Word) (v : Value)
    (h : t.last ≠ (if isOrd then Kind.ordinal else Kind.cardinal)) :
    (t.numberEnd isOrd text v true).queue = t.queue ∧
    (t.numberEnd isOrd text v true).onHold = some ⟨t.mstart, t.mend, text, v, isOrd⟩ := by
  unfold Tracker.numberEnd
  dsimp only
  have : (t.last == (if isOrd = true then Kind.ordinal else Kind.cardinal)) = false := by
    simpa using h
  rw [this]
  simp

/-! ### end to end: the set of numbers recognised does not depend on the threshold; the threshold only
decides which are reported -/

/-- **C09 (monotone)**: raising the threshold never adds a rewrite — for every stream, hints, language:
`occ(t₂) ⊑ occ(t₁)` (sub-list: same occurrences in the same order, some left out) whenever every value
below `t₁` is below `t₂`. -/
theorem C09_monotone (c1 c2 : ScanCfg) (h : ThrLe c1 c2) (toks : List Tok) :
    ∃ o1 o2, findNumbers c1 toks = .ok o1 ∧ findNumbers c2 toks = .ok o2 ∧ o2.Sublist o1 := by
  obtain ⟨o1, h1, _⟩ := findNumbers_ok c1 toks
  obtain ⟨o2, h2, _⟩ := findNumbers_ok c2 toks
  exact ⟨o1, o2, h1, h2, findNumbers_thr_sublist h toks o1 o2 h1 h2⟩

/-- the configuration with a threshold nothing is below (0, negative, NaN, −∞) -/
def atZero (c : ScanCfg) : ScanCfg := { c with thrLt := fun _ => false }

/-- **C09 (subset of threshold 0)**: at any threshold, what is reported is a sub-list of what is
reported at threshold 0: the threshold never changes *which* numbers are recognised, their spans,
digits or values — it only hides some. -/
theorem C09_subset_of_zero (c : ScanCfg) (toks : List Tok) :
    ∃ o0 ot, findNumbers (atZero c) toks = .ok o0 ∧ findNumbers c toks = .ok ot ∧ ot.Sublist o0 :=
  C09_monotone (atZero c) c ⟨rfl, rfl, rfl, fun _ h => by cases h⟩ toks

/-- **C09 (threshold ≤ 0 or NaN rewrites everything)**: any two thresholds that no natural number is
below give the same result -/
theorem C09_zero_all (c1 c2 : ScanCfg) (hl : c1.lang = c2.lang) (hc : c1.cc = c2.cc) (hs : c1.sep = c2.sep)
    (h1 : ∀ n, c1.thrLt n = false) (h2 : ∀ n, c2.thrLt n = false) (toks : List Tok) :
    findNumbers c1 toks = findNumbers c2 toks := by
  have : c1 = c2 := by
    cases c1; cases c2
    simp only at hl hc hs h1 h2
    subst hl hc hs
    congr
    funext n
    rw [h1, h2]
  rw [this]

/-! non-vacuity: `ThrLe` relates e.g. thresholds 5 and 10 -/
example (c : ScanCfg) : ThrLe { c with thrLt := fun n => n < 5 } { c with thrLt := fun n => n < 10 } :=
  ⟨rfl, rfl, rfl, fun n h => by simp at h ⊢; omega⟩

/-! ### the policy, exactly (event level)

`events cfg toks` (Lemmas/Policy.lean) is the list of what the scanner tells its tracker, in order: `num o`
for every recognised number (call of `number_end`, with span, digits, value, kind), `brk` for every call of
`sequence_breaker`.  It is computed by an instrumented copy of the scanner that never reads the
threshold.  `keptAt cfg evs i` is the policy as a pure function of the event list. -/

/-- **C09 (recognition is threshold-free)**: the events — which numbers are recognised, with which span,
digits, value and kind, and where the sequence breakers fall — do not depend on the threshold -/
theorem C09_events_threshold_free (c1 c2 : ScanCfg) (hl : c1.lang = c2.lang) (hc : c1.cc = c2.cc)
    (hs : c1.sep = c2.sep) (toks : List Tok) : events c1 toks = events c2 toks :=
  events_thr c1 c2 hl hc hs toks

/-- every run has an event list (so the hypothesis of `C09_policy_exact` is always satisfiable) -/
theorem C09_events_total (cfg : ScanCfg) (toks : List Tok) : ∃ evs, events cfg toks = .ok evs :=
  events_ok cfg toks

/-- **C09 (the policy, exactly)**: what `find_numbers` reports is the list of the `num` events at the
indices where `keptAt` holds: the number is not small (`smallEv`: single-byte text or ordinal, and value
below the threshold), or the event just before it is a number of the same kind, or the event just after it
is a number of the same kind -/
theorem C09_policy_exact (cfg : ScanCfg) (toks : List Tok) (evs : List Ev) (h : events cfg toks = .ok evs) :
    findNumbers cfg toks = .ok (keptList cfg evs) :=
  findNumbers_eq_kept cfg toks evs h

/-- membership form of `C09_policy_exact` -/
theorem C09_reported_iff (cfg : ScanCfg) (toks : List Tok) (evs : List Ev) (h : events cfg toks = .ok evs) :
    ∃ occs, findNumbers cfg toks = .ok occs ∧
      ∀ o, o ∈ occs ↔ ∃ i, evs[i]? = some (.num o) ∧ keptAt cfg evs i = true :=
  ⟨_, C09_policy_exact cfg toks evs h, mem_keptList cfg evs⟩

/-- **C09 (left in words ⇔ small and isolated)** -/
theorem C09_left_in_words_iff (cfg : ScanCfg) (evs : List Ev) (i : Nat) (o : Occ) (h : evs[i]? = some (.num o)) :
    keptAt cfg evs i = false ↔
      smallEv cfg o = true ∧ sameKind o (prevEv evs i) = false ∧ sameKind o evs[i + 1]? = false :=
  keptAt_false_iff h

/-- **C09 (one recognition, two thresholds)**: two configurations that differ only in the threshold see
the same events; each reports its own kept-filter of them, and threshold 0 reports them all -/
theorem C09_same_events (c1 c2 : ScanCfg) (hl : c1.lang = c2.lang) (hc : c1.cc = c2.cc) (hs : c1.sep = c2.sep)
    (toks : List Tok) :
    ∃ evs, events c1 toks = .ok evs ∧ events c2 toks = .ok evs ∧
      findNumbers c1 toks = .ok (keptList c1 evs) ∧ findNumbers c2 toks = .ok (keptList c2 evs) ∧
      findNumbers (atZero c1) toks = .ok (nums evs) ∧
      (keptList c1 evs).Sublist (nums evs) ∧ (keptList c2 evs).Sublist (nums evs) := by
  obtain ⟨evs, h1⟩ := events_ok c1 toks
  have h2 : events c2 toks = .ok evs := by rw [← events_thr c1 c2 hl hc hs]; exact h1
  have h0 : events (atZero c1) toks = .ok evs := by
    rw [events_thr (atZero c1) c1 rfl rfl rfl]; exact h1
  refine ⟨evs, h1, h2, C09_policy_exact c1 toks evs h1, C09_policy_exact c2 toks evs h2, ?_,
    keptList_sublist c1 evs, keptList_sublist c2 evs⟩
  rw [C09_policy_exact (atZero c1) toks evs h0, keptList_all (atZero c1) (fun _ => rfl)]

/-- a number that is not small is reported whatever surrounds it -/
theorem C09_not_small_kept (cfg : ScanCfg) (evs : List Ev) (i : Nat) (o : Occ) (h : evs[i]? = some (.num o))
    (hs : smallEv cfg o = false) : keptAt cfg evs i = true :=
  keptAt_of_not_small h hs

/-- three numbers of the same kind in a row (no breaker between them) are all reported at every
threshold: `one, two, three` -/
theorem C09_sequence_kept (cfg : ScanCfg) (evs : List Ev) (i : Nat) (a b c : Occ)
    (ha : evs[i]? = some (.num a)) (hb : evs[i + 1]? = some (.num b)) (hc : evs[i + 2]? = some (.num c))
    (hab : a.isOrdinal = b.isOrdinal) (hbc : b.isOrdinal = c.isOrdinal) :
    keptAt cfg evs i = true ∧ keptAt cfg evs (i + 1) = true ∧ keptAt cfg evs (i + 2) = true :=
  ⟨(keptAt_pair ha hb hab).1, (keptAt_pair ha hb hab).2, (keptAt_pair (i := i + 1) hb hc hbc).2⟩

/-- with a threshold nothing is below, every recognised number is reported -/
theorem C09_zero_threshold_all (cfg : ScanCfg) (hz : ∀ n, cfg.thrLt n = false) (toks : List Tok) (evs : List Ev)
    (h : events cfg toks = .ok evs) : findNumbers cfg toks = .ok (nums evs) := by
  rw [C09_policy_exact cfg toks evs h, keptList_all cfg hz]

/-! a worked instance of the policy (threshold 10): `one two` is a sequence, `three` is isolated by the
breaker, `1st` is small and follows a number of the other kind, `21` is not small -/
def exCfg : ScanCfg :=
  ⟨⟨"x", fun _ b => (some .nan, b), fun _ b => (some .nan, b), fun _ => .none, fun _ => false, '.', fun _ => false⟩,
   ⟨fun c => c == ' ', Char.isAlpha, Char.isAlphanum, fun c => [c.toLower]⟩, fun _ _ => false, fun n => n < 10⟩

example :
    keptList exCfg
      [.num ⟨0, 1, ['1'], .dec [1] [], false⟩, .num ⟨1, 2, ['2'], .dec [2] [], false⟩, .brk,
       .num ⟨3, 4, ['3'], .dec [3] [], false⟩, .num ⟨4, 5, ['1', 's', 't'], .dec [1] [], true⟩, .brk,
       .num ⟨6, 8, ['2', '1'], .dec [2, 1] [], false⟩] =
      [⟨0, 1, ['1'], .dec [1] [], false⟩, ⟨1, 2, ['2'], .dec [2] [], false⟩,
       ⟨6, 8, ['2', '1'], .dec [2, 1] [], false⟩] := by decide

end T2N.C09
