/-
  C09 — lone-number policy: the threshold only ever hides small isolated numbers.
-/
import T2N.Lemmas.Scanner
import T2N.Lemmas.Thr

namespace T2N.C09
open T2N

/-- a number that is not "small" (`forget = false`) is enqueued at once, whatever the tracker state:
multi-digit cardinals, decimals and fractions are rewritten at every threshold -/
theorem C09_big_always (t : Tracker) (isOrd : Bool) (text : Word) (v : Value) :
    ∃ pre, (t.numberEnd isOrd text v false).queue = pre ++ [⟨t.mstart, t.mend, text, v, isOrd⟩] ∧
      (t.numberEnd isOrd text v false).onHold = none := by
  unfold Tracker.numberEnd
  dsimp only
  generalize (if isOrd = true then Kind.ordinal else Kind.cardinal) = kind
  by_cases hc : (t.last == kind) = true
  · rw [if_pos hc]; exact ⟨_, rfl, by first | rfl | trivial⟩
  · rw [if_neg hc]
    simp only [Bool.false_eq_true, if_false]
    exact ⟨_, rfl, by first | rfl | trivial⟩

/-- `small` needs an integer value: decimals and the Spanish fraction are never small -/
theorem C09_decimal_never_small (cfg : ScanCfg) (i d : List Nat) (hd : d ≠ []) :
    cfg.small (.dec i d) = false := by
  cases d with
  | nil => exact absurd rfl hd
  | cons x xs => rfl

theorem C09_fraction_never_small (cfg : ScanCfg) (i : List Nat) : cfg.small (.recip i) = false := rfl

/-- a threshold that no natural number is below (0, negative, NaN, −∞) makes nothing small -/
theorem C09_zero_threshold (cfg : ScanCfg) (h : ∀ n, cfg.thrLt n = false) (v : Value) : cfg.small v = false := by
  cases v with
  | dec i f => cases f with
    | nil => exact h _
    | cons x xs => rfl
  | recip i => rfl

/-- raising the threshold only makes more numbers small (monotonicity of the test itself) -/
theorem C09_small_monotone (c1 c2 : ScanCfg) (h : ∀ n, c1.thrLt n = true → c2.thrLt n = true) (v : Value)
    (hs : c1.small v = true) : c2.small v = true := by
  cases v with
  | dec i f => cases f with
    | nil => exact h _ hs
    | cons x xs => cases hs
  | recip i => cases hs

/-- a small number next to a number of the same kind (no breaker in between: `last = kind`) is released
together with the held one: sequences such as `one, two, three` are always rewritten -/
theorem C09_sequence_released (t : Tracker) (isOrd : Bool) (text : Word) (v : Value) (forget : Bool)
    (h : t.last = (if isOrd then Kind.ordinal else Kind.cardinal)) :
    (t.numberEnd isOrd text v forget).queue =
      t.queue ++ t.onHold.toList ++ [⟨t.mstart, t.mend, text, v, isOrd⟩] ∧
    (t.numberEnd isOrd text v forget).onHold = none := by
  unfold Tracker.numberEnd
  dsimp only
  rw [h]
  simp only [beq_self_eq_true, if_true]
  cases t.onHold <;> exact ⟨by first | rfl | simp, by first | rfl | trivial⟩

/-- after a breaker a small number is held back, and a held number is dropped by the next number of a
different kind or after a breaker — it can only ever be released by `C09_sequence_released` -/
theorem C09_isolated_held (t : Tracker) (isOrd : Bool) (text : Word) (v : Value)
    (h : t.last ≠ (if isOrd then Kind.ordinal else Kind.cardinal)) :
    (t.numberEnd isOrd text v true).queue = t.queue ∧
    (t.numberEnd isOrd text v true).onHold = some ⟨t.mstart, t.mend, text, v, isOrd⟩ := by
  unfold Tracker.numberEnd
  dsimp only
  have : (t.last == (if isOrd = true then Kind.ordinal else Kind.cardinal)) = false := by
    simpa using h
  rw [this]
  simp

/-! ### end to end: the set of numbers recognised does not depend on the threshold; the threshold only
decides which are reported -/

/-- **C09 (monotone)**: raising the threshold never adds a rewrite — for every stream, hints, language:
`occ(t₂) ⊑ occ(t₁)` (sub-list: same occurrences in the same order, some left out) whenever every value
below `t₁` is below `t₂`. -/
theorem C09_monotone (c1 c2 : ScanCfg) (h : ThrLe c1 c2) (toks : List Tok) :
    ∃ o1 o2, findNumbers c1 toks = .ok o1 ∧ findNumbers c2 toks = .ok o2 ∧ o2.Sublist o1 := by
  obtain ⟨o1, h1, _⟩ := findNumbers_ok c1 toks
  obtain ⟨o2, h2, _⟩ := findNumbers_ok c2 toks
  exact ⟨o1, o2, h1, h2, findNumbers_thr_sublist h toks o1 o2 h1 h2⟩

/-- the configuration with a threshold nothing is below (0, negative, NaN, −∞) -/
def atZero (c : ScanCfg) : ScanCfg := { c with thrLt := fun _ => false }

/-- **C09 (subset of threshold 0)**: at any threshold, what is reported is a sub-list of what is
reported at threshold 0: the threshold never changes *which* numbers are recognised, their spans,
digits or values — it only hides some. -/
theorem C09_subset_of_zero (c : ScanCfg) (toks : List Tok) :
    ∃ o0 ot, findNumbers (atZero c) toks = .ok o0 ∧ findNumbers c toks = .ok ot ∧ ot.Sublist o0 :=
  C09_monotone (atZero c) c ⟨rfl, rfl, rfl, fun _ h => by cases h⟩ toks

/-- **C09 (threshold ≤ 0 or NaN rewrites everything)**: any two thresholds that no natural number is
below give the same result -/
theorem C09_zero_all (c1 c2 : ScanCfg) (hl : c1.lang = c2.lang) (hc : c1.cc = c2.cc) (hs : c1.sep = c2.sep)
    (h1 : ∀ n, c1.thrLt n = false) (h2 : ∀ n, c2.thrLt n = false) (toks : List Tok) :
    findNumbers c1 toks = findNumbers c2 toks := by
  have : c1 = c2 := by
    cases c1; cases c2
    simp only at hl hc hs h1 h2
    subst hl hc hs
    congr
    funext n
    rw [h1, h2]
  rw [this]

/-! non-vacuity: `ThrLe` relates e.g. thresholds 5 and 10 -/
example (c : ScanCfg) : ThrLe { c with thrLt := fun n => n < 5 } { c with thrLt := fun n => n < 10 } :=
  ⟨rfl, rfl, rfl, fun n h => by simp at h ⊢; omega⟩

end T2N.C09
