/-
  C06 (remaining clauses) — the text, value, ordinal flag and edges of every reported occurrence, for
  every token stream (any hints), any character classes, separation relation and threshold, and each of
  the seven built-in interpreters.

  "… each span begins and ends on a word token. Its text is a well-formed base-10 numeral (digits,
  optionally one decimal mark and more digits, optionally the language's ordinal marker, or the Spanish
  '1/n' fraction form); its value equals the numeric reading of that text (exact digits kept even when
  the value exceeds float precision); and it is flagged ordinal exactly when its text carries an ordinal
  marker."

  Vocabulary (T2N/Lemmas/WellFormed.lean, namespace `T2N.WellFormed`):
  * `ordMks l` — the ordinal markers of language `l` (en: th ths st nd rd rds; fr: ème èmes er ers ère ères;
    es: .ᵉʳ º ᵒˢ ª ᵃˢ; pt: º ᵒˢ ª ᵃˢ; it: º ª; de: "."; nl: "e"), `ordSuffixes l` their strings;
  * `isNumeral l t` — the grammar: one or more ASCII digits, then nothing, or one ordinal marker string of
    `l`, or the decimal mark of `l` and one or more digits; or, for Spanish only, `1/` and one or more digits.
    (The grammar is the strict one: a decimal part and an ordinal marker never occur together.)
  * `readText l t` — the reading of such a text as the model's exact `Value` (digit lists);
  * `hasOrdMarker l t` — `t` ends with one of the ordinal marker strings of `l`.

  The proofs go through an invariant of the builders (`BInv`: every stored digit is `< 10`, the marker is
  one of the language's own; shown for every instruction, the compound merge and the seven `apply` /
  `apply_decimal` functions: `langWF_all`), an invariant of the parser (`PI`: decimal mode is only entered
  on a number without marker), and the shape of what `string_and_value` then produces (`Shaped`).
-/
import T2N.Props.C06
import T2N.Props.C07
import T2N.Lemmas.WellFormed

namespace T2N.C06
open T2N T2N.WellFormed

/-- the shape of every reported occurrence (integer / ordinal / Spanish fraction / decimal) -/
theorem C06_shaped (cfg : ScanCfg) (hl : cfg.lang ∈ allLangs) (toks : List Tok) (occs : List Occ)
    (h : findNumbers cfg toks = .ok occs) (o : Occ) (ho : o ∈ occs) :
    Shaped cfg.lang o.text o.value o.isOrdinal :=
  findNumbers_shaped cfg (langWF_all cfg.lang hl) toks occs h o ho

/-- **C06 (text)**: the text of every reported occurrence is a well-formed numeral of the language. -/
theorem C06_text_numeral (cfg : ScanCfg) (hl : cfg.lang ∈ allLangs) (toks : List Tok) (occs : List Occ)
    (h : findNumbers cfg toks = .ok occs) (o : Occ) (ho : o ∈ occs) :
    isNumeral cfg.lang o.text = true :=
  shaped_isNumeral cfg.lang (langWF_all cfg.lang hl).mark_not_digit _ _ _ (C06_shaped cfg hl toks occs h o ho)

/-- **C06 (value)**: the value of every reported occurrence is the numeric reading of its text, digit
for digit (leading zeroes and all decimals included, whatever their number). -/
theorem C06_value_reads_text (cfg : ScanCfg) (hl : cfg.lang ∈ allLangs) (toks : List Tok) (occs : List Occ)
    (h : findNumbers cfg toks = .ok occs) (o : Occ) (ho : o ∈ occs) :
    readText cfg.lang o.text = some o.value :=
  shaped_readText cfg.lang (langWF_all cfg.lang hl).mark_not_digit (langWF_all cfg.lang hl).mark_not_slash
    _ _ _ (C06_shaped cfg hl toks occs h o ho)

/-- **C06 (ordinal flag)**: an occurrence is flagged ordinal exactly when its text ends with one of the
ordinal marker strings of the language. (The Spanish fraction form `1/n` carries no marker and is not
flagged; no caveat is needed.) -/
theorem C06_ordinal_iff_marker (cfg : ScanCfg) (hl : cfg.lang ∈ allLangs) (toks : List Tok) (occs : List Occ)
    (h : findNumbers cfg toks = .ok occs) (o : Occ) (ho : o ∈ occs) :
    o.isOrdinal = true ↔ hasOrdMarker cfg.lang o.text = true :=
  shaped_ordinal_iff cfg.lang _ _ _ (C06_shaped cfg hl toks occs h o ho)

/-- an occurrence with decimals is never flagged ordinal (and its text carries no marker) -/
theorem C06_decimal_not_ordinal (cfg : ScanCfg) (hl : cfg.lang ∈ allLangs) (toks : List Tok) (occs : List Occ)
    (h : findNumbers cfg toks = .ok occs) (o : Occ) (ho : o ∈ occs) (hd : o.isDecimal) :
    o.isOrdinal = false ∧ hasOrdMarker cfg.lang o.text = false := by
  obtain ⟨i, f, hv, hf⟩ := hd
  have hs := C06_shaped cfg hl toks occs h o ho
  have hiff := shaped_ordinal_iff cfg.lang _ _ _ hs
  rw [hv] at hs
  have hord := shaped_decimal_not_ordinal cfg.lang _ i f _ hs hf
  refine ⟨hord, ?_⟩
  cases hm : hasOrdMarker cfg.lang o.text with
  | false => rfl
  | true => rw [hiff.mpr hm] at hord; cases hord

/-- **C06 (edges)**: every reported span begins and ends on a word token: the tokens at `start` and at
`stop - 1` exist, are not skipped tokens (white space, `-`), are not set aside (`nan`); the fresh
builder accepts the word of the first one; the word of the last one was accepted (by `apply`, or by
`apply_decimal` when the occurrence has decimals) by the builder it met. -/
theorem C06_span_on_words (cfg : ScanCfg) (hl : cfg.lang ∈ allLangs) (toks : List Tok) (occs : List Occ)
    (h : findNumbers cfg toks = .ok occs) (o : Occ) (ho : o ∈ occs) :
    ∃ first last, toks[o.start]? = some first ∧ toks[o.stop - 1]? = some last ∧
      Scanner.isSkipped cfg first = false ∧ first.nan = false ∧
      (cfg.lang.apply first.lower DS.new).1 = none ∧
      Scanner.isSkipped cfg last = false ∧ last.nan = false ∧
      ∃ b, (cfg.lang.apply last.lower b).1 = none ∨ (cfg.lang.applyDecimal last.lower b).1 = none := by
  have hla := C07.C07_langAgree_all cfg.lang hl
  obtain ⟨⟨t1, h1, a1, a2, a3⟩, ⟨t2, h2, b1, b2, b3⟩⟩ :=
    findNumbers_edges cfg hla (commaDec_builtin cfg.lang hl hla) toks occs h o ho
  exact ⟨t1, t2, h1, h2, a1, a2, a3, b1, b2, b3⟩

/-- **C06 (last word, sharper)**: for an occurrence without decimals, the last token of the span is a
word token and its word is accepted (`Ok`, not `Incomplete`) by exactly the builder that the preceding
words of the span produce from the fresh one. -/
theorem C06_span_last_word (cfg : ScanCfg) (hl : cfg.lang ∈ allLangs) (toks : List Tok) (occs : List Occ)
    (h : findNumbers cfg toks = .ok occs) (o : Occ) (ho : o ∈ occs) :
    o.isDecimal ∨ ∃ last, toks[o.stop - 1]? = some last ∧ Scanner.isSkipped cfg last = false ∧
      (cfg.lang.apply last.lower
        (foldApply cfg.lang.apply (spanWords cfg toks o.start (o.stop - 1)) DS.new)).1 = none := by
  have hla := C07.C07_langAgree_all cfg.lang hl
  obtain ⟨_, last, _, h2, _, _, _, b1, _, _⟩ := C06_span_on_words cfg hl toks occs h o ho
  have hlt := C06_strict cfg hla.langOk toks occs h o ho
  have hstop : o.stop - 1 + 1 = o.stop := by omega
  have hsplit : spanWords cfg toks o.start o.stop =
      spanWords cfg toks o.start (o.stop - 1) ++ [last.lower] := by
    rw [spanWords_split cfg toks o.start (o.stop - 1) o.stop (by omega) (by omega)]
    congr 1
    unfold spanWords
    have := slice_single toks (o.stop - 1) last h2
    rw [hstop] at this
    rw [this]
    simp [wordsOf, b1]
  rcases C07.C07_span_last_word_accepted cfg hla toks occs h o ho _ _ hsplit with hd | hacc
  · exact Or.inl hd
  · exact Or.inr ⟨last, h2, b1, hacc⟩

/-! ### the markers are the ones the interpreters produce -/

/-- every marker in the table of a language is produced by that language's `get_morph_marker` for some
word (the tables are not larger than necessary), checked on witnesses -/
example : [w!"fourth", w!"fourths", w!"first", w!"second", w!"third", w!"thirds"].map En.morph =
    (ordMks En.lang).map .ordinal := by decide
example : [w!"unième", w!"unièmes", w!"premier", w!"premiers", w!"première", w!"premières"].map Fr.morph =
    (ordMks Fr.lang).map .ordinal := by decide
example : [w!"primer", w!"quinto", w!"quintos", w!"quinta", w!"quintas"].map Es.morph =
    (ordMks Es.lang).map .ordinal := by decide
example : [w!"quinto", w!"quintos", w!"quinta", w!"quintas"].map Pt.morph = (ordMks Pt.lang).map .ordinal := by
  decide
example : [w!"quinto", w!"quinta"].map It.morph = (ordMks It.lang).map .ordinal := by decide
example : [w!"dritte"].map De.morph = (ordMks De.lang).map .ordinal := by decide
example : [w!"derde"].map Nl.morph = (ordMks Nl.lang).map .ordinal := by decide
example : Es.morph w!"doceavo" = .fraction .avo ∧ allowsFraction Es.lang = true := by decide

/-! ### non-vacuity: concrete streams

For each occurrence: span, text, `isNumeral`, `readText = value`, ordinal flag, `hasOrdMarker`. -/

namespace FullEx

structure Row where
  start : Nat
  stop : Nat
  text : Word
  numeral : Bool      -- `isNumeral l text`
  reads : Bool        -- `readText l text = some value`
  ordinal : Bool      -- the flag of the occurrence
  marker : Bool       -- `hasOrdMarker l text`
  deriving DecidableEq, Repr

def report (l : Lang) (ws : List Word) : Option (List Row) :=
  (findNumbers (scanCfg l zeroThr) (wordTokens ws)).toOption.map fun os => os.map fun o =>
    ⟨o.start, o.stop, o.text, isNumeral l o.text, readText l o.text == some o.value, o.isOrdinal,
      hasOrdMarker l o.text⟩

/-- English: an integer, a decimal, an ordinal compound, leading zeroes -/
def exEn : List Word := [w!"one", w!"hundred", w!"and", w!"foo", w!"two", w!"point", w!"five", w!"bar",
  w!"twenty-third", w!"zero", w!"zero", w!"seven"]

example : report En.lang exEn = some [
    ⟨0, 3, w!"100", true, true, false, false⟩, ⟨8, 13, w!"2.5", true, true, false, false⟩,
    ⟨16, 17, w!"23rd", true, true, true, true⟩, ⟨18, 23, w!"007", true, true, false, false⟩] := by
  decide +kernel

/-- Spanish: the fraction form, the `.ᵉʳ` marker, a decimal with `,`, a feminine ordinal -/
def exEs : List Word := [w!"un", w!"doceavo", w!"y", w!"primer", w!"dos", w!"coma", w!"cinco", w!"segunda"]

example : report Es.lang exEs = some [
    ⟨0, 1, w!"1", true, true, false, false⟩, ⟨2, 3, w!"1/12", true, true, false, false⟩,
    ⟨6, 7, w!"1.ᵉʳ", true, true, true, true⟩, ⟨8, 13, w!"2,5", true, true, false, false⟩,
    ⟨14, 15, w!"2ª", true, true, true, true⟩] := by
  decide +kernel

/-- German: the ordinal marker is `"."`, the decimal mark `","` -/
example : report De.lang [w!"dritte", w!"foo", w!"zwei", w!"komma", w!"fünf", w!"null"] = some [
    ⟨0, 1, w!"3.", true, true, true, true⟩, ⟨4, 11, w!"2,50", true, true, false, false⟩] := by
  decide +kernel

/-- French, Italian, Portuguese, Dutch ordinals; in French an ordinal word in decimal position loses its
marker (`deux virgule troisième` reads `2,3`, not flagged) -/
example : report Fr.lang [w!"vingt-et-unième", w!"foo", w!"deux", w!"virgule", w!"troisième"] = some [
    ⟨0, 1, w!"21ème", true, true, true, true⟩, ⟨4, 9, w!"2,3", true, true, false, false⟩] := by
  decide +kernel
example : report It.lang [w!"ventitreesimo", w!"prima"] = some [
    ⟨0, 1, w!"23º", true, true, true, true⟩, ⟨2, 3, w!"1ª", true, true, true, true⟩] := by
  decide +kernel
example : report Pt.lang [w!"terceira", w!"segundos"] = some [
    ⟨0, 1, w!"3ª", true, true, true, true⟩, ⟨2, 3, w!"2ᵒˢ", true, true, true, true⟩] := by
  decide +kernel
example : report Nl.lang [w!"derde", w!"twintigste"] = some [
    ⟨0, 1, w!"3e", true, true, true, true⟩, ⟨2, 3, w!"20e", true, true, true, true⟩] := by
  decide +kernel

/-- exact digits beyond float precision: 18 decimals are kept digit for digit -/
def exLong : List Word := [w!"one", w!"point", w!"one", w!"two", w!"three", w!"four", w!"five", w!"six",
  w!"seven", w!"eight", w!"nine", w!"one", w!"two", w!"three", w!"four", w!"five", w!"six", w!"seven",
  w!"eight", w!"nine"]

example : (findNumbers (scanCfg En.lang zeroThr) (wordTokens exLong)).toOption.map
    (fun os => os.map fun o => (o.text, o.value, readText En.lang o.text)) =
    some [(w!"1.123456789123456789", .dec [1] [1,2,3,4,5,6,7,8,9,1,2,3,4,5,6,7,8,9],
      some (.dec [1] [1,2,3,4,5,6,7,8,9,1,2,3,4,5,6,7,8,9]))] := by
  decide +kernel

/-- the grammar is not trivially true, and depends on the language -/
example : [isNumeral En.lang w!"12x", isNumeral En.lang [], isNumeral En.lang w!"th", isNumeral En.lang w!"1/12",
    isNumeral Es.lang w!"1/12", isNumeral Es.lang w!"2/12", isNumeral De.lang w!"3.", isNumeral En.lang w!"3.",
    isNumeral En.lang w!"3.5", isNumeral De.lang w!"3.5", isNumeral De.lang w!"3,5", isNumeral En.lang w!"3.5th"] =
    [false, false, false, false, true, false, true, false, true, false, true, false] := by
  decide +kernel

theorem ok_of_toOption {α} {x : Except Fault α} {a : α} (h : x.toOption = some a) : x = .ok a := by
  cases x with
  | error f => cases h
  | ok b => simp only [Except.toOption] at h; cases h; rfl

def exEnOccs : List Occ := [⟨0, 3, w!"100", .dec [1,0,0] [], false⟩, ⟨8, 13, w!"2.5", .dec [2] [5], false⟩,
  ⟨16, 17, w!"23rd", .dec [2,3] [], true⟩, ⟨18, 23, w!"007", .dec [0,0,7] [], false⟩]

theorem exEn_found : findNumbers (scanCfg En.lang zeroThr) (wordTokens exEn) = .ok exEnOccs :=
  ok_of_toOption (by decide +kernel)

/-- the theorems applied to a concrete stream (the hypotheses are satisfiable) -/
example : ∀ o ∈ exEnOccs, isNumeral En.lang o.text = true ∧ readText En.lang o.text = some o.value ∧
    (o.isOrdinal = true ↔ hasOrdMarker En.lang o.text = true) := by
  have hl : (scanCfg En.lang zeroThr).lang ∈ allLangs := List.mem_cons_self ..
  intro o ho
  exact ⟨C06_text_numeral _ hl _ _ exEn_found o ho, C06_value_reads_text _ hl _ _ exEn_found o ho,
    C06_ordinal_iff_marker _ hl _ _ exEn_found o ho⟩

/-- the edges of the spans of `exEn`: `one … hundred` (the `and` stays outside), `two … five`,
`twenty-third`, `zero … seven` -/
example : ([0, 8, 16, 18].map fun i => (wordTokens exEn)[i]?.map (·.lower),
           [2, 12, 16, 22].map fun i => (wordTokens exEn)[i]?.map (·.lower)) =
    ([some w!"one", some w!"two", some w!"twenty-third", some w!"zero"],
     [some w!"hundred", some w!"five", some w!"twenty-third", some w!"seven"]) := by
  decide +kernel

example : ∃ first last, (wordTokens exEn)[8]? = some first ∧ (wordTokens exEn)[13 - 1]? = some last ∧
      Scanner.isSkipped (scanCfg En.lang zeroThr) first = false ∧ first.nan = false ∧
      (En.lang.apply first.lower DS.new).1 = none ∧
      Scanner.isSkipped (scanCfg En.lang zeroThr) last = false ∧ last.nan = false ∧
      ∃ b, (En.lang.apply last.lower b).1 = none ∨ (En.lang.applyDecimal last.lower b).1 = none :=
  C06_span_on_words (scanCfg En.lang zeroThr) (List.mem_cons_self ..) _ _ exEn_found
    ⟨8, 13, w!"2.5", .dec [2] [5], false⟩ (by simp [exEnOccs])

/-- the sharper statement on the span `one hundred` of `exEn`: `hundred` is accepted by the builder that
`one` leaves -/
example : (⟨0, 3, w!"100", .dec [1,0,0] [], false⟩ : Occ).isDecimal ∨ ∃ last, (wordTokens exEn)[3 - 1]? = some last ∧
      Scanner.isSkipped (scanCfg En.lang zeroThr) last = false ∧
      (En.lang.apply last.lower (foldApply En.lang.apply
        (spanWords (scanCfg En.lang zeroThr) (wordTokens exEn) 0 (3 - 1)) DS.new)).1 = none :=
  C06_span_last_word (scanCfg En.lang zeroThr) (List.mem_cons_self ..) _ _ exEn_found
    ⟨0, 3, w!"100", .dec [1,0,0] [], false⟩ (by simp [exEnOccs])

end FullEx

end T2N.C06
