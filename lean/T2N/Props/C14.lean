/-
  C14 — interpreters are stateless, pure and shareable across threads.

  What a theorem can carry here: purity is built into a Lean function; threads and file descriptors
  are runtime. The part that is logic is modelled — an interpreter is a value without state, a call is
  (entry point, arguments), a session is a list of calls — and the rest is labelled partial: the
  harness shares ONE set of interpreters among 16 threads and requires every single answer to equal
  the answer of a fresh interpreter; the process's fd 1/2 must stay empty; `Send + Sync` is asserted
  at compile time. (DESIGN.md §3 C14.)
-/
import T2N.Model.Api

namespace T2N.C14
open T2N

/-- the calls of the public API -/
inductive Call where
  | validate (l : Language) (s : Word)
  | rewrite (l : Language) (thr : Nat → Bool) (s : Word)
  | find (l : Language) (thr : Nat → Bool) (toks : List Tok)
  | lookup (code : Word)

inductive Result where
  | validated (r : ValOut)
  | rewritten (r : Except Fault Word)
  | found (r : Except Fault (List Occ))
  | looked (r : Option Language)

/-- the answer to one call: a function of the call alone — an interpreter carries no state -/
def answer (cc : CharClasses) : Call → Result
  | .validate l s => .validated (text2digits cc l.interp s)
  | .rewrite l thr s => .rewritten (replaceText cc l thr s)
  | .find l thr toks => .found (findNumbers { lang := l.interp, cc := cc, sep := noSep, thrLt := thr } toks)
  | .lookup c => .looked (getInterpreterFor c)

/-- a session on one shared interpreter: the model has no interpreter state to thread through -/
def session (cc : CharClasses) (calls : List Call) : List Result := calls.map (answer cc)

/-- the result of a call does not depend on which calls were made before -/
theorem C14_history_indep (cc : CharClasses) (h₁ h₂ : List Call) (c : Call) :
    (session cc (h₁ ++ [c])).getLast? = (session cc (h₂ ++ [c])).getLast? ∧
    (session cc (h₁ ++ [c])).getLast? = some (answer cc c) := by
  simp [session]

/-- any interleaving of the calls of several threads gives each call the answer it has alone:
`σ` is an arbitrary schedule (list of (thread, call)); the result attached to each scheduled call is
`answer` of that call, whatever was scheduled around it. -/
theorem C14_interleaving (cc : CharClasses) (σ : List (Nat × Call)) (t : Nat) :
    ((σ.map (fun p => (p.1, answer cc p.2))).filter (fun p => p.1 == t)).map (·.2) =
    session cc ((σ.filter (fun p => p.1 == t)).map (·.2)) := by
  induction σ with
  | nil => rfl
  | cons p σ ih =>
    simp only [List.map_cons, List.filter_cons]
    by_cases hp : (p.1 == t) = true
    · simp only [hp, if_true, List.map_cons, session] at ih ⊢
      rw [ih]
    · simp only [hp, Bool.false_eq_true, if_false] at ih ⊢
      exact ih

/-- replacing the shared interpreter by a fresh one at any point of a session changes no answer:
a session is the concatenation of the sessions of its two halves -/
theorem C14_fresh_at_any_point (cc : CharClasses) (a b : List Call) :
    session cc (a ++ b) = session cc a ++ session cc b := by
  simp [session]

/-- repeating a call any number of times gives the same answer every time (no warm-up, no cache effect) -/
theorem C14_repeat (cc : CharClasses) (c : Call) (n : Nat) :
    session cc (List.replicate n c) = List.replicate n (answer cc c) := by
  simp [session]

/-- the i-th answer of a session is the answer of the i-th call alone -/
theorem C14_pointwise (cc : CharClasses) (calls : List Call) (i : Nat) :
    (session cc calls)[i]? = (calls[i]?).map (answer cc) := by
  simp [session]

/-- reordering the calls reorders the answers the same way and changes none of them -/
theorem C14_reorder (cc : CharClasses) (a b : List Call) (h : a.Perm b) :
    (session cc a).Perm (session cc b) := h.map _

end T2N.C14
