/-
  C12 — Digit builder: always valid, failed steps change nothing, no digit is lost.

  Property theorems only (helper lemmas live in T2N/Lemmas). The model is `T2N.DS` (T2N/Model/DS.lean),
  tied to `src/digit_string.rs` by the S-ds correspondence stream.
-/
import T2N.Lemmas.DS

namespace T2N.C12
open T2N DS

/-- digit arguments are digits -/
def DigitsOk (ds : List Nat) : Prop := ∀ d ∈ ds, d < 10

def OpOk : Op → Prop
  | .put ds => DigitsOk ds
  | .putAt d _ => d < 10
  | .shift _ => True
  | .fput ds => DigitsOk ds
  | .push ds => DigitsOk ds
  | .freeze => True
  | .reset => True

/-- well-formedness of a builder: every stored digit is a decimal digit -/
def Wf (b : DS) : Prop := DigitsOk b.rbuf

def Mutating : Op → Prop
  | .put _ | .putAt _ _ | .shift _ | .fput _ | .push _ => True
  | .freeze | .reset => False

/-! ### 1. the rendering is always a string of digits whose length is the reported length -/

theorem digitsOk_append {a b : List Nat} (ha : DigitsOk a) (hb : DigitsOk b) : DigitsOk (a ++ b) := by
  intro d hd
  rcases List.mem_append.mp hd with h | h
  · exact ha d h
  · exact hb d h

theorem digitsOk_of_subset {a b : List Nat} (hb : DigitsOk b) (h : ∀ d ∈ a, d ∈ b) : DigitsOk a :=
  fun d hd => hb d (h d hd)

theorem digitsOk_replicate (n : Nat) : DigitsOk (List.replicate n 0) := by
  intro d hd
  have := List.eq_of_mem_replicate hd
  omega

theorem shiftSig_ok {low : List Nat} (h : DigitsOk low) : DigitsOk (shiftSig low) := by
  unfold shiftSig
  simp only
  split
  · intro d hd; simp at hd; omega
  · apply digitsOk_of_subset h
    intro d hd
    have hd' : d ∈ low.reverse.dropWhile (· == 0) := by simpa using hd
    have := (List.dropWhile_sublist (· == 0) (l := low.reverse)).subset hd'
    simpa using this

theorem shiftBuf_ok {r0 r : List Nat} {p : Nat} (h0 : DigitsOk r0) (h : shiftBuf r0 p = some r) :
    DigitsOk r := by
  unfold shiftBuf at h
  dsimp only at h
  split at h
  · cases h; exact digitsOk_append (digitsOk_replicate _) h0
  · split at h
    · cases h
      apply digitsOk_append (digitsOk_append (digitsOk_replicate _) _)
      · exact digitsOk_of_subset h0 (fun d hd => List.mem_of_mem_drop hd)
      · exact shiftSig_ok (digitsOk_of_subset h0 (fun d hd => List.mem_of_mem_take hd))
    · cases h

theorem step_wf (b : DS) (op : Op) (hb : Wf b) (hop : OpOk op) : Wf (b.step op).2 := by
  unfold Wf at *
  cases op with
  | put ds =>
    simp only [DS.step, DS.put]
    split <;> try exact hb
    split <;> try exact hb
    split <;> try exact hb
    split
    · exact digitsOk_of_subset hop (by intro d hd; simpa using hd)
    split <;> try exact hb
    split <;> try exact hb
    · apply digitsOk_append
      · exact digitsOk_of_subset hop (by intro d hd; simpa using hd)
      · exact digitsOk_of_subset hb (fun d hd => List.mem_of_mem_drop hd)
  | putAt d p =>
    simp only [DS.step, DS.putDigitAt]
    split <;> try exact hb
    split <;> try exact hb
    split
    · apply digitsOk_append (digitsOk_append hb (digitsOk_replicate _))
      intro x hx; simp at hx; subst hx; exact hop
    split <;> try exact hb
    · intro x hx
      rcases List.mem_or_eq_of_mem_set hx with h | h
      · exact hb x h
      · subst h; exact hop
  | shift p =>
    simp only [DS.step, DS.shift]
    split <;> try exact hb
    split <;> try exact hb
    have h0 : DigitsOk (if b.rbuf.isEmpty = true then [1] else b.rbuf) := by
      split
      · intro d hd; simp at hd; omega
      · exact hb
    split
    · rename_i r hr; exact shiftBuf_ok h0 hr
    · exact hb
  | fput ds =>
    simp only [DS.step, DS.fput]
    split <;> try exact hb
    apply digitsOk_append
    · exact digitsOk_of_subset hop (by intro d hd; simpa using hd)
    · exact digitsOk_of_subset hb (fun d hd => List.mem_of_mem_drop hd)
  | push ds =>
    simp only [DS.step, DS.push]
    split <;> try exact hb
    apply digitsOk_append
    · exact digitsOk_of_subset hop (by intro d hd; simpa using hd)
    · exact hb
  | freeze => exact hb
  | reset => intro d hd; simp [DS.step, DS.reset] at hd

/-- **C12 (validity), all finite operation sequences from `new`**: every stored digit is a decimal
digit, so the rendering is a string of ASCII digits, and its length is the reported length. -/
theorem C12_wf (ops : List Op) (hops : ∀ op ∈ ops, OpOk op) :
    (∀ d ∈ (DS.new.runOps ops).render, d < 10) ∧
    (DS.new.runOps ops).render.length = (DS.new.runOps ops).len := by
  have inv : ∀ (ops : List Op) (b : DS), Wf b → (∀ op ∈ ops, OpOk op) → Wf (b.runOps ops) := by
    intro ops
    induction ops with
    | nil => intro b hb _; exact hb
    | cons op ops ih =>
      intro b hb h
      simp only [DS.runOps, List.foldl_cons]
      exact ih _ (step_wf b op hb (h op (by simp))) (fun o ho => h o (by simp [ho]))
  have hw : Wf (DS.new.runOps ops) := inv ops DS.new (by intro d hd; simp [DS.new] at hd) hops
  constructor
  · intro d hd
    simp only [DS.render, List.mem_append, List.mem_replicate, List.mem_reverse] at hd
    rcases hd with h | h
    · omega
    · exact hw d h
  · simp [DS.render, DS.len]; omega

/-! ### 2. failure atomicity: an operation that reports an error leaves the builder unchanged -/

/-- **C12 (atomicity)** — for every builder state whatsoever and every operation. -/
theorem C12_atomic (b : DS) (op : Op) (e : Err) (h : (b.step op).1 = some e) : (b.step op).2 = b := by
  cases op with
  | put ds => simp only [DS.step] at *; unfold DS.put at *; repeat' (split <;> try simp_all)
  | putAt d p => simp only [DS.step] at *; unfold DS.putDigitAt at *; repeat' (split <;> try simp_all)
  | shift p => simp only [DS.step] at *; unfold DS.shift at *; repeat' (split <;> try simp_all)
  | fput ds => simp only [DS.step] at *; unfold DS.fput at *; repeat' (split <;> try simp_all)
  | push ds => simp only [DS.step] at *; unfold DS.push at *; repeat' (split <;> try simp_all)
  | freeze => simp [DS.step] at h
  | reset => simp [DS.step] at h

/-! ### 3. once frozen, every mutating operation is refused -/

theorem C12_frozen (b : DS) (op : Op) (hf : b.frozen = true) (hm : Mutating op) :
    b.step op = (some .frozen, b) := by
  cases op <;> simp_all [DS.step, DS.put, DS.putDigitAt, DS.shift, DS.fput, DS.push, Mutating]

/-! ### 4. value arithmetic of the successful operations -/

/-- the number written by a `put` argument (most significant first) -/
def argValue (ds : List Nat) : Nat := valueOf ds.reverse

/-- **put**: on success (other than the leading-zero case) the value grows by exactly the argument,
the target positions were free, and leading zeros / flags / marker are untouched. -/
theorem C12_put_value (b : DS) (ds : List Nat) (hok : (b.put ds).1 = none)
    (hz : ¬ (b.rbuf = [] ∧ ds = [0])) :
    (b.put ds).2.value = b.value + argValue ds ∧
    (b.rbuf = [] ∨ allZero (b.rbuf.take ds.length) = true) ∧
    (b.put ds).2.lz = b.lz := by
  unfold DS.put at hok ⊢
  by_cases hf : b.frozen = true
  · rw [if_pos hf] at hok; simp at hok
  rw [if_neg hf] at hok ⊢
  by_cases h0 : (b.rbuf.isEmpty && ds == [0]) = true
  · exfalso; apply hz; simpa using h0
  rw [if_neg h0] at hok ⊢
  by_cases hz2 : allZero ds = true
  · rw [if_pos hz2] at hok; simp at hok
  rw [if_neg hz2] at hok ⊢
  by_cases he : b.rbuf.isEmpty = true
  · rw [if_pos he]
    have hb : b.rbuf = [] := by simpa using he
    simp [hb, DS.value, argValue, valueOf]
  rw [if_neg he] at hok ⊢
  by_cases hl : b.rbuf.length < ds.length
  · rw [if_pos hl] at hok; simp at hok
  rw [if_neg hl] at hok ⊢
  by_cases hfree : allZero (b.rbuf.take ds.length) = true
  · rw [if_pos hfree]
    refine ⟨?_, Or.inr hfree, rfl⟩
    simp only [DS.value, argValue]
    rw [valueOf_append, valueOf_take_drop ds.length b.rbuf, valueOf_allZero hfree]
    have : (List.take ds.length b.rbuf).length = ds.length := by
      simp; omega
    simp [this]; omega
  · rw [if_neg hfree] at hok; simp at hok

/-- **put "0"**: accepted exactly when the value is still zero (empty buffer, not frozen); it is
counted and kept. -/
theorem C12_zero (b : DS) :
    ((b.put [0]).1 = none ↔ (b.frozen = false ∧ b.rbuf = [])) ∧
    ((b.put [0]).1 = none → (b.put [0]).2 = { b with lz := b.lz + 1 } ∧
       (b.put [0]).2.render = 0 :: b.render) := by
  unfold DS.put
  by_cases hf : b.frozen = true
  · simp [hf]
  · have hf' : b.frozen = false := by simpa using hf
    by_cases hb : b.rbuf = []
    · simp [hf', hb, DS.render, List.replicate_succ]
    · have : b.rbuf.isEmpty = false := by simpa using hb
      simp [hf', hb, this, allZero]

/-- **put_digit_at**: on success the value grows by `d·10^p`. -/
theorem C12_putAt_value (b : DS) (d p : Nat) (hok : (b.putDigitAt d p).1 = none) :
    (b.putDigitAt d p).2.value = b.value + d * 10 ^ p := by
  unfold DS.putDigitAt at hok ⊢
  by_cases hf : b.frozen = true
  · rw [if_pos hf] at hok; simp at hok
  rw [if_neg hf] at hok ⊢
  by_cases hd : (d == 0) = true
  · rw [if_pos hd] at hok; simp at hok
  rw [if_neg hd] at hok ⊢
  by_cases hp : p ≥ b.rbuf.length
  · rw [if_pos hp]
    simp only [DS.value]
    rw [valueOf_append, valueOf_append, valueOf_replicate_zero]
    simp [valueOf]
    have : b.rbuf.length + (p - b.rbuf.length) = p := by omega
    rw [this, Nat.mul_comm]
  rw [if_neg hp] at hok ⊢
  by_cases h0 : (b.rbuf.getD p 0 == 0) = true
  · have hp' : p < b.rbuf.length := by omega
    rw [if_pos h0]
    simp only [DS.value]
    have hset : b.rbuf.set p d = b.rbuf.take p ++ d :: b.rbuf.drop (p + 1) := by
      rw [List.set_eq_take_append_cons_drop]; simp [hp']
    have hget : b.rbuf = b.rbuf.take p ++ 0 :: b.rbuf.drop (p + 1) := by
      have h1 : b.rbuf[p]'hp' = 0 := by
        have := h0
        simp [List.getD_eq_getElem?_getD, hp'] at this
        exact this
      conv => lhs; rw [← List.take_append_drop p b.rbuf, List.drop_eq_getElem_cons hp', h1]
    rw [hset]
    conv => rhs; rw [hget]
    rw [valueOf_append, valueOf_append]
    simp only [valueOf, List.length_take]
    have : min p b.rbuf.length = p := by omega
    rw [this, Nat.mul_add, Nat.mul_add]
    simp [Nat.mul_comm]; omega
  · rw [if_neg h0] at hok; simp at hok

/-- the `C12_shift_value` arithmetic on the raw buffer -/
theorem shiftBuf_value {r0 r : List Nat} {p : Nat} (h : shiftBuf r0 p = some r)
    (hcanon : r0.length ≤ p → valueOf r0 ≠ 0) :
    valueOf r + valueOf (r0.take p) =
      valueOf r0 + (if valueOf (r0.take p) = 0 then 1 else valueOf (r0.take p)) * 10 ^ p := by
  unfold shiftBuf at h
  dsimp only at h
  split at h
  · rename_i hl
    cases h
    have htake : r0.take p = r0 := List.take_of_length_le hl
    have hv := hcanon hl
    rw [htake, valueOf_append, valueOf_replicate_zero]
    simp only [hv, if_false, List.length_replicate, Nat.zero_add]
    rw [Nat.mul_comm (valueOf r0) (10 ^ p)]; omega
  · rename_i hl
    have hl' : p < r0.length := by omega
    split at h
    · rename_i hcond
      cases h
      simp only [Bool.and_eq_true, decide_eq_true_eq] at hcond
      obtain ⟨hlen, hmid⟩ := hcond
      generalize hlow : r0.take p = low at *
      generalize hk : (shiftSig low).length = k at *
      have hlowlen : low.length = p := by rw [← hlow]; simp; omega
      have hsplit : valueOf r0 = valueOf low + 10 ^ p * (valueOf ((r0.drop p).take k) +
          10 ^ k * valueOf (r0.drop (p + k))) := by
        rw [valueOf_take_drop p r0, hlow, hlowlen, valueOf_take_drop k (r0.drop p)]
        have : (List.take k (List.drop p r0)).length = k := by simp; omega
        rw [this, List.drop_drop]
      rw [hsplit, valueOf_allZero hmid]
      rw [valueOf_append, valueOf_append, valueOf_replicate_zero, shiftSig_value]
      have hlen2 : (List.replicate p 0 ++ shiftSig low).length = p + k := by simp [hk]
      rw [hlen2, Nat.pow_add]
      simp only [List.length_replicate, Nat.zero_add]
      generalize (if valueOf low = 0 then 1 else valueOf low) = g
      generalize valueOf (List.drop (p + k) r0) = R
      generalize valueOf low = L
      generalize 10 ^ p = A
      generalize 10 ^ k = B
      rw [Nat.mul_assoc, Nat.mul_comm g A]; omega
    · cases h

/-- **shift**: on success the rightmost `p`-digit group `g₀` (or an implicit 1 when that group is
zero or absent) is multiplied by `10^p`: `value' = value − g₀ + g·10^p`, stated without subtraction.
Hypothesis `hcanon`: a non-empty buffer not longer than `p` is non-zero (always true of buffers
built by `put`/`put_digit_at`/`shift`; an all-zero buffer can only be forced with `fput`/`push`). -/
theorem C12_shift_value (b : DS) (p : Nat) (hp : 0 < p) (hok : (b.shift p).1 = none)
    (hcanon : b.rbuf.length ≤ p → b.rbuf ≠ [] → valueOf b.rbuf ≠ 0) :
    (b.shift p).2.value + valueOf (b.rbuf.take p) =
      b.value + (if valueOf (b.rbuf.take p) = 0 then 1 else valueOf (b.rbuf.take p)) * 10 ^ p := by
  have hf := shift_not_frozen hok
  have hp' : p ≠ 0 := by omega
  rw [shift_eq b p hf hp'] at hok ⊢
  by_cases he : b.rbuf.isEmpty = true
  · have hemp : b.rbuf = [] := by simpa using he
    rw [if_pos he, shiftBuf_one p hp']
    simp [DS.value, hemp, valueOf, valueOf_append, valueOf_replicate_zero]
  · rw [if_neg he] at hok ⊢
    have hemp : b.rbuf ≠ [] := by simpa using he
    cases hsb : shiftBuf b.rbuf p with
    | none => rw [hsb] at hok; simp at hok
    | some r =>
      simp only [DS.value]
      exact shiftBuf_value hsb (fun hl => hcanon hl hemp)

/-! ### 5. no previously placed non-zero digit is lost by a successful place or shift -/

def nonZero (ds : List Nat) : List Nat := ds.filter (· != 0)

theorem nonZero_allZero {ds : List Nat} (h : allZero ds = true) : nonZero ds = [] := by
  simp only [nonZero, List.filter_eq_nil_iff]
  intro d hd
  have := (allZero_iff ds).mp h d hd
  simp [this]

theorem nonZero_sublist (ds : List Nat) : (nonZero ds).Sublist ds := List.filter_sublist

theorem nonZero_append (a b : List Nat) : nonZero (a ++ b) = nonZero a ++ nonZero b := by
  simp [nonZero]

theorem nonZero_stripHigh (low : List Nat) :
    nonZero ((low.reverse.dropWhile (· == 0)).reverse) = nonZero low := by
  have aux : ∀ r : List Nat, nonZero ((r.dropWhile (· == 0)).reverse) = nonZero r.reverse := by
    intro r
    induction r with
    | nil => rfl
    | cons a t ih =>
      simp only [List.dropWhile_cons, List.reverse_cons]
      by_cases ha : a = 0
      · subst ha
        simp only [beq_self_eq_true, if_true, ih, nonZero_append]
        simp [nonZero]
      · have : (a == 0) = false := by simpa using ha
        simp [this]
  simpa using aux low.reverse

/-- **digits kept (put)** -/
theorem C12_put_keeps (b : DS) (ds : List Nat) (hok : (b.put ds).1 = none) :
    (nonZero b.rbuf).Sublist (b.put ds).2.rbuf := by
  unfold DS.put at hok ⊢
  by_cases hf : b.frozen = true
  · rw [if_pos hf] at hok; simp at hok
  rw [if_neg hf] at hok ⊢
  by_cases h0 : (b.rbuf.isEmpty && ds == [0]) = true
  · rw [if_pos h0]; exact nonZero_sublist _
  rw [if_neg h0] at hok ⊢
  by_cases hz2 : allZero ds = true
  · rw [if_pos hz2] at hok; simp at hok
  rw [if_neg hz2] at hok ⊢
  by_cases he : b.rbuf.isEmpty = true
  · have hb : b.rbuf = [] := by simpa using he
    simp [hb, nonZero]
  rw [if_neg he] at hok ⊢
  by_cases hl : b.rbuf.length < ds.length
  · rw [if_pos hl] at hok; simp at hok
  rw [if_neg hl] at hok ⊢
  by_cases hfree : allZero (b.rbuf.take ds.length) = true
  · rw [if_pos hfree]
    have : nonZero b.rbuf = nonZero (b.rbuf.drop ds.length) := by
      conv => lhs; rw [← List.take_append_drop ds.length b.rbuf]
      rw [nonZero_append, nonZero_allZero hfree]; rfl
    rw [this]
    exact (nonZero_sublist _).trans (List.sublist_append_right _ _)
  · rw [if_neg hfree] at hok; simp at hok

theorem shiftBuf_keeps {r0 r : List Nat} {p : Nat} (h : shiftBuf r0 p = some r) :
    (nonZero r0).Sublist r := by
  unfold shiftBuf at h
  dsimp only at h
  split at h
  · cases h
    exact (nonZero_sublist _).trans (List.sublist_append_right _ _)
  · split at h
    · rename_i hcond
      cases h
      simp only [Bool.and_eq_true, decide_eq_true_eq] at hcond
      obtain ⟨hlen, hmid⟩ := hcond
      generalize hlow : r0.take p = low at *
      generalize hk : (shiftSig low).length = k at *
      have hdecomp : r0 = low ++ ((r0.drop p).take k ++ r0.drop (p + k)) := by
        rw [← hlow]
        conv => lhs; rw [← List.take_append_drop p r0, ← List.take_append_drop k (r0.drop p)]
        rw [List.drop_drop]
      have hnz : nonZero r0 = nonZero low ++ nonZero (r0.drop (p + k)) := by
        conv => lhs; rw [hdecomp]
        rw [nonZero_append, nonZero_append, nonZero_allZero hmid]; rfl
      have hsig : (nonZero low).Sublist (shiftSig low) := by
        unfold shiftSig
        simp only
        split
        · rename_i hs
          have hs' : (low.reverse.dropWhile (· == 0)).reverse = [] := by simpa using hs
          have := nonZero_stripHigh low
          rw [hs'] at this
          rw [← this]; simp [nonZero]
        · rw [← nonZero_stripHigh low]; exact nonZero_sublist _
      rw [hnz]
      have h1 : (nonZero low ++ nonZero (r0.drop (p + k))).Sublist
          (shiftSig low ++ r0.drop (p + k)) := List.Sublist.append hsig (nonZero_sublist _)
      have h2 : (shiftSig low ++ r0.drop (p + k)).Sublist
          (List.replicate p 0 ++ shiftSig low ++ r0.drop (p + k)) := by
        rw [List.append_assoc]; exact List.sublist_append_right _ _
      exact h1.trans h2
    · cases h

/-- **digits kept (shift)** -/
theorem C12_shift_keeps (b : DS) (p : Nat) (hok : (b.shift p).1 = none) :
    (nonZero b.rbuf).Sublist (b.shift p).2.rbuf := by
  have hf := shift_not_frozen hok
  by_cases hp' : p = 0
  · subst hp'
    simp only [DS.shift, hf, Bool.false_eq_true, if_false, beq_self_eq_true, if_true]
    exact nonZero_sublist _
  rw [shift_eq b p hf hp'] at hok ⊢
  by_cases he : b.rbuf.isEmpty = true
  · have hemp : b.rbuf = [] := by simpa using he
    simp [hemp, nonZero]
  · rw [if_neg he] at hok ⊢
    cases hsb : shiftBuf b.rbuf p with
    | none => rw [hsb] at hok; simp at hok
    | some r => exact shiftBuf_keeps hsb

/-! ### 6. no query or operation panics -/

/-- The model's operations and queries are total functions; the only `Except` is `is_range_free`,
whose `debug_assert!(start < end)` is the documented precondition. -/
theorem C12_total_rangeFree (b : DS) (s e : Nat) (h : s < e) :
    b.isRangeFree s e = .ok (b.rangeFree s e) := by
  unfold DS.isRangeFree DS.rangeFree
  simp only [h, if_true]
  split <;> rename_i h1
  · simp [h1]
  · have : decide (s ≥ b.rbuf.length) = false := by simpa using h1
    simp [this]

theorem C12_rangeFree_faults (b : DS) (s e : Nat) (h : ¬ s < e) :
    b.isRangeFree s e = .error .rangeAssert := by
  simp [DS.isRangeFree, h]

/-! ### non-vacuity: the hypotheses above are met by concrete, non-trivial builders -/

example : (DS.new.runOps [.put [5], .shift 2, .put [2, 1], .shift 3]).rbuf = [0, 0, 0, 1, 2, 5] := by decide
example : ((DS.new.runOps [.put [1, 0, 0, 0]]).shift 3).1 = some .overlap := by decide
example : ((DS.new.runOps [.put [5], .shift 2]).put [2, 1]).1 = none ∧
    ¬ ((DS.new.runOps [.put [5], .shift 2]).rbuf = [] ∧ [2, 1] = [0]) := by decide
example : ((DS.new.runOps [.put [2, 1]]).shift 3).1 = none := by decide
example : (({ rbuf := [0, 0, 5] } : DS).shift 2).1 = some .overlap := by decide

end T2N.C12
