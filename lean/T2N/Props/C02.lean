/-
  C02 — Rewriting is local: only number spans change, all other text is kept verbatim.
-/
import T2N.Model.Api

namespace T2N.C02
open T2N

/-! ### 1. the tokenizer is lossless: `concat(tokens(s)) = s`, for every text and every char classes -/

theorem tokenizeAux_flatten (cc : CharClasses) (b : Bool) (cur s : Word) :
    (tokenizeAux cc (some b) cur s).flatten = cur.reverse ++ s := by
  induction s generalizing b cur with
  | nil =>
    unfold tokenizeAux
    by_cases h : cur.isEmpty = true
    · have : cur = [] := by simpa using h
      simp [this]
    · simp [h]
  | cons c cs ih =>
    cases b with
    | true =>
      unfold tokenizeAux
      by_cases h : isWordChar cc c = true
      · rw [if_pos h, ih]; simp
      · rw [if_neg h]; simp [ih]
    | false =>
      unfold tokenizeAux
      by_cases h : cc.isAlphanumeric c = true
      · rw [if_pos h]; simp [ih]
      · rw [if_neg h, ih]; simp

/-- **C02 (lossless tokenization)**: the token texts concatenate to the input, for arbitrary text
(any Unicode scalar values) and arbitrary character classes. -/
theorem C02_tokenize_lossless (cc : CharClasses) (s : Word) :
    ((tokenize cc s).map (·.text)).flatten = s := by
  have h : (tokenizeWords cc s).flatten = s := by
    unfold tokenizeWords
    cases s with
    | nil => simp [tokenizeAux]
    | cons c cs => unfold tokenizeAux; rw [tokenizeAux_flatten]; simp
  simpa [tokenize, basicToken, Function.comp_def] using h

/-- no token is empty -/
theorem tokenizeAux_nonempty (cc : CharClasses) (b : Bool) (cur s : Word) (hc : cur ≠ []) :
    ∀ t ∈ tokenizeAux cc (some b) cur s, t ≠ [] := by
  induction s generalizing b cur with
  | nil =>
    unfold tokenizeAux
    have : cur.isEmpty = false := by simpa using hc
    simp [this]; simpa using hc
  | cons c cs ih =>
    cases b with
    | true =>
      unfold tokenizeAux
      by_cases h : isWordChar cc c = true
      · rw [if_pos h]; exact ih true (c :: cur) (by simp)
      · rw [if_neg h]
        intro t ht
        rcases List.mem_cons.mp ht with h1 | h1
        · subst h1; simpa using hc
        · exact ih false [c] (by simp) t h1
    | false =>
      unfold tokenizeAux
      by_cases h : cc.isAlphanumeric c = true
      · rw [if_pos h]
        intro t ht
        rcases List.mem_cons.mp ht with h1 | h1
        · subst h1; simpa using hc
        · exact ih true [c] (by simp) t h1
      · rw [if_neg h]; exact ih false (c :: cur) (by simp)

theorem C02_tokens_nonempty (cc : CharClasses) (s : Word) : ∀ t ∈ tokenize cc s, t.text ≠ [] := by
  intro t ht
  simp only [tokenize, List.mem_map] at ht
  obtain ⟨w, hw, rfl⟩ := ht
  simp only [basicToken]
  unfold tokenizeWords at hw
  cases s with
  | nil => simp [tokenizeAux] at hw
  | cons c cs =>
    unfold tokenizeAux at hw
    exact tokenizeAux_nonempty cc _ [c] cs (by simp) w hw

/-! ### 2. a text without any reported number is returned identical -/

theorem C02_no_number (cfg : ScanCfg) (annot : List Tok → List Tok) (s : Word)
    (hann : ∀ toks, (annot toks).map (·.text) = toks.map (·.text))
    (h : findNumbers cfg (annot (tokenize cfg.cc s)) = .ok []) :
    replaceTextWith cfg annot s = .ok s := by
  unfold replaceTextWith
  simp only [h, replaceStream, List.reverse_nil, replaceAll]
  have := C02_tokenize_lossless cfg.cc s
  rw [← hann] at this
  simpa [List.flatMap, Function.comp_def] using this

/-! ### 3. replacement = left-to-right splice of the reported spans -/

/-- the obvious specification: walk the tokens once, left to right -/
def splice {T} (mk : List T → Word → T) : Nat → List T → List Occ → List T
  | _, ts, [] => ts
  | pos, ts, o :: os =>
    ts.take (o.start - pos) ++
      [mk ((ts.drop (o.start - pos)).take (o.stop - o.start)) o.text] ++
      splice mk o.stop (ts.drop (o.stop - pos)) os

/-- spans are ordered, non-overlapping and inside `[pos, n)` -/
def SpansOk : Nat → Nat → List Occ → Prop
  | _, _, [] => True
  | pos, n, o :: os => pos ≤ o.start ∧ o.start ≤ o.stop ∧ o.stop ≤ n ∧ SpansOk o.stop n os

theorem replaceAll_append {T} (mk : List T → Word → T) (xs ys : List Occ) (ts : List T) :
    replaceAll mk (xs ++ ys) ts =
      match replaceAll mk xs ts with
      | .error f => .error f
      | .ok ts' => replaceAll mk ys ts' := by
  induction xs generalizing ts with
  | nil => simp [replaceAll]
  | cons x xs ih =>
    simp only [List.cons_append, replaceAll]
    cases replaceOne mk ts x with
    | error f => rfl
    | ok ts' => exact ih ts'

theorem take_add_drop_take {T} (ts : List T) (p q : Nat) (h : p ≤ q) :
    ts.take p ++ (ts.drop p).take (q - p) = ts.take q := by
  have : q = p + (q - p) := by omega
  conv => rhs; rw [this, List.take_add]

/-- the reverse-order `drain`+`insert` loop of `NumTracker::replace` computes the left-to-right splice,
and never hits a bad range, as soon as the spans are ordered, disjoint and in bounds -/
theorem replaceAll_reverse_eq_splice {T} (mk : List T → Word → T) (os : List Occ) :
    ∀ (p : Nat) (ts : List T), SpansOk p ts.length os →
      replaceAll mk os.reverse ts = .ok (ts.take p ++ splice mk p (ts.drop p) os) := by
  induction os with
  | nil => intro p ts _; simp [replaceAll, splice]
  | cons o os ih =>
    intro p ts h
    obtain ⟨h1, h2, h3, h4⟩ := h
    rw [List.reverse_cons, replaceAll_append, ih o.stop ts h4]
    simp only [replaceAll, replaceOne]
    have hlenA : (ts.take o.stop).length = o.stop := by simp; omega
    have hcond : (decide (o.start ≤ o.stop) &&
        decide (o.stop ≤ (List.take o.stop ts ++ splice mk o.stop (List.drop o.stop ts) os).length)) = true := by
      simp [h2]; omega
    rw [if_pos hcond]
    simp only [splice]
    congr 1
    -- the three pieces
    have e1 : (List.take o.stop ts ++ splice mk o.stop (List.drop o.stop ts) os).take o.start = ts.take o.start := by
      rw [List.take_append_of_le_length (by omega), List.take_take]
      congr 1; omega
    have e2 : ((List.take o.stop ts ++ splice mk o.stop (List.drop o.stop ts) os).drop o.start).take (o.stop - o.start)
        = (ts.drop o.start).take (o.stop - o.start) := by
      rw [List.drop_append_of_le_length (by omega), List.take_append_of_le_length (by simp; omega)]
      rw [List.drop_take]
      rw [List.take_take]
      congr 1; omega
    have e3 : (List.take o.stop ts ++ splice mk o.stop (List.drop o.stop ts) os).drop o.stop
        = splice mk o.stop (List.drop o.stop ts) os := by
      rw [List.drop_append_of_le_length (by omega)]
      have : (List.take o.stop ts).drop o.stop = [] := by
        apply List.drop_eq_nil_of_le; omega
      simp [this]
    rw [e1, e2, e3]
    have e4 : ts.take p ++ (ts.drop p).take (o.start - p) = ts.take o.start := take_add_drop_take ts p o.start h1
    have e5 : (ts.drop p).drop (o.start - p) = ts.drop o.start := by
      rw [List.drop_drop]; congr 1; omega
    have e6 : (ts.drop p).drop (o.stop - p) = ts.drop o.stop := by
      rw [List.drop_drop]; congr 1; omega
    rw [e5, e6, ← e4]
    simp [List.append_assoc]

/-- **C02 (replacement is a splice)**: for ordered, disjoint, in-bounds spans, `replace_numbers_in_stream`'s
reverse-order loop equals the left-to-right splice; every token outside a span is kept as is and in
order, every token inside a span is handed (once, in order) to the constructor of that span. -/
theorem C02_replace_is_splice {T} (mk : List T → Word → T) (toks : List T) (occs : List Occ)
    (h : SpansOk 0 toks.length occs) :
    replaceStream mk toks occs = .ok (splice mk 0 toks occs) := by
  have := replaceAll_reverse_eq_splice mk occs 0 toks h
  simpa [replaceStream] using this

/-- the splice partitions the input: kept tokens and the argument lists of the constructors,
concatenated in order, are exactly the input tokens -/
inductive Piece (T : Type) where
  | kept (t : T)
  | replaced (ts : List T) (text : Word)

def spliceTrace {T} : Nat → List T → List Occ → List (Piece T)
  | _, ts, [] => ts.map Piece.kept
  | pos, ts, o :: os =>
    (ts.take (o.start - pos)).map Piece.kept ++
      [Piece.replaced ((ts.drop (o.start - pos)).take (o.stop - o.start)) o.text] ++
      spliceTrace o.stop (ts.drop (o.stop - pos)) os

def Piece.tokens {T} : Piece T → List T
  | .kept t => [t]
  | .replaced ts _ => ts

theorem C02_tokens_partition {T} (os : List Occ) :
    ∀ (p : Nat) (ts : List T), SpansOk p (p + ts.length) os →
      ((spliceTrace p ts os).map Piece.tokens).flatten = ts := by
  induction os with
  | nil =>
    intro p ts hh
    simp only [spliceTrace, List.map_map]
    clear hh
    induction ts with
    | nil => rfl
    | cons t ts ih => simpa [Piece.tokens, Function.comp_def] using ih
  | cons o os ih =>
    intro p ts h
    obtain ⟨h1, h2, h3, h4⟩ := h
    simp only [spliceTrace, List.map_append, List.flatten_append, List.map_cons, List.map_nil,
      List.flatten_cons, List.flatten_nil, List.append_nil, Piece.tokens, List.map_map]
    have hk : ∀ l : List T, ((l.map (Piece.tokens ∘ Piece.kept))).flatten = l := by
      intro l
      induction l with
      | nil => rfl
      | cons t l ih => simpa [Piece.tokens, Function.comp_def] using ih
    rw [hk]
    have hlen : (ts.drop (o.stop - p)).length = ts.length - (o.stop - p) := by simp
    have h4' : SpansOk o.stop (o.stop + (ts.drop (o.stop - p)).length) os := by
      rw [hlen]
      have : o.stop + (ts.length - (o.stop - p)) = p + ts.length := by omega
      rw [this]; exact h4
    rw [ih o.stop _ h4']
    -- ts = take a ++ take (b-a) (drop a) ++ drop b
    have e : (ts.drop (o.start - p)).take (o.stop - o.start) ++ ts.drop (o.stop - p) = ts.drop (o.start - p) := by
      have : o.stop - p = (o.start - p) + (o.stop - o.start) := by omega
      rw [this, ← List.drop_drop, List.take_append_drop]
    rw [List.append_assoc, e, List.take_append_drop]

/-- the splice model really produces `mk`-tokens at the spans: it is the image of the trace -/
theorem splice_eq_trace {T} (mk : List T → Word → T) (os : List Occ) :
    ∀ (p : Nat) (ts : List T),
      splice mk p ts os = (spliceTrace p ts os).map (fun | .kept t => t | .replaced xs w => mk xs w) := by
  induction os with
  | nil => intro p ts; simp [splice, spliceTrace, Function.comp_def]
  | cons o os ih => intro p ts; simp [splice, spliceTrace, ih, Function.comp_def]

/-! non-vacuity: a concrete stream with two occurrences -/
example : SpansOk 0 5 [⟨1, 2, w!"5", .dec [5] [], false⟩, ⟨3, 5, w!"21", .dec [2, 1] [], false⟩] := by
  simp [SpansOk]
example : replaceStream (fun (_ : List Nat) w => w.length) [10, 11, 12, 13, 14]
    [⟨1, 2, w!"5", .dec [5] [], false⟩, ⟨3, 5, w!"21", .dec [2, 1] [], false⟩] = .ok [10, 1, 12, 2] := by
  rfl

end T2N.C02
