/-
  C06 — every reported occurrence is well-formed and self-consistent.

  Generic part (any language `L : Lang`, any token stream with any hints, any threshold, any char
  classes): spans are inside the stream, ordered and disjoint, for the batch search.
-/
import T2N.Lemmas.Scanner
import T2N.Props.C02
import T2N.Lemmas.Strict
import T2N.Lemmas.LangFacts

namespace T2N.C06
open T2N

/-- **C06 (spans)**: for every configuration and token stream the batch search returns, and its
occurrences are strictly ordered by position, pairwise disjoint, each with `start ≤ end`, all inside
the stream. -/
theorem C06_spans (cfg : ScanCfg) (toks : List Tok) :
    ∃ occs, findNumbers cfg toks = .ok occs ∧ OccsBelow occs toks.length :=
  findNumbers_ok cfg toks

/-- consequence in the form used by `replace`: the spans satisfy the precondition of the splice theorem -/
theorem occsBelow_spansOk {os : List Occ} {n : Nat} (h : OccsBelow os n) : ∀ p, (∀ o ∈ os, p ≤ o.start) →
    C02.SpansOk p n os := by
  induction os with
  | nil => intro _ _; trivial
  | cons o os ih =>
    intro p hp
    obtain ⟨h1, h2, h3, h4⟩ := h
    exact ⟨hp o (by simp), h1, h2, ih h4 o.stop h3⟩

theorem C06_spansOk (cfg : ScanCfg) (toks : List Tok) (occs : List Occ)
    (h : findNumbers cfg toks = .ok occs) : C02.SpansOk 0 toks.length occs := by
  obtain ⟨occs', h1, h2⟩ := findNumbers_ok cfg toks
  rw [h] at h1
  cases h1
  exact occsBelow_spansOk h2 0 (fun _ _ => Nat.zero_le _)

/-! ### text, value and ordinal flag are produced together from the same buffers -/

/-- the numeric reading of an occurrence text, as a specification: digits, optional mark + digits -/
def readsAs (mark : Char) (text : Word) (v : Value) (isOrd : Bool) : Prop :=
  (∃ ds : List Nat, ∃ m : Mk, text = ds.map digitChar ++ m.chars ∧ v = .dec ds [] ∧ isOrd = true) ∨
  (∃ ds : List Nat, text = ds.map digitChar ∧ v = .dec ds [] ∧ isOrd = false) ∨
  (∃ ds : List Nat, text = ['1', '/'] ++ ds.map digitChar ∧ v = .recip ds ∧ isOrd = false) ∨
  (∃ i d : List Nat, text = i.map digitChar ++ [mark] ++ d.map digitChar ∧ v = .dec i d)

/-- `format_and_value` yields a text whose numeric reading is the value returned with it, and the
ordinal marker appears in the text exactly when the builder's marker is ordinal. -/
theorem C06_format_consistent (l : Lang) (b : DS) (t : Word) (v : Value) (h : l.formatW b = .ok (t, v)) :
    readsAs l.decMark t v b.isOrdinal := by
  unfold Lang.formatW at h
  split at h
  · cases h
  · cases hm : b.marker with
    | none =>
      rw [hm] at h; cases h
      exact Or.inr (Or.inl ⟨b.render, rfl, rfl, by simp [DS.isOrdinal, hm, Marker.isOrdinal]⟩)
    | ordinal m =>
      rw [hm] at h; cases h
      exact Or.inl ⟨b.render, m, rfl, rfl, by simp [DS.isOrdinal, hm, Marker.isOrdinal]⟩
    | fraction m =>
      rw [hm] at h; cases h
      exact Or.inr (Or.inr (Or.inl ⟨b.render, rfl, rfl, by simp [DS.isOrdinal, hm, Marker.isOrdinal]⟩))

theorem C06_formatDecimal_consistent (l : Lang) (i d : DS) (t : Word) (v : Value)
    (h : l.formatDecimalW i d = .ok (t, v)) : readsAs l.decMark t v false := by
  unfold Lang.formatDecimalW at h
  split at h
  · cases h
  · cases h
    exact Or.inr (Or.inr (Or.inr ⟨i.render, d.render, rfl, rfl⟩))

/-! ### strict spans: every occurrence covers at least one token -/

theorem pushAll_strict (cfg : ScanCfg) (hl : LangOk cfg.lang) (toks : List Tok) :
    ∀ (s s' : Scanner) (pos : Nat), ScInv s pos → SInv s →
      Scanner.pushAll cfg s (enumFrom pos toks) = .ok s' → SInv s' ∧ ScInv s' (pos + toks.length) := by
  induction toks with
  | nil => intro s s' pos h1 h2 he; cases he; exact ⟨h2, h1⟩
  | cons t ts ih =>
    intro s s' pos h1 h2 he
    simp only [enumFrom, Scanner.pushAll] at he
    obtain ⟨s1, e1, i1⟩ := push_ok cfg s pos t h1
    rw [e1] at he
    have hs1 := push_strict cfg hl s s1 pos t h2 h1.2.1 e1
    obtain ⟨a, b⟩ := ih s1 s' (pos + 1) i1 hs1 he
    refine ⟨a, ?_⟩
    simpa [Nat.add_assoc, Nat.add_comm 1] using b

/-- **C06 (strict spans)**: for a language that satisfies `LangOk`, every reported occurrence has
`start < end` (it covers at least one token). -/
theorem C06_strict (cfg : ScanCfg) (hl : LangOk cfg.lang) (toks : List Tok) (occs : List Occ)
    (h : findNumbers cfg toks = .ok occs) : ∀ o ∈ occs, o.start < o.stop := by
  unfold findNumbers at h
  cases h1 : Scanner.pushAll cfg {} (enumFrom 0 toks) with
  | error f => rw [h1] at h; cases h
  | ok s1 =>
    rw [h1] at h
    dsimp only at h
    obtain ⟨hs, hi⟩ := pushAll_strict cfg hl toks {} s1 0 TrInv.init SInv.init h1
    unfold Scanner.finalize at h
    by_cases hn : s1.parser.hasNumber = true
    · rw [if_pos hn] at h
      cases h2 : s1.numberEnd cfg with
      | error f => rw [h2] at h; cases h
      | ok s2 =>
        rw [h2] at h; cases h
        have := numberEnd_strict cfg s1 s2 hs hn h2
        intro o ho
        exact this.2.2.2 o (List.mem_append_left _ ho)
    · rw [if_neg hn] at h; cases h
      intro o ho
      exact hs.2.2.2 o (List.mem_append_left _ ho)

theorem isEmpty_of_same {b b' : DS} (h : SameButFlags b b') : b'.isEmpty = b.isEmpty := by
  unfold DS.isEmpty; rw [h.1, h.2.1]

/-- the seven built-in interpreters satisfy `LangOk` -/
theorem C06_langOk_en : LangOk En.lang :=
  ⟨fun w b e h => isEmpty_of_same (En.apply_err_same w b e h), fun w b h => En.apply_ok_nonempty w b h⟩
theorem C06_langOk_fr : LangOk Fr.lang :=
  ⟨fun w b e h => isEmpty_of_same (Fr.apply_err_same w b e h), fun w b h => Fr.apply_ok_nonempty w b h⟩
theorem C06_langOk_es : LangOk Es.lang :=
  ⟨fun w b e h => isEmpty_of_same (Es.apply_err_same w b e h), fun w b h => Es.apply_ok_nonempty w b h⟩
theorem C06_langOk_pt : LangOk Pt.lang :=
  ⟨fun w b e h => isEmpty_of_same (Pt.apply_err_same w b e h), fun w b h => Pt.apply_ok_nonempty w b h⟩
theorem C06_langOk_it : LangOk It.lang :=
  ⟨fun w b e h => isEmpty_of_same (It.apply_err_same w b e h), fun w b h => It.apply_ok_nonempty w b h⟩
theorem C06_langOk_de : LangOk De.lang :=
  ⟨fun w b e h => isEmpty_of_same (De.apply_err_same w b e h), fun w b h => De.apply_ok_nonempty w b h⟩
theorem C06_langOk_nl : LangOk Nl.lang :=
  ⟨fun w b e h => isEmpty_of_same (Nl.apply_err_same w b e h), fun w b h => Nl.apply_ok_nonempty w b h⟩

end T2N.C06
