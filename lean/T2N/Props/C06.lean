/-
  C06 — every reported occurrence is well-formed and self-consistent.

  Generic part (any language `L : Lang`, any token stream with any hints, any threshold, any char
  classes): spans are inside the stream, ordered and disjoint, for the batch search.
-/
import T2N.Lemmas.Scanner
import T2N.Props.C02

namespace T2N.C06
open T2N

/-- **C06 (spans)**: for every configuration and token stream the batch search returns, and its
occurrences are strictly ordered by position, pairwise disjoint, each with `start ≤ end`, all inside
the stream. -/
theorem C06_spans (cfg : ScanCfg) (toks : List Tok) :
    ∃ occs, findNumbers cfg toks = .ok occs ∧ OccsBelow occs toks.length :=
  findNumbers_ok cfg toks

/-- consequence in the form used by `replace`: the spans satisfy the precondition of the splice theorem -/
theorem occsBelow_spansOk {os : List Occ} {n : Nat} (h : OccsBelow os n) : ∀ p, (∀ o ∈ os, p ≤ o.start) →
    C02.SpansOk p n os := by
  induction os with
  | nil => intro _ _; trivial
  | cons o os ih =>
    intro p hp
    obtain ⟨h1, h2, h3, h4⟩ := h
    exact ⟨hp o (by simp), h1, h2, ih h4 o.stop h3⟩

theorem C06_spansOk (cfg : ScanCfg) (toks : List Tok) (occs : List Occ)
    (h : findNumbers cfg toks = .ok occs) : C02.SpansOk 0 toks.length occs := by
  obtain ⟨occs', h1, h2⟩ := findNumbers_ok cfg toks
  rw [h] at h1
  cases h1
  exact occsBelow_spansOk h2 0 (fun _ _ => Nat.zero_le _)

/-! ### text, value and ordinal flag are produced together from the same buffers -/

/-- the numeric reading of an occurrence text, as a specification: digits, optional mark + digits -/
def readsAs (mark : Char) (text : Word) (v : Value) (isOrd : Bool) : Prop :=
  (∃ ds : List Nat, ∃ m : Mk, text = ds.map digitChar ++ m.chars ∧ v = .dec ds [] ∧ isOrd = true) ∨
  (∃ ds : List Nat, text = ds.map digitChar ∧ v = .dec ds [] ∧ isOrd = false) ∨
  (∃ ds : List Nat, text = ['1', '/'] ++ ds.map digitChar ∧ v = .recip ds ∧ isOrd = false) ∨
  (∃ i d : List Nat, text = i.map digitChar ++ [mark] ++ d.map digitChar ∧ v = .dec i d)

/-- `format_and_value` yields a text whose numeric reading is the value returned with it, and the
ordinal marker appears in the text exactly when the builder's marker is ordinal. -/
theorem C06_format_consistent (l : Lang) (b : DS) (t : Word) (v : Value) (h : l.formatW b = .ok (t, v)) :
    readsAs l.decMark t v b.isOrdinal := by
  unfold Lang.formatW at h
  split at h
  · cases h
  · cases hm : b.marker with
    | none =>
      rw [hm] at h; cases h
      exact Or.inr (Or.inl ⟨b.render, rfl, rfl, by simp [DS.isOrdinal, hm, Marker.isOrdinal]⟩)
    | ordinal m =>
      rw [hm] at h; cases h
      exact Or.inl ⟨b.render, m, rfl, rfl, by simp [DS.isOrdinal, hm, Marker.isOrdinal]⟩
    | fraction m =>
      rw [hm] at h; cases h
      exact Or.inr (Or.inr (Or.inl ⟨b.render, rfl, rfl, by simp [DS.isOrdinal, hm, Marker.isOrdinal]⟩))

theorem C06_formatDecimal_consistent (l : Lang) (i d : DS) (t : Word) (v : Value)
    (h : l.formatDecimalW i d = .ok (t, v)) : readsAs l.decMark t v false := by
  unfold Lang.formatDecimalW at h
  split at h
  · cases h
  · cases h
    exact Or.inr (Or.inr (Or.inr ⟨i.render, d.render, rfl, rfl⟩))

end T2N.C06
