/-
  C10 — context independence: unrelated parts of a text are converted independently.
-/
import T2N.Lemmas.Scanner
import T2N.Lemmas.Reset
import T2N.Lemmas.ErrFresh
import T2N.Lemmas.Act
import T2N.Lemmas.SimpleCC
import T2N.Props.C02
import T2N.Props.C06
import T2N.Model.Api

namespace T2N.C10
open T2N

/-- finishing a number resets the parser completely: nothing of the number just read (digits, flags,
marker, frozen, decimal mode) survives into the next one -/
theorem C10_parser_reset (cfg : ScanCfg) (s s' : Scanner) (h : s.numberEnd cfg = .ok s') :
    s'.parser = {} := by
  unfold Scanner.numberEnd at h
  cases hf : s.parser.finish cfg.lang with
  | error f => rw [hf] at h; cases h
  | ok r => rw [hf] at h; cases h; rfl

/-- a sequence breaker forgets the kind of the previous number: a number held back before it can
never be released afterwards (it is dropped by the next number or at the end) -/
theorem C10_breaker_forgets (t : Tracker) : t.breaker.last = Kind.none := rfl

theorem C10_held_dropped_after_breaker (t : Tracker) (isOrd : Bool) (text : Word) (v : Value) (forget : Bool) :
    (t.breaker.numberEnd isOrd text v forget).queue = t.queue ++ (if forget then [] else [⟨t.mstart, t.mend, text, v, isOrd⟩]) := by
  unfold Tracker.numberEnd Tracker.breaker
  dsimp only
  have : ∀ k : Kind, (if isOrd = true then Kind.ordinal else Kind.cardinal) = k → (Kind.none == k) = false := by
    intro k hk; cases isOrd <;> simp at hk <;> subst hk <;> rfl
  rw [this _ rfl]
  cases forget <;> simp

/-- the French `neuf` pass starts every decision from an empty scratch builder (the `b.reset()` that
the fix of F-fr-annotate-scratch added): the builder handed to the loop is irrelevant -/
theorem C10_fr_scratch_irrelevant (apply : Word → DS → Res × DS) (isDecSep : Word → Bool) (tw : List Nat)
    (amb : List Nat) (b b' : DS) (toks : List Tok) :
    annotateFrLoop apply isDecSep tw amb b toks = annotateFrLoop apply isDecSep tw amb b' toks := by
  induction amb generalizing b b' toks with
  | nil => rfl
  | cons i rest ih =>
    unfold annotateFrLoop
    by_cases hi : i < 2
    · rw [if_pos hi, if_pos hi]; exact ih b b' toks
    · rw [if_neg hi, if_neg hi]

/-! ### the scanner forgets everything at a hard breaker (token level, any language, any threshold)

Assumed of the language: `LangOk` (a refused word does not change emptiness, an accepted word leaves a
non-empty builder: proved for the seven interpreters, `C06_langOk_*`) and `Lang.ErrFresh` (a word refused by
the pristine builder leaves it pristine; proved below for English: `C10_en_errFresh`).
Assumed of the separating token: `HardBreaker` (T2N/Lemmas/Reset.lean). Nothing is assumed of the tokens
before and after it (any hints, any `cfg.sep`), nor of the threshold. -/

/-- **C10 (state after a hard breaker)**: whatever was pushed before (any state satisfying the invariant
of the run, in particular every state reached from the initial one), after a hard breaker the parser is
pristine, the kind of the last number is forgotten and no match is open. -/
theorem C10_hard_breaker_state (cfg : ScanCfg) (hl : LangOk cfg.lang) (hf : cfg.lang.ErrFresh) (σ : Scanner)
    (pos : Nat) (tok : Tok) (hb : HardBreaker cfg tok) (h : RInv σ pos) :
    ∃ σ', σ.push cfg pos tok = .ok σ' ∧ σ'.parser = {} ∧ σ'.tracker.last = Kind.none ∧
      σ'.tracker.mstart = σ'.tracker.mend ∧ RInv σ' (pos + 1) :=
  push_hardBreaker cfg hl hf σ pos tok hb h

/-- every state reached from the initial one satisfies the invariant `RInv` -/
theorem C10_reachable_inv (cfg : ScanCfg) (hl : LangOk cfg.lang) (hf : cfg.lang.ErrFresh) (toks : List Tok) :
    ∃ σ, Scanner.pushAll cfg {} (enumFrom 0 toks) = .ok σ ∧ RInv σ toks.length := by
  obtain ⟨σ, h1, h2⟩ := pushAll_rinv cfg hl hf toks {} 0 RInv.init
  exact ⟨σ, h1, by simpa using h2⟩

/-- **C10 (position shift)**: the loop over the same tokens at positions shifted by `k`, from states that
agree up to a decided prefix `q0`, the shift of all spans by `k`, a held-back occurrence that can no longer
be released and a previous token that is not consulted (`SSim`, `PrevOk`), ends in states that agree in the
same way: same parser, `queue = q0 ++ shifted queue`, `mstart/mend` shifted. -/
theorem C10_position_shift (cfg : ScanCfg) (hl : LangOk cfg.lang) (k : Nat) (q0 : List Occ) (B : List Tok)
    (p : Nat) (σ τ : Scanner) (h : SSim k q0 σ τ) (hprev : PrevOk σ τ) (hτ : SInv τ) (hsc : ScInv τ p) :
    ∃ σ' τ', Scanner.pushAll cfg σ (enumFrom (p + k) B) = .ok σ' ∧
      Scanner.pushAll cfg τ (enumFrom p B) = .ok τ' ∧ SSim k q0 σ' τ' ∧ SInv τ' :=
  pushAll_sim cfg hl k q0 B p σ τ h hprev hτ hsc

/-- **C10 (scanner reset)**: the occurrences found in `A ++ [s] ++ B`, where `s` is a hard breaker, are those
found in `A ++ [s]` followed by those found in `B` alone (same texts, values, ordinal flags; spans shifted by
the length of `A ++ [s]`), at every threshold: nothing of `A` influences how `B` is read. -/
theorem C10_scanner_reset (cfg : ScanCfg) (hl : LangOk cfg.lang) (hf : cfg.lang.ErrFresh) (A B : List Tok)
    (s : Tok) (hs : HardBreaker cfg s) :
    ∃ oa ob, findNumbers cfg (A ++ [s]) = .ok oa ∧ findNumbers cfg B = .ok ob ∧
      findNumbers cfg (A ++ [s] ++ B) = .ok (oa ++ ob.map (shiftOcc (A.length + 1))) :=
  findNumbers_reset cfg hl hf A B s hs

/-- the same for a separator `S` of several tokens whose last token is a hard breaker (the other tokens of
the separator are arbitrary) -/
theorem C10_scanner_reset_sep (cfg : ScanCfg) (hl : LangOk cfg.lang) (hf : cfg.lang.ErrFresh)
    (A S B : List Tok) (hne : S ≠ []) (hs : HardBreaker cfg (S.getLast hne)) :
    ∃ oa ob, findNumbers cfg (A ++ S) = .ok oa ∧ findNumbers cfg B = .ok ob ∧
      findNumbers cfg (A ++ S ++ B) = .ok (oa ++ ob.map (shiftOcc (A.length + S.length))) := by
  have hS : S = S.dropLast ++ [S.getLast hne] := (List.dropLast_concat_getLast hne).symm
  obtain ⟨oa, ob, h1, h2, h3⟩ := findNumbers_reset cfg hl hf (A ++ S.dropLast) B (S.getLast hne) hs
  have e1 : A ++ S.dropLast ++ [S.getLast hne] = A ++ S := by
    rw [List.append_assoc, ← hS]
  have e2 : (A ++ S.dropLast).length + 1 = A.length + S.length := by
    conv => rhs; rw [hS]
    simp only [List.length_append, List.length_singleton]; omega
  rw [e1, e2] at h3
  rw [e1] at h1
  exact ⟨oa, ob, h1, h2, h3⟩

/-! ### the assumptions hold for English -/

theorem mergeGroup_err_eq (b ds : DS) (cf : Bool) (m : Marker) (e : Err)
    (h : (mergeGroup b ds cf m).1 = some e) : (mergeGroup b ds cf m).2 = b := by
  unfold mergeGroup at h ⊢
  split
  · rfl
  · rename_i hc
    rw [if_neg hc] at h
    cases hp : b.put ds.rbuf.reverse with
    | mk r b' =>
      cases r with
      | some e' =>
        have := put_atomic b ds.rbuf.reverse e' (by rw [hp])
        rw [hp] at this
        exact this
      | none => rw [hp] at h; cases h

/-- the English interpreter leaves the builder exactly as it was when it refuses a word -/
theorem C10_en_apply_err_eq (w : Word) (b : DS) (e : Err) (h : (En.apply w b).1 = some e) :
    (En.apply w b).2 = b := by
  unfold En.apply En.applyFuel at h ⊢
  by_cases hc : w.contains '-' = true
  · rw [if_pos hc] at h ⊢
    cases hg : execGroup (En.applyFuel 1) (splitOnChar '-' w) with
    | error e' => rfl
    | ok ds =>
      rw [hg] at h
      exact mergeGroup_err_eq b ds false ds.marker e h
  · rw [if_neg hc] at h ⊢
    dsimp only at h ⊢
    generalize (En.vocab.lookup (En.lemmatize w)).getD (.fail .nan) = act at h ⊢
    have hat := Act.exec_atomic act b
    cases hr : (act.exec b).1 with
    | none => rw [hr] at h; simp at h; split at h <;> cases h
    | some e' =>
      simp only [Option.isNone_some, Bool.false_and, Bool.false_eq_true, if_false]
      exact hat e' hr

theorem C10_en_errFresh : En.lang.ErrFresh := fun w e h => C10_en_apply_err_eq w {} e h

/-- English refuses, in every state, every word without `-` whose lemma is not in its vocabulary (and that
is not a decimal digit word nor `point`) -/
theorem C10_en_rejects (w : Word) (h1 : w.contains '-' = false) (h2 : En.vocab.lookup (En.lemmatize w) = none)
    (h3 : En.decVocab.lookup w = none) (h4 : (w == w!"point") = false) : En.lang.Rejects w := by
  apply Lang.rejects_of_apply
  · intro b
    refine ⟨Err.nan, ?_, by decide⟩
    show (En.apply w b).1 = some Err.nan
    unfold En.apply En.applyFuel
    rw [if_neg (by rw [h1]; simp)]
    simp [h2, Act.exec]
  · intro b
    refine ⟨Err.nan, ?_, by decide⟩
    show (En.applyDecimal w b).1 = some Err.nan
    unfold En.applyDecimal
    rw [h3]
  · exact h4

/-- hence every such word that contains a letter and is not a linking word, and the lone `.`, is a hard
breaker for the configuration of `replace_numbers_in_text` (no separation hints) -/
theorem C10_en_hardBreaker (thr : Nat → Bool) (tok : Tok)
    (hsk : Scanner.isSkipped (scanCfg En.lang thr) tok = false) (hbr : breaks (scanCfg En.lang thr) tok = true)
    (h1 : tok.lower.contains '-' = false) (h2 : En.vocab.lookup (En.lemmatize tok.lower) = none)
    (h3 : En.decVocab.lookup tok.lower = none) (h4 : (tok.lower == w!"point") = false) :
    HardBreaker (scanCfg En.lang thr) tok :=
  ⟨hsk, hbr, Or.inr ⟨C10_en_rejects tok.lower h1 h2 h3 h4, Or.inl (fun _ => rfl)⟩⟩

/-! non-vacuity: the full stop and an ordinary word are hard breakers; a hinted token too -/
example (thr : Nat → Bool) : HardBreaker (scanCfg En.lang thr) { text := w!".", lower := w!"." } :=
  C10_en_hardBreaker thr _ rfl rfl (by decide) (by decide) (by decide) (by decide)
example (thr : Nat → Bool) : HardBreaker (scanCfg En.lang thr) { text := w!"Cats", lower := w!"cats" } :=
  C10_en_hardBreaker thr _ rfl rfl (by decide) (by decide) (by decide) (by decide)
example (thr : Nat → Bool) : HardBreaker (scanCfg En.lang thr) { text := w!"one", lower := w!"one", nan := true } :=
  ⟨rfl, rfl, Or.inl rfl⟩

/-- instance: `twenty . two` is read as `20`, `2` — not as `22` — and the second number is where it would be
in the text `two` alone, shifted -/
example : findNumbers (scanCfg En.lang zeroThr)
    ([{ text := w!"twenty", lower := w!"twenty" }] ++ [{ text := w!".", lower := w!"." }] ++
      [{ text := w!"two", lower := w!"two" }]) =
    .ok [⟨0, 1, w!"20", .dec [2, 0] [], false⟩, ⟨2, 3, w!"2", .dec [2] [], false⟩] := by rfl

/-- instance with a threshold (numbers below 10 are held back unless they are part of a sequence):
`one two` is a sequence and both are reported; in `one . two` the `one` held back before the full stop is
never released by the `two` after it — exactly as for the texts `one .` and `two` taken separately -/
example : findNumbers (scanCfg En.lang (fun n => n < 10))
    [{ text := w!"one", lower := w!"one" }, { text := w!" ", lower := w!" " }, { text := w!"two", lower := w!"two" }] =
    .ok [⟨0, 1, w!"1", .dec [1] [], false⟩, ⟨2, 3, w!"2", .dec [2] [], false⟩] := by rfl
example : findNumbers (scanCfg En.lang (fun n => n < 10))
    ([{ text := w!"one", lower := w!"one" }] ++ [{ text := w!".", lower := w!"." }] ++
      [{ text := w!"two", lower := w!"two" }]) = .ok [] := by rfl

/-! ### consequence for the rewritten token stream -/

theorem spansOk_shift (k : Nat) (os : List Occ) : ∀ (p n : Nat), C02.SpansOk p n os →
    C02.SpansOk (p + k) (n + k) (os.map (shiftOcc k)) := by
  induction os with
  | nil => intro _ _ _; trivial
  | cons o os ih =>
    intro p n h
    obtain ⟨h1, h2, h3, h4⟩ := h
    exact ⟨by simp only [shiftOcc]; omega, by simp only [shiftOcc]; omega, by simp only [shiftOcc]; omega,
      ih o.stop n h4⟩

theorem splice_shift {T} (mk : List T → Word → T) (k : Nat) (os : List Occ) : ∀ (p : Nat) (ts : List T),
    C02.splice mk (p + k) ts (os.map (shiftOcc k)) = C02.splice mk p ts os := by
  induction os with
  | nil => intro p ts; rfl
  | cons o os ih =>
    intro p ts
    simp only [List.map_cons, C02.splice, shiftOcc]
    rw [Nat.add_sub_add_right, Nat.add_sub_add_right, Nat.add_sub_add_right, ih o.stop]

theorem splice_skip {T} (mk : List T → Word → T) (T1 T2 : List T) (p n : Nat) (os : List Occ)
    (h : C02.SpansOk (p + T1.length) n os) :
    C02.splice mk p (T1 ++ T2) os = T1 ++ C02.splice mk (p + T1.length) T2 os := by
  cases os with
  | nil => rfl
  | cons o os =>
    obtain ⟨h1, h2, h3, h4⟩ := h
    simp only [C02.splice]
    have a1 : o.start - p = T1.length + (o.start - (p + T1.length)) := by omega
    have a2 : o.stop - p = T1.length + (o.stop - (p + T1.length)) := by omega
    rw [a1, a2, List.take_length_add_append, List.drop_length_add_append, List.drop_length_add_append]
    simp [List.append_assoc]

theorem splice_append {T} (mk : List T → Word → T) (oa ob : List Occ) : ∀ (p : Nat) (T1 T2 : List T) (n : Nat),
    C02.SpansOk p (p + T1.length) oa → C02.SpansOk (p + T1.length) n ob →
    C02.splice mk p (T1 ++ T2) (oa ++ ob) =
      C02.splice mk p T1 oa ++ C02.splice mk (p + T1.length) T2 ob := by
  induction oa with
  | nil =>
    intro p T1 T2 n _ hb
    simp only [List.nil_append, C02.splice]
    exact splice_skip mk T1 T2 p n ob hb
  | cons o oa ih =>
    intro p T1 T2 n ha hb
    obtain ⟨h1, h2, h3, h4⟩ := ha
    simp only [List.cons_append, C02.splice]
    have l1 : o.start - p ≤ T1.length := by omega
    have l2 : o.stop - p ≤ T1.length := by omega
    have hlen : (T1.drop (o.stop - p)).length = T1.length - (o.stop - p) := by simp
    have hp : o.stop + (T1.drop (o.stop - p)).length = p + T1.length := by rw [hlen]; omega
    rw [List.take_append_of_le_length l1, List.drop_append_of_le_length l1, List.drop_append_of_le_length l2,
      List.take_append_of_le_length (by simp; omega),
      ih o.stop (T1.drop (o.stop - p)) T2 n (by rw [hp]; exact h4) (by rw [hp]; exact hb), hp]
    simp [List.append_assoc]

/-- **C10 (stream)**: the rewritten token stream of `A ++ [s] ++ B` is the rewritten stream of `A ++ [s]`
followed by the rewritten stream of `B`, for every replacement constructor `mk` and every threshold. -/
theorem C10_stream_reset (cfg : ScanCfg) (hl : LangOk cfg.lang) (hf : cfg.lang.ErrFresh) (A B : List Tok)
    (s : Tok) (hs : HardBreaker cfg s) (mk : List Tok → Word → Tok) :
    ∃ oa ob oab ta tb, findNumbers cfg (A ++ [s]) = .ok oa ∧ findNumbers cfg B = .ok ob ∧
      findNumbers cfg (A ++ [s] ++ B) = .ok oab ∧
      replaceStream mk (A ++ [s]) oa = .ok ta ∧ replaceStream mk B ob = .ok tb ∧
      replaceStream mk (A ++ [s] ++ B) oab = .ok (ta ++ tb) := by
  obtain ⟨oa, ob, h1, h2, h3⟩ := findNumbers_reset cfg hl hf A B s hs
  have sa := C06.C06_spansOk cfg _ oa h1
  have sb := C06.C06_spansOk cfg _ ob h2
  have sab := C06.C06_spansOk cfg _ _ h3
  refine ⟨oa, ob, _, _, _, h1, h2, h3, C02.C02_replace_is_splice mk _ oa sa,
    C02.C02_replace_is_splice mk _ ob sb, ?_⟩
  rw [C02.C02_replace_is_splice mk _ _ sab]
  congr 1
  have hk : A.length + 1 = (A ++ [s]).length := by simp
  have sb' := spansOk_shift (A ++ [s]).length ob 0 B.length sb
  rw [hk]
  have sa' : C02.SpansOk 0 (0 + (A ++ [s]).length) oa := by rw [Nat.zero_add]; exact sa
  rw [splice_append mk oa _ 0 (A ++ [s]) B _ sa' sb', splice_shift]

end T2N.C10

/-! ### the assumptions hold for the other six languages (proofs: T2N/Lemmas/ErrFresh.lean)

For each language `l`: `C10_l_errFresh` (a word refused by the pristine builder leaves it pristine, flags
included), `C10_l_rejects` (a word that is not a compound, whose lemma is not in the vocabulary and that is not
the decimal separator is refused in every state), `C10_l_rejects_compound` (fr, it, de, nl: so is a compound
whose group is refused — the group is interpreted on a fresh builder), `C10_l_rejects_comma` (so is the forced
stop `","`), `C10_l_hardBreaker_cfg` (hence, for ANY configuration of that language — any character classes,
any separation hints — a token that is not skipped, breaks sequences and whose word is refused is a hard
breaker), `C10_l_hardBreaker` (the syntactic version for the configuration of `replace_numbers_in_text`),
and the reset theorem with the language hypotheses discharged: `C10_scanner_reset_l`, `C10_stream_reset_l`,
`C10_full_stop_reset_l`. -/

namespace T2N.C10
open T2N

/-- the lone full stop token -/
def fullStop : Tok := { text := w!".", lower := w!"." }

/-! #### French -/

theorem C10_fr_errFresh : Fr.lang.ErrFresh := ErrFreshAll.fr_errFresh

theorem C10_fr_rejects (w : Word) (h1 : w.contains '-' = false) (h2 : Fr.vocab.lookup (Fr.lemmatize w) = none) (h3 : (w == w!"virgule") = false) :
    Fr.lang.Rejects w := ErrFreshAll.fr_rejects w h1 h2 h3

theorem C10_fr_rejects_compound (w : Word) (e : Err) (h1 : w.contains '-' = true) (h2 : ErrFreshAll.groupErr (execGroup (Fr.applyFuel 1) (splitOnChar '-' w)) = some e) (h3 : e ≠ Err.incomplete) :
    Fr.lang.Rejects w := ErrFreshAll.fr_rejects_compound w e h1 h2 h3

theorem C10_fr_rejects_comma : Fr.lang.Rejects [','] := ErrFreshAll.fr_rejects_comma

theorem C10_fr_hardBreaker_cfg (cfg : ScanCfg) (hc : cfg.lang = Fr.lang) (tok : Tok)
    (hsk : Scanner.isSkipped cfg tok = false) (hbr : breaks cfg tok = true)
    (hr : Fr.lang.Rejects tok.lower) : HardBreaker cfg tok :=
  ErrFreshAll.fr_hardBreaker_cfg cfg hc tok hsk hbr hr

theorem C10_fr_hardBreaker (thr : Nat → Bool) (tok : Tok)
    (hsk : Scanner.isSkipped (scanCfg Fr.lang thr) tok = false) (hbr : breaks (scanCfg Fr.lang thr) tok = true)
    (h1 : tok.lower.contains '-' = false) (h2 : Fr.vocab.lookup (Fr.lemmatize tok.lower) = none) (h3 : (tok.lower == w!"virgule") = false) :
    HardBreaker (scanCfg Fr.lang thr) tok :=
  ErrFreshAll.fr_hardBreaker thr tok hsk hbr h1 h2 h3

theorem C10_fr_fullStop_hardBreaker (thr : Nat → Bool) : HardBreaker (scanCfg Fr.lang thr) fullStop :=
  C10_fr_hardBreaker thr _ rfl rfl (by decide) (by decide) (by decide)

/-- **C10 (scanner reset, French)**: for every configuration of the French interpreter (any character
classes, separation hints, threshold) and every separator `S` whose last token is a hard breaker -/
theorem C10_scanner_reset_fr (cfg : ScanCfg) (hc : cfg.lang = Fr.lang) (A S B : List Tok) (hne : S ≠ [])
    (hs : HardBreaker cfg (S.getLast hne)) :
    ∃ oa ob, findNumbers cfg (A ++ S) = .ok oa ∧ findNumbers cfg B = .ok ob ∧
      findNumbers cfg (A ++ S ++ B) = .ok (oa ++ ob.map (shiftOcc (A.length + S.length))) :=
  C10_scanner_reset_sep cfg (by rw [hc]; exact C06.C06_langOk_fr) (by rw [hc]; exact C10_fr_errFresh) A S B hne hs

theorem C10_stream_reset_fr (cfg : ScanCfg) (hc : cfg.lang = Fr.lang) (A B : List Tok) (s : Tok)
    (hs : HardBreaker cfg s) (mk : List Tok → Word → Tok) :
    ∃ oa ob oab ta tb, findNumbers cfg (A ++ [s]) = .ok oa ∧ findNumbers cfg B = .ok ob ∧
      findNumbers cfg (A ++ [s] ++ B) = .ok oab ∧
      replaceStream mk (A ++ [s]) oa = .ok ta ∧ replaceStream mk B ob = .ok tb ∧
      replaceStream mk (A ++ [s] ++ B) oab = .ok (ta ++ tb) :=
  C10_stream_reset cfg (by rw [hc]; exact C06.C06_langOk_fr) (by rw [hc]; exact C10_fr_errFresh) A B s hs mk

/-- in French text a full stop token separates: whatever the tokens `A` before and `B` after it (any hints),
at every threshold, `B` is read as if it stood alone -/
theorem C10_full_stop_reset_fr (thr : Nat → Bool) (A B : List Tok) :
    ∃ oa ob, findNumbers (scanCfg Fr.lang thr) (A ++ [fullStop]) = .ok oa ∧
      findNumbers (scanCfg Fr.lang thr) B = .ok ob ∧
      findNumbers (scanCfg Fr.lang thr) (A ++ [fullStop] ++ B) = .ok (oa ++ ob.map (shiftOcc (A.length + 1))) :=
  C10_scanner_reset (scanCfg Fr.lang thr) C06.C06_langOk_fr C10_fr_errFresh A B fullStop
    (C10_fr_fullStop_hardBreaker thr)

/-! #### Spanish -/

theorem C10_es_errFresh : Es.lang.ErrFresh := ErrFreshAll.es_errFresh

theorem C10_es_rejects (w : Word) (h2 : Es.vocab.lookup (Es.lemmatize w) = none) (h3 : (w == w!"coma") = false) :
    Es.lang.Rejects w := ErrFreshAll.es_rejects w h2 h3

theorem C10_es_rejects_comma : Es.lang.Rejects [','] := ErrFreshAll.es_rejects_comma

theorem C10_es_hardBreaker_cfg (cfg : ScanCfg) (hc : cfg.lang = Es.lang) (tok : Tok)
    (hsk : Scanner.isSkipped cfg tok = false) (hbr : breaks cfg tok = true)
    (hr : Es.lang.Rejects tok.lower) : HardBreaker cfg tok :=
  ErrFreshAll.es_hardBreaker_cfg cfg hc tok hsk hbr hr

theorem C10_es_hardBreaker (thr : Nat → Bool) (tok : Tok)
    (hsk : Scanner.isSkipped (scanCfg Es.lang thr) tok = false) (hbr : breaks (scanCfg Es.lang thr) tok = true)
    (h2 : Es.vocab.lookup (Es.lemmatize tok.lower) = none) (h3 : (tok.lower == w!"coma") = false) :
    HardBreaker (scanCfg Es.lang thr) tok :=
  ErrFreshAll.es_hardBreaker thr tok hsk hbr h2 h3

theorem C10_es_fullStop_hardBreaker (thr : Nat → Bool) : HardBreaker (scanCfg Es.lang thr) fullStop :=
  C10_es_hardBreaker thr _ rfl rfl (by decide) (by decide)

/-- **C10 (scanner reset, Spanish)**: for every configuration of the Spanish interpreter (any character
classes, separation hints, threshold) and every separator `S` whose last token is a hard breaker -/
theorem C10_scanner_reset_es (cfg : ScanCfg) (hc : cfg.lang = Es.lang) (A S B : List Tok) (hne : S ≠ [])
    (hs : HardBreaker cfg (S.getLast hne)) :
    ∃ oa ob, findNumbers cfg (A ++ S) = .ok oa ∧ findNumbers cfg B = .ok ob ∧
      findNumbers cfg (A ++ S ++ B) = .ok (oa ++ ob.map (shiftOcc (A.length + S.length))) :=
  C10_scanner_reset_sep cfg (by rw [hc]; exact C06.C06_langOk_es) (by rw [hc]; exact C10_es_errFresh) A S B hne hs

theorem C10_stream_reset_es (cfg : ScanCfg) (hc : cfg.lang = Es.lang) (A B : List Tok) (s : Tok)
    (hs : HardBreaker cfg s) (mk : List Tok → Word → Tok) :
    ∃ oa ob oab ta tb, findNumbers cfg (A ++ [s]) = .ok oa ∧ findNumbers cfg B = .ok ob ∧
      findNumbers cfg (A ++ [s] ++ B) = .ok oab ∧
      replaceStream mk (A ++ [s]) oa = .ok ta ∧ replaceStream mk B ob = .ok tb ∧
      replaceStream mk (A ++ [s] ++ B) oab = .ok (ta ++ tb) :=
  C10_stream_reset cfg (by rw [hc]; exact C06.C06_langOk_es) (by rw [hc]; exact C10_es_errFresh) A B s hs mk

/-- in Spanish text a full stop token separates: whatever the tokens `A` before and `B` after it (any hints),
at every threshold, `B` is read as if it stood alone -/
theorem C10_full_stop_reset_es (thr : Nat → Bool) (A B : List Tok) :
    ∃ oa ob, findNumbers (scanCfg Es.lang thr) (A ++ [fullStop]) = .ok oa ∧
      findNumbers (scanCfg Es.lang thr) B = .ok ob ∧
      findNumbers (scanCfg Es.lang thr) (A ++ [fullStop] ++ B) = .ok (oa ++ ob.map (shiftOcc (A.length + 1))) :=
  C10_scanner_reset (scanCfg Es.lang thr) C06.C06_langOk_es C10_es_errFresh A B fullStop
    (C10_es_fullStop_hardBreaker thr)

/-! #### Portuguese -/

theorem C10_pt_errFresh : Pt.lang.ErrFresh := ErrFreshAll.pt_errFresh

theorem C10_pt_rejects (w : Word) (h2 : (Pt.vocab true).lookup (Pt.lemmatize w) = none) (h3 : (w == w!"vírgula") = false) :
    Pt.lang.Rejects w := ErrFreshAll.pt_rejects w h2 h3

theorem C10_pt_rejects_comma : Pt.lang.Rejects [','] := ErrFreshAll.pt_rejects_comma

theorem C10_pt_hardBreaker_cfg (cfg : ScanCfg) (hc : cfg.lang = Pt.lang) (tok : Tok)
    (hsk : Scanner.isSkipped cfg tok = false) (hbr : breaks cfg tok = true)
    (hr : Pt.lang.Rejects tok.lower) : HardBreaker cfg tok :=
  ErrFreshAll.pt_hardBreaker_cfg cfg hc tok hsk hbr hr

theorem C10_pt_hardBreaker (thr : Nat → Bool) (tok : Tok)
    (hsk : Scanner.isSkipped (scanCfg Pt.lang thr) tok = false) (hbr : breaks (scanCfg Pt.lang thr) tok = true)
    (h2 : (Pt.vocab true).lookup (Pt.lemmatize tok.lower) = none) (h3 : (tok.lower == w!"vírgula") = false) :
    HardBreaker (scanCfg Pt.lang thr) tok :=
  ErrFreshAll.pt_hardBreaker thr tok hsk hbr h2 h3

theorem C10_pt_fullStop_hardBreaker (thr : Nat → Bool) : HardBreaker (scanCfg Pt.lang thr) fullStop :=
  C10_pt_hardBreaker thr _ rfl rfl (by decide) (by decide)

/-- **C10 (scanner reset, Portuguese)**: for every configuration of the Portuguese interpreter (any character
classes, separation hints, threshold) and every separator `S` whose last token is a hard breaker -/
theorem C10_scanner_reset_pt (cfg : ScanCfg) (hc : cfg.lang = Pt.lang) (A S B : List Tok) (hne : S ≠ [])
    (hs : HardBreaker cfg (S.getLast hne)) :
    ∃ oa ob, findNumbers cfg (A ++ S) = .ok oa ∧ findNumbers cfg B = .ok ob ∧
      findNumbers cfg (A ++ S ++ B) = .ok (oa ++ ob.map (shiftOcc (A.length + S.length))) :=
  C10_scanner_reset_sep cfg (by rw [hc]; exact C06.C06_langOk_pt) (by rw [hc]; exact C10_pt_errFresh) A S B hne hs

theorem C10_stream_reset_pt (cfg : ScanCfg) (hc : cfg.lang = Pt.lang) (A B : List Tok) (s : Tok)
    (hs : HardBreaker cfg s) (mk : List Tok → Word → Tok) :
    ∃ oa ob oab ta tb, findNumbers cfg (A ++ [s]) = .ok oa ∧ findNumbers cfg B = .ok ob ∧
      findNumbers cfg (A ++ [s] ++ B) = .ok oab ∧
      replaceStream mk (A ++ [s]) oa = .ok ta ∧ replaceStream mk B ob = .ok tb ∧
      replaceStream mk (A ++ [s] ++ B) oab = .ok (ta ++ tb) :=
  C10_stream_reset cfg (by rw [hc]; exact C06.C06_langOk_pt) (by rw [hc]; exact C10_pt_errFresh) A B s hs mk

/-- in Portuguese text a full stop token separates: whatever the tokens `A` before and `B` after it (any hints),
at every threshold, `B` is read as if it stood alone -/
theorem C10_full_stop_reset_pt (thr : Nat → Bool) (A B : List Tok) :
    ∃ oa ob, findNumbers (scanCfg Pt.lang thr) (A ++ [fullStop]) = .ok oa ∧
      findNumbers (scanCfg Pt.lang thr) B = .ok ob ∧
      findNumbers (scanCfg Pt.lang thr) (A ++ [fullStop] ++ B) = .ok (oa ++ ob.map (shiftOcc (A.length + 1))) :=
  C10_scanner_reset (scanCfg Pt.lang thr) C06.C06_langOk_pt C10_pt_errFresh A B fullStop
    (C10_pt_fullStop_hardBreaker thr)

/-! #### Italian -/

theorem C10_it_errFresh : It.lang.ErrFresh := ErrFreshAll.it_errFresh

theorem C10_it_rejects (w : Word) (h1 : isSplittable It.patterns (It.lemmatize w) = false) (h2 : It.vocab.lookup (It.lemmatize w) = none) (h3 : (w == w!"virgola") = false) :
    It.lang.Rejects w := ErrFreshAll.it_rejects w h1 h2 h3

theorem C10_it_rejects_compound (w : Word) (e : Err) (h1 : isSplittable It.patterns (It.lemmatize w) = true) (h2 : ErrFreshAll.groupErr (execGroup (It.applyFuel 1) (splitWord It.patterns (It.lemmatize w))) = some e) (h3 : e ≠ Err.incomplete) (h4 : (w == w!"virgola") = false) :
    It.lang.Rejects w := ErrFreshAll.it_rejects_compound w e h1 h2 h3 h4

theorem C10_it_rejects_comma : It.lang.Rejects [','] := ErrFreshAll.it_rejects_comma

theorem C10_it_hardBreaker_cfg (cfg : ScanCfg) (hc : cfg.lang = It.lang) (tok : Tok)
    (hsk : Scanner.isSkipped cfg tok = false) (hbr : breaks cfg tok = true)
    (hr : It.lang.Rejects tok.lower) : HardBreaker cfg tok :=
  ErrFreshAll.it_hardBreaker_cfg cfg hc tok hsk hbr hr

theorem C10_it_hardBreaker (thr : Nat → Bool) (tok : Tok)
    (hsk : Scanner.isSkipped (scanCfg It.lang thr) tok = false) (hbr : breaks (scanCfg It.lang thr) tok = true)
    (h1 : isSplittable It.patterns (It.lemmatize tok.lower) = false) (h2 : It.vocab.lookup (It.lemmatize tok.lower) = none) (h3 : (tok.lower == w!"virgola") = false) :
    HardBreaker (scanCfg It.lang thr) tok :=
  ErrFreshAll.it_hardBreaker thr tok hsk hbr h1 h2 h3

theorem C10_it_fullStop_hardBreaker (thr : Nat → Bool) : HardBreaker (scanCfg It.lang thr) fullStop :=
  C10_it_hardBreaker thr _ rfl rfl (by decide) (by decide) (by decide)

/-- **C10 (scanner reset, Italian)**: for every configuration of the Italian interpreter (any character
classes, separation hints, threshold) and every separator `S` whose last token is a hard breaker -/
theorem C10_scanner_reset_it (cfg : ScanCfg) (hc : cfg.lang = It.lang) (A S B : List Tok) (hne : S ≠ [])
    (hs : HardBreaker cfg (S.getLast hne)) :
    ∃ oa ob, findNumbers cfg (A ++ S) = .ok oa ∧ findNumbers cfg B = .ok ob ∧
      findNumbers cfg (A ++ S ++ B) = .ok (oa ++ ob.map (shiftOcc (A.length + S.length))) :=
  C10_scanner_reset_sep cfg (by rw [hc]; exact C06.C06_langOk_it) (by rw [hc]; exact C10_it_errFresh) A S B hne hs

theorem C10_stream_reset_it (cfg : ScanCfg) (hc : cfg.lang = It.lang) (A B : List Tok) (s : Tok)
    (hs : HardBreaker cfg s) (mk : List Tok → Word → Tok) :
    ∃ oa ob oab ta tb, findNumbers cfg (A ++ [s]) = .ok oa ∧ findNumbers cfg B = .ok ob ∧
      findNumbers cfg (A ++ [s] ++ B) = .ok oab ∧
      replaceStream mk (A ++ [s]) oa = .ok ta ∧ replaceStream mk B ob = .ok tb ∧
      replaceStream mk (A ++ [s] ++ B) oab = .ok (ta ++ tb) :=
  C10_stream_reset cfg (by rw [hc]; exact C06.C06_langOk_it) (by rw [hc]; exact C10_it_errFresh) A B s hs mk

/-- in Italian text a full stop token separates: whatever the tokens `A` before and `B` after it (any hints),
at every threshold, `B` is read as if it stood alone -/
theorem C10_full_stop_reset_it (thr : Nat → Bool) (A B : List Tok) :
    ∃ oa ob, findNumbers (scanCfg It.lang thr) (A ++ [fullStop]) = .ok oa ∧
      findNumbers (scanCfg It.lang thr) B = .ok ob ∧
      findNumbers (scanCfg It.lang thr) (A ++ [fullStop] ++ B) = .ok (oa ++ ob.map (shiftOcc (A.length + 1))) :=
  C10_scanner_reset (scanCfg It.lang thr) C06.C06_langOk_it C10_it_errFresh A B fullStop
    (C10_it_fullStop_hardBreaker thr)

/-! #### German -/

theorem C10_de_errFresh : De.lang.ErrFresh := ErrFreshAll.de_errFresh

theorem C10_de_rejects (w : Word) (h1 : isSplittable De.patterns (De.lemmatize w) = false) (h2 : De.vocab.lookup (De.lemmatize w) = none) (h3 : De.decVocab.lookup w = none) (h4 : (w == w!"komma") = false) :
    De.lang.Rejects w := ErrFreshAll.de_rejects w h1 h2 h3 h4

theorem C10_de_rejects_compound (w : Word) (e : Err) (h1 : isSplittable De.patterns (De.lemmatize w) = true) (h2 : ErrFreshAll.groupErr (execGroup (De.applyFuel 1) (splitWord De.patterns (De.lemmatize w))) = some e) (h3 : e ≠ Err.incomplete) (h4 : De.decVocab.lookup w = none) (h5 : (w == w!"komma") = false) :
    De.lang.Rejects w := ErrFreshAll.de_rejects_compound w e h1 h2 h3 h4 h5

theorem C10_de_rejects_comma : De.lang.Rejects [','] := ErrFreshAll.de_rejects_comma

theorem C10_de_hardBreaker_cfg (cfg : ScanCfg) (hc : cfg.lang = De.lang) (tok : Tok)
    (hsk : Scanner.isSkipped cfg tok = false) (hbr : breaks cfg tok = true)
    (hr : De.lang.Rejects tok.lower) : HardBreaker cfg tok :=
  ErrFreshAll.de_hardBreaker_cfg cfg hc tok hsk hbr hr

theorem C10_de_hardBreaker (thr : Nat → Bool) (tok : Tok)
    (hsk : Scanner.isSkipped (scanCfg De.lang thr) tok = false) (hbr : breaks (scanCfg De.lang thr) tok = true)
    (h1 : isSplittable De.patterns (De.lemmatize tok.lower) = false) (h2 : De.vocab.lookup (De.lemmatize tok.lower) = none) (h3 : De.decVocab.lookup tok.lower = none) (h4 : (tok.lower == w!"komma") = false) :
    HardBreaker (scanCfg De.lang thr) tok :=
  ErrFreshAll.de_hardBreaker thr tok hsk hbr h1 h2 h3 h4

theorem C10_de_fullStop_hardBreaker (thr : Nat → Bool) : HardBreaker (scanCfg De.lang thr) fullStop :=
  C10_de_hardBreaker thr _ rfl rfl (by decide) (by decide) (by decide) (by decide)

/-- **C10 (scanner reset, German)**: for every configuration of the German interpreter (any character
classes, separation hints, threshold) and every separator `S` whose last token is a hard breaker -/
theorem C10_scanner_reset_de (cfg : ScanCfg) (hc : cfg.lang = De.lang) (A S B : List Tok) (hne : S ≠ [])
    (hs : HardBreaker cfg (S.getLast hne)) :
    ∃ oa ob, findNumbers cfg (A ++ S) = .ok oa ∧ findNumbers cfg B = .ok ob ∧
      findNumbers cfg (A ++ S ++ B) = .ok (oa ++ ob.map (shiftOcc (A.length + S.length))) :=
  C10_scanner_reset_sep cfg (by rw [hc]; exact C06.C06_langOk_de) (by rw [hc]; exact C10_de_errFresh) A S B hne hs

theorem C10_stream_reset_de (cfg : ScanCfg) (hc : cfg.lang = De.lang) (A B : List Tok) (s : Tok)
    (hs : HardBreaker cfg s) (mk : List Tok → Word → Tok) :
    ∃ oa ob oab ta tb, findNumbers cfg (A ++ [s]) = .ok oa ∧ findNumbers cfg B = .ok ob ∧
      findNumbers cfg (A ++ [s] ++ B) = .ok oab ∧
      replaceStream mk (A ++ [s]) oa = .ok ta ∧ replaceStream mk B ob = .ok tb ∧
      replaceStream mk (A ++ [s] ++ B) oab = .ok (ta ++ tb) :=
  C10_stream_reset cfg (by rw [hc]; exact C06.C06_langOk_de) (by rw [hc]; exact C10_de_errFresh) A B s hs mk

/-- in German text a full stop token separates: whatever the tokens `A` before and `B` after it (any hints),
at every threshold, `B` is read as if it stood alone -/
theorem C10_full_stop_reset_de (thr : Nat → Bool) (A B : List Tok) :
    ∃ oa ob, findNumbers (scanCfg De.lang thr) (A ++ [fullStop]) = .ok oa ∧
      findNumbers (scanCfg De.lang thr) B = .ok ob ∧
      findNumbers (scanCfg De.lang thr) (A ++ [fullStop] ++ B) = .ok (oa ++ ob.map (shiftOcc (A.length + 1))) :=
  C10_scanner_reset (scanCfg De.lang thr) C06.C06_langOk_de C10_de_errFresh A B fullStop
    (C10_de_fullStop_hardBreaker thr)

/-! #### Dutch -/

theorem C10_nl_errFresh : Nl.lang.ErrFresh := ErrFreshAll.nl_errFresh

theorem C10_nl_rejects (w : Word) (h1 : isSplittable Nl.patterns w = false) (h2 : Nl.vocab.lookup w = none) (h3 : (w == w!"komma") = false) :
    Nl.lang.Rejects w := ErrFreshAll.nl_rejects w h1 h2 h3

theorem C10_nl_rejects_compound (w : Word) (e : Err) (h1 : isSplittable Nl.patterns w = true) (h2 : ErrFreshAll.groupErr (execGroup (Nl.applyFuel 1) (splitWord Nl.patterns w)) = some e) (h3 : e ≠ Err.incomplete) (h4 : (w == w!"komma") = false) :
    Nl.lang.Rejects w := ErrFreshAll.nl_rejects_compound w e h1 h2 h3 h4

theorem C10_nl_rejects_comma : Nl.lang.Rejects [','] := ErrFreshAll.nl_rejects_comma

theorem C10_nl_hardBreaker_cfg (cfg : ScanCfg) (hc : cfg.lang = Nl.lang) (tok : Tok)
    (hsk : Scanner.isSkipped cfg tok = false) (hbr : breaks cfg tok = true)
    (hr : Nl.lang.Rejects tok.lower) : HardBreaker cfg tok :=
  ErrFreshAll.nl_hardBreaker_cfg cfg hc tok hsk hbr hr

theorem C10_nl_hardBreaker (thr : Nat → Bool) (tok : Tok)
    (hsk : Scanner.isSkipped (scanCfg Nl.lang thr) tok = false) (hbr : breaks (scanCfg Nl.lang thr) tok = true)
    (h1 : isSplittable Nl.patterns tok.lower = false) (h2 : Nl.vocab.lookup tok.lower = none) (h3 : (tok.lower == w!"komma") = false) :
    HardBreaker (scanCfg Nl.lang thr) tok :=
  ErrFreshAll.nl_hardBreaker thr tok hsk hbr h1 h2 h3

theorem C10_nl_fullStop_hardBreaker (thr : Nat → Bool) : HardBreaker (scanCfg Nl.lang thr) fullStop :=
  C10_nl_hardBreaker thr _ rfl rfl (by decide) (by decide) (by decide)

/-- **C10 (scanner reset, Dutch)**: for every configuration of the Dutch interpreter (any character
classes, separation hints, threshold) and every separator `S` whose last token is a hard breaker -/
theorem C10_scanner_reset_nl (cfg : ScanCfg) (hc : cfg.lang = Nl.lang) (A S B : List Tok) (hne : S ≠ [])
    (hs : HardBreaker cfg (S.getLast hne)) :
    ∃ oa ob, findNumbers cfg (A ++ S) = .ok oa ∧ findNumbers cfg B = .ok ob ∧
      findNumbers cfg (A ++ S ++ B) = .ok (oa ++ ob.map (shiftOcc (A.length + S.length))) :=
  C10_scanner_reset_sep cfg (by rw [hc]; exact C06.C06_langOk_nl) (by rw [hc]; exact C10_nl_errFresh) A S B hne hs

theorem C10_stream_reset_nl (cfg : ScanCfg) (hc : cfg.lang = Nl.lang) (A B : List Tok) (s : Tok)
    (hs : HardBreaker cfg s) (mk : List Tok → Word → Tok) :
    ∃ oa ob oab ta tb, findNumbers cfg (A ++ [s]) = .ok oa ∧ findNumbers cfg B = .ok ob ∧
      findNumbers cfg (A ++ [s] ++ B) = .ok oab ∧
      replaceStream mk (A ++ [s]) oa = .ok ta ∧ replaceStream mk B ob = .ok tb ∧
      replaceStream mk (A ++ [s] ++ B) oab = .ok (ta ++ tb) :=
  C10_stream_reset cfg (by rw [hc]; exact C06.C06_langOk_nl) (by rw [hc]; exact C10_nl_errFresh) A B s hs mk

/-- in Dutch text a full stop token separates: whatever the tokens `A` before and `B` after it (any hints),
at every threshold, `B` is read as if it stood alone -/
theorem C10_full_stop_reset_nl (thr : Nat → Bool) (A B : List Tok) :
    ∃ oa ob, findNumbers (scanCfg Nl.lang thr) (A ++ [fullStop]) = .ok oa ∧
      findNumbers (scanCfg Nl.lang thr) B = .ok ob ∧
      findNumbers (scanCfg Nl.lang thr) (A ++ [fullStop] ++ B) = .ok (oa ++ ob.map (shiftOcc (A.length + 1))) :=
  C10_scanner_reset (scanCfg Nl.lang thr) C06.C06_langOk_nl C10_nl_errFresh A B fullStop
    (C10_nl_fullStop_hardBreaker thr)

/-! non-vacuity: ordinary words of each language are hard breakers (plain words, and for the compounding
languages words that contain a number pattern: de `hund` ⊃ `und`, nl `katten` ⊃ `en`, it `conventi` ⊃ `venti`,
fr `peut-être`) -/
example (thr : Nat → Bool) : HardBreaker (scanCfg Fr.lang thr) { text := w!"Chats", lower := w!"chats" } :=
  C10_fr_hardBreaker thr _ rfl rfl (by decide) (by decide) (by decide)
example (thr : Nat → Bool) : HardBreaker (scanCfg Fr.lang thr) { text := w!"peut-être", lower := w!"peut-être" } :=
  C10_fr_hardBreaker_cfg _ rfl _ rfl rfl (C10_fr_rejects_compound _ Err.nan (by decide) (by decide) (by decide))
example (thr : Nat → Bool) : HardBreaker (scanCfg Es.lang thr) { text := w!"Gatos", lower := w!"gatos" } :=
  C10_es_hardBreaker thr _ rfl rfl (by decide) (by decide)
example (thr : Nat → Bool) : HardBreaker (scanCfg Pt.lang thr) { text := w!"Gatos", lower := w!"gatos" } :=
  C10_pt_hardBreaker thr _ rfl rfl (by decide) (by decide)
example (thr : Nat → Bool) : HardBreaker (scanCfg It.lang thr) { text := w!"Gatti", lower := w!"gatti" } :=
  C10_it_hardBreaker thr _ rfl rfl (by decide) (by decide) (by decide)
example (thr : Nat → Bool) : HardBreaker (scanCfg It.lang thr) { text := w!"Conventi", lower := w!"conventi" } :=
  C10_it_hardBreaker_cfg _ rfl _ rfl rfl
    (C10_it_rejects_compound _ Err.nan (by decide) (by decide) (by decide) (by decide))
example (thr : Nat → Bool) : HardBreaker (scanCfg De.lang thr) { text := w!"Katzen", lower := w!"katzen" } :=
  C10_de_hardBreaker thr _ rfl rfl (by decide) (by decide) (by decide) (by decide)
example (thr : Nat → Bool) : HardBreaker (scanCfg De.lang thr) { text := w!"Hund", lower := w!"hund" } :=
  C10_de_hardBreaker_cfg _ rfl _ rfl rfl
    (C10_de_rejects_compound _ Err.nan (by decide) (by decide) (by decide) (by decide) (by decide))
example (thr : Nat → Bool) : HardBreaker (scanCfg Nl.lang thr) { text := w!"Fiets", lower := w!"fiets" } :=
  C10_nl_hardBreaker thr _ rfl rfl (by decide) (by decide) (by decide)
example (thr : Nat → Bool) : HardBreaker (scanCfg Nl.lang thr) { text := w!"Katten", lower := w!"katten" } :=
  C10_nl_hardBreaker_cfg _ rfl _ rfl rfl
    (C10_nl_rejects_compound _ Err.nan (by decide) (by decide) (by decide) (by decide))

/-- instance: French `vingt . deux` is read as `20`, `2` — not as `22` -/
example : findNumbers (scanCfg Fr.lang zeroThr)
    ([{ text := w!"vingt", lower := w!"vingt" }] ++ [fullStop] ++ [{ text := w!"deux", lower := w!"deux" }]) =
    .ok [⟨0, 1, w!"20", .dec [2, 0] [], false⟩, ⟨2, 3, w!"2", .dec [2] [], false⟩] := by rfl

end T2N.C10
