/-
  C10 — context independence: unrelated parts of a text are converted independently.
-/
import T2N.Lemmas.Scanner
import T2N.Model.Api

namespace T2N.C10
open T2N

/-- finishing a number resets the parser completely: nothing of the number just read (digits, flags,
marker, frozen, decimal mode) survives into the next one -/
theorem C10_parser_reset (cfg : ScanCfg) (s s' : Scanner) (h : s.numberEnd cfg = .ok s') :
    s'.parser = {} := by
  unfold Scanner.numberEnd at h
  cases hf : s.parser.finish cfg.lang with
  | error f => rw [hf] at h; cases h
  | ok r => rw [hf] at h; cases h; rfl

/-- a sequence breaker forgets the kind of the previous number: a number held back before it can
never be released afterwards (it is dropped by the next number or at the end) -/
theorem C10_breaker_forgets (t : Tracker) : t.breaker.last = Kind.none := rfl

theorem C10_held_dropped_after_breaker (t : Tracker) (isOrd : Bool) (text : Word) (v : Value) (forget : Bool) :
    (t.breaker.numberEnd isOrd text v forget).queue = t.queue ++ (if forget then [] else [⟨t.mstart, t.mend, text, v, isOrd⟩]) := by
  unfold Tracker.numberEnd Tracker.breaker
  dsimp only
  have : ∀ k : Kind, (if isOrd = true then Kind.ordinal else Kind.cardinal) = k → (Kind.none == k) = false := by
    intro k hk; cases isOrd <;> simp at hk <;> subst hk <;> rfl
  rw [this _ rfl]
  cases forget <;> simp

/-- the French `neuf` pass starts every decision from an empty scratch builder (the `b.reset()` that
the fix of F-fr-annotate-scratch added): the builder handed to the loop is irrelevant -/
theorem C10_fr_scratch_irrelevant (apply : Word → DS → Res × DS) (isDecSep : Word → Bool) (tw : List Nat)
    (amb : List Nat) (b b' : DS) (toks : List Tok) :
    annotateFrLoop apply isDecSep tw amb b toks = annotateFrLoop apply isDecSep tw amb b' toks := by
  induction amb generalizing b b' toks with
  | nil => rfl
  | cons i rest ih =>
    unfold annotateFrLoop
    by_cases hi : i < 2
    · rw [if_pos hi, if_pos hi]; exact ih b b' toks
    · rw [if_neg hi, if_neg hi]

end T2N.C10
