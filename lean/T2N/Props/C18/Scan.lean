/-
  C18 (scanner level) — what the hint set by the English annotation pass MEANS for the scanner.

  `C18_annotateEn_is_spec` (Props/C18.lean) says WHICH lone `o` tokens are hinted "not part of a number"; this
  module says what the scanner does with an `o`, hinted or not, for every token list, every threshold and
  every separation relation:

    * an `o` token that is NOT hinted is read exactly as the word `zero` would be in its place
      (`C18_o_like_zero`, `C18_o_like_zero_all`): same occurrences — spans, digit text, value, ordinal flag;
    * an `o` token that IS hinted is read exactly as an ordinary word — any word that the English interpreter
      refuses in every state and that is not a linking word (`xyzzy`, `clock`) — would be in its place, WITHOUT any
      hint (`C18_o_like_word`, `C18_o_like_word_all`).  No counter-example: a hinted token and a refused word go
      through different code (`pushNan` / the `Err` arm with its retry on a fresh parser) but reach the same
      state, because English refusals are atomic (C07) — `OScan.push_refused_eq_pushNan`;
    * hence (`C18_scan`, `C18_text`, `C18_text_scan`): the annotation pass followed by the search is the search on
      the token list rewritten by the neighbour rule `OScan.readO` — a plain walk over the tokens that needs
      neither hints nor the scratch builder: a significant `o` with a number word as nearest significant
      neighbour (either side) becomes `zero`, any other significant `o` becomes the ordinary word.

  A hinted token is never skipped (it ends the open number even if its text is a lone `-` or white space), an
  un-hinted one with such a text is.  So the stand-in for a hinted `o` has to look like the HINTED token
  (`SameLook cfg (markTok t) (fw t)`: in particular it is not skipped), and the text-level theorems ask that the text
  of an `o` token is not a lone `-` / white space (`Unskipped`; automatic for `simpleCC`: `C18_text_simple`).
  Counter-examples without these conditions: end of the file.
-/
import T2N.Lemmas.OScan
import T2N.Lemmas.WsText
import T2N.Props.C18

namespace T2N.C18
open T2N T2N.OScan

/-- an ordinary word: refused by the English interpreter in every state, and not a linking word -/
def Ordinary (w : Word) : Prop := En.lang.Rejects w ∧ En.lang.isLinking w = false

/-- the token with the word `zero` in place of its own word (text and hints kept) -/
def asZero (t : Tok) : Tok := { t with lower := w!"zero" }
/-- the token with the word `w` in place of its own word, un-hinted (text kept) -/
def asWord (w : Word) (t : Tok) : Tok := { t with lower := w, nan := false }
/-- the word token `zero` (text and word), same hints -/
def zeroTok (t : Tok) : Tok := { t with text := w!"zero", lower := w!"zero" }
/-- the word token `w` (text and word), un-hinted -/
def wordTok (w : Word) (t : Tok) : Tok := { t with text := w, lower := w, nan := false }

/-- a text that the scanner treats as a word: not the lone `-`, not all white space, with a letter -/
def Wordy (cc : CharClasses) (x : Word) : Prop :=
  (x == ['-']) = false ∧ x.all cc.isWhitespace = false ∧ x.all (fun c => !cc.isAlphabetic c) = false

instance (cc : CharClasses) (x : Word) : Decidable (Wordy cc x) := by unfold Wordy; infer_instance

theorem sameLook_wordy (cfg : ScanCfg) {a b : Tok} (ha : Wordy cfg.cc a.text) (hb : Wordy cfg.cc b.text) :
    SameLook cfg a b := by
  unfold SameLook Scanner.isSkipped
  rw [ha.1, ha.2.1, ha.2.2, hb.1, hb.2.1, hb.2.2]
  exact ⟨by simp, rfl⟩

/-- a text that the scanner does not skip, hinted or not: not the lone `-`, not all white space -/
def Unskipped (cc : CharClasses) (x : Word) : Prop := (x == ['-']) = false ∧ x.all cc.isWhitespace = false

instance (cc : CharClasses) (x : Word) : Decidable (Unskipped cc x) := by unfold Unskipped; infer_instance

theorem Wordy.unskipped {cc : CharClasses} {x : Word} (h : Wordy cc x) : Unskipped cc x := ⟨h.1, h.2.1⟩

theorem isSkipped_unskipped (cfg : ScanCfg) {a : Tok} (h : Unskipped cfg.cc a.text) :
    Scanner.isSkipped cfg a = false := by
  unfold Scanner.isSkipped; rw [h.1, h.2]; simp

theorem en_rejects_comma : En.lang.Rejects [','] :=
  C10.C10_en_rejects _ (by decide) (by decide) (by decide) (by decide)

/-- an un-hinted `o` against the same-looking token `zero` -/
theorem zero_osubst (cfg : ScanCfg) (hc : cfg.lang = En.lang) {a b : Tok} (ha : a.lower = ['o'])
    (hb : b.lower = w!"zero") (hn : b.nan = a.nan) (hl : SameLook cfg a b) : OSubst cfg a b :=
  Or.inl (tokRel_o_zero cfg hc ha hb hn.symm hl)

/-- a hinted `o` against a same-looking un-hinted ordinary word -/
theorem word_osubst (cfg : ScanCfg) (hc : cfg.lang = En.lang) {a b : Tok} (ha : a.lower = ['o'])
    (hna : a.nan = true) (hnb : b.nan = false) (hw : Ordinary b.lower) (hl : SameLook cfg a b) :
    OSubst cfg a b := by
  refine Or.inr ⟨hl.1, ?_, hna, hnb, ?_, Or.inr ?_⟩
  · apply breaks_of_sameLook cfg hl
    rw [hc, ha, hw.2]; rfl
  · rw [hc]; exact en_atomRej _ hw.1
  · rw [hc]; exact en_atomRej _ en_rejects_comma

theorem osubst_refl (cfg : ScanCfg) (a : Tok) : OSubst cfg a a := Or.inl (tokRel_refl cfg a)

/-! ### 1. an `o` that is not hinted is the word `zero` -/

/-- **C18 (an un-hinted `o` is `zero`), one position**: replacing the `o` token at position `i` by a token `z` whose
word is `zero`, with the same hints and the same look, changes no occurrence — for every token list, threshold
and (congruent) separation relation. -/
theorem C18_o_like_zero (cfg : ScanCfg) (hc : cfg.lang = En.lang) (hsep : SepRespects cfg) (toks : List Tok)
    (i : Nat) (z : Tok)
    (h : ∀ t, toks[i]? = some t → t.lower = ['o'] ∧ z.lower = w!"zero" ∧ z.nan = t.nan ∧ SameLook cfg t z) :
    findNumbers cfg (toks.set i z) = findNumbers cfg toks := by
  symm
  apply findNumbers_osubst cfg hsep
  apply listRel_set (osubst_refl cfg)
  intro t ht
  obtain ⟨h1, h2, h3, h4⟩ := h t ht
  exact zero_osubst cfg hc h1 h2 h3 h4

/-- **… all positions at once**: every un-hinted `o` replaced by `z t` -/
theorem C18_o_like_zero_all (cfg : ScanCfg) (hc : cfg.lang = En.lang) (hsep : SepRespects cfg) (toks : List Tok)
    (z : Tok → Tok)
    (h : ∀ t ∈ toks, t.lower = ['o'] → (z t).lower = w!"zero" ∧ (z t).nan = t.nan ∧ SameLook cfg t (z t)) :
    findNumbers cfg (toks.map (fun t => if t.lower == ['o'] && !t.nan then z t else t)) = findNumbers cfg toks := by
  symm
  apply findNumbers_osubst cfg hsep
  apply listRel_map
  intro t ht
  split
  · rename_i hcnd
    simp only [Bool.and_eq_true, beq_iff_eq] at hcnd
    obtain ⟨h2, h3, h4⟩ := h t ht hcnd.1
    exact zero_osubst cfg hc hcnd.1 h2 h3 h4
  · exact osubst_refl cfg t

/-- the two stand-ins used below qualify: the word alone … -/
theorem asZero_ok (cfg : ScanCfg) (t : Tok) :
    (asZero t).lower = w!"zero" ∧ (asZero t).nan = t.nan ∧ SameLook cfg t (asZero t) :=
  ⟨rfl, rfl, SameLook.of_text cfg rfl rfl⟩

/-- … and the full word token `zero`, when the replaced text is a word and `zero` is one -/
theorem zeroTok_ok (cfg : ScanCfg) (t : Tok) (ht : Wordy cfg.cc t.text) (hz : Wordy cfg.cc w!"zero") :
    (zeroTok t).lower = w!"zero" ∧ (zeroTok t).nan = t.nan ∧ SameLook cfg t (zeroTok t) :=
  ⟨rfl, rfl, sameLook_wordy cfg ht hz⟩

/-! ### 2. an `o` that is hinted is an ordinary word -/

/-- **in every scanner state** (reachable or not), pushing an un-hinted token whose word the English interpreter
refuses everywhere is exactly the `not_a_number_part` branch — the branch taken by a hinted token: the open number
(if any) is ended, the token is classified by `outside_number`, and the retry of the refused word on the fresh
parser leaves no trace.  (The two resulting states can differ only in the remembered previous token, which carries
the hint and is consulted only while a number is open — and none is, after this step.) -/
theorem C18_refused_word_step (cfg : ScanCfg) (hc : cfg.lang = En.lang) (s : Scanner) (pos : Nat) (b : Tok)
    (hsk : Scanner.isSkipped cfg b = false) (hnan : b.nan = false) (hw : En.lang.Rejects b.lower) :
    s.push cfg pos b = Scanner.pushNan cfg s b ∧
      s.push cfg pos { b with nan := true } = Scanner.pushNan cfg s { b with nan := true } :=
  ⟨push_refused_eq_pushNan cfg s pos b hsk hnan
      ⟨by rw [hc]; exact en_atomRej _ hw, Or.inr (by rw [hc]; exact en_atomRej _ en_rejects_comma)⟩,
    push_nan_eq cfg s pos _ (isSkipped_of_nan cfg rfl) rfl⟩

/-- **C18 (a hinted `o` is an ordinary word), one position**: replacing the hinted `o` token at position `i` by an
UN-hinted token `b` of the same look whose word is ordinary changes no occurrence — for every token list,
threshold and separation relation (no condition on `cfg.sep`: the forced stop `","` is refused too). -/
theorem C18_o_like_word (cfg : ScanCfg) (hc : cfg.lang = En.lang) (toks : List Tok) (i : Nat) (b : Tok)
    (h : ∀ t, toks[i]? = some t →
      t.lower = ['o'] ∧ t.nan = true ∧ b.nan = false ∧ Ordinary b.lower ∧ SameLook cfg t b) :
    findNumbers cfg (toks.set i b) = findNumbers cfg toks := by
  symm
  apply findNumbers_nanWord cfg
  apply listRel_set (fun a => (Or.inl rfl : EqOrNanWord cfg a a))
  intro t ht
  obtain ⟨h1, h2, h3, h4, h5⟩ := h t ht
  cases word_osubst cfg hc h1 h2 h3 h4 h5 with
  | inl hr => rw [hr.2.1] at h2; rw [h2] at h3; cases h3
  | inr hr => exact Or.inr hr

/-- **… all positions at once**: every hinted `o` replaced by `f t` -/
theorem C18_o_like_word_all (cfg : ScanCfg) (hc : cfg.lang = En.lang) (toks : List Tok) (f : Tok → Tok)
    (h : ∀ t ∈ toks, t.lower = ['o'] → t.nan = true →
      (f t).nan = false ∧ Ordinary (f t).lower ∧ SameLook cfg t (f t)) :
    findNumbers cfg (toks.map (fun t => if t.lower == ['o'] && t.nan then f t else t)) = findNumbers cfg toks := by
  symm
  apply findNumbers_nanWord cfg
  apply listRel_map
  intro t ht
  split
  · rename_i hcnd
    simp only [Bool.and_eq_true, beq_iff_eq] at hcnd
    obtain ⟨h3, h4, h5⟩ := h t ht hcnd.1 hcnd.2
    cases word_osubst cfg hc hcnd.1 hcnd.2 h3 h4 h5 with
    | inl hr => have h2 := hcnd.2; rw [hr.2.1] at h2; rw [h2] at h3; cases h3
    | inr hr => exact Or.inr hr
  · exact Or.inl rfl

/-- the un-hinted stand-in that keeps the text looks like the HINTED token when that text is not one the scanner
skips (a hinted token is never skipped, an un-hinted lone `-` or white space is: see the counter-example below) -/
theorem asWord_ok (cfg : ScanCfg) (w : Word) (hw : Ordinary w) (t : Tok) (ht : Unskipped cfg.cc t.text) :
    (asWord w t).nan = false ∧ Ordinary (asWord w t).lower ∧ SameLook cfg (markTok t) (asWord w t) :=
  ⟨rfl, hw, SameLook.of_text_hinted cfg rfl rfl (isSkipped_unskipped cfg ht)⟩

theorem wordTok_ok (cfg : ScanCfg) (w : Word) (hw : Ordinary w) (t : Tok) (ht : Wordy cfg.cc t.text)
    (hwt : Wordy cfg.cc w) :
    (wordTok w t).nan = false ∧ Ordinary (wordTok w t).lower ∧ SameLook cfg t (wordTok w t) :=
  ⟨rfl, hw, sameLook_wordy cfg ht hwt⟩

/-- … the same against the hinted token -/
theorem wordTok_ok_hinted (cfg : ScanCfg) (w : Word) (hw : Ordinary w) (t : Tok) (ht : Wordy cfg.cc t.text)
    (hwt : Wordy cfg.cc w) :
    (wordTok w t).nan = false ∧ Ordinary (wordTok w t).lower ∧ SameLook cfg (markTok t) (wordTok w t) :=
  wordTok_ok cfg w hw (markTok t) ht hwt

/-- `xyzzy` and `clock` are ordinary words (the hypothesis is satisfiable) -/
theorem ordinary_xyzzy : Ordinary w!"xyzzy" :=
  ⟨C10.C10_en_rejects _ (by decide) (by decide) (by decide) (by decide), by decide⟩
theorem ordinary_clock : Ordinary w!"clock" :=
  ⟨C10.C10_en_rejects _ (by decide) (by decide) (by decide) (by decide), by decide⟩

/-! ### 3. the pass and the search together: the neighbour rule on plain tokens -/

/-- the annotation pass, as a walk over the tokens (no indices, no scratch builder) -/
theorem C18_annotateEn_is_walk (cc : CharClasses) (toks : List Tok) :
    annotateEn cc En.apply toks = readO cc id markTok none toks := annotateEn_eq_readO cc toks

/-- **C18 (scanner)**: searching the annotated tokens = searching the tokens in which every significant `o` has been
REPLACED according to the neighbour rule — by `fz t` (a `zero`) when a nearest significant neighbour is a number
word, by `fw t` (an un-hinted ordinary word) otherwise — with no annotation at all. Any token list.
`fw t` has to look like the HINTED `o` (`markTok t`): a hinted token is never skipped, so `fw t` must not be a lone
`-` or white space (counter-example below). -/
theorem C18_scan (cfg : ScanCfg) (hc : cfg.lang = En.lang) (hsep : SepRespects cfg) (toks : List Tok)
    (fz fw : Tok → Tok)
    (hz : ∀ t ∈ toks, t.lower = ['o'] → (fz t).lower = w!"zero" ∧ (fz t).nan = t.nan ∧ SameLook cfg t (fz t))
    (hw : ∀ t ∈ toks, t.lower = ['o'] →
      (fw t).nan = false ∧ Ordinary (fw t).lower ∧ SameLook cfg (markTok t) (fw t)) :
    findNumbers cfg (annotateEn cfg.cc En.apply toks) = findNumbers cfg (readO cfg.cc fz fw none toks) := by
  rw [annotateEn_eq_readO]
  apply findNumbers_osubst cfg hsep
  apply readO_rel cfg.cc id markTok fz fw (osubst_refl cfg)
  intro t ht ho
  obtain ⟨z1, z2, z3⟩ := hz t ht ho
  obtain ⟨w1, w2, w3⟩ := hw t ht ho
  exact ⟨zero_osubst cfg hc ho z1 z2 z3, word_osubst cfg hc (a := markTok t) ho rfl w1 w2 w3⟩

/-- the configuration of `replace_numbers_in_text` for English -/
abbrev enCfg (cc : CharClasses) (thr : Nat → Bool) : ScanCfg := WsText.textCfg cc En.lang thr

theorem enCfg_sep (cc : CharClasses) (thr : Nat → Bool) : SepRespects (enCfg cc thr) :=
  WsText.noSep_respects _ rfl

/-- **C18 (text, search)**: for every text, character classes and threshold, the occurrences found after the
annotation pass are those found, with NO annotation pass, in the tokens where each significant `o` is replaced by the
word `zero` or by the ordinary word `w` according to the neighbour rule (texts of the tokens kept) — provided the
text of an `o` token is not one the scanner skips (automatic for sensible character classes: `C18_text_scan_simple`) -/
theorem C18_text_scan (cc : CharClasses) (thr : Nat → Bool) (w : Word) (hw : Ordinary w) (s : Word)
    (ho : ∀ t ∈ tokenize cc s, t.lower = ['o'] → Unskipped cc t.text) :
    findNumbers (enCfg cc thr) (Language.english.annotate cc (tokenize cc s)) =
      findNumbers (enCfg cc thr) (readO cc asZero (asWord w) none (tokenize cc s)) :=
  C18_scan (enCfg cc thr) rfl (enCfg_sep cc thr) _ asZero (asWord w)
    (fun t _ _ => asZero_ok _ t) (fun t ht h => asWord_ok _ w hw t (ho t ht h))

/-- … and the same with full word tokens `zero` / `w` (text replaced too), when the replaced tokens are words -/
theorem C18_text_scan_words (cc : CharClasses) (thr : Nat → Bool) (w : Word) (hw : Ordinary w) (s : Word)
    (hz : Wordy cc w!"zero") (hwt : Wordy cc w)
    (ho : ∀ t ∈ tokenize cc s, t.lower = ['o'] → Wordy cc t.text) :
    findNumbers (enCfg cc thr) (Language.english.annotate cc (tokenize cc s)) =
      findNumbers (enCfg cc thr) (readO cc zeroTok (wordTok w) none (tokenize cc s)) :=
  C18_scan (enCfg cc thr) rfl (enCfg_sep cc thr) _ zeroTok (wordTok w)
    (fun t ht h => zeroTok_ok _ t (ho t ht h) hz) (fun t ht h => wordTok_ok_hinted _ w hw t (ho t ht h) hwt)

/-- tokens with the same texts -/
def SameText (a b : Tok) : Prop := a.text = b.text

theorem flatMap_sameText : ∀ {as bs : List Tok}, ListRel SameText as bs →
    as.flatMap (·.text) = bs.flatMap (·.text)
  | [], [], _ => rfl
  | a :: as, b :: bs, h => by
    rw [List.flatMap_cons, List.flatMap_cons, h.1, flatMap_sameText h.2]
  | [], _ :: _, h => by cases h
  | _ :: _, [], h => by cases h

/-- **C18 (text)**: `replace_numbers_in_text` for English = tokenize, rewrite every significant lone `o` by the
neighbour rule (word `zero` / ordinary word `w`, no hints), search and splice — with no annotation pass.
Every text, every threshold, all character classes under which the text of an `o` token is not one the scanner
skips (`C18_text_simple`: no condition for `simpleCC`). -/
theorem C18_text (cc : CharClasses) (thr : Nat → Bool) (w : Word) (hw : Ordinary w) (s : Word)
    (ho : ∀ t ∈ tokenize cc s, t.lower = ['o'] → Unskipped cc t.text) :
    replaceText cc .english thr s =
      replaceTextWith (enCfg cc thr) (readO cc asZero (asWord w) none) s := by
  show replaceTextWith (enCfg cc thr) (Language.english.annotate cc) s = _
  unfold replaceTextWith
  dsimp only
  rw [C18_text_scan cc thr w hw s ho]
  cases findNumbers (enCfg cc thr) (readO cc asZero (asWord w) none (tokenize cc s)) with
  | error f => rfl
  | ok occs =>
    dsimp only
    have hrel : ListRel SameText (Language.english.annotate cc (tokenize cc s))
        (readO cc asZero (asWord w) none (tokenize cc s)) := by
      show ListRel SameText (annotateEn cc En.apply (tokenize cc s)) _
      rw [annotateEn_eq_readO]
      exact readO_rel (R := SameText) cc id markTok asZero (asWord w) (fun _ => rfl) _ _ (fun _ _ _ => ⟨rfl, rfl⟩)
    unfold replaceStream
    have h1 := WsText.replaceAll_rel (R := SameText) (basicReplace cc) (fun _ _ _ => rfl) occs.reverse hrel
    cases ha : replaceAll (basicReplace cc) occs.reverse (Language.english.annotate cc (tokenize cc s)) with
    | error f =>
      cases hb : replaceAll (basicReplace cc) occs.reverse (readO cc asZero (asWord w) none (tokenize cc s)) with
      | error f' => rw [ha, hb] at h1; simp only [WsText.ExRel] at h1; rw [h1]
      | ok t' => rw [ha, hb] at h1; cases h1
    | ok t =>
      cases hb : replaceAll (basicReplace cc) occs.reverse (readO cc asZero (asWord w) none (tokenize cc s)) with
      | error f' => rw [ha, hb] at h1; cases h1
      | ok t' =>
        rw [ha, hb] at h1
        dsimp only
        rw [flatMap_sameText h1]

/-! ### instances -/

/-- which `o` is read as what (`simpleCC`, stand-in word `xyzzy`) -/
example : (readO simpleCC asZero (asWord w!"xyzzy") none (tokenize simpleCC w!"five o five")).map (·.lower) =
    [w!"five", w!" ", w!"zero", w!" ", w!"five"] := by decide +kernel
example : (readO simpleCC asZero (asWord w!"xyzzy") none (tokenize simpleCC w!"o clock")).map (·.lower) =
    [w!"xyzzy", w!" ", w!"clock"] := by decide +kernel
example : (readO simpleCC asZero (asWord w!"xyzzy") none (tokenize simpleCC w!"twenty and o, five")).map (·.lower) =
    [w!"twenty", w!" ", w!"and", w!" ", w!"xyzzy", w!", ", w!"five"] := by decide +kernel

/-- `five o five`: the `o` has number words on both sides, it is a zero -/
example : replaceText simpleCC .english zeroThr w!"five o five" = .ok w!"5 05" := by rfl
example : replaceText simpleCC .english zeroThr w!"five zero five" = .ok w!"5 05" := by rfl
/-- `o clock`: no number word next to it, the `o` is an ordinary word -/
example : replaceText simpleCC .english zeroThr w!"o clock" = .ok w!"o clock" := by rfl
example : replaceText simpleCC .english zeroThr w!"five o clock" = .ok w!"5 0 clock" := by rfl
/-- `twenty and o, five`: `and` alone is not accepted on a fresh builder and `, ` is not a word, so the `o` is an
ordinary word — although number words are two tokens away on both sides -/
example : replaceText simpleCC .english zeroThr w!"twenty and o, five" = .ok w!"20 and o, 5" := by rfl
example : replaceText simpleCC .english zeroThr w!"twenty and xyzzy, five" = .ok w!"20 and xyzzy, 5" := by
  rfl

/-- with the explicit character classes `simpleCC` (lowercasing is the identity) every `o` token of a text is a
word, so the full word tokens `zero` / `w` can be used for every text -/
theorem lowerStr_simple (x : Word) : simpleCC.lowerStr x = x := by
  unfold CharClasses.lowerStr
  induction x with
  | nil => rfl
  | cons c cs ih => rw [List.flatMap_cons, ih]; rfl

/-- under `simpleCC` the text of an `o` token of a text is `o` -/
theorem simple_o_text (s : Word) (t : Tok) (ht : t ∈ tokenize simpleCC s) (ho : t.lower = ['o']) :
    t.text = ['o'] := by
  unfold tokenize at ht
  obtain ⟨x, _, hx⟩ := List.mem_map.mp ht
  subst hx
  have h1 : (basicToken simpleCC x).lower = simpleCC.lowerStr x := rfl
  rw [h1, lowerStr_simple] at ho
  exact ho

theorem C18_text_scan_words_simple (thr : Nat → Bool) (w : Word) (hw : Ordinary w) (hwt : Wordy simpleCC w)
    (s : Word) :
    findNumbers (enCfg simpleCC thr) (Language.english.annotate simpleCC (tokenize simpleCC s)) =
      findNumbers (enCfg simpleCC thr) (readO simpleCC zeroTok (wordTok w) none (tokenize simpleCC s)) := by
  apply C18_text_scan_words simpleCC thr w hw s (by decide) hwt
  intro t ht ho
  rw [simple_o_text s t ht ho]
  decide

/-- `C18_text_scan` / `C18_text` with the explicit character classes `simpleCC`: no condition on the text -/
theorem C18_text_scan_simple (thr : Nat → Bool) (w : Word) (hw : Ordinary w) (s : Word) :
    findNumbers (enCfg simpleCC thr) (Language.english.annotate simpleCC (tokenize simpleCC s)) =
      findNumbers (enCfg simpleCC thr) (readO simpleCC asZero (asWord w) none (tokenize simpleCC s)) :=
  C18_text_scan simpleCC thr w hw s (fun t ht ho => by rw [simple_o_text s t ht ho]; decide)

theorem C18_text_simple (thr : Nat → Bool) (w : Word) (hw : Ordinary w) (s : Word) :
    replaceText simpleCC .english thr s =
      replaceTextWith (enCfg simpleCC thr) (readO simpleCC asZero (asWord w) none) s :=
  C18_text simpleCC thr w hw s (fun t ht ho => by rw [simple_o_text s t ht ho]; decide)

/-- the theorem on these texts -/
example (thr : Nat → Bool) : replaceText simpleCC .english thr w!"twenty and o, five" =
    replaceTextWith (enCfg simpleCC thr) (readO simpleCC asZero (asWord w!"xyzzy") none) w!"twenty and o, five" :=
  C18_text_simple thr _ ordinary_xyzzy _

example (thr : Nat → Bool) :
    findNumbers (enCfg simpleCC thr) (Language.english.annotate simpleCC (tokenize simpleCC w!"it is o five o clock")) =
      findNumbers (enCfg simpleCC thr)
        (readO simpleCC zeroTok (wordTok w!"xyzzy") none (tokenize simpleCC w!"it is o five o clock")) :=
  C18_text_scan_words_simple thr _ ordinary_xyzzy (by decide) _

/-- one position (`C18_o_like_zero`): the un-hinted `o` of `five o five` replaced by the word token `zero` -/
example (thr : Nat → Bool) :
    findNumbers (enCfg simpleCC thr)
        ((Language.english.annotate simpleCC (tokenize simpleCC w!"five o five")).set 2
          { text := w!"zero", lower := w!"zero" }) =
      findNumbers (enCfg simpleCC thr) (Language.english.annotate simpleCC (tokenize simpleCC w!"five o five")) := by
  apply C18_o_like_zero _ rfl (enCfg_sep _ _)
  intro t ht
  have h2 : (Language.english.annotate simpleCC (tokenize simpleCC w!"five o five"))[2]? =
      some { text := w!"o", lower := w!"o" } := by decide +kernel
  rw [h2] at ht; cases ht
  exact ⟨rfl, rfl, rfl, sameLook_wordy _ (show Wordy simpleCC w!"o" by decide) (show Wordy simpleCC w!"zero" by decide)⟩

/-- one position (`C18_o_like_word`): the hinted `o` of `o clock` replaced by the un-hinted word token `xyzzy` -/
example (thr : Nat → Bool) :
    findNumbers (enCfg simpleCC thr)
        ((Language.english.annotate simpleCC (tokenize simpleCC w!"o clock")).set 0
          { text := w!"xyzzy", lower := w!"xyzzy" }) =
      findNumbers (enCfg simpleCC thr) (Language.english.annotate simpleCC (tokenize simpleCC w!"o clock")) := by
  apply C18_o_like_word _ rfl
  intro t ht
  have h2 : (Language.english.annotate simpleCC (tokenize simpleCC w!"o clock"))[0]? =
      some { text := w!"o", lower := w!"o", nan := true } := by decide +kernel
  rw [h2] at ht; cases ht
  exact ⟨rfl, rfl, rfl, ordinary_xyzzy, sameLook_wordy _ (show Wordy simpleCC w!"o" by decide)
    (show Wordy simpleCC w!"xyzzy" by decide)⟩

/-- "not a linking word" is necessary in `Ordinary`: a hinted token ends a sequence, the linking word `uh` (which
the interpreter also refuses in every state) does not — with threshold 10, `one uh two` is a sequence (both
reported), `one o two` with a hinted `o` is not (both held back) -/
example : findNumbers (enCfg simpleCC (fun n => n < 10))
    [{ text := w!"one", lower := w!"one" }, { text := w!"o", lower := w!"o", nan := true },
     { text := w!"two", lower := w!"two" }] = .ok [] := by rfl
example : findNumbers (enCfg simpleCC (fun n => n < 10))
    [{ text := w!"one", lower := w!"one" }, { text := w!"uh", lower := w!"uh" },
     { text := w!"two", lower := w!"two" }] =
    .ok [⟨0, 1, w!"1", .dec [1] [], false⟩, ⟨2, 3, w!"2", .dec [2] [], false⟩] := by rfl

/-! ### why the stand-in must look like the HINTED token

A token hinted "not part of a number" is never skipped: it ends the open number even when its text is a lone `-` or
white space.  An un-hinted token with such a text is skipped.  So the stand-in for a hinted `o` must not have such a
text — `SameLook cfg (markTok t) (fw t)` in `C18_scan`, `Unskipped` in `C18_text_scan` / `C18_text`. -/

/-- token lists: an `o` whose text is a lone `-`, between two `-` tokens; hinted it splits `twenty … five`, the
un-hinted stand-in with the same text does not (and `SameLook cfg t (asWord w t)` holds for the un-hinted `t`) -/
def hyphenO : List Tok := [{ text := w!"twenty", lower := w!"twenty" }, { text := w!"-", lower := w!"-" },
  { text := w!"-", lower := w!"o" }, { text := w!"-", lower := w!"-" }, { text := w!"five", lower := w!"five" }]

example : findNumbers (enCfg simpleCC zeroThr) (annotateEn simpleCC En.apply hyphenO) =
    .ok [⟨0, 1, w!"20", .dec [2, 0] [], false⟩, ⟨4, 5, w!"5", .dec [5] [], false⟩] := by rfl
example : findNumbers (enCfg simpleCC zeroThr) (readO simpleCC asZero (asWord w!"xyzzy") none hyphenO) =
    .ok [⟨0, 5, w!"25", .dec [2, 5] [], false⟩] := by rfl
example (t : Tok) (ht : t = { text := w!"-", lower := w!"o" }) :
    SameLook (enCfg simpleCC zeroThr) t (asWord w!"xyzzy" t) ∧ ¬ Unskipped simpleCC t.text := by
  subst ht; exact ⟨SameLook.of_text _ rfl rfl, by decide⟩

/-- texts: character classes under which the tab is white space and a letter and lowercases to `o`; the tab token of
`one uh<TAB>uh two` is then a significant `o` with no number word next to it: hinted it breaks the sequence `one … two`
(threshold 10: both held back), the un-hinted stand-in with the same text is skipped (both reported) -/
def tabOCC : CharClasses where
  isWhitespace := simpleCC.isWhitespace
  isAlphabetic := fun c => c == '\t' || simpleCC.isAlphabetic c
  isAlphanumeric := simpleCC.isAlphanumeric
  lower := fun c => if c == '\t' then ['o'] else [c]

example : replaceText tabOCC .english (fun n => n < 10) w!"one uh\tuh two" = .ok w!"one uh\tuh two" := by rfl
example : replaceTextWith (enCfg tabOCC (fun n => n < 10)) (readO tabOCC asZero (asWord w!"xyzzy") none)
    w!"one uh\tuh two" = .ok w!"1 uh\tuh 2" := by rfl

end T2N.C18
