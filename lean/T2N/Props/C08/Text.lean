/-
  C08 (text level) — DIGIT DICTATION: the digits `ds` dictated one word each, standing in a sentence of ordinary words
  joined by single spaces, are REWRITTEN by `replace_numbers_in_text` as the dictation groups of `ds` (zeros attach to the
  following non-zero digit, trailing zeros stand alone: `Spec.dictationGroups`), joined by single spaces, the other words
  kept: `replaceText cc <language> thr (joinWords (pre ++ ds.map digitWord ++ post)) =
           .ok (joinWords (pre ++ groups ++ post))`.

  * character classes: any `cc` satisfying `TextLaws` and `AlphaLaws` (T2N/Lemmas/C01Text.lean; `simpleCC` does);
  * `pre` / `post`: `Ordinary` words (refused by the language in every state, single lower-case tokens);
  * threshold 0 (`∀ n, thr n = false`), as for the scanner-level theorems `C08_dictation_<l>_all`: the groups are mostly
    one-digit numbers, and which small numbers are kept at a positive threshold is the matter of C06;
  * French: a lone `neuf` (`ds = [9]`) carries the hypothesis of `C01_text_fr`; in a longer dictation every `neuf` has a
    digit-word neighbour.
  Proofs: T2N/Lemmas/TextCor/Dictation.lean — the occurrences do not depend on the character classes (`findNumbers_cc`);
  they are ordered, disjoint, begin and end on word tokens and every digit word lies in one of them, hence they tile the
  phrase (`tiled_of_cover`); the splice of tiling occurrences (`splice_tiled`). The pairs theorems `C08_pairs_<l>_all`
  are NOT lifted: a conjunction between two numbers stays in the text, so the spans would have to be known exactly.
-/
import T2N.Props.C08
import T2N.Props.C01.Text
import T2N.Lemmas.TextCor.Dictation
import T2N.Lemmas.TextCor.DecFr

namespace T2N.C08
open T2N T2N.Lift T2N.Spec T2N.C01Text T2N.TextCor

/-- generic in the language: the digit words are over the alphabet and accepted by the fresh builder, and the
scanner-level dictation theorem holds -/
theorem C08_text_dictation_of {cc : CharClasses} (L : TextLaws cc) (A : AlphaLaws cc) (l : Language) (thr : Nat → Bool)
    (hthr : ∀ n, thr n = false) (hmem : l.interp ∈ allLangs) (hl : LangAgree l.interp) (dw : Nat → Word)
    (hover : ∀ d, d < 10 → isOver (dw d) = true) (hacc : ∀ d, d < 10 → (l.interp.apply (dw d) DS.new).1 = none)
    (ds : List Nat) (hds : ds ≠ []) (h9 : ∀ d ∈ ds, d < 10)
    (hocc : ∃ occs, findNumbers (scanCfg l.interp zeroThr) (wordTokens (ds.map dw)) = .ok occs ∧
      occs.map (·.text) = (dictationGroups ds).map (fun g => g.map digitChar))
    (pre post : List Word) (hpre : ∀ w ∈ pre, Ordinary cc l.interp w) (hpost : ∀ w ∈ post, Ordinary cc l.interp w)
    (hann : l.annotate cc (wordTokens (pre ++ ds.map dw ++ post)) = wordTokens (pre ++ ds.map dw ++ post)) :
    replaceText cc l thr (joinWords (pre ++ ds.map dw ++ post)) =
      .ok (joinWords (pre ++ (dictationGroups ds).map (fun g => g.map digitChar) ++ post)) := by
  obtain ⟨occs, h0, htx⟩ := hocc
  rw [← htx]
  refine replaceText_tiled L A l thr hthr hmem hl (ds.map dw) (by simpa using hds) ?_ ?_ occs h0 pre post hpre hpost hann
  · intro w hw
    obtain ⟨d, hd, rfl⟩ := List.mem_map.mp hw
    exact hover d (h9 d hd)
  · intro w hw
    obtain ⟨d, hd, rfl⟩ := List.mem_map.mp hw
    exact hacc d (h9 d hd)

/-! ### English -/

/-- **C08 (en), digit dictation, text level** -/
theorem C08_text_dictation_en {cc : CharClasses} (L : TextLaws cc) (A : AlphaLaws cc) (thr : Nat → Bool)
    (hthr : ∀ n, thr n = false) (ds : List Nat) (hds : ds ≠ []) (h9 : ∀ d ∈ ds, d < 10)
    (pre post : List Word) (hpre : ∀ w ∈ pre, Ordinary cc En.lang w) (hpost : ∀ w ∈ post, Ordinary cc En.lang w) :
    replaceText cc .english thr (joinWords (pre ++ ds.map Spec.En.digitWord ++ post)) =
      .ok (joinWords (pre ++ (dictationGroups ds).map (fun g => g.map digitChar) ++ post)) := by
  refine C08_text_dictation_of L A .english thr hthr (by simp [Language.interp, allLangs]) T2N.C07.C07_langAgree_en
    Spec.En.digitWord (by decide) (by decide) ds hds h9 (C08_dictation_en_occ_all ds h9) pre post hpre hpost ?_
  show annotateEn cc En.lang.apply _ = _
  apply annotateEn_wordTokens
  intro w hw
  rw [List.mem_append, List.mem_append] at hw
  rcases hw with (hw | hw) | hw
  · exact ne_of_rejects (hpre w hw).1 (by decide)
  · obtain ⟨d, hd, rfl⟩ := List.mem_map.mp hw
    have : ∀ d, d < 10 → Spec.En.digitWord d ≠ ['o'] := by decide
    exact this d (h9 d hd)
  · exact ne_of_rejects (hpost w hw).1 (by decide)

/-! ### Spanish, Portuguese, Italian, German, Dutch (no annotation pass) -/

/-- **C08 (es), digit dictation, text level** -/
theorem C08_text_dictation_es {cc : CharClasses} (L : TextLaws cc) (A : AlphaLaws cc) (thr : Nat → Bool)
    (hthr : ∀ n, thr n = false) (ds : List Nat) (hds : ds ≠ []) (h9 : ∀ d ∈ ds, d < 10)
    (pre post : List Word) (hpre : ∀ w ∈ pre, Ordinary cc Es.lang w) (hpost : ∀ w ∈ post, Ordinary cc Es.lang w) :
    replaceText cc .spanish thr (joinWords (pre ++ ds.map Spec.Es.digitWord ++ post)) =
      .ok (joinWords (pre ++ (dictationGroups ds).map (fun g => g.map digitChar) ++ post)) :=
  C08_text_dictation_of L A .spanish thr hthr (by simp [Language.interp, allLangs]) T2N.C07.C07_langAgree_es
    Spec.Es.digitWord (by decide) (by decide) ds hds h9 (C08_dictation_es_occ_all ds h9) pre post hpre hpost rfl

/-- **C08 (pt), digit dictation, text level** -/
theorem C08_text_dictation_pt {cc : CharClasses} (L : TextLaws cc) (A : AlphaLaws cc) (thr : Nat → Bool)
    (hthr : ∀ n, thr n = false) (ds : List Nat) (hds : ds ≠ []) (h9 : ∀ d ∈ ds, d < 10)
    (pre post : List Word) (hpre : ∀ w ∈ pre, Ordinary cc Pt.lang w) (hpost : ∀ w ∈ post, Ordinary cc Pt.lang w) :
    replaceText cc .portuguese thr (joinWords (pre ++ ds.map Spec.Pt.digitWord ++ post)) =
      .ok (joinWords (pre ++ (dictationGroups ds).map (fun g => g.map digitChar) ++ post)) :=
  C08_text_dictation_of L A .portuguese thr hthr (by simp [Language.interp, allLangs]) T2N.C07.C07_langAgree_pt
    Spec.Pt.digitWord (by decide) (by decide) ds hds h9 (C08_dictation_pt_occ_all ds h9) pre post hpre hpost rfl

/-- **C08 (it), digit dictation, text level** -/
theorem C08_text_dictation_it {cc : CharClasses} (L : TextLaws cc) (A : AlphaLaws cc) (thr : Nat → Bool)
    (hthr : ∀ n, thr n = false) (ds : List Nat) (hds : ds ≠ []) (h9 : ∀ d ∈ ds, d < 10)
    (pre post : List Word) (hpre : ∀ w ∈ pre, Ordinary cc It.lang w) (hpost : ∀ w ∈ post, Ordinary cc It.lang w) :
    replaceText cc .italian thr (joinWords (pre ++ ds.map Spec.It.digitWord ++ post)) =
      .ok (joinWords (pre ++ (dictationGroups ds).map (fun g => g.map digitChar) ++ post)) :=
  C08_text_dictation_of L A .italian thr hthr (by simp [Language.interp, allLangs]) T2N.C07.C07_langAgree_it
    Spec.It.digitWord (by decide) (by decide) ds hds h9 (C08_dictation_it_occ_all ds h9) pre post hpre hpost rfl

/-- **C08 (de), digit dictation, text level** -/
theorem C08_text_dictation_de {cc : CharClasses} (L : TextLaws cc) (A : AlphaLaws cc) (thr : Nat → Bool)
    (hthr : ∀ n, thr n = false) (ds : List Nat) (hds : ds ≠ []) (h9 : ∀ d ∈ ds, d < 10)
    (pre post : List Word) (hpre : ∀ w ∈ pre, Ordinary cc De.lang w) (hpost : ∀ w ∈ post, Ordinary cc De.lang w) :
    replaceText cc .german thr (joinWords (pre ++ ds.map Spec.De.digitWord ++ post)) =
      .ok (joinWords (pre ++ (dictationGroups ds).map (fun g => g.map digitChar) ++ post)) :=
  C08_text_dictation_of L A .german thr hthr (by simp [Language.interp, allLangs]) T2N.C07.C07_langAgree_de
    Spec.De.digitWord (by decide) (by decide) ds hds h9 (C08_dictation_de_occ_all ds h9) pre post hpre hpost rfl

/-- **C08 (nl), digit dictation, text level** -/
theorem C08_text_dictation_nl {cc : CharClasses} (L : TextLaws cc) (A : AlphaLaws cc) (thr : Nat → Bool)
    (hthr : ∀ n, thr n = false) (ds : List Nat) (hds : ds ≠ []) (h9 : ∀ d ∈ ds, d < 10)
    (pre post : List Word) (hpre : ∀ w ∈ pre, Ordinary cc Nl.lang w) (hpost : ∀ w ∈ post, Ordinary cc Nl.lang w) :
    replaceText cc .dutch thr (joinWords (pre ++ ds.map Spec.Nl.digitWord ++ post)) =
      .ok (joinWords (pre ++ (dictationGroups ds).map (fun g => g.map digitChar) ++ post)) :=
  C08_text_dictation_of L A .dutch thr hthr (by simp [Language.interp, allLangs]) T2N.C07.C07_langAgree_nl
    Spec.Nl.digitWord (by decide) (by decide) ds hds h9 (C08_dictation_nl_occ_all ds h9) pre post hpre hpost rfl

/-! ### French -/

/-- **C08 (fr), digit dictation, text level**; a lone `neuf` (`ds = [9]`) carries the hypothesis of `C01_text_fr` on
the words before it (necessary: `T2N.C01.C01_text_fr_neuf_kept`) -/
theorem C08_text_dictation_fr {cc : CharClasses} (L : TextLaws cc) (A : AlphaLaws cc) (thr : Nat → Bool)
    (hthr : ∀ n, thr n = false) (ds : List Nat) (hds : ds ≠ []) (h9 : ∀ d ∈ ds, d < 10)
    (pre post : List Word) (hpre : ∀ w ∈ pre, Ordinary cc Fr.lang w) (hpost : ∀ w ∈ post, Ordinary cc Fr.lang w)
    (hneuf : ds = [9] → T2N.C01.C01_text_fr_neufMarked pre = false) :
    replaceText cc .french thr (joinWords (pre ++ ds.map Spec.Fr.digitWord ++ post)) =
      .ok (joinWords (pre ++ (dictationGroups ds).map (fun g => g.map digitChar) ++ post)) := by
  have hover : ∀ d, d < 10 → isOver (Spec.Fr.digitWord d) = true := by decide
  have hacc : ∀ d, d < 10 → (Fr.lang.apply (Spec.Fr.digitWord d) DS.new).1 = none := by decide
  refine C08_text_dictation_of L A .french thr hthr (by simp [Language.interp, allLangs]) T2N.C07.C07_langAgree_fr
    Spec.Fr.digitWord hover hacc ds hds h9 (C08_dictation_fr_occ_all ds h9) pre post hpre hpost ?_
  show annotateFr cc Fr.lang.apply Fr.lang.isDecSep _ = _
  have hws : ∀ w ∈ ds.map Spec.Fr.digitWord, isOver w = true ∧ (Fr.apply w DS.new).1 = none := by
    intro w hw
    obtain ⟨d, hd, rfl⟩ := List.mem_map.mp hw
    exact ⟨hover d (h9 d hd), hacc d (h9 d hd)⟩
  have hplain := plain_of_parts L A Fr.lang pre (ds.map Spec.Fr.digitWord) post hpre (fun w hw => (hws w hw).1) hpost
  apply C01Text.Fr.annotateFr_wordTokens L _ (fun w hw => isPlainWord_tok (hplain w hw))
  intro i hi hn
  generalize hW : ds.map Spec.Fr.digitWord = ws at hws hi hn ⊢
  have hnr : ∀ w, Fr.lang.Rejects w → w ≠ w!"neuf" := fun w h => ne_of_rejects h C01Text.Fr.neuf_acc
  -- the `neuf` is a digit word
  have h1 : pre.length ≤ i := by
    cases Nat.lt_or_ge i pre.length with
    | inr h => exact h
    | inl h =>
      exfalso
      rw [List.append_assoc, C01Text.Fr.getD_pre pre _ i h] at hn
      exact hnr _ (hpre _ (C01Text.Fr.getD_mem h)).1 hn
  have h2 : i < pre.length + ws.length := by
    cases Nat.lt_or_ge i (pre.length + ws.length) with
    | inl h => exact h
    | inr h =>
      exfalso
      obtain ⟨q, rfl⟩ : ∃ q, i = pre.length + ws.length + q := ⟨i - (pre.length + ws.length), by omega⟩
      rw [C01Text.Fr.getD_post] at hn
      have hq : q < post.length := by
        simp only [List.length_append] at hi; omega
      exact hnr _ (hpost _ (C01Text.Fr.getD_mem hq)).1 hn
  obtain ⟨p, rfl⟩ : ∃ p, i = pre.length + p := ⟨i - pre.length, by omega⟩
  have hp : p < ws.length := by omega
  by_cases hp0 : p = 0
  · subst hp0
    by_cases hlen : 2 ≤ ws.length
    · apply TextCor.Fr.frDecW_next_acc _ _ (by simp only [List.length_append]; omega)
      rw [show pre.length + 0 + 1 = pre.length + 1 from rfl, C01Text.Fr.getD_mid pre ws post 1 hlen]
      exact (hws _ (C01Text.Fr.getD_mem hlen)).2
    · -- a lone digit word, which is `neuf`
      have hds1 : ds = [9] := by
        rw [C01Text.Fr.getD_mid pre ws post 0 hp] at hn
        cases ds with
        | nil => exact absurd rfl hds
        | cons d t =>
          cases t with
          | cons d2 t2 => rw [← hW] at hlen; simp at hlen
          | nil =>
            rw [← hW] at hn
            have hd : d < 10 := h9 d (List.mem_cons_self ..)
            have key : ∀ d, d < 10 → Spec.Fr.digitWord d = w!"neuf" → d = 9 := by decide
            have : Spec.Fr.digitWord d = w!"neuf" := hn
            rw [key d hd this]
      rw [Nat.add_zero, List.append_assoc]
      exact TextCor.Fr.frDecW_not_marked pre _ (hneuf hds1)
  · apply TextCor.Fr.frDecW_prev_acc
    have e2 : pre.length + p - 1 = pre.length + (p - 1) := by omega
    rw [e2, C01Text.Fr.getD_mid pre ws post (p - 1) (by omega)]
    exact (hws _ (C01Text.Fr.getD_mem (show p - 1 < ws.length by omega))).2

/-! ### examples -/

/-- the hypotheses are satisfiable: `code zero zero seven one zero please` ↦ `code 007 1 0 please` -/
example : replaceText simpleCC .english zeroThr
    (joinWords ([w!"code"] ++ [0, 0, 7, 1, 0].map Spec.En.digitWord ++ [w!"please"])) =
    .ok (joinWords ([w!"code"] ++ (dictationGroups [0, 0, 7, 1, 0]).map (fun g => g.map digitChar) ++ [w!"please"])) :=
  C08_text_dictation_en simple_textLaws simple_alphaLaws zeroThr (fun _ => rfl) _ (by decide) (by decide) _ _
    (fun w hw => by
      have : w = w!"code" := by simpa using hw
      subst this
      exact T2N.C01.C01_text_en_ordinary _ (fun _ => rfl) (fun _ => rfl) rfl (by decide))
    (fun w hw => by
      have : w = w!"please" := by simpa using hw
      subst this
      exact T2N.C01.C01_text_en_ordinary _ (fun _ => rfl) (fun _ => rfl) rfl (by decide))

/-- plain strings, every language (threshold 0) -/
example : T2N.C01.C01_text_is (replaceText simpleCC .english zeroThr "code zero zero seven one zero please".toList)
    "code 007 1 0 please" = true := by decide +kernel
example : T2N.C01.C01_text_is (replaceText simpleCC .french zeroThr "code zéro zéro sept neuf zéro merci".toList)
    "code 007 9 0 merci" = true := by decide +kernel
example : T2N.C01.C01_text_is (replaceText simpleCC .spanish zeroThr "clave cero cero siete uno cero gracias".toList)
    "clave 007 1 0 gracias" = true := by decide +kernel
example : T2N.C01.C01_text_is (replaceText simpleCC .portuguese zeroThr "senha zero zero sete um zero obrigado".toList)
    "senha 007 1 0 obrigado" = true := by decide +kernel
example : T2N.C01.C01_text_is (replaceText simpleCC .italian zeroThr "codice zero zero sette uno zero grazie".toList)
    "codice 007 1 0 grazie" = true := by decide +kernel
example : T2N.C01.C01_text_is (replaceText simpleCC .german zeroThr "kennzahl null null sieben eins null bitte".toList)
    "kennzahl 007 1 0 bitte" = true := by decide +kernel
example : T2N.C01.C01_text_is (replaceText simpleCC .dutch zeroThr "kamer nul nul zeven een nul graag".toList)
    "kamer 007 1 0 graag" = true := by decide +kernel

end T2N.C08
